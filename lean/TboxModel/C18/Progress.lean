/-
C18 — the PROGRESS form of "no lost wake-up".

`Inv` (Spec.lean) is the invariant form: a routine suspended in recv / lock / acquire implies that the
channel is empty / the mutex is held / the count is zero.  Here: in every maximal execution (the ready
queue is drained at a pass boundary) of a script program whose blocking calls are matched, ALL routines
are dead.

Script programs: the main context only defines scripts (no xfail), creates routines (run_now = true)
and lets the loop run.  Every created script has a role:
  producer  yield / send / release            (never blocks)
  consumer  yield / recv / acquire            (blocks only on what producers supply)
  locker    critical sections `lock m … unlock m` around producer operations, not nested
and per channel the receives do not outnumber the sends, per semaphore `k` (initial count `k`) the
acquires do not outnumber `k` + the releases.
-/
import TboxModel.C18.Trace
namespace Tbox.C18

/-! ## the program class (all `Bool`) -/

/-- never blocks -/
def simpleOp : Op → Bool
  | .yield | .send _ _ | .release _ => true
  | _ => false

/-- consumer operation: blocks only on things producers supply; never sends / releases -/
def consOp : Op → Bool
  | .yield | .recv _ | .acquire _ => true
  | _ => false

/-- the operations in which a routine of the class can be suspended -/
def blkOp : Op → Bool
  | .recv _ | .lock _ | .acquire _ => true
  | _ => false

/-- a sequence of critical sections; the state is the mutex of the open section -/
def sections : Option Nat → List Op → Bool
  | none, [] => true
  | some _, [] => false
  | st, op :: rest =>
      if simpleOp op then sections st rest
      else match st, op with
        | none, .lock m => sections (some m) rest
        | some m, .unlock m' => decide (m' = m) && sections none rest
        | _, _ => false

/-- producer, consumer or locker -/
def roleOK (l : List Op) : Bool := l.all simpleOp || l.all consOp || sections none l

/-- producers and consumers only -/
def noLocker (l : List Op) : Bool := l.all simpleOp || l.all consOp

def MainOK : MainOp → Bool
  | .define false _ | .new _ true | .pass => true
  | _ => false

/-- the scripts of the routines created, in creation order (`defs` as `applyMain`/`createCore` keep them) -/
def createdAux : List (Bool × List Op) → List MainOp → List (List Op)
  | _, [] => []
  | defs, .define xf l :: ops => createdAux (defs ++ [(xf, l)]) ops
  | defs, .new d _ :: ops => (defs.getD d (false, [])).2 :: createdAux defs ops
  | defs, _ :: ops => createdAux defs ops

def created (ops : List MainOp) : List (List Op) := createdAux [] ops

def isSend (c : Nat) : Op → Bool
  | .send c' _ => c' == c
  | _ => false
def isRecv (c : Nat) : Op → Bool
  | .recv c' => c' == c
  | _ => false
def isAcqOp (k : Nat) : Op → Bool
  | .acquire k' => k' == k
  | _ => false
def isRelOp (k : Nat) : Op → Bool
  | .release k' => k' == k
  | _ => false

/-- the channels mentioned -/
def chansOf (l : List Op) : List Nat :=
  l.filterMap fun
    | .recv c => some c
    | .send c _ => some c
    | _ => none

/-- the semaphores mentioned -/
def semsOf (l : List Op) : List Nat :=
  l.filterMap fun
    | .acquire k => some k
    | .release k => some k
    | _ => none

/-- receives ≤ sends per channel, acquires ≤ initial count + releases per semaphore -/
def balanced (F : List Op) : Bool :=
  (chansOf F).all (fun c => decide (F.countP (isRecv c) ≤ F.countP (isSend c))) &&
  (semsOf F).all (fun k => decide (F.countP (isAcqOp k) ≤ k + F.countP (isRelOp k)))

def Matched (ops : List MainOp) : Bool :=
  ops.all MainOK && (created ops).all roleOK && balanced (created ops).flatten

/-! ## roles of remaining scripts -/

/-- role of a *remaining* script (suffix closed) -/
def rrole (l : List Op) : Prop :=
  l.all simpleOp = true ∨ l.all consOp = true ∨ ∃ st, sections st l = true

theorem roleOK_rrole {l : List Op} (h : roleOK l = true) : rrole l := by
  unfold roleOK at h
  simp only [Bool.or_eq_true] at h
  rcases h with (h | h) | h
  · exact Or.inl h
  · exact Or.inr (Or.inl h)
  · exact Or.inr (Or.inr ⟨none, h⟩)

theorem sections_cons {st : Option Nat} {op : Op} {rest : List Op} (h : sections st (op :: rest) = true) :
    (simpleOp op = true ∧ sections st rest = true) ∨
    (∃ m, st = none ∧ op = .lock m ∧ sections (some m) rest = true) ∨
    (∃ m, st = some m ∧ op = .unlock m ∧ sections none rest = true) := by
  unfold sections at h
  by_cases hs : simpleOp op = true
  · simp only [hs, if_true] at h; exact Or.inl ⟨hs, h⟩
  · simp only [hs] at h
    cases st <;> cases op <;> simp_all [simpleOp]

theorem rrole_tail {op : Op} {rest : List Op} (h : rrole (op :: rest)) : rrole rest := by
  rcases h with h | h | ⟨st, h⟩
  · simp only [List.all_cons, Bool.and_eq_true] at h; exact Or.inl h.2
  · simp only [List.all_cons, Bool.and_eq_true] at h; exact Or.inr (Or.inl h.2)
  · rcases sections_cons h with ⟨_, h⟩ | ⟨m, _, _, h⟩ | ⟨m, _, _, h⟩
    · exact Or.inr (Or.inr ⟨_, h⟩)
    · exact Or.inr (Or.inr ⟨_, h⟩)
    · exact Or.inr (Or.inr ⟨_, h⟩)

/-- the seven operations of the class -/
def okOp : Op → Bool
  | .yield | .send _ _ | .release _ | .recv _ | .acquire _ | .lock _ | .unlock _ => true
  | _ => false

theorem rrole_head {op : Op} {rest : List Op} (h : rrole (op :: rest)) : okOp op = true := by
  rcases h with h | h | ⟨st, h⟩
  · simp only [List.all_cons, Bool.and_eq_true] at h; cases op <;> simp_all [simpleOp, okOp]
  · simp only [List.all_cons, Bool.and_eq_true] at h; cases op <;> simp_all [consOp, okOp]
  · rcases sections_cons h with ⟨h, _⟩ | ⟨m, _, h, _⟩ | ⟨m, _, h, _⟩
    · cases op <;> simp_all [simpleOp, okOp]
    · subst h; rfl
    · subst h; rfl

theorem rrole_lock {m : Nat} {rest : List Op} (h : rrole (.lock m :: rest)) : sections (some m) rest = true := by
  rcases h with h | h | ⟨st, h⟩
  · simp [simpleOp] at h
  · simp [consOp] at h
  · rcases sections_cons h with ⟨h, _⟩ | ⟨m', _, h, h'⟩ | ⟨m', _, h, _⟩
    · simp [simpleOp] at h
    · cases h; exact h'
    · cases h

theorem rrole_unlock {m : Nat} {rest : List Op} (h : rrole (.unlock m :: rest)) : sections none rest = true := by
  rcases h with h | h | ⟨st, h⟩
  · simp [simpleOp] at h
  · simp [consOp] at h
  · rcases sections_cons h with ⟨h, _⟩ | ⟨m', _, h, _⟩ | ⟨m', _, h, h'⟩
    · simp [simpleOp] at h
    · cases h
    · exact h'

/-- inside the section of `m'` the next operation is simple or `unlock m'` -/
theorem sections_some_cons {m' : Nat} {op : Op} {rest : List Op} (h : sections (some m') (op :: rest) = true) :
    (simpleOp op = true ∧ sections (some m') rest = true) ∨ op = .unlock m' := by
  rcases sections_cons h with h | ⟨m, h, _⟩ | ⟨m, h, h', _⟩
  · exact Or.inl h
  · cases h
  · cases h; exact Or.inr h'

/-! ## counting -/

/-- operations with `f` left in the scripts of the routines `< k` -/
def remN (f : Op → Bool) (s : State) : Nat → Nat
  | 0 => 0
  | k + 1 => remN f s k + (s.R k).script.countP f

/-- operations with `f` completed (trace) or still to do (scripts) -/
def total (f : Op → Bool) (s : State) : Nat := s.log.countP (fun e => f e.op) + remN f s s.n

theorem remN_congr {f : Op → Bool} {s s' : State} (k : Nat)
    (h : ∀ r, r < k → (s'.R r).script = (s.R r).script) : remN f s' k = remN f s k := by
  induction k with
  | zero => rfl
  | succ k ih =>
      simp only [remN]
      rw [ih (fun r hr => h r (by omega)), h k (by omega)]

theorem remN_upd {f : Op → Bool} {s s' : State} {me : Nat} {op : Op} {rest : List Op} (k : Nat) (hk : me < k)
    (h : ∀ r, r ≠ me → (s'.R r).script = (s.R r).script)
    (h1 : (s.R me).script = op :: rest) (h2 : (s'.R me).script = rest) :
    remN f s k = remN f s' k + (if f op = true then 1 else 0) := by
  induction k with
  | zero => omega
  | succ k ih =>
      simp only [remN]
      by_cases hm : me = k
      · subst hm
        rw [remN_congr (s := s) (s' := s') me (fun r hr => h r (by omega)), h1, h2, List.countP_cons]
        omega
      · rw [ih (by omega), h k (fun e => hm e.symm)]
        omega

theorem remN_le {f : Op → Bool} {s : State} {r : Nat} (k : Nat) (hr : r < k) :
    (s.R r).script.countP f ≤ remN f s k := by
  induction k with
  | zero => omega
  | succ k ih =>
      simp only [remN]
      by_cases h : r = k
      · subst h; omega
      · have := ih (by omega); omega

theorem remN_zero {f : Op → Bool} {s : State} (k : Nat)
    (h : ∀ r, r < k → (s.R r).script.countP f = 0) : remN f s k = 0 := by
  induction k with
  | zero => rfl
  | succ k ih =>
      simp only [remN]
      rw [ih (fun r hr => h r (by omega)), h k (by omega)]

theorem total_congr {f : Op → Bool} {s s' : State} (hn : s'.n = s.n) (hl : s'.log = s.log)
    (h : ∀ r, (s'.R r).script = (s.R r).script) : total f s' = total f s := by
  unfold total
  rw [hn, hl, remN_congr s.n (fun r _ => h r)]

theorem total_fin {f : Op → Bool} {s s' : State} {me : Nat} {op : Op} {rest : List Op} {e : Ev}
    (hn : s'.n = s.n) (hl : s'.log = s.log ++ [e]) (he : e.op = op) (hk : me < s.n)
    (h : ∀ r, r ≠ me → (s'.R r).script = (s.R r).script)
    (h1 : (s.R me).script = op :: rest) (h2 : (s'.R me).script = rest) : total f s' = total f s := by
  unfold total
  rw [hn, hl, remN_upd (f := f) s.n hk h h1 h2, List.countP_append, List.countP_cons, he]
  simp only [List.countP_nil]
  omega

/-! ## wake-ups: a frame relation -/

/-- `s'` is `s` after some wake-ups and updates of registrations: the only visible change is that
routines that were not dead became ready -/
structure Wk (s s' : State) : Prop where
  n : s'.n = s.n
  ab : s'.aborted = s.aborted
  log : s'.log = s.log
  defs : s'.defs = s.defs
  hold : ∀ m, (s'.mx m).hold = (s.mx m).hold
  scr : ∀ r, (s'.R r).script = (s.R r).script
  inop : ∀ r, (s'.R r).inOp = (s.R r).inOp
  canc : ∀ r, (s'.R r).canceled = (s.R r).canceled
  st : ∀ r, (s'.R r).state = (s.R r).state ∨ ((s'.R r).state = .ready ∧ (s.R r).state ≠ .dead)

theorem Wk.refl (s : State) : Wk s s :=
  ⟨rfl, rfl, rfl, rfl, fun _ => rfl, fun _ => rfl, fun _ => rfl, fun _ => rfl, fun _ => Or.inl rfl⟩

theorem Wk.trans {a b c : State} (h1 : Wk a b) (h2 : Wk b c) : Wk a c := by
  refine ⟨h2.n.trans h1.n, h2.ab.trans h1.ab, h2.log.trans h1.log, h2.defs.trans h1.defs,
    fun m => (h2.hold m).trans (h1.hold m), fun r => (h2.scr r).trans (h1.scr r),
    fun r => (h2.inop r).trans (h1.inop r), fun r => (h2.canc r).trans (h1.canc r), fun r => ?_⟩
  rcases h1.st r with e1 | ⟨e1, d1⟩ <;> rcases h2.st r with e2 | ⟨e2, d2⟩
  · left; rw [e2, e1]
  · right; exact ⟨e2, by rw [← e1]; exact d2⟩
  · right; exact ⟨by rw [e2, e1], d1⟩
  · right; exact ⟨e2, d1⟩

theorem makeReady_wk (s : State) (r : Nat) : Wk s (makeReady s r).1 := by
  unfold makeReady
  split
  · exact Wk.refl s
  · rename_i h
    refine ⟨rfl, rfl, rfl, rfl, fun _ => rfl, fun i => ?_, fun i => ?_, fun i => ?_, fun i => ?_⟩
    all_goals simp only [State.setR, State.R]
    all_goals by_cases hi : i = r
    all_goals simp only [hi, if_true, if_false]
    · right; subst hi; simp only [State.R] at h; exact ⟨trivial, fun e => h (Or.inr e)⟩
    · left; trivial

theorem resume_wk (s : State) (r : Nat) : Wk s (resume s r).1 := by
  unfold resume
  split
  · exact makeReady_wk s r
  · exact Wk.refl s

theorem resumeOpt_wk (s : State) (o : Option Nat) : Wk s (resumeOpt s o) := by
  cases o
  · exact Wk.refl s
  · exact resume_wk s _

theorem wakeAll_wk : ∀ (l : List Nat) (s : State), Wk s (wakeAll s l)
  | [], s => Wk.refl s
  | t :: ts, s => (resume_wk s t).trans (wakeAll_wk ts _)

theorem tag_wk (s : State) (t : String) : Wk s (tag s t) :=
  ⟨rfl, rfl, rfl, rfl, fun _ => rfl, fun _ => rfl, fun _ => rfl, fun _ => rfl, fun _ => Or.inl rfl⟩

theorem tagIf_wk (s : State) (b : Bool) (t : String) : Wk s (tagIf s b t) := by
  unfold tagIf
  split
  · exact tag_wk s t
  · exact Wk.refl s

theorem wake_wk (s : State) (toks : List Nat) (e : Bool) : Wk s (wake s toks e).1 := by
  have h0 : Wk s (tagIf (tagIf s (decide (2 ≤ toks.length)) "wake2") (!toks.isEmpty && !e) "nonedge") :=
    (tagIf_wk _ _ _).trans (tagIf_wk _ _ _)
  unfold wake
  simp only
  split
  · exact h0.trans (wakeAll_wk _ _)
  · split
    · split
      · exact h0.trans (resume_wk _ _)
      · exact h0
    · exact h0

theorem setCh_wk (s : State) (c : Nat) (x : Chan) : Wk s (s.setCh c x) :=
  ⟨rfl, rfl, rfl, rfl, fun _ => rfl, fun _ => rfl, fun _ => rfl, fun _ => rfl, fun _ => Or.inl rfl⟩

theorem setSm_wk (s : State) (c : Nat) (x : Sem) : Wk s (s.setSm c x) :=
  ⟨rfl, rfl, rfl, rfl, fun _ => rfl, fun _ => rfl, fun _ => rfl, fun _ => rfl, fun _ => Or.inl rfl⟩

theorem setMx_wk (s : State) (m : Nat) (x : Mutex) (h : x.hold = (s.mx m).hold) : Wk s (s.setMx m x) := by
  refine ⟨rfl, rfl, rfl, rfl, fun i => ?_, fun _ => rfl, fun _ => rfl, fun _ => rfl, fun _ => Or.inl rfl⟩
  simp only [State.setMx]
  by_cases hi : i = m
  · simp only [hi, if_true]; exact h
  · simp only [hi, if_false]

/-! ## the invariant -/

/-- switched back to the main context from inside a blocking operation -/
def blkHead (x : Routine) : Prop :=
  x.inOp = true ∧ ∃ op rest, x.script = op :: rest ∧ blkOp op = true

/-- what holds at every point of a restricted execution -/
structure Core (s : State) : Prop where
  nab : s.aborted = false
  canc : ∀ r, (s.R r).canceled = false
  role : ∀ r, rrole (s.R r).script
  hold : ∀ m h, (s.mx m).hold = some h → h < s.n ∧ sections (some m) (s.R h).script = true
  dead : ∀ r, (s.R r).state = .dead → (s.R r).script = []

/-- routine `r` is not running, and if it is suspended then inside a blocking operation -/
def Loc (s : State) (r : Nat) : Prop :=
  (s.R r).state ≠ .running ∧ ((s.R r).state = .suspend → s.n ≤ r ∨ blkHead (s.R r))

/-- while routine `me` runs -/
structure Mid (s : State) (me : Nat) : Prop where
  core : Core s
  loc : ∀ r, r ≠ me → Loc s r
  stme : (s.R me).state = .running ∨ (s.R me).state = .ready
  lt : me < s.n

/-- in the main context -/
structure Bd (s : State) : Prop where
  core : Core s
  loc : ∀ r, Loc s r

/-- frame: number of routines, definitions, conservation of operations -/
structure Fr (s s' : State) : Prop where
  n : s'.n = s.n
  defs : s'.defs = s.defs
  tot : ∀ f, total f s' = total f s

theorem Fr.refl (s : State) : Fr s s := ⟨rfl, rfl, fun _ => rfl⟩
theorem Fr.trans {a b c : State} (h1 : Fr a b) (h2 : Fr b c) : Fr a c :=
  ⟨h2.n.trans h1.n, h2.defs.trans h1.defs, fun f => (h2.tot f).trans (h1.tot f)⟩

theorem Wk.fr {s s' : State} (w : Wk s s') : Fr s s' :=
  ⟨w.n, w.defs, fun _ => total_congr w.n w.log w.scr⟩

theorem Wk.core {s s' : State} (w : Wk s s') (h : Core s) : Core s' := by
  refine ⟨w.ab.trans h.nab, fun r => (w.canc r).trans (h.canc r), fun r => by rw [w.scr]; exact h.role r,
    fun m x hx => ?_, fun r hr => ?_⟩
  · rw [w.hold] at hx; rw [w.n, w.scr]; exact h.hold m x hx
  · rw [w.scr]
    rcases w.st r with e | ⟨e, _⟩
    · exact h.dead r (e ▸ hr)
    · rw [e] at hr; cases hr

theorem Wk.loc {s s' : State} (w : Wk s s') {r : Nat} (h : Loc s r) : Loc s' r := by
  unfold Loc blkHead at *
  rw [w.n, w.scr, w.inop]
  rcases w.st r with e | ⟨e, _⟩
  · rw [e]; exact h
  · rw [e]; exact ⟨fun x => (by cases x), fun x => (by cases x)⟩

theorem Wk.mid {s s' : State} (w : Wk s s') {me : Nat} (h : Mid s me) : Mid s' me := by
  refine ⟨w.core h.core, fun r hr => w.loc (h.loc r hr), ?_, w.n ▸ h.lt⟩
  rcases w.st me with e | ⟨e, _⟩
  · rw [e]; exact h.stme
  · exact Or.inr e

theorem Wk.bd {s s' : State} (w : Wk s s') (h : Bd s) : Bd s' :=
  ⟨w.core h.core, fun r => w.loc (h.loc r)⟩

/-- result of one operation of `me`: it completed and `me` runs on, or `me` switched back -/
def OpPost (s : State) (me : Nat) (rest : List Op) (p : State × Ctl) : Prop :=
  Fr s p.1 ∧ ((p.2 = .next ∧ Mid p.1 me ∧ (p.1.R me).script = rest) ∨ (p.2 = .block ∧ Bd p.1))

theorem OpPost.mono {s0 s : State} {me : Nat} {rest : List Op} {p : State × Ctl} (f : Fr s0 s)
    (h : OpPost s me rest p) : OpPost s0 me rest p := ⟨f.trans h.1, h.2⟩

/-- an operation completes (the mutex table may have changed in between) -/
theorem fin_post {s s1 : State} {me : Nat} {op : Op} {rest : List Op} {res : Res}
    (hM : Mid s me) (hs : (s.R me).script = op :: rest)
    (hn : s1.n = s.n) (hd : s1.defs = s.defs) (ha : s1.aborted = s.aborted) (hl : s1.log = s.log)
    (hr : s1.rts = s.rts)
    (hh : ∀ m h, (s1.mx m).hold = some h →
      h < s.n ∧ sections (some m) (if h = me then rest else (s.R h).script) = true)
    (hres : res ≠ .fail) : OpPost s me rest (finish s1 me op rest res) := by
  have hR : ∀ r, (finish s1 me op rest res).1.R r =
      if r = me then { s.R me with script := rest, inOp := false, done := (s.R me).done + 1 } else s.R r := by
    intro r; simp only [finish, State.setR, State.R, hr]
  have hme := hR me
  simp only [if_true] at hme
  have hne : ∀ r, r ≠ me → (finish s1 me op rest res).1.R r = s.R r := by
    intro r h; rw [hR r]; simp only [h, if_false]
  have hn' : (finish s1 me op rest res).1.n = s.n := hn
  refine ⟨⟨hn, hd, fun f => ?_⟩, Or.inl ⟨?_, ⟨⟨?_, ?_, ?_, ?_, ?_⟩, ?_, ?_, ?_⟩, ?_⟩⟩
  · refine total_fin (e := { r := me, op := op, res := res, canc := (s1.R me).canceled }) hn' ?_ rfl hM.lt
      (fun r h => by rw [hne r h]) hs (by rw [hme])
    simp only [finish, hl]
  · simp only [finish, hres, false_and, if_false]
  · exact ha.trans hM.core.nab
  · intro r
    by_cases h : r = me
    · subst h; rw [hme]; exact hM.core.canc r
    · rw [hne r h]; exact hM.core.canc r
  · intro r
    by_cases h : r = me
    · subst h; rw [hme]; exact rrole_tail (hs ▸ hM.core.role r)
    · rw [hne r h]; exact hM.core.role r
  · intro m h hx
    have := hh m h hx
    rw [hn']
    refine ⟨this.1, ?_⟩
    by_cases e : h = me
    · subst e; rw [hme]; simpa using this.2
    · rw [hne h e]; simpa [e] using this.2
  · intro r hx
    by_cases h : r = me
    · subst h; rw [hme] at hx ⊢
      rcases hM.stme with e | e <;> rw [e] at hx <;> cases hx
    · rw [hne r h] at hx ⊢; exact hM.core.dead r hx
  · intro r h
    have := hM.loc r h
    unfold Loc at *
    rw [hne r h, hn']; exact this
  · rw [hme]; exact hM.stme
  · rw [hn']; exact hM.lt
  · rw [hme]

/-- an operation other than `unlock` completes, nothing else changes -/
theorem fin_post0 {s : State} {me : Nat} {op : Op} {rest : List Op} {res : Res}
    (hM : Mid s me) (hs : (s.R me).script = op :: rest) (hop : ∀ m, op ≠ .unlock m)
    (hres : res ≠ .fail) : OpPost s me rest (finish s me op rest res) := by
  refine fin_post hM hs rfl rfl rfl rfl rfl (fun m h hx => ?_) hres
  have := hM.core.hold m h hx
  refine ⟨this.1, ?_⟩
  by_cases e : h = me
  · subst e
    simp only [if_true]
    rw [hs] at this
    rcases sections_some_cons this.2 with h | h
    · exact h.2
    · exact absurd h (hop m)
  · simp only [e, if_false]; exact this.2

/-- `me` switches back to the main context -/
theorem blk_post {s s2 : State} {me : Nat} {op : Op} {rest : List Op}
    (hM : Mid s me) (hs : (s.R me).script = op :: rest)
    (hn : s2.n = s.n) (hd : s2.defs = s.defs) (ha : s2.aborted = s.aborted) (hl : s2.log = s.log)
    (hmx : s2.mx = s.mx) (ho : ∀ r, r ≠ me → s2.R r = s.R r)
    (h1 : (s2.R me).script = op :: rest) (h2 : (s2.R me).inOp = true) (h3 : (s2.R me).canceled = false)
    (h4 : (s2.R me).state = .ready ∨ ((s2.R me).state = .suspend ∧ blkOp op = true)) :
    OpPost s me rest (s2, .block) := by
  have hscr : ∀ r, (s2.R r).script = (s.R r).script := by
    intro r
    by_cases h : r = me
    · subst h; rw [h1, hs]
    · rw [ho r h]
  refine ⟨⟨hn, hd, fun f => total_congr hn hl hscr⟩, Or.inr ⟨rfl, ⟨⟨?_, ?_, ?_, ?_, ?_⟩, ?_⟩⟩⟩
  · exact ha.trans hM.core.nab
  · intro r
    by_cases h : r = me
    · subst h; exact h3
    · rw [ho r h]; exact hM.core.canc r
  · intro r; rw [hscr]; exact hM.core.role r
  · intro m h hx
    show h < s2.n ∧ _
    rw [hmx] at hx; rw [hn, hscr]; exact hM.core.hold m h hx
  · intro r hx
    by_cases h : r = me
    · subst h
      rcases h4 with e | ⟨e, _⟩ <;> rw [e] at hx <;> cases hx
    · rw [hscr]; rw [ho r h] at hx; exact hM.core.dead r hx
  · intro r
    by_cases h : r = me
    · subst h
      unfold Loc
      rcases h4 with e | ⟨e, b⟩
      · rw [e]; exact ⟨fun x => (by cases x), fun x => (by cases x)⟩
      · rw [e]; exact ⟨fun x => (by cases x), fun _ => Or.inr ⟨h2, op, rest, h1, b⟩⟩
    · have := hM.loc r h
      unfold Loc at *
      rw [ho r h, hn]; exact this

theorem makeReady_state {s : State} {r : Nat} (h : (s.R r).state ≠ .dead) :
    ((makeReady s r).1.R r).state = .ready := by
  unfold makeReady
  split
  · rename_i h'
    rcases h' with h' | h'
    · exact h'
    · exact absurd h' h
  · simp only [State.setR, State.R, if_true]

theorem yield_post {s : State} {me : Nat} {op : Op} {rest : List Op}
    (hM : Mid s me) (hs : (s.R me).script = op :: rest) :
    OpPost s me rest (blockIn (makeReady s me).1 me op rest) := by
  have w := makeReady_wk s me
  have hnd : (s.R me).state ≠ .dead := by
    rcases hM.stme with e | e <;> rw [e] <;> exact fun x => by cases x
  have hst := makeReady_state hnd
  refine OpPost.mono w.fr ?_
  refine blk_post (w.mid hM) ((w.scr me).trans hs) rfl rfl rfl rfl rfl (fun r h => ?_) ?_ ?_ ?_ ?_
  · simp only [State.setR, State.R, h, if_false]
  · simp only [State.setR, State.R, if_true]
  · simp only [State.setR, State.R, if_true]
  · simp only [State.setR, State.R, if_true]; exact (w.canc me).trans (hM.core.canc me)
  · left; simp only [State.setR, State.R, if_true]; exact hst

theorem waitBlock_post {s : State} {me : Nat} {op : Op} {rest : List Op}
    (hM : Mid s me) (hs : (s.R me).script = op :: rest) (hb : blkOp op = true) :
    OpPost s me rest (waitBlock s me op rest) := by
  unfold waitBlock
  rw [hM.core.canc me]
  simp only [Bool.false_eq_true, if_false]
  refine blk_post hM hs rfl rfl rfl rfl rfl (fun r h => ?_) ?_ ?_ ?_ ?_
  · simp only [State.setR, State.R, h, if_false]
  · simp only [State.setR, State.R, if_true]
  · simp only [State.setR, State.R, if_true]
  · simp only [State.setR, State.R, if_true]; exact hM.core.canc me
  · right; simp only [State.setR, State.R, if_true]; exact ⟨trivial, hb⟩

/-- the same after wake-ups / registration updates -/
theorem waitBlock_post' {s s1 : State} {me : Nat} {op : Op} {rest : List Op} (w : Wk s s1)
    (hM : Mid s me) (hs : (s.R me).script = op :: rest) (hb : blkOp op = true) :
    OpPost s me rest (waitBlock s1 me op rest) :=
  OpPost.mono w.fr (waitBlock_post (w.mid hM) ((w.scr me).trans hs) hb)

theorem fin_post' {s s1 : State} {me : Nat} {op : Op} {rest : List Op} {res : Res} (w : Wk s s1)
    (hM : Mid s me) (hs : (s.R me).script = op :: rest) (hop : ∀ m, op ≠ .unlock m)
    (hres : res ≠ .fail) : OpPost s me rest (finish s1 me op rest res) :=
  OpPost.mono w.fr (fin_post0 (w.mid hM) ((w.scr me).trans hs) hop hres)

/-! ## one operation -/

theorem execOp_post {s : State} {me : Nat} {op : Op} {rest : List Op}
    (hM : Mid s me) (hs : (s.R me).script = op :: rest) : OpPost s me rest (execOp s me op rest) := by
  have hrole : rrole (op :: rest) := hs ▸ hM.core.role me
  have hok := rrole_head hrole
  have hc := hM.core.canc me
  cases op <;> simp only [okOp, Bool.false_eq_true] at hok
  case yield =>
    simp only [execOp, hc, Bool.false_eq_true, if_false]
    split
    · exact fin_post0 hM hs (fun m => by simp) (by simp)
    · exact yield_post hM hs
  case send c v =>
    show OpPost s me rest (finish ((wake s (s.ch c).tokens (s.ch c).queue.isEmpty).1.setCh c
      { queue := (s.ch c).queue ++ [v], tokens := (wake s (s.ch c).tokens (s.ch c).queue.isEmpty).2 })
      me (.send c v) rest .ok)
    exact fin_post' ((wake_wk _ _ _).trans (setCh_wk _ _ _)) hM hs (fun m => by simp) (by simp)
  case release k =>
    show OpPost s me rest (finish ((wake s (s.sm k).tokens (decide ((s.sm k).count = 0))).1.setSm k
      { s.sm k with count := (s.sm k).count + 1,
                    tokens := (wake s (s.sm k).tokens (decide ((s.sm k).count = 0))).2 })
      me (.release k) rest .ok)
    exact fin_post' ((wake_wk _ _ _).trans (setSm_wk _ _ _)) hM hs (fun m => by simp) (by simp)
  case recv c =>
    simp only [execOp, hc, Bool.false_eq_true, and_false, if_false]
    split
    · exact fin_post' (setCh_wk _ _ _) hM hs (fun m => by simp) (by simp)
    · split
      · exact waitBlock_post' (tag_wk _ _) hM hs rfl
      · exact waitBlock_post' ((setCh_wk _ _ _).trans (tagIf_wk _ _ _)) hM hs rfl
  case acquire k =>
    simp only [execOp, hc, Bool.false_eq_true, and_false, if_false]
    split
    · split
      · exact waitBlock_post' (tag_wk _ _) hM hs rfl
      · exact waitBlock_post' ((setSm_wk _ _ _).trans (tagIf_wk _ _ _)) hM hs rfl
    · exact fin_post' (setSm_wk _ _ _) hM hs (fun m => by simp) (by simp)
  case lock m =>
    have hsec := rrole_lock hrole
    simp only [execOp, hc, Bool.false_eq_true, and_false, if_false]
    split
    · refine fin_post hM hs rfl rfl rfl rfl rfl (fun m' h hx => ?_) (by simp)
      by_cases e : m' = m
      · subst e
        simp only [State.setMx, if_true, Option.some.injEq] at hx
        subst hx
        simp only [if_true]
        exact ⟨hM.lt, hsec⟩
      · simp only [State.setMx, e, if_false] at hx
        have := hM.core.hold m' h hx
        refine ⟨this.1, ?_⟩
        by_cases e' : h = me
        · subst e'
          rw [hs] at this
          rcases sections_some_cons this.2 with h | h
          · simp [simpleOp] at h
          · cases h
        · simp only [e', if_false]; exact this.2
    · split
      · exact fin_post0 hM hs (fun m => by simp) (by simp)
      · split
        · exact waitBlock_post' (tag_wk _ _) hM hs rfl
        · exact waitBlock_post' ((setMx_wk s m { s.mx m with waiters := (s.mx m).waiters ++ [me] } rfl).trans (tagIf_wk _ _ _)) hM hs rfl
  case unlock m =>
    have hsec := rrole_unlock hrole
    simp only [execOp]
    split
    · rename_i hh
      show OpPost s me rest (finish ((wake s (s.mx m).waiters true).1.setMx m
        { hold := none, waiters := (wake s (s.mx m).waiters true).2 }) me (.unlock m) rest .ok)
      have w := wake_wk s (s.mx m).waiters true
      have hM1 := w.mid hM
      have hs1 := (w.scr me).trans hs
      refine OpPost.mono w.fr (fin_post hM1 hs1 rfl rfl rfl rfl rfl (fun m' h hx => ?_) (by simp))
      by_cases e : m' = m
      · subst e
        simp only [State.setMx, if_true] at hx
        cases hx
      · simp only [State.setMx, e, if_false] at hx
        have := hM1.core.hold m' h hx
        refine ⟨this.1, ?_⟩
        by_cases e' : h = me
        · subst e'
          rw [hs1] at this
          rcases sections_some_cons this.2 with h | h
          · simp [simpleOp] at h
          · cases h; exact absurd rfl e
        · simp only [e', if_false]; exact this.2
    · rename_i hh
      refine fin_post hM hs rfl rfl rfl rfl rfl (fun m' h hx => ?_) (by simp)
      have := hM.core.hold m' h hx
      refine ⟨this.1, ?_⟩
      by_cases e' : h = me
      · subst e'
        rw [hs] at this
        rcases sections_some_cons this.2 with h | h
        · simp [simpleOp] at h
        · cases h; exact absurd hx hh
      · simp only [e', if_false]; exact this.2

/-! ## a routine runs, a pass of the loop -/

theorem die_bd {s : State} {me : Nat} (hM : Mid s me) (hs : (s.R me).script = []) :
    Bd (die s me) ∧ Fr s (die s me) := by
  have ho : ∀ r, r ≠ me → (die s me).R r = s.R r := by
    intro r h; simp only [die, State.setR, State.R, h, if_false]
  have hme : (die s me).R me = { s.R me with state := .dead, script := [], inOp := false } := by
    simp only [die, State.setR, State.R, if_true]
  have hscr : ∀ r, ((die s me).R r).script = (s.R r).script := by
    intro r
    by_cases h : r = me
    · subst h; rw [hme, hs]
    · rw [ho r h]
  refine ⟨⟨⟨hM.core.nab, ?_, ?_, ?_, ?_⟩, ?_⟩, ⟨rfl, rfl, fun f => total_congr rfl rfl hscr⟩⟩
  · intro r
    by_cases h : r = me
    · subst h; rw [hme]; exact hM.core.canc r
    · rw [ho r h]; exact hM.core.canc r
  · intro r; rw [hscr]; exact hM.core.role r
  · intro m h hx
    show h < s.n ∧ _
    rw [hscr]; exact hM.core.hold m h hx
  · intro r hx
    by_cases h : r = me
    · subst h; rw [hme]
    · rw [hscr]; rw [ho r h] at hx; exact hM.core.dead r hx
  · intro r
    by_cases h : r = me
    · subst h
      unfold Loc
      rw [hme]
      exact ⟨fun x => (by cases x), fun x => (by cases x)⟩
    · have := hM.loc r h
      unfold Loc at *
      rw [ho r h]; exact this

theorem runOps_bd {me : Nat} : ∀ (ops : List Op) (s : State), Mid s me → (s.R me).script = ops →
    Bd (runOps me ops s) ∧ Fr s (runOps me ops s)
  | [], s, hM, hs => die_bd hM hs
  | op :: rest, s, hM, hs => by
      have hp := execOp_post hM hs
      rw [runOps]
      rcases h : execOp s me op rest with ⟨s1, c⟩
      rw [h] at hp
      rcases hp with ⟨fr, ⟨h1, h2, h3⟩ | ⟨h1, h2⟩⟩
      · simp only at h1 h2 h3
        subst h1
        have := runOps_bd rest s1 h2 h3
        exact ⟨this.1, fr.trans this.2⟩
      · simp only at h1 h2
        subst h1
        exact ⟨h2, fr⟩

theorem freeRoutine_wk {s : State} {r : Nat} (h : (s.R r).state = .dead) : Wk s (freeRoutine s r) := by
  refine ⟨rfl, rfl, rfl, rfl, fun _ => rfl, fun i => ?_, fun i => ?_, fun i => ?_, fun i => ?_⟩
  all_goals simp only [freeRoutine, State.setR, State.R]
  all_goals by_cases hi : i = r
  all_goals simp only [hi, if_true, if_false]
  · left; exact h.symm
  · left; trivial

theorem switchTo_bd {s : State} {r : Nat} (hB : Bd s) (hr : r < s.n) :
    Bd (switchTo s r) ∧ Fr s (switchTo s r) := by
  have ho : ∀ i, i ≠ r → (s.setR r { s.R r with state := .running, started := true }).R i = s.R i := by
    intro i h; simp only [State.setR, State.R, h, if_false]
  have hme : (s.setR r { s.R r with state := .running, started := true }).R r =
      { s.R r with state := .running, started := true } := by
    simp only [State.setR, State.R, if_true]
  have hscr : ∀ i, ((s.setR r { s.R r with state := .running, started := true }).R i).script =
      (s.R i).script := by
    intro i
    by_cases h : i = r
    · subst h; rw [hme]
    · rw [ho i h]
  have hM : Mid (s.setR r { s.R r with state := .running, started := true }) r := by
    refine ⟨⟨hB.core.nab, ?_, ?_, ?_, ?_⟩, ?_, ?_, hr⟩
    · intro i
      by_cases h : i = r
      · subst h; rw [hme]; exact hB.core.canc i
      · rw [ho i h]; exact hB.core.canc i
    · intro i; rw [hscr]; exact hB.core.role i
    · intro m h hx
      show h < s.n ∧ _
      rw [hscr]; exact hB.core.hold m h hx
    · intro i hx
      by_cases h : i = r
      · subst h; rw [hme] at hx; cases hx
      · rw [hscr]; rw [ho i h] at hx; exact hB.core.dead i hx
    · intro i h
      have := hB.loc i
      unfold Loc at *
      rw [ho i h]; exact this
    · left; rw [hme]
  have fr0 : Fr s (s.setR r { s.R r with state := .running, started := true }) :=
    ⟨rfl, rfl, fun f => total_congr rfl rfl hscr⟩
  have h2 := runOps_bd _ _ hM rfl
  unfold switchTo
  simp only
  split
  · rename_i hd
    have w1 := freeRoutine_wk hd
    have w := fun o => w1.trans (resumeOpt_wk _ o)
    exact ⟨(w _).bd h2.1, (fr0.trans h2.2).trans (w _).fr⟩
  · exact ⟨h2.1, fr0.trans h2.2⟩

theorem drain_bd : ∀ (l : List Nat) (s : State), Bd s → Bd (drain l s) ∧ Fr s (drain l s)
  | [], s, h => ⟨h, Fr.refl s⟩
  | t :: rest, s, h => by
      have w0 : Wk s { s with tmp := rest } :=
        ⟨rfl, rfl, rfl, rfl, fun _ => rfl, fun _ => rfl, fun _ => rfl, fun _ => rfl, fun _ => Or.inl rfl⟩
      rw [drain]
      split
      · rename_i ha
        have hlt : t < s.n := by
          simp only [alive, Bool.and_eq_true, decide_eq_true_eq] at ha
          exact ha.1
        have h1 := switchTo_bd (w0.bd h) (r := t) hlt
        have h2 := drain_bd rest _ h1.1
        exact ⟨h2.1, (w0.fr.trans h1.2).trans h2.2⟩
      · have h2 := drain_bd rest _ (w0.bd h)
        exact ⟨h2.1, w0.fr.trans h2.2⟩

theorem schedule_bd {s : State} (h : Bd s) : Bd (schedule s) ∧ Fr s (schedule s) := by
  have w0 : Wk s { s with readyq := [], tmp := s.readyq } :=
    ⟨rfl, rfl, rfl, rfl, fun _ => rfl, fun _ => rfl, fun _ => rfl, fun _ => rfl, fun _ => Or.inl rfl⟩
  have h2 := drain_bd s.readyq _ (w0.bd h)
  exact ⟨h2.1, w0.fr.trans h2.2⟩

theorem batch_bd : ∀ (k : Nat) (s : State), Bd s → Bd (batch k s) ∧ Fr s (batch k s)
  | 0, s, h => ⟨h, Fr.refl s⟩
  | k + 1, s, h => by
      have h1 := schedule_bd h
      have h2 := batch_bd k _ h1.1
      exact ⟨h2.1, h1.2.trans h2.2⟩

theorem loopPass_bd {s : State} (h : Bd s) : Bd (loopPass s) ∧ Fr s (loopPass s) := by
  have w0 : Wk s { s with pend := 0 } :=
    ⟨rfl, rfl, rfl, rfl, fun _ => rfl, fun _ => rfl, fun _ => rfl, fun _ => rfl, fun _ => Or.inl rfl⟩
  have h2 := batch_bd s.pend _ (w0.bd h)
  exact ⟨h2.1, w0.fr.trans h2.2⟩

/-! ## the main context: define / new / pass -/

theorem create_bd {s : State} {d : Nat} (h : Bd s) (hrole : rrole (s.defs.getD d (false, [])).2) :
    Bd (create s d true) ∧ (create s d true).defs = s.defs ∧
    ∀ f, total f (create s d true) = total f s + (s.defs.getD d (false, [])).2.countP f := by
  have ho : ∀ i, i ≠ s.n → (createCore s d).R i = s.R i := by
    intro i hi; simp only [createCore, State.R, hi, if_false]
  have h1 : ((createCore s d).R s.n).script = (s.defs.getD d (false, [])).2 := by
    simp only [createCore, State.R, if_true]
  have h2 : ((createCore s d).R s.n).state = .suspend := by
    simp only [createCore, State.R, if_true]
  have h3 : ((createCore s d).R s.n).canceled = false := by
    simp only [createCore, State.R, if_true]
  have hn : (createCore s d).n = s.n + 1 := rfl
  have hC : Core (createCore s d) := by
    refine ⟨h.core.nab, ?_, ?_, ?_, ?_⟩
    · intro i
      by_cases hi : i = s.n
      · subst hi; exact h3
      · rw [ho i hi]; exact h.core.canc i
    · intro i
      by_cases hi : i = s.n
      · subst hi; rw [h1]; exact hrole
      · rw [ho i hi]; exact h.core.role i
    · intro m x hx
      have := h.core.hold m x hx
      rw [hn, ho x (by omega)]
      exact ⟨by omega, this.2⟩
    · intro i hx
      by_cases hi : i = s.n
      · subst hi; rw [h2] at hx; cases hx
      · rw [ho i hi] at hx ⊢; exact h.core.dead i hx
  have w := makeReady_wk (createCore s d) s.n
  have hst : ((makeReady (createCore s d) s.n).1.R s.n).state = .ready :=
    makeReady_state (by rw [h2]; exact fun x => (by cases x))
  have hcr : create s d true = (makeReady (createCore s d) s.n).1 := by
    simp only [create, if_true]
  rw [hcr]
  refine ⟨⟨w.core hC, fun i => ?_⟩, w.defs, fun f => ?_⟩
  · by_cases hi : i = s.n
    · subst hi
      unfold Loc
      rw [hst]
      exact ⟨fun x => (by cases x), fun x => (by cases x)⟩
    · refine w.loc ?_
      have := h.loc i
      unfold Loc at *
      rw [ho i hi, hn]
      refine ⟨this.1, fun hx => ?_⟩
      rcases this.2 hx with h | h
      · left; omega
      · right; exact h
  · rw [w.fr.tot f]
    unfold total
    rw [hn]
    simp only [remN]
    rw [h1, remN_congr (s := s) (s' := createCore s d) s.n (fun r hr => by rw [ho r (by omega)])]
    show List.countP (fun e => f e.op) s.log + _ = _
    omega

/-- the invariant along `run`: `P` is the list of the scripts created so far -/
def PInv (P : List (List Op)) (s : State) : Prop :=
  Bd s ∧ ∀ f, total f s = P.flatten.countP f

theorem step_eq {s : State} {op : MainOp} (h1 : s.aborted = false) (h2 : (applyMain s op).aborted = false) :
    step s op = loopPass (applyMain s op) := by
  simp only [step, h1, h2, Bool.false_eq_true, if_false]

theorem run_pinv : ∀ (ops : List MainOp) (s : State) (P : List (List Op)),
    ops.all MainOK = true → (∀ p, p ∈ createdAux s.defs ops → roleOK p = true) → PInv P s →
    PInv (P ++ createdAux s.defs ops) (run s ops)
  | [], s, P, _, _, h => by simpa [createdAux, run] using h
  | op :: ops, s, P, hok, hro, h => by
      simp only [List.all_cons, Bool.and_eq_true] at hok
      cases op with
      | define xf l =>
          let s1 : State := { s with defs := s.defs ++ [(xf, l)] }
          have hB1 : Bd s1 :=
            ⟨⟨h.1.core.nab, h.1.core.canc, h.1.core.role, h.1.core.hold, h.1.core.dead⟩, h.1.loc⟩
          have ht1 : ∀ f, total f s1 = total f s := fun f => total_congr rfl rfl (fun _ => rfl)
          have h2 := loopPass_bd hB1
          have hst : step s (.define xf l) = loopPass s1 := step_eq h.1.core.nab h.1.core.nab
          have hd : (loopPass s1).defs = s.defs ++ [(xf, l)] := h2.2.defs
          rw [run, hst]
          have := run_pinv ops (loopPass s1) P hok.2 (by rw [hd]; exact hro)
            ⟨h2.1, fun f => by rw [h2.2.tot f, ht1 f]; exact h.2 f⟩
          rw [hd] at this
          exact this
      | new d now =>
          have hnow : now = true := by cases now <;> simp_all [MainOK]
          subst hnow
          have hr1 : rrole (s.defs.getD d (false, [])).2 :=
            roleOK_rrole (hro _ (by simp [createdAux]))
          have h1 := create_bd h.1 hr1
          have h2 := loopPass_bd h1.1
          have hst : step s (.new d true) = loopPass (create s d true) := step_eq h.1.core.nab h1.1.core.nab
          have hd : (loopPass (create s d true)).defs = s.defs := h2.2.defs.trans h1.2.1
          rw [run, hst]
          have := run_pinv ops (loopPass (create s d true)) (P ++ [(s.defs.getD d (false, [])).2]) hok.2
            (by rw [hd]; exact fun p hp => hro p (by simp [createdAux, hp]))
            ⟨h2.1, fun f => by
              rw [h2.2.tot f, h1.2.2 f, h.2 f]
              simp [List.countP_append]⟩
          rw [hd] at this
          simpa [createdAux] using this
      | pass =>
          have h2 := loopPass_bd h.1
          have hst : step s .pass = loopPass s := step_eq h.1.core.nab h.1.core.nab
          rw [run, hst]
          have := run_pinv ops (loopPass s) P hok.2 (by rw [h2.2.defs]; exact hro)
            ⟨h2.1, fun f => by rw [h2.2.tot f]; exact h.2 f⟩
          rw [h2.2.defs] at this
          exact this
      | call _ => simp [MainOK] at hok
      | resume _ => simp [MainOK] at hok
      | cancel _ => simp [MainOK] at hok
      | cleanup => simp [MainOK] at hok

theorem init_pinv : PInv [] init := by
  refine ⟨⟨⟨rfl, fun _ => rfl, fun _ => Or.inl rfl, fun m h hx => ?_, fun r hx => ?_⟩, fun r => ?_⟩, fun f => ?_⟩
  · cases hx
  · cases hx
  · exact ⟨fun x => (by cases x), fun _ => Or.inl (Nat.zero_le _)⟩
  · rfl

/-! ## the trace counts of Spec.lean against the operation counts -/

theorem sentOf_len (c : Nat) : ∀ log : List Ev, (sentOf c log).length = log.countP (fun e => isSend c e.op)
  | [] => rfl
  | e :: l => by
      have ih := sentOf_len c l
      unfold sentOf at ih ⊢
      rw [List.filterMap_cons, List.countP_cons]
      generalize List.countP (fun e => isSend c e.op) l = N at ih ⊢
      rcases e with ⟨r, op, res, cc⟩
      cases op <;> simp only [isSend, ih, Bool.false_eq_true, if_false, Nat.add_zero]
      rename_i c' v
      by_cases h : c' = c <;> simp [h, ih]

theorem rcvdOf_len (c : Nat) : ∀ log : List Ev, (rcvdOf c log).length ≤ log.countP (fun e => isRecv c e.op)
  | [] => Nat.le_refl _
  | e :: l => by
      have ih := rcvdOf_len c l
      unfold rcvdOf at ih ⊢
      rw [List.filterMap_cons, List.countP_cons]
      generalize List.countP (fun e => isRecv c e.op) l = N at ih ⊢
      split
      · omega
      · simp only [List.length_cons]
        rename_i v hv
        rcases e with ⟨r, op, res, cc⟩
        cases op <;> cases res <;> simp at hv
        rename_i c' v'
        have : c' = c := by
          by_cases h : c' = c
          · exact h
          · simp [h] at hv
        simp only [isRecv, this, beq_self_eq_true, if_true]
        omega

theorem acqOf_le (k : Nat) (log : List Ev) : acqOf k log ≤ log.countP (fun e => isAcqOp k e.op) := by
  unfold acqOf
  apply List.countP_mono_left
  intro e _ h
  simp only [isAcq, decide_eq_true_eq] at h
  simp [h.1, isAcqOp]

theorem relOf_eq (k : Nat) (log : List Ev) : relOf k log = log.countP (fun e => isRelOp k e.op) := by
  unfold relOf
  apply List.countP_congr
  intro e _
  rcases e with ⟨r, op, res, cc⟩
  cases op <;> simp [isRel, isRelOp]

theorem mem_chansOf {F : List Op} {c : Nat} (h : 0 < F.countP (isRecv c)) : c ∈ chansOf F := by
  obtain ⟨op, hop, hf⟩ := List.countP_pos_iff.mp h
  cases op <;> simp [isRecv] at hf
  subst hf
  exact List.mem_filterMap.mpr ⟨_, hop, rfl⟩

theorem mem_semsOf {F : List Op} {k : Nat} (h : 0 < F.countP (isAcqOp k)) : k ∈ semsOf F := by
  obtain ⟨op, hop, hf⟩ := List.countP_pos_iff.mp h
  cases op <;> simp [isAcqOp] at hf
  subst hf
  exact List.mem_filterMap.mpr ⟨_, hop, rfl⟩

/-! ## the quiescent state -/

theorem blk_not_simple {op : Op} (h1 : blkOp op = true) (h2 : simpleOp op = true) : False := by
  cases op <;> simp [blkOp, simpleOp] at h1 h2

theorem cons_not_send {op : Op} (c : Nat) (h : consOp op = true) : isSend c op = false := by
  cases op <;> simp [consOp, isSend] at h ⊢

theorem cons_not_rel {op : Op} (k : Nat) (h : consOp op = true) : isRelOp k op = false := by
  cases op <;> simp [consOp, isRelOp] at h ⊢

/-- at a quiescent pass boundary of a matched program every routine is dead -/
theorem quiescent_dead {s : State} {F : List Op} (hI : Inv s) (ht : s.tmp = []) (hq : s.readyq = [])
    (hB : Bd s) (htot : ∀ f, total f s = F.countP f) (hbal : balanced F = true) :
    ∀ r, r < s.n → (s.R r).state = .dead := by
  -- nobody is ready, nobody runs: a routine that is not dead is suspended in a blocking operation
  have hA : ∀ r, (s.R r).state ≠ .ready := by
    intro r h
    have := hI.S.ready r h
    rw [ht, hq] at this
    cases this
  have hBk : ∀ r, r < s.n → (s.R r).state ≠ .dead → (s.R r).state = .suspend ∧ blkHead (s.R r) := by
    intro r hr hd
    have hl := hB.loc r
    unfold Loc at hl
    cases hst : (s.R r).state
    · rcases hl.2 hst with h | h
      · omega
      · exact ⟨rfl, h⟩
    · exact absurd hst (hA r)
    · exact absurd hst hl.1
    · exact absurd hst hd
  -- nobody is suspended in `lock`: the holder is inside its section, where nothing blocks
  have hC : ∀ r m, r < s.n → ¬ susp s r (.lock m) := by
    intro r m hr hs
    have h1 := hI.S.mxReg r m hs
    have h2 := hI.S.mxAvail m (fun e => by rw [e] at h1; cases h1)
    cases hh : (s.mx m).hold with
    | none => exact h2 hh
    | some h =>
        have h3 := hB.core.hold m h hh
        have hd : (s.R h).state ≠ .dead := by
          intro e
          have := hB.core.dead h e
          rw [this] at h3
          simp [sections] at h3
        obtain ⟨_, _, op, rest, h5, h6⟩ := hBk h h3.1 hd
        rw [h5] at h3
        rcases sections_some_cons h3.2 with h | h
        · exact blk_not_simple h6 h.1
        · subst h; simp [blkOp] at h6
  -- so every remaining operation is a consumer operation
  have hD : ∀ r, r < s.n → ∀ op, op ∈ (s.R r).script → consOp op = true := by
    intro r hr op hop
    by_cases hd : (s.R r).state = .dead
    · rw [hB.core.dead r hd] at hop; cases hop
    · obtain ⟨hs, hi, o, rest, h5, h6⟩ := hBk r hr hd
      have hro := hB.core.role r
      rw [h5] at hro hop
      rcases hro with h | h | ⟨st, h⟩
      · simp only [List.all_cons, Bool.and_eq_true] at h
        exact (blk_not_simple h6 h.1).elim
      · exact List.all_eq_true.mp h op hop
      · rcases sections_cons h with ⟨h, _⟩ | ⟨m, _, h, _⟩ | ⟨m, _, h, _⟩
        · exact (blk_not_simple h6 h).elim
        · subst h
          exact absurd ⟨hs, hi, by rw [h5]; rfl⟩ (hC r m hr)
        · subst h; simp [blkOp] at h6
  have hZ : ∀ f : Op → Bool, (∀ op, consOp op = true → f op = false) → remN f s s.n = 0 := by
    intro f hf
    refine remN_zero s.n (fun r hr => ?_)
    rw [List.countP_eq_zero]
    intro op hop
    rw [hf op (hD r hr op hop)]
    exact Bool.false_ne_true
  intro r hr
  refine Decidable.byContradiction (fun hd => ?_)
  obtain ⟨hs, hi, op, rest, h5, h6⟩ := hBk r hr hd
  unfold balanced at hbal
  simp only [Bool.and_eq_true, List.all_eq_true, decide_eq_true_eq] at hbal
  cases op <;> simp only [blkOp, Bool.false_eq_true] at h6
  case lock m => exact hC r m hr ⟨hs, hi, by rw [h5]; rfl⟩
  case recv c =>
    have hsu : susp s r (.recv c) := ⟨hs, hi, by rw [h5]; rfl⟩
    have h1 := hI.S.chReg r c hsu
    have h2 := hI.S.chAvail c (fun e => by rw [e] at h1; cases h1)
    have h3 := hI.L.fifo c
    rw [h2, List.append_nil] at h3
    have h4 := sentOf_len c s.log
    have h7 := rcvdOf_len c s.log
    rw [h3] at h7
    have hs0 : remN (isSend c) s s.n = 0 := hZ _ (fun op h => cons_not_send c h)
    have hr1 : 1 ≤ remN (isRecv c) s s.n := by
      refine Nat.le_trans ?_ (remN_le s.n hr)
      rw [h5]; simp [isRecv]
    have t1 := htot (isSend c)
    have t2 := htot (isRecv c)
    unfold total at t1 t2
    have hm := hbal.1 c (mem_chansOf (by omega))
    omega
  case acquire k =>
    have hsu : susp s r (.acquire k) := ⟨hs, hi, by rw [h5]; rfl⟩
    have h1 := hI.S.smReg r k hsu
    have h2 := hI.S.smAvail k (fun e => by rw [e] at h1; cases h1)
    have h3 := hI.L.semCount k
    rw [h2, hI.L.semInit k, relOf_eq] at h3
    have h7 := acqOf_le k s.log
    have hs0 : remN (isRelOp k) s s.n = 0 := hZ _ (fun op h => cons_not_rel k h)
    have hr1 : 1 ≤ remN (isAcqOp k) s s.n := by
      refine Nat.le_trans ?_ (remN_le s.n hr)
      rw [h5]; simp [isAcqOp]
    have t1 := htot (isRelOp k)
    have t2 := htot (isAcqOp k)
    unfold total at t1 t2
    have hm := hbal.2 k (mem_semsOf (by omega))
    omega

/-! ## the theorem -/

/-- PROGRESS form of "no lost wake-up": when the ready queue of a matched script program is drained
(at a pass boundary), every routine has returned. -/
theorem C18_progress (ops : List MainOp) (hm : Matched ops = true) (hq : (run init ops).readyq = []) :
    ∀ r, r < (run init ops).n → ((run init ops).R r).state = .dead := by
  unfold Matched at hm
  simp only [Bool.and_eq_true] at hm
  obtain ⟨⟨h1, h2⟩, h3⟩ := hm
  have hP : PInv ([] ++ created ops) (run init ops) :=
    run_pinv ops init [] h1 (fun p hp => List.all_eq_true.mp h2 p hp) init_pinv
  have hI := run_inv ops init_inv rfl
  exact quiescent_dead hI.1 hI.2 hq hP.1 (fun f => by simpa using hP.2 f) h3

/-- the restricted execution never aborts, nobody is cancelled, and every operation of every created
script is in the trace or still in a script (conservation) -/
theorem C18_progress_conservation (ops : List MainOp) (hm : Matched ops = true) (f : Op → Bool) :
    (run init ops).aborted = false ∧ (∀ r, ((run init ops).R r).canceled = false) ∧
    total f (run init ops) = (created ops).flatten.countP f := by
  unfold Matched at hm
  simp only [Bool.and_eq_true] at hm
  obtain ⟨⟨h1, h2⟩, _⟩ := hm
  have hP : PInv ([] ++ created ops) (run init ops) :=
    run_pinv ops init [] h1 (fun p hp => List.all_eq_true.mp h2 p hp) init_pinv
  exact ⟨hP.1.core.nab, hP.1.core.canc, by simpa using hP.2 f⟩

/-! ## non-vacuity -/

/-- two producers and two consumers on channel 0, yields in between -/
def progChannel : List MainOp :=
  [.define false [.send 0 1, .yield, .send 0 2], .define false [.recv 0, .yield, .recv 0],
   .new 1 true, .new 0 true, .new 1 true, .new 0 true, .pass, .pass, .pass, .pass]

example : Matched progChannel = true ∧ (run init progChannel).readyq = [] ∧ (run init progChannel).n = 4 := by
  decide

/-- three lockers of mutex 0 that yield (and send) inside the critical section -/
def progMutex : List MainOp :=
  [.define false [.yield, .lock 0, .yield, .send 1 5, .yield, .unlock 0, .lock 0, .unlock 0],
   .new 0 true, .new 0 true, .new 0 true,
   .pass, .pass, .pass, .pass, .pass, .pass, .pass, .pass, .pass, .pass, .pass, .pass]

example : Matched progMutex = true ∧ (run init progMutex).readyq = [] ∧ (run init progMutex).n = 3 := by
  decide

/-- two acquirers and one releaser on semaphore 0 (initial count 0) -/
def progSemaphore : List MainOp :=
  [.define false [.acquire 0, .yield], .define false [.yield, .release 0, .yield, .release 0],
   .new 0 true, .new 0 true, .new 1 true, .pass, .pass, .pass, .pass]

example : Matched progSemaphore = true ∧ (run init progSemaphore).readyq = [] ∧
    (run init progSemaphore).n = 3 := by
  decide

/-- all three kinds together: a locker that releases inside its section, a consumer of both -/
def progMixed : List MainOp :=
  [.define false [.lock 2, .send 0 7, .yield, .release 0, .unlock 2],
   .define false [.recv 0, .acquire 0, .recv 0, .acquire 0],
   .new 1 true, .new 0 true, .new 0 true, .pass, .pass, .pass, .pass, .pass]

example : Matched progMixed = true ∧ (run init progMixed).readyq = [] ∧ (run init progMixed).n = 3 := by
  decide

/-- the matching hypothesis is needed: one more `recv` than sends, the receiver is suspended for ever -/
def progUnmatched : List MainOp :=
  [.define false [.send 0 1], .define false [.recv 0, .recv 0], .new 0 true, .new 1 true, .pass, .pass]

example : Matched progUnmatched = false ∧ (run init progUnmatched).readyq = [] ∧
    ((run init progUnmatched).R 1).state = .suspend ∧ 1 < (run init progUnmatched).n := by
  decide

/-- … and so is the role hypothesis: nested sections in opposite order deadlock -/
def progNested : List MainOp :=
  [.define false [.lock 0, .yield, .yield, .lock 1, .unlock 1, .unlock 0],
   .define false [.lock 1, .yield, .yield, .lock 0, .unlock 0, .unlock 1], .new 0 true, .new 1 true,
   .pass, .pass, .pass]

example : Matched progNested = false ∧ (run init progNested).readyq = [] ∧
    ((run init progNested).R 0).state = .suspend ∧ ((run init progNested).R 1).state = .suspend := by
  decide

end Tbox.C18
