/-
C18 — PROGRESS for `Broadcast` under an ORDER hypothesis (round 6).

`C18_progress` (Progress.lean) is a counting theorem; for `Broadcast` counting is not enough
(`C18_progress_broadcast_needs_order_counterexample`, Props5.lean: as many posts as waits, the waiter hangs,
legitimately: a post that comes first is not a wake-up the waiter is owed).  The hypothesis that replaces the count is
the ORDER: every `Broadcast::wait` of a routine is followed, in the run-time order of the deterministic schedule, by a
`post` of the same object.  For the class below that order is STATIC, so the hypothesis is a `Bool` on the program:

  * routine scripts consist of `waitBroadcast b` calls only (any number, any objects, several routines per object),
  * the main context defines scripts, creates routines (`run_now = true`), lets the loop run, and calls
    `Broadcast::post` itself (the wake-up path of an event callback, `MainOp.call (.post b)`).

A routine of the class only ever stops inside a `wait`; a post from the main context is issued between two loop passes,
when every routine created so far is suspended in the `wait` at the head of its remaining script.  So the post sequence
a routine sees is the sequence of main posts after its creation, and it returns iff its wait sequence is matched
greedily, in order, by posts issued after its `create` (`servedBy`).  `PostedAfterWait` says that of every created
routine.

  `C18_progress_broadcast`        PostedAfterWait ops  ->  ready queue empty and every routine Dead at the end of the run
  `C18_progress_broadcast_iff`    for every program of the class (`BroadcastMainPosted`): the run drains its ready queue, and
                                  every routine is Dead at the end IF AND ONLY IF `PostedAfterWait ops` - the hypothesis is exact
  `C18_progress_broadcast_unordered_hangs`   the sharp edge in general: a program of the class that fails the order predicate
                                  leaves a routine that has not returned
  `C18_progress_broadcast_post_first_counterexample`   the smallest instance: post, then create: the waiter is suspended in
                                  `wait`, registered after the last post (the clause of `C18_no_lost_wakeup`)

Proof: `M s l` is the shape of every state of such a run (`l` = the routines that are ready: the ready queue, or what is
left of the swapped-out queue inside `schedule`); everybody else is Dead-and-freed or suspended in the `wait` at the head
of its script and registered with exactly that object, and every registered token is such a waiter (`tok`: no stale
tokens, so a post wakes nobody else).  `switchTo_M`: a ready routine completes the wait it was woken in and registers
for the next one or returns (at most two operations).  `post_step` / `new_step` / `idle_step` give the scripts after one op
line as `serve1` of the scripts before; `run_served` is the induction over the program.

`Condition` (kAll / kAny): ProgressCD.lean - there a post BEFORE the wait does count (it erases the key), what is lost is
a post before the ADD, and the objects are shared state between routines, so the order predicate is an interpreter of
add / wait / post over the table of condition objects rather than a subsequence test.
-/
import TboxModel.C18.Spec
namespace Tbox.C18

/-! ## the class and the order predicate (all `Bool`) -/

def isBw : Op → Bool
  | .bwait _ => true
  | _ => false

/-- what one main-context operation does to a routine suspended at the head of its remaining script `l`:
a post of the object it waits on lets it run on to its next wait; everything else leaves it where it is -/
def serve1 (l : List Op) (op : MainOp) : List Op :=
  match op, l with
  | .call (.post b'), .bwait b :: ws => if b = b' then ws else l
  | _, _ => l

/-- the waits of `l` are matched, in order, by posts among the main operations `ops` that follow -/
def servedBy : List Op → List MainOp → Bool
  | l, [] => l.isEmpty
  | l, op :: ops => servedBy (serve1 l op) ops

def BMainOK : MainOp → Bool
  | .define false l => l.all isBw
  | .new _ true => true
  | .pass => true
  | .call (.post _) => true
  | _ => false

/-- every `create` is followed by the posts its script waits for, in the order it waits for them -/
def orderedAux : List (Bool × List Op) → List MainOp → Bool
  | _, [] => true
  | defs, .define xf l :: ops => orderedAux (defs ++ [(xf, l)]) ops
  | defs, .new d _ :: ops => servedBy (defs.getD d (false, [])).2 ops && orderedAux defs ops
  | defs, _ :: ops => orderedAux defs ops

/-- the ORDER hypothesis, a decidable predicate on the program -/
def PostedAfterWait (ops : List MainOp) : Bool := ops.all BMainOK && orderedAux [] ops

/-! ## the invariant -/

structure RtOK (x : Routine) : Prop where
  canc : x.canceled = false
  joi : x.joiner = none
  raii : x.raii = false
  xf : x.xfail = false
  bw : x.script.all isBw = true

/-- suspended in the wait at the head of the script, registered with that object -/
def Sus (s : State) (r : Nat) : Prop :=
  (s.R r).state = .suspend ∧ (s.R r).freed = false ∧ (s.R r).inOp = true ∧
    ∃ b rest, (s.R r).script = .bwait b :: rest ∧ r ∈ (s.bc b).tokens

def Ded (s : State) (r : Nat) : Prop :=
  (s.R r).state = .dead ∧ (s.R r).freed = true ∧ (s.R r).script = []

/-- in the ready queue: just created (`inOp = false`) or woken inside a wait -/
def Rdy (s : State) (r : Nat) : Prop :=
  (s.R r).state = .ready ∧ (s.R r).freed = false ∧
    ((s.R r).inOp = true → ∃ b rest, (s.R r).script = .bwait b :: rest)

/-- `l` = the routines that are ready (the ready queue, or what is left of the swapped-out queue) -/
structure M (s : State) (l : List Nat) : Prop where
  nab : s.aborted = false
  ok : ∀ r, RtOK (s.R r)
  set : ∀ r, r < s.n → r ∉ l → Sus s r ∨ Ded s r
  rdy : ∀ r, r ∈ l → r < s.n ∧ Rdy s r
  nd : l.Nodup
  tok : ∀ b t, t ∈ (s.bc b).tokens → (s.R t).state = .suspend ∧ (s.R t).script.head? = some (.bwait b)
  rd : s.rdefs = []
  tlt : ∀ b t, t ∈ (s.bc b).tokens → t < s.n

/-- the fields the invariant reads -/
structure Same (s s' : State) : Prop where
  rts : s'.rts = s.rts
  bc : s'.bc = s.bc
  n : s'.n = s.n
  ab : s'.aborted = s.aborted
  rd : s'.rdefs = s.rdefs

theorem Same.R {s s' : State} (h : Same s s') (r : Nat) : s'.R r = s.R r := by
  simp only [State.R, h.rts]

theorem Same.m {s s' : State} {l : List Nat} (h : Same s s') (hM : M s l) : M s' l := by
  refine ⟨h.ab.trans hM.nab, fun r => by rw [h.R]; exact hM.ok r, fun r hr hl => ?_, fun r hr => ?_, hM.nd,
    fun b t ht => ?_, h.rd.trans hM.rd, fun b t ht => by rw [h.bc] at ht; rw [h.n]; exact hM.tlt b t ht⟩
  · rw [h.n] at hr
    rcases hM.set r hr hl with x | x
    · left; unfold Sus at *; rw [h.R, h.bc]; exact x
    · right; unfold Ded at *; rw [h.R]; exact x
  · have := hM.rdy r hr
    unfold Rdy at *; rw [h.R, h.n]; exact this
  · rw [h.bc] at ht; rw [h.R]; exact hM.tok b t ht

/-! ## a routine runs -/

theorem runOps_nil {s : State} {r : Nat} (h : (s.R r).raii = false) : runOps r [] s = die s r := by
  simp [runOps, fin, unwind, h]

/-- first entry into `wait()`: register, switch back -/
def enterB (s : State) (r b : Nat) (rest : List Op) : State :=
  { s with
    rts := fun i => if i = r then { s.R r with state := .suspend, inOp := true, script := .bwait b :: rest,
                                               wepoch := (s.bc b).epoch } else s.rts i,
    bc := fun i => if i = b then { s.bc b with tokens := (s.bc b).tokens ++ [r] } else s.bc i }

theorem runOps_fresh {s : State} {r b : Nat} {rest : List Op} (h1 : (s.R r).inOp = false)
    (h2 : (s.R r).canceled = false) : runOps r (.bwait b :: rest) s = enterB s r b rest := by
  simp only [State.R] at h1 h2
  simp [runOps, execOp, waitBlock, blockIn, State.R, State.setR, State.setBc, h1, h2, enterB]
  funext i
  by_cases hi : i = r <;> simp [hi]

/-- back from `sch_.wait()`: the call returns `true` -/
def contB (s : State) (r b : Nat) (rest : List Op) : State :=
  { s with
    rts := fun i => if i = r then { s.R r with script := rest, inOp := false, done := (s.R r).done + 1 } else s.rts i,
    log := s.log ++ [{ r := r, op := .bwait b, res := .ok, canc := false }] }

theorem runOps_cont {s : State} {r b : Nat} {rest : List Op} (h1 : (s.R r).inOp = true)
    (h2 : (s.R r).canceled = false) (h3 : (s.R r).xfail = false) :
    runOps r (.bwait b :: rest) s = runOps r rest (contB s r b rest) := by
  have e : execOp s r (.bwait b) rest = (contB s r b rest, .next) := by
    simp only [State.R] at h1 h2 h3
    simp [execOp, finish, contB, State.setR, State.R, h1, h2, h3]
  rw [runOps, e]

/-- a routine that was made ready runs and settles: the others are untouched, its registrations are kept -/
theorem M.settle {s s' : State} {r : Nat} {rest : List Nat} (hM : M s (r :: rest)) (hn : s'.n = s.n)
    (ha : s'.aborted = s.aborted) (ho : ∀ i, i ≠ r → s'.R i = s.R i) (hok : RtOK (s'.R r))
    (hr : Sus s' r ∨ Ded s' r)
    (hb : ∀ b t, t ∈ (s'.bc b).tokens → t ∈ (s.bc b).tokens ∨
      (t = r ∧ (s'.R r).state = .suspend ∧ (s'.R r).script.head? = some (.bwait b)))
    (hb2 : ∀ b t, t ∈ (s.bc b).tokens → t ∈ (s'.bc b).tokens) (hrd : s'.rdefs = s.rdefs) : M s' rest := by
  have hnd := List.nodup_cons.mp hM.nd
  have hrr := (hM.rdy r List.mem_cons_self).2
  refine ⟨ha.trans hM.nab, fun i => ?_, fun i hi hl => ?_, fun i hi => ?_, hnd.2, fun b t ht => ?_, hrd.trans hM.rd,
    fun b t ht => ?_⟩
  rotate_right
  · rw [hn]
    rcases hb b t ht with x | ⟨x1, _, _⟩
    · exact hM.tlt b t x
    · subst x1; exact (hM.rdy t List.mem_cons_self).1
  · by_cases e : i = r
    · subst e; exact hok
    · rw [ho i e]; exact hM.ok i
  · by_cases e : i = r
    · subst e; exact hr
    · rw [hn] at hi
      have hl' : i ∉ r :: rest := by simp [e, hl]
      rcases hM.set i hi hl' with x | x
      · left
        obtain ⟨x1, x2, x3, b, rs, x4, x5⟩ := x
        unfold Sus; rw [ho i e]
        exact ⟨x1, x2, x3, b, rs, x4, hb2 b i x5⟩
      · right; unfold Ded at *; rw [ho i e]; exact x
  · have e : i ≠ r := fun e => hnd.1 (e ▸ hi)
    have := hM.rdy i (List.mem_cons_of_mem _ hi)
    unfold Rdy at *; rw [ho i e, hn]; exact this
  · rcases hb b t ht with x | ⟨x1, x2, x3⟩
    · have h1 := hM.tok b t x
      have e : t ≠ r := by
        intro e; subst e
        rw [hrr.1] at h1; cases h1.1
      rw [ho t e]; exact h1
    · subst x1; exact ⟨x2, x3⟩

/-- the script of `i` after routine `r` ran: `r` completed the wait it was woken in -/
def advance (s : State) (r i : Nat) : List Op :=
  if i = r ∧ (s.R r).inOp = true then (s.R i).script.tail else (s.R i).script

theorem switchTo_M {s : State} {r : Nat} {rest : List Nat} (hM : M s (r :: rest)) :
    M (switchTo s r) rest ∧ (switchTo s r).n = s.n ∧ (switchTo s r).defs = s.defs ∧
    (switchTo s r).readyq = s.readyq ∧
    (∀ i, ((switchTo s r).R i).script = advance s r i) ∧
    (∀ i, i ≠ r → ((switchTo s r).R i).inOp = (s.R i).inOp) := by
  obtain ⟨hlt, hst, hfr, hin⟩ := hM.rdy r List.mem_cons_self
  have hk := hM.ok r
  -- the state in which the routine runs
  let s1 : State := s.setR r { s.R r with state := .running, started := true }
  have hs1 : ∀ i, i ≠ r → s1.R i = s.R i := fun i hi => by simp [s1, State.setR, State.R, hi]
  have hs1r : s1.R r = { s.R r with state := .running, started := true } := by simp [s1, State.setR, State.R]
  -- final states of the two ways to stop
  have fin_dead : ∀ s2 : State, s2.n = s.n → s2.aborted = s.aborted → s2.defs = s.defs → s2.readyq = s.readyq →
      s2.bc = s.bc → s2.rdefs = s.rdefs → (∀ i, i ≠ r → s2.R i = s.R i) → (s2.R r).raii = false → (s2.R r).joiner = none →
      (s2.R r).canceled = false → (s2.R r).xfail = false →
      let s3 := (let sd := die s2 r; if (sd.R r).state = .dead then
          (let s3 := freeRoutine sd r; resumeOpt s3 (s3.R r).joiner) else sd)
      M s3 rest ∧ s3.n = s.n ∧ s3.defs = s.defs ∧ s3.readyq = s.readyq ∧ (s3.R r).script = [] ∧
        (∀ i, i ≠ r → s3.R i = s.R i) := by
    intro s2 e1 e2 e3 e4 e5 erd e6 e7 e8 e9 e10
    have hd : ((die s2 r).R r).state = .dead := by simp [die, State.setR, State.R]
    simp only [hd, if_true]
    have hj : ((freeRoutine (die s2 r) r).R r).joiner = none := by
      simp only [State.R] at e8
      simp [freeRoutine, die, State.setR, State.R, e8]
    simp only [hj, resumeOpt]
    have hoth : ∀ i, i ≠ r → (freeRoutine (die s2 r) r).R i = s.R i := fun i hi => by
      rw [← e6 i hi]; simp [freeRoutine, die, State.setR, State.R, hi]
    have hbc : (freeRoutine (die s2 r) r).bc = s.bc := by rw [← e5]; rfl
    refine ⟨?_, e1, e3, e4, by simp [freeRoutine, die, State.setR, State.R], hoth⟩
    simp only [State.R] at e7 e8 e9 e10
    refine hM.settle e1 e2 hoth ?_ (Or.inr ?_) (fun b t ht => Or.inl (by rw [hbc] at ht; exact ht))
      (fun b t ht => by rw [hbc]; exact ht) erd
    · constructor <;> simp [freeRoutine, die, State.setR, State.R, e7, e8, e9, e10]
    · simp [Ded, freeRoutine, die, State.setR, State.R]
  have fin_block : ∀ (s2 : State) (b : Nat) (rs : List Op), s2.n = s.n → s2.aborted = s.aborted →
      s2.defs = s.defs → s2.readyq = s.readyq → s2.bc = s.bc → s2.rdefs = s.rdefs → (∀ i, i ≠ r → s2.R i = s.R i) →
      (s2.R r).raii = false → (s2.R r).joiner = none → (s2.R r).canceled = false → (s2.R r).xfail = false →
      (s2.R r).freed = false → (rs.all isBw = true) →
      let s3 := (let sd := enterB s2 r b rs; if (sd.R r).state = .dead then
          (let s3 := freeRoutine sd r; resumeOpt s3 (s3.R r).joiner) else sd)
      M s3 rest ∧ s3.n = s.n ∧ s3.defs = s.defs ∧ s3.readyq = s.readyq ∧ (s3.R r).script = .bwait b :: rs ∧
        (∀ i, i ≠ r → s3.R i = s.R i) := by
    intro s2 b rs e1 e2 e3 e4 e5 erd e6 e7 e8 e9 e10 e11 e12
    have hd : ((enterB s2 r b rs).R r).state ≠ .dead := by simp [enterB, State.R]
    simp only [hd, if_false]
    have hoth : ∀ i, i ≠ r → (enterB s2 r b rs).R i = s.R i := fun i hi => by
      rw [← e6 i hi]; simp [enterB, State.R, hi]
    refine ⟨?_, e1, e3, e4, by simp [enterB, State.R], hoth⟩
    simp only [State.R] at e7 e8 e9 e10 e11
    refine hM.settle e1 e2 hoth ?_ (Or.inl ?_) (fun b' t ht => ?_) (fun b' t ht => ?_) erd
    · constructor <;> simp [enterB, State.R, e7, e8, e9, e10, isBw, e12]
    · simp [Sus, enterB, State.R, e11]
    · by_cases hb : b' = b
      · subst hb
        simp only [enterB, State.R, if_true, List.mem_append, List.mem_singleton] at ht
        rcases ht with ht | ht
        · left; rw [← e5]; exact ht
        · right; exact ⟨ht, by simp [enterB, State.R], by simp [enterB, State.R]⟩
      · left
        simp only [enterB, hb, if_false] at ht
        rw [← e5]; exact ht
    · rw [← e5] at ht
      by_cases hb : b' = b
      · subst hb; simp [enterB, ht]
      · simp [enterB, hb, ht]
  -- case analysis on the script
  have hsw : switchTo s r = (let s2 := runOps r (s.R r).script s1
      if (s2.R r).state = .dead then (let s3 := freeRoutine s2 r; resumeOpt s3 (s3.R r).joiner) else s2) := by
    simp only [switchTo, s1, State.setR, State.R, if_true]
  rw [hsw]
  have hadv : ∀ i, i ≠ r → advance s r i = (s.R i).script := fun i hi => by simp [advance, hi]
  have s1n : s1.n = s.n := rfl
  have s1a : s1.aborted = s.aborted := rfl
  have s1d : s1.defs = s.defs := rfl
  have s1q : s1.readyq = s.readyq := rfl
  have s1b : s1.bc = s.bc := rfl
  have s1raii : (s1.R r).raii = false := by rw [hs1r]; exact hk.raii
  have s1joi : (s1.R r).joiner = none := by rw [hs1r]; exact hk.joi
  have s1canc : (s1.R r).canceled = false := by rw [hs1r]; exact hk.canc
  have s1xf : (s1.R r).xfail = false := by rw [hs1r]; exact hk.xf
  have s1fr : (s1.R r).freed = false := by rw [hs1r]; exact hfr
  have s1in : (s1.R r).inOp = (s.R r).inOp := by rw [hs1r]
  have finish_up : ∀ (s3 : State) (scr : List Op), (M s3 rest ∧ s3.n = s.n ∧ s3.defs = s.defs ∧ s3.readyq = s.readyq ∧
      (s3.R r).script = scr ∧ (∀ i, i ≠ r → s3.R i = s.R i)) → advance s r r = scr →
      M s3 rest ∧ s3.n = s.n ∧ s3.defs = s.defs ∧ s3.readyq = s.readyq ∧
      (∀ i, (s3.R i).script = advance s r i) ∧ (∀ i, i ≠ r → (s3.R i).inOp = (s.R i).inOp) := by
    intro s3 scr ⟨a1, a2, a3, a4, a5, a6⟩ a7
    refine ⟨a1, a2, a3, a4, fun i => ?_, fun i hi => by rw [a6 i hi]⟩
    by_cases hi : i = r
    · subst hi; rw [a5, a7]
    · rw [a6 i hi, hadv i hi]
  cases hscr : (s.R r).script with
  | nil =>
      have hino : (s.R r).inOp = false := by
        cases h : (s.R r).inOp
        · rfl
        · obtain ⟨b, rs, e⟩ := hin h; rw [hscr] at e; cases e
      rw [runOps_nil s1raii]
      exact finish_up _ _ (fin_dead s1 s1n s1a s1d s1q s1b rfl hs1 s1raii s1joi s1canc s1xf)
        (by simp [advance, hino, hscr])
  | cons op rs =>
      have hbw := hk.bw
      rw [hscr] at hbw
      simp only [List.all_cons, Bool.and_eq_true] at hbw
      cases op <;> simp only [isBw, Bool.false_eq_true, false_and] at hbw
      rename_i b
      cases hino : (s.R r).inOp with
      | false =>
          rw [runOps_fresh (by rw [s1in]; exact hino) s1canc]
          exact finish_up _ _ (fin_block s1 b rs s1n s1a s1d s1q s1b rfl hs1 s1raii s1joi s1canc s1xf s1fr hbw.2)
            (by simp [advance, hino, hscr])
      | true =>
          rw [runOps_cont (by rw [s1in]; exact hino) s1canc s1xf]
          -- after the wait returned
          let s2 : State := contB s1 r b rs
          have c6 : ∀ i, i ≠ r → s2.R i = s.R i := fun i hi => by
            rw [← hs1 i hi]; simp [s2, contB, State.R, hi]
          have c7 : (s2.R r).raii = false := by simp only [State.R] at s1raii; simp [s2, contB, State.R, s1raii]
          have c8 : (s2.R r).joiner = none := by simp only [State.R] at s1joi; simp [s2, contB, State.R, s1joi]
          have c9 : (s2.R r).canceled = false := by simp only [State.R] at s1canc; simp [s2, contB, State.R, s1canc]
          have c10 : (s2.R r).xfail = false := by simp only [State.R] at s1xf; simp [s2, contB, State.R, s1xf]
          have c11 : (s2.R r).freed = false := by simp only [State.R] at s1fr; simp [s2, contB, State.R, s1fr]
          have c12 : (s2.R r).inOp = false := by simp [s2, contB, State.R]
          cases rs with
          | nil =>
              rw [runOps_nil c7]
              exact finish_up _ _ (fin_dead s2 s1n s1a s1d s1q s1b rfl c6 c7 c8 c9 c10)
                (by simp [advance, hino, hscr])
          | cons op2 rs2 =>
              simp only [List.all_cons, Bool.and_eq_true] at hbw
              have hbw2 := hbw.2
              cases op2 <;> simp only [isBw, Bool.false_eq_true, false_and] at hbw2
              rename_i b2
              rw [runOps_fresh c12 c9]
              exact finish_up _ _ (fin_block s2 b2 rs2 s1n s1a s1d s1q s1b rfl c6 c7 c8 c9 c10 c11 hbw2.2)
                (by simp [advance, hino, hscr])

/-! ## a pass of the loop -/

/-- the script of `i` after the routines of `l` ran -/
def advL (s : State) (l : List Nat) (i : Nat) : List Op :=
  if i ∈ l ∧ (s.R i).inOp = true then (s.R i).script.tail else (s.R i).script

theorem drain_M : ∀ (l : List Nat) (s : State), M s l → s.readyq = [] →
    M (drain l s) [] ∧ (drain l s).readyq = [] ∧ (drain l s).n = s.n ∧ (drain l s).defs = s.defs ∧
    ∀ i, ((drain l s).R i).script = advL s l i
  | [], s, h, hq => ⟨h, hq, rfl, rfl, fun i => by simp [advL, drain]⟩
  | r :: rest, s, h, hq => by
      let s0 : State := { s with tmp := rest }
      have hR : ∀ i, s0.R i = s.R i := fun _ => rfl
      have h0 : M s0 (r :: rest) := Same.m (s := s) (s' := s0) ⟨rfl, rfl, rfl, rfl, rfl⟩ h
      obtain ⟨hlt, hst, hfr, _⟩ := h0.rdy r List.mem_cons_self
      have hal : alive s0 r = true := by
        simp only [alive, Bool.and_eq_true, decide_eq_true_eq, Bool.not_eq_true']
        exact ⟨hlt, hfr⟩
      have hd : drain (r :: rest) s = drain rest (switchTo s0 r) := by
        simp only [drain]
        rw [if_pos hal]
      obtain ⟨m1, n1, d1, q1, sc1, io1⟩ := switchTo_M h0
      have ih := drain_M rest (switchTo s0 r) m1 (q1.trans hq)
      rw [hd]
      refine ⟨ih.1, ih.2.1, ih.2.2.1.trans n1, ih.2.2.2.1.trans d1, fun i => ?_⟩
      rw [ih.2.2.2.2 i]
      have hnd := List.nodup_cons.mp h.nd
      unfold advL
      by_cases hi : i = r
      · subst hi
        simp only [hnd.1, false_and, if_false, sc1, advance, true_and, List.mem_cons_self, hR]
      · rw [io1 i hi, sc1 i]
        simp [advance, hi, hR]

theorem schedule_M {s : State} (h : M s s.readyq) :
    M (schedule s) [] ∧ (schedule s).readyq = [] ∧ (schedule s).n = s.n ∧ (schedule s).defs = s.defs ∧
    ∀ i, ((schedule s).R i).script = advL s s.readyq i := by
  have := drain_M s.readyq { s with readyq := [], tmp := s.readyq } (Same.m (s := s) ⟨rfl, rfl, rfl, rfl, rfl⟩ h) rfl
  exact this

theorem batch_idle : ∀ (k : Nat) (s : State), M s [] → s.readyq = [] →
    M (batch k s) [] ∧ (batch k s).readyq = [] ∧ (batch k s).n = s.n ∧ (batch k s).defs = s.defs ∧
    ∀ i, ((batch k s).R i).script = (s.R i).script
  | 0, s, h, hq => ⟨h, hq, rfl, rfl, fun _ => rfl⟩
  | k + 1, s, h, hq => by
      have h1 := schedule_M (s := s) (by rw [hq]; exact h)
      have ih := batch_idle k (schedule s) h1.1 h1.2.1
      rw [batch]
      refine ⟨ih.1, ih.2.1, ih.2.2.1.trans h1.2.2.1, ih.2.2.2.1.trans h1.2.2.2.1, fun i => ?_⟩
      rw [ih.2.2.2.2 i, h1.2.2.2.2 i, hq]
      simp [advL]

theorem loopPass_M {s : State} (h : M s s.readyq) (hp : s.readyq = [] ∨ 1 ≤ s.pend) :
    M (loopPass s) [] ∧ (loopPass s).readyq = [] ∧ (loopPass s).n = s.n ∧ (loopPass s).defs = s.defs ∧
    ∀ i, ((loopPass s).R i).script = advL s s.readyq i := by
  let s' : State := { s with pend := 0 }
  have h' : M s' s'.readyq := Same.m (s := s) (s' := s') ⟨rfl, rfl, rfl, rfl, rfl⟩ h
  unfold loopPass
  by_cases hq : s.readyq = []
  · have := batch_idle s.pend s' (by rw [← hq]; exact h') hq
    refine ⟨this.1, this.2.1, this.2.2.1, this.2.2.2.1, fun i => ?_⟩
    rw [this.2.2.2.2 i, hq]
    simp [advL, s', State.R]
  · have hp1 : 1 ≤ s.pend := by
      rcases hp with e | e
      · exact absurd e hq
      · exact e
    obtain ⟨k, hk⟩ : ∃ k, s.pend = k + 1 := ⟨s.pend - 1, by omega⟩
    rw [hk, batch]
    have h1 := schedule_M h'
    have h2 := batch_idle k (schedule s') h1.1 h1.2.1
    refine ⟨h2.1, h2.2.1, h2.2.2.1.trans h1.2.2.1, h2.2.2.2.1.trans h1.2.2.2.1, fun i => ?_⟩
    rw [h2.2.2.2.2 i, h1.2.2.2.2 i]
    rfl

/-! ## `Broadcast::post` from the main context -/

/-- `s` is the settled state `s0` after the waiters `ts` were resumed -/
structure Wake (s0 s : State) (ts : List Nat) : Prop where
  n : s.n = s0.n
  defs : s.defs = s0.defs
  ab : s.aborted = s0.aborted
  bc : s.bc = s0.bc
  rd : s.rdefs = s0.rdefs
  lg : s.log = s0.log
  rt : ∀ r, s.R r = s0.R r ∨ (r ∈ s.readyq ∧ s.R r = { s0.R r with state := .ready })
  q : ∀ r, r ∈ s.readyq → (s.R r).state = .ready ∧ r < s0.n ∧ (s0.R r).freed = false ∧
        (s0.R r).state = .suspend ∧ r ∈ ts
  nd : s.readyq.Nodup
  pd : s.readyq = [] ∨ 1 ≤ s.pend
  dn : ∀ t, t ∈ ts → t < s0.n → (s0.R t).freed = false → (s0.R t).state = .suspend → t ∈ s.readyq

theorem resume_W {s0 s : State} {ts : List Nat} {t : Nat} (h : Wake s0 s ts)
    (hS : ∀ r, r < s0.n → (s0.R r).state = .suspend ∨ (s0.R r).state = .dead) : Wake s0 (resume s t).1 (ts ++ [t]) := by
  have mono : ∀ r, r ∈ ts → r ∈ ts ++ [t] := fun r hr => List.mem_append_left _ hr
  have unch : ((s.R t).state = .ready ∨ (s.R t).state = .dead ∨ alive s t = false) → Wake s0 s (ts ++ [t]) := by
    intro hst
    refine ⟨h.n, h.defs, h.ab, h.bc, h.rd, h.lg, h.rt, fun r hr => ?_, h.nd, h.pd, fun x hx h1 h2 h3 => ?_⟩
    · obtain ⟨a, b, c, d, e⟩ := h.q r hr; exact ⟨a, b, c, d, mono r e⟩
    · rcases List.mem_append.mp hx with hx | hx
      · exact h.dn x hx h1 h2 h3
      · have : x = t := List.mem_singleton.mp hx
        subst this
        rcases h.rt x with e | ⟨e, _⟩
        · exfalso
          rcases hst with c | c | c
          · rw [e, h3] at c; cases c
          · rw [e, h3] at c; cases c
          · simp only [alive, Bool.and_eq_false_iff, decide_eq_false_iff_not, Bool.not_eq_false'] at c
            rw [h.n, e] at c
            rcases c with c | c
            · exact c h1
            · rw [h2] at c; cases c
        · exact e
  unfold resume
  by_cases ha : alive s t = true
  · rw [if_pos ha]
    unfold makeReady
    by_cases hst : (s.R t).state = .ready ∨ (s.R t).state = .dead
    · rw [if_pos hst]
      exact unch (by rcases hst with c | c; exact Or.inl c; exact Or.inr (Or.inl c))
    · rw [if_neg hst]
      have e0 : s.R t = s0.R t := by
        rcases h.rt t with e | ⟨_, e⟩
        · exact e
        · exfalso; apply hst; left; rw [e]
      have hal : t < s0.n ∧ (s0.R t).freed = false := by
        simp only [alive, Bool.and_eq_true, decide_eq_true_eq, Bool.not_eq_true'] at ha
        rw [h.n, e0] at ha; exact ha
      have hsus : (s0.R t).state = .suspend := by
        rcases hS t hal.1 with c | c
        · exact c
        · exfalso; apply hst; right; rw [e0]; exact c
      have htq : t ∉ s.readyq := fun hq => hst (Or.inl (h.q t hq).1)
      refine ⟨h.n, h.defs, h.ab, h.bc, h.rd, h.lg, fun r => ?_, fun r hr => ?_, ?_, Or.inr (by simp), fun x hx h1 h2 h3 => ?_⟩
      · by_cases hr : r = t
        · subst hr
          right
          refine ⟨by simp, ?_⟩
          rw [← e0]; simp [State.setR, State.R]
        · rcases h.rt r with e | ⟨e1, e2⟩
          · left; rw [← e]; simp [State.setR, State.R, hr]
          · right
            refine ⟨by simp [e1], ?_⟩
            rw [← e2]; simp [State.setR, State.R, hr]
      · simp only [List.mem_append, List.mem_singleton] at hr
        rcases hr with hr | hr
        · have hne : r ≠ t := fun e => htq (e ▸ hr)
          obtain ⟨a, b, c, d, e⟩ := h.q r hr
          refine ⟨?_, b, c, d, mono r e⟩
          rw [← a]; simp [State.setR, State.R, hne]
        · subst hr
          exact ⟨by simp [State.setR, State.R], hal.1, hal.2, hsus, by simp⟩
      · show (s.readyq ++ [t]).Nodup
        rw [List.nodup_append]
        refine ⟨h.nd, by simp, fun a ha b hb => ?_⟩
        rw [List.mem_singleton.mp hb]
        exact fun e => htq (e ▸ ha)
      · show x ∈ s.readyq ++ [t]
        rcases List.mem_append.mp hx with hx | hx
        · exact List.mem_append_left _ (h.dn x hx h1 h2 h3)
        · exact List.mem_append_right _ hx
  · rw [if_neg ha]
    exact unch (Or.inr (Or.inr (by simpa using ha)))

theorem wakeAll_W {s0 : State} (hS : ∀ r, r < s0.n → (s0.R r).state = .suspend ∨ (s0.R r).state = .dead) :
    ∀ (ts : List Nat) (s : State) (done : List Nat), Wake s0 s done → Wake s0 (wakeAll s ts) (done ++ ts)
  | [], s, done, h => by simpa [wakeAll] using h
  | t :: ts, s, done, h => by
      have := wakeAll_W hS ts _ (done ++ [t]) (resume_W h hS)
      simpa [wakeAll, List.append_assoc] using this

theorem step_eq' {s : State} {op : MainOp} (h1 : s.aborted = false) (h2 : (applyMain s op).aborted = false) :
    step s op = loopPass (applyMain s op) := by
  simp only [step, h1, h2, Bool.false_eq_true, if_false]

theorem post_step {s : State} {b : Nat} (h : M s []) (hq : s.readyq = []) :
    M (step s (.call (.post b))) [] ∧ (step s (.call (.post b))).readyq = [] ∧
    (step s (.call (.post b))).n = s.n ∧ (step s (.call (.post b))).defs = s.defs ∧
    ∀ i, i < s.n → ((step s (.call (.post b))).R i).script = serve1 (s.R i).script (.call (.post b)) := by
  have hS : ∀ r, r < s.n → (s.R r).state = .suspend ∨ (s.R r).state = .dead := fun r hr => by
    rcases h.set r hr (by simp) with x | x
    · exact Or.inl x.1
    · exact Or.inr x.1
  have W0 : Wake s s [] := ⟨rfl, rfl, rfl, rfl, rfl, rfl, fun _ => Or.inl rfl, fun r hr => (by rw [hq] at hr; cases hr),
    (by rw [hq]; exact List.nodup_nil), Or.inl hq, fun t ht => (by cases ht)⟩
  have W := wakeAll_W hS (s.bc b).tokens s [] W0
  simp only [List.nil_append] at W
  let s1 := wakeAll s (s.bc b).tokens
  let s2 : State := logMain (s1.setBc b { tokens := [], epoch := (s.bc b).epoch + 1 }) (.post b) .ok
  have hmc : mainCall s (.post b) = s2 := rfl
  have a2 : s2.aborted = false := W.ab.trans h.nab
  have hst : step s (.call (.post b)) = loopPass s2 := step_eq' h.nab a2
  have R2 : ∀ i, s2.R i = s1.R i := fun _ => rfl
  have bc2 : ∀ b', b' ≠ b → s2.bc b' = s.bc b' := fun b' hb => by
    have : s2.bc b' = s1.bc b' := by simp [s2, logMain, State.setBc, hb]
    rw [this, W.bc]
  have bcb : (s2.bc b).tokens = [] := by simp [s2, logMain, State.setBc]
  have sus_of : ∀ r, r ∈ s1.readyq → Sus s r ∧ (s.R r).script.head? = some (.bwait b) := fun r hr => by
    obtain ⟨_, b1, b2, b3, b4⟩ := W.q r hr
    rcases h.set r b1 (by simp) with x | x
    · exact ⟨x, (h.tok b r b4).2⟩
    · rw [x.1] at b3; cases b3
  have M2 : M s2 s2.readyq := by
    refine ⟨a2, fun r => ?_, fun r hr hl => ?_, fun r hr => ?_, W.nd, fun b' t ht => ?_, W.rd.trans h.rd,
      fun b' t ht => ?_⟩
    · rw [R2]
      rcases W.rt r with e | ⟨_, e⟩
      · rw [e]; exact h.ok r
      · rw [e]; have := h.ok r; exact ⟨this.canc, this.joi, this.raii, this.xf, this.bw⟩
    · have hr' : r < s.n := by rw [← W.n]; exact hr
      rcases W.rt r with e | ⟨e, _⟩
      · rcases h.set r hr' (by simp) with x | x
        · left
          obtain ⟨x1, x2, x3, b', rs, x4, x5⟩ := x
          have hb : b' ≠ b := by
            intro hb; subst hb
            exact hl (W.dn r x5 hr' x2 x1)
          unfold Sus; rw [R2, e]
          exact ⟨x1, x2, x3, b', rs, x4, by rw [bc2 b' hb]; exact x5⟩
        · right; unfold Ded at *; rw [R2, e]; exact x
      · exact absurd e hl
    · obtain ⟨a, b1, b2, b3, b4⟩ := W.q r hr
      have hs := (sus_of r hr).1
      refine ⟨by rw [← W.n] at b1; exact b1, ?_⟩
      rcases W.rt r with e | ⟨_, e⟩
      · rw [e, b3] at a; cases a
      · unfold Rdy; rw [R2, e]
        obtain ⟨x1, x2, x3, b', rs, x4, x5⟩ := hs
        exact ⟨rfl, x2, fun _ => ⟨b', rs, x4⟩⟩
    · by_cases hb : b' = b
      · subst hb; rw [bcb] at ht; cases ht
      · rw [bc2 b' hb] at ht
        have h1 := h.tok b' t ht
        rcases W.rt t with e | ⟨e, _⟩
        · rw [R2, e]; exact h1
        · exfalso
          have h2 := (sus_of t e).2
          rw [h1.2] at h2
          simp at h2
          exact hb h2
    · by_cases hb : b' = b
      · subst hb; rw [bcb] at ht; cases ht
      · rw [bc2 b' hb] at ht
        have := h.tlt b' t ht
        rw [← W.n] at this; exact this
  obtain ⟨m3, q3, n3, d3, sc3⟩ := loopPass_M M2 W.pd
  rw [hst]
  refine ⟨m3, q3, n3.trans W.n, d3.trans W.defs, fun i hi => ?_⟩
  rw [sc3 i]; unfold advL
  by_cases hm : i ∈ s2.readyq
  · obtain ⟨hs, hh⟩ := sus_of i hm
    obtain ⟨x1, x2, x3, b', rs, x4, x5⟩ := hs
    have e : s2.R i = { s.R i with state := .ready } := by
      rcases W.rt i with e | ⟨_, e⟩
      · have := (W.q i hm).1; rw [e, x1] at this; cases this
      · exact e
    rw [x4] at hh
    simp at hh
    subst hh
    simp [hm, e, x3, x4, serve1]
  · have e : s2.R i = s.R i := by
      rcases W.rt i with e | ⟨e, _⟩
      · exact e
      · exact absurd e hm
    simp only [hm, false_and, if_false, e]
    rcases h.set i hi (by simp) with x | x
    · obtain ⟨x1, x2, x3, b', rs, x4, x5⟩ := x
      have hb : b' ≠ b := fun hb => by subst hb; exact hm (W.dn i x5 hi x2 x1)
      rw [x4]; simp [serve1, hb]
    · rw [x.2.2]; simp [serve1]

/-! ## define / pass / create -/

theorem idle_step {s s1 : State} (h : M s []) (hs : Same s s1) (hq1 : s1.readyq = []) :
    M (loopPass s1) [] ∧ (loopPass s1).readyq = [] ∧ (loopPass s1).n = s.n ∧ (loopPass s1).defs = s1.defs ∧
    ∀ i, ((loopPass s1).R i).script = (s.R i).script := by
  have h1 : M s1 s1.readyq := by rw [hq1]; exact hs.m h
  obtain ⟨m3, q3, n3, d3, sc3⟩ := loopPass_M h1 (Or.inl hq1)
  refine ⟨m3, q3, n3.trans hs.n, d3, fun i => ?_⟩
  rw [sc3 i, hq1]; simp [advL, hs.R]

theorem getD_bw {defs : List (Bool × List Op)} (h : ∀ p, p ∈ defs → p.1 = false ∧ p.2.all isBw = true) (d : Nat) :
    (defs.getD d (false, [])).1 = false ∧ (defs.getD d (false, [])).2.all isBw = true := by
  rw [List.getD_eq_getElem?_getD]
  cases hd : defs[d]? with
  | none => exact ⟨rfl, rfl⟩
  | some p => exact h p (List.mem_of_getElem? hd)

theorem new_step {s : State} {d : Nat} (h : M s []) (hq : s.readyq = [])
    (hdf : ∀ p, p ∈ s.defs → p.1 = false ∧ p.2.all isBw = true) :
    M (step s (.new d true)) [] ∧ (step s (.new d true)).readyq = [] ∧
    (step s (.new d true)).n = s.n + 1 ∧ (step s (.new d true)).defs = s.defs ∧
    (∀ i, i < s.n → ((step s (.new d true)).R i).script = (s.R i).script) ∧
    ((step s (.new d true)).R s.n).script = (s.defs.getD d (false, [])).2 := by
  obtain ⟨g1, g2⟩ := getD_bw hdf d
  let s2 := create s d true
  have Ro : ∀ i, i ≠ s.n → s2.R i = s.R i := fun i hi => by
    simp [s2, create, makeReady, createCore, State.setR, State.R, hi]
  have f1 : (s2.R s.n).state = .ready := by simp [s2, create, makeReady, createCore, State.setR, State.R]
  have f2 : (s2.R s.n).freed = false := by simp [s2, create, makeReady, createCore, State.setR, State.R]
  have f3 : (s2.R s.n).inOp = false := by simp [s2, create, makeReady, createCore, State.setR, State.R]
  have f4 : (s2.R s.n).script = (s.defs.getD d (false, [])).2 := by
    simp [s2, create, makeReady, createCore, State.setR, State.R]
  have f5 : (s2.R s.n).canceled = false := by simp [s2, create, makeReady, createCore, State.setR, State.R]
  have f6 : (s2.R s.n).joiner = none := by simp [s2, create, makeReady, createCore, State.setR, State.R]
  have f7 : (s2.R s.n).raii = false := by simp [s2, create, makeReady, createCore, State.setR, State.R, h.rd]
  have g1' := g1
  simp only [List.getD_eq_getElem?_getD] at g1'
  have f8 : (s2.R s.n).xfail = false := by simp [s2, create, makeReady, createCore, State.setR, State.R, g1']
  have e1 : s2.readyq = [s.n] := by simp [s2, create, makeReady, createCore, State.setR, State.R, hq]
  have e2 : 1 ≤ s2.pend := by simp [s2, create, makeReady, createCore, State.setR, State.R]
  have e3 : s2.n = s.n + 1 := by simp [s2, create, makeReady, createCore, State.setR, State.R]
  have e4 : s2.bc = s.bc := by simp [s2, create, makeReady, createCore, State.setR, State.R]
  have e5 : s2.aborted = s.aborted := by simp [s2, create, makeReady, createCore, State.setR, State.R]
  have e6 : s2.defs = s.defs := by simp [s2, create, makeReady, createCore, State.setR, State.R]
  have e7 : s2.rdefs = s.rdefs := by simp [s2, create, makeReady, createCore, State.setR, State.R]
  have M2 : M s2 s2.readyq := by
    rw [e1]
    refine ⟨e5.trans h.nab, fun r => ?_, fun r hr hl => ?_, fun r hr => ?_, by simp, fun b t ht => ?_, e7.trans h.rd,
      fun b t ht => ?_⟩
    · by_cases hr : r = s.n
      · subst hr; exact ⟨f5, f6, f7, f8, by rw [f4]; exact g2⟩
      · rw [Ro r hr]; exact h.ok r
    · have hne : r ≠ s.n := by simpa using hl
      have hlt : r < s.n := by rw [e3] at hr; omega
      rcases h.set r hlt (by simp) with x | x
      · left; unfold Sus at *; rw [Ro r hne, e4]; exact x
      · right; unfold Ded at *; rw [Ro r hne]; exact x
    · have : r = s.n := by simpa using hr
      subst this
      exact ⟨by rw [e3]; omega, f1, f2, fun x => by rw [f3] at x; cases x⟩
    · rw [e4] at ht
      have hne : t ≠ s.n := by have := h.tlt b t ht; omega
      rw [Ro t hne]; exact h.tok b t ht
    · rw [e4] at ht; have := h.tlt b t ht; rw [e3]; omega
  have hst : step s (.new d true) = loopPass s2 := step_eq' h.nab (e5.trans h.nab)
  obtain ⟨m3, q3, n3, d3, sc3⟩ := loopPass_M M2 (Or.inr e2)
  rw [hst]
  refine ⟨m3, q3, n3.trans e3, d3.trans e6, fun i hi => ?_, ?_⟩
  · have hne : i ≠ s.n := by omega
    rw [sc3 i, e1]; simp [advL, hne, Ro i hne]
  · rw [sc3 s.n, e1]; simp [advL, f3, f4]

/-! ## the theorem -/

theorem servedBy_cons (l : List Op) (op : MainOp) (ops : List MainOp) :
    servedBy l (op :: ops) = servedBy (serve1 l op) ops := by
  simp [servedBy]

/-- the run drains its ready queue, and every routine has returned at the end IF AND ONLY IF the order predicate holds
(for the routines that exist already: of their remaining scripts) -/
theorem run_served : ∀ (ops : List MainOp) (s : State), M s [] → s.readyq = [] →
    (∀ p, p ∈ s.defs → p.1 = false ∧ p.2.all isBw = true) → ops.all BMainOK = true →
    (run s ops).readyq = [] ∧
    ((∀ r, r < (run s ops).n → ((run s ops).R r).state = .dead) ↔
      (orderedAux s.defs ops = true ∧ ∀ r, r < s.n → servedBy (s.R r).script ops = true))
  | [], s, h, hq, _, _ => by
      refine ⟨hq, ⟨fun hd => ⟨rfl, fun r hr => ?_⟩, fun ⟨_, hs⟩ r hr => ?_⟩⟩
      · rcases h.set r hr (by simp) with x | x
        · have := hd r hr
          simp only [run] at this
          rw [x.1] at this; cases this
        · rw [x.2.2]; rfl
      · rcases h.set r hr (by simp) with x | x
        · obtain ⟨_, _, _, b, rs, x4, _⟩ := x
          have := hs r hr
          rw [x4] at this
          simp [servedBy] at this
        · exact x.1
  | op :: ops, s, h, hq, hdf, hok => by
      simp only [List.all_cons, Bool.and_eq_true] at hok
      have hok1 := hok.1
      have hok2 := hok.2
      rw [run]
      cases op with
      | call o =>
          cases o <;> simp [BMainOK] at hok1
          rename_i b
          obtain ⟨m1, q1, n1, d1, sc1⟩ := post_step (b := b) h hq
          have ih := run_served ops _ m1 q1 (by rw [d1]; exact hdf) hok2
          refine ⟨ih.1, ih.2.trans ?_⟩
          rw [d1, n1]
          have e2 : ∀ r, r < s.n → servedBy ((step s (.call (.post b))).R r).script ops =
              servedBy (s.R r).script (.call (.post b) :: ops) := fun r hr => by rw [sc1 r hr, servedBy_cons]
          simp only [orderedAux]
          constructor
          · rintro ⟨a, c⟩; exact ⟨a, fun r hr => by rw [← e2 r hr]; exact c r hr⟩
          · rintro ⟨a, c⟩; exact ⟨a, fun r hr => by rw [e2 r hr]; exact c r hr⟩
      | define xf l =>
          cases xf <;> simp [BMainOK] at hok1
          let s1 : State := { s with defs := s.defs ++ [(false, l)] }
          have hst : step s (.define false l) = loopPass s1 := step_eq' h.nab h.nab
          obtain ⟨m1, q1, n1, d1, sc1⟩ := idle_step (s1 := s1) h ⟨rfl, rfl, rfl, rfl, rfl⟩ hq
          rw [hst]
          have hdf1 : ∀ p, p ∈ (loopPass s1).defs → p.1 = false ∧ p.2.all isBw = true := by
            rw [d1]
            intro p hp
            rcases List.mem_append.mp hp with hp | hp
            · exact hdf p hp
            · rw [List.mem_singleton.mp hp]; exact ⟨rfl, by simpa using hok1⟩
          have ih := run_served ops _ m1 q1 hdf1 hok2
          refine ⟨ih.1, ih.2.trans ?_⟩
          rw [d1, n1]
          have e2 : ∀ r, servedBy ((loopPass s1).R r).script ops =
              servedBy (s.R r).script (.define false l :: ops) := fun r => by
            rw [sc1 r, servedBy_cons]; simp [serve1]
          simp only [orderedAux]
          constructor
          · rintro ⟨a, c⟩; exact ⟨a, fun r hr => by rw [← e2 r]; exact c r hr⟩
          · rintro ⟨a, c⟩; exact ⟨a, fun r hr => by rw [e2 r]; exact c r hr⟩
      | new d now =>
          cases now <;> simp [BMainOK] at hok1
          obtain ⟨m1, q1, n1, d1, sc1, sc2⟩ := new_step (d := d) h hq hdf
          have ih := run_served ops _ m1 q1 (by rw [d1]; exact hdf) hok2
          refine ⟨ih.1, ih.2.trans ?_⟩
          rw [d1, n1]
          have e2 : ∀ r, r < s.n → servedBy ((step s (.new d true)).R r).script ops =
              servedBy (s.R r).script (.new d true :: ops) := fun r hr => by
            rw [sc1 r hr, servedBy_cons]; simp [serve1]
          simp only [orderedAux, Bool.and_eq_true]
          constructor
          · rintro ⟨a, c⟩
            refine ⟨⟨?_, a⟩, fun r hr => by rw [← e2 r hr]; exact c r (by omega)⟩
            have := c s.n (by omega)
            rwa [sc2] at this
          · rintro ⟨a, c⟩
            refine ⟨a.2, fun r hr => ?_⟩
            by_cases hlt : r < s.n
            · rw [e2 r hlt]; exact c r hlt
            · have : r = s.n := by omega
              subst this
              rw [sc2]; exact a.1
      | pass =>
          have hst : step s .pass = loopPass s := step_eq' h.nab h.nab
          obtain ⟨m1, q1, n1, d1, sc1⟩ := idle_step (s1 := s) h ⟨rfl, rfl, rfl, rfl, rfl⟩ hq
          rw [hst]
          have ih := run_served ops _ m1 q1 (by rw [d1]; exact hdf) hok2
          refine ⟨ih.1, ih.2.trans ?_⟩
          rw [d1, n1]
          have e2 : ∀ r, servedBy ((loopPass s).R r).script ops = servedBy (s.R r).script (.pass :: ops) := fun r => by
            rw [sc1 r, servedBy_cons]; simp [serve1]
          simp only [orderedAux]
          constructor
          · rintro ⟨a, c⟩; exact ⟨a, fun r hr => by rw [← e2 r]; exact c r hr⟩
          · rintro ⟨a, c⟩; exact ⟨a, fun r hr => by rw [e2 r]; exact c r hr⟩
      | defineR _ => simp [BMainOK] at hok1
      | stack _ => simp [BMainOK] at hok1
      | resume _ => simp [BMainOK] at hok1
      | cancel _ => simp [BMainOK] at hok1
      | cleanup => simp [BMainOK] at hok1

theorem init_M : M init [] := by
  refine ⟨rfl, fun _ => ⟨rfl, rfl, rfl, rfl, rfl⟩, fun r hr => ?_, fun r hr => ?_, List.nodup_nil, fun b t ht => ?_, rfl,
    fun b t ht => ?_⟩
  · exact absurd hr (Nat.not_lt_zero r)
  · cases hr
  · cases ht
  · cases ht

/-- the class: scripts of `waitBroadcast` calls, main context defines / creates / passes / posts -/
def BroadcastMainPosted (ops : List MainOp) : Bool := ops.all BMainOK

/-- the ORDER hypothesis is EXACT for the class: the run always drains its ready queue, and every routine has returned
at the end if and only if every routine's waits are matched, in order, by posts issued after its creation. -/
theorem C18_progress_broadcast_iff (ops : List MainOp) (h : BroadcastMainPosted ops = true) :
    (run init ops).readyq = [] ∧
    ((∀ r, r < (run init ops).n → ((run init ops).R r).state = .dead) ↔ PostedAfterWait ops = true) := by
  have := run_served ops init init_M rfl (fun p hp => by cases hp) h
  refine ⟨this.1, this.2.trans ?_⟩
  unfold PostedAfterWait
  unfold BroadcastMainPosted at h
  rw [h]
  simp only [Bool.true_and]
  exact ⟨fun x => x.1, fun x => ⟨x, fun r hr => absurd hr (Nat.not_lt_zero r)⟩⟩

/-- PROGRESS for `Broadcast` under the ORDER hypothesis: in a program whose routines only wait on broadcasts and whose
posts are issued by the main context, if every routine's waits are matched in order by posts issued after its
creation, then at the end of the run the ready queue is empty and every routine has returned. -/
theorem C18_progress_broadcast (ops : List MainOp) (h : PostedAfterWait ops = true) :
    (run init ops).readyq = [] ∧ ∀ r, r < (run init ops).n → ((run init ops).R r).state = .dead := by
  have h1 : BroadcastMainPosted ops = true := by
    unfold PostedAfterWait at h
    simp only [Bool.and_eq_true] at h
    exact h.1
  have := C18_progress_broadcast_iff ops h1
  exact ⟨this.1, this.2.mpr h⟩

/-- a routine that is not served hangs in `Broadcast::wait`, registered after the last post of that object
(the clause of `C18_no_lost_wakeup`): the sharp edge, for every program of the class -/
theorem C18_progress_broadcast_unordered_hangs (ops : List MainOp) (h : BroadcastMainPosted ops = true)
    (hn : PostedAfterWait ops = false) :
    ∃ r, r < (run init ops).n ∧ ((run init ops).R r).state ≠ .dead := by
  have := (C18_progress_broadcast_iff ops h).2
  refine Classical.byContradiction fun hc => ?_
  have hall : ∀ r, r < (run init ops).n → ((run init ops).R r).state = .dead := fun r hr =>
    Classical.byContradiction fun hd => hc ⟨r, hr, hd⟩
  rw [this.mp hall] at hn
  cases hn

/-! ## non-vacuity and the sharp edge -/

/-- three waiters on broadcast 0 (one waits three times), one on broadcast 1; the posts come after the creates -/
def progBcast : List MainOp :=
  [.define false [.bwait 0], .define false [.bwait 0, .bwait 0, .bwait 0], .define false [.bwait 1, .bwait 0],
   .new 0 true, .new 1 true, .new 0 true, .call (.post 0), .new 2 true, .pass, .call (.post 0), .call (.post 1),
   .call (.post 0)]

example : PostedAfterWait progBcast = true ∧ (run init progBcast).n = 4 ∧ (run init progBcast).log.length = 11 := by decide

/-- the post comes first: same numbers of posts and waits, the waiter hangs -/
def progBcastPostFirst : List MainOp :=
  [.define false [.bwait 0], .call (.post 0), .new 0 true, .pass]

theorem C18_progress_broadcast_post_first_counterexample :
    BroadcastMainPosted progBcastPostFirst = true ∧ PostedAfterWait progBcastPostFirst = false ∧
    (run init progBcastPostFirst).readyq = [] ∧ susp (run init progBcastPostFirst) 0 (.bwait 0) ∧
    ((run init progBcastPostFirst).R 0).wepoch = ((run init progBcastPostFirst).bc 0).epoch := by decide

/-- a re-wait needs a post of its own: two waits, one post after the create -/
example : PostedAfterWait [.define false [.bwait 0, .bwait 0], .new 0 true, .call (.post 0), .pass] = false ∧
    susp (run init [.define false [.bwait 0, .bwait 0], .new 0 true, .call (.post 0), .pass]) 0 (.bwait 0) := by decide

/-- the order of the posts matters: waits on 1 then 0, posts on 0 then 1 -/
example : PostedAfterWait [.define false [.bwait 1, .bwait 0], .new 0 true, .call (.post 0), .call (.post 1)] = false ∧
    PostedAfterWait [.define false [.bwait 1, .bwait 0], .new 0 true, .call (.post 1), .call (.post 0)] = true := by decide

end Tbox.C18
