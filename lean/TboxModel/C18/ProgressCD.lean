/-
C18 — PROGRESS for `Condition` (kAll / kAny) under an ORDER hypothesis (round 6).

Class: routine scripts consist of `Condition::add(key)` and `Condition::wait()` calls (any objects, shared between
routines or not); the main context defines scripts, creates routines (`run_now = true`), lets the loop run and calls
`Condition::post(key)` itself (and may `add` keys itself).  Unlike `Broadcast` the objects carry state that routines share (the key set, the one
waiter), a post BEFORE the wait counts (it erases the key: `C18_condition_post_consumes`), a `wait()` with nothing to wait
for or with another waiter present returns `false` at once, and what is lost is a post before the ADD.  So the order
hypothesis is the ORDER SEMANTICS of add / wait / post over the table of condition objects, with the scheduler abstracted
away (`absRunC`: no ready queue, no loop passes, no routine states, no tokens, no cabinet): a routine runs until it blocks
in a wait (`runC`), a post that empties the key set lets the waiter run on.  `WaitsSatisfied` = at the end of that
interpretation every script is used up.

  `C18_progress_condition_iff`   for every program of the class: the run drains its ready queue, its table of condition
                                 objects and the remaining scripts are the ones of the order semantics, and every routine
                                 is Dead at the end IF AND ONLY IF `WaitsSatisfied ops`
  `C18_progress_condition`       WaitsSatisfied ops -> every routine Dead
-/
import TboxModel.C18.ProgressBC
namespace Tbox.C18

/-! ## the class and the order semantics -/

def isCd : Op → Bool
  | .cadd _ _ | .cwait _ => true
  | _ => false

def updC (T : Nat → Cond) (k : Nat) (x : Cond) : Nat → Cond := fun i => if i = k then x else T i

/-- routine `me` runs until it blocks in a `wait()` or returns: `add` inserts the key, `wait()` returns `false` at once
when somebody else waits or there is nothing to wait for, else it takes the waiter slot and blocks -/
def runC (me : Nat) : List Op → (Nat → Cond) → (Nat → Cond) × List Op
  | [], T => (T, [])
  | .cadd k v :: l, T => runC me l (updC T k { T k with conds := condInsert (T k).conds v })
  | .cwait k :: l, T =>
      if (T k).tok.isSome ∨ (T k).conds.isEmpty then runC me l T
      else (updC T k { T k with tok := some me }, .cwait k :: l)
  | _ :: l, T => runC me l T

structure AbsC where
  T : Nat → Cond
  sc : Nat → List Op
  n : Nat
  defs : List (Bool × List Op)

/-- `Condition::post(v)` in the order semantics -/
def postC (A : AbsC) (k v : Nat) : AbsC :=
  if v ∈ (A.T k).conds then
    if (if (A.T k).all then (A.T k).conds.erase v else []).isEmpty then
      match (A.T k).tok with
      | some r =>
          { A with T := (runC r (A.sc r).tail (updC A.T k { A.T k with conds := [], tok := none })).1,
                   sc := fun i => if i = r then
                     (runC r (A.sc r).tail (updC A.T k { A.T k with conds := [], tok := none })).2 else A.sc i }
      | none => { A with T := updC A.T k { A.T k with conds := [], tok := none } }
    else { A with T := updC A.T k { A.T k with conds := if (A.T k).all then (A.T k).conds.erase v else [] } }
  else A

def absStepC (A : AbsC) : MainOp → AbsC
  | .define xf l => { A with defs := A.defs ++ [(xf, l)] }
  | .new d _ =>
      { A with T := (runC A.n (A.defs.getD d (false, [])).2 A.T).1,
               sc := fun i => if i = A.n then (runC A.n (A.defs.getD d (false, [])).2 A.T).2 else A.sc i,
               n := A.n + 1 }
  | .call (.cpost k v) => postC A k v
  | .call (.cadd k v) => { A with T := updC A.T k { A.T k with conds := condInsert (A.T k).conds v } }
  | _ => A

def absRunC : AbsC → List MainOp → AbsC
  | A, [] => A
  | A, op :: ops => absRunC (absStepC A op) ops

def absInitC : AbsC := { T := init.cd, sc := fun _ => [], n := 0, defs := [] }

def allDone (A : AbsC) : Bool := (List.range A.n).all fun r => (A.sc r).isEmpty

def CMainOK : MainOp → Bool
  | .define false l => l.all isCd
  | .new _ true => true
  | .pass => true
  | .call (.cpost _ _) => true
  | .call (.cadd _ _) => true
  | _ => false

/-- the class -/
def ConditionMainPosted (ops : List MainOp) : Bool := ops.all CMainOK

/-- the ORDER hypothesis, a decidable predicate on the program -/
def WaitsSatisfied (ops : List MainOp) : Bool := ops.all CMainOK && allDone (absRunC absInitC ops)

/-! ## facts about `runC` -/

theorem runC_shape (me : Nat) : ∀ (l : List Op) (T : Nat → Cond), l.all isCd = true →
    (runC me l T).2.all isCd = true ∧
    ((runC me l T).2 = [] ∨ ∃ k rest, (runC me l T).2 = .cwait k :: rest ∧ ((runC me l T).1 k).tok = some me) ∧
    (∀ k, ((runC me l T).1 k).tok = (T k).tok ∨
      ((T k).tok = none ∧ ((runC me l T).1 k).tok = some me ∧ ∃ rest, (runC me l T).2 = .cwait k :: rest))
  | [], T, _ => ⟨rfl, Or.inl rfl, fun _ => Or.inl rfl⟩
  | op :: l, T, h => by
      simp only [List.all_cons, Bool.and_eq_true] at h
      cases op <;> simp only [isCd, Bool.false_eq_true, false_and] at h
      case cadd k v =>
        have ih := runC_shape me l (updC T k { T k with conds := condInsert (T k).conds v }) h.2
        simp only [runC]
        refine ⟨ih.1, ih.2.1, fun k' => ?_⟩
        have := ih.2.2 k'
        by_cases hk : k' = k
        · subst hk; simpa [updC] using this
        · simpa [updC, hk] using this
      case cwait k =>
        simp only [runC]
        split
        · exact runC_shape me l T h.2
        · rename_i hc
          refine ⟨by simp [isCd, h.2], Or.inr ⟨k, l, rfl, by simp [updC]⟩, fun k' => ?_⟩
          by_cases hk : k' = k
          · subst hk
            right
            refine ⟨?_, by simp [updC], l, rfl⟩
            cases ht : (T k').tok with
            | none => rfl
            | some _ => exact absurd (Or.inl (by simp [ht])) hc
          · left; simp [updC, hk]

/-! ## the invariant -/

structure RtOKc (x : Routine) : Prop where
  canc : x.canceled = false
  joi : x.joiner = none
  raii : x.raii = false
  xf : x.xfail = false
  cdo : x.script.all isCd = true

/-- suspended in the wait at the head of the script, owner of the waiter slot of that object -/
def SusC (s : State) (r : Nat) : Prop :=
  (s.R r).state = .suspend ∧ (s.R r).freed = false ∧ (s.R r).inOp = true ∧
    ∃ k rest, (s.R r).script = .cwait k :: rest ∧ (s.cd k).tok = some r

def RdyC (s : State) (r : Nat) : Prop :=
  (s.R r).state = .ready ∧ (s.R r).freed = false ∧
    ((s.R r).inOp = true → ∃ k rest, (s.R r).script = .cwait k :: rest)

structure MC (s : State) (l : List Nat) : Prop where
  nab : s.aborted = false
  fx : s.fixed = true
  ok : ∀ r, RtOKc (s.R r)
  set : ∀ r, r < s.n → r ∉ l → SusC s r ∨ Ded s r
  rdy : ∀ r, r ∈ l → r < s.n ∧ RdyC s r
  nd : l.Nodup
  tok : ∀ k t, (s.cd k).tok = some t →
    t < s.n ∧ (s.R t).state = .suspend ∧ (s.R t).script.head? = some (.cwait k)
  rd : s.rdefs = []

structure SameCd (s s' : State) : Prop where
  rts : s'.rts = s.rts
  cd : s'.cd = s.cd
  n : s'.n = s.n
  ab : s'.aborted = s.aborted
  rd : s'.rdefs = s.rdefs
  fx : s'.fixed = s.fixed
  defs : s'.defs = s.defs

theorem SameCd.R {s s' : State} (h : SameCd s s') (r : Nat) : s'.R r = s.R r := by
  simp only [State.R, h.rts]

/-- the invariant reads the routines, the waiter slots, `n` and three flags -/
theorem MC.congr {s s' : State} {l : List Nat} (hM : MC s l) (hr : s'.rts = s.rts)
    (ht : ∀ k, (s'.cd k).tok = (s.cd k).tok) (hn : s'.n = s.n) (ha : s'.aborted = s.aborted)
    (hrd : s'.rdefs = s.rdefs) (hfx : s'.fixed = s.fixed) : MC s' l := by
  have hR : ∀ r, s'.R r = s.R r := fun r => by simp only [State.R, hr]
  refine ⟨ha.trans hM.nab, hfx.trans hM.fx, fun r => by rw [hR]; exact hM.ok r, fun r hr' hl => ?_, fun r hr' => ?_,
    hM.nd, fun k t ht' => ?_, hrd.trans hM.rd⟩
  · rw [hn] at hr'
    rcases hM.set r hr' hl with x | x
    · left
      obtain ⟨x1, x2, x3, k, rs, x4, x5⟩ := x
      unfold SusC; rw [hR]
      exact ⟨x1, x2, x3, k, rs, x4, by rw [ht]; exact x5⟩
    · right; unfold Ded at *; rw [hR]; exact x
  · have := hM.rdy r hr'
    unfold RdyC at *; rw [hR, hn]; exact this
  · rw [ht] at ht'; rw [hR, hn]; exact hM.tok k t ht'

theorem SameCd.m {s s' : State} {l : List Nat} (h : SameCd s s') (hM : MC s l) : MC s' l :=
  hM.congr h.rts (fun k => by rw [h.cd]) h.n h.ab h.rd h.fx

theorem SameCd.trans {a b c : State} (h1 : SameCd a b) (h2 : SameCd b c) : SameCd a c :=
  ⟨h2.rts.trans h1.rts, h2.cd.trans h1.cd, h2.n.trans h1.n, h2.ab.trans h1.ab, h2.rd.trans h1.rd, h2.fx.trans h1.fx,
    h2.defs.trans h1.defs⟩

/-! ## a routine runs -/

/-- what `runOps` leaves alone -/
structure Frm (s s' : State) (r : Nat) : Prop where
  n : s'.n = s.n
  defs : s'.defs = s.defs
  ab : s'.aborted = s.aborted
  rq : s'.readyq = s.readyq
  pd : s'.pend = s.pend
  rd : s'.rdefs = s.rdefs
  fx : s'.fixed = s.fixed
  oth : ∀ i, i ≠ r → s'.R i = s.R i
  canc : (s'.R r).canceled = (s.R r).canceled
  joi : (s'.R r).joiner = (s.R r).joiner
  raii : (s'.R r).raii = (s.R r).raii
  xf : (s'.R r).xfail = (s.R r).xfail
  frd : (s'.R r).freed = (s.R r).freed

theorem Frm.trans {a b c : State} {r : Nat} (h1 : Frm a b r) (h2 : Frm b c r) : Frm a c r :=
  ⟨h2.n.trans h1.n, h2.defs.trans h1.defs, h2.ab.trans h1.ab, h2.rq.trans h1.rq, h2.pd.trans h1.pd, h2.rd.trans h1.rd,
    h2.fx.trans h1.fx, fun i hi => (h2.oth i hi).trans (h1.oth i hi), h2.canc.trans h1.canc, h2.joi.trans h1.joi,
    h2.raii.trans h1.raii, h2.xf.trans h1.xf, h2.frd.trans h1.frd⟩

/-- an operation of `r` returned `res`, the table of condition objects is now `T` -/
def doneC (s : State) (r : Nat) (op : Op) (l : List Op) (res : Res) (T : Nat → Cond) : State :=
  { s with
    rts := fun i => if i = r then { s.R r with script := l, inOp := false, done := (s.R r).done + 1 } else s.rts i,
    cd := T,
    log := s.log ++ [{ r := r, op := op, res := res, canc := false }] }

theorem doneC_frm (s : State) (r : Nat) (op : Op) (l : List Op) (res : Res) (T : Nat → Cond) :
    Frm s (doneC s r op l res T) r := by
  refine ⟨rfl, rfl, rfl, rfl, rfl, rfl, rfl, fun i hi => ?_, ?_, ?_, ?_, ?_, ?_⟩ <;> simp [doneC, State.R, *]

theorem runOps_cadd {s : State} {r k v : Nat} {l : List Op} (h2 : (s.R r).canceled = false)
    (h3 : (s.R r).xfail = false) :
    runOps r (.cadd k v :: l) s =
      runOps r l (doneC s r (.cadd k v) l .ok (updC s.cd k { s.cd k with conds := condInsert (s.cd k).conds v })) := by
  have e : execOp s r (.cadd k v) l =
      (doneC s r (.cadd k v) l .ok (updC s.cd k { s.cd k with conds := condInsert (s.cd k).conds v }), .next) := by
    simp only [State.R] at h2 h3
    simp [execOp, finish, doneC, State.setR, State.R, State.setCd, h2, h3]
    rfl
  rw [runOps, e]

theorem runOps_cwait_fail {s : State} {r k : Nat} {l : List Op} (h1 : (s.R r).inOp = false)
    (h2 : (s.R r).canceled = false) (h3 : (s.R r).xfail = false)
    (hc : (s.cd k).tok.isSome ∨ (s.cd k).conds.isEmpty) :
    runOps r (.cwait k :: l) s = runOps r l (doneC s r (.cwait k) l .fail s.cd) := by
  have e : execOp s r (.cwait k) l = (doneC s r (.cwait k) l .fail s.cd, .next) := by
    simp only [State.R] at h1 h2 h3
    have hc' := hc
    simp only [List.isEmpty_iff] at hc'
    simp [execOp, finish, doneC, State.setR, State.R, h1, h2, h3, hc']
  rw [runOps, e]

theorem runOps_cwait_cont {s : State} {r k : Nat} {l : List Op} (h1 : (s.R r).inOp = true)
    (h2 : (s.R r).canceled = false) (h3 : (s.R r).xfail = false) (hf : s.fixed = true)
    (ht : (s.cd k).tok ≠ some r) :
    runOps r (.cwait k :: l) s = runOps r l (doneC s r (.cwait k) l .ok s.cd) := by
  have e : execOp s r (.cwait k) l = (doneC s r (.cwait k) l .ok s.cd, .next) := by
    simp only [State.R] at h1 h2 h3
    simp [execOp, finish, doneC, State.setR, State.R, h1, h2, h3, hf, ht]
  rw [runOps, e]

/-- `wait()` takes the waiter slot and switches back -/
def blockC (s : State) (r k : Nat) (l : List Op) : State :=
  { s with
    rts := fun i => if i = r then { s.R r with state := .suspend, script := .cwait k :: l, inOp := true } else s.rts i,
    cd := updC s.cd k { s.cd k with tok := some r } }

theorem runOps_cwait_block {s : State} {r k : Nat} {l : List Op} (h1 : (s.R r).inOp = false)
    (h2 : (s.R r).canceled = false) (hc : ¬((s.cd k).tok.isSome ∨ (s.cd k).conds.isEmpty)) :
    runOps r (.cwait k :: l) s = blockC s r k l := by
  have e : execOp s r (.cwait k) l = (blockC s r k l, .block) := by
    simp only [State.R] at h1 h2
    have hc' := hc
    simp only [List.isEmpty_iff] at hc'
    simp [execOp, blockIn, blockC, State.setR, State.R, State.setCd, h1, h2, hc']
    refine ⟨?_, rfl⟩
    funext i
    by_cases hi : i = r <;> simp [hi]
  rw [runOps, e]

theorem blockC_frm (s : State) (r k : Nat) (l : List Op) : Frm s (blockC s r k l) r := by
  refine ⟨rfl, rfl, rfl, rfl, rfl, rfl, rfl, fun i hi => ?_, ?_, ?_, ?_, ?_, ?_⟩ <;> simp [blockC, State.R, *]

theorem die_frm (s : State) (r : Nat) : Frm s (die s r) r := by
  refine ⟨rfl, rfl, rfl, rfl, rfl, rfl, rfl, fun i hi => ?_, ?_, ?_, ?_, ?_, ?_⟩ <;> simp [die, State.setR, State.R, *]

/-- `runOps` of a routine of the class IS `runC` on the table of condition objects -/
theorem runOps_runC (r : Nat) : ∀ (l : List Op) (s : State), l.all isCd = true → (s.R r).inOp = false →
    (s.R r).canceled = false → (s.R r).xfail = false → (s.R r).raii = false →
    Frm s (runOps r l s) r ∧ (runOps r l s).cd = (runC r l s.cd).1 ∧
    ((runOps r l s).R r).script = (runC r l s.cd).2 ∧
    ((runC r l s.cd).2 = [] → ((runOps r l s).R r).state = .dead) ∧
    ((runC r l s.cd).2 ≠ [] → ((runOps r l s).R r).state = .suspend ∧ ((runOps r l s).R r).inOp = true)
  | [], s, _, _, _, _, h5 => by
      rw [runOps_nil h5]
      exact ⟨die_frm s r, rfl, by simp [die, State.setR, State.R, runC], fun _ => by simp [die, State.setR, State.R],
        fun h => absurd rfl h⟩
  | op :: l, s, h, h1, h2, h3, h5 => by
      simp only [List.all_cons, Bool.and_eq_true] at h
      cases op <;> simp only [isCd, Bool.false_eq_true, false_and] at h
      case cadd k v =>
        rw [runOps_cadd h2 h3]
        have f := doneC_frm s r (.cadd k v) l .ok (updC s.cd k { s.cd k with conds := condInsert (s.cd k).conds v })
        have ih := runOps_runC r l _ h.2 (by simp [doneC, State.R]) (f.canc.trans h2) (f.xf.trans h3) (f.raii.trans h5)
        exact ⟨f.trans ih.1, ih.2.1, ih.2.2.1, ih.2.2.2.1, ih.2.2.2.2⟩
      case cwait k =>
        by_cases hc : (s.cd k).tok.isSome ∨ (s.cd k).conds.isEmpty
        · rw [runOps_cwait_fail h1 h2 h3 hc]
          have f := doneC_frm s r (.cwait k) l .fail s.cd
          have ih := runOps_runC r l _ h.2 (by simp [doneC, State.R]) (f.canc.trans h2) (f.xf.trans h3) (f.raii.trans h5)
          have e : runC r (.cwait k :: l) s.cd = runC r l s.cd := by
            simp only [runC]; rw [if_pos hc]
          rw [e]
          exact ⟨f.trans ih.1, ih.2.1, ih.2.2.1, ih.2.2.2.1, ih.2.2.2.2⟩
        · rw [runOps_cwait_block h1 h2 hc]
          have e : runC r (.cwait k :: l) s.cd = (updC s.cd k { s.cd k with tok := some r }, .cwait k :: l) := by
            simp only [runC]; rw [if_neg hc]
          rw [e]
          exact ⟨blockC_frm s r k l, rfl, (by simp [blockC, State.R]), fun h => (by cases h),
            fun _ => (by simp [blockC, State.R])⟩

theorem Frm.refl (s : State) (r : Nat) : Frm s s r :=
  ⟨rfl, rfl, rfl, rfl, rfl, rfl, rfl, fun _ _ => rfl, rfl, rfl, rfl, rfl, rfl⟩

theorem MC.settle {s s' : State} {r : Nat} {rest : List Nat} (hM : MC s (r :: rest)) (hn : s'.n = s.n)
    (ha : s'.aborted = s.aborted) (hfx : s'.fixed = s.fixed) (hrd : s'.rdefs = s.rdefs)
    (ho : ∀ i, i ≠ r → s'.R i = s.R i) (hok : RtOKc (s'.R r)) (hr : SusC s' r ∨ Ded s' r)
    (hcd : ∀ k, (s'.cd k).tok = (s.cd k).tok ∨ ((s.cd k).tok = none ∧ (s'.cd k).tok = some r ∧
      (s'.R r).state = .suspend ∧ (s'.R r).script.head? = some (.cwait k))) : MC s' rest := by
  have hnd := List.nodup_cons.mp hM.nd
  have hrr := hM.rdy r List.mem_cons_self
  refine ⟨ha.trans hM.nab, hfx.trans hM.fx, fun i => ?_, fun i hi hl => ?_, fun i hi => ?_, hnd.2, fun k t ht => ?_,
    hrd.trans hM.rd⟩
  · by_cases e : i = r
    · subst e; exact hok
    · rw [ho i e]; exact hM.ok i
  · by_cases e : i = r
    · subst e; exact hr
    · rw [hn] at hi
      have hl' : i ∉ r :: rest := by simp [e, hl]
      rcases hM.set i hi hl' with x | x
      · left
        obtain ⟨x1, x2, x3, k, rs, x4, x5⟩ := x
        unfold SusC; rw [ho i e]
        refine ⟨x1, x2, x3, k, rs, x4, ?_⟩
        rcases hcd k with c | ⟨c, _⟩
        · rw [c]; exact x5
        · rw [c] at x5; cases x5
      · right; unfold Ded at *; rw [ho i e]; exact x
  · have e : i ≠ r := fun e => hnd.1 (e ▸ hi)
    have := hM.rdy i (List.mem_cons_of_mem _ hi)
    unfold RdyC at *; rw [ho i e, hn]; exact this
  · rcases hcd k with c | ⟨_, c2, c3, c4⟩
    · rw [c] at ht
      have h1 := hM.tok k t ht
      have e : t ≠ r := by
        intro e; subst e
        rw [hrr.2.1] at h1; cases h1.2.1
      rw [ho t e, hn]; exact h1
    · rw [c2] at ht
      have : r = t := by simpa using ht
      subst this
      exact ⟨by rw [hn]; exact hrr.1, c3, c4⟩

/-- the part of the script `r` still has to run when it is switched to -/
def startC (s : State) (r : Nat) : List Op :=
  if (s.R r).inOp = true then (s.R r).script.tail else (s.R r).script

theorem all_tail {l : List Op} (h : l.all isCd = true) : l.tail.all isCd = true := by
  cases l with
  | nil => rfl
  | cons a l => simp only [List.all_cons, Bool.and_eq_true] at h; exact h.2

theorem switchTo_MC {s : State} {r : Nat} {rest : List Nat} (hM : MC s (r :: rest)) :
    MC (switchTo s r) rest ∧ (switchTo s r).cd = (runC r (startC s r) s.cd).1 ∧
    ((switchTo s r).R r).script = (runC r (startC s r) s.cd).2 ∧
    (∀ i, i ≠ r → (switchTo s r).R i = s.R i) ∧ (switchTo s r).n = s.n ∧ (switchTo s r).defs = s.defs ∧
    (switchTo s r).readyq = s.readyq := by
  obtain ⟨hlt, hst, hfr, hin⟩ := hM.rdy r List.mem_cons_self
  have hk := hM.ok r
  let s1 : State := s.setR r { s.R r with state := .running, started := true }
  have f1 : Frm s s1 r := by
    refine ⟨rfl, rfl, rfl, rfl, rfl, rfl, rfl, fun i hi => ?_, ?_, ?_, ?_, ?_, ?_⟩ <;> simp [s1, State.setR, State.R, *]
  have hs1in : (s1.R r).inOp = (s.R r).inOp := by simp [s1, State.setR, State.R]
  have hs1sc : (s1.R r).script = (s.R r).script := by simp [s1, State.setR, State.R]
  have hsw : switchTo s r = (let s2 := runOps r (s.R r).script s1
      if (s2.R r).state = .dead then (let s3 := freeRoutine s2 r; resumeOpt s3 (s3.R r).joiner) else s2) := by
    simp only [switchTo, s1, State.setR, State.R, if_true]
  -- the state in which the part `startC s r` runs
  have hx : ∃ s1x : State, Frm s s1x r ∧ s1x.cd = s.cd ∧ (s1x.R r).inOp = false ∧
      runOps r (s.R r).script s1 = runOps r (startC s r) s1x := by
    cases hino : (s.R r).inOp with
    | false =>
        exact ⟨s1, f1, rfl, hs1in.trans hino, by simp [startC, hino]⟩
    | true =>
        obtain ⟨k, l, hscr⟩ := hin hino
        have htk : (s1.cd k).tok ≠ some r := by
          intro e
          have := (hM.tok k r e).2.1
          rw [hst] at this; cases this
        refine ⟨doneC s1 r (.cwait k) l .ok s1.cd, f1.trans (doneC_frm _ _ _ _ _ _), rfl, by simp [doneC, State.R], ?_⟩
        rw [hscr, runOps_cwait_cont (hs1in.trans hino) (f1.canc.trans hk.canc) (f1.xf.trans hk.xf) hM.fx htk]
        simp [startC, hino, hscr]
  obtain ⟨s1x, fx, cdx, inx, erun⟩ := hx
  have hall : (startC s r).all isCd = true := by
    unfold startC; split
    · exact all_tail hk.cdo
    · exact hk.cdo
  obtain ⟨f2, c2, sc2, dd2, bb2⟩ := runOps_runC r (startC s r) s1x hall inx (fx.canc.trans hk.canc) (fx.xf.trans hk.xf)
    (fx.raii.trans hk.raii)
  rw [cdx] at c2 sc2 dd2 bb2
  have f := fx.trans f2
  obtain ⟨sh1, sh2, sh3⟩ := runC_shape r (startC s r) s.cd hall
  rw [hsw, erun]
  simp only []
  rcases sh2 with hnil | ⟨k0, rs0, hcons, htok0⟩
  · -- the routine returned
    have hd := dd2 hnil
    rw [if_pos hd]
    have hj : ((freeRoutine (runOps r (startC s r) s1x) r).R r).joiner = none := by
      have := f.joi.trans hk.joi
      simp only [State.R] at this
      simp [freeRoutine, State.setR, State.R, this]
    rw [hj]
    simp only [resumeOpt]
    have hoth : ∀ i, i ≠ r → (freeRoutine (runOps r (startC s r) s1x) r).R i = s.R i := fun i hi => by
      rw [← f.oth i hi]; simp [freeRoutine, State.setR, State.R, hi]
    have hscr : ((freeRoutine (runOps r (startC s r) s1x) r).R r).script = [] := by
      rw [← hnil, ← sc2]; simp [freeRoutine, State.setR, State.R]
    have hcd' : (freeRoutine (runOps r (startC s r) s1x) r).cd = (runC r (startC s r) s.cd).1 := c2
    refine ⟨?_, hcd', by rw [hscr, hnil], hoth, f.n, f.defs, f.rq⟩
    refine hM.settle f.n f.ab f.fx f.rd hoth ?_ (Or.inr ?_) (fun k => ?_)
    · have a1 := f.canc.trans hk.canc
      have a2 := f.joi.trans hk.joi
      have a3 := f.raii.trans hk.raii
      have a4 := f.xf.trans hk.xf
      simp only [State.R] at a1 a2 a3 a4 hscr
      constructor <;> simp [freeRoutine, State.setR, State.R, a1, a2, a3, a4]
      simp only [State.R] at sc2
      rw [sc2, hnil]; simp
    · simp only [State.R] at sc2
      simp [Ded, freeRoutine, State.setR, State.R, sc2, hnil]
    · rw [hcd']
      rcases sh3 k with c | ⟨_, _, rs, c⟩
      · exact Or.inl c
      · rw [hnil] at c; cases c
  · -- the routine blocks in a wait
    have hne : (runC r (startC s r) s.cd).2 ≠ [] := by rw [hcons]; exact List.cons_ne_nil _ _
    obtain ⟨b1, b2⟩ := bb2 hne
    have hnd : ¬ ((runOps r (startC s r) s1x).R r).state = .dead := by rw [b1]; exact fun e => by cases e
    rw [if_neg hnd]
    refine ⟨?_, c2, sc2, f.oth, f.n, f.defs, f.rq⟩
    refine hM.settle f.n f.ab f.fx f.rd f.oth ⟨f.canc.trans hk.canc, f.joi.trans hk.joi, f.raii.trans hk.raii,
      f.xf.trans hk.xf, by rw [sc2]; exact sh1⟩ (Or.inl ?_) (fun k => ?_)
    · exact ⟨b1, f.frd.trans hfr, b2, k0, rs0, sc2.trans hcons, by rw [c2]; exact htok0⟩
    · rw [c2]
      rcases sh3 k with c | ⟨c1, c2', rs, c3⟩
      · exact Or.inl c
      · exact Or.inr ⟨c1, c2', b1, by rw [sc2, c3]; rfl⟩

/-! ## a pass of the loop -/

theorem batch_idleC : ∀ (k : Nat) (s : State), s.readyq = [] → SameCd s (batch k s) ∧ (batch k s).readyq = []
  | 0, s, hq => ⟨⟨rfl, rfl, rfl, rfl, rfl, rfl, rfl⟩, hq⟩
  | k + 1, s, hq => by
      have e : schedule s = { s with readyq := [], tmp := [] } := by simp [schedule, hq, drain]
      have h1 : SameCd s (schedule s) := by rw [e]; exact ⟨rfl, rfl, rfl, rfl, rfl, rfl, rfl⟩
      have q1 : (schedule s).readyq = [] := by rw [e]
      have ih := batch_idleC k (schedule s) q1
      rw [batch]
      exact ⟨h1.trans ih.1, ih.2⟩

theorem loopPass_idleC {s : State} (hq : s.readyq = []) : SameCd s (loopPass s) ∧ (loopPass s).readyq = [] := by
  have := batch_idleC s.pend { s with pend := 0 } hq
  have h0 : SameCd s { s with pend := 0 } := ⟨rfl, rfl, rfl, rfl, rfl, rfl, rfl⟩
  exact ⟨h0.trans this.1, this.2⟩

theorem loopPass_one {s : State} {r : Nat} (h : MC s [r]) (hq : s.readyq = [r]) (hp : 1 ≤ s.pend) :
    MC (loopPass s) [] ∧ (loopPass s).readyq = [] ∧ (loopPass s).cd = (runC r (startC s r) s.cd).1 ∧
    ((loopPass s).R r).script = (runC r (startC s r) s.cd).2 ∧ (∀ i, i ≠ r → (loopPass s).R i = s.R i) ∧
    (loopPass s).n = s.n ∧ (loopPass s).defs = s.defs := by
  obtain ⟨k, hk⟩ : ∃ k, s.pend = k + 1 := ⟨s.pend - 1, by omega⟩
  let s0 : State := { s with pend := 0, readyq := [], tmp := [] }
  have h0 : MC s0 [r] := h.congr rfl (fun _ => rfl) rfl rfl rfl rfl
  obtain ⟨hlt, _, hfr, _⟩ := h0.rdy r List.mem_cons_self
  have hal : alive s0 r = true := by
    simp only [alive, Bool.and_eq_true, decide_eq_true_eq, Bool.not_eq_true']
    exact ⟨hlt, hfr⟩
  have e : loopPass s = batch k (switchTo s0 r) := by
    unfold loopPass
    rw [hk, batch]
    congr 1
    simp only [schedule, hq, drain]
    rw [if_pos hal]
  obtain ⟨m1, c1, sc1, o1, n1, d1, q1⟩ := switchTo_MC h0
  have hb := batch_idleC k (switchTo s0 r) q1
  rw [e]
  refine ⟨hb.1.m m1, hb.2, by rw [hb.1.cd]; exact c1, by rw [hb.1.R]; exact sc1,
    fun i hi => by rw [hb.1.R]; exact o1 i hi, hb.1.n.trans n1, hb.1.defs.trans d1⟩

/-! ## the run against the order semantics -/

structure RelC (s : State) (A : AbsC) : Prop where
  cd : s.cd = A.T
  sc : ∀ r, r < s.n → (s.R r).script = A.sc r
  n : s.n = A.n
  defs : s.defs = A.defs

theorem RelC.same {s s' : State} {A : AbsC} (h : RelC s A) (hs : SameCd s s') : RelC s' A :=
  ⟨hs.cd.trans h.cd, fun r hr => by rw [hs.R]; exact h.sc r (hs.n ▸ hr), hs.n.trans h.n, hs.defs.trans h.defs⟩

/-- nothing became ready: the pass does nothing -/
theorem idle_stepC {s s2 : State} {A : AbsC} {op : MainOp} (h : s.aborted = false) (hap : applyMain s op = s2)
    (h2 : MC s2 []) (hq2 : s2.readyq = []) (hR : RelC s2 A) :
    MC (step s op) [] ∧ (step s op).readyq = [] ∧ RelC (step s op) A := by
  have hst : step s op = loopPass s2 := by rw [← hap]; exact step_eq' h (by rw [hap]; exact h2.nab)
  have := loopPass_idleC hq2
  rw [hst]
  exact ⟨this.1.m h2, this.2, hR.same this.1⟩

theorem getD_cd {defs : List (Bool × List Op)} (h : ∀ p, p ∈ defs → p.1 = false ∧ p.2.all isCd = true) (d : Nat) :
    (defs.getD d (false, [])).1 = false ∧ (defs.getD d (false, [])).2.all isCd = true := by
  rw [List.getD_eq_getElem?_getD]
  cases hd : defs[d]? with
  | none => exact ⟨rfl, rfl⟩
  | some p => exact h p (List.mem_of_getElem? hd)

theorem new_stepC {s : State} {A : AbsC} {d : Nat} (h : MC s []) (hq : s.readyq = []) (hR : RelC s A)
    (hdf : ∀ p, p ∈ s.defs → p.1 = false ∧ p.2.all isCd = true) :
    MC (step s (.new d true)) [] ∧ (step s (.new d true)).readyq = [] ∧
    RelC (step s (.new d true)) (absStepC A (.new d true)) := by
  obtain ⟨g1, g2⟩ := getD_cd hdf d
  let s2 := create s d true
  have Ro : ∀ i, i ≠ s.n → s2.R i = s.R i := fun i hi => by
    simp [s2, create, makeReady, createCore, State.setR, State.R, hi]
  have f1 : (s2.R s.n).state = .ready := by simp [s2, create, makeReady, createCore, State.setR, State.R]
  have f2 : (s2.R s.n).freed = false := by simp [s2, create, makeReady, createCore, State.setR, State.R]
  have f3 : (s2.R s.n).inOp = false := by simp [s2, create, makeReady, createCore, State.setR, State.R]
  have f4 : (s2.R s.n).script = (s.defs.getD d (false, [])).2 := by
    simp [s2, create, makeReady, createCore, State.setR, State.R]
  have f5 : (s2.R s.n).canceled = false := by simp [s2, create, makeReady, createCore, State.setR, State.R]
  have f6 : (s2.R s.n).joiner = none := by simp [s2, create, makeReady, createCore, State.setR, State.R]
  have f7 : (s2.R s.n).raii = false := by simp [s2, create, makeReady, createCore, State.setR, State.R, h.rd]
  have g1' := g1
  simp only [List.getD_eq_getElem?_getD] at g1'
  have f8 : (s2.R s.n).xfail = false := by simp [s2, create, makeReady, createCore, State.setR, State.R, g1']
  have e1 : s2.readyq = [s.n] := by simp [s2, create, makeReady, createCore, State.setR, State.R, hq]
  have e2 : 1 ≤ s2.pend := by simp [s2, create, makeReady, createCore, State.setR, State.R]
  have e3 : s2.n = s.n + 1 := by simp [s2, create, makeReady, createCore, State.setR, State.R]
  have e4 : s2.cd = s.cd := by simp [s2, create, makeReady, createCore, State.setR, State.R]
  have e5 : s2.aborted = s.aborted := by simp [s2, create, makeReady, createCore, State.setR, State.R]
  have e6 : s2.defs = s.defs := by simp [s2, create, makeReady, createCore, State.setR, State.R]
  have e7 : s2.rdefs = s.rdefs := by simp [s2, create, makeReady, createCore, State.setR, State.R]
  have e8 : s2.fixed = s.fixed := by simp [s2, create, makeReady, createCore, State.setR, State.R]
  have M2 : MC s2 [s.n] := by
    refine ⟨e5.trans h.nab, e8.trans h.fx, fun r => ?_, fun r hr hl => ?_, fun r hr => ?_, by simp, fun k t ht => ?_,
      e7.trans h.rd⟩
    · by_cases hr : r = s.n
      · subst hr; exact ⟨f5, f6, f7, f8, by rw [f4]; exact g2⟩
      · rw [Ro r hr]; exact h.ok r
    · have hne : r ≠ s.n := by simpa using hl
      have hlt : r < s.n := by rw [e3] at hr; omega
      rcases h.set r hlt (by simp) with x | x
      · left; unfold SusC at *; rw [Ro r hne, e4]; exact x
      · right; unfold Ded at *; rw [Ro r hne]; exact x
    · have : r = s.n := by simpa using hr
      subst this
      exact ⟨by rw [e3]; omega, f1, f2, fun x => by rw [f3] at x; cases x⟩
    · rw [e4] at ht
      have h1 := h.tok k t ht
      have hne : t ≠ s.n := by omega
      rw [Ro t hne, e3]; exact ⟨by omega, h1.2⟩
  have hst : step s (.new d true) = loopPass s2 := step_eq' h.nab (e5.trans h.nab)
  obtain ⟨m3, q3, c3, sc3, o3, n3, d3⟩ := loopPass_one M2 e1 e2
  have hstart : startC s2 s.n = (A.defs.getD d (false, [])).2 := by
    unfold startC; rw [f3, f4, hR.defs]; simp
  rw [hst]
  refine ⟨m3, q3, ?_, fun r hr => ?_, ?_, ?_⟩
  · rw [c3, hstart, e4, hR.cd, hR.n]; rfl
  · rw [n3, e3] at hr
    by_cases hlt : r < s.n
    · have hne : r ≠ s.n := by omega
      rw [o3 r hne, Ro r hne, hR.sc r hlt]
      simp [absStepC, ← hR.n, hne]
    · have : r = s.n := by omega
      subst this
      rw [sc3, hstart, e4, hR.cd, hR.n]
      simp [absStepC]
  · rw [n3, e3, hR.n]; rfl
  · rw [d3, e6, hR.defs]; rfl

theorem post_stepC {s : State} {A : AbsC} {k v : Nat} (h : MC s []) (hq : s.readyq = []) (hR : RelC s A) :
    MC (step s (.call (.cpost k v))) [] ∧ (step s (.call (.cpost k v))).readyq = [] ∧
    RelC (step s (.call (.cpost k v))) (absStepC A (.call (.cpost k v))) := by
  have hA : absStepC A (.call (.cpost k v)) = postC A k v := rfl
  rw [hA]
  by_cases hv : v ∈ (s.cd k).conds
  · by_cases he : (if (s.cd k).all then (s.cd k).conds.erase v else []).isEmpty = true
    · cases htok : (s.cd k).tok with
      | none =>
          let s2 : State := logMain (s.setCd k { s.cd k with conds := [], tok := none }) (.cpost k v) .ok
          have hap : applyMain s (.call (.cpost k v)) = s2 := by
            simp only [applyMain, mainCall]
            rw [if_pos hv, if_pos he, htok]; rfl
          have hpc : postC A k v = { A with T := updC A.T k { A.T k with conds := [], tok := none } } := by
            unfold postC
            rw [← hR.cd, if_pos hv, if_pos he, htok]
          rw [hpc]
          refine idle_stepC h.nab hap (h.congr rfl (fun k' => ?_) rfl rfl rfl rfl) hq ⟨?_, hR.sc, hR.n, hR.defs⟩
          · by_cases hk : k' = k
            · subst hk; simp [s2, logMain, State.setCd, htok]
            · simp [s2, logMain, State.setCd, hk]
          · rw [← hR.cd]; rfl
      | some r =>
          obtain ⟨hlt, hsus, hhead⟩ := h.tok k r htok
          have hS : SusC s r := by
            rcases h.set r hlt (by simp) with x | x
            · exact x
            · rw [x.1] at hsus; cases hsus
          obtain ⟨_, hfr, hino, k1, rs, hscr, _⟩ := hS
          have hal : alive s r = true := by
            simp only [alive, Bool.and_eq_true, decide_eq_true_eq, Bool.not_eq_true']
            exact ⟨hlt, hfr⟩
          let s1 : State := { s.setR r { s.R r with state := .ready } with readyq := s.readyq ++ [r], pend := s.pend + 1 }
          have hres : resumeOpt s (some r) = s1 := by
            simp only [resumeOpt, resume, hal, if_true, makeReady]
            rw [if_neg (by rw [hsus]; simp)]
          let s2 : State := logMain (s1.setCd k { s.cd k with conds := [], tok := none }) (.cpost k v) .ok
          have hap : applyMain s (.call (.cpost k v)) = s2 := by
            simp only [applyMain, mainCall]
            rw [if_pos hv, if_pos he, htok, hres]
          have Ro : ∀ i, i ≠ r → s2.R i = s.R i := fun i hi => by
            simp [s2, s1, logMain, State.setCd, State.setR, State.R, hi]
          have Rr : s2.R r = { s.R r with state := .ready } := by
            simp [s2, s1, logMain, State.setCd, State.setR, State.R]
          have cdk : s2.cd = updC s.cd k { s.cd k with conds := [], tok := none } := rfl
          have q2 : s2.readyq = [r] := by simp [s2, s1, logMain, State.setCd, hq]
          have p2 : 1 ≤ s2.pend := by simp [s2, s1, logMain, State.setCd]
          have M2 : MC s2 [r] := by
            refine ⟨h.nab, h.fx, fun i => ?_, fun i hi hl => ?_, fun i hi => ?_, by simp, fun k' t ht => ?_, h.rd⟩
            · by_cases e : i = r
              · subst e; rw [Rr]; have := h.ok i; exact ⟨this.canc, this.joi, this.raii, this.xf, this.cdo⟩
              · rw [Ro i e]; exact h.ok i
            · have e : i ≠ r := by simpa using hl
              rcases h.set i hi (by simp) with x | x
              · left
                obtain ⟨x1, x2, x3, k', rs', x4, x5⟩ := x
                have hk : k' ≠ k := by
                  intro hk; subst hk
                  rw [htok] at x5
                  exact e (by simpa using x5.symm)
                unfold SusC; rw [Ro i e]
                exact ⟨x1, x2, x3, k', rs', x4, by rw [cdk]; simp [updC, hk]; exact x5⟩
              · right; unfold Ded at *; rw [Ro i e]; exact x
            · have : i = r := by simpa using hi
              subst this
              refine ⟨hlt, ?_⟩
              unfold RdyC; rw [Rr]
              exact ⟨rfl, hfr, fun _ => ⟨k1, rs, hscr⟩⟩
            · by_cases hk : k' = k
              · subst hk; rw [cdk] at ht; simp [updC] at ht
              · rw [cdk] at ht
                simp only [updC, hk, if_false] at ht
                have h1 := h.tok k' t ht
                have e : t ≠ r := by
                  intro e; subst e
                  rw [hhead] at h1
                  have := h1.2.2
                  simp at this
                  exact hk this.symm
                rw [Ro t e]; exact h1
          have hst : step s (.call (.cpost k v)) = loopPass s2 := by
            rw [← hap]; exact step_eq' h.nab (by rw [hap]; exact M2.nab)
          obtain ⟨m3, q3, c3, sc3, o3, n3, d3⟩ := loopPass_one M2 q2 p2
          have hstart : startC s2 r = (A.sc r).tail := by
            unfold startC; rw [Rr]; simp only [hino, if_true]; rw [hR.sc r hlt]
          have hpc : postC A k v =
              { A with T := (runC r (A.sc r).tail (updC A.T k { A.T k with conds := [], tok := none })).1,
                       sc := fun i => if i = r then
                         (runC r (A.sc r).tail (updC A.T k { A.T k with conds := [], tok := none })).2 else A.sc i } := by
            unfold postC
            rw [← hR.cd, if_pos hv, if_pos he, htok]
          rw [hst, hpc]
          refine ⟨m3, q3, ?_, fun i hi => ?_, n3.trans hR.n, d3.trans hR.defs⟩
          · rw [c3, hstart, cdk, hR.cd]
          · rw [n3] at hi
            by_cases e : i = r
            · subst e; rw [sc3, hstart, cdk, hR.cd]; simp
            · rw [o3 i e, Ro i e, hR.sc i hi]; simp [e]
    · let s2 : State := logMain (s.setCd k { s.cd k with conds := if (s.cd k).all then (s.cd k).conds.erase v else [] })
        (.cpost k v) .ok
      have hap : applyMain s (.call (.cpost k v)) = s2 := by
        simp only [applyMain, mainCall]
        rw [if_pos hv, if_neg he]
      have hpc : postC A k v =
          { A with T := updC A.T k { A.T k with conds := if (A.T k).all then (A.T k).conds.erase v else [] } } := by
        unfold postC
        rw [← hR.cd, if_pos hv, if_neg he]
      rw [hpc]
      refine idle_stepC h.nab hap (h.congr rfl (fun k' => ?_) rfl rfl rfl rfl) hq ⟨?_, hR.sc, hR.n, hR.defs⟩
      · by_cases hk : k' = k
        · subst hk; simp [s2, logMain, State.setCd]
        · simp [s2, logMain, State.setCd, hk]
      · rw [← hR.cd]; rfl
  · let s2 : State := logMain s (.cpost k v) .ok
    have hap : applyMain s (.call (.cpost k v)) = s2 := by
      simp only [applyMain, mainCall]
      rw [if_neg hv]
    have hpc : postC A k v = A := by
      unfold postC
      rw [← hR.cd, if_neg hv]
    rw [hpc]
    exact idle_stepC h.nab hap (h.congr rfl (fun _ => rfl) rfl rfl rfl rfl) hq ⟨hR.cd, hR.sc, hR.n, hR.defs⟩

/-- `Condition::add` from the main context -/
theorem add_stepC {s : State} {A : AbsC} {k v : Nat} (h : MC s []) (hq : s.readyq = []) (hR : RelC s A) :
    MC (step s (.call (.cadd k v))) [] ∧ (step s (.call (.cadd k v))).readyq = [] ∧
    RelC (step s (.call (.cadd k v))) (absStepC A (.call (.cadd k v))) := by
  let s2 : State := logMain (s.setCd k { s.cd k with conds := condInsert (s.cd k).conds v }) (.cadd k v) .ok
  have hap : applyMain s (.call (.cadd k v)) = s2 := rfl
  refine idle_stepC h.nab hap (h.congr rfl (fun k' => ?_) rfl rfl rfl rfl) hq ⟨?_, hR.sc, hR.n, hR.defs⟩
  · by_cases hk : k' = k
    · subst hk; simp [s2, logMain, State.setCd]
    · simp [s2, logMain, State.setCd, hk]
  · show updC s.cd k _ = updC A.T k _
    rw [← hR.cd]

theorem postC_defs (A : AbsC) (k v : Nat) : (postC A k v).defs = A.defs := by
  unfold postC
  repeat' split
  all_goals rfl

theorem run_absC : ∀ (ops : List MainOp) (s : State) (A : AbsC), MC s [] → s.readyq = [] → RelC s A →
    (∀ p, p ∈ s.defs → p.1 = false ∧ p.2.all isCd = true) → ops.all CMainOK = true →
    MC (run s ops) [] ∧ (run s ops).readyq = [] ∧ RelC (run s ops) (absRunC A ops)
  | [], s, A, h, hq, hR, _, _ => ⟨h, hq, hR⟩
  | op :: ops, s, A, h, hq, hR, hdf, hok => by
      simp only [List.all_cons, Bool.and_eq_true] at hok
      have hok1 := hok.1
      have hok2 := hok.2
      rw [run, absRunC]
      cases op with
      | call o =>
          cases o <;> simp [CMainOK] at hok1
          case cadd k v =>
            obtain ⟨m1, q1, r1⟩ := add_stepC (k := k) (v := v) h hq hR
            refine run_absC ops _ _ m1 q1 r1 ?_ hok2
            rw [r1.defs]
            show ∀ p, p ∈ A.defs → _
            rw [← hR.defs]; exact hdf
          case cpost k v =>
            obtain ⟨m1, q1, r1⟩ := post_stepC (k := k) (v := v) h hq hR
            refine run_absC ops _ _ m1 q1 r1 ?_ hok2
            rw [r1.defs]
            show ∀ p, p ∈ (postC A k v).defs → _
            rw [postC_defs, ← hR.defs]; exact hdf
      | define xf l =>
          cases xf <;> simp [CMainOK] at hok1
          let s1 : State := { s with defs := s.defs ++ [(false, l)] }
          have r1 : RelC s1 (absStepC A (.define false l)) :=
            ⟨hR.cd, hR.sc, hR.n, by show s.defs ++ [(false, l)] = A.defs ++ [(false, l)]; rw [hR.defs]⟩
          obtain ⟨m2, q2, r2⟩ := idle_stepC (op := .define false l) h.nab (rfl : _ = s1)
            (h.congr rfl (fun _ => rfl) rfl rfl rfl rfl) hq r1
          refine run_absC ops _ _ m2 q2 r2 ?_ hok2
          rw [r2.defs]
          show ∀ p, p ∈ A.defs ++ [(false, l)] → _
          rw [← hR.defs]
          intro p hp
          rcases List.mem_append.mp hp with hp | hp
          · exact hdf p hp
          · rw [List.mem_singleton.mp hp]; exact ⟨rfl, by simpa using hok1⟩
      | new d now =>
          cases now <;> simp [CMainOK] at hok1
          obtain ⟨m1, q1, r1⟩ := new_stepC (d := d) h hq hR hdf
          refine run_absC ops _ _ m1 q1 r1 ?_ hok2
          rw [r1.defs]
          show ∀ p, p ∈ A.defs → _
          rw [← hR.defs]; exact hdf
      | pass =>
          obtain ⟨m2, q2, r2⟩ := idle_stepC (op := .pass) (A := A) h.nab (rfl : _ = s) h hq hR
          refine run_absC ops _ _ m2 q2 r2 ?_ hok2
          rw [r2.defs, ← hR.defs]; exact hdf
      | defineR _ => simp [CMainOK] at hok1
      | stack _ => simp [CMainOK] at hok1
      | resume _ => simp [CMainOK] at hok1
      | cancel _ => simp [CMainOK] at hok1
      | cleanup => simp [CMainOK] at hok1

theorem init_MC : MC init [] := by
  refine ⟨rfl, rfl, fun _ => ⟨rfl, rfl, rfl, rfl, rfl⟩, fun r hr => ?_, fun r hr => ?_, List.nodup_nil, fun k t ht => ?_,
    rfl⟩
  · exact absurd hr (Nat.not_lt_zero r)
  · cases hr
  · simp [init] at ht

theorem init_RelC : RelC init absInitC := ⟨rfl, fun r hr => absurd hr (Nat.not_lt_zero r), rfl, rfl⟩

/-- For every program of the class the scheduler and `Condition` deliver exactly the ORDER semantics: the run drains its
ready queue, the table of condition objects and the remaining scripts are those of `absRunC`, and every routine has
returned at the end IF AND ONLY IF the order predicate `WaitsSatisfied` holds. -/
theorem C18_progress_condition_iff (ops : List MainOp) (h : ConditionMainPosted ops = true) :
    (run init ops).readyq = [] ∧ (run init ops).cd = (absRunC absInitC ops).T ∧
    (∀ r, r < (run init ops).n → ((run init ops).R r).script = (absRunC absInitC ops).sc r) ∧
    ((∀ r, r < (run init ops).n → ((run init ops).R r).state = .dead) ↔ WaitsSatisfied ops = true) := by
  obtain ⟨m, q, rel⟩ := run_absC ops init absInitC init_MC rfl init_RelC (fun p hp => by cases hp) h
  refine ⟨q, rel.cd, rel.sc, ?_⟩
  unfold WaitsSatisfied
  unfold ConditionMainPosted at h
  rw [h]
  simp only [Bool.true_and, allDone, List.all_eq_true, List.mem_range, List.isEmpty_iff, ← rel.n]
  constructor
  · intro hd r hr
    rcases m.set r hr (by simp) with x | x
    · have := hd r hr; rw [x.1] at this; cases this
    · rw [← rel.sc r hr]; exact x.2.2
  · intro hs r hr
    rcases m.set r hr (by simp) with x | x
    · obtain ⟨_, _, _, k, rs, x4, _⟩ := x
      have := hs r hr
      rw [← rel.sc r hr, x4] at this; cases this
    · exact x.1

/-- PROGRESS for `Condition` (kAll and kAny) under the ORDER hypothesis -/
theorem C18_progress_condition (ops : List MainOp) (h : WaitsSatisfied ops = true) :
    (run init ops).readyq = [] ∧ ∀ r, r < (run init ops).n → ((run init ops).R r).state = .dead := by
  have h1 : ConditionMainPosted ops = true := by
    unfold WaitsSatisfied at h
    simp only [Bool.and_eq_true] at h
    exact h.1
  have := C18_progress_condition_iff ops h1
  exact ⟨this.1, this.2.2.2.mpr h⟩

/-! ## non-vacuity and the sharp edge -/

/-- kAll (object 0): both keys must be posted; kAny (object 1): one of them; object 2 is shared: the second routine's
`wait()` is refused while the first one waits -/
def progCond : List MainOp :=
  [.define false [.cadd 0 1, .cadd 0 2, .cwait 0], .define false [.cadd 1 1, .cadd 1 2, .cwait 1, .cadd 1 3, .cwait 1],
   .define false [.cadd 2 7, .cwait 2],
   .new 0 true, .new 1 true, .new 2 true, .new 2 true, .call (.cpost 0 2), .pass, .call (.cpost 1 2), .call (.cpost 0 1),
   .call (.cpost 2 7), .call (.cpost 1 3)]

example : WaitsSatisfied progCond = true ∧ (run init progCond).n = 4 := by decide

/-- kAll with one key never posted: the waiter hangs, the key is still in the set (the clause of `C18_no_lost_wakeup`) -/
theorem C18_progress_condition_missing_key_counterexample :
    let ops : List MainOp := [.define false [.cadd 0 1, .cadd 0 2, .cwait 0], .new 0 true, .call (.cpost 0 1), .pass]
    ConditionMainPosted ops = true ∧ WaitsSatisfied ops = false ∧ susp (run init ops) 0 (.cwait 0) ∧
    ((run init ops).cd 0).conds = [2] := by decide

/-- the post comes before the ADD: it is lost, for kAny too -/
theorem C18_progress_condition_post_before_add_counterexample :
    let ops : List MainOp := [.define false [.cadd 1 5, .cwait 1], .call (.cpost 1 5), .new 0 true, .pass]
    ConditionMainPosted ops = true ∧ WaitsSatisfied ops = false ∧ susp (run init ops) 0 (.cwait 1) := by decide

/-- the main context adds the key, the routine waits, the main context posts -/
example : WaitsSatisfied [.define false [.cwait 0], .call (.cadd 0 4), .new 0 true, .call (.cpost 0 4)] = true ∧
    WaitsSatisfied [.define false [.cwait 0], .call (.cadd 0 4), .new 0 true, .call (.cpost 0 5)] = false := by decide

/-- a post between the add and the wait counts: the wait is refused (`false`), the routine returns -/
example : WaitsSatisfied [.define false [.cadd 0 1], .define false [.cwait 0], .new 0 true, .call (.cpost 0 1), .new 1 true] = true := by
  decide

end Tbox.C18
