/-
C18 — PROGRESS for the whole wait / post fragment under the ORDER hypothesis (round 6): `Broadcast` and `Condition`
(kAll / kAny) MIXED in one program, objects shared between routines.

Class: routine scripts over `Broadcast::wait`, `Condition::add`, `Condition::wait`; the main context defines scripts,
creates routines (`run_now = true`), lets the loop run, and calls `Broadcast::post`, `Condition::post` and
`Condition::add` itself.  The ORDER SEMANTICS (`absRunW`) keeps only what the order of the calls determines: the table of
condition objects, the waiter lists of the broadcasts, the remaining scripts.  A routine runs until it blocks in a wait
(`runW`); a broadcast post lets the registered waiters run on one after the other in registration order (`runList`: they
share the condition objects, so the order matters), a condition post that empties the key set lets its waiter run on.
No ready queue, no loop passes, no routine states, no tokens, no cabinet.

  `C18_progress_waitpost_iff`   for every program of the class: the run drains its ready queue; condition objects, waiter
                                lists and remaining scripts of the model ARE those of the order semantics; every routine is
                                Dead at the end IF AND ONLY IF `AllServed ops`
  `C18_progress_waitpost`       AllServed ops -> every routine Dead
ProgressBC.lean / ProgressCD.lean are the two pure sub-classes (for `Broadcast` alone the predicate is a subsequence test).
-/
import TboxModel.C18.ProgressCD
namespace Tbox.C18

/-! ## the class and the order semantics -/

def isWp : Op → Bool
  | .bwait _ | .cadd _ _ | .cwait _ => true
  | _ => false

def updB (B : Nat → List Nat) (b : Nat) (x : List Nat) : Nat → List Nat := fun i => if i = b then x else B i

/-- routine `me` runs until it blocks in a wait or returns -/
def runW (me : Nat) : List Op → (Nat → Cond) → (Nat → List Nat) → ((Nat → Cond) × (Nat → List Nat)) × List Op
  | [], T, B => ((T, B), [])
  | .cadd k v :: l, T, B => runW me l (updC T k { T k with conds := condInsert (T k).conds v }) B
  | .cwait k :: l, T, B =>
      if (T k).tok.isSome ∨ (T k).conds.isEmpty then runW me l T B
      else ((updC T k { T k with tok := some me }, B), .cwait k :: l)
  | .bwait b :: l, T, B => ((T, updB B b (B b ++ [me])), .bwait b :: l)
  | _ :: l, T, B => runW me l T B

structure AbsW where
  T : Nat → Cond
  B : Nat → List Nat
  sc : Nat → List Op
  n : Nat
  defs : List (Bool × List Op)

/-- routine `r` runs the script `l` -/
def runOne (A : AbsW) (r : Nat) (l : List Op) : AbsW :=
  { A with T := (runW r l A.T A.B).1.1, B := (runW r l A.T A.B).1.2,
           sc := fun i => if i = r then (runW r l A.T A.B).2 else A.sc i }

/-- the routines of `rs` run one after the other, routine `r` the script `st r` -/
def runList : List Nat → (Nat → List Op) → AbsW → AbsW
  | [], _, A => A
  | r :: rs, st, A => runList rs st (runOne A r (st r))

def postBW (A : AbsW) (b : Nat) : AbsW :=
  runList (A.B b) (fun r => (A.sc r).tail) { A with B := updB A.B b [] }

def postCW (A : AbsW) (k v : Nat) : AbsW :=
  if v ∈ (A.T k).conds then
    if (if (A.T k).all then (A.T k).conds.erase v else []).isEmpty then
      match (A.T k).tok with
      | some r => runOne { A with T := updC A.T k { A.T k with conds := [], tok := none } } r (A.sc r).tail
      | none => { A with T := updC A.T k { A.T k with conds := [], tok := none } }
    else { A with T := updC A.T k { A.T k with conds := if (A.T k).all then (A.T k).conds.erase v else [] } }
  else A

def absStepW (A : AbsW) : MainOp → AbsW
  | .define xf l => { A with defs := A.defs ++ [(xf, l)] }
  | .new d _ => { runOne A A.n (A.defs.getD d (false, [])).2 with n := A.n + 1 }
  | .call (.post b) => postBW A b
  | .call (.cpost k v) => postCW A k v
  | .call (.cadd k v) => { A with T := updC A.T k { A.T k with conds := condInsert (A.T k).conds v } }
  | _ => A

def absRunW : AbsW → List MainOp → AbsW
  | A, [] => A
  | A, op :: ops => absRunW (absStepW A op) ops

def absInitW : AbsW := { T := init.cd, B := fun _ => [], sc := fun _ => [], n := 0, defs := [] }

def allDoneW (A : AbsW) : Bool := (List.range A.n).all fun r => (A.sc r).isEmpty

def WMainOK : MainOp → Bool
  | .define false l => l.all isWp
  | .new _ true => true
  | .pass => true
  | .call (.post _) => true
  | .call (.cpost _ _) => true
  | .call (.cadd _ _) => true
  | _ => false

/-- the class -/
def WaitPostMainPosted (ops : List MainOp) : Bool := ops.all WMainOK

/-- the ORDER hypothesis, a decidable predicate on the program -/
def AllServed (ops : List MainOp) : Bool := ops.all WMainOK && allDoneW (absRunW absInitW ops)

/-! ## facts about `runW` -/

theorem runW_shape (me : Nat) : ∀ (l : List Op) (T : Nat → Cond) (B : Nat → List Nat), l.all isWp = true →
    (runW me l T B).2.all isWp = true ∧
    ((runW me l T B).2 = [] ∨
      (∃ k rest, (runW me l T B).2 = .cwait k :: rest ∧ ((runW me l T B).1.1 k).tok = some me) ∨
      (∃ b rest, (runW me l T B).2 = .bwait b :: rest ∧ me ∈ (runW me l T B).1.2 b)) ∧
    (∀ k, ((runW me l T B).1.1 k).tok = (T k).tok ∨
      ((T k).tok = none ∧ ((runW me l T B).1.1 k).tok = some me ∧ ∃ rest, (runW me l T B).2 = .cwait k :: rest)) ∧
    (∀ b, (runW me l T B).1.2 b = B b ∨
      ((runW me l T B).1.2 b = B b ++ [me] ∧ ∃ rest, (runW me l T B).2 = .bwait b :: rest))
  | [], T, B, _ => ⟨rfl, Or.inl rfl, fun _ => Or.inl rfl, fun _ => Or.inl rfl⟩
  | op :: l, T, B, h => by
      simp only [List.all_cons, Bool.and_eq_true] at h
      cases op <;> simp only [isWp, Bool.false_eq_true, false_and] at h
      case cadd k v =>
        have ih := runW_shape me l (updC T k { T k with conds := condInsert (T k).conds v }) B h.2
        simp only [runW]
        refine ⟨ih.1, ih.2.1, fun k' => ?_, ih.2.2.2⟩
        have := ih.2.2.1 k'
        by_cases hk : k' = k
        · subst hk; simpa [updC] using this
        · simpa [updC, hk] using this
      case cwait k =>
        simp only [runW]
        split
        · exact runW_shape me l T B h.2
        · rename_i hc
          refine ⟨by simp [isWp, h.2], Or.inr (Or.inl ⟨k, l, rfl, by simp [updC]⟩), fun k' => ?_, fun _ => by simp⟩
          by_cases hk : k' = k
          · subst hk
            right
            refine ⟨?_, by simp [updC], l, rfl⟩
            cases ht : (T k').tok with
            | none => rfl
            | some _ => exact absurd (Or.inl (by simp [ht])) hc
          · left; simp [updC, hk]
      case bwait b =>
        simp only [runW]
        refine ⟨by simp [isWp, h.2], Or.inr (Or.inr ⟨b, l, rfl, by simp [updB]⟩), fun _ => by simp, fun b' => ?_⟩
        by_cases hb : b' = b
        · subst hb; right; exact ⟨by simp [updB], l, rfl⟩
        · left; simp [updB, hb]

/-! ## the invariant -/

structure RtOKw (x : Routine) : Prop where
  canc : x.canceled = false
  joi : x.joiner = none
  raii : x.raii = false
  xf : x.xfail = false
  wp : x.script.all isWp = true

/-- the waiter lists of the broadcasts -/
def tokB (s : State) : Nat → List Nat := fun b => (s.bc b).tokens

def SusW (s : State) (r : Nat) : Prop :=
  (s.R r).state = .suspend ∧ (s.R r).freed = false ∧ (s.R r).inOp = true ∧
    ((∃ k rest, (s.R r).script = .cwait k :: rest ∧ (s.cd k).tok = some r) ∨
     (∃ b rest, (s.R r).script = .bwait b :: rest ∧ r ∈ tokB s b))

def RdyW (s : State) (r : Nat) : Prop :=
  (s.R r).state = .ready ∧ (s.R r).freed = false ∧
    ((s.R r).inOp = true → (∃ k rest, (s.R r).script = .cwait k :: rest) ∨ (∃ b rest, (s.R r).script = .bwait b :: rest))

structure MW (s : State) (l : List Nat) : Prop where
  nab : s.aborted = false
  fx : s.fixed = true
  ok : ∀ r, RtOKw (s.R r)
  set : ∀ r, r < s.n → r ∉ l → SusW s r ∨ Ded s r
  rdy : ∀ r, r ∈ l → r < s.n ∧ RdyW s r
  nd : l.Nodup
  tokc : ∀ k t, (s.cd k).tok = some t →
    t < s.n ∧ (s.R t).state = .suspend ∧ (s.R t).script.head? = some (.cwait k)
  tokb : ∀ b t, t ∈ tokB s b → t < s.n ∧ (s.R t).state = .suspend ∧ (s.R t).script.head? = some (.bwait b)
  ndb : ∀ b, (tokB s b).Nodup
  rd : s.rdefs = []

theorem MW.congr {s s' : State} {l : List Nat} (hM : MW s l) (hr : s'.rts = s.rts)
    (ht : ∀ k, (s'.cd k).tok = (s.cd k).tok) (hb : tokB s' = tokB s) (hn : s'.n = s.n) (ha : s'.aborted = s.aborted)
    (hrd : s'.rdefs = s.rdefs) (hfx : s'.fixed = s.fixed) : MW s' l := by
  have hR : ∀ r, s'.R r = s.R r := fun r => by simp only [State.R, hr]
  refine ⟨ha.trans hM.nab, hfx.trans hM.fx, fun r => by rw [hR]; exact hM.ok r, fun r hr' hl => ?_, fun r hr' => ?_,
    hM.nd, fun k t ht' => ?_, fun b t ht' => ?_, fun b => by rw [hb]; exact hM.ndb b, hrd.trans hM.rd⟩
  · rw [hn] at hr'
    rcases hM.set r hr' hl with x | x
    · left
      obtain ⟨x1, x2, x3, x4⟩ := x
      unfold SusW; rw [hR, hb]
      refine ⟨x1, x2, x3, ?_⟩
      rcases x4 with ⟨k, rs, y1, y2⟩ | y
      · exact Or.inl ⟨k, rs, y1, by rw [ht]; exact y2⟩
      · exact Or.inr y
    · right; unfold Ded at *; rw [hR]; exact x
  · have := hM.rdy r hr'
    unfold RdyW at *; rw [hR, hn]; exact this
  · rw [ht] at ht'; rw [hR, hn]; exact hM.tokc k t ht'
  · rw [hb] at ht'; rw [hR, hn]; exact hM.tokb b t ht'

structure SameW (s s' : State) : Prop where
  rts : s'.rts = s.rts
  cd : s'.cd = s.cd
  bc : s'.bc = s.bc
  n : s'.n = s.n
  ab : s'.aborted = s.aborted
  rd : s'.rdefs = s.rdefs
  fx : s'.fixed = s.fixed
  defs : s'.defs = s.defs

theorem SameW.R {s s' : State} (h : SameW s s') (r : Nat) : s'.R r = s.R r := by
  simp only [State.R, h.rts]

theorem SameW.tokB {s s' : State} (h : SameW s s') : tokB s' = tokB s := by
  unfold Tbox.C18.tokB; rw [h.bc]

theorem SameW.m {s s' : State} {l : List Nat} (h : SameW s s') (hM : MW s l) : MW s' l :=
  hM.congr h.rts (fun k => by rw [h.cd]) h.tokB h.n h.ab h.rd h.fx

theorem SameW.trans {a b c : State} (h1 : SameW a b) (h2 : SameW b c) : SameW a c :=
  ⟨h2.rts.trans h1.rts, h2.cd.trans h1.cd, h2.bc.trans h1.bc, h2.n.trans h1.n, h2.ab.trans h1.ab, h2.rd.trans h1.rd,
    h2.fx.trans h1.fx, h2.defs.trans h1.defs⟩

/-! ## a routine runs -/

theorem enterB_frm (s : State) (r b : Nat) (l : List Op) : Frm s (enterB s r b l) r := by
  refine ⟨rfl, rfl, rfl, rfl, rfl, rfl, rfl, fun i hi => ?_, ?_, ?_, ?_, ?_, ?_⟩ <;> simp [enterB, State.R, *]

theorem contB_frm (s : State) (r b : Nat) (l : List Op) : Frm s (contB s r b l) r := by
  refine ⟨rfl, rfl, rfl, rfl, rfl, rfl, rfl, fun i hi => ?_, ?_, ?_, ?_, ?_, ?_⟩ <;> simp [contB, State.R, *]

theorem all_tailW {l : List Op} (h : l.all isWp = true) : l.tail.all isWp = true := by
  cases l with
  | nil => rfl
  | cons a l => simp only [List.all_cons, Bool.and_eq_true] at h; exact h.2

/-- `runOps` of a routine of the class IS `runW` on the condition objects and the waiter lists -/
theorem runOps_runW (r : Nat) : ∀ (l : List Op) (s : State), l.all isWp = true → (s.R r).inOp = false →
    (s.R r).canceled = false → (s.R r).xfail = false → (s.R r).raii = false →
    Frm s (runOps r l s) r ∧ (runOps r l s).cd = (runW r l s.cd (tokB s)).1.1 ∧
    tokB (runOps r l s) = (runW r l s.cd (tokB s)).1.2 ∧
    ((runOps r l s).R r).script = (runW r l s.cd (tokB s)).2 ∧
    ((runW r l s.cd (tokB s)).2 = [] → ((runOps r l s).R r).state = .dead) ∧
    ((runW r l s.cd (tokB s)).2 ≠ [] → ((runOps r l s).R r).state = .suspend ∧ ((runOps r l s).R r).inOp = true)
  | [], s, _, _, _, _, h5 => by
      rw [runOps_nil h5]
      exact ⟨die_frm s r, rfl, rfl, by simp [die, State.setR, State.R, runW],
        fun _ => by simp [die, State.setR, State.R], fun h => absurd rfl h⟩
  | op :: l, s, h, h1, h2, h3, h5 => by
      simp only [List.all_cons, Bool.and_eq_true] at h
      cases op <;> simp only [isWp, Bool.false_eq_true, false_and] at h
      case cadd k v =>
        rw [runOps_cadd h2 h3]
        have f := doneC_frm s r (.cadd k v) l .ok (updC s.cd k { s.cd k with conds := condInsert (s.cd k).conds v })
        have ih := runOps_runW r l _ h.2 (by simp [doneC, State.R]) (f.canc.trans h2) (f.xf.trans h3) (f.raii.trans h5)
        exact ⟨f.trans ih.1, ih.2.1, ih.2.2.1, ih.2.2.2.1, ih.2.2.2.2.1, ih.2.2.2.2.2⟩
      case cwait k =>
        by_cases hc : (s.cd k).tok.isSome ∨ (s.cd k).conds.isEmpty
        · rw [runOps_cwait_fail h1 h2 h3 hc]
          have f := doneC_frm s r (.cwait k) l .fail s.cd
          have ih := runOps_runW r l _ h.2 (by simp [doneC, State.R]) (f.canc.trans h2) (f.xf.trans h3) (f.raii.trans h5)
          have e : runW r (.cwait k :: l) s.cd (tokB s) = runW r l s.cd (tokB s) := by
            simp only [runW]; rw [if_pos hc]
          rw [e]
          exact ⟨f.trans ih.1, ih.2.1, ih.2.2.1, ih.2.2.2.1, ih.2.2.2.2.1, ih.2.2.2.2.2⟩
        · rw [runOps_cwait_block h1 h2 hc]
          have e : runW r (.cwait k :: l) s.cd (tokB s) =
              ((updC s.cd k { s.cd k with tok := some r }, tokB s), .cwait k :: l) := by
            simp only [runW]; rw [if_neg hc]
          rw [e]
          exact ⟨blockC_frm s r k l, rfl, rfl, (by simp [blockC, State.R]), fun h => (by cases h),
            fun _ => (by simp [blockC, State.R])⟩
      case bwait b =>
        rw [runOps_fresh h1 h2]
        refine ⟨enterB_frm s r b l, rfl, ?_, (by simp [enterB, State.R, runW]), fun h => (by cases h),
          fun _ => (by simp [enterB, State.R])⟩
        funext b'
        by_cases hb : b' = b
        · subst hb; simp [tokB, enterB, runW, updB]
        · simp [tokB, enterB, runW, updB, hb]

theorem MW.settle {s s' : State} {r : Nat} {rest : List Nat} (hM : MW s (r :: rest)) (hn : s'.n = s.n)
    (ha : s'.aborted = s.aborted) (hfx : s'.fixed = s.fixed) (hrd : s'.rdefs = s.rdefs)
    (ho : ∀ i, i ≠ r → s'.R i = s.R i) (hok : RtOKw (s'.R r)) (hr : SusW s' r ∨ Ded s' r)
    (hcd : ∀ k, (s'.cd k).tok = (s.cd k).tok ∨ ((s.cd k).tok = none ∧ (s'.cd k).tok = some r ∧
      (s'.R r).state = .suspend ∧ (s'.R r).script.head? = some (.cwait k)))
    (hbc : ∀ b, tokB s' b = tokB s b ∨ (tokB s' b = tokB s b ++ [r] ∧
      (s'.R r).state = .suspend ∧ (s'.R r).script.head? = some (.bwait b))) : MW s' rest := by
  have hnd := List.nodup_cons.mp hM.nd
  have hrr := hM.rdy r List.mem_cons_self
  have hmem : ∀ b t, t ∈ tokB s b → t ∈ tokB s' b := fun b t ht => by
    rcases hbc b with c | ⟨c, _⟩
    · rw [c]; exact ht
    · rw [c]; exact List.mem_append_left _ ht
  refine ⟨ha.trans hM.nab, hfx.trans hM.fx, fun i => ?_, fun i hi hl => ?_, fun i hi => ?_, hnd.2, fun k t ht => ?_,
    fun b t ht => ?_, fun b => ?_, hrd.trans hM.rd⟩
  · by_cases e : i = r
    · subst e; exact hok
    · rw [ho i e]; exact hM.ok i
  · by_cases e : i = r
    · subst e; exact hr
    · rw [hn] at hi
      have hl' : i ∉ r :: rest := by simp [e, hl]
      rcases hM.set i hi hl' with x | x
      · left
        obtain ⟨x1, x2, x3, x4⟩ := x
        unfold SusW; rw [ho i e]
        refine ⟨x1, x2, x3, ?_⟩
        rcases x4 with ⟨k, rs, y1, y2⟩ | ⟨b, rs, y1, y2⟩
        · left
          refine ⟨k, rs, y1, ?_⟩
          rcases hcd k with c | ⟨c, _⟩
          · rw [c]; exact y2
          · rw [c] at y2; cases y2
        · exact Or.inr ⟨b, rs, y1, hmem b i y2⟩
      · right; unfold Ded at *; rw [ho i e]; exact x
  · have e : i ≠ r := fun e => hnd.1 (e ▸ hi)
    have := hM.rdy i (List.mem_cons_of_mem _ hi)
    unfold RdyW at *; rw [ho i e, hn]; exact this
  · rcases hcd k with c | ⟨_, c2, c3, c4⟩
    · rw [c] at ht
      have h1 := hM.tokc k t ht
      have e : t ≠ r := by
        intro e; subst e
        rw [hrr.2.1] at h1; cases h1.2.1
      rw [ho t e, hn]; exact h1
    · rw [c2] at ht
      have : r = t := by simpa using ht
      subst this
      exact ⟨by rw [hn]; exact hrr.1, c3, c4⟩
  · have old : t ∈ tokB s b → t < s'.n ∧ (s'.R t).state = .suspend ∧ (s'.R t).script.head? = some (.bwait b) := by
      intro x
      have h1 := hM.tokb b t x
      have e : t ≠ r := by
        intro e; subst e
        rw [hrr.2.1] at h1; cases h1.2.1
      rw [ho t e, hn]; exact h1
    rcases hbc b with c | ⟨c, c3, c4⟩
    · rw [c] at ht; exact old ht
    · rw [c] at ht
      rcases List.mem_append.mp ht with x | x
      · exact old x
      · have : t = r := List.mem_singleton.mp x
        subst this
        exact ⟨by rw [hn]; exact hrr.1, c3, c4⟩
  · rcases hbc b with c | ⟨c, _, _⟩
    · rw [c]; exact hM.ndb b
    · rw [c, List.nodup_append]
      refine ⟨hM.ndb b, by simp, fun a ha x hx => ?_⟩
      rw [List.mem_singleton.mp hx]
      intro e; subst e
      have := (hM.tokb b a ha).2.1
      rw [hrr.2.1] at this; cases this

theorem switchTo_MW {s : State} {r : Nat} {rest : List Nat} (hM : MW s (r :: rest)) :
    MW (switchTo s r) rest ∧ (switchTo s r).cd = (runW r (startC s r) s.cd (tokB s)).1.1 ∧
    tokB (switchTo s r) = (runW r (startC s r) s.cd (tokB s)).1.2 ∧
    ((switchTo s r).R r).script = (runW r (startC s r) s.cd (tokB s)).2 ∧
    (∀ i, i ≠ r → (switchTo s r).R i = s.R i) ∧ (switchTo s r).n = s.n ∧ (switchTo s r).defs = s.defs ∧
    (switchTo s r).readyq = s.readyq := by
  obtain ⟨hlt, hst, hfr, hin⟩ := hM.rdy r List.mem_cons_self
  have hk := hM.ok r
  let s1 : State := s.setR r { s.R r with state := .running, started := true }
  have f1 : Frm s s1 r := by
    refine ⟨rfl, rfl, rfl, rfl, rfl, rfl, rfl, fun i hi => ?_, ?_, ?_, ?_, ?_, ?_⟩ <;> simp [s1, State.setR, State.R, *]
  have hs1in : (s1.R r).inOp = (s.R r).inOp := by simp [s1, State.setR, State.R]
  have hsw : switchTo s r = (let s2 := runOps r (s.R r).script s1
      if (s2.R r).state = .dead then (let s3 := freeRoutine s2 r; resumeOpt s3 (s3.R r).joiner) else s2) := by
    simp only [switchTo, s1, State.setR, State.R, if_true]
  have hx : ∃ s1x : State, Frm s s1x r ∧ s1x.cd = s.cd ∧ tokB s1x = tokB s ∧ (s1x.R r).inOp = false ∧
      runOps r (s.R r).script s1 = runOps r (startC s r) s1x := by
    cases hino : (s.R r).inOp with
    | false =>
        exact ⟨s1, f1, rfl, rfl, hs1in.trans hino, by simp [startC, hino]⟩
    | true =>
        rcases hin hino with ⟨k, l, hscr⟩ | ⟨b, l, hscr⟩
        · have htk : (s1.cd k).tok ≠ some r := by
            intro e
            have := (hM.tokc k r e).2.1
            rw [hst] at this; cases this
          refine ⟨doneC s1 r (.cwait k) l .ok s1.cd, f1.trans (doneC_frm _ _ _ _ _ _), rfl, rfl,
            by simp [doneC, State.R], ?_⟩
          rw [hscr, runOps_cwait_cont (hs1in.trans hino) (f1.canc.trans hk.canc) (f1.xf.trans hk.xf) hM.fx htk]
          simp [startC, hino, hscr]
        · refine ⟨contB s1 r b l, f1.trans (contB_frm _ _ _ _), rfl, rfl, by simp [contB, State.R], ?_⟩
          rw [hscr, runOps_cont (hs1in.trans hino) (f1.canc.trans hk.canc) (f1.xf.trans hk.xf)]
          simp [startC, hino, hscr]
  obtain ⟨s1x, fx, cdx, tbx, inx, erun⟩ := hx
  have hall : (startC s r).all isWp = true := by
    unfold startC; split
    · exact all_tailW hk.wp
    · exact hk.wp
  obtain ⟨f2, c2, t2, sc2, dd2, bb2⟩ := runOps_runW r (startC s r) s1x hall inx (fx.canc.trans hk.canc)
    (fx.xf.trans hk.xf) (fx.raii.trans hk.raii)
  rw [cdx, tbx] at c2 t2 sc2 dd2 bb2
  have f := fx.trans f2
  obtain ⟨sh1, sh2, sh3, sh4⟩ := runW_shape r (startC s r) s.cd (tokB s) hall
  rw [hsw, erun]
  simp only []
  by_cases hnil : (runW r (startC s r) s.cd (tokB s)).2 = []
  · have hd := dd2 hnil
    rw [if_pos hd]
    have hj : ((freeRoutine (runOps r (startC s r) s1x) r).R r).joiner = none := by
      have := f.joi.trans hk.joi
      simp only [State.R] at this
      simp [freeRoutine, State.setR, State.R, this]
    rw [hj]
    simp only [resumeOpt]
    have hoth : ∀ i, i ≠ r → (freeRoutine (runOps r (startC s r) s1x) r).R i = s.R i := fun i hi => by
      rw [← f.oth i hi]; simp [freeRoutine, State.setR, State.R, hi]
    have hscr : ((freeRoutine (runOps r (startC s r) s1x) r).R r).script = [] := by
      rw [← hnil, ← sc2]; simp [freeRoutine, State.setR, State.R]
    have hcd' : (freeRoutine (runOps r (startC s r) s1x) r).cd = (runW r (startC s r) s.cd (tokB s)).1.1 := c2
    have htb' : tokB (freeRoutine (runOps r (startC s r) s1x) r) = (runW r (startC s r) s.cd (tokB s)).1.2 := t2
    refine ⟨?_, hcd', htb', by rw [hscr, hnil], hoth, f.n, f.defs, f.rq⟩
    refine hM.settle f.n f.ab f.fx f.rd hoth ?_ (Or.inr ?_) (fun k => ?_) (fun b => ?_)
    · have a1 := f.canc.trans hk.canc
      have a2 := f.joi.trans hk.joi
      have a3 := f.raii.trans hk.raii
      have a4 := f.xf.trans hk.xf
      simp only [State.R] at a1 a2 a3 a4 hscr
      constructor <;> simp [freeRoutine, State.setR, State.R, a1, a2, a3, a4]
      simp only [State.R] at sc2
      rw [sc2, hnil]; simp
    · simp only [State.R] at sc2
      simp [Ded, freeRoutine, State.setR, State.R, sc2, hnil]
    · rw [hcd']
      rcases sh3 k with c | ⟨_, _, rs, c⟩
      · exact Or.inl c
      · rw [hnil] at c; cases c
    · rw [htb']
      rcases sh4 b with c | ⟨_, rs, c⟩
      · exact Or.inl c
      · rw [hnil] at c; cases c
  · obtain ⟨b1, b2⟩ := bb2 hnil
    have hnd : ¬ ((runOps r (startC s r) s1x).R r).state = .dead := by rw [b1]; exact fun e => by cases e
    rw [if_neg hnd]
    refine ⟨?_, c2, t2, sc2, f.oth, f.n, f.defs, f.rq⟩
    refine hM.settle f.n f.ab f.fx f.rd f.oth ⟨f.canc.trans hk.canc, f.joi.trans hk.joi, f.raii.trans hk.raii,
      f.xf.trans hk.xf, by rw [sc2]; exact sh1⟩ (Or.inl ?_) (fun k => ?_) (fun b => ?_)
    · refine ⟨b1, f.frd.trans hfr, b2, ?_⟩
      rcases sh2 with h0 | ⟨k0, rs0, hcons, htok0⟩ | ⟨b0, rs0, hcons, hmem0⟩
      · exact absurd h0 hnil
      · exact Or.inl ⟨k0, rs0, sc2.trans hcons, by rw [c2]; exact htok0⟩
      · exact Or.inr ⟨b0, rs0, sc2.trans hcons, by rw [t2]; exact hmem0⟩
    · rw [c2]
      rcases sh3 k with c | ⟨c1, c2', rs, c3⟩
      · exact Or.inl c
      · exact Or.inr ⟨c1, c2', b1, by rw [sc2, c3]; rfl⟩
    · rw [t2]
      rcases sh4 b with c | ⟨c1, rs, c3⟩
      · exact Or.inl c
      · exact Or.inr ⟨c1, b1, by rw [sc2, c3]; rfl⟩

/-! ## a pass of the loop against the order semantics -/

structure RelW (s : State) (A : AbsW) : Prop where
  cd : s.cd = A.T
  tb : tokB s = A.B
  sc : ∀ r, r < s.n → (s.R r).script = A.sc r
  n : s.n = A.n
  defs : s.defs = A.defs

theorem RelW.same {s s' : State} {A : AbsW} (h : RelW s A) (hs : SameW s s') : RelW s' A :=
  ⟨hs.cd.trans h.cd, hs.tokB.trans h.tb, fun r hr => by rw [hs.R]; exact h.sc r (hs.n ▸ hr), hs.n.trans h.n,
    hs.defs.trans h.defs⟩

theorem RelW.ext {s : State} {X Y : AbsW} (h : RelW s X) (h1 : X.T = Y.T) (h2 : X.B = Y.B)
    (h3 : ∀ i, i < X.n → X.sc i = Y.sc i) (h4 : X.n = Y.n) (h5 : X.defs = Y.defs) : RelW s Y :=
  ⟨h.cd.trans h1, h.tb.trans h2, fun r hr => (h.sc r hr).trans (h3 r (h.n ▸ hr)), h.n.trans h4, h.defs.trans h5⟩

theorem runList_congr : ∀ (l : List Nat) (st st' : Nat → List Op) (A : AbsW), (∀ i, i ∈ l → st i = st' i) →
    runList l st A = runList l st' A
  | [], _, _, _, _ => rfl
  | r :: rs, st, st', A, h => by
      simp only [runList]
      rw [h r List.mem_cons_self]
      exact runList_congr rs st st' _ (fun i hi => h i (List.mem_cons_of_mem _ hi))

theorem drain_MW : ∀ (l : List Nat) (s : State) (A : AbsW), MW s l → s.readyq = [] → RelW s A →
    MW (drain l s) [] ∧ (drain l s).readyq = [] ∧ RelW (drain l s) (runList l (startC s) A)
  | [], s, A, h, hq, hR => ⟨h, hq, hR⟩
  | r :: rest, s, A, h, hq, hR => by
      let s0 : State := { s with tmp := rest }
      have hR0 : ∀ i, s0.R i = s.R i := fun _ => rfl
      have h0 : MW s0 (r :: rest) := h.congr rfl (fun _ => rfl) rfl rfl rfl rfl rfl
      obtain ⟨hlt, _, hfr, _⟩ := h0.rdy r List.mem_cons_self
      have hal : alive s0 r = true := by
        simp only [alive, Bool.and_eq_true, decide_eq_true_eq, Bool.not_eq_true']
        exact ⟨hlt, hfr⟩
      have hd : drain (r :: rest) s = drain rest (switchTo s0 r) := by
        simp only [drain]
        rw [if_pos hal]
      obtain ⟨m1, c1, t1, sc1, o1, n1, d1, q1⟩ := switchTo_MW h0
      have hst0 : startC s0 r = startC s r := rfl
      have r1 : RelW (switchTo s0 r) (runOne A r (startC s r)) := by
        refine ⟨?_, ?_, fun i hi => ?_, n1.trans hR.n, d1.trans hR.defs⟩
        · rw [c1, hst0]; show _ = (runW r (startC s r) A.T A.B).1.1; rw [← hR.cd, ← hR.tb]; rfl
        · rw [t1, hst0]; show _ = (runW r (startC s r) A.T A.B).1.2; rw [← hR.cd, ← hR.tb]; rfl
        · rw [n1] at hi
          by_cases e : i = r
          · subst e
            rw [sc1, hst0]
            show _ = (if i = i then (runW i (startC s i) A.T A.B).2 else A.sc i)
            rw [if_pos rfl, ← hR.cd, ← hR.tb]; rfl
          · rw [o1 i e]
            show _ = (if i = r then _ else A.sc i)
            rw [if_neg e]; exact hR.sc i hi
      have ih := drain_MW rest (switchTo s0 r) _ m1 (q1.trans hq) r1
      rw [hd]
      refine ⟨ih.1, ih.2.1, ?_⟩
      have hnd := List.nodup_cons.mp h.nd
      have hc : runList rest (startC (switchTo s0 r)) (runOne A r (startC s r)) =
          runList rest (startC s) (runOne A r (startC s r)) := by
        refine runList_congr _ _ _ _ (fun i hi => ?_)
        have e : i ≠ r := fun e => hnd.1 (e ▸ hi)
        unfold startC; rw [o1 i e]; rfl
      rw [hc] at ih
      exact ih.2.2

theorem batch_idleW : ∀ (k : Nat) (s : State), s.readyq = [] → SameW s (batch k s) ∧ (batch k s).readyq = []
  | 0, s, hq => ⟨⟨rfl, rfl, rfl, rfl, rfl, rfl, rfl, rfl⟩, hq⟩
  | k + 1, s, hq => by
      have e : schedule s = { s with readyq := [], tmp := [] } := by simp [schedule, hq, drain]
      have h1 : SameW s (schedule s) := by rw [e]; exact ⟨rfl, rfl, rfl, rfl, rfl, rfl, rfl, rfl⟩
      have q1 : (schedule s).readyq = [] := by rw [e]
      have ih := batch_idleW k (schedule s) q1
      rw [batch]
      exact ⟨h1.trans ih.1, ih.2⟩

theorem loopPass_list {s : State} {A : AbsW} (h : MW s s.readyq) (hp : s.readyq = [] ∨ 1 ≤ s.pend) (hR : RelW s A) :
    MW (loopPass s) [] ∧ (loopPass s).readyq = [] ∧ RelW (loopPass s) (runList s.readyq (startC s) A) := by
  have h0 : SameW s { s with pend := 0 } := ⟨rfl, rfl, rfl, rfl, rfl, rfl, rfl, rfl⟩
  by_cases hq : s.readyq = []
  · have := batch_idleW s.pend { s with pend := 0 } hq
    have hs := h0.trans this.1
    unfold loopPass
    have hl : runList s.readyq (startC s) A = A := by rw [hq]; rfl
    refine ⟨hs.m (by rw [← hq]; exact h), this.2, ?_⟩
    rw [hl]; exact hR.same hs
  · have hp1 : 1 ≤ s.pend := by
      rcases hp with e | e
      · exact absurd e hq
      · exact e
    obtain ⟨k, hk⟩ : ∃ k, s.pend = k + 1 := ⟨s.pend - 1, by omega⟩
    let s0 : State := { s with pend := 0, readyq := [], tmp := s.readyq }
    have hm0 : MW s0 s.readyq := h.congr rfl (fun _ => rfl) rfl rfl rfl rfl rfl
    have hr0 : RelW s0 A := ⟨hR.cd, hR.tb, hR.sc, hR.n, hR.defs⟩
    have e : loopPass s = batch k (drain s.readyq s0) := by
      unfold loopPass
      rw [hk, batch]
      rfl
    obtain ⟨m1, q1, r1⟩ := drain_MW s.readyq s0 A hm0 rfl hr0
    have hb := batch_idleW k (drain s.readyq s0) q1
    rw [e]
    exact ⟨hb.1.m m1, hb.2, r1.same hb.1⟩

/-! ## the main-context operations -/

theorem wakeAll_exact : ∀ (ts : List Nat) (s : State), ts.Nodup →
    (∀ t, t ∈ ts → t < s.n ∧ (s.R t).freed = false ∧ (s.R t).state = .suspend) →
    (wakeAll s ts).readyq = s.readyq ++ ts ∧ (wakeAll s ts).pend = s.pend + ts.length ∧
    (∀ i, (wakeAll s ts).R i = if i ∈ ts then { s.R i with state := .ready } else s.R i) ∧
    (wakeAll s ts).cd = s.cd ∧ (wakeAll s ts).bc = s.bc ∧ (wakeAll s ts).n = s.n ∧ (wakeAll s ts).defs = s.defs ∧
    (wakeAll s ts).aborted = s.aborted ∧ (wakeAll s ts).rdefs = s.rdefs ∧ (wakeAll s ts).fixed = s.fixed
  | [], s, _, _ => by simp [wakeAll]
  | t :: ts, s, hnd, h => by
      obtain ⟨h1, h2, h3⟩ := h t List.mem_cons_self
      have hal : alive s t = true := by
        simp only [alive, Bool.and_eq_true, decide_eq_true_eq, Bool.not_eq_true']
        exact ⟨h1, h2⟩
      let s1 : State := { s.setR t { s.R t with state := .ready } with readyq := s.readyq ++ [t], pend := s.pend + 1 }
      have hres : (resume s t).1 = s1 := by
        simp only [resume, hal, if_true, makeReady]
        rw [if_neg (by rw [h3]; simp)]
      have hnd' := List.nodup_cons.mp hnd
      have hR1 : ∀ i, i ≠ t → s1.R i = s.R i := fun i hi => by simp [s1, State.setR, State.R, hi]
      have hR1t : s1.R t = { s.R t with state := .ready } := by simp [s1, State.setR, State.R]
      have ih := wakeAll_exact ts s1 hnd'.2 (fun t' ht' => by
        have hne : t' ≠ t := fun e => hnd'.1 (e ▸ ht')
        rw [hR1 t' hne]
        exact h t' (List.mem_cons_of_mem _ ht'))
      simp only [wakeAll]
      rw [hres]
      obtain ⟨i1, i2, i3, i4, i5, i6, i7, i8, i9, i10⟩ := ih
      refine ⟨by rw [i1]; simp [s1], by rw [i2]; simp [s1]; omega, fun i => ?_, i4, i5, i6, i7, i8, i9, i10⟩
      rw [i3 i]
      by_cases hi : i ∈ ts
      · have hne : i ≠ t := fun e => hnd'.1 (e ▸ hi)
        simp [hi, hR1 i hne]
      · by_cases e : i = t
        · subst e; simp [hi, hR1t]
        · simp [hi, e, hR1 i e]

theorem idle_stepW {s s2 : State} {A : AbsW} {op : MainOp} (h : s.aborted = false) (hap : applyMain s op = s2)
    (h2 : MW s2 []) (hq2 : s2.readyq = []) (hR : RelW s2 A) :
    MW (step s op) [] ∧ (step s op).readyq = [] ∧ RelW (step s op) A := by
  have hst : step s op = loopPass s2 := by rw [← hap]; exact step_eq' h (by rw [hap]; exact h2.nab)
  have := loopPass_list (A := A) (s := s2) (by rw [hq2]; exact h2) (Or.inl hq2) hR
  rw [hst]
  have hl : runList s2.readyq (startC s2) A = A := by rw [hq2]; rfl
  rw [hl] at this
  exact this

theorem getD_wp {defs : List (Bool × List Op)} (h : ∀ p, p ∈ defs → p.1 = false ∧ p.2.all isWp = true) (d : Nat) :
    (defs.getD d (false, [])).1 = false ∧ (defs.getD d (false, [])).2.all isWp = true := by
  rw [List.getD_eq_getElem?_getD]
  cases hd : defs[d]? with
  | none => exact ⟨rfl, rfl⟩
  | some p => exact h p (List.mem_of_getElem? hd)

theorem new_stepW {s : State} {A : AbsW} {d : Nat} (h : MW s []) (hq : s.readyq = []) (hR : RelW s A)
    (hdf : ∀ p, p ∈ s.defs → p.1 = false ∧ p.2.all isWp = true) :
    MW (step s (.new d true)) [] ∧ (step s (.new d true)).readyq = [] ∧
    RelW (step s (.new d true)) (absStepW A (.new d true)) := by
  obtain ⟨g1, g2⟩ := getD_wp hdf d
  let s2 := create s d true
  have Ro : ∀ i, i ≠ s.n → s2.R i = s.R i := fun i hi => by
    simp [s2, create, makeReady, createCore, State.setR, State.R, hi]
  have f1 : (s2.R s.n).state = .ready := by simp [s2, create, makeReady, createCore, State.setR, State.R]
  have f2 : (s2.R s.n).freed = false := by simp [s2, create, makeReady, createCore, State.setR, State.R]
  have f3 : (s2.R s.n).inOp = false := by simp [s2, create, makeReady, createCore, State.setR, State.R]
  have f4 : (s2.R s.n).script = (s.defs.getD d (false, [])).2 := by
    simp [s2, create, makeReady, createCore, State.setR, State.R]
  have f5 : (s2.R s.n).canceled = false := by simp [s2, create, makeReady, createCore, State.setR, State.R]
  have f6 : (s2.R s.n).joiner = none := by simp [s2, create, makeReady, createCore, State.setR, State.R]
  have f7 : (s2.R s.n).raii = false := by simp [s2, create, makeReady, createCore, State.setR, State.R, h.rd]
  have g1' := g1
  simp only [List.getD_eq_getElem?_getD] at g1'
  have f8 : (s2.R s.n).xfail = false := by simp [s2, create, makeReady, createCore, State.setR, State.R, g1']
  have e1 : s2.readyq = [s.n] := by simp [s2, create, makeReady, createCore, State.setR, State.R, hq]
  have e2 : 1 ≤ s2.pend := by simp [s2, create, makeReady, createCore, State.setR, State.R]
  have e3 : s2.n = s.n + 1 := by simp [s2, create, makeReady, createCore, State.setR, State.R]
  have e4 : s2.cd = s.cd := by simp [s2, create, makeReady, createCore, State.setR, State.R]
  have e4b : tokB s2 = tokB s := by
    have : s2.bc = s.bc := by simp [s2, create, makeReady, createCore, State.setR, State.R]
    unfold tokB; rw [this]
  have e5 : s2.aborted = s.aborted := by simp [s2, create, makeReady, createCore, State.setR, State.R]
  have e6 : s2.defs = s.defs := by simp [s2, create, makeReady, createCore, State.setR, State.R]
  have e7 : s2.rdefs = s.rdefs := by simp [s2, create, makeReady, createCore, State.setR, State.R]
  have e8 : s2.fixed = s.fixed := by simp [s2, create, makeReady, createCore, State.setR, State.R]
  have M2 : MW s2 s2.readyq := by
    rw [e1]
    refine ⟨e5.trans h.nab, e8.trans h.fx, fun r => ?_, fun r hr hl => ?_, fun r hr => ?_, by simp, fun k t ht => ?_,
      fun b t ht => ?_, fun b => by rw [e4b]; exact h.ndb b, e7.trans h.rd⟩
    · by_cases hr : r = s.n
      · subst hr; exact ⟨f5, f6, f7, f8, by rw [f4]; exact g2⟩
      · rw [Ro r hr]; exact h.ok r
    · have hne : r ≠ s.n := by simpa using hl
      have hlt : r < s.n := by rw [e3] at hr; omega
      rcases h.set r hlt (by simp) with x | x
      · left; unfold SusW at *; rw [Ro r hne, e4, e4b]; exact x
      · right; unfold Ded at *; rw [Ro r hne]; exact x
    · have : r = s.n := by simpa using hr
      subst this
      exact ⟨by rw [e3]; omega, f1, f2, fun x => by rw [f3] at x; cases x⟩
    · rw [e4] at ht
      have h1 := h.tokc k t ht
      have hne : t ≠ s.n := by omega
      rw [Ro t hne, e3]; exact ⟨by omega, h1.2⟩
    · rw [e4b] at ht
      have h1 := h.tokb b t ht
      have hne : t ≠ s.n := by omega
      rw [Ro t hne, e3]; exact ⟨by omega, h1.2⟩
  have hst : step s (.new d true) = loopPass s2 := step_eq' h.nab (e5.trans h.nab)
  -- the order semantics with the new routine entered, before it runs
  let A2 : AbsW := { A with n := A.n + 1, sc := fun i => if i = A.n then (A.defs.getD d (false, [])).2 else A.sc i }
  have r2 : RelW s2 A2 := by
    refine ⟨e4.trans hR.cd, e4b.trans hR.tb, fun r hr => ?_, by rw [e3, hR.n], e6.trans hR.defs⟩
    rw [e3] at hr
    by_cases hlt : r < s.n
    · have hne : r ≠ s.n := by omega
      have hne' : r ≠ A.n := by rw [← hR.n]; exact hne
      rw [Ro r hne, hR.sc r hlt]; simp [A2, hne']
    · have : r = s.n := by omega
      subst this
      rw [f4, hR.defs]; simp [A2, hR.n]
  obtain ⟨m3, q3, r3⟩ := loopPass_list M2 (Or.inr e2) r2
  have hstart : startC s2 s.n = (A.defs.getD d (false, [])).2 := by
    unfold startC; rw [f3, f4, hR.defs]; simp
  rw [hst]
  refine ⟨m3, q3, ?_⟩
  rw [e1] at r3
  simp only [runList] at r3
  rw [hstart, hR.n] at r3
  refine r3.ext rfl rfl (fun i _ => ?_) rfl rfl
  show (if i = A.n then _ else (if i = A.n then _ else A.sc i)) = (if i = A.n then _ else A.sc i)
  by_cases e : i = A.n
  · rw [if_pos e, if_pos e]
  · rw [if_neg e, if_neg e, if_neg e]

theorem add_stepW {s : State} {A : AbsW} {k v : Nat} (h : MW s []) (hq : s.readyq = []) (hR : RelW s A) :
    MW (step s (.call (.cadd k v))) [] ∧ (step s (.call (.cadd k v))).readyq = [] ∧
    RelW (step s (.call (.cadd k v))) (absStepW A (.call (.cadd k v))) := by
  let s2 : State := logMain (s.setCd k { s.cd k with conds := condInsert (s.cd k).conds v }) (.cadd k v) .ok
  have hap : applyMain s (.call (.cadd k v)) = s2 := rfl
  refine idle_stepW h.nab hap (h.congr rfl (fun k' => ?_) rfl rfl rfl rfl rfl) hq ⟨?_, hR.tb, hR.sc, hR.n, hR.defs⟩
  · by_cases hk : k' = k
    · subst hk; simp [s2, logMain, State.setCd]
    · simp [s2, logMain, State.setCd, hk]
  · show updC s.cd k _ = updC A.T k _
    rw [← hR.cd]

theorem cpost_stepW {s : State} {A : AbsW} {k v : Nat} (h : MW s []) (hq : s.readyq = []) (hR : RelW s A) :
    MW (step s (.call (.cpost k v))) [] ∧ (step s (.call (.cpost k v))).readyq = [] ∧
    RelW (step s (.call (.cpost k v))) (absStepW A (.call (.cpost k v))) := by
  have hA : absStepW A (.call (.cpost k v)) = postCW A k v := rfl
  rw [hA]
  by_cases hv : v ∈ (s.cd k).conds
  · by_cases he : (if (s.cd k).all then (s.cd k).conds.erase v else []).isEmpty = true
    · cases htok : (s.cd k).tok with
      | none =>
          let s2 : State := logMain (s.setCd k { s.cd k with conds := [], tok := none }) (.cpost k v) .ok
          have hap : applyMain s (.call (.cpost k v)) = s2 := by
            simp only [applyMain, mainCall]
            rw [if_pos hv, if_pos he, htok]; rfl
          have hpc : postCW A k v = { A with T := updC A.T k { A.T k with conds := [], tok := none } } := by
            unfold postCW
            rw [← hR.cd, if_pos hv, if_pos he, htok]
          rw [hpc]
          refine idle_stepW h.nab hap (h.congr rfl (fun k' => ?_) rfl rfl rfl rfl rfl) hq
            ⟨?_, hR.tb, hR.sc, hR.n, hR.defs⟩
          · by_cases hk : k' = k
            · subst hk; simp [s2, logMain, State.setCd, htok]
            · simp [s2, logMain, State.setCd, hk]
          · rw [← hR.cd]; rfl
      | some r =>
          obtain ⟨hlt, hsus, hhead⟩ := h.tokc k r htok
          have hS : SusW s r := by
            rcases h.set r hlt (by simp) with x | x
            · exact x
            · rw [x.1] at hsus; cases hsus
          obtain ⟨_, hfr, hino, hshape⟩ := hS
          have hal : alive s r = true := by
            simp only [alive, Bool.and_eq_true, decide_eq_true_eq, Bool.not_eq_true']
            exact ⟨hlt, hfr⟩
          let s1 : State := { s.setR r { s.R r with state := .ready } with readyq := s.readyq ++ [r], pend := s.pend + 1 }
          have hres : resumeOpt s (some r) = s1 := by
            simp only [resumeOpt, resume, hal, if_true, makeReady]
            rw [if_neg (by rw [hsus]; simp)]
          let s2 : State := logMain (s1.setCd k { s.cd k with conds := [], tok := none }) (.cpost k v) .ok
          have hap : applyMain s (.call (.cpost k v)) = s2 := by
            simp only [applyMain, mainCall]
            rw [if_pos hv, if_pos he, htok, hres]
          have Ro : ∀ i, i ≠ r → s2.R i = s.R i := fun i hi => by
            simp [s2, s1, logMain, State.setCd, State.setR, State.R, hi]
          have Rr : s2.R r = { s.R r with state := .ready } := by
            simp [s2, s1, logMain, State.setCd, State.setR, State.R]
          have cdk : s2.cd = updC s.cd k { s.cd k with conds := [], tok := none } := rfl
          have tbk : tokB s2 = tokB s := rfl
          have q2 : s2.readyq = [r] := by simp [s2, s1, logMain, State.setCd, hq]
          have p2 : 1 ≤ s2.pend := by simp [s2, s1, logMain, State.setCd]
          have M2 : MW s2 s2.readyq := by
            rw [q2]
            refine ⟨h.nab, h.fx, fun i => ?_, fun i hi hl => ?_, fun i hi => ?_, by simp, fun k' t ht => ?_,
              fun b t ht => ?_, h.ndb, h.rd⟩
            · by_cases e : i = r
              · subst e; rw [Rr]; have := h.ok i; exact ⟨this.canc, this.joi, this.raii, this.xf, this.wp⟩
              · rw [Ro i e]; exact h.ok i
            · have e : i ≠ r := by simpa using hl
              rcases h.set i hi (by simp) with x | x
              · left
                obtain ⟨x1, x2, x3, x4⟩ := x
                unfold SusW; rw [Ro i e]
                refine ⟨x1, x2, x3, ?_⟩
                rcases x4 with ⟨k', rs', y1, y2⟩ | y
                · have hk : k' ≠ k := by
                    intro hk; subst hk
                    rw [htok] at y2
                    exact e (by simpa using y2.symm)
                  exact Or.inl ⟨k', rs', y1, by rw [cdk]; simp [updC, hk]; exact y2⟩
                · exact Or.inr y
              · right; unfold Ded at *; rw [Ro i e]; exact x
            · have : i = r := by simpa using hi
              subst this
              refine ⟨hlt, ?_⟩
              unfold RdyW; rw [Rr]
              refine ⟨rfl, hfr, fun _ => ?_⟩
              rcases hshape with ⟨k1, rs, y1, _⟩ | ⟨b1, rs, y1, _⟩
              · exact Or.inl ⟨k1, rs, y1⟩
              · exact Or.inr ⟨b1, rs, y1⟩
            · by_cases hk : k' = k
              · subst hk; rw [cdk] at ht; simp [updC] at ht
              · rw [cdk] at ht
                simp only [updC, hk, if_false] at ht
                have h1 := h.tokc k' t ht
                have e : t ≠ r := by
                  intro e; subst e
                  rw [hhead] at h1
                  have := h1.2.2
                  simp at this
                  exact hk this.symm
                rw [Ro t e]; exact h1
            · have h1 := h.tokb b t ht
              have e : t ≠ r := by
                intro e; subst e
                rw [hhead] at h1
                have := h1.2.2
                simp at this
              rw [Ro t e]; exact h1
          have hst : step s (.call (.cpost k v)) = loopPass s2 := by
            rw [← hap]; exact step_eq' h.nab (by rw [hap]; exact M2.nab)
          let A2 : AbsW := { A with T := updC A.T k { A.T k with conds := [], tok := none } }
          have r2 : RelW s2 A2 := by
            refine ⟨by rw [cdk, hR.cd], tbk.trans hR.tb, fun i hi => ?_, hR.n, hR.defs⟩
            by_cases e : i = r
            · subst e; rw [Rr]; exact hR.sc i hi
            · rw [Ro i e]; exact hR.sc i hi
          obtain ⟨m3, q3, r3⟩ := loopPass_list M2 (Or.inr p2) r2
          have hstart : startC s2 r = (A.sc r).tail := by
            unfold startC; rw [Rr]; simp only [hino, if_true]; rw [hR.sc r hlt]
          have hpc : postCW A k v = runOne A2 r (A.sc r).tail := by
            unfold postCW
            rw [← hR.cd, if_pos hv, if_pos he, htok]
            simp only [A2, ← hR.cd]
          rw [hst, hpc]
          rw [q2] at r3
          simp only [runList] at r3
          rw [hstart] at r3
          exact ⟨m3, q3, r3⟩
    · let s2 : State := logMain (s.setCd k { s.cd k with conds := if (s.cd k).all then (s.cd k).conds.erase v else [] })
        (.cpost k v) .ok
      have hap : applyMain s (.call (.cpost k v)) = s2 := by
        simp only [applyMain, mainCall]
        rw [if_pos hv, if_neg he]
      have hpc : postCW A k v =
          { A with T := updC A.T k { A.T k with conds := if (A.T k).all then (A.T k).conds.erase v else [] } } := by
        unfold postCW
        rw [← hR.cd, if_pos hv, if_neg he]
      rw [hpc]
      refine idle_stepW h.nab hap (h.congr rfl (fun k' => ?_) rfl rfl rfl rfl rfl) hq ⟨?_, hR.tb, hR.sc, hR.n, hR.defs⟩
      · by_cases hk : k' = k
        · subst hk; simp [s2, logMain, State.setCd]
        · simp [s2, logMain, State.setCd, hk]
      · rw [← hR.cd]; rfl
  · let s2 : State := logMain s (.cpost k v) .ok
    have hap : applyMain s (.call (.cpost k v)) = s2 := by
      simp only [applyMain, mainCall]
      rw [if_neg hv]
    have hpc : postCW A k v = A := by
      unfold postCW
      rw [← hR.cd, if_neg hv]
    rw [hpc]
    exact idle_stepW h.nab hap (h.congr rfl (fun _ => rfl) rfl rfl rfl rfl rfl) hq ⟨hR.cd, hR.tb, hR.sc, hR.n, hR.defs⟩

theorem nil_or_pos (l : List Nat) : l = [] ∨ 1 ≤ l.length := by
  cases l <;> simp

theorem script_of_head {l : List Op} {op : Op} (h : l.head? = some op) : ∃ rest, l = op :: rest := by
  cases l with
  | nil => cases h
  | cons a rest => simp at h; exact ⟨rest, by rw [h]⟩

theorem bpost_stepW {s : State} {A : AbsW} {b : Nat} (h : MW s []) (hq : s.readyq = []) (hR : RelW s A) :
    MW (step s (.call (.post b))) [] ∧ (step s (.call (.post b))).readyq = [] ∧
    RelW (step s (.call (.post b))) (absStepW A (.call (.post b))) := by
  have hA : absStepW A (.call (.post b)) = postBW A b := rfl
  rw [hA]
  have hts : ∀ t, t ∈ tokB s b → t < s.n ∧ (s.R t).freed = false ∧ (s.R t).state = .suspend := fun t ht => by
    obtain ⟨a, b', _⟩ := h.tokb b t ht
    rcases h.set t a (by simp) with x | x
    · exact ⟨a, x.2.1, b'⟩
    · rw [x.1] at b'; cases b'
  have hino : ∀ t, t ∈ tokB s b → (s.R t).inOp = true := fun t ht => by
    obtain ⟨a, b', _⟩ := h.tokb b t ht
    rcases h.set t a (by simp) with x | x
    · exact x.2.2.1
    · rw [x.1] at b'; cases b'
  obtain ⟨w1, w2, w3, w4, w5, w6, w7, w8, w9, w10⟩ := wakeAll_exact (tokB s b) s (h.ndb b) hts
  let s2 : State := logMain ((wakeAll s (tokB s b)).setBc b { tokens := [], epoch := (s.bc b).epoch + 1 }) (.post b) .ok
  have hap : applyMain s (.call (.post b)) = s2 := rfl
  have R2 : ∀ i, s2.R i = if i ∈ tokB s b then { s.R i with state := .ready } else s.R i := w3
  have cd2 : s2.cd = s.cd := w4
  have tb2 : ∀ b', tokB s2 b' = if b' = b then [] else tokB s b' := fun b' => by
    by_cases hb : b' = b
    · subst hb; simp [tokB, s2, logMain, State.setBc]
    · have e : s2.bc b' = s.bc b' := by
        have : s2.bc b' = (wakeAll s (tokB s b)).bc b' := by simp [s2, logMain, State.setBc, hb]
        rw [this, w5]
      rw [if_neg hb]
      show (s2.bc b').tokens = (s.bc b').tokens
      rw [e]
  have q2 : s2.readyq = tokB s b := by
    show (wakeAll s (tokB s b)).readyq = _
    rw [w1, hq]; rfl
  have n2 : s2.n = s.n := w6
  have p2 : s2.readyq = [] ∨ 1 ≤ s2.pend := by
    rcases nil_or_pos (tokB s b) with e | e
    · left; rw [q2]; exact e
    · right
      show 1 ≤ (wakeAll s (tokB s b)).pend
      rw [w2]; omega
  have nots : ∀ t op, (s.R t).script.head? = some op → op ≠ .bwait b → t < s.n → t ∉ tokB s b := by
    intro t op h1 h2 _ hm
    have := (h.tokb b t hm).2.2
    rw [h1] at this
    exact h2 (by simpa using this)
  have M2 : MW s2 s2.readyq := by
    rw [q2]
    refine ⟨w8.trans h.nab, w10.trans h.fx, fun i => ?_, fun i hi hl => ?_, fun i hi => ?_, h.ndb b, fun k t ht => ?_,
      fun b' t ht => ?_, fun b' => ?_, w9.trans h.rd⟩
    · rw [R2 i]
      have := h.ok i
      split
      · exact ⟨this.canc, this.joi, this.raii, this.xf, this.wp⟩
      · exact this
    · rw [n2] at hi
      have e : s2.R i = s.R i := by rw [R2 i, if_neg hl]
      rcases h.set i hi (by simp) with x | x
      · left
        obtain ⟨x1, x2, x3, x4⟩ := x
        unfold SusW; rw [e]
        refine ⟨x1, x2, x3, ?_⟩
        rcases x4 with ⟨k, rs, y1, y2⟩ | ⟨b', rs, y1, y2⟩
        · exact Or.inl ⟨k, rs, y1, by rw [cd2]; exact y2⟩
        · have hb : b' ≠ b := by
            intro hb; subst hb; exact hl y2
          exact Or.inr ⟨b', rs, y1, by rw [tb2 b', if_neg hb]; exact y2⟩
      · right; unfold Ded at *; rw [e]; exact x
    · obtain ⟨a1, a2, a3⟩ := hts i hi
      refine ⟨by rw [n2]; exact a1, ?_⟩
      unfold RdyW; rw [R2 i, if_pos hi]
      obtain ⟨rs, hrs⟩ := script_of_head (h.tokb b i hi).2.2
      exact ⟨rfl, a2, fun _ => Or.inr ⟨b, rs, hrs⟩⟩
    · rw [cd2] at ht
      have h1 := h.tokc k t ht
      have hn : t ∉ tokB s b := nots t _ h1.2.2 (fun e => by cases e) h1.1
      rw [R2 t, if_neg hn, n2]; exact h1
    · rw [tb2 b'] at ht
      by_cases hb : b' = b
      · rw [if_pos hb] at ht; cases ht
      · rw [if_neg hb] at ht
        have h1 := h.tokb b' t ht
        have hn : t ∉ tokB s b := nots t _ h1.2.2 (fun e => by injection e with e; exact hb e) h1.1
        rw [R2 t, if_neg hn, n2]; exact h1
    · rw [tb2 b']
      split
      · exact List.nodup_nil
      · exact h.ndb b'
  have hst : step s (.call (.post b)) = loopPass s2 := by
    rw [← hap]; exact step_eq' h.nab (by rw [hap]; exact M2.nab)
  let A2 : AbsW := { A with B := updB A.B b [] }
  have r2 : RelW s2 A2 := by
    refine ⟨cd2.trans hR.cd, ?_, fun i hi => ?_, n2.trans hR.n, (show s2.defs = s.defs from w7).trans hR.defs⟩
    · funext b'
      rw [tb2 b']
      show _ = updB A.B b [] b'
      unfold updB
      rw [← hR.tb]
    · rw [n2] at hi
      rw [R2 i]
      split
      · exact hR.sc i hi
      · exact hR.sc i hi
  obtain ⟨m3, q3, r3⟩ := loopPass_list M2 p2 r2
  rw [hst]
  refine ⟨m3, q3, ?_⟩
  have hc : runList s2.readyq (startC s2) A2 = postBW A b := by
    unfold postBW
    rw [q2, hR.tb]
    refine runList_congr _ _ _ _ (fun i hi => ?_)
    rw [← hR.tb] at hi
    have hlt := (hts i hi).1
    unfold startC
    rw [R2 i, if_pos hi]
    simp only [hino i hi, if_true]
    rw [hR.sc i hlt]
  rw [hc] at r3
  exact r3

/-! ## the theorem -/

theorem postCW_defs (A : AbsW) (k v : Nat) : (postCW A k v).defs = A.defs := by
  unfold postCW
  repeat' split
  all_goals rfl

theorem runList_defs : ∀ (l : List Nat) (st : Nat → List Op) (A : AbsW), (runList l st A).defs = A.defs
  | [], _, _ => rfl
  | r :: rs, st, A => by simp only [runList]; rw [runList_defs rs st _]; rfl

theorem run_absW : ∀ (ops : List MainOp) (s : State) (A : AbsW), MW s [] → s.readyq = [] → RelW s A →
    (∀ p, p ∈ s.defs → p.1 = false ∧ p.2.all isWp = true) → ops.all WMainOK = true →
    MW (run s ops) [] ∧ (run s ops).readyq = [] ∧ RelW (run s ops) (absRunW A ops)
  | [], s, A, h, hq, hR, _, _ => ⟨h, hq, hR⟩
  | op :: ops, s, A, h, hq, hR, hdf, hok => by
      simp only [List.all_cons, Bool.and_eq_true] at hok
      have hok1 := hok.1
      have hok2 := hok.2
      rw [run, absRunW]
      have next : (absStepW A op).defs = A.defs →
          (MW (step s op) [] ∧ (step s op).readyq = [] ∧ RelW (step s op) (absStepW A op)) →
          MW (run (step s op) ops) [] ∧ (run (step s op) ops).readyq = [] ∧
            RelW (run (step s op) ops) (absRunW (absStepW A op) ops) := by
        intro hop ⟨m1, q1, r1⟩
        refine run_absW ops _ _ m1 q1 r1 ?_ hok2
        rw [r1.defs, hop, ← hR.defs]; exact hdf
      cases op with
      | call o =>
          cases o <;> simp [WMainOK] at hok1
          case post b => exact next (runList_defs _ _ _) (bpost_stepW h hq hR)
          case cadd k v => exact next rfl (add_stepW h hq hR)
          case cpost k v => exact next (postCW_defs A k v) (cpost_stepW h hq hR)
      | define xf l =>
          cases xf <;> simp [WMainOK] at hok1
          let s1 : State := { s with defs := s.defs ++ [(false, l)] }
          have r1 : RelW s1 (absStepW A (.define false l)) :=
            ⟨hR.cd, hR.tb, hR.sc, hR.n, by show s.defs ++ [(false, l)] = A.defs ++ [(false, l)]; rw [hR.defs]⟩
          obtain ⟨m2, q2, r2⟩ := idle_stepW (op := .define false l) h.nab (rfl : _ = s1)
            (h.congr rfl (fun _ => rfl) rfl rfl rfl rfl rfl) hq r1
          refine run_absW ops _ _ m2 q2 r2 ?_ hok2
          rw [r2.defs]
          show ∀ p, p ∈ A.defs ++ [(false, l)] → _
          rw [← hR.defs]
          intro p hp
          rcases List.mem_append.mp hp with hp | hp
          · exact hdf p hp
          · rw [List.mem_singleton.mp hp]; exact ⟨rfl, by simpa using hok1⟩
      | new d now =>
          cases now <;> simp [WMainOK] at hok1
          exact next rfl (new_stepW h hq hR hdf)
      | pass =>
          exact next rfl (idle_stepW (op := .pass) (A := A) h.nab (rfl : _ = s) h hq hR)
      | defineR _ => simp [WMainOK] at hok1
      | stack _ => simp [WMainOK] at hok1
      | resume _ => simp [WMainOK] at hok1
      | cancel _ => simp [WMainOK] at hok1
      | cleanup => simp [WMainOK] at hok1

theorem init_MW : MW init [] := by
  refine ⟨rfl, rfl, fun _ => ⟨rfl, rfl, rfl, rfl, rfl⟩, fun r hr => ?_, fun r hr => ?_, List.nodup_nil, fun k t ht => ?_,
    fun b t ht => ?_, fun b => List.nodup_nil, rfl⟩
  · exact absurd hr (Nat.not_lt_zero r)
  · cases hr
  · simp [init] at ht
  · cases ht

theorem init_RelW : RelW init absInitW := ⟨rfl, rfl, fun r hr => absurd hr (Nat.not_lt_zero r), rfl, rfl⟩

/-- For every program of the wait / post class the scheduler, `Broadcast` and `Condition` deliver exactly the ORDER
semantics: the run drains its ready queue; the condition objects, the waiter lists and the remaining scripts are those
of `absRunW`; and every routine has returned at the end IF AND ONLY IF the order predicate `AllServed` holds. -/
theorem C18_progress_waitpost_iff (ops : List MainOp) (h : WaitPostMainPosted ops = true) :
    (run init ops).readyq = [] ∧ (run init ops).cd = (absRunW absInitW ops).T ∧
    (∀ b, ((run init ops).bc b).tokens = (absRunW absInitW ops).B b) ∧
    (∀ r, r < (run init ops).n → ((run init ops).R r).script = (absRunW absInitW ops).sc r) ∧
    ((∀ r, r < (run init ops).n → ((run init ops).R r).state = .dead) ↔ AllServed ops = true) := by
  obtain ⟨m, q, rel⟩ := run_absW ops init absInitW init_MW rfl init_RelW (fun p hp => by cases hp) h
  refine ⟨q, rel.cd, fun b => congrFun rel.tb b, rel.sc, ?_⟩
  unfold AllServed
  unfold WaitPostMainPosted at h
  rw [h]
  simp only [Bool.true_and, allDoneW, List.all_eq_true, List.mem_range, List.isEmpty_iff, ← rel.n]
  constructor
  · intro hd r hr
    rcases m.set r hr (by simp) with x | x
    · have := hd r hr; rw [x.1] at this; cases this
    · rw [← rel.sc r hr]; exact x.2.2
  · intro hs r hr
    rcases m.set r hr (by simp) with x | x
    · obtain ⟨_, _, _, x4⟩ := x
      have := hs r hr
      rw [← rel.sc r hr] at this
      rcases x4 with ⟨k, rs, y, _⟩ | ⟨b, rs, y, _⟩ <;> (rw [y] at this; cases this)
    · exact x.1

/-- PROGRESS for the wait / post fragment under the ORDER hypothesis -/
theorem C18_progress_waitpost (ops : List MainOp) (h : AllServed ops = true) :
    (run init ops).readyq = [] ∧ ∀ r, r < (run init ops).n → ((run init ops).R r).state = .dead := by
  have h1 : WaitPostMainPosted ops = true := by
    unfold AllServed at h
    simp only [Bool.and_eq_true] at h
    exact h.1
  have := C18_progress_waitpost_iff ops h1
  exact ⟨this.1, this.2.2.2.2.mpr h⟩

/-! ## non-vacuity and the sharp edge -/

/-- two routines wait on broadcast 0 and then use the SHARED kAll condition 2: the first one woken takes the waiter slot,
the second one's `wait()` is refused; a third routine mixes a kAny condition and a broadcast -/
def progMix : List MainOp :=
  [.define false [.bwait 0, .cadd 2 1, .cwait 2, .bwait 1], .define false [.cadd 1 4, .cadd 1 5, .cwait 1, .bwait 0],
   .new 0 true, .new 0 true, .new 1 true, .call (.cpost 1 5), .call (.post 0), .call (.cpost 2 1), .pass,
   .call (.post 1)]

example : AllServed progMix = true ∧ (run init progMix).n = 3 := by decide

/-- the same with the two posts of the last phase swapped: `post 1` comes before routine 0 reaches its wait -/
theorem C18_progress_waitpost_order_counterexample :
    let ops : List MainOp :=
      [.define false [.bwait 0, .cadd 2 1, .cwait 2, .bwait 1], .new 0 true, .call (.post 0), .call (.post 1),
       .call (.cpost 2 1)]
    WaitPostMainPosted ops = true ∧ AllServed ops = false ∧ susp (run init ops) 0 (.bwait 1) := by decide

end Tbox.C18
