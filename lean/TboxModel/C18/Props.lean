/-
C18 — PROPERTY THEOREMS.  "Coroutine primitives: FIFO delivery, mutual exclusion, no lost wake-ups."

Every theorem quantifies over EVERY execution `run init ops` of the model of the repaired code
(patches/C18-01..05): any number of script definitions and routines, any scripts over
yield / wait / send / recv / lock / unlock / acquire / release / post / waitBroadcast /
condition add·wait·post / join / create / cancel / exit / throw / cleanup-inside-a-routine, and any
sequence of main-context operations (new / resume / cancel / cleanup / pass / a primitive or scheduler
member CALLED FROM THE MAIN CONTEXT, round 4), each followed by one loop pass.  A call that ends the
process (failed TBOX_ASSERT, std::terminate) sets `aborted`; `step` is the identity from then on.
The progress form of no-lost-wake-up is in Progress.lean (`C18_progress`), the C++ width of the
semaphore count in SemWidth.lean (`C18_semw_*`, patches/C18-06..07).
Round 5 (Props5.lean): Mutex::Locker scripts (`defineR`), the stack size of `create()` (`stack`, patches/C18-08), `resume`
inside a routine; Progress.lean: nested critical sections under a global lock order, acyclic joins; Compact.lean: scale.
The counterexample theorems are about `run initOrig …`, the model of the code as found.
-/
import TboxModel.C18.Trace
namespace Tbox.C18

/-- the invariant (Spec.lean: `InvS` structural, `InvL` trace-level) holds in every reachable state -/
theorem C18_reachable_inv (ops : List MainOp) : Inv (run init ops) ∧ (run init ops).tmp = [] :=
  run_inv ops init_inv rfl

/-- **FIFO, exactly once**: on every channel the values received so far followed by the values
still queued are exactly the values sent so far, in order — nothing lost, duplicated or reordered. -/
theorem C18_channel_fifo_once (ops : List MainOp) (c : Nat) :
    rcvdOf c (run init ops).log ++ ((run init ops).ch c).queue = sentOf c (run init ops).log ∧
    rcvdOf c (run init ops).log <+: sentOf c (run init ops).log := by
  have h := (C18_reachable_inv ops).1.L.fifo c
  exact ⟨h, ⟨_, h⟩⟩

/-- **mutual exclusion**: the routines whose `lock()` returned true and that have not unlocked
since (read off the trace) are at most one, and it is the recorded holder. -/
theorem C18_mutex_exclusive (ops : List MainOp) (m : Nat) :
    (ownersOf m (run init ops).log).length ≤ 1 ∧
    ownersOf m (run init ops).log = ((run init ops).mx m).hold.toList := by
  have h := (C18_reachable_inv ops).1.L.owners m
  refine ⟨?_, h⟩
  rw [h]; cases ((run init ops).mx m).hold <;> simp

/-- **semaphore bound**: successful acquisitions never exceed releases plus the initial count.
`init` is the constructor argument of `Semaphore(sch, k)`; no operation writes it (frame clause
`semInit` of the invariant), so the bound is about the real initial count `k` of semaphore `k`. -/
theorem C18_semaphore_bound (ops : List MainOp) (k : Nat) :
    acqOf k (run init ops).log ≤ k + relOf k (run init ops).log ∧
    acqOf k (run init ops).log + ((run init ops).sm k).count = k + relOf k (run init ops).log ∧
    ((run init ops).sm k).init = k := by
  have h := (C18_reachable_inv ops).1.L.semCount k
  have hi := (C18_reachable_inv ops).1.L.semInit k
  rw [hi] at h
  exact ⟨by omega, h, hi⟩

/-- **no lost wake-up**, at every moment (not only when the ready queue is empty): a routine
suspended in `>>` / `lock` / `acquire` implies that the channel is empty / the mutex is held /
the count is zero; a routine suspended in `Broadcast::wait` registered after the last post
(every waiter present at a post was resumed by it); a routine suspended in `Condition::wait`
is the registered waiter and at least one added key is still unposted; a routine suspended in `join` is the registered joiner of a live
target (or was cancelled by `cleanup()` and is about to be run). -/
theorem C18_no_lost_wakeup (ops : List MainOp) (r : Nat) :
    let s := run init ops
    (∀ c, susp s r (.recv c) → (s.ch c).queue = [] ∧ r ∈ (s.ch c).tokens) ∧
    (∀ m, susp s r (.lock m) → (s.mx m).hold ≠ none ∧ r ∈ (s.mx m).waiters) ∧
    (∀ k, susp s r (.acquire k) → (s.sm k).count = 0 ∧ r ∈ (s.sm k).tokens) ∧
    (∀ b, susp s r (.bwait b) → (s.R r).wepoch = (s.bc b).epoch ∧ r ∈ (s.bc b).tokens) ∧
    (∀ k, susp s r (.cwait k) → (s.cd k).tok = some r ∧ (s.cd k).conds ≠ []) := by
  intro s
  have h := (C18_reachable_inv ops).1.S
  refine ⟨fun c hs => ?_, fun m hs => ?_, fun k hs => ?_, fun b hs => ?_, fun k hs => h.cdReg r k hs⟩
  · have hr := h.chReg r c hs
    exact ⟨h.chAvail c (fun e => by rw [e] at hr; cases hr), hr⟩
  · have hr := h.mxReg r m hs
    exact ⟨h.mxAvail m (fun e => by rw [e] at hr; cases hr), hr⟩
  · have hr := h.smReg r k hs
    exact ⟨h.smAvail k (fun e => by rw [e] at hr; cases hr), hr⟩
  · exact ⟨(h.bcReg r b hs).2, (h.bcReg r b hs).1⟩

/-- the quiescent reading: when the scheduler has run out of ready routines no routine is in
state Ready (a ready routine is always queued), so every unfinished routine is suspended and
covered by `C18_no_lost_wakeup`: none of them waits on a free mutex, a positive semaphore or
a non-empty channel. -/
theorem C18_no_lost_wakeup_quiescent (ops : List MainOp) (hq : (run init ops).readyq = []) (r : Nat) :
    let s := run init ops
    (s.R r).state ≠ .ready ∧
    (∀ c, susp s r (.recv c) → (s.ch c).queue = []) ∧
    (∀ m, susp s r (.lock m) → (s.mx m).hold ≠ none) ∧
    (∀ k, susp s r (.acquire k) → (s.sm k).count = 0) := by
  intro s
  have h := C18_reachable_inv ops
  have nl := C18_no_lost_wakeup ops r
  refine ⟨fun hr => ?_, fun c hs => (nl.1 c hs).1, fun m hs => (nl.2.1 m hs).1, fun k hs => (nl.2.2.1 k hs).1⟩
  have := h.1.S.ready r hr
  rw [h.2, hq] at this
  cases this

/-- **cancel unblocks** (1): a cancelled routine never switches back to the main context again —
no operation of its script blocks, whatever the state of the primitives (so after `cancel r` or
`cleanup()` the routine runs to the end of its script the next time it is switched to). -/
theorem C18_cancel_unblocks (s : State) (me : Nat) (op : Op) (rest : List Op) (hc : (s.R me).canceled = true) :
    (execOp s me op rest).2 ≠ .block :=
  C18_cancel_unblocks' s me op rest hc

/-- the cabinet bookkeeping holds in every reachable state: every live routine sits in its own
cell, the free list names empty cells only (so `cleanup()`'s `foreach` visits every live routine) -/
theorem C18_reachable_cab (ops : List MainOp) : Cab (run init ops) :=
  run_cab ops init_cab init_inv rfl

/-- **cleanup terminates**: in every reachable state, for all scripts, ONE pass of the
`while (!routine_cabinet.empty()) foreach(switchToRoutine)` loop empties the cabinet — the loop
body runs at most once (the model's fuel of two passes is never exhausted: `stuck = false`). -/
theorem C18_cleanup_terminates (ops : List MainOp) :
    let s := run init ops
    cabinetEmpty (sweep (markAll s).cells.length 0 (markAll s)) = true ∧ (cleanup s).stuck = false :=
  ⟨(cleanup_one_sweep (C18_reachable_cab ops) (C18_reachable_inv ops).1).1,
   (cleanup_all_freed (C18_reachable_cab ops) (C18_reachable_inv ops).1).2.1⟩

/-- **cleanup leaves every routine dead**: when `cleanup()` returns, every routine ever created
has terminated and been deleted (unstarted ones deleted directly, started ones cancelled and run
to the end of their script), and the invariant still holds. -/
theorem C18_cleanup_all_dead (ops : List MainOp) (r : Nat) (hr : r < (cleanup (run init ops)).n) :
    ((cleanup (run init ops)).R r).freed = true ∧ ((cleanup (run init ops)).R r).state = .dead ∧
    Inv (cleanup (run init ops)) := by
  have hf := (cleanup_all_freed (C18_reachable_cab ops) (C18_reachable_inv ops).1).1 r hr
  have hi := cleanup_inv (C18_reachable_inv ops).1
  exact ⟨hf, hi.S.freedDead r hf, hi⟩

/-- **cleanup makes every pending blocking call fail** (global, trace level): in every reachable
state, every routine that is started and blocked in `>>` / `lock` / `acquire` / `Broadcast::wait` /
`Condition::wait` / `join` when `cleanup()` is called logs the failure of exactly that call, with
`isCanceled()` true, before `cleanup()` returns (`l1` = what the routines swept earlier logged),
and by `C18_cleanup_all_dead` it has terminated. -/
theorem C18_cleanup_fails_pending (ops : List MainOp) (r : Nat) (op : Op) (rest : List Op)
    (ha : alive (run init ops) r = true) (hst : ((run init ops).R r).started = true)
    (hi : ((run init ops).R r).inOp = true) (hs : ((run init ops).R r).script = op :: rest)
    (hb : blocking op = true) :
    ∃ l1 l2, (cleanup (run init ops)).log =
      (run init ops).log ++ l1 ++ { r := r, op := op, res := .fail, canc := true } :: l2 :=
  cleanup_fails_pending (C18_reachable_cab ops) (C18_reachable_inv ops).1 r op rest ha hst hi hs hb

/-- **posts before the wait count** (Condition bookkeeping is independent of a waiter being
registered): `post(v)` of a pending key consumes it — kAll: erases `v`, kAny: clears — whether or
not a routine is waiting yet, so a key posted before `wait()` is not asked for again.  Together
with the condition clause of `C18_no_lost_wakeup` (a routine suspended in `Condition::wait` is the
registered waiter AND some added key is still unposted) this covers every order of posts around
the wait: the post that consumes the last pending key finds the waiter registered and resumes it
(`execOp_S`, case `cpost`), an earlier one only shrinks the pending set. -/
theorem C18_condition_post_consumes (s : State) (me k v : Nat) (rest : List Op) (hv : v ∈ (s.cd k).conds) :
    ((execOp s me (.cpost k v) rest).1.cd k).conds = (if (s.cd k).all then (s.cd k).conds.erase v else []) := by
  simp only [execOp, hv, ite_true]
  cases hall : (s.cd k).all <;> simp only [ite_true, Bool.false_eq_true, ite_false, List.isEmpty_nil]
  · simp [finish, State.setR, State.setCd]
  · split
    · rename_i he
      have : (s.cd k).conds.erase v = [] := by simpa using he
      simp [finish, State.setR, State.setCd, this]
    · simp [finish, State.setR, State.setCd]

/-- **join**: a routine waiting in `join t` (and not cancelled) is the one registered joiner of a
target that has not finished; `switchToRoutine` resumes exactly that joiner when the target dies
(`leave_S`), so join returns once its target has finished. -/
theorem C18_join (ops : List MainOp) (r t : Nat) (hs : susp (run init ops) r (.join t)) :
    ((run init ops).R r).canceled = true ∨
    (((run init ops).R t).joiner = some r ∧ ((run init ops).R t).freed = false ∧ t < (run init ops).n) := by
  have := (C18_reachable_inv ops).1.S.joinReg r t hs
  exact this.symm

/-- a second `join` on the same target fails at once (at most one joiner) -/
theorem C18_join_single (s : State) (me t : Nat) (rest : List Op) (hi : (s.R me).inOp = false)
    (hc : (s.R me).canceled = false) (ha : alive s t = true) (hd : (s.R t).state ≠ .dead) (x : Nat)
    (hj : (s.R t).joiner = some x) :
    (execOp s me (.join t) rest).1.log = s.log ++ [{ r := me, op := .join t, res := .fail, canc := false }] := by
  simp only [State.R] at hi hc hd hj
  simp [execOp, hi, hc, ha, hd, hj, finish, State.R, State.setR]

/-- OBSERVATION (not a violation of the statement, reported): `join` on a target that has already
finished returns at once — but with FAILURE: a finished routine is freed from the cabinet
immediately, so `routine_cabinet.at(token)` is null and the `state == kDead → return true` branch
of `Scheduler::join` is dead code.  The statement only asks that join *returns* once the target
has finished; the result value is the code's documented-but-unreachable "success". -/
theorem C18_join_finished_returns_failure (s : State) (me t : Nat) (rest : List Op) (hi : (s.R me).inOp = false)
    (hc : (s.R me).canceled = false) (ht : (s.R t).freed = true) :
    (execOp s me (.join t) rest).2 ≠ .block ∧
    (execOp s me (.join t) rest).1.log = s.log ++ [{ r := me, op := .join t, res := .fail, canc := false }] := by
  have ha : alive s t = false := by simp [alive, ht]
  simp only [State.R] at hi hc
  simp [execOp, hi, hc, ha, finish, State.R, State.setR]
  split <;> simp

/-! ### the code as found (DESIGN §7 row 10): counterexamples on `initOrig` -/

instance (s : State) : Decidable (quiescent s) := by unfold quiescent; infer_instance

/-- two receivers wait; one routine sends twice in a row: only the first receiver is woken -/
def cexChannel : List MainOp :=
  [.define false [.recv 0], .define false [.send 0 1, .send 0 2], .new 0 true, .new 0 true, .pass, .new 1 true, .pass, .pass]

theorem C18_lost_wakeup_channel_counterexample :
    quiescent (run initOrig cexChannel) ∧ susp (run initOrig cexChannel) 1 (.recv 0) ∧
    ((run initOrig cexChannel).ch 0).queue = [2] := by decide

/-- two routines wait on a semaphore of count 0; two releases in a row wake only the first -/
def cexSemaphore : List MainOp :=
  [.define false [.acquire 0], .define false [.release 0, .release 0], .new 0 true, .new 0 true, .pass, .new 1 true, .pass, .pass]

theorem C18_lost_wakeup_semaphore_counterexample :
    quiescent (run initOrig cexSemaphore) ∧ susp (run initOrig cexSemaphore) 1 (.acquire 0) ∧
    ((run initOrig cexSemaphore).sm 0).count = 1 := by decide

/-- the holder unlocks and locks again before the woken waiter runs; the waiter waits again
without registering, the final unlock wakes nobody: suspended for ever on a free mutex -/
def cexMutex : List MainOp :=
  [.define false [.lock 0, .yield, .yield, .unlock 0, .lock 0, .yield, .yield, .unlock 0], .define false [.lock 0, .unlock 0],
   .new 0 true, .new 1 true, .pass, .pass, .pass, .pass, .pass, .pass]

theorem C18_lost_wakeup_mutex_counterexample :
    quiescent (run initOrig cexMutex) ∧ susp (run initOrig cexMutex) 1 (.lock 0) ∧
    ((run initOrig cexMutex).mx 0).hold = none ∧ ((run initOrig cexMutex).R 0).state = .dead := by decide

/-- a woken receiver finds its value taken by another routine and waits again without
registering; the next send wakes nobody -/
def cexRewait : List MainOp :=
  [.define false [.recv 0], .define false [.send 0 7, .recv 0], .define false [.send 0 8],
   .new 0 true, .pass, .new 1 true, .pass, .new 2 true, .pass, .pass]

theorem C18_lost_wakeup_rewait_counterexample :
    quiescent (run initOrig cexRewait) ∧ susp (run initOrig cexRewait) 0 (.recv 0) ∧
    ((run initOrig cexRewait).ch 0).queue = [8] := by decide

/-- (patches/C18-05) a waiter resumed by `post()` ran `conds_.clear()` after waking and wiped the
conditions a second routine had added and was already waiting on; that routine's own condition
is then posted and nobody is resumed: suspended for ever on a satisfied condition -/
def cexCondition : List MainOp :=
  [.define false [.cadd 0 1, .cwait 0], .define false [.cpost 0 1, .cadd 0 2, .cwait 0], .define false [.cpost 0 2],
   .new 0 true, .new 1 true, .pass, .new 2 true, .pass, .pass]

theorem C18_lost_wakeup_condition_counterexample :
    quiescent (run initOrig cexCondition) ∧ susp (run initOrig cexCondition) 1 (.cwait 0) ∧
    ((run initOrig cexCondition).cd 0).conds = [] ∧
    (run initOrig cexCondition).log.getLast? = some { r := 2, op := .cpost 0 2, res := .ok, canc := false } := by decide

/-! ### non-vacuity: the same scenarios on the repaired model end with everybody served -/

example : (run init cexChannel).log.map (fun e => (e.r, e.res)) =
    [(2, .ok), (2, .ok), (0, .val 1), (1, .val 2)] := by decide
example : ((run init cexMutex).R 1).state = .dead ∧ ((run init cexMutex).mx 0).hold = none := by decide
example : ((run init cexSemaphore).R 1).state = .dead ∧ ((run init cexRewait).R 0).state = .dead := by decide
/-- the seeded/C18-4 history on the repaired model: kAll condition {1,2}; 1 is posted BEFORE the
waiter reaches `wait()`, 2 after it has blocked: the waiter is resumed and finishes; and the
C18-05 scenario ends with the second waiter served -/
example : ((run init [.define false [.cadd 0 1, .cadd 0 2, .yield, .yield, .cwait 0], .define false [.cpost 0 1],
    .define false [.cpost 0 2], .new 0 true, .new 1 true, .pass, .new 2 true, .pass]).R 0).state = .dead := by decide
example : ((run init cexCondition).R 1).state = .dead := by decide
/-- a reachable state with two routines suspended in `recv` (hypotheses of `C18_no_lost_wakeup`) -/
example : susp (run init (cexChannel.take 5)) 0 (.recv 0) ∧ susp (run init (cexChannel.take 5)) 1 (.recv 0) ∧
    (run init (cexChannel.take 5)).readyq = [] := by decide
/-- hypotheses of `C18_cleanup_fails_pending`: two started routines blocked in `recv` -/
example : alive (run init (cexChannel.take 5)) 1 = true ∧ ((run init (cexChannel.take 5)).R 1).started = true ∧
    ((run init (cexChannel.take 5)).R 1).inOp = true ∧ ((run init (cexChannel.take 5)).R 1).script = [.recv 0] := by decide
/-- a reachable state with a routine suspended in `join` on a live target -/
example : susp (run init [.define false [.wait], .define false [.join 0], .new 0 true, .new 1 true, .pass]) 1 (.join 0) := by decide
/-- cancelled + blocked: hypotheses of `C18_cancel_fails` -/
example : let s := applyMain (run init (cexChannel.take 5)) (.cancel 0)
    (s.R 0).canceled = true ∧ (s.R 0).inOp = true := by decide


/-! ### round 4: calls from the main context, aborts (failed TBOX_ASSERT / std::terminate) -/

@[simp] theorem makeReady_aborted (s : State) (t) : (makeReady s t).1.aborted = s.aborted := by
  unfold makeReady; split <;> rfl
@[simp] theorem resume_aborted (s : State) (t) : (resume s t).1.aborted = s.aborted := by
  unfold resume; split <;> simp
@[simp] theorem wakeAll_aborted (s : State) (ts) : (wakeAll s ts).aborted = s.aborted := by
  induction ts generalizing s with
  | nil => rfl
  | cons t ts ih => simp [wakeAll, ih]
@[simp] theorem tag_aborted (s : State) (t) : (tag s t).aborted = s.aborted := rfl
@[simp] theorem tagIf_aborted (s : State) (b t) : (tagIf s b t).aborted = s.aborted := by
  unfold tagIf; split <;> rfl
@[simp] theorem wake_aborted (s : State) (ts e) : (wake s ts e).1.aborted = s.aborted := by
  unfold wake
  simp only []
  split
  · simp
  · split
    · split <;> simp
    · simp
@[simp] theorem resumeOpt_aborted (s : State) (t) : (resumeOpt s t).aborted = s.aborted := by
  cases t <;> simp [resumeOpt]
@[simp] theorem cancelR_aborted (s : State) (t) : (cancelR s t).1.aborted = s.aborted := by
  unfold cancelR; split <;> simp [State.setR]
@[simp] theorem create_aborted (s : State) (d now) : (create s d now).aborted = s.aborted := by
  unfold create; split <;> simp [createCore]
@[simp] theorem setR_aborted (s : State) (r x) : (s.setR r x).aborted = s.aborted := rfl
@[simp] theorem setCh_aborted (s : State) (r x) : (s.setCh r x).aborted = s.aborted := rfl
@[simp] theorem setMx_aborted (s : State) (r x) : (s.setMx r x).aborted = s.aborted := rfl
@[simp] theorem setSm_aborted (s : State) (r x) : (s.setSm r x).aborted = s.aborted := rfl
@[simp] theorem setBc_aborted (s : State) (r x) : (s.setBc r x).aborted = s.aborted := rfl
@[simp] theorem setCd_aborted (s : State) (r x) : (s.setCd r x).aborted = s.aborted := rfl
@[simp] theorem finish_aborted (s : State) (me op rest res) : (finish s me op rest res).1.aborted = s.aborted := rfl
@[simp] theorem blockIn_aborted (s : State) (me op rest) : (blockIn s me op rest).1.aborted = s.aborted := rfl
@[simp] theorem waitBlock_aborted (s : State) (me op rest) : (waitBlock s me op rest).1.aborted = s.aborted := by
  unfold waitBlock; split <;> simp
@[simp] theorem logMain_aborted (s : State) (op res) : (logMain s op res).aborted = s.aborted := rfl
@[simp] theorem abort_aborted (s : State) : (abort s).aborted = true := by
  unfold abort; split <;> simp_all

/-- **the routine-side interface is total**: inside a routine no member of the scheduler or of a
primitive ever aborts, in any state and for any argument (unknown / stale / own token, free or held
mutex, empty condition …) — except an exception that leaves the routine body and
`Scheduler::cleanup()`, which is reserved for the main context; those two always do. -/
theorem C18_routine_calls_never_abort (s : State) (me : Nat) (op : Op) (rest : List Op) :
    (execOp s me op rest).1.aborted = (s.aborted || decide (op = .throw ∨ op = .rcleanup)) := by
  cases op <;> simp only [execOp] <;> repeat' split
  all_goals simp

/-- which calls made from the MAIN context abort (decidable in the state): everything that reaches
`Scheduler::getToken/wait/yield/join` — the members reserved for routines start with
`TBOX_ASSERT(!isInMainRoutine())` — i.e. every call except send / release / post / Condition::add /
Condition::post, `>>` on a non-empty channel, `acquire` on a positive count and a refused `Condition::wait`. -/
def mainAborts (s : State) : Op → Bool
  | .send _ _ | .release _ | .post _ | .cadd _ _ | .cpost _ _ => false
  | .recv c => (s.ch c).queue.isEmpty
  | .acquire k => (s.sm k).count = 0
  | .cwait k => !((s.cd k).tok.isSome || (s.cd k).conds.isEmpty)
  | _ => true

theorem C18_main_call_aborts_iff (s : State) (op : Op) :
    (mainCall s op).aborted = (s.aborted || mainAborts s op) := by
  cases op <;> simp only [mainCall, mainAborts] <;> repeat' split
  all_goals first
    | (simp_all; done)
    | (cases ht : (s.cd _).tok <;> simp_all)

/-- a call from the main context that does not abort is logged once and leaves every routine's script alone -/
theorem C18_main_call_logged (s : State) (op : Op) (h : (mainCall s op).aborted = false) :
    ∃ X res, mainCall s op = logMain X op res ∧ X.log = s.log := by
  rw [C18_main_call_aborts_iff] at h
  cases op <;> simp only [mainCall, mainAborts, Bool.or_eq_false_iff] at h ⊢ <;> repeat' split
  all_goals first
    | (refine ⟨_, _, rfl, ?_⟩; simp; done)
    | simp_all

/-- **abort is final**: once the process has aborted nothing happens any more -/
theorem C18_abort_final (s : State) (ops : List MainOp) (h : s.aborted = true) : run s ops = s := by
  induction ops with
  | nil => rfl
  | cons op ops ih => simp [run, step, h, ih]

/-- the reachable-state theorems above quantify over main-context calls as well: a `send` made by the
main context (an event callback) while two routines wait wakes both, FIFO holds across contexts -/
example : (run init [.define false [.recv 0], .new 0 true, .new 0 true, .pass, .call (.send 0 5), .call (.send 0 6), .pass]).log.map
    (fun e => (e.r, e.res)) = [(mainR, .ok), (0, .val 5), (mainR, .ok), (1, .val 6)] := by decide
/-- `>>` on an empty channel, `lock`, `yield` from the main context abort; `>>` on a non-empty channel does not -/
example : (run init [.call (.recv 0)]).aborted = true ∧ (run init [.call (.lock 0)]).aborted = true ∧
    (run init [.call .yield]).aborted = true ∧ (run init [.call (.send 0 1), .call (.recv 0)]).aborted = false := by decide
/-- an exception leaving a routine body: the trace ends there (`abortAt`), the joiner never gets an answer -/
example : let s := run init [.define false [.yield, .throw, .send 0 1], .define false [.join 0], .new 0 true, .new 1 true, .pass, .pass, .pass]
    s.aborted = true ∧ s.abortAt = 1 := by decide
/-- OBSERVATION: a routine that returns while holding a mutex leaves it held for ever (`hold_token_` names a dead
routine; nothing resets it): later lockers stay suspended — on a mutex that is NOT free, so the statement is not
violated; `Mutex::Locker` is the documented remedy. -/
example : let s := run init [.define false [.lock 0], .define false [.lock 0], .new 0 true, .new 1 true, .pass, .pass, .pass]
    (s.R 0).state = .dead ∧ (s.mx 0).hold = some 0 ∧ susp s 1 (.lock 0) ∧ s.readyq = [] := by decide
/-- join on self: suspended until somebody resumes it by hand; then it returns success -/
example : let s := run init [.define false [.join 0], .new 0 true, .pass, .pass]
    susp s 0 (.join 0) ∧ ((run s [.resume 0]).R 0).state = .dead := by decide

end Tbox.C18
