/-
C18 — PROPERTY THEOREMS, round 5: `Mutex::Locker` (RAII scripts, `MainOp.defineR`), the stack-size argument of
`Scheduler::create` (`MainOp.stack`, patches/C18-08), `Scheduler::resume` called from inside a routine (`Op.resume`).

The reachable-state theorems of Props.lean (`C18_reachable_inv`, `C18_mutex_exclusive`, `C18_no_lost_wakeup`,
`C18_cleanup_*`, …) quantify over `run init ops` for EVERY list of main operations, hence also over programs with
Locker scripts, stack sizes and script-level resumes: the destructor of a Locker is logged as the `unlock` it is, so
`C18_mutex_exclusive` reads "lock() returned true and neither unlock() nor ~Locker() ran since".

DECISION on the stack size (goal 1 of the round): INSIDE the statement.  The statement quantifies over "every number of
routines and every routine script over … create …": `create` is a step of the scripts and of the main context, its
`stack_size` argument is a legal `size_t`, and with 0 (or a few bytes) `makecontext` writes below the `malloc`ed block
at creation time — before any user code runs on that stack — after which no clause of the statement means anything.
What stays OUTSIDE: a stack that is too small for the USER's entry function (the library cannot know its depth); the
clamp guarantees room for the library's own frames (`RoutineMainEntry` → `mainEntry` → `LogDbg`: a 2 KiB buffer +
`vsnprintf`), which is why the minimum is the documented default (8 KiB) and not MINSIGSTKSZ (2 KiB).
-/
import TboxModel.C18.Progress
namespace Tbox.C18

/-! ### stack size (patches/C18-08) -/

/-- the clamp of `Routine::Routine`: the allocated stack is never below `ROUTINE_STACK_MIN_SIZE`, requests at or above
it are served unchanged, and the clamp is the only change (`max`) -/
theorem C18_stack_clamped (req : Nat) :
    stackMin ≤ effStack true req ∧ (stackMin ≤ req → effStack true req = req) ∧ effStack true req = max req stackMin := by
  unfold effStack stackMin
  simp only [true_and]
  refine ⟨?_, ?_, ?_⟩
  · split <;> omega
  · intro h; split <;> omega
  · split <;> omega

/-- every `create()` of the repaired code allocates at least `stackMin` bytes — more than the first frame needs — and
never sets the `corrupt` flag, whatever `stack_size` was asked for (`createCore` is the only definition of the model that
writes `ss` and `corrupt`; `fixed = true` in every reachable state: `C18_reachable_inv`, clause `S.fixed`) -/
theorem C18_stack_create_safe (s : State) (d : Nat) (h : s.fixed = true) :
    (createCore s d).corrupt = s.corrupt ∧ stackMin ≤ ((createCore s d).R s.n).ss ∧
    frameMin ≤ ((createCore s d).R s.n).ss := by
  have h1 := (C18_stack_clamped s.stackReq).1
  have h2 : ¬ effStack true s.stackReq < frameMin := by unfold frameMin; unfold stackMin at h1; omega
  simp only [createCore, State.R, h, if_true, h2, decide_false, Bool.or_false, true_and]
  unfold frameMin stackMin at *
  omega

/-- the code as found: `create(entry, run_now, name, 0)` — a legal call — lets `makecontext` write below the block -/
theorem C18_stack_zero_corrupts_counterexample :
    (run initOrig [.stack 0, .define false [.yield], .new 0 true]).corrupt = true ∧
    (run init [.stack 0, .define false [.yield], .new 0 true]).corrupt = false ∧
    ((run init [.stack 0, .define false [.yield], .new 0 true]).R 0).ss = 8192 := by decide

/-! ### `Mutex::Locker` -/

theorem unlock_hold (s : State) (me m m' : Nat) (rest : List Op) :
    ((execOp s me (.unlock m) rest).1.mx m').hold =
      if m' = m ∧ (s.mx m).hold = some me then none else (s.mx m').hold := by
  simp only [execOp]
  split
  · rename_i hh
    have w := wake_wk s (s.mx m).waiters true
    show (((wake s (s.mx m).waiters true).1.setMx m { hold := none, waiters := (wake s (s.mx m).waiters true).2 }).mx m').hold = _
    by_cases e : m' = m
    · subst e; simp [State.setMx, hh]
    · simp only [State.setMx, e, if_false, false_and]; exact w.hold m'
  · rename_i hh
    simp [finish, State.setR, hh]

/-- **the question of the round**: `Locker`'s constructor ignores the result of `lock()`, so a routine that was cancelled
while it waited for the mutex enters the scope WITHOUT the mutex, and its `~Locker()` calls `unlock()` on a mutex that
ANOTHER routine holds.  `Mutex::unlock` starts with `if (!getToken().equal(hold_token_)) return`: such a destructor
changes no mutex, wakes nobody, readies nobody — it is only logged. -/
theorem C18_locker_dtor_foreign_noop (s : State) (me m : Nat) (rest : List Op) (h : (s.mx m).hold ≠ some me) :
    (execOp s me (.unlock m) rest).1.mx = s.mx ∧ (execOp s me (.unlock m) rest).1.readyq = s.readyq ∧
    (execOp s me (.unlock m) rest).1.log = s.log ++ [{ r := me, op := .unlock m, res := .ok, canc := (s.R me).canceled }] := by
  simp only [execOp, h, if_false]
  simp [finish, State.setR, State.R]

/-- a `Locker` constructed by a routine that is NOT cancelled owns the mutex when the constructor returns (then the
scope really is a critical section) -/
theorem C18_locker_holds_unless_cancelled (s s1 : State) (me m : Nat) (rest : List Op)
    (hc : (s.R me).canceled = false) (h : execOp s me (.lock m) rest = (s1, .next)) : (s1.mx m).hold = some me := by
  have hwb : ∀ X : State, (X.R me).canceled = false → (waitBlock X me (.lock m) rest).2 = .block := by
    intro X hX; simp [waitBlock, hX, blockIn]
  simp only [execOp, hc, Bool.false_eq_true, and_false, if_false] at h
  split at h
  · have := congrArg Prod.fst h
    simp only [finish] at this
    rw [← this]; simp [State.setR, State.setMx]
  · rename_i x hq
    by_cases hx : (!(s.R me).inOp) = true ∧ x = me
    · rw [if_pos hx] at h
      have := congrArg Prod.fst h
      simp only [finish] at this
      rw [← this]; simp [State.setR, hq, hx.2]
    · rw [if_neg hx] at h
      exfalso
      have h2 := congrArg Prod.snd h
      split at h2
      · rw [hwb _ (by simpa [tag, State.R] using hc)] at h2; cases h2
      · rw [hwb _ (by
            unfold tagIf; split <;> simpa [tag, State.setMx, State.R] using hc)] at h2
        cases h2

/-- leaving the scopes: after the destructors of the Lockers on `ms` have run, the routine owns none of those mutexes -/
theorem C18_locker_unwind_releases (me : Nat) (ms : List Nat) (s : State) :
    ∀ m, (m ∈ ms ∨ (s.mx m).hold ≠ some me) → ((unwindList me ms s).mx m).hold ≠ some me := by
  induction ms generalizing s with
  | nil =>
    intro m h
    rcases h with h | h
    · cases h
    · exact h
  | cons m0 ms ih =>
    intro m h
    refine ih _ m ?_
    by_cases hm : m ∈ ms
    · exact Or.inl hm
    · right
      rw [unlock_hold]
      split
      · simp
      · rename_i hn
        rcases h with h | h
        · simp only [List.mem_cons] at h
          rcases h with h | h
          · subst h; intro e; exact hn ⟨rfl, e⟩
          · exact absurd h hm
        · exact h

/-- RAII at work (round 4's OBSERVATION was: a routine that returns while holding a mutex keeps it for ever): the same
program with a Locker — the holder returns inside the scope, the waiter gets the mutex and finishes -/
theorem C18_locker_releases_on_return :
    let s := run init [.defineR [.lock 0, .yield, .exit, .unlock 0], .define false [.lock 0, .send 2 1], .new 0 true, .new 1 true,
                       .pass, .pass, .pass]
    (s.R 0).state = .dead ∧ (s.R 1).state = .dead ∧ (s.mx 0).hold = some 1 ∧
    s.log.map (fun e => (e.r, e.op)) = [(0, .lock 0), (0, .yield), (0, .unlock 0), (1, .lock 0), (1, .send 2 1)] := by decide

/-- the holder is cancelled while blocked INSIDE the critical section: its blocking call fails, the script runs on to
the end, the scope is left, the waiting routine is served -/
theorem C18_locker_cancel_inside_scope :
    let s := run init [.defineR [.lock 0, .recv 1, .send 2 1], .define false [.lock 0, .send 2 2, .unlock 0], .new 0 true, .new 1 true,
                       .pass, .cancel 0, .pass, .pass]
    (s.R 0).state = .dead ∧ (s.R 1).state = .dead ∧ (s.mx 0).hold = none ∧
    s.log.map (fun e => (e.r, e.op, e.res)) =
      [(0, .lock 0, .ok), (0, .recv 1, .fail), (0, .send 2 1, .ok), (0, .unlock 0, .ok), (1, .lock 0, .ok), (1, .send 2 2, .ok), (1, .unlock 0, .ok)] := by
  decide

/-- FINDING (recorded, not a violation of the statement — `hold_token_` still names one routine): "inside a Locker
scope" does NOT imply "owns the mutex".  Routine 1's constructor was waiting when routine 1 was cancelled: `lock()`
returned false, the constructor swallowed it, and routine 1 executes its critical section (`send 2 5`) while routine 0
still holds the mutex.  `Locker` offers no way to ask whether it locked. -/
theorem C18_locker_scope_not_exclusive_counterexample :
    let s := run init [.define false [.lock 0, .wait, .unlock 0], .defineR [.lock 0, .send 2 5, .yield, .unlock 0], .new 0 true, .new 1 true,
                       .pass, .cancel 1, .pass]
    -- routine 0 holds the mutex from its `lock` to the end (it never reaches its `unlock`) …
    (s.mx 0).hold = some 0 ∧ (s.R 0).state = .suspend ∧ ownersOf 0 (s.log.take 3) = [0] ∧
    -- … and routine 1 has run its whole scope meanwhile: constructor (lock failed), `send`, `yield`, destructor (no effect)
    s.log.map (fun e => (e.r, e.op, e.res)) =
      [(0, .lock 0, .ok), (1, .lock 0, .fail), (1, .send 2 5, .ok), (1, .yield, .ok), (1, .unlock 0, .ok)] := by
  decide

/-- `lock()` by the owner returns true without counting, so Lockers on the SAME mutex do not nest: the end of the inner
scope releases the mutex while the outer scope is still open (routine 1 gets it at once) -/
theorem C18_locker_same_mutex_not_recursive_counterexample :
    let s := run init [.defineR [.lock 0, .lock 0, .unlock 0, .wait, .unlock 0], .define false [.lock 0, .wait], .new 0 true, .new 1 true]
    (s.mx 0).hold = some 1 ∧ susp s 0 .wait ∧ (s.R 0).script = [.wait, .unlock 0] ∧ openLk [] ((s.R 0).orig.take (s.R 0).done) = [0] := by
  decide

/-! ### `Scheduler::resume` from inside a routine, state-derived arguments (lesson g) -/

/-- resume of the CURRENTLY RUNNING routine by itself succeeds (its state is Running, not Ready): it is queued, and its
next `wait()` is a spurious one — the routine is switched to again in the next pass.  A second resume is refused. -/
theorem C18_resume_self :
    let s := run init [.define false [.resume 0, .resume 0, .wait, .send 0 1, .wait], .new 0 true, .pass]
    s.log.map (fun e => (e.op, e.res)) = [(.resume 0, .ok), (.resume 0, .fail), (.wait, .ok), (.send 0 1, .ok)] ∧
    susp s 0 .wait ∧ (s.R 0).script = [.wait] := by decide

/-- cancel / resume / join of the token `create()` has just returned, before the new routine has run: `cancel` of a
routine that is already Ready answers false (nothing to make ready) but HAS set its cancel flag — the new routine's first
blocking call fails at once; `resume` starts a routine created with run_now = false; `join` waits for the cancelled one -/
theorem C18_act_on_fresh_token :
    let s := run init [.define false [.create 1 true, .cancel 1, .create 1 false, .resume 2, .join 1, .send 2 1], .define true [.recv 0, .send 2 2],
                       .new 0 true, .pass, .pass, .pass]
    (s.R 0).state = .dead ∧ (s.R 1).state = .dead ∧ susp s 2 (.recv 0) ∧
    s.log.map (fun e => (e.r, e.op, e.res)) =
      [(0, .create 1 true, .ok), (0, .cancel 1, .fail), (0, .create 1 false, .ok), (0, .resume 2, .ok),
       (1, .recv 0, .fail), (0, .join 1, .ok), (0, .send 2 1, .ok)] := by
  decide

/-! ### progress for Condition and Broadcast is NOT a counting property (goal 2 of the round)

`C18_progress` (Progress.lean) now covers nested critical sections under a global lock order and acyclic joins.  For
`Broadcast` and `Condition` no `Bool` predicate on the scripts alone can play the role of `Matched`: whether a waiter
is served depends on the ORDER of `post` and `wait` at run time (a post that comes first is — by the statement itself —
not a wake-up the waiter is owed: "every routine that was waiting … at the moment it was posted").  The two programs
below have as many posts as waits and end blocked, legitimately; the invariant form (`C18_no_lost_wakeup`: a suspended
broadcast waiter registered after the last post, a suspended condition waiter still has an unposted key) is the
statement's clause for them and holds for every program.
Round 6: for `Broadcast` the ORDER hypothesis is stated and proved exact in ProgressBC.lean (`C18_progress_broadcast`,
`C18_progress_broadcast_iff`: scripts of waits, posts from the main context, every wait matched in order by a post issued
after the create).
For `Condition` (kAll / kAny) the hypothesis is the order semantics of add / wait / post over the table of condition
objects with the scheduler abstracted away (ProgressCD.lean: `C18_progress_condition`, `C18_progress_condition_iff`; a post
before the WAIT counts, `C18_condition_post_consumes`; a post before the ADD is lost, counterexample below).
ProgressWP.lean: `Broadcast` and `Condition` MIXED in one program with shared objects (`C18_progress_waitpost_iff`: the model's
condition objects, waiter lists and remaining scripts ARE those of the order semantics; all Dead iff `AllServed`).
-- OPEN: one theorem that also contains the counting class of `Matched` (channels, semaphores, mutexes, joins), and posts
-- issued by ROUTINES rather than by the main context (a poster that does not yield posts back-to-back, so a waiter is
-- served at most once per poster run; with yields the number of schedule() tasks per pass enters: no longer static). -/

theorem C18_progress_broadcast_needs_order_counterexample :
    let s := run init [.define false [.post 0], .define false [.yield, .bwait 0], .new 0 true, .new 1 true, .pass, .pass]
    s.readyq = [] ∧ (s.R 0).state = .dead ∧ susp s 1 (.bwait 0) ∧ (s.bc 0).epoch = 1 ∧ (s.R 1).wepoch = 1 := by decide

theorem C18_progress_condition_needs_order_counterexample :
    let s := run init [.define false [.cpost 0 1], .define false [.yield, .cadd 0 1, .cwait 0], .new 0 true, .new 1 true, .pass, .pass]
    s.readyq = [] ∧ (s.R 0).state = .dead ∧ susp s 1 (.cwait 0) ∧ (s.cd 0).conds = [1] := by decide

end Tbox.C18
