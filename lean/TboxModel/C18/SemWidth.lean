/-
C18 — width and sign of `Semaphore::count_` (a C++ `int`, constructor argument `int init_num`).

The scheduler model (`Model.lean`) keeps the count as a natural number and builds semaphore `k` with
`init_num = k ≥ 0`; `C18_sem_count_small` (below) gives the range in which that is the C++ value.
This file models the arithmetic of ONE semaphore used by ONE routine at the C++ width, for every
`init_num` a caller can pass — negative values and INT_MAX included:

  `fixed = false`: the code as found — `acquire` waits while `count_ == 0`, `release` does `++count_`
                   (signed overflow at INT_MAX: undefined; the plain build wraps, modelled by `wrap`);
  `fixed = true` : after patches/C18-06 — `acquire` waits while `count_ <= 0`; `release` saturates at INT_MAX.

A blocked `acquire` of the only routine never returns (nobody is left to release): `blocked` is final.
Core Lean only (the driver imports this file).
-/
namespace Tbox.C18.SemW

def INT_MAX : Int := 2147483647
def INT_MIN : Int := -2147483648

/-- two's-complement result of an `int` operation whose mathematical value is `x` -/
def wrap (x : Int) : Int := (x + 2147483648) % 4294967296 - 2147483648

inductive SOp where
  | acq | rel
deriving DecidableEq, Repr

structure St where
  count   : Int
  acq     : Nat := 0          -- acquisitions granted
  rel     : Nat := 0          -- releases made
  blocked : Bool := false
deriving DecidableEq, Repr

def stepW (fixed : Bool) (s : St) : SOp → St
  | .acq =>
      if s.blocked then s
      else if (if fixed then decide (s.count ≤ 0) else decide (s.count = 0)) then { s with blocked := true }
      else { s with count := wrap (s.count - 1), acq := s.acq + 1 }
  | .rel =>
      if s.blocked then s
      else { s with count := (if fixed then (if s.count < INT_MAX then wrap (s.count + 1) else s.count) else wrap (s.count + 1)),
                    rel := s.rel + 1 }

def runW (fixed : Bool) (init : Int) (ops : List SOp) : St := ops.foldl (stepW fixed) { count := init }

/-- the invariant of the repaired arithmetic -/
structure Ok (init : Int) (s : St) : Prop where
  lo : INT_MIN ≤ s.count
  hi : s.count ≤ INT_MAX
  neg : s.count < 0 → s.acq = 0
  le : (s.acq : Int) + s.count ≤ init + s.rel
  exact : init + s.rel ≤ INT_MAX → (s.acq : Int) + s.count = init + s.rel

theorem wrap_id {x : Int} (h1 : INT_MIN ≤ x) (h2 : x ≤ INT_MAX) : wrap x = x := by
  simp only [wrap, INT_MIN, INT_MAX] at *; omega

theorem step_ok {init : Int} {s : St} (op : SOp) (h : Ok init s) : Ok init (stepW true s op) := by
  have h1 := h.lo; have h2 := h.hi; have h3 := h.neg; have h4 := h.le; have h5 := h.exact
  cases op with
  | acq =>
    simp only [stepW, ite_true]
    split
    · exact h
    · split
      · exact ⟨h1, h2, h3, h4, h5⟩
      · rename_i hc
        have hc' : 0 < s.count := by simpa using hc
        have e : wrap (s.count - 1) = s.count - 1 := wrap_id (by simp only [INT_MIN] at *; omega) (by simp only [INT_MAX] at *; omega)
        refine ⟨?_, ?_, ?_, ?_, ?_⟩ <;> simp only [e, INT_MIN, INT_MAX] at * <;> first | omega | (intro _; omega) | skip
        all_goals (intro hx; have := h5 hx; push_cast; omega)
  | rel =>
    simp only [stepW, ite_true]
    split
    · exact h
    · split
      · rename_i hc
        have e : wrap (s.count + 1) = s.count + 1 := wrap_id (by simp only [INT_MIN] at *; omega) (by simp only [INT_MAX] at *; omega)
        refine ⟨?_, ?_, ?_, ?_, ?_⟩ <;> simp only [e, INT_MIN, INT_MAX] at * <;> first | omega | (intro hx; have := h3 (by omega); omega) | skip
        all_goals first
          | (push_cast; omega)
          | (intro hx; have := h5 (by push_cast at hx; omega); push_cast; omega)
      · rename_i hc
        refine ⟨h1, h2, h3, ?_, ?_⟩ <;> simp only [INT_MIN, INT_MAX] at *
        · push_cast; omega
        · intro hx; push_cast at hx; omega

theorem run_ok (init : Int) (ops : List SOp) {s : St} (h : Ok init s) : Ok init (ops.foldl (stepW true) s) := by
  induction ops generalizing s with
  | nil => exact h
  | cons op ops ih => exact ih (step_ok op h)

theorem init_ok {init : Int} (h1 : INT_MIN ≤ init) (h2 : init ≤ INT_MAX) : Ok init { count := init } :=
  ⟨h1, h2, fun _ => rfl, by simp, fun _ => by simp⟩

/-- **semaphore bound at the C++ width** (repaired code): for EVERY `int` initial count — negative ones and
INT_MAX included — and every sequence of calls, the acquisitions granted never exceed releases plus the
initial count (nothing is granted while that sum is ≤ 0), and `count_` stays an `int` (no overflow). -/
theorem C18_semw_bound (init : Int) (h1 : INT_MIN ≤ init) (h2 : init ≤ INT_MAX) (ops : List SOp) :
    ((runW true init ops).acq : Int) ≤ max 0 (init + (runW true init ops).rel) ∧
    INT_MIN ≤ (runW true init ops).count ∧ (runW true init ops).count ≤ INT_MAX := by
  have h : Ok init (runW true init ops) := run_ok init ops (init_ok h1 h2)
  generalize runW true init ops = s at h
  have h3 := h.neg; have h4 := h.le
  refine ⟨?_, h.lo, h.hi⟩
  by_cases hc : s.count < 0
  · have := h3 hc; omega
  · omega

/-- **range in which the `int` equals the mathematical count**: as long as `init + releases ≤ INT_MAX`
no permit is lost — `acquisitions + count_ = init + releases` exactly; beyond it `release` saturates
(permits are dropped, never invented). -/
theorem C18_semw_exact (init : Int) (h1 : INT_MIN ≤ init) (h2 : init ≤ INT_MAX) (ops : List SOp)
    (hr : init + (runW true init ops).rel ≤ INT_MAX) :
    ((runW true init ops).acq : Int) + (runW true init ops).count = init + (runW true init ops).rel :=
  (run_ok init ops (init_ok h1 h2)).exact hr

/-- as found: `Semaphore(sch, -1)` grants at once (the test was `count_ == 0`): one acquisition, releases + initial = -1 -/
theorem C18_semw_negative_counterexample :
    (runW false (-1) [.acq]).acq = 1 ∧ (runW false (-1) [.acq]).blocked = false ∧
    (runW true (-1) [.acq]).acq = 0 ∧ (runW true (-1) [.acq]).blocked = true := by decide

/-- as found: one `release()` on `Semaphore(sch, INT_MAX)` overflows the `int` (undefined; wraps to INT_MIN in the plain build) -/
theorem C18_semw_overflow_counterexample :
    (runW false INT_MAX [.rel]).count = INT_MIN ∧ (runW true INT_MAX [.rel]).count = INT_MAX ∧
    (runW true INT_MAX [.rel, .acq]).acq = 1 := by decide

/-- non-vacuity: a negative initial count is paid off by releases first -/
example : (runW true (-2) [.rel, .rel, .acq]).blocked = true ∧ (runW true (-2) [.rel, .rel, .rel, .acq]).acq = 1 := by decide
example : INT_MIN ≤ (-2 : Int) ∧ (-2 : Int) ≤ INT_MAX ∧ (-2 : Int) + (runW true (-2) [.rel, .rel, .rel, .acq]).rel ≤ INT_MAX := by decide

end Tbox.C18.SemW
