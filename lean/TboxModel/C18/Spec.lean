/-
C18 — what the property speaks about, read off the model state and the global trace (`log`).
-/
import TboxModel.C18.Model
namespace Tbox.C18

/-- routine `r` switched back to the main context from inside `op` and nobody has made it
ready since: it is *suspended in* `op` -/
def susp (s : State) (r : Nat) (op : Op) : Prop :=
  (s.R r).state = .suspend ∧ (s.R r).inOp = true ∧ (s.R r).script.head? = some op

instance (s : State) (r : Nat) (op : Op) : Decidable (susp s r op) := by unfold susp; infer_instance

/-- values sent on channel `c`, in trace order -/
def sentOf (c : Nat) (log : List Ev) : List Nat :=
  log.filterMap fun e => match e.op with
    | .send c' v => if c' = c then some v else none
    | _ => none

/-- values received from channel `c`, in trace order -/
def rcvdOf (c : Nat) (log : List Ev) : List Nat :=
  log.filterMap fun e => match e.op, e.res with
    | .recv c', .val v => if c' = c then some v else none
    | _, _ => none

/-- effect of one trace event on the set of routines that own mutex `m` (got `lock() == true`
and have not called `unlock()` since) -/
def ownStep (m : Nat) (own : List Nat) (e : Ev) : List Nat :=
  match e.op, e.res with
  | .lock m', .ok => if m' = m then (if e.r ∈ own then own else own ++ [e.r]) else own
  | .unlock m', _ => if m' = m then own.filter (· ≠ e.r) else own
  | _, _ => own

def ownersOf (m : Nat) (log : List Ev) : List Nat := log.foldl (ownStep m) []

def isAcq (k : Nat) (e : Ev) : Bool := e.op = .acquire k ∧ e.res = .ok
def isRel (k : Nat) (e : Ev) : Bool := e.op = .release k
def acqOf (k : Nat) (log : List Ev) : Nat := log.countP (isAcq k)
def relOf (k : Nat) (log : List Ev) : Nat := log.countP (isRel k)

/-- the scheduler has run out of ready routines -/
def quiescent (s : State) : Prop := s.readyq = [] ∧ s.tmp = []

/-- the trace-level part of the invariant -/
structure InvL (s : State) : Prop where
  fifo : ∀ c, rcvdOf c s.log ++ (s.ch c).queue = sentOf c s.log
  owners : ∀ m, ownersOf m s.log = (s.mx m).hold.toList
  semCount : ∀ k, acqOf k s.log + (s.sm k).count = (s.sm k).init + relOf k s.log
  semInit : ∀ k, (s.sm k).init = k          -- the constructor argument `Semaphore(sch, k)` is never written

/-- the structural part: who is registered where, and that a registered waiter implies an
unavailable resource (code after patches/C18-01..03) -/
structure InvS (s : State) : Prop where
  fixed : s.fixed = true
  chAvail : ∀ c, (s.ch c).tokens ≠ [] → (s.ch c).queue = []
  chReg : ∀ r c, susp s r (.recv c) → r ∈ (s.ch c).tokens
  mxAvail : ∀ m, (s.mx m).waiters ≠ [] → (s.mx m).hold ≠ none
  mxReg : ∀ r m, susp s r (.lock m) → r ∈ (s.mx m).waiters
  smAvail : ∀ k, (s.sm k).tokens ≠ [] → (s.sm k).count = 0
  smReg : ∀ r k, susp s r (.acquire k) → r ∈ (s.sm k).tokens
  bcReg : ∀ r b, susp s r (.bwait b) → r ∈ (s.bc b).tokens ∧ (s.R r).wepoch = (s.bc b).epoch
  cdReg : ∀ r k, susp s r (.cwait k) → (s.cd k).tok = some r ∧ (s.cd k).conds ≠ []
  joinReg : ∀ r t, susp s r (.join t) →
      ((s.R t).joiner = some r ∧ (s.R t).freed = false ∧ t < s.n) ∨ (s.R r).canceled = true
  freedDead : ∀ r, (s.R r).freed = true → (s.R r).state = .dead
  inOpOk : ∀ r, (s.R r).inOp = true → (s.R r).started = true ∧ r < s.n
  outside : ∀ r, s.n ≤ r → (s.R r).state = .suspend
  ready : ∀ r, (s.R r).state = .ready → r ∈ s.tmp ++ s.readyq

structure Inv (s : State) : Prop where
  S : InvS s
  L : InvL s

end Tbox.C18
