/-
C18 — the invariant is preserved by every level of the scheduler: one operation, one switch
into a routine, one schedule() pass, one loop pass, cleanup(), every main-context step.
-/
import TboxModel.C18.MainCall
namespace Tbox.C18

theorem execOp_L {s : State} {me : Nat} (op : Op) (rest : List Op) (h : InvL s) (hS : InvS s) :
    InvL (execOp s me op rest).1 := by
  have hfix := hS.fixed
  cases op with
  | yield =>
    simp only [execOp]
    repeat' split
    all_goals first
      | exact finish_L_neutral _ _ _ _ h rfl
      | exact blockIn_L _ _ _ ((Woke.makeReady s me (by assumption)).invL h)
      | skip
    all_goals
      unfold makeReady; split
      · exact blockIn_L _ _ _ h
      · exact blockIn_L _ _ _ (h.of_eq rfl rfl rfl rfl)
  | wait =>
    simp only [execOp]
    repeat' split
    all_goals first
      | exact finish_L_neutral _ _ _ _ h rfl
      | exact blockIn_L _ _ _ (setR_L _ _ h)
  | send c v =>
    simp only [execOp]
    obtain ⟨s1, e1, w, _⟩ := wake_fixed (s.ch c).tokens (s.ch c).queue.isEmpty hS
    rw [e1]
    exact send_L me c v rest [] h w
  | recv c =>
    simp only [execOp]
    split
    · exact finish_L_neutral _ _ _ _ ((Woke.tag s _).invL h) rfl
    · split
      · rename_i v q hq; exact recv_L me c v q rest h hq
      · split
        · exact waitBlock_L _ _ _ ((Woke.tag s _).invL h) rfl
        · exact waitBlock_L _ _ _ ((Woke.tagIf _ _ _).invL (setCh_L c _ h rfl)) rfl
  | lock m =>
    simp only [execOp]
    split
    · exact finish_L_neutral _ _ _ _ ((Woke.tag s _).invL h) rfl
    · split
      · rename_i hq; exact lock_L me m rest _ h rfl (Or.inl hq)
      · rename_i hh hq
        split
        · rename_i hc; exact lock_same_L me m rest h (by rw [hq, hc.2])
        · split
          · exact waitBlock_L _ _ _ ((Woke.tag s _).invL h) rfl
          · exact waitBlock_L _ _ _ ((Woke.tagIf _ _ _).invL (setMx_L m _ h rfl)) rfl
  | unlock m =>
    simp only [execOp]
    split
    · rename_i hq
      obtain ⟨s1, e1, w, _⟩ := wake_fixed (s.mx m).waiters true hS
      rw [e1]
      exact unlock_L me m rest [] h w hq
    · rename_i hq; exact unlock_other_L me m rest h hq
  | acquire k =>
    simp only [execOp]
    split
    · exact finish_L_neutral _ _ _ _ ((Woke.tag s _).invL h) rfl
    · split
      · split
        · exact waitBlock_L _ _ _ ((Woke.tag s _).invL h) rfl
        · exact waitBlock_L _ _ _ ((Woke.tagIf _ _ _).invL (setSm_L k _ h rfl rfl)) rfl
      · rename_i hq; exact acquire_L me k rest h hq
  | release k =>
    simp only [execOp]
    obtain ⟨s1, e1, w, _⟩ := wake_fixed (s.sm k).tokens (decide ((s.sm k).count = 0)) hS
    rw [e1]
    exact release_L me k rest [] h w
  | post b =>
    simp only [execOp]
    exact finish_L_neutral _ _ _ _ (setBc_L _ _ ((Woke.wakeAll s _).invL h)) rfl
  | bwait b =>
    simp only [execOp]
    split
    · split <;> exact finish_L_neutral _ _ _ _ h rfl
    · exact waitBlock_L _ _ _ (setR_L _ _ (setBc_L _ _ h)) rfl
  | cadd k v =>
    simp only [execOp]
    exact finish_L_neutral _ _ _ _ (setCd_L _ _ h) rfl
  | cwait k =>
    simp only [execOp]
    repeat' split
    all_goals first
      | exact finish_L_neutral _ _ _ _ (setCd_L _ _ h) rfl
      | exact finish_L_neutral _ _ _ _ h rfl
      | exact blockIn_L _ _ _ (setR_L _ _ (setCd_L _ _ h))
  | cpost k v =>
    simp only [execOp]
    have w : Woke s (resumeOpt s (s.cd k).tok) := by
      cases (s.cd k).tok with
      | none => exact Woke.refl s
      | some t => exact Woke.resume s t
    repeat' split
    all_goals first
      | exact finish_L_neutral _ _ _ _ (setCd_L _ _ (w.invL h)) rfl
      | exact finish_L_neutral _ _ _ _ (setCd_L _ _ h) rfl
      | exact finish_L_neutral _ _ _ _ h rfl
  | join t =>
    simp only [execOp]
    repeat' split
    all_goals first
      | exact finish_L_neutral _ _ _ _ h rfl
      | exact blockIn_L _ _ _ (setR_L _ _ (setR_L _ _ h))
  | create d now =>
    simp only [execOp]
    split
    · exact finish_L_neutral _ _ _ _ h rfl
    · exact finish_L_neutral _ _ _ _ (create_L d now h) rfl
  | cancel t =>
    simp only [execOp]
    split <;> exact finish_L_neutral _ _ _ _ (cancelR_L t h) rfl
  | resume t =>
    simp only [execOp]
    split <;> exact finish_L_neutral _ _ _ _ ((Woke.resume s t).invL h) rfl
  | exit =>
    simp only [execOp]; exact h
  | throw =>
    simp only [execOp]; exact (Woke.abort s).invL h
  | rcleanup =>
    simp only [execOp]; exact (Woke.abort s).invL h

theorem execOp_inv {s : State} {me : Nat} (op : Op) (rest : List Op) (h : Inv s) (hr : Run s me) :
    Inv (execOp s me op rest).1 ∧ ((execOp s me op rest).2 ≠ .block → Run (execOp s me op rest).1 me) :=
  ⟨⟨(execOp_S op rest h.S hr).1, execOp_L op rest h.L h.S⟩, (execOp_S op rest h.S hr).2⟩

theorem die_inv {s : State} {me : Nat} (h : Inv s) (hr : Run s me) : Inv (die s me) :=
  ⟨die_S h.S hr, setR_L _ _ h.L⟩

/-- `Mutex::unlock` never switches out and never fails -/
theorem unlock_ctl (s : State) (me m : Nat) (rest : List Op) : (execOp s me (.unlock m) rest).2 = .next := by
  simp only [execOp]
  split <;> simp [finish]

/-- leaving the `Mutex::Locker` scopes of a RAII script (each destructor is one `unlock`) keeps the invariant -/
theorem unwindList_inv (me : Nat) (ms : List Nat) {s : State} (h : Inv s) (hr : Run s me) :
    Inv (unwindList me ms s) ∧ Run (unwindList me ms s) me := by
  induction ms generalizing s with
  | nil => exact ⟨h, hr⟩
  | cons m ms ih =>
    have key := execOp_inv (me := me) (.unlock m) [] h hr
    exact ih key.1 (key.2 (by rw [unlock_ctl]; simp))

theorem unwind_inv {s : State} {me : Nat} (h : Inv s) (hr : Run s me) : Inv (unwind s me) ∧ Run (unwind s me) me := by
  unfold unwind
  split
  · exact unwindList_inv me _ h hr
  · exact ⟨h, hr⟩

theorem fin_inv {s : State} {me : Nat} (h : Inv s) (hr : Run s me) : Inv (fin s me) :=
  die_inv (unwind_inv h hr).1 (unwind_inv h hr).2

theorem runOps_inv (me : Nat) (ops : List Op) {s : State} (h : Inv s) (hr : Run s me) : Inv (runOps me ops s) := by
  induction ops generalizing s with
  | nil => exact fin_inv h hr
  | cons op rest ih =>
    have key := execOp_inv (me := me) op rest h hr
    simp only [runOps]
    split
    · rename_i s1 e; rw [e] at key; exact ih key.1 (key.2 (by simp))
    · rename_i s1 e; rw [e] at key; exact key.1
    · rename_i s1 e; rw [e] at key; exact fin_inv key.1 (key.2 (by simp))

/-- the scheduler marks the routine running -/
theorem enter_S {s : State} {r : Nat} (h : InvS s) (ha : alive s r = true) (rest : List Nat)
    (hq : ∀ x, x ∈ s.tmp ++ s.readyq → x = r ∨ x ∈ rest ++ s.readyq) :
    InvS ({ s with tmp := rest }.setR r { s.R r with state := .running, started := true }) ∧
    Run ({ s with tmp := rest }.setR r { s.R r with state := .running, started := true }) r := by
  simp only [alive, Bool.and_eq_true, decide_eq_true_eq, Bool.not_eq_true'] at ha
  have ha1 := ha.1; have ha2 := ha.2
  refine ⟨?_, ?_⟩
  · constructor
    · exact h.fixed
    · exact h.chAvail
    · intro x c hs; have := h.chReg x c; crunch
    · exact h.mxAvail
    · intro x c hs; have := h.mxReg x c; crunch
    · exact h.smAvail
    · intro x c hs; have := h.smReg x c; crunch
    · intro x c hs; have := h.bcReg x c; crunch
    · intro x c hs; have := h.cdReg x c; crunch
    · intro x t hs; have := h.joinReg x t; crunch
    · intro x hf; have := h.freedDead x; crunch
    · intro x hf; have := h.inOpOk x; crunch
    · intro x hf; have := h.outside x; crunch
    · intro x hf
      have h1 := h.ready x
      have h2 := hq x
      simp only [State.R, State.setR] at hf h1 ⊢
      by_cases e : x = r
      · subst e; simp at hf
      · simp only [e, ite_false] at hf
        rcases h2 (h1 hf) with h3 | h3
        · exact absurd h3 e
        · exact h3
  · constructor <;> crunch

/-- `cabinet.free`, then `resume(join_token)` -/
theorem leave_S {s : State} {r : Nat} (h : InvS s) (hlt : r < s.n) (hd : (s.R r).state = .dead) :
    InvS (resumeOpt (freeRoutine s r) (freeRoutine s r |>.R r).joiner) := by
  have hj : (freeRoutine s r |>.R r).joiner = (s.R r).joiner := by simp [freeRoutine, State.R, State.setR]
  rw [hj]
  cases hjn : (s.R r).joiner with
  | none =>
    simp only [resumeOpt]
    constructor
    · exact h.fixed
    · exact h.chAvail
    · intro x c hs; have := h.chReg x c; crunch
    · exact h.mxAvail
    · intro x c hs; have := h.mxReg x c; crunch
    · exact h.smAvail
    · intro x c hs; have := h.smReg x c; crunch
    · intro x c hs; have := h.bcReg x c; crunch
    · intro x c hs; have := h.cdReg x c; crunch
    · intro x t hs; have := h.joinReg x t; crunch
    · intro x hf; have := h.freedDead x; crunch
    · intro x hf; have := h.inOpOk x; crunch
    · intro x hf; have := h.outside x; crunch
    · intro x hf; have := h.ready x; crunch
  | some j =>
    simp only [resumeOpt]
    have w := Woke.resume (freeRoutine s r) j
    have F := w.fields
    constructor
    · rw [w.fixed]; exact h.fixed
    · rw [w.ch]; exact h.chAvail
    · intro x c hs; have hs' := w.susp hs; rw [w.ch]; have := h.chReg x c; crunch
    · rw [w.mx]; exact h.mxAvail
    · intro x c hs; have hs' := w.susp hs; rw [w.mx]; have := h.mxReg x c; crunch
    · rw [w.sm]; exact h.smAvail
    · intro x c hs; have hs' := w.susp hs; rw [w.sm]; have := h.smReg x c; crunch
    · intro x c hs; have hs' := w.susp hs; rw [w.bc, (F x).2.2.2.2.2.2.1]; have := h.bcReg x c; crunch
    · intro x c hs; have hs' := w.susp hs; rw [w.cd]; have := h.cdReg x c; crunch
    · intro x t hs
      have hs' := w.susp hs
      rw [(F t).2.2.2.1, (F t).2.2.2.2.1, (F x).2.2.1, w.n]
      have h1 := h.joinReg x t
      by_cases e : t = r
      · subst e
        -- the only routine registered as joiner of `t` is `j`, and it has just been resumed
        have hx : susp s x (.join t) := by
          simp only [susp, freeRoutine, State.R, State.setR] at hs' ⊢; grind
        rcases h1 hx with ⟨e1, _, _⟩ | hc
        · rw [hjn] at e1
          cases e1
          exfalso
          have hal : alive (freeRoutine s t) j = true := by
            have := susp_alive h hx
            simp only [susp, alive, freeRoutine, State.R, State.setR] at this hx hd ⊢
            grind
          exact resume_wakes _ j hal hs.1
        · right; simp only [freeRoutine, State.R, State.setR] at hc ⊢; grind
      · have hx : susp s x (.join t) := by
          simp only [susp, freeRoutine, State.R, State.setR] at hs' ⊢; grind
        have := h1 hx
        simp only [freeRoutine, State.R, State.setR] at this ⊢; grind
    · intro x hf
      rw [(F x).2.2.2.2.1] at hf
      have h1 := h.freedDead x
      rcases w.state_cases x with e | ⟨_, _, d⟩
      · rw [e]; simp only [freeRoutine, State.R, State.setR] at hf h1 ⊢; grind
      · exfalso; apply d; simp only [freeRoutine, State.R, State.setR] at hf h1 ⊢; grind
    · intro x hi; rw [(F x).2.1] at hi; rw [(F x).2.2.2.2.2.1, w.n]; have := h.inOpOk x; crunch
    · intro x hx
      rw [w.n] at hx
      rcases w.rt x with e | ⟨_, _, _, l⟩
      · rw [e]; have := h.outside x; crunch
      · simp only [freeRoutine] at l hx; omega
    · intro x hx
      rw [w.tmp]
      rcases w.state_cases x with e | ⟨_, q, _⟩
      · rw [e] at hx
        have h1 := h.ready x
        have h2 := w.rq x
        simp only [freeRoutine, State.R, State.setR, List.mem_append] at hx h1 h2 ⊢
        grind
      · simp [q]

theorem leave_L {s : State} {r : Nat} (h : InvL s) :
    InvL (resumeOpt (freeRoutine s r) (freeRoutine s r |>.R r).joiner) := by
  have h1 : InvL (freeRoutine s r) := h.of_eq rfl rfl rfl rfl
  cases (freeRoutine s r |>.R r).joiner with
  | none => exact h1
  | some j => exact (Woke.resume _ _).invL h1

/-- body of `switchToRoutine` after the routine was marked running -/
theorem switchTo_inv {s : State} {r : Nat} (s0 : State)
    (h0 : Inv (s0.setR r { s0.R r with state := .running, started := true }))
    (hr : Run (s0.setR r { s0.R r with state := .running, started := true }) r)
    (e : s = s0) : Inv (switchTo s r) := by
  subst e
  unfold switchTo
  simp only []
  have h2 := runOps_inv r ((s.setR r { s.R r with state := .running, started := true }).R r).script h0 hr
  split
  · rename_i hd
    have hlt : r < (runOps r ((s.setR r { s.R r with state := .running, started := true }).R r).script
        (s.setR r { s.R r with state := .running, started := true })).n := by
      have := h2.S.outside r
      by_cases hc : r < (runOps r ((s.setR r { s.R r with state := .running, started := true }).R r).script
        (s.setR r { s.R r with state := .running, started := true })).n
      · exact hc
      · have := this (by omega); rw [hd] at this; cases this
    exact ⟨leave_S h2.S hlt hd, leave_L h2.L⟩
  · exact h2

@[simp] theorem finish_tmp (s : State) (me op rest res) : (finish s me op rest res).1.tmp = s.tmp := rfl
@[simp] theorem blockIn_tmp (s : State) (me op rest) : (blockIn s me op rest).1.tmp = s.tmp := rfl
@[simp] theorem waitBlock_tmp (s : State) (me op rest) : (waitBlock s me op rest).1.tmp = s.tmp := by
  unfold waitBlock; split <;> rfl
@[simp] theorem resume_tmp (s : State) (t) : (resume s t).1.tmp = s.tmp := (Woke.resume s t).tmp
@[simp] theorem makeReady_tmp (s : State) (t) : (makeReady s t).1.tmp = s.tmp := by
  unfold makeReady; split <;> rfl
@[simp] theorem wakeAll_tmp (s : State) (ts) : (wakeAll s ts).tmp = s.tmp := (Woke.wakeAll s ts).tmp
@[simp] theorem tag_tmp (s : State) (t) : (tag s t).tmp = s.tmp := rfl
@[simp] theorem tagIf_tmp (s : State) (b t) : (tagIf s b t).tmp = s.tmp := (Woke.tagIf s b t).tmp
@[simp] theorem wake_tmp (s : State) (ts e) : (wake s ts e).1.tmp = s.tmp := by
  unfold wake
  simp only []
  split
  · simp
  · split
    · split <;> simp
    · simp
@[simp] theorem resumeOpt_tmp (s : State) (t) : (resumeOpt s t).tmp = s.tmp := by
  cases t <;> simp [resumeOpt]
@[simp] theorem cancelR_tmp (s : State) (t) : (cancelR s t).1.tmp = s.tmp := by
  unfold cancelR; split <;> simp [State.setR]
@[simp] theorem create_tmp (s : State) (d now) : (create s d now).tmp = s.tmp := by
  unfold create; split <;> simp [createCore]
@[simp] theorem setR_tmp (s : State) (r x) : (s.setR r x).tmp = s.tmp := rfl
@[simp] theorem setCh_tmp (s : State) (r x) : (s.setCh r x).tmp = s.tmp := rfl
@[simp] theorem setMx_tmp (s : State) (r x) : (s.setMx r x).tmp = s.tmp := rfl
@[simp] theorem setSm_tmp (s : State) (r x) : (s.setSm r x).tmp = s.tmp := rfl
@[simp] theorem setBc_tmp (s : State) (r x) : (s.setBc r x).tmp = s.tmp := rfl
@[simp] theorem setCd_tmp (s : State) (r x) : (s.setCd r x).tmp = s.tmp := rfl

@[simp] theorem abort_tmp' (s : State) : (abort s).tmp = s.tmp := abort_tmp s
@[simp] theorem logMain_tmp (s : State) (op res) : (logMain s op res).tmp = s.tmp := rfl

theorem execOp_tmp (s : State) (me : Nat) (op : Op) (rest : List Op) : (execOp s me op rest).1.tmp = s.tmp := by
  cases op <;> simp only [execOp] <;> repeat' split
  all_goals simp

theorem mainCall_tmp (s : State) (op : Op) : (mainCall s op).tmp = s.tmp := by
  cases op <;> simp only [mainCall] <;> repeat' split
  all_goals simp


theorem unwindList_tmp (me : Nat) (ms : List Nat) (s : State) : (unwindList me ms s).tmp = s.tmp := by
  induction ms generalizing s with
  | nil => rfl
  | cons m ms ih => simp only [unwindList]; rw [ih, execOp_tmp]

theorem fin_tmp (s : State) (me : Nat) : (fin s me).tmp = s.tmp := by
  show (unwind s me).tmp = s.tmp
  unfold unwind
  split
  · exact unwindList_tmp _ _ _
  · rfl

theorem runOps_tmp (me : Nat) (ops : List Op) (s : State) : (runOps me ops s).tmp = s.tmp := by
  induction ops generalizing s with
  | nil => exact fin_tmp s me
  | cons op rest ih =>
    have key := execOp_tmp s me op rest
    simp only [runOps]
    split
    · rename_i s1 e; rw [e] at key; rw [ih, key]
    · rename_i s1 e; rw [e] at key; exact key
    · rename_i s1 e; rw [e] at key; rw [fin_tmp]; exact key

theorem switchTo_tmp (s : State) (r : Nat) : (switchTo s r).tmp = s.tmp := by
  unfold switchTo
  simp only []
  split
  · simp [freeRoutine, runOps_tmp]
  · simp [runOps_tmp]

theorem drain_inv (q : List Nat) {s : State} (h : Inv s) (ht : s.tmp = q) : Inv (drain q s) := by
  induction q generalizing s with
  | nil => exact h
  | cons t rest ih =>
    simp only [drain]
    apply ih
    · split
      · rename_i ha
        have ha' : alive s t = true := ha
        have key := enter_S (r := t) h.S ha' rest (by
          intro x hx; rw [ht] at hx
          simp only [List.mem_append, List.mem_cons] at hx ⊢; grind)
        have hL : InvL ({ s with tmp := rest }.setR t { s.R t with state := .running, started := true }) :=
          h.L.of_eq rfl rfl rfl rfl
        exact switchTo_inv { s with tmp := rest } ⟨key.1, hL⟩ key.2 rfl
      · rename_i ha
        have ha' : ¬ alive s t = true := ha
        refine ⟨?_, h.L.of_eq rfl rfl rfl rfl⟩
        have hS := h.S
        constructor
        · exact hS.fixed
        · exact hS.chAvail
        · exact hS.chReg
        · exact hS.mxAvail
        · exact hS.mxReg
        · exact hS.smAvail
        · exact hS.smReg
        · exact hS.bcReg
        · exact hS.cdReg
        · exact hS.joinReg
        · exact hS.freedDead
        · exact hS.inOpOk
        · exact hS.outside
        · intro x hx
          have h1 := hS.ready x hx
          rw [ht] at h1
          have h2 := hS.freedDead x
          have h3 := hS.outside x
          simp only [alive, Bool.and_eq_true, decide_eq_true_eq, Bool.not_eq_true'] at ha'
          simp only [List.mem_append, List.mem_cons] at h1 ⊢
          have hx' : (s.R x).state = .ready := hx
          rcases h1 with (e | h1) | h1
          · subst e
            exfalso
            by_cases hlt : x < s.n
            · cases hf : (s.R x).freed
              · exact ha' ⟨hlt, hf⟩
              · rw [h2 hf] at hx'; cases hx'
            · rw [h3 (by omega)] at hx'; cases hx'
          · exact Or.inl h1
          · exact Or.inr h1
    · split
      · rw [switchTo_tmp]
      · rfl


theorem schedule_inv {s : State} (h : Inv s) (ht : s.tmp = []) : Inv (schedule s) := by
  unfold schedule
  refine drain_inv s.readyq (s := { s with readyq := [], tmp := s.readyq }) ?_ rfl
  refine ⟨?_, h.L.of_eq rfl rfl rfl rfl⟩
  have hS := h.S
  constructor
  · exact hS.fixed
  · exact hS.chAvail
  · exact hS.chReg
  · exact hS.mxAvail
  · exact hS.mxReg
  · exact hS.smAvail
  · exact hS.smReg
  · exact hS.bcReg
  · exact hS.cdReg
  · exact hS.joinReg
  · exact hS.freedDead
  · exact hS.inOpOk
  · exact hS.outside
  · intro x hx
    have := hS.ready x hx
    rw [ht] at this
    simpa using this

theorem drain_tmp (q : List Nat) (s : State) : (drain q s).tmp = (if q = [] then s.tmp else []) := by
  induction q generalizing s with
  | nil => rfl
  | cons t rest ih =>
    simp only [drain]
    rw [ih]
    split
    · rename_i e; subst e
      split
      · rw [switchTo_tmp]; simp
      · simp
    · simp

theorem schedule_tmp (s : State) : (schedule s).tmp = [] := by
  unfold schedule
  rw [drain_tmp]
  split
  · rename_i e; simp [e]
  · rfl

theorem batch_inv (k : Nat) {s : State} (h : Inv s) (ht : s.tmp = []) : Inv (batch k s) ∧ (batch k s).tmp = [] := by
  induction k generalizing s with
  | zero => exact ⟨h, ht⟩
  | succ k ih => exact ih (schedule_inv h ht) (schedule_tmp s)

theorem Inv.of_pend {s : State} (h : Inv s) (p : Nat) : Inv { s with pend := p } := by
  refine ⟨?_, h.L.of_eq rfl rfl rfl rfl⟩
  have hS := h.S
  exact ⟨hS.fixed, hS.chAvail, hS.chReg, hS.mxAvail, hS.mxReg, hS.smAvail, hS.smReg, hS.bcReg, hS.cdReg, hS.joinReg,
    hS.freedDead, hS.inOpOk, hS.outside, hS.ready⟩

theorem loopPass_inv {s : State} (h : Inv s) (ht : s.tmp = []) : Inv (loopPass s) ∧ (loopPass s).tmp = [] :=
  batch_inv s.pend (h.of_pend 0) ht

theorem markAll_inv {s : State} (h : Inv s) : Inv (markAll s) := by
  refine ⟨?_, h.L.of_eq rfl rfl rfl rfl⟩
  have hS := h.S
  constructor
  · exact hS.fixed
  · exact hS.chAvail
  · intro x c hs; have := hS.chReg x c; crunch
  · exact hS.mxAvail
  · intro x c hs; have := hS.mxReg x c; crunch
  · exact hS.smAvail
  · intro x c hs; have := hS.smReg x c; crunch
  · intro x c hs; have := hS.bcReg x c; crunch
  · intro x c hs; have := hS.cdReg x c; crunch
  · intro x t hs
    have h1 := hS.inOpOk x; have h2 := hS.freedDead x
    right
    crunch
  · intro x hf; have := hS.freedDead x; crunch
  · intro x hf; have := hS.inOpOk x; crunch
  · intro x hf; have := hS.outside x; crunch
  · intro x hf; have := hS.ready x; crunch

/-- `switchToRoutine` called directly by `cleanup()` (the ready queues are left alone) -/
theorem switchTo_inv' {s : State} {r : Nat} (h : Inv s) (ha : alive s r = true) : Inv (switchTo s r) := by
  have key := enter_S (r := r) h.S ha s.tmp (fun x hx => Or.inr hx)
  have e : ({ s with tmp := s.tmp } : State) = s := rfl
  rw [e] at key
  exact switchTo_inv s ⟨key.1, h.L.of_eq rfl rfl rfl rfl⟩ key.2 rfl

theorem sweep_inv (k p : Nat) {s : State} (h : Inv s) : Inv (sweep k p s) := by
  induction k generalizing s p with
  | zero => exact h
  | succ k ih =>
    simp only [sweep]
    split
    · split
      · rename_i ha; exact ih _ (switchTo_inv' h ha)
      · exact ih _ h
    · exact ih _ h

theorem Inv.of_misc {s : State} (h : Inv s) (st ic : Bool) (cs : List (Option Nat)) (fr : List Nat) :
    Inv { s with stuck := st, inCleanup := ic, cells := cs, free := fr } := by
  refine ⟨?_, h.L.of_eq rfl rfl rfl rfl⟩
  have hS := h.S
  exact ⟨hS.fixed, hS.chAvail, hS.chReg, hS.mxAvail, hS.mxReg, hS.smAvail, hS.smReg, hS.bcReg, hS.cdReg, hS.joinReg,
    hS.freedDead, hS.inOpOk, hS.outside, hS.ready⟩

theorem sweepLoop_inv (f : Nat) {s : State} (h : Inv s) : Inv (sweepLoop f s) := by
  induction f generalizing s with
  | zero => exact h.of_misc _ s.inCleanup s.cells s.free
  | succ f ih =>
    simp only [sweepLoop]
    split
    · exact h
    · exact ih (sweep_inv _ _ h)

theorem cleanup_inv {s : State} (h : Inv s) : Inv (cleanup s) := by
  unfold cleanup
  exact (sweepLoop_inv 2 (markAll_inv h)).of_misc _ false [] []

theorem sweep_tmp (k p : Nat) (s : State) : (sweep k p s).tmp = s.tmp := by
  induction k generalizing s p with
  | zero => rfl
  | succ k ih =>
    simp only [sweep]
    split
    · split
      · rw [ih, switchTo_tmp]
      · rw [ih]
    · rw [ih]

theorem sweepLoop_tmp (f : Nat) (s : State) : (sweepLoop f s).tmp = s.tmp := by
  induction f generalizing s with
  | zero => rfl
  | succ f ih =>
    simp only [sweepLoop]
    split
    · rfl
    · rw [ih, sweep_tmp]

theorem cleanup_tmp (s : State) : (cleanup s).tmp = s.tmp := by
  unfold cleanup
  simp only [sweepLoop_tmp, markAll]

theorem applyMain_inv {s : State} (op : MainOp) (h : Inv s) : Inv (applyMain s op) ∧ (applyMain s op).tmp = s.tmp := by
  cases op with
  | call op => exact ⟨⟨mainCall_S op h.S, mainCall_L op h.L h.S⟩, mainCall_tmp s op⟩
  | define xf ops =>
    refine ⟨⟨?_, h.L.of_eq rfl rfl rfl rfl⟩, rfl⟩
    have hS := h.S
    exact ⟨hS.fixed, hS.chAvail, hS.chReg, hS.mxAvail, hS.mxReg, hS.smAvail, hS.smReg, hS.bcReg, hS.cdReg, hS.joinReg,
      hS.freedDead, hS.inOpOk, hS.outside, hS.ready⟩
  | defineR ops =>
    refine ⟨⟨?_, h.L.of_eq rfl rfl rfl rfl⟩, rfl⟩
    have hS := h.S
    exact ⟨hS.fixed, hS.chAvail, hS.chReg, hS.mxAvail, hS.mxReg, hS.smAvail, hS.smReg, hS.bcReg, hS.cdReg, hS.joinReg,
      hS.freedDead, hS.inOpOk, hS.outside, hS.ready⟩
  | stack b =>
    refine ⟨⟨?_, h.L.of_eq rfl rfl rfl rfl⟩, rfl⟩
    have hS := h.S
    exact ⟨hS.fixed, hS.chAvail, hS.chReg, hS.mxAvail, hS.mxReg, hS.smAvail, hS.smReg, hS.bcReg, hS.cdReg, hS.joinReg,
      hS.freedDead, hS.inOpOk, hS.outside, hS.ready⟩
  | new d now => exact ⟨⟨create_S d now h.S, create_L d now h.L⟩, create_tmp s d now⟩
  | resume r => exact ⟨⟨(Woke.resume s r).invS h.S, (Woke.resume s r).invL h.L⟩, resume_tmp s r⟩
  | cancel r => exact ⟨⟨cancelR_S r h.S, cancelR_L r h.L⟩, cancelR_tmp s r⟩
  | cleanup => exact ⟨cleanup_inv h, cleanup_tmp s⟩
  | pass => exact ⟨h, rfl⟩

theorem step_inv {s : State} (op : MainOp) (h : Inv s) (ht : s.tmp = []) : Inv (step s op) ∧ (step s op).tmp = [] := by
  have h1 := applyMain_inv op h
  unfold step
  split
  · exact ⟨h, ht⟩
  · simp only []
    split
    · exact ⟨h1.1, h1.2.trans ht⟩
    · exact loopPass_inv h1.1 (h1.2.trans ht)

theorem run_inv (ops : List MainOp) {s : State} (h : Inv s) (ht : s.tmp = []) : Inv (run s ops) ∧ (run s ops).tmp = [] := by
  induction ops generalizing s with
  | nil => exact ⟨h, ht⟩
  | cons op ops ih =>
    have := step_inv op h ht
    exact ih this.1 this.2

theorem init_inv : Inv init := by
  refine ⟨?_, ?_⟩
  · constructor <;> simp [init, susp, State.R]
  · constructor <;> simp [init, sentOf, rcvdOf, ownersOf, acqOf, relOf]

end Tbox.C18
