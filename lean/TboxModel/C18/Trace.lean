/-
C18 — `cleanup()` at trace level: every routine that is blocked in a blocking call when
`cleanup()` starts logs the failure of exactly that call before `cleanup()` returns.
`KeepO me` is the frame relation "only routine `me` had its script position changed".
-/
import TboxModel.C18.Cleanup
namespace Tbox.C18

structure KeepO (me : Nat) (s s' : State) : Prop where
  keep : ∀ x, x ≠ me → (s'.R x).script = (s.R x).script ∧ (s'.R x).inOp = (s.R x).inOp

theorem KeepO.refl (me : Nat) (s : State) : KeepO me s s := ⟨fun _ _ => ⟨rfl, rfl⟩⟩
theorem KeepO.trans {me : Nat} {a b c : State} (h1 : KeepO me a b) (h2 : KeepO me b c) : KeepO me a c :=
  ⟨fun x hx => ⟨(h2.keep x hx).1.trans (h1.keep x hx).1, (h2.keep x hx).2.trans (h1.keep x hx).2⟩⟩
theorem Woke.keepO {s s' : State} (w : Woke s s') (me : Nat) : KeepO me s s' :=
  ⟨fun x _ => ⟨(w.fields x).1, (w.fields x).2.1⟩⟩
theorem KeepO.of_rts {me : Nat} {s X X' : State} (h : KeepO me s X) (e : X'.rts = X.rts) : KeepO me s X' :=
  ⟨fun x hx => by have := h.keep x hx; simp only [State.R, e] at this ⊢; exact this⟩

theorem KeepO.setR {me : Nat} {s X : State} (h : KeepO me s X) (r : Nat) (x : Routine)
    (hx : r = me ∨ (x.script = (X.R r).script ∧ x.inOp = (X.R r).inOp)) : KeepO me s (X.setR r x) := by
  refine ⟨fun i hi => ?_⟩
  have := h.keep i hi
  simp only [State.R, State.setR] at this hx ⊢
  split
  · rename_i e; subst e
    rcases hx with hx | hx
    · exact absurd hx hi
    · rw [hx.1, hx.2]; exact this
  · exact this

theorem KeepO.setCh {me : Nat} {s X : State} (h : KeepO me s X) (c : Nat) (x : Chan) : KeepO me s (X.setCh c x) := h.of_rts rfl
theorem KeepO.setMx {me : Nat} {s X : State} (h : KeepO me s X) (c : Nat) (x : Mutex) : KeepO me s (X.setMx c x) := h.of_rts rfl
theorem KeepO.setSm {me : Nat} {s X : State} (h : KeepO me s X) (c : Nat) (x : Sem) : KeepO me s (X.setSm c x) := h.of_rts rfl
theorem KeepO.setBc {me : Nat} {s X : State} (h : KeepO me s X) (c : Nat) (x : Bcast) : KeepO me s (X.setBc c x) := h.of_rts rfl
theorem KeepO.setCd {me : Nat} {s X : State} (h : KeepO me s X) (c : Nat) (x : Cond) : KeepO me s (X.setCd c x) := h.of_rts rfl
theorem KeepO.tag {me : Nat} {s X : State} (h : KeepO me s X) (t : String) : KeepO me s (tag X t) := h.of_rts rfl
theorem KeepO.tagIf {me : Nat} {s X : State} (h : KeepO me s X) (b : Bool) (t : String) : KeepO me s (tagIf X b t) :=
  h.trans ((Woke.tagIf X b t).keepO me)
theorem KeepO.wakeAll {me : Nat} {s X : State} (h : KeepO me s X) (ts : List Nat) : KeepO me s (wakeAll X ts) :=
  h.trans ((Woke.wakeAll X ts).keepO me)
theorem KeepO.resume {me : Nat} {s X : State} (h : KeepO me s X) (t : Nat) : KeepO me s (resume X t).1 :=
  h.trans ((Woke.resume X t).keepO me)
theorem KeepO.resumeOpt {me : Nat} {s X : State} (h : KeepO me s X) (t : Option Nat) : KeepO me s (resumeOpt X t) := by
  cases t with
  | none => exact h
  | some t => exact h.resume t

theorem KeepO.makeReady {me : Nat} {s X : State} (h : KeepO me s X) (t : Nat) : KeepO me s (makeReady X t).1 := by
  unfold Tbox.C18.makeReady
  split
  · exact h
  · refine ⟨fun i hi => ?_⟩
    have := h.keep i hi
    simp only [State.R, State.setR] at this ⊢
    split
    · rename_i e; subst e; exact this
    · exact this

theorem KeepO.wake {me : Nat} {s X : State} (h : KeepO me s X) (ts : List Nat) (e : Bool) : KeepO me s (wake X ts e).1 := by
  unfold Tbox.C18.wake
  simp only []
  split
  · exact ((h.tagIf _ _).tagIf _ _).wakeAll ts
  · split
    · split
      · exact ((h.tagIf _ _).tagIf _ _).resume _
      · dsimp only; exact (h.tagIf _ _).tagIf _ _
    · dsimp only; exact (h.tagIf _ _).tagIf _ _

theorem KeepO.finish {me : Nat} {s X : State} (h : KeepO me s X) (op : Op) (rest : List Op) (res : Res) :
    KeepO me s (finish X me op rest res).1 := by
  refine ⟨fun i hi => ?_⟩
  have := h.keep i hi
  simp only [Tbox.C18.finish, State.R, State.setR, hi, ite_false] at this ⊢
  exact this

theorem KeepO.blockIn {me : Nat} {s X : State} (h : KeepO me s X) (op : Op) (rest : List Op) :
    KeepO me s (blockIn X me op rest).1 := by
  unfold Tbox.C18.blockIn
  exact h.setR me _ (Or.inl rfl)

theorem KeepO.waitBlock {me : Nat} {s X : State} (h : KeepO me s X) (op : Op) (rest : List Op) :
    KeepO me s (waitBlock X me op rest).1 := by
  unfold Tbox.C18.waitBlock
  split
  · exact h.finish _ _ _
  · exact (h.setR me { X.R me with state := .suspend } (Or.inl rfl)).blockIn _ _

theorem KeepO.cancelR {me : Nat} {s X : State} (h : KeepO me s X) (t : Nat) : KeepO me s (cancelR X t).1 := by
  unfold Tbox.C18.cancelR
  split
  · exact (h.setR t { X.R t with canceled := true } (Or.inr ⟨rfl, rfl⟩)).makeReady t
  · exact h

theorem KeepO.die {me : Nat} {s X : State} (h : KeepO me s X) : KeepO me s (die X me) := by
  unfold Tbox.C18.die
  exact h.setR me _ (Or.inl rfl)

macro "keepo" : tactic => `(tactic| (
  repeat' (first
    | exact KeepO.refl _ _
    | apply KeepO.finish | apply KeepO.blockIn | apply KeepO.waitBlock | apply KeepO.cancelR
    | apply KeepO.setCh | apply KeepO.setMx | apply KeepO.setSm | apply KeepO.setBc | apply KeepO.setCd
    | apply KeepO.tag | apply KeepO.tagIf | apply KeepO.wakeAll | apply KeepO.resumeOpt | apply KeepO.makeReady
    | apply KeepO.wake
    | (apply KeepO.setR; rotate_left; · first | exact Or.inl rfl | (right; simp [State.R, State.setR, State.setBc, State.setCd])))))

/-- inside `cleanup()` (no `create`) an operation of `me` moves only `me`'s script position -/
theorem execOp_keepO (s : State) (me : Nat) (op : Op) (rest : List Op) (h : s.inCleanup = true) :
    KeepO me s (execOp s me op rest).1 := by
  cases op with
  | create d now => simp only [execOp, h, ite_true]; keepo
  | send c v =>
    simp only [execOp]
    have := (KeepO.refl me s).wake (s.ch c).tokens (s.ch c).queue.isEmpty
    cases hw : wake s (s.ch c).tokens (s.ch c).queue.isEmpty with
    | mk s1 toks => rw [hw] at this; simp only []; exact (this.setCh _ _).finish _ _ _
  | unlock m =>
    simp only [execOp]
    split
    · have := (KeepO.refl me s).wake (s.mx m).waiters true
      cases hw : wake s (s.mx m).waiters true with
      | mk s1 toks => rw [hw] at this; simp only []; exact (this.setMx _ _).finish _ _ _
    · keepo
  | release k =>
    simp only [execOp]
    have := (KeepO.refl me s).wake (s.sm k).tokens (decide ((s.sm k).count = 0))
    cases hw : wake s (s.sm k).tokens (decide ((s.sm k).count = 0)) with
    | mk s1 toks => rw [hw] at this; simp only []; exact (this.setSm _ _).finish _ _ _
  | cancel t =>
    simp only [execOp]
    have := (KeepO.refl me s).cancelR t
    cases hw : cancelR s t with
    | mk s1 b => rw [hw] at this; simp only []; exact this.finish _ _ _
  | resume t =>
    simp only [execOp]
    have := (KeepO.refl me s).resume t
    cases hw : resume s t with
    | mk s1 b => rw [hw] at this; simp only []; exact this.finish _ _ _
  | exit => simp only [execOp]; exact KeepO.refl me s
  | throw => simp only [execOp]; exact (Woke.abort s).keepO me
  | rcleanup => simp only [execOp]; exact (Woke.abort s).keepO me
  | yield => simp only [execOp]; repeat' split
             all_goals keepo
  | wait => simp only [execOp]; repeat' split
            all_goals keepo
  | recv c => simp only [execOp]; repeat' split
              all_goals keepo
  | lock m => simp only [execOp]; repeat' split
              all_goals keepo
  | acquire k => simp only [execOp]; repeat' split
                 all_goals keepo
  | post b => simp only [execOp]; keepo
  | bwait b => simp only [execOp]; repeat' split
               all_goals keepo
  | cadd k v => simp only [execOp]; keepo
  | cwait k => simp only [execOp]; repeat' split
               all_goals keepo
  | cpost k v => simp only [execOp]; repeat' split
                 all_goals keepo
  | join t => simp only [execOp]; repeat' split
              all_goals keepo

theorem KeepO.unwindList {me : Nat} {s X : State} (h : KeepO me s X) (hic : X.inCleanup = true) (ms : List Nat) :
    KeepO me s (unwindList me ms X) := by
  induction ms generalizing X with
  | nil => exact h
  | cons m ms ih =>
    have ks := execOp_sameC X me (.unlock m) [] (Or.inl hic)
    exact ih (h.trans (execOp_keepO X me (.unlock m) [] hic)) (by rw [ks.inCleanup]; exact hic)

theorem KeepO.fin {me : Nat} {s X : State} (h : KeepO me s X) (hic : X.inCleanup = true) : KeepO me s (fin X me) := by
  refine KeepO.die ?_
  unfold Tbox.C18.unwind
  split
  · exact h.unwindList hic _
  · exact h

/-- a blocking operation of the property -/
def blocking : Op → Bool
  | .recv _ | .lock _ | .acquire _ | .bwait _ | .cwait _ | .join _ => true
  | _ => false

/-- **cancel unblocks** (2): the pending blocking call of a cancelled routine returns failure. -/
theorem C18_cancel_fails (s : State) (me : Nat) (op : Op) (rest : List Op) (hc : (s.R me).canceled = true)
    (hi : (s.R me).inOp = true) (hb : blocking op = true) :
    (execOp s me op rest).1.log = s.log ++ [{ r := me, op := op, res := .fail, canc := true }] := by
  simp only [State.R] at hc hi
  cases op <;> simp [blocking] at hb <;> simp [execOp, hc, hi, finish, tag, State.R, State.setR, State.setCd]
  repeat' split
  all_goals rfl

/-- a cancelled routine (by `cancel` or by `cleanup()`) that is switched to runs to the end of its
script in that one switch, is deleted, and — if it was blocked in an operation — the first thing it
logs is the failure of that pending call.  (`switch_clean` shows that `cleanup()` makes exactly this
switch for every routine still in the cabinet.) -/
theorem C18_cancelled_switch_terminates (s : State) (r : Nat) (op : Op) (rest : List Op) (hic : s.inCleanup = true)
    (hc : (s.R r).canceled = true) (hi : (s.R r).inOp = true) (hs : (s.R r).script = op :: rest)
    (hb : blocking op = true) :
    ((switchTo s r).R r).freed = true ∧
    s.log ++ [{ r := r, op := op, res := .fail, canc := true }] <+: (switchTo s r).log := by
  have hc1 : ((s.setR r { s.R r with state := .running, started := true }).R r).canceled = true := by
    simp only [State.R, State.setR, ite_true]; exact hc
  have hi1 : ((s.setR r { s.R r with state := .running, started := true }).R r).inOp = true := by
    simp only [State.R, State.setR, ite_true]; exact hi
  have hs1 : ((s.setR r { s.R r with state := .running, started := true }).R r).script = op :: rest := by
    simp only [State.R, State.setR, ite_true]; exact hs
  have k2 := runOps_canceled r (op :: rest) (s := s.setR r { s.R r with state := .running, started := true }) hic hc1
  have hfail := C18_cancel_fails (s.setR r { s.R r with state := .running, started := true }) r op rest hc1 hi1 hb
  have nb := C18_cancel_unblocks' (s.setR r { s.R r with state := .running, started := true }) r op rest hc1
  have hlog : s.log ++ [{ r := r, op := op, res := .fail, canc := true }] <+:
      (runOps r (op :: rest) (s.setR r { s.R r with state := .running, started := true })).log := by
    simp only [runOps]
    split
    · rename_i s1 e; rw [e] at hfail
      have hf' : s1.log = s.log ++ [{ r := r, op := op, res := .fail, canc := true }] := hfail
      rw [← hf']; exact runOps_log r rest s1
    · rename_i s1 e; rw [e] at nb; exact absurd rfl nb
    · rename_i s1 e; rw [e] at hfail
      have hf' : s1.log = s.log ++ [{ r := r, op := op, res := .fail, canc := true }] := hfail
      rw [← hf']; exact fin_log s1 r
  unfold switchTo
  simp only [hs1, k2.2, ite_true]
  refine ⟨?_, ?_⟩
  · have := ((SameC.refl (freeRoutine (runOps r (op :: rest) (s.setR r { s.R r with state := .running, started := true })) r)).resumeOpt
      ((freeRoutine (runOps r (op :: rest) (s.setR r { s.R r with state := .running, started := true })) r).R r).joiner).fr r
    rw [this.1]; simp [freeRoutine, State.R, State.setR]
  · simpa [freeRoutine] using hlog


theorem runOps_keepO (me : Nat) (ops : List Op) {s : State} (hic : s.inCleanup = true) : KeepO me s (runOps me ops s) := by
  induction ops generalizing s with
  | nil => exact (KeepO.refl me s).fin hic
  | cons op rest ih =>
    have key := execOp_keepO s me op rest hic
    have ks := execOp_sameC s me op rest (Or.inl hic)
    simp only [runOps]
    split
    · rename_i s1 e; rw [e] at key ks
      exact key.trans (ih (s := s1) (by rw [ks.inCleanup]; exact hic))
    · rename_i s1 e; rw [e] at key; exact key
    · rename_i s1 e; rw [e] at key ks; exact key.fin (by rw [ks.inCleanup]; exact hic)

theorem switchTo_keepO (s : State) (r : Nat) (hic : s.inCleanup = true) : KeepO r s (switchTo s r) := by
  have k1 : KeepO r s (s.setR r { s.R r with state := .running, started := true }) := (KeepO.refl r s).setR r _ (Or.inl rfl)
  have k2 := runOps_keepO r ((s.setR r { s.R r with state := .running, started := true }).R r).script
    (s := s.setR r { s.R r with state := .running, started := true }) hic
  unfold switchTo
  simp only []
  split
  · refine ((k1.trans k2).trans ?_).resumeOpt _
    unfold freeRoutine
    exact ((KeepO.refl r _).setR r _ (Or.inl rfl)).of_rts rfl
  · exact k1.trans k2

theorem sweep_log (k p : Nat) (s : State) : s.log <+: (sweep k p s).log := by
  induction k generalizing s p with
  | zero => exact List.prefix_refl _
  | succ k ih =>
    simp only [sweep]
    split
    · split
      · exact (switchTo_log s _).trans (ih _ _)
      · exact ih _ _
    · exact ih _ _

/-- the pending call of a blocked routine fails during the sweep of `cleanup()` -/
theorem sweep_fails (k : Nat) {s : State} {L p r : Nat} {op : Op} {rest : List Op} (h : Clean s L) (hk : p + k = L)
    (ha : alive s r = true) (hi : (s.R r).inOp = true) (hs : (s.R r).script = op :: rest) (hb : blocking op = true)
    (hp : p ≤ (s.R r).pos) :
    ∃ l1 l2, (sweep k p s).log = s.log ++ l1 ++ { r := r, op := op, res := .fail, canc := true } :: l2 := by
  have ha' := (alive_iff s r).mp ha
  have hcell := h.cab.live r ha'.1 ha'.2
  have hposlt : (s.R r).pos < L := by rw [← h.len]; exact lt_of_get hcell
  induction k generalizing s p with
  | zero => omega
  | succ k ih =>
    simp only [sweep]
    have hplt : p < s.cells.length := by rw [h.len]; omega
    have hget : s.cells.getD p none = s.cells[p] := by simp [List.getD, List.getElem?_eq_getElem hplt]
    rw [hget]
    by_cases hpe : p = (s.R r).pos
    · -- this is the routine's own cell
      have hcp : s.cells[p] = some r := by
        have := hcell; rw [← hpe, List.getElem?_eq_getElem hplt] at this; injection this
      rw [hcp]
      simp only [ha, ite_true]
      have key := C18_cancelled_switch_terminates s r op rest h.ic (h.all r ha).2 hi hs hb
      obtain ⟨l1, e1⟩ := key.2
      obtain ⟨l2, e2⟩ := sweep_log k (p + 1) (switchTo s r)
      exact ⟨[], l1 ++ l2, by rw [← e2, ← e1]; simp⟩
    · have hplt' : p < (s.R r).pos := by omega
      cases hcp : s.cells[p] with
      | none =>
        simp only []
        exact ih h (by omega) ha hi hs (by omega) ((alive_iff s r).mp ha) hcell hposlt
      | some r' =>
        simp only []
        have hp' : s.cells[p]? = some (some r') := by rw [List.getElem?_eq_getElem hplt, hcp]
        have hc := h.cab.cell p r' hp'
        have har' : alive s r' = true := (alive_iff s r').mpr ⟨hc.1, hc.2.1⟩
        simp only [har', ite_true]
        have hne : r ≠ r' := by intro e; subst e; exact hpe hc.2.2.symm
        have key := switch_clean h hp'
        have kk := (switchTo_keepO s r' h.ic).keep r hne
        -- `r` still sits in its cell afterwards, so it is still alive, at the same position
        have hcell' : (switchTo s r').cells[(s.R r).pos]? = some (some r) := by
          rw [key.2, List.getElem?_set]
          have : ¬ p = (s.R r).pos := hpe
          simp only [this, ite_false]; exact hcell
        have hc' := key.1.cab.cell _ r hcell'
        have har : alive (switchTo s r') r = true := (alive_iff _ r).mpr ⟨hc'.1, hc'.2.1⟩
        obtain ⟨m1, m2, e⟩ := ih (s := switchTo s r') (p := p + 1) key.1 (by omega) har (by rw [kk.2]; exact hi)
          (by rw [kk.1]; exact hs) (by rw [hc'.2.2]; omega) ((alive_iff _ r).mp har)
          (by rw [hc'.2.2]; exact hcell') (by rw [hc'.2.2]; exact hposlt)
        obtain ⟨l0, e0⟩ := switchTo_log s r'
        exact ⟨l0 ++ m1, m2, by rw [e, ← e0]; simp⟩

/-- **cleanup at trace level**: every routine that is started and blocked in a blocking call when
`cleanup()` is called logs the failure of exactly that call (with `isCanceled()` true) before
`cleanup()` returns — and, by `cleanup_all_freed`, has terminated. -/
theorem cleanup_fails_pending {s : State} (c : Cab s) (h : Inv s) (r : Nat) (op : Op) (rest : List Op)
    (ha : alive s r = true) (hst : (s.R r).started = true) (hi : (s.R r).inOp = true)
    (hs : (s.R r).script = op :: rest) (hb : blocking op = true) :
    ∃ l1 l2, (cleanup s).log = s.log ++ l1 ++ { r := r, op := op, res := .fail, canc := true } :: l2 := by
  have h1 := markAll_clean c h
  have hR : (markAll s).R r = { s.R r with canceled := true } := by rw [markAll_R, ha]; simp [hst]
  have ha1 : alive (markAll s) r = true := by
    have := (alive_iff s r).mp ha
    apply (alive_iff _ r).mpr
    rw [hR]; exact ⟨this.1, this.2⟩
  have key := sweep_fails (markAll s).cells.length (p := 0) (r := r) (op := op) (rest := rest) h1
    (by rw [h1.len]; omega) ha1 (by rw [hR]; exact hi) (by rw [hR]; exact hs) hb (Nat.zero_le _)
  have hlog : (markAll s).log = s.log := rfl
  rw [hlog] at key
  -- the loop did run the sweep: the cabinet was not empty (routine `r` sits in it)
  have hne : cabinetEmpty (markAll s) = false := by
    cases he : cabinetEmpty (markAll s)
    · rfl
    · have := all_freed_of_empty h1.cab he r ((alive_iff _ r).mp ha1).1
      rw [((alive_iff _ r).mp ha1).2] at this; cases this
  have one := cleanup_one_sweep c h
  have e : (cleanup s).log = (sweep (markAll s).cells.length 0 (markAll s)).log := by
    unfold cleanup
    simp only [sweepLoop, hne, Bool.false_eq_true, ite_false, one.1, ite_true]
  rw [e]; exact key

end Tbox.C18
