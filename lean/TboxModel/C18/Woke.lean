/-
C18 — helper lemmas: the "some routines were made ready" relation (`resume`, `wakeAll`,
`makeRoutineReady`) and what it preserves.
-/
import TboxModel.C18.Spec
namespace Tbox.C18

/-- `s'` differs from `s` only in that some routines were made ready (and queued) -/
structure Woke (s s' : State) : Prop where
  fixed : s'.fixed = s.fixed
  n : s'.n = s.n
  tmp : s'.tmp = s.tmp
  ch : s'.ch = s.ch
  mx : s'.mx = s.mx
  sm : s'.sm = s.sm
  bc : s'.bc = s.bc
  cd : s'.cd = s.cd
  log : s'.log = s.log
  cells : s'.cells = s.cells
  free : s'.free = s.free
  inCleanup : s'.inCleanup = s.inCleanup
  defs : s'.defs = s.defs
  stuck : s'.stuck = s.stuck
  rq : ∀ x, x ∈ s.readyq → x ∈ s'.readyq
  rt : ∀ r, s'.R r = s.R r ∨
        (s'.R r = { s.R r with state := .ready } ∧ r ∈ s'.readyq ∧ (s.R r).state ≠ .dead ∧ r < s.n)

theorem Woke.refl (s : State) : Woke s s :=
  ⟨rfl, rfl, rfl, rfl, rfl, rfl, rfl, rfl, rfl, rfl, rfl, rfl, rfl, rfl, fun _ h => h, fun _ => Or.inl rfl⟩

theorem Woke.trans {a b c : State} (h1 : Woke a b) (h2 : Woke b c) : Woke a c := by
  refine ⟨h2.fixed.trans h1.fixed, h2.n.trans h1.n, h2.tmp.trans h1.tmp, h2.ch.trans h1.ch, h2.mx.trans h1.mx,
    h2.sm.trans h1.sm, h2.bc.trans h1.bc, h2.cd.trans h1.cd, h2.log.trans h1.log, h2.cells.trans h1.cells,
    h2.free.trans h1.free, h2.inCleanup.trans h1.inCleanup, h2.defs.trans h1.defs, h2.stuck.trans h1.stuck,
    fun x h => h2.rq x (h1.rq x h), ?_⟩
  intro r
  rcases h2.rt r with e2 | ⟨e2, q2, d2, l2⟩ <;> rcases h1.rt r with e1 | ⟨e1, q1, d1, l1⟩
  · left; rw [e2, e1]
  · right; exact ⟨by rw [e2, e1], h2.rq r q1, d1, l1⟩
  · right; refine ⟨by rw [e2, e1], q2, by rw [← e1]; exact d2, by rw [← h1.n]; exact l2⟩
  · right; refine ⟨by rw [e2, e1], q2, d1, l1⟩

theorem Woke.abort (s : State) : Woke s (abort s) := by
  unfold Tbox.C18.abort
  split
  · exact Woke.refl s
  · exact ⟨rfl, rfl, rfl, rfl, rfl, rfl, rfl, rfl, rfl, rfl, rfl, rfl, rfl, rfl, fun _ h => h, fun _ => Or.inl rfl⟩

theorem Woke.tag (s : State) (t : String) : Woke s (tag s t) :=
  ⟨rfl, rfl, rfl, rfl, rfl, rfl, rfl, rfl, rfl, rfl, rfl, rfl, rfl, rfl, fun _ h => h, fun _ => Or.inl rfl⟩

theorem Woke.tagIf (s : State) (b : Bool) (t : String) : Woke s (tagIf s b t) := by
  unfold Tbox.C18.tagIf; split
  · exact Woke.tag s t
  · exact Woke.refl s

theorem Woke.makeReady (s : State) (r : Nat) (hr : r < s.n) : Woke s (makeReady s r).1 := by
  unfold Tbox.C18.makeReady
  split
  · exact Woke.refl s
  · rename_i hst
    refine ⟨rfl, rfl, rfl, rfl, rfl, rfl, rfl, rfl, rfl, rfl, rfl, rfl, rfl, rfl, ?_, ?_⟩
    · intro x hx; simp [hx]
    · intro i
      by_cases hi : i = r
      · right; subst hi
        simp only [State.R, State.setR, ite_true, List.mem_append, List.mem_singleton, or_true, true_and]
        exact ⟨fun hd => hst (Or.inr hd), hr⟩
      · left; simp [State.R, State.setR, hi]

theorem Woke.resume (s : State) (t : Nat) : Woke s (resume s t).1 := by
  unfold Tbox.C18.resume
  split
  · rename_i ha
    simp only [alive, Bool.and_eq_true, decide_eq_true_eq] at ha
    exact Woke.makeReady s t ha.1
  · exact Woke.refl s

theorem Woke.wakeAll (s : State) (ts : List Nat) : Woke s (wakeAll s ts) := by
  induction ts generalizing s with
  | nil => exact Woke.refl s
  | cons t ts ih => exact (Woke.resume s t).trans (ih _)

/-- a woken state never has more suspended routines -/
theorem Woke.state_suspend {s s' : State} (h : Woke s s') (r : Nat) (hs : (s'.R r).state = .suspend) :
    s'.R r = s.R r := by
  rcases h.rt r with e | ⟨e, _⟩
  · exact e
  · rw [e] at hs; cases hs

theorem Woke.susp {s s' : State} (h : Woke s s') {r : Nat} {op : Op} (hs : susp s' r op) : susp s r op := by
  have := h.state_suspend r hs.1
  unfold Tbox.C18.susp at hs ⊢
  rwa [this] at hs

/-- fields of a routine other than `state` are untouched -/
theorem Woke.fields {s s' : State} (h : Woke s s') (r : Nat) :
    (s'.R r).script = (s.R r).script ∧ (s'.R r).inOp = (s.R r).inOp ∧ (s'.R r).canceled = (s.R r).canceled ∧
    (s'.R r).joiner = (s.R r).joiner ∧ (s'.R r).freed = (s.R r).freed ∧ (s'.R r).started = (s.R r).started ∧
    (s'.R r).wepoch = (s.R r).wepoch ∧ (s'.R r).xfail = (s.R r).xfail ∧ (s'.R r).done = (s.R r).done ∧
    (s'.R r).pos = (s.R r).pos := by
  rcases h.rt r with e | ⟨e, _⟩ <;> rw [e] <;> simp

theorem Woke.state_cases {s s' : State} (h : Woke s s') (r : Nat) :
    (s'.R r).state = (s.R r).state ∨ ((s'.R r).state = .ready ∧ r ∈ s'.readyq ∧ (s.R r).state ≠ .dead) := by
  rcases h.rt r with e | ⟨e, q, d, _⟩
  · left; rw [e]
  · right; rw [e]; exact ⟨rfl, q, d⟩

theorem Woke.invS {s s' : State} (w : Woke s s') (h : InvS s) : InvS s' := by
  have F := w.fields
  constructor
  · rw [w.fixed]; exact h.fixed
  · rw [w.ch]; exact h.chAvail
  · intro r c hs; rw [w.ch]; exact h.chReg r c (w.susp hs)
  · rw [w.mx]; exact h.mxAvail
  · intro r c hs; rw [w.mx]; exact h.mxReg r c (w.susp hs)
  · rw [w.sm]; exact h.smAvail
  · intro r c hs; rw [w.sm]; exact h.smReg r c (w.susp hs)
  · intro r c hs; rw [w.bc, (F r).2.2.2.2.2.2.1]; exact h.bcReg r c (w.susp hs)
  · intro r c hs; rw [w.cd]; exact h.cdReg r c (w.susp hs)
  · intro r t hs
    rw [(F t).2.2.2.1, (F t).2.2.2.2.1, (F r).2.2.1, w.n]; exact h.joinReg r t (w.susp hs)
  · intro r hf
    rw [(F r).2.2.2.2.1] at hf
    have hd := h.freedDead r hf
    rcases w.state_cases r with e | ⟨_, _, d⟩
    · rw [e]; exact hd
    · exact absurd hd d
  · intro r hi; rw [(F r).2.1] at hi; rw [(F r).2.2.2.2.2.1, w.n]; exact h.inOpOk r hi
  · intro r hr
    rw [w.n] at hr
    rcases w.rt r with e | ⟨_, _, _, l⟩
    · rw [e]; exact h.outside r hr
    · omega
  · intro r hr
    rw [w.tmp]
    rcases w.state_cases r with e | ⟨_, q, _⟩
    · rw [e] at hr
      have := h.ready r hr
      simp only [List.mem_append] at this ⊢
      exact this.imp id (w.rq r)
    · simp [q]

theorem Woke.invL {s s' : State} (w : Woke s s') (h : InvL s) : InvL s' := by
  constructor
  · rw [w.log, w.ch]; exact h.fifo
  · rw [w.log, w.mx]; exact h.owners
  · rw [w.log, w.sm]; exact h.semCount
  · rw [w.sm]; exact h.semInit

/-- every routine of the list that could be resumed is no longer suspended -/
theorem wakeAll_wakes (s : State) (ts : List Nat) (r : Nat) (hr : r ∈ ts) (ha : alive s r = true) :
    ((wakeAll s ts).R r).state ≠ .suspend := by
  induction ts generalizing s with
  | nil => cases hr
  | cons t ts ih =>
    simp only [wakeAll]
    have w1 := Woke.resume s t
    have w2 := Woke.wakeAll (resume s t).1 ts
    by_cases ht : r = t
    · subst ht
      intro hs
      have e2 := w2.state_suspend r hs
      rw [e2] at hs
      revert hs
      unfold resume makeReady
      simp only [ha, ite_true]
      split
      · rename_i h; rcases h with h | h <;> simp [h]
      · simp [State.R, State.setR]
    · have : r ∈ ts := by simpa [ht] using hr
      apply ih _ this
      have hf := (w1.fields r).2.2.2.2.1
      simp only [alive, w1.n, hf] at ha ⊢
      exact ha

end Tbox.C18
