/- C19 — AES-128 single block model: transcription of modules/crypto/aes.cpp.
S-box, inverse S-box and round constants come from Gen.lean. `state[r][c]` is entry `4*r+c`. -/
import TboxModel.C19.Common
import TboxModel.C19.Gen
namespace Tbox.C19.Aes
open Tbox.C19

abbrev Mat := List UInt8    -- 16 entries, row-major: state[r][c] = m[4*r+c]

/-- the constant tables of the algorithm -/
structure Tables where
  sbox : List UInt8
  inv : List UInt8
  rcon : List UInt8
  deriving DecidableEq

/-- the tables as they are in the source today -/
def gen : Tables := ⟨Gen.aesSbox, Gen.aesInvSbox, Gen.aesRcon⟩

def sbox (T : Tables) (x : UInt8) : UInt8 := T.sbox.getD x.toNat 0
def invSbox (T : Tables) (x : UInt8) : UInt8 := T.inv.getD x.toNat 0

def xtime (b : UInt8) : UInt8 := if b &&& 0x80 ≠ 0 then (b <<< 1) ^^^ 0x1b else b <<< 1

/-- `FFmul(a, b)`: only the low four bits of `a` are used, as coded -/
def ffmul (a b : UInt8) : UInt8 :=
  let bw0 := b; let bw1 := xtime bw0; let bw2 := xtime bw1; let bw3 := xtime bw2
  let r := if (a >>> 0) &&& 1 ≠ 0 then bw0 else 0
  let r := if (a >>> 1) &&& 1 ≠ 0 then r ^^^ bw1 else r
  let r := if (a >>> 2) &&& 1 ≠ 0 then r ^^^ bw2 else r
  if (a >>> 3) &&& 1 ≠ 0 then r ^^^ bw3 else r

def at_ (m : Mat) (r c : Nat) : UInt8 := m.getD (4 * r + c) 0

/-- build a matrix from an entry function -/
def mk (f : Nat → Nat → UInt8) : Mat :=
  [f 0 0, f 0 1, f 0 2, f 0 3, f 1 0, f 1 1, f 1 2, f 1 3,
   f 2 0, f 2 1, f 2 2, f 2 3, f 3 0, f 3 1, f 3 2, f 3 3]

def subBytes (T : Tables) (m : Mat) : Mat := m.map (sbox T)
def invSubBytes (T : Tables) (m : Mat) : Mat := m.map (invSbox T)
def shiftRows (m : Mat) : Mat := mk fun r c => at_ m r ((c + r) % 4)
def invShiftRows (m : Mat) : Mat := mk fun r c => at_ m r ((c + 4 - r) % 4)

def mixColumns (m : Mat) : Mat := mk fun r c =>
  ffmul 0x02 (at_ m r c) ^^^ ffmul 0x03 (at_ m ((r + 1) % 4) c)
    ^^^ ffmul 0x01 (at_ m ((r + 2) % 4) c) ^^^ ffmul 0x01 (at_ m ((r + 3) % 4) c)

def invMixColumns (m : Mat) : Mat := mk fun r c =>
  ffmul 0x0e (at_ m r c) ^^^ ffmul 0x0b (at_ m ((r + 1) % 4) c)
    ^^^ ffmul 0x0d (at_ m ((r + 2) % 4) c) ^^^ ffmul 0x09 (at_ m ((r + 3) % 4) c)

def addRoundKey (m k : Mat) : Mat := List.zipWith (· ^^^ ·) m k

/-- `state[r][c] = input[c*4 + r]` and back (the same transposition) -/
def transpose (b : List UInt8) : Mat := mk fun r c => b.getD (c * 4 + r) 0

/-- one round key from the previous one (`keyExpansion`, inner loops), `rc` = round constant -/
def nextKey (T : Tables) (prev : Mat) (rc : UInt8) : Mat :=
  let t0 : Nat → UInt8 := fun r =>
    let v := sbox T (at_ prev ((r + 1) % 4) 3)
    if r = 0 then v ^^^ rc else v
  let col0 : Nat → UInt8 := fun r => at_ prev r 0 ^^^ t0 r
  let col1 : Nat → UInt8 := fun r => at_ prev r 1 ^^^ col0 r
  let col2 : Nat → UInt8 := fun r => at_ prev r 2 ^^^ col1 r
  let col3 : Nat → UInt8 := fun r => at_ prev r 3 ^^^ col2 r
  mk fun r c => match c with | 0 => col0 r | 1 => col1 r | 2 => col2 r | _ => col3 r

/-- `keyExpansion`: the 11 round keys `w[0..10]` -/
def keyExpansion (T : Tables) (key : List UInt8) : List Mat :=
  let w0 := transpose key
  (T.rcon.take 10).foldl (fun ws rc => ws ++ [nextKey T (ws.getLastD w0) rc]) [w0]

def wAt (w : List Mat) (i : Nat) : Mat := w.getD i (List.replicate 16 0)

/-- rounds 1..10 of `cipher` -/
def encRound (T : Tables) (w : List Mat) (st : Mat) (i : Nat) : Mat :=
  let s := shiftRows (subBytes T st)
  let s := if i ≠ 10 then mixColumns s else s
  addRoundKey s (wAt w i)

def cipherMat (T : Tables) (w : List Mat) (st : Mat) : Mat :=
  (List.range' 1 10).foldl (encRound T w) (addRoundKey st (wAt w 0))

/-- `AES::cipher` -/
def cipher (T : Tables) (key block : List UInt8) : List UInt8 :=
  transpose (cipherMat T (keyExpansion T key) (transpose block))

/-- loop body of `invcipher` for round index `i` (9 down to 0) -/
def decRound (T : Tables) (w : List Mat) (st : Mat) (i : Nat) : Mat :=
  let s := addRoundKey (invSubBytes T (invShiftRows st)) (wAt w i)
  if i ≠ 0 then invMixColumns s else s

def invCipherMat (T : Tables) (w : List Mat) (st : Mat) : Mat :=
  [9, 8, 7, 6, 5, 4, 3, 2, 1, 0].foldl (decRound T w) (addRoundKey st (wAt w 10))

/-- `AES::invcipher` -/
def invCipher (T : Tables) (key block : List UInt8) : List UInt8 :=
  transpose (invCipherMat T (keyExpansion T key) (transpose block))

/-! ### the object: `AES(key)` / `setKey` fill the round keys `w`, `cipher` / `invcipher` only read them -/

structure Obj where
  w : List Mat

/-- `AES::AES(key)` with a non-null key, and `setKey(key)` on any object: all 11 round keys are overwritten -/
def Obj.setKey (T : Tables) (_o : Obj) (key : List UInt8) : Obj := ⟨keyExpansion T key⟩
def Obj.new (T : Tables) (key : List UInt8) : Obj := ⟨keyExpansion T key⟩
def Obj.cipher (T : Tables) (o : Obj) (block : List UInt8) : List UInt8 := transpose (cipherMat T o.w (transpose block))
def Obj.invCipher (T : Tables) (o : Obj) (block : List UInt8) : List UInt8 := transpose (invCipherMat T o.w (transpose block))

/-! ### histories on ONE object (round 8, lesson g).
The object caches the expanded key schedule `w[11][4][4]` exactly as the code lays it out: `w[i][r][c]` is entry `4*r+c` of
`wAt o.w i`, and `w[0][r][c] = key[r + 4*c]` — i.e. the 16 bytes of `w[0]` READ LINEARLY (what a `memcmp(w[0], key, 16)` sees) are
the TRANSPOSE of the cipher key, not the key. -/

/-- round key `i` as it lies in memory (`(uint8_t*)w[i]`, row-major) -/
def Obj.memRow (o : Obj) (i : Nat) : List UInt8 := wAt o.w i
/-- round key `i` in FIPS-197 order (words = columns); for `i = 0` this is the cipher key -/
def Obj.memCol (o : Obj) (i : Nat) : List UInt8 := transpose (wAt o.w i)

/-- a call on the object -/
inductive Op
  | setKey (key : List UInt8)
  | enc (block : List UInt8)
  | dec (block : List UInt8)
  deriving DecidableEq, Repr

/-- one call: the object afterwards and what the call stored in `output` -/
def Obj.step (T : Tables) (o : Obj) : Op → Obj × Option (List UInt8)
  | .setKey k => (o.setKey T k, none)
  | .enc b => (o, some (o.cipher T b))
  | .dec b => (o, some (o.invCipher T b))

/-- a history of calls on one object: the outputs in call order -/
def Obj.run (T : Tables) : Obj → List Op → List (List UInt8)
  | _, [] => []
  | o, op :: r =>
    match o.step T op with
    | (o', some out) => out :: Obj.run T o' r
    | (o', none) => Obj.run T o' r

/-- every key and block of a history is 16 bytes long (the API's precondition) -/
def Op.wf : Op → Bool
  | .setKey k => k.length = 16
  | .enc b => b.length = 16
  | .dec b => b.length = 16

/-- reference semantics of a history, for block functions `E` / `D` given from outside (instantiated with the independent FIPS-197
definitions of Spec.lean): every output is the block function under the LAST key installed before the call -/
def refRun (E D : List UInt8 → List UInt8 → List UInt8) : List UInt8 → List Op → List (List UInt8)
  | _, [] => []
  | _, .setKey k :: r => refRun E D k r
  | k, .enc b :: r => E k b :: refRun E D k r
  | k, .dec b :: r => D k b :: refRun E D k r

/-- two objects used in turns (`true` = object B): the outputs in call order, tagged with the object -/
def runTwo (T : Tables) : Obj → Obj → List (Bool × Op) → List (Bool × List UInt8)
  | _, _, [] => []
  | a, b, (w, op) :: r =>
    match (if w then b else a).step T op with
    | (o', some out) => (w, out) :: (if w then runTwo T a o' r else runTwo T o' b r)
    | (o', none) => if w then runTwo T a o' r else runTwo T o' b r

/-- the calls made on one of the two objects / the outputs it produced -/
def projOps (w : Bool) (s : List (Bool × Op)) : List Op := (s.filter (fun x => x.1 = w)).map (·.2)
def outsOf (w : Bool) (r : List (Bool × List UInt8)) : List (List UInt8) := (r.filter (fun x => x.1 = w)).map (·.2)

/-- `setKey` with an "unchanged key? then skip the expansion" shortcut that compares the key with the MEMORY IMAGE of `w[0]`
(`memcmp(w[0], key, 16) == 0`: the shortcut of seeded change C19-6) -/
def Obj.setKeySkipMem (T : Tables) (o : Obj) (key : List UInt8) : Obj := if o.memRow 0 = key then o else ⟨keyExpansion T key⟩

/-- the same shortcut comparing in the right order (`w[0][r][c] == key[r + 4*c]` for all r, c) -/
def Obj.setKeySkipCol (T : Tables) (o : Obj) (key : List UInt8) : Obj := if o.memCol 0 = key then o else ⟨keyExpansion T key⟩

end Tbox.C19.Aes
