/- C19 — AES-128: GF(2)-linearity of xtime / FFmul, InvMixColumns ∘ MixColumns = id (four coefficient identities over all
256 bytes), ShiftRows / AddRoundKey / SubBytes inverses, hence invcipher ∘ cipher = id for every key and block. -/
import TboxModel.C19.Aes
import TboxModel.C19.B64Proofs
namespace Tbox.C19.Aes
open Tbox.C19 Tbox.C19.B64
set_option maxRecDepth 100000

theorem xor_cancel_mid (a b k : UInt8) : a ^^^ k ^^^ (b ^^^ k) = a ^^^ b := by
  have : a ^^^ k ^^^ (b ^^^ k) = a ^^^ b ^^^ (k ^^^ k) := by ac_rfl
  rw [this, UInt8.xor_self, UInt8.xor_zero]

theorem msb8 (c : UInt8) : (c &&& 0x80 ≠ 0) ↔ c.toNat.testBit 7 = true := by
  revert c; apply u8_all; decide +kernel

theorem xtime_eq (b : UInt8) : xtime b = (b <<< 1) ^^^ (if b.toNat.testBit 7 then 0x1b else 0) := by
  revert b; apply u8_all; decide +kernel

theorem xtime_lin (x y : UInt8) : xtime (x ^^^ y) = xtime x ^^^ xtime y := by
  rw [xtime_eq, xtime_eq x, xtime_eq y, UInt8.shiftLeft_xor, UInt8.toNat_xor, Nat.testBit_xor]
  cases x.toNat.testBit 7 <;> cases y.toNat.testBit 7 <;> simp
  · ac_rfl
  · ac_rfl
  · exact (xor_cancel_mid _ _ _).symm

end Tbox.C19.Aes

namespace Tbox.C19.Aes
open Tbox.C19 Tbox.C19.B64
set_option maxRecDepth 100000

theorem ffmul_eq (a x : UInt8) : ffmul a x =
    (if (a >>> 0) &&& 1 ≠ 0 then x else 0) ^^^ (if (a >>> 1) &&& 1 ≠ 0 then xtime x else 0)
      ^^^ (if (a >>> 2) &&& 1 ≠ 0 then xtime (xtime x) else 0)
      ^^^ (if (a >>> 3) &&& 1 ≠ 0 then xtime (xtime (xtime x)) else 0) := by
  unfold ffmul
  by_cases h0 : (a >>> 0) &&& 1 ≠ 0 <;> by_cases h1 : (a >>> 1) &&& 1 ≠ 0 <;>
    by_cases h2 : (a >>> 2) &&& 1 ≠ 0 <;> by_cases h3 : (a >>> 3) &&& 1 ≠ 0 <;> simp [h1, h2, h3]

/-- `FFmul(k, ·)` is GF(2)-linear -/
theorem ffmul_lin (k x y : UInt8) : ffmul k (x ^^^ y) = ffmul k x ^^^ ffmul k y := by
  rw [ffmul_eq, ffmul_eq k x, ffmul_eq k y]
  by_cases h0 : (k >>> 0) &&& 1 ≠ 0 <;> by_cases h1 : (k >>> 1) &&& 1 ≠ 0 <;>
    by_cases h2 : (k >>> 2) &&& 1 ≠ 0 <;> by_cases h3 : (k >>> 3) &&& 1 ≠ 0 <;>
    simp only [h0, h1, h2, h3, if_true, if_false, xtime_lin, UInt8.xor_zero, UInt8.zero_xor,
      not_false_eq_true, ne_eq] <;> ac_rfl

-- the four coefficient identities of InvMixColumns ∘ MixColumns (one per source row offset), all 256 bytes each
theorem coef0 (x : UInt8) : ffmul 0x0e (ffmul 0x02 x) ^^^ ffmul 0x0b (ffmul 0x01 x) ^^^ ffmul 0x0d (ffmul 0x01 x)
    ^^^ ffmul 0x09 (ffmul 0x03 x) = x := by revert x; apply u8_all; decide +kernel
theorem coef1 (x : UInt8) : ffmul 0x0e (ffmul 0x03 x) ^^^ ffmul 0x0b (ffmul 0x02 x) ^^^ ffmul 0x0d (ffmul 0x01 x)
    ^^^ ffmul 0x09 (ffmul 0x01 x) = 0 := by revert x; apply u8_all; decide +kernel
theorem coef2 (x : UInt8) : ffmul 0x0e (ffmul 0x01 x) ^^^ ffmul 0x0b (ffmul 0x03 x) ^^^ ffmul 0x0d (ffmul 0x02 x)
    ^^^ ffmul 0x09 (ffmul 0x01 x) = 0 := by revert x; apply u8_all; decide +kernel
theorem coef3 (x : UInt8) : ffmul 0x0e (ffmul 0x01 x) ^^^ ffmul 0x0b (ffmul 0x01 x) ^^^ ffmul 0x0d (ffmul 0x03 x)
    ^^^ ffmul 0x09 (ffmul 0x02 x) = 0 := by revert x; apply u8_all; decide +kernel

/-- one column: InvMixColumns undoes MixColumns (row `a`, the rows below it cyclically b, c, d) -/
theorem col_inv (a b c d : UInt8) :
    ffmul 0x0e (ffmul 0x02 a ^^^ ffmul 0x03 b ^^^ ffmul 0x01 c ^^^ ffmul 0x01 d)
      ^^^ ffmul 0x0b (ffmul 0x02 b ^^^ ffmul 0x03 c ^^^ ffmul 0x01 d ^^^ ffmul 0x01 a)
      ^^^ ffmul 0x0d (ffmul 0x02 c ^^^ ffmul 0x03 d ^^^ ffmul 0x01 a ^^^ ffmul 0x01 b)
      ^^^ ffmul 0x09 (ffmul 0x02 d ^^^ ffmul 0x03 a ^^^ ffmul 0x01 b ^^^ ffmul 0x01 c) = a := by
  simp only [ffmul_lin]
  have e : ∀ (p1 p2 p3 p4 q1 q2 q3 q4 r1 r2 r3 r4 s1 s2 s3 s4 : UInt8),
      (p1 ^^^ p2 ^^^ p3 ^^^ p4) ^^^ (q1 ^^^ q2 ^^^ q3 ^^^ q4) ^^^ (r1 ^^^ r2 ^^^ r3 ^^^ r4) ^^^ (s1 ^^^ s2 ^^^ s3 ^^^ s4)
      = (p1 ^^^ q4 ^^^ r3 ^^^ s2) ^^^ (p2 ^^^ q1 ^^^ r4 ^^^ s3) ^^^ (p3 ^^^ q2 ^^^ r1 ^^^ s4) ^^^ (p4 ^^^ q3 ^^^ r2 ^^^ s1) := by
    intros; ac_rfl
  rw [e, coef0 a, coef1 b, coef2 c, coef3 d]
  simp

end Tbox.C19.Aes

namespace Tbox.C19.Aes
open Tbox.C19 Tbox.C19.B64
set_option maxRecDepth 100000

theorem exists_cons {α} (m : List α) (n : Nat) (h : m.length = n + 1) : ∃ a t, m = a :: t ∧ t.length = n := by
  cases m with
  | nil => simp at h
  | cons a t => exact ⟨a, t, rfl, by simpa using h⟩

theorem len16 (m : List UInt8) (h : m.length = 16) : ∃ a0 a1 a2 a3 a4 a5 a6 a7 a8 a9 a10 a11 a12 a13 a14 a15 : UInt8, m = [a0, a1, a2, a3, a4, a5, a6, a7, a8, a9, a10, a11, a12, a13, a14, a15] := by
  obtain ⟨a0, m1, rfl, h1⟩ := exists_cons m 15 h
  obtain ⟨a1, m2, rfl, h2⟩ := exists_cons m1 14 h1
  obtain ⟨a2, m3, rfl, h3⟩ := exists_cons m2 13 h2
  obtain ⟨a3, m4, rfl, h4⟩ := exists_cons m3 12 h3
  obtain ⟨a4, m5, rfl, h5⟩ := exists_cons m4 11 h4
  obtain ⟨a5, m6, rfl, h6⟩ := exists_cons m5 10 h5
  obtain ⟨a6, m7, rfl, h7⟩ := exists_cons m6 9 h6
  obtain ⟨a7, m8, rfl, h8⟩ := exists_cons m7 8 h7
  obtain ⟨a8, m9, rfl, h9⟩ := exists_cons m8 7 h8
  obtain ⟨a9, m10, rfl, h10⟩ := exists_cons m9 6 h9
  obtain ⟨a10, m11, rfl, h11⟩ := exists_cons m10 5 h10
  obtain ⟨a11, m12, rfl, h12⟩ := exists_cons m11 4 h11
  obtain ⟨a12, m13, rfl, h13⟩ := exists_cons m12 3 h12
  obtain ⟨a13, m14, rfl, h14⟩ := exists_cons m13 2 h13
  obtain ⟨a14, m15, rfl, h15⟩ := exists_cons m14 1 h14
  obtain ⟨a15, m16, rfl, h16⟩ := exists_cons m15 0 h15
  have : m16 = [] := List.eq_nil_of_length_eq_zero h16
  subst this
  exact ⟨a0, a1, a2, a3, a4, a5, a6, a7, a8, a9, a10, a11, a12, a13, a14, a15, rfl⟩

theorem mk_length (f : Nat → Nat → UInt8) : (mk f).length = 16 := rfl
theorem transpose_length (b : List UInt8) : (transpose b).length = 16 := rfl
theorem nextKey_length (T : Tables) (p : Mat) (rc : UInt8) : (nextKey T p rc).length = 16 := rfl
theorem shiftRows_length (m : Mat) : (shiftRows m).length = 16 := rfl
theorem mixColumns_length (m : Mat) : (mixColumns m).length = 16 := rfl

theorem invShiftRows_shiftRows (m : Mat) (h : m.length = 16) : invShiftRows (shiftRows m) = m := by
  obtain ⟨a0, a1, a2, a3, a4, a5, a6, a7, a8, a9, a10, a11, a12, a13, a14, a15, rfl⟩ := len16 m h
  rfl

theorem shiftRows_invShiftRows (m : Mat) (h : m.length = 16) : shiftRows (invShiftRows m) = m := by
  obtain ⟨a0, a1, a2, a3, a4, a5, a6, a7, a8, a9, a10, a11, a12, a13, a14, a15, rfl⟩ := len16 m h
  rfl

theorem transpose_transpose (m : List UInt8) (h : m.length = 16) : transpose (transpose m) = m := by
  obtain ⟨a0, a1, a2, a3, a4, a5, a6, a7, a8, a9, a10, a11, a12, a13, a14, a15, rfl⟩ := len16 m h
  rfl

theorem invMixColumns_mixColumns (m : Mat) (h : m.length = 16) : invMixColumns (mixColumns m) = m := by
  obtain ⟨a0, a1, a2, a3, a4, a5, a6, a7, a8, a9, a10, a11, a12, a13, a14, a15, rfl⟩ := len16 m h
  simp only [mixColumns, invMixColumns, mk, at_, List.getD_cons_zero, List.getD_cons_succ, Nat.reduceAdd, Nat.reduceMul,
    Nat.reduceMod]
  simp only [col_inv]

theorem addRoundKey_length (m k : Mat) (hm : m.length = 16) (hk : k.length = 16) : (addRoundKey m k).length = 16 := by
  simp [addRoundKey, hm, hk]

theorem addRoundKey_invol : ∀ (m k : Mat), m.length = k.length → addRoundKey (addRoundKey m k) k = m := by
  intro m
  induction m with
  | nil => intro k _; simp [addRoundKey]
  | cons a t ih =>
    intro k h
    cases k with
    | nil => simp at h
    | cons b u =>
      have := ih u (by simpa using h)
      simp only [addRoundKey, List.zipWith_cons_cons] at this ⊢
      rw [this, UInt8.xor_assoc, UInt8.xor_self, UInt8.xor_zero]

end Tbox.C19.Aes

namespace Tbox.C19.Aes
open Tbox.C19 Tbox.C19.B64
set_option maxRecDepth 100000

variable (sbinv : ∀ x : UInt8, invSbox gen (sbox gen x) = x)
include sbinv

theorem invSubBytes_subBytes (m : Mat) : invSubBytes gen (subBytes gen m) = m := by
  unfold invSubBytes subBytes
  rw [List.map_map]
  have : (invSbox gen ∘ sbox gen) = id := by funext x; exact sbinv x
  rw [this, List.map_id]

omit sbinv in
theorem subBytes_length (T : Tables) (m : Mat) : (subBytes T m).length = m.length := by simp [subBytes]

omit sbinv in
theorem encRound_length (T : Tables) (w : List Mat) (x : Mat) (i : Nat) (hw : ∀ i, (wAt w i).length = 16) :
    (encRound T w x i).length = 16 := by
  unfold encRound
  apply addRoundKey_length _ _ _ (hw i)
  split
  · exact mixColumns_length _
  · exact shiftRows_length _

theorem round_mid (w : List Mat) (x : Mat) (i : Nat) (hw : ∀ i, (wAt w i).length = 16) (h10 : i ≠ 10) (h0 : i ≠ 0) :
    decRound gen w (shiftRows (subBytes gen (encRound gen w x i))) i = shiftRows (subBytes gen x) := by
  have hl := encRound_length gen w x i hw
  unfold decRound
  rw [invShiftRows_shiftRows _ (by rw [subBytes_length]; exact hl), invSubBytes_subBytes sbinv]
  unfold encRound
  simp only [h10, h0, ne_eq, not_false_eq_true, if_true]
  rw [addRoundKey_invol _ _ (by rw [mixColumns_length, hw i]), invMixColumns_mixColumns _ (shiftRows_length _)]

omit sbinv in
theorem round_last (w : List Mat) (x : Mat) (hw : ∀ i, (wAt w i).length = 16) :
    addRoundKey (encRound gen w x 10) (wAt w 10) = shiftRows (subBytes gen x) := by
  unfold encRound
  simp only [ne_eq, not_true_eq_false, if_false]
  exact addRoundKey_invol _ _ (by rw [shiftRows_length, hw 10])

theorem round_first (w : List Mat) (st : Mat) (hs : st.length = 16) (hw : ∀ i, (wAt w i).length = 16) :
    decRound gen w (shiftRows (subBytes gen (addRoundKey st (wAt w 0)))) 0 = st := by
  unfold decRound
  have hl : (addRoundKey st (wAt w 0)).length = 16 := addRoundKey_length _ _ hs (hw 0)
  rw [invShiftRows_shiftRows _ (by rw [subBytes_length]; exact hl), invSubBytes_subBytes sbinv]
  simp only [ne_eq, not_true_eq_false, if_false]
  exact addRoundKey_invol _ _ (by rw [hs, hw 0])

theorem invCipherMat_cipherMat (w : List Mat) (st : Mat) (hs : st.length = 16) (hw : ∀ i, (wAt w i).length = 16) :
    invCipherMat gen w (cipherMat gen w st) = st := by
  unfold invCipherMat cipherMat
  have hr : List.range' 1 10 = [1, 2, 3, 4, 5, 6, 7, 8, 9, 10] := by decide
  rw [hr]
  simp only [List.foldl_cons, List.foldl_nil]
  rw [round_last w _ hw]
  rw [round_mid sbinv w _ 9 hw (by decide) (by decide), round_mid sbinv w _ 8 hw (by decide) (by decide),
    round_mid sbinv w _ 7 hw (by decide) (by decide), round_mid sbinv w _ 6 hw (by decide) (by decide),
    round_mid sbinv w _ 5 hw (by decide) (by decide), round_mid sbinv w _ 4 hw (by decide) (by decide),
    round_mid sbinv w _ 3 hw (by decide) (by decide), round_mid sbinv w _ 2 hw (by decide) (by decide),
    round_mid sbinv w _ 1 hw (by decide) (by decide)]
  exact round_first sbinv w st hs hw

omit sbinv in
theorem keyExpansion_lengths (T : Tables) (key : List UInt8) : ∀ m ∈ keyExpansion T key, m.length = 16 := by
  unfold keyExpansion
  suffices h : ∀ (rcs : List UInt8) (ws : List Mat), (∀ m ∈ ws, m.length = 16) →
      ∀ m ∈ rcs.foldl (fun ws rc => ws ++ [nextKey T (ws.getLastD (transpose key)) rc]) ws, m.length = 16 from
    h _ _ (by intro m hm; simp at hm; subst hm; exact transpose_length _)
  intro rcs
  induction rcs with
  | nil => intro ws h; simpa using h
  | cons rc r ih =>
    intro ws h
    simp only [List.foldl_cons]
    apply ih
    intro m hm
    simp only [List.mem_append, List.mem_singleton] at hm
    rcases hm with hm | hm
    · exact h m hm
    · subst hm; exact nextKey_length _ _ _

omit sbinv in
theorem wAt_length (T : Tables) (key : List UInt8) (i : Nat) : (wAt (keyExpansion T key) i).length = 16 := by
  unfold wAt
  rw [List.getD_eq_getElem?_getD]
  cases h : (keyExpansion T key)[i]? with
  | none => simp
  | some m => exact keyExpansion_lengths T key m (List.mem_of_getElem? h)

omit sbinv in
theorem cipherMat_length (T : Tables) (w : List Mat) (st : Mat) (hw : ∀ i, (wAt w i).length = 16) :
    (cipherMat T w st).length = 16 := by
  unfold cipherMat
  have hr : List.range' 1 10 = [1, 2, 3, 4, 5, 6, 7, 8, 9, 10] := by decide
  rw [hr]
  simp only [List.foldl_cons, List.foldl_nil]
  exact encRound_length T w _ 10 hw

theorem invCipher_cipher (key block : List UInt8) (hb : block.length = 16) :
    invCipher gen key (cipher gen key block) = block := by
  unfold invCipher cipher
  have hw := wAt_length gen key
  rw [transpose_transpose _ (cipherMat_length gen _ _ hw), invCipherMat_cipherMat sbinv _ _ (transpose_length _) hw,
    transpose_transpose _ hb]

end Tbox.C19.Aes
