/- C19 — the transcribed AES-128 (matrix layout and loops of aes.cpp, tables from the source) equals the FIPS-197
definition `Spec.aesCipher` / `Spec.aesInvCipher` for every key and block. -/
import TboxModel.C19.AesProofs
import TboxModel.C19.TableProofs
namespace Tbox.C19.Aes
open Tbox.C19 Tbox.C19.B64 Tbox.C19.Spec
set_option maxRecDepth 100000

/-! ### tables and field multiplication -/
theorem sbox_table_all : Gen.aesSbox = (List.range' 0 256).map (fun i => sboxSpec (UInt8.ofNat i)) := by
  have h := list_four_chunks Gen.aesSbox _ _ _ _ (by decide +kernel) sbox_chunk0 sbox_chunk1 sbox_chunk2 sbox_chunk3
  rw [h]
  unfold sboxChunk
  rw [← List.map_append, ← List.map_append, ← List.map_append]
  congr 1

theorem sbox_eq (x : UInt8) : sbox gen x = sboxSpec x := by
  unfold sbox gen
  simp only
  rw [sbox_table_all, List.getD_eq_getElem?_getD, List.getElem?_map, List.getElem?_range' (by simpa using x.toNat_lt)]
  simp

def invSboxOn (lo : Nat) : Bool :=
  (List.range' lo 64).all fun i => invSbox gen (UInt8.ofNat i) = invSboxSpec (UInt8.ofNat i)
theorem invSbox_c0 : invSboxOn 0 = true := by decide +kernel
theorem invSbox_c1 : invSboxOn 64 = true := by decide +kernel
theorem invSbox_c2 : invSboxOn 128 = true := by decide +kernel
theorem invSbox_c3 : invSboxOn 192 = true := by decide +kernel

theorem invSbox_eq (x : UInt8) : invSbox gen x = invSboxSpec x := by
  have hx : x = UInt8.ofNat x.toNat := by simp
  have hlt : x.toNat < 256 := x.toNat_lt
  have key : ∀ lo, invSboxOn lo = true → lo ≤ x.toNat → x.toNat < lo + 64 →
      invSbox gen (UInt8.ofNat x.toNat) = invSboxSpec (UInt8.ofNat x.toNat) := by
    intro lo h h1 h2
    unfold invSboxOn at h
    rw [List.all_eq_true] at h
    have := h x.toNat (by rw [List.mem_range'_1]; omega)
    simpa using this
  rw [hx]
  by_cases h1 : x.toNat < 64
  · exact key 0 invSbox_c0 (by omega) (by omega)
  by_cases h2 : x.toNat < 128
  · exact key 64 invSbox_c1 (by omega) (by omega)
  by_cases h3 : x.toNat < 192
  · exact key 128 invSbox_c2 (by omega) (by omega)
  · exact key 192 invSbox_c3 (by omega) (by omega)

theorem ffmul1 (x : UInt8) : ffmul 0x01 x = x := by revert x; apply u8_all; decide +kernel
theorem ffmul2 (x : UInt8) : ffmul 0x02 x = gmul 2 x := by revert x; apply u8_all; decide +kernel
theorem ffmul3 (x : UInt8) : ffmul 0x03 x = gmul 3 x := by revert x; apply u8_all; decide +kernel
theorem ffmul9 (x : UInt8) : ffmul 0x09 x = gmul 0x09 x := by revert x; apply u8_all; decide +kernel
theorem ffmulb (x : UInt8) : ffmul 0x0b x = gmul 0x0b x := by revert x; apply u8_all; decide +kernel
theorem ffmuld (x : UInt8) : ffmul 0x0d x = gmul 0x0d x := by revert x; apply u8_all; decide +kernel
theorem ffmule (x : UInt8) : ffmul 0x0e x = gmul 0x0e x := by revert x; apply u8_all; decide +kernel

theorem rcon_take : gen.rcon.take 10 = (List.range' 1 10).map (fun j => gpow 2 (j - 1)) := by decide +kernel

end Tbox.C19.Aes

namespace Tbox.C19.Aes
open Tbox.C19 Tbox.C19.B64 Tbox.C19.Spec
set_option maxRecDepth 100000

theorem t_sub (st : List UInt8) (h : st.length = 16) : transpose (aesSubBytes st) = subBytes gen (transpose st) := by
  obtain ⟨a0, a1, a2, a3, a4, a5, a6, a7, a8, a9, a10, a11, a12, a13, a14, a15, rfl⟩ := len16 st h
  simp [aesSubBytes, subBytes, transpose, mk, sbox_eq]

theorem t_invsub (st : List UInt8) (h : st.length = 16) : transpose (aesInvSubBytes st) = invSubBytes gen (transpose st) := by
  obtain ⟨a0, a1, a2, a3, a4, a5, a6, a7, a8, a9, a10, a11, a12, a13, a14, a15, rfl⟩ := len16 st h
  simp [aesInvSubBytes, invSubBytes, transpose, mk, invSbox_eq]

theorem t_shift (st : List UInt8) (h : st.length = 16) : transpose (aesShiftRows st) = shiftRows (transpose st) := by
  obtain ⟨a0, a1, a2, a3, a4, a5, a6, a7, a8, a9, a10, a11, a12, a13, a14, a15, rfl⟩ := len16 st h
  rfl

theorem t_invshift (st : List UInt8) (h : st.length = 16) : transpose (aesInvShiftRows st) = invShiftRows (transpose st) := by
  obtain ⟨a0, a1, a2, a3, a4, a5, a6, a7, a8, a9, a10, a11, a12, a13, a14, a15, rfl⟩ := len16 st h
  rfl

theorem t_xor (st k : List UInt8) (h : st.length = 16) (hk : k.length = 16) :
    transpose (aesXor st k) = addRoundKey (transpose st) (transpose k) := by
  obtain ⟨a0, a1, a2, a3, a4, a5, a6, a7, a8, a9, a10, a11, a12, a13, a14, a15, rfl⟩ := len16 st h
  obtain ⟨k0, k1, k2, k3, k4, k5, k6, k7, k8, k9, k10, k11, k12, k13, k14, k15, rfl⟩ := len16 k hk
  rfl

theorem t_mix (st : List UInt8) (h : st.length = 16) : transpose (aesMixColumns st) = mixColumns (transpose st) := by
  obtain ⟨a0, a1, a2, a3, a4, a5, a6, a7, a8, a9, a10, a11, a12, a13, a14, a15, rfl⟩ := len16 st h
  simp only [aesMixColumns, aesMixCol, mixColumns, transpose, mk, at_, List.getD_cons_zero, List.getD_cons_succ,
    Nat.reduceAdd, Nat.reduceMul, Nat.reduceMod, List.cons_append, List.nil_append, List.append_nil,
    ffmul1, ffmul2, ffmul3, List.cons.injEq, and_true]
  refine ⟨?_, ?_, ?_, ?_, ?_, ?_, ?_, ?_, ?_, ?_, ?_, ?_, ?_, ?_, ?_, ?_⟩ <;> first | trivial | ac_rfl

theorem t_invmix (st : List UInt8) (h : st.length = 16) : transpose (aesInvMixColumns st) = invMixColumns (transpose st) := by
  obtain ⟨a0, a1, a2, a3, a4, a5, a6, a7, a8, a9, a10, a11, a12, a13, a14, a15, rfl⟩ := len16 st h
  simp only [aesInvMixColumns, aesInvMixCol, invMixColumns, transpose, mk, at_, List.getD_cons_zero, List.getD_cons_succ,
    Nat.reduceAdd, Nat.reduceMul, Nat.reduceMod, List.cons_append, List.nil_append, List.append_nil,
    ffmul9, ffmulb, ffmuld, ffmule, List.cons.injEq, and_true]
  refine ⟨?_, ?_, ?_, ?_, ?_, ?_, ?_, ?_, ?_, ?_, ?_, ?_, ?_, ?_, ?_, ?_⟩ <;> first | trivial | ac_rfl


/-! ### lengths on the FIPS side -/
theorem aesXor_length (a b : List UInt8) (ha : a.length = 16) (hb : b.length = 16) : (aesXor a b).length = 16 := by
  simp [aesXor, ha, hb]
theorem aesShiftRows_length (st : List UInt8) : (aesShiftRows st).length = 16 := by simp [aesShiftRows]
theorem aesInvShiftRows_length (st : List UInt8) : (aesInvShiftRows st).length = 16 := by simp [aesInvShiftRows]
theorem aesSubBytes_length (st : List UInt8) : (aesSubBytes st).length = st.length := by simp [aesSubBytes]
theorem aesInvSubBytes_length (st : List UInt8) : (aesInvSubBytes st).length = st.length := by simp [aesInvSubBytes]
theorem aesMixColumns_length (st : List UInt8) (h : st.length = 16) : (aesMixColumns st).length = 16 := by
  obtain ⟨a0, a1, a2, a3, a4, a5, a6, a7, a8, a9, a10, a11, a12, a13, a14, a15, rfl⟩ := len16 st h
  rfl
theorem aesInvMixColumns_length (st : List UInt8) (h : st.length = 16) : (aesInvMixColumns st).length = 16 := by
  obtain ⟨a0, a1, a2, a3, a4, a5, a6, a7, a8, a9, a10, a11, a12, a13, a14, a15, rfl⟩ := len16 st h
  rfl

/-! ### rounds -/
variable (w : List Mat) (rk : Nat → List UInt8)

theorem enc_round_eq (st : List UInt8) (h : st.length = 16) (i : Nat) (hi : i ≠ 10)
    (hk : wAt w i = transpose (rk i)) (hl : (rk i).length = 16) :
    encRound gen w (transpose st) i
      = transpose (aesXor (aesMixColumns (aesShiftRows (aesSubBytes st))) (rk i)) := by
  unfold encRound
  simp only [hi, ne_eq, not_false_eq_true, if_true]
  rw [t_xor _ _ (aesMixColumns_length _ (aesShiftRows_length _)) hl, t_mix _ (aesShiftRows_length _),
    t_shift _ (by rw [aesSubBytes_length]; exact h), t_sub _ h, hk]

theorem enc_last_eq (st : List UInt8) (h : st.length = 16)
    (hk : wAt w 10 = transpose (rk 10)) (hl : (rk 10).length = 16) :
    encRound gen w (transpose st) 10 = transpose (aesXor (aesShiftRows (aesSubBytes st)) (rk 10)) := by
  unfold encRound
  simp only [ne_eq, not_true_eq_false, if_false]
  rw [t_xor _ _ (aesShiftRows_length _) hl, t_shift _ (by rw [aesSubBytes_length]; exact h), t_sub _ h, hk]

theorem dec_round_eq (st : List UInt8) (h : st.length = 16) (i : Nat) (hi : i ≠ 0)
    (hk : wAt w i = transpose (rk i)) (hl : (rk i).length = 16) :
    decRound gen w (transpose st) i
      = transpose (aesInvMixColumns (aesXor (aesInvSubBytes (aesInvShiftRows st)) (rk i))) := by
  unfold decRound
  simp only [hi, ne_eq, not_false_eq_true, if_true]
  have l1 : (aesInvSubBytes (aesInvShiftRows st)).length = 16 := by
    rw [aesInvSubBytes_length]; exact aesInvShiftRows_length _
  rw [t_invmix _ (aesXor_length _ _ l1 hl), t_xor _ _ l1 hl, t_invsub _ (aesInvShiftRows_length _), t_invshift _ h, hk]

theorem dec_last_eq (st : List UInt8) (h : st.length = 16)
    (hk : wAt w 0 = transpose (rk 0)) (hl : (rk 0).length = 16) :
    decRound gen w (transpose st) 0 = transpose (aesXor (aesInvSubBytes (aesInvShiftRows st)) (rk 0)) := by
  unfold decRound
  simp only [ne_eq, not_true_eq_false, if_false]
  have l1 : (aesInvSubBytes (aesInvShiftRows st)).length = 16 := by
    rw [aesInvSubBytes_length]; exact aesInvShiftRows_length _
  rw [t_xor _ _ l1 hl, t_invsub _ (aesInvShiftRows_length _), t_invshift _ h, hk]

/-- the FIPS round function used by `aesCipher` -/
def sRound (st : List UInt8) (r : Nat) : List UInt8 :=
  aesXor (aesMixColumns (aesShiftRows (aesSubBytes st))) (rk r)
def sInvRound (st : List UInt8) (r : Nat) : List UInt8 :=
  aesInvMixColumns (aesXor (aesInvSubBytes (aesInvShiftRows st)) (rk r))

theorem sRound_length (st : List UInt8) (r : Nat) (hl : (rk r).length = 16) : (sRound rk st r).length = 16 :=
  aesXor_length _ _ (aesMixColumns_length _ (aesShiftRows_length _)) hl
theorem sInvRound_length (st : List UInt8) (r : Nat) (hl : (rk r).length = 16) : (sInvRound rk st r).length = 16 :=
  aesInvMixColumns_length _ (aesXor_length _ _ (by rw [aesInvSubBytes_length]; exact aesInvShiftRows_length _) hl)

theorem cipherMat_eq (st : List UInt8) (h : st.length = 16)
    (hk : ∀ i, i ≤ 10 → wAt w i = transpose (rk i)) (hl : ∀ i, i ≤ 10 → (rk i).length = 16) :
    cipherMat gen w (transpose st)
      = transpose (aesXor (aesShiftRows (aesSubBytes
          ((List.range' 1 9).foldl (sRound rk) (aesXor st (rk 0))))) (rk 10)) := by
  unfold cipherMat
  have hr : List.range' 1 10 = [1, 2, 3, 4, 5, 6, 7, 8, 9, 10] := by decide
  have hr9 : List.range' 1 9 = [1, 2, 3, 4, 5, 6, 7, 8, 9] := by decide
  rw [hr, hr9]
  simp only [List.foldl_cons, List.foldl_nil]
  have e0 : addRoundKey (transpose st) (wAt w 0) = transpose (aesXor st (rk 0)) := by
    rw [hk 0 (by omega), t_xor _ _ h (hl 0 (by omega))]
  have l0 : (aesXor st (rk 0)).length = 16 := aesXor_length _ _ h (hl 0 (by omega))
  rw [e0]
  have step : ∀ (x : List UInt8) (i : Nat), x.length = 16 → i ≠ 10 → i ≤ 10 →
      encRound gen w (transpose x) i = transpose (sRound rk x i) :=
    fun x i hx hi hi' => enc_round_eq w rk x hx i hi (hk i hi') (hl i hi')
  have len : ∀ (x : List UInt8) (i : Nat), i ≤ 10 → (sRound rk x i).length = 16 := fun x i hi => sRound_length rk x i (hl i hi)
  rw [step _ 1 l0 (by decide) (by decide), step _ 2 (len _ _ (by decide)) (by decide) (by decide),
    step _ 3 (len _ _ (by decide)) (by decide) (by decide), step _ 4 (len _ _ (by decide)) (by decide) (by decide),
    step _ 5 (len _ _ (by decide)) (by decide) (by decide), step _ 6 (len _ _ (by decide)) (by decide) (by decide),
    step _ 7 (len _ _ (by decide)) (by decide) (by decide), step _ 8 (len _ _ (by decide)) (by decide) (by decide),
    step _ 9 (len _ _ (by decide)) (by decide) (by decide)]
  exact enc_last_eq w rk _ (len _ _ (by decide)) (hk 10 (by omega)) (hl 10 (by omega))

theorem invCipherMat_eq (st : List UInt8) (h : st.length = 16)
    (hk : ∀ i, i ≤ 10 → wAt w i = transpose (rk i)) (hl : ∀ i, i ≤ 10 → (rk i).length = 16) :
    invCipherMat gen w (transpose st)
      = transpose (aesXor (aesInvSubBytes (aesInvShiftRows
          ([9, 8, 7, 6, 5, 4, 3, 2, 1].foldl (sInvRound rk) (aesXor st (rk 10))))) (rk 0)) := by
  unfold invCipherMat
  simp only [List.foldl_cons, List.foldl_nil]
  have e0 : addRoundKey (transpose st) (wAt w 10) = transpose (aesXor st (rk 10)) := by
    rw [hk 10 (by omega), t_xor _ _ h (hl 10 (by omega))]
  have l0 : (aesXor st (rk 10)).length = 16 := aesXor_length _ _ h (hl 10 (by omega))
  rw [e0]
  have step : ∀ (x : List UInt8) (i : Nat), x.length = 16 → i ≠ 0 → i ≤ 10 →
      decRound gen w (transpose x) i = transpose (sInvRound rk x i) :=
    fun x i hx hi hi' => dec_round_eq w rk x hx i hi (hk i hi') (hl i hi')
  have len : ∀ (x : List UInt8) (i : Nat), i ≤ 10 → (sInvRound rk x i).length = 16 := fun x i hi => sInvRound_length rk x i (hl i hi)
  rw [step _ 9 l0 (by decide) (by decide), step _ 8 (len _ _ (by decide)) (by decide) (by decide),
    step _ 7 (len _ _ (by decide)) (by decide) (by decide), step _ 6 (len _ _ (by decide)) (by decide) (by decide),
    step _ 5 (len _ _ (by decide)) (by decide) (by decide), step _ 4 (len _ _ (by decide)) (by decide) (by decide),
    step _ 3 (len _ _ (by decide)) (by decide) (by decide), step _ 2 (len _ _ (by decide)) (by decide) (by decide),
    step _ 1 (len _ _ (by decide)) (by decide) (by decide)]
  exact dec_last_eq w rk _ (len _ _ (by decide)) (hk 0 (by omega)) (hl 0 (by omega))


/-! ### key schedule -/
/-- the four column words of a row-major matrix -/
def colsOf (m : Mat) : List (List UInt8) :=
  [[at_ m 0 0, at_ m 1 0, at_ m 2 0, at_ m 3 0], [at_ m 0 1, at_ m 1 1, at_ m 2 1, at_ m 3 1],
   [at_ m 0 2, at_ m 1 2, at_ m 2 2, at_ m 3 2], [at_ m 0 3, at_ m 1 3, at_ m 2 3, at_ m 3 3]]

/-- the model's round keys from one key on -/
def ksFrom : Mat → List UInt8 → List Mat
  | prev, [] => [prev]
  | prev, rc :: r => prev :: ksFrom (nextKey gen prev rc) r

theorem ksFrom_length : ∀ (rcs : List UInt8) (prev : Mat), (ksFrom prev rcs).length = rcs.length + 1 := by
  intro rcs; induction rcs with
  | nil => intro p; rfl
  | cons rc r ih => intro p; simp [ksFrom, ih]

theorem ksFrom_lengths : ∀ (rcs : List UInt8) (prev : Mat), prev.length = 16 → ∀ m ∈ ksFrom prev rcs, m.length = 16 := by
  intro rcs; induction rcs with
  | nil => intro p hp m hm; simp [ksFrom] at hm; subst hm; exact hp
  | cons rc r ih =>
    intro p hp m hm
    simp only [ksFrom, List.mem_cons] at hm
    rcases hm with rfl | hm
    · exact hp
    · exact ih _ (nextKey_length _ _ _) m hm

theorem model_ks (w0 : Mat) : ∀ (rcs : List UInt8) (Ms : List Mat) (prev : Mat),
    rcs.foldl (fun ws rc => ws ++ [nextKey gen (ws.getLastD w0) rc]) (Ms ++ [prev]) = Ms ++ ksFrom prev rcs := by
  intro rcs
  induction rcs with
  | nil => intro Ms prev; rfl
  | cons rc r ih =>
    intro Ms prev
    simp only [List.foldl_cons, ksFrom]
    have hl : (Ms ++ [prev]).getLastD w0 = prev := by simp [List.getLastD_eq_getLast?]
    rw [hl, ih (Ms ++ [prev]) (nextKey gen prev rc)]
    simp

theorem getD_app {α} (pre l : List α) (j : Nat) (d : α) : (pre ++ l).getD (pre.length + j) d = l.getD j d := by
  simp [List.getD_eq_getElem?_getD, List.getElem?_append_right]

/-- four steps of the FIPS word recursion = one `nextKey` of the source -/
theorem key_round (pre : List (List UInt8)) (prev : Mat) (hp : prev.length = 16) (hn : pre.length % 4 = 0) :
    [pre.length + 4, pre.length + 5, pre.length + 6, pre.length + 7].foldl aesKeyStep (pre ++ colsOf prev)
      = (pre ++ colsOf prev) ++ colsOf (nextKey gen prev (gpow 2 (pre.length / 4))) := by
  obtain ⟨a0, a1, a2, a3, a4, a5, a6, a7, a8, a9, a10, a11, a12, a13, a14, a15, rfl⟩ := len16 prev hp
  have g : ∀ (l : List (List UInt8)) (j : Nat), (pre ++ l).getD (pre.length + j) [] = l.getD j [] :=
    fun l j => getD_app pre l j []
  have m0 : (pre.length + 4) % 4 = 0 := by omega
  have m1 : (pre.length + 5) % 4 ≠ 0 := by omega
  have m2 : (pre.length + 6) % 4 ≠ 0 := by omega
  have m3 : (pre.length + 7) % 4 ≠ 0 := by omega
  have d0 : (pre.length + 4) / 4 - 1 = pre.length / 4 := by omega
  simp only [List.foldl_cons, List.foldl_nil, aesKeyStep, m0, m1, m2, m3, if_true, if_false, d0, List.append_assoc,
    show pre.length + 4 - 1 = pre.length + 3 by omega, show pre.length + 4 - 4 = pre.length + 0 by omega,
    show pre.length + 5 - 1 = pre.length + 4 by omega, show pre.length + 5 - 4 = pre.length + 1 by omega,
    show pre.length + 6 - 1 = pre.length + 5 by omega, show pre.length + 6 - 4 = pre.length + 2 by omega,
    show pre.length + 7 - 1 = pre.length + 6 by omega, show pre.length + 7 - 4 = pre.length + 3 by omega, g]
  simp [colsOf, at_, nextKey, mk, aesXor, aesRotWord, sbox_eq]


theorem key_rounds : ∀ (n : Nat) (pre : List (List UInt8)) (prev : Mat), prev.length = 16 → pre.length % 4 = 0 →
    (List.range' (pre.length + 4) (4 * n)).foldl aesKeyStep (pre ++ colsOf prev)
      = pre ++ (ksFrom prev ((List.range' (pre.length / 4 + 1) n).map (fun j => gpow 2 (j - 1)))).flatMap colsOf := by
  intro n
  induction n with
  | zero => intro pre prev _ _; simp [ksFrom]
  | succ n ih =>
    intro pre prev hp hn
    have e : List.range' (pre.length + 4) (4 * (n + 1))
        = [pre.length + 4, pre.length + 5, pre.length + 6, pre.length + 7] ++ List.range' (pre.length + 4 + 4) (4 * n) := by
      have : 4 * (n + 1) = 4 + 4 * n := by omega
      rw [this, ← List.range'_append_1]
      simp [List.range'_succ]
    rw [e, List.foldl_append, key_round pre prev hp hn]
    have hl : (pre ++ colsOf prev).length = pre.length + 4 := by simp [colsOf]
    have := ih (pre ++ colsOf prev) (nextKey gen prev (gpow 2 (pre.length / 4))) (nextKey_length _ _ _) (by rw [hl]; omega)
    rw [hl] at this
    rw [this]
    have e2 : (pre.length + 4) / 4 + 1 = pre.length / 4 + 1 + 1 := by omega
    rw [e2, List.range'_succ, List.map_cons, ksFrom]
    simp

/-- `key_rounds` with every index as a parameter (so that instances need no unfolding) -/
theorem key_rounds' (n m s r : Nat) (pre start : List (List UInt8)) (prev : Mat) (hp : prev.length = 16)
    (hn : pre.length % 4 = 0) (hm : m = 4 * n) (hs : s = pre.length + 4) (hr : r = pre.length / 4 + 1)
    (hst : start = pre ++ colsOf prev) :
    (List.range' s m).foldl aesKeyStep start
      = pre ++ (ksFrom prev ((List.range' r n).map (fun j => gpow 2 (j - 1)))).flatMap colsOf := by
  subst hm hs hr hst
  exact key_rounds n pre prev hp hn

theorem drop_take_cols : ∀ (Ms : List Mat) (i : Nat) (h : i < Ms.length),
    ((Ms.flatMap colsOf).drop (4 * i)).take 4 = colsOf Ms[i] := by
  intro Ms
  induction Ms with
  | nil => intro i h; simp at h
  | cons M r ih =>
    intro i h
    cases i with
    | zero => simp [colsOf]
    | succ j =>
      have : 4 * (j + 1) = (colsOf M).length + 4 * j := by simp [colsOf]; omega
      rw [List.flatMap_cons, this, ← List.drop_drop, List.drop_left]
      simpa using ih j (by simpa using h)

theorem transpose_cols (m : Mat) (h : m.length = 16) : transpose (colsOf m).flatten = m := by
  obtain ⟨a0, a1, a2, a3, a4, a5, a6, a7, a8, a9, a10, a11, a12, a13, a14, a15, rfl⟩ := len16 m h
  rfl

theorem key_words (key : List UInt8) (h : key.length = 16) :
    aesKeyWords key = (keyExpansion gen key).flatMap colsOf := by
  have hm : keyExpansion gen key = ksFrom (transpose key) ((List.range' 1 10).map (fun j => gpow 2 (j - 1))) := by
    unfold keyExpansion
    rw [rcon_take]
    simpa using model_ks (transpose key) ((List.range' 1 10).map (fun j => gpow 2 (j - 1))) [] (transpose key)
  have hs : [key.take 4, (key.drop 4).take 4, (key.drop 8).take 4, (key.drop 12).take 4] = colsOf (transpose key) := by
    obtain ⟨a0, a1, a2, a3, a4, a5, a6, a7, a8, a9, a10, a11, a12, a13, a14, a15, rfl⟩ := len16 key h
    rfl
  unfold aesKeyWords
  rw [hs, hm]
  have h10 := key_rounds' 10 40 4 1 [] (colsOf (transpose key)) (transpose key) (transpose_length _) rfl rfl rfl rfl rfl
  rw [h10, List.nil_append]

/-- every round key of the source is the FIPS round key in the matrix layout -/
theorem round_keys (key : List UInt8) (h : key.length = 16) (i : Nat) (hi : i ≤ 10) :
    wAt (keyExpansion gen key) i = transpose (aesRoundKey (aesKeyWords key) i)
      ∧ (aesRoundKey (aesKeyWords key) i).length = 16 := by
  have hlen : (keyExpansion gen key).length = 11 := by
    unfold keyExpansion
    have := model_ks (transpose key) (gen.rcon.take 10) [] (transpose key)
    simp only [List.nil_append] at this
    rw [this, ksFrom_length, rcon_take]; simp
  have hi' : i < (keyExpansion gen key).length := by omega
  have hM : ((keyExpansion gen key)[i]).length = 16 := keyExpansion_lengths gen key _ (List.getElem_mem hi')
  unfold aesRoundKey
  rw [key_words key h, drop_take_cols _ i hi']
  have hw : wAt (keyExpansion gen key) i = (keyExpansion gen key)[i] := by
    unfold wAt; simp [List.getD_eq_getElem?_getD, List.getElem?_eq_getElem hi']
  rw [hw]
  refine ⟨?_, ?_⟩
  · exact (transpose_cols _ hM).symm
  · simp [colsOf]

theorem cipher_eq_spec (key block : List UInt8) (hk : key.length = 16) (hb : block.length = 16) :
    cipher gen key block = aesCipher key block := by
  unfold cipher
  rw [cipherMat_eq (keyExpansion gen key) (aesRoundKey (aesKeyWords key)) block hb
    (fun i hi => (round_keys key hk i hi).1) (fun i hi => (round_keys key hk i hi).2)]
  rw [transpose_transpose _ (aesXor_length _ _ (aesShiftRows_length _) (round_keys key hk 10 (by omega)).2)]
  rfl

theorem invCipher_eq_spec (key block : List UInt8) (hk : key.length = 16) (hb : block.length = 16) :
    invCipher gen key block = aesInvCipher key block := by
  unfold invCipher
  rw [invCipherMat_eq (keyExpansion gen key) (aesRoundKey (aesKeyWords key)) block hb
    (fun i hi => (round_keys key hk i hi).1) (fun i hi => (round_keys key hk i hi).2)]
  rw [transpose_transpose _ (aesXor_length _ _ (by rw [aesInvSubBytes_length]; exact aesInvShiftRows_length _)
    (round_keys key hk 0 (by omega)).2)]
  rfl

end Tbox.C19.Aes
