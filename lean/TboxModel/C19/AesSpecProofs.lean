/- C19 — the transcribed AES-128 (matrix layout and loops of aes.cpp, tables from the source) equals the FIPS-197
definition `Spec.aesCipher` / `Spec.aesInvCipher` for every key and block. -/
import TboxModel.C19.AesProofs
import TboxModel.C19.TableProofs
namespace Tbox.C19.Aes
open Tbox.C19 Tbox.C19.B64 Tbox.C19.Spec
set_option maxRecDepth 100000

/-! ### tables and field multiplication -/
theorem sbox_table_all : Gen.aesSbox = (List.range' 0 256).map (fun i => sboxSpec (UInt8.ofNat i)) := by
  have h := list_four_chunks Gen.aesSbox _ _ _ _ (by decide +kernel) sbox_chunk0 sbox_chunk1 sbox_chunk2 sbox_chunk3
  rw [h]
  unfold sboxChunk
  rw [← List.map_append, ← List.map_append, ← List.map_append]
  congr 1

theorem sbox_eq (x : UInt8) : sbox gen x = sboxSpec x := by
  unfold sbox gen
  simp only
  rw [sbox_table_all, List.getD_eq_getElem?_getD, List.getElem?_map, List.getElem?_range' (by simpa using x.toNat_lt)]
  simp

def invSboxOn (lo : Nat) : Bool :=
  (List.range' lo 64).all fun i => invSbox gen (UInt8.ofNat i) = invSboxSpec (UInt8.ofNat i)
theorem invSbox_c0 : invSboxOn 0 = true := by decide +kernel
theorem invSbox_c1 : invSboxOn 64 = true := by decide +kernel
theorem invSbox_c2 : invSboxOn 128 = true := by decide +kernel
theorem invSbox_c3 : invSboxOn 192 = true := by decide +kernel

theorem invSbox_eq (x : UInt8) : invSbox gen x = invSboxSpec x := by
  have hx : x = UInt8.ofNat x.toNat := by simp
  have hlt : x.toNat < 256 := x.toNat_lt
  have key : ∀ lo, invSboxOn lo = true → lo ≤ x.toNat → x.toNat < lo + 64 →
      invSbox gen (UInt8.ofNat x.toNat) = invSboxSpec (UInt8.ofNat x.toNat) := by
    intro lo h h1 h2
    unfold invSboxOn at h
    rw [List.all_eq_true] at h
    have := h x.toNat (by rw [List.mem_range'_1]; omega)
    simpa using this
  rw [hx]
  by_cases h1 : x.toNat < 64
  · exact key 0 invSbox_c0 (by omega) (by omega)
  by_cases h2 : x.toNat < 128
  · exact key 64 invSbox_c1 (by omega) (by omega)
  by_cases h3 : x.toNat < 192
  · exact key 128 invSbox_c2 (by omega) (by omega)
  · exact key 192 invSbox_c3 (by omega) (by omega)

theorem ffmul1 (x : UInt8) : ffmul 0x01 x = x := by revert x; apply u8_all; decide +kernel
theorem ffmul2 (x : UInt8) : ffmul 0x02 x = gmul 2 x := by revert x; apply u8_all; decide +kernel
theorem ffmul3 (x : UInt8) : ffmul 0x03 x = gmul 3 x := by revert x; apply u8_all; decide +kernel
theorem ffmul9 (x : UInt8) : ffmul 0x09 x = gmul 0x09 x := by revert x; apply u8_all; decide +kernel
theorem ffmulb (x : UInt8) : ffmul 0x0b x = gmul 0x0b x := by revert x; apply u8_all; decide +kernel
theorem ffmuld (x : UInt8) : ffmul 0x0d x = gmul 0x0d x := by revert x; apply u8_all; decide +kernel
theorem ffmule (x : UInt8) : ffmul 0x0e x = gmul 0x0e x := by revert x; apply u8_all; decide +kernel

theorem rcon_take : gen.rcon.take 10 = (List.range' 1 10).map (fun j => gpow 2 (j - 1)) := by decide +kernel

end Tbox.C19.Aes
