/- C19 round 10 — aliased buffers (core Lean only).

1. In-place Base64 decoding: `Decode(p + src, n, p + dst, cap)` with text and output in ONE memory. The model keeps a
   single byte list; every character is read from it at the moment the code reads it (so it sees earlier stores) and
   every store goes into it.
2. Serializer self-append: `ser.append(own storage + off, k)`. In vector mode `extendSize` calls `vector::resize`,
   which reallocates iff the new size exceeds the capacity; the source pointer then points into the freed block. The
   capacity is an oracle input (`vcap`), like the allocator of C07. -/
import TboxModel.C19.Base64
import TboxModel.C19.Ser
namespace Tbox.C19

namespace B64

/-- `out_bytes[w_pos++] = b` into the shared memory (`at` = dst + w_pos) -/
def memStore (mem : List UInt8) (i : Nat) (b : UInt8) : Res (List UInt8) :=
  if i < mem.length then .ok (mem.set i b) else .oob "write out"

/-- the decoder loop over one memory. `k` = characters left (`base64_len - r_pos`), `pos` = `r_pos`, `w` = `w_pos`.
Result: (no invalid character met, `w_pos`, memory afterwards). -/
def decIpGo (src dst cap : Nat) : Nat → Nat → UInt8 → Nat → List UInt8 → Res (Bool × Nat × List UInt8)
  | 0, _, _, w, mem => .ok (true, w, mem)
  | k + 1, pos, tmp, w, mem =>
    match mem[src + pos]? with
    | none => .oob "read in"
    | some c =>
      if c = pad then .ok (true, w, mem)
      else do
        match ← lookup c with
        | none => pure (false, w, mem)
        | some v =>
          match pos % 4 with
          | 0 => decIpGo src dst cap k (pos + 1) (v <<< 2) w mem
          | 1 => if w < cap then do
                   let m ← memStore mem (dst + w) (tmp ||| (v >>> 4))
                   decIpGo src dst cap k (pos + 1) (v <<< 4) (w + 1) m
                 else .oob "write out"
          | 2 => if w < cap then do
                   let m ← memStore mem (dst + w) (tmp ||| (v >>> 2))
                   decIpGo src dst cap k (pos + 1) (v <<< 6) (w + 1) m
                 else .oob "write out"
          | _ => if w < cap then do
                   let m ← memStore mem (dst + w) (tmp ||| v)
                   decIpGo src dst cap k (pos + 1) tmp (w + 1) m
                 else .oob "write out"

/-- `Decode(p + src, n, p + dst, cap)` on the memory `mem` (`p` = its first byte): return value and memory afterwards.
`DecodeLength` reads the last two characters before the first store, hence from the unmodified text. -/
def decodeIp (mem : List UInt8) (src n dst cap : Nat) : Res (Nat × List UInt8) :=
  let s := (mem.drop src).take n
  if s.length ≠ n then .oob "read in"
  else if n % 4 ≠ 0 then .ok (0, mem)
  else if decodeLength s > cap then .ok (0, mem)
  else do
    let (good, w, m) ← decIpGo src dst cap n 0 0 0 mem
    pure (if good then w else 0, m)

/-- what the caller sees of an in-place call: the return value and the `ret` bytes at the output pointer -/
def ipView (dst : Nat) (r : Res (Nat × List UInt8)) : Res (Nat × List UInt8) :=
  match r with
  | .ok (n, m) => .ok (n, (m.drop dst).take n)
  | .oob w => .oob w
  | .exc e => .exc e
  | .assertFail => .assertFail

end B64

namespace Ser

/-- `ser.append(start + off, k)` / with the source inside the serializer's own written data (`off + k ≤ pos`, the only
in-memory range the caller may name: `none` outside it). `vcap` = `capacity()` of the vector before the call (ignored in
raw mode). Raw mode: source and destination `[pos, pos+k)` are disjoint, nothing moves. Vector mode: `resize(pos + k)`
keeps the block iff `pos + k ≤ capacity`; otherwise the block is reallocated and freed BEFORE `memcpy` reads the source. -/
def S.appendSelf (s : S) (vcap off k : Nat) : Option (Res (Bool × S)) :=
  if off + k > s.pos ∨ (¬ s.raw ∧ s.pos > s.mem.length) then none
  else
    let src := (s.mem.drop off).take k
    if s.raw then some (s.put src)
    else if s.pos + k ≤ max vcap s.mem.length then some (s.put src)
    else some (.oob "read source freed by resize")

end Ser
end Tbox.C19
