/- C19 — helper lemmas for the Base64 model: decoder bounds, bit-field identities (bounded `decide`
over at most 4096 cases each), encoder structure, round trip. -/
import TboxModel.C19.Base64
namespace Tbox.C19.B64
open Tbox.C19
set_option maxRecDepth 100000

theorem u8_of_fin (n : Nat) (a : UInt8) (ha : a.toNat < n) : ∃ i : Fin n, a = UInt8.ofNat i.val :=
  ⟨⟨a.toNat, ha⟩, by simp⟩

theorem u8_all {P : UInt8 → Prop} (h : ∀ i : Fin 256, P (UInt8.ofNat i.val)) (a : UInt8) : P a := by
  obtain ⟨i, rfl⟩ := u8_of_fin 256 a a.toNat_lt
  exact h i

-- ranges of the bit fields
theorem hi6_lt (a : UInt8) : ((a >>> 2) &&& 0x3F).toNat < 64 := u8_all (P := fun a => ((a >>> 2) &&& 0x3F).toNat < 64) (by decide +kernel) a
theorem lo2_lt (a : UInt8) : (a &&& 0x3).toNat < 4 := u8_all (P := fun a => (a &&& 0x3).toNat < 4) (by decide +kernel) a
theorem hi4_lt (a : UInt8) : ((a >>> 4) &&& 0xF).toNat < 16 := u8_all (P := fun a => ((a >>> 4) &&& 0xF).toNat < 16) (by decide +kernel) a
theorem lo4_lt (a : UInt8) : (a &&& 0xF).toNat < 16 := u8_all (P := fun a => (a &&& 0xF).toNat < 16) (by decide +kernel) a
theorem hi2_lt (a : UInt8) : ((a >>> 6) &&& 0x3).toNat < 4 := u8_all (P := fun a => ((a >>> 6) &&& 0x3).toNat < 4) (by decide +kernel) a
theorem lo6_lt (a : UInt8) : (a &&& 0x3F).toNat < 64 := u8_all (P := fun a => (a &&& 0x3F).toNat < 64) (by decide +kernel) a

theorem s1_lt (x y : UInt8) (hx : x.toNat < 4) (hy : y.toNat < 16) : ((x <<< 4) ||| y).toNat < 64 := by
  obtain ⟨i, rfl⟩ := u8_of_fin 4 x hx
  obtain ⟨j, rfl⟩ := u8_of_fin 16 y hy
  revert i j; decide +kernel
theorem s2_lt (x y : UInt8) (hx : x.toNat < 16) (hy : y.toNat < 4) : ((x <<< 2) ||| y).toNat < 64 := by
  obtain ⟨i, rfl⟩ := u8_of_fin 16 x hx
  obtain ⟨j, rfl⟩ := u8_of_fin 4 y hy
  revert i j; decide +kernel
theorem t1_lt (x : UInt8) (hx : x.toNat < 4) : (x <<< 4).toNat < 64 := by
  obtain ⟨i, rfl⟩ := u8_of_fin 4 x hx
  revert i; decide +kernel
theorem t2_lt (x : UInt8) (hx : x.toNat < 16) : (x <<< 2).toNat < 64 := by
  obtain ⟨i, rfl⟩ := u8_of_fin 16 x hx
  revert i; decide +kernel

-- the three output bytes of a full group, and the two tail forms
theorem byte0 (a y : UInt8) (hy : y.toNat < 16) :
    ((((a >>> 2) &&& 0x3F) <<< 2) ||| ((((a &&& 0x3) <<< 4) ||| y) >>> 4)) = a := by
  obtain ⟨j, rfl⟩ := u8_of_fin 16 y hy
  revert a; apply u8_all; revert j; decide +kernel
theorem byte1 (x b z : UInt8) (hx : x.toNat < 4) (hz : z.toNat < 4) :
    ((((x <<< 4) ||| ((b >>> 4) &&& 0xF)) <<< 4) ||| ((((b &&& 0xF) <<< 2) ||| z) >>> 2)) = b := by
  obtain ⟨i, rfl⟩ := u8_of_fin 4 x hx
  obtain ⟨k, rfl⟩ := u8_of_fin 4 z hz
  revert b; apply u8_all; revert i k; decide +kernel
theorem byte2 (y c : UInt8) (hy : y.toNat < 16) :
    ((((y <<< 2) ||| ((c >>> 6) &&& 0x3)) <<< 6) ||| (c &&& 0x3F)) = c := by
  obtain ⟨j, rfl⟩ := u8_of_fin 16 y hy
  revert c; apply u8_all; revert j; decide +kernel
theorem byte0_tail (a : UInt8) :
    ((((a >>> 2) &&& 0x3F) <<< 2) ||| (((a &&& 0x3) <<< 4) >>> 4)) = a := by
  revert a; apply u8_all; decide +kernel
theorem byte1_tail (x b : UInt8) (hx : x.toNat < 4) :
    ((((x <<< 4) ||| ((b >>> 4) &&& 0xF)) <<< 4) ||| (((b &&& 0xF) <<< 2) >>> 2)) = b := by
  obtain ⟨i, rfl⟩ := u8_of_fin 4 x hx
  revert b; apply u8_all; revert i; decide +kernel

/-- the decode table inverts the alphabet on every 6-bit value, and no alphabet character is '=' -/
theorem lookup_en (s : UInt8) (hs : s.toNat < 64) : lookup (en s) = .ok (some s) ∧ en s ≠ pad := by
  obtain ⟨i, rfl⟩ := u8_of_fin 64 s hs
  revert i; decide +kernel
theorem en_ne_pad (s : UInt8) : en s ≠ pad := by
  revert s; apply u8_all; decide +kernel

end Tbox.C19.B64

namespace Tbox.C19.B64
open Tbox.C19

theorem base64de_length : Gen.base64de.length = 128 := by decide +kernel

/-- every lookup stays inside the 128-entry table -/
theorem lookup_ok (c : UInt8) : ∃ r, lookup c = .ok r := by
  unfold lookup
  by_cases h : c ≥ 128
  · simp only [h, if_true]; exact ⟨_, rfl⟩
  · simp only [h, if_false]
    have hc : c.toNat < 128 := by
      have : ¬ (128 : UInt8) ≤ c := h
      rw [UInt8.le_iff_toNat_le] at this
      simpa using this
    unfold tblRead
    rw [List.getElem?_eq_getElem (by rw [base64de_length]; exact hc)]
    exact ⟨_, rfl⟩

/-- number of bytes completed after `p` characters of a quad stream -/
def nw (p : Nat) : Nat := p - (p + 3) / 4

/-- characters before the first '=' -/
def pre (s : List UInt8) : Nat := (s.takeWhile (· ≠ pad)).length

theorem pre_cons_ne (c : UInt8) (r : List UInt8) (h : c ≠ pad) : pre (c :: r) = pre r + 1 := by
  unfold pre; simp [h]

theorem pre_cons_pad (r : List UInt8) : pre (pad :: r) = 0 := by
  unfold pre; simp

theorem pre_le (s : List UInt8) : pre s ≤ s.length := by
  unfold pre; exact (List.takeWhile_sublist _).length_le

/-- the decoder loop never stores beyond the capacity when the capacity covers the bytes completed
before the first '=' -/
theorem decGo_ok (cap : Nat) : ∀ (r : List UInt8) (pos : Nat) (tmp : UInt8) (out : List UInt8),
    out.length = nw pos → nw (pos + pre r) ≤ cap →
    ∃ res, decGo cap pos tmp out r = .ok res ∧ ∀ o, res = some o → o.length = nw (pos + pre r) := by
  intro r
  induction r with
  | nil => intro pos tmp out h _; exact ⟨some out, rfl, by intro o ho; cases ho; simpa [pre] using h⟩
  | cons c r ih =>
    intro pos tmp out hlen hcap
    unfold decGo
    by_cases hp : c = pad
    · subst hp; simp only [if_true]
      exact ⟨some out, rfl, by intro o ho; cases ho; rw [pre_cons_pad]; simpa using hlen⟩
    · simp only [hp, if_false]
      rw [pre_cons_ne c r hp] at hcap ⊢
      obtain ⟨lr, hl⟩ := lookup_ok c
      rw [hl]; simp only [Res.bind_ok]
      cases lr with
      | none => exact ⟨none, rfl, by intro o ho; cases ho⟩
      | some v =>
        simp only
        unfold nw at hlen hcap ⊢
        split
        · rename_i h0
          have := ih (pos + 1) (v <<< 2) out (by unfold nw; omega) (by unfold nw; omega)
          obtain ⟨res, e, f⟩ := this
          exact ⟨res, e, by intro o ho; have := f o ho; unfold nw at this; omega⟩
        · rename_i h1
          have hw : out.length < cap := by omega
          simp only [hw, if_true]
          obtain ⟨res, e, f⟩ := ih (pos + 1) (v <<< 4) (out ++ [tmp ||| (v >>> 4)])
            (by unfold nw; simp; omega) (by unfold nw; omega)
          exact ⟨res, e, by intro o ho; have := f o ho; unfold nw at this; omega⟩
        · rename_i h2
          have hw : out.length < cap := by omega
          simp only [hw, if_true]
          obtain ⟨res, e, f⟩ := ih (pos + 1) (v <<< 6) (out ++ [tmp ||| (v >>> 2)])
            (by unfold nw; simp; omega) (by unfold nw; omega)
          exact ⟨res, e, by intro o ho; have := f o ho; unfold nw at this; omega⟩
        · rename_i h0 h1 h2
          have h0' : pos % 4 ≠ 0 := h0
          have h1' : pos % 4 ≠ 1 := h1
          have h2' : pos % 4 ≠ 2 := h2
          have hw : out.length < cap := by omega
          simp only [hw, if_true]
          obtain ⟨res, e, f⟩ := ih (pos + 1) tmp (out ++ [tmp ||| v])
            (by unfold nw; simp; omega) (by unfold nw; omega)
          exact ⟨res, e, by intro o ho; have := f o ho; unfold nw at this; omega⟩

end Tbox.C19.B64

namespace Tbox.C19.B64
open Tbox.C19

theorem pre_le_of_pad : ∀ (s : List UInt8) (i : Nat), i < s.length → s.getD i 0 = pad → pre s ≤ i := by
  intro s
  induction s with
  | nil => intro i h; simp at h
  | cons c r ih =>
    intro i hi hp
    by_cases hc : c = pad
    · subst hc; rw [pre_cons_pad]; omega
    · rw [pre_cons_ne c r hc]
      cases i with
      | zero => simp at hp; exact absurd hp hc
      | succ j =>
        have := ih j (by simpa using hi) (by simpa using hp)
        omega

/-- the bytes completed before the first '=' never exceed the advertised decoded length -/
theorem nw_pre_le_decodeLength (s : List UInt8) (h4 : s.length % 4 = 0) : nw (pre s) ≤ decodeLength s := by
  have hle := pre_le s
  unfold decodeLength
  by_cases h0 : s.length = 0
  · have : pre s = 0 := by omega
    simp [h0, this, nw]
  · have hn : ¬ (s.length = 0 ∨ s.length % 4 ≠ 0) := by omega
    simp only [hn, if_false]
    by_cases h1 : s.getD (s.length - 1) 0 = pad <;> by_cases h2 : s.getD (s.length - 2) 0 = pad
    · have a := pre_le_of_pad s (s.length - 2) (by omega) h2
      simp only [h1, h2, if_true]; unfold nw; omega
    · have a := pre_le_of_pad s (s.length - 1) (by omega) h1
      simp only [h1, h2, if_true, if_false]; unfold nw; omega
    · have a := pre_le_of_pad s (s.length - 2) (by omega) h2
      simp only [h1, h2, if_true, if_false]; unfold nw; omega
    · simp only [h1, h2, if_false]; unfold nw; omega

/-- vector variant: the loop never leaves the decode table (it has no capacity) -/
theorem decVecGo_ok : ∀ (r : List UInt8) (st : Nat) (tmp : UInt8) (out : List UInt8),
    ∃ res, decVecGo st tmp out r = .ok res := by
  intro r
  induction r with
  | nil => intro st tmp out; exact ⟨_, rfl⟩
  | cons c r ih =>
    intro st tmp out
    unfold decVecGo
    by_cases hp : c = pad
    · simp only [hp, if_true]; exact ⟨_, rfl⟩
    · simp only [hp, if_false]
      obtain ⟨lr, hl⟩ := lookup_ok c
      rw [hl]; simp only [Res.bind_ok]
      cases lr with
      | none => exact ⟨_, rfl⟩
      | some v => simp only; split <;> exact ih _ _ _

end Tbox.C19.B64


namespace Tbox.C19.B64
open Tbox.C19

/-- the encoder's output length for every state of the state machine -/
theorem encGo_length : ∀ (x : List UInt8) (s : St) (l : UInt8),
    (encGo s l x).length = match s with
      | .s0 => (x.length + 2) / 3 * 4
      | .s1 => 3 + x.length / 3 * 4
      | .s2 => 2 + (x.length + 1) / 3 * 4 := by
  intro x; induction x with
  | nil => intro s l; cases s <;> simp [encGo]
  | cons c r ih =>
    intro s l
    cases s <;> simp only [encGo, List.length_cons, ih] <;> omega

theorem encGo_s0_length (x : List UInt8) (l : UInt8) : (encGo .s0 l x).length = (x.length + 2) / 3 * 4 := by
  simpa using encGo_length x .s0 l

/-! ### single decoder steps on an alphabet character -/
theorem step0 (cap pos : Nat) (tmp s : UInt8) (out r : List UInt8) (hp : pos % 4 = 0) (hs : s.toNat < 64) :
    decGo cap pos tmp out (en s :: r) = decGo cap (pos + 1) (s <<< 2) out r := by
  obtain ⟨hl, hne⟩ := lookup_en s hs
  rw [decGo]; simp only [hne, if_false, hl, Res.bind_ok, hp]

theorem step1 (cap pos : Nat) (tmp s : UInt8) (out r : List UInt8) (hp : pos % 4 = 1) (hs : s.toNat < 64)
    (hc : out.length < cap) :
    decGo cap pos tmp out (en s :: r) = decGo cap (pos + 1) (s <<< 4) (out ++ [tmp ||| (s >>> 4)]) r := by
  obtain ⟨hl, hne⟩ := lookup_en s hs
  rw [decGo]; simp only [hne, if_false, hl, Res.bind_ok, hp, hc, if_true]

theorem step2 (cap pos : Nat) (tmp s : UInt8) (out r : List UInt8) (hp : pos % 4 = 2) (hs : s.toNat < 64)
    (hc : out.length < cap) :
    decGo cap pos tmp out (en s :: r) = decGo cap (pos + 1) (s <<< 6) (out ++ [tmp ||| (s >>> 2)]) r := by
  obtain ⟨hl, hne⟩ := lookup_en s hs
  rw [decGo]; simp only [hne, if_false, hl, Res.bind_ok, hp, hc, if_true]

theorem step3 (cap pos : Nat) (tmp s : UInt8) (out r : List UInt8) (hp : pos % 4 = 3) (hs : s.toNat < 64)
    (hc : out.length < cap) :
    decGo cap pos tmp out (en s :: r) = decGo cap (pos + 1) tmp (out ++ [tmp ||| s]) r := by
  obtain ⟨hl, hne⟩ := lookup_en s hs
  rw [decGo]; simp only [hne, if_false, hl, Res.bind_ok, hp, hc, if_true]

theorem stepPad (cap pos : Nat) (tmp : UInt8) (out r : List UInt8) :
    decGo cap pos tmp out (pad :: r) = .ok (some out) := by
  rw [decGo]; simp

/-- decoding what the encoder produced gives the input back, from any quad boundary, for every
capacity that has room for it -/
theorem dec_enc (cap : Nat) : ∀ (x : List UInt8) (pos : Nat) (tmp l : UInt8) (out : List UInt8),
    pos % 4 = 0 → out.length + x.length ≤ cap →
    decGo cap pos tmp out (encGo .s0 l x) = .ok (some (out ++ x))
  | [], pos, tmp, l, out, _, _ => by simp [encGo, decGo]
  | [a], pos, tmp, l, out, hp, hc => by
    simp only [encGo, List.length_cons, List.length_nil] at hc ⊢
    rw [step0 _ _ _ _ _ _ hp (hi6_lt a), step1 _ _ _ _ _ _ (by omega) (t1_lt _ (lo2_lt a)) (by omega), stepPad,
      byte0_tail]
  | [a, b], pos, tmp, l, out, hp, hc => by
    simp only [encGo, List.length_cons, List.length_nil] at hc ⊢
    rw [step0 _ _ _ _ _ _ hp (hi6_lt a),
      step1 _ _ _ _ _ _ (by omega) (s1_lt _ _ (lo2_lt a) (hi4_lt b)) (by omega),
      step2 _ _ _ _ _ _ (by omega) (t2_lt _ (lo4_lt b)) (by simp; omega), stepPad,
      byte0 a _ (hi4_lt b), byte1_tail _ b (lo2_lt a)]
    simp
  | a :: b :: c :: r, pos, tmp, l, out, hp, hc => by
    simp only [encGo, List.length_cons] at hc ⊢
    rw [step0 _ _ _ _ _ _ hp (hi6_lt a),
      step1 _ _ _ _ _ _ (by omega) (s1_lt _ _ (lo2_lt a) (hi4_lt b)) (by omega),
      step2 _ _ _ _ _ _ (by omega) (s2_lt _ _ (lo4_lt b) (hi2_lt c)) (by simp; omega),
      step3 _ _ _ _ _ _ (by omega) (lo6_lt c) (by simp; omega),
      byte0 a _ (hi4_lt b), byte1 _ b _ (lo2_lt a) (hi2_lt c), byte2 _ c (lo4_lt b)]
    rw [dec_enc cap r (pos + 1 + 1 + 1 + 1) _ c _ (by omega) (by simp; omega)]
    simp

/-- a successful buffer-variant loop is also what the push_back variant computes -/
theorem decVec_of_dec (cap : Nat) : ∀ (r : List UInt8) (pos : Nat) (tmp : UInt8) (out o : List UInt8),
    decGo cap pos tmp out r = .ok (some o) → decVecGo pos tmp out r = .ok (true, o) := by
  intro r
  induction r with
  | nil => intro pos tmp out o h; simp only [decGo] at h; cases h; rfl
  | cons c r ih =>
    intro pos tmp out o h
    rw [decGo] at h; rw [decVecGo]
    by_cases hp : c = pad
    · simp only [hp, if_true] at h ⊢; cases h; rfl
    · simp only [hp, if_false] at h ⊢
      cases hl : lookup c with
      | ok lr =>
        rw [hl] at h; simp only [Res.bind_ok] at h ⊢
        cases lr with
        | none => simp at h
        | some v =>
          simp only at h ⊢
          split at h
          · exact ih _ _ _ _ h
          · by_cases hc : out.length < cap
            · simp only [hc, if_true] at h; exact ih _ _ _ _ h
            · simp only [hc, if_false] at h; cases h
          · by_cases hc : out.length < cap
            · simp only [hc, if_true] at h; exact ih _ _ _ _ h
            · simp only [hc, if_false] at h; cases h
          · rename_i h0 h1 h2
            by_cases hc : out.length < cap
            · simp only [hc, if_true] at h
              exact ih _ _ _ _ h
            · simp only [hc, if_false] at h; cases h
      | oob w => rw [hl] at h; simp at h
      | exc w => rw [hl] at h; simp at h
      | assertFail => rw [hl] at h; simp at h

end Tbox.C19.B64

namespace Tbox.C19.B64
open Tbox.C19

/-- where the '=' characters of an encoding are: the last one iff |x| % 3 ≠ 0, the one before iff |x| % 3 = 1 -/
theorem enc_last2 : ∀ (x : List UInt8) (l : UInt8), x ≠ [] →
    ((encGo .s0 l x).getD ((encGo .s0 l x).length - 1) 0 = pad ↔ x.length % 3 ≠ 0) ∧
    ((encGo .s0 l x).getD ((encGo .s0 l x).length - 2) 0 = pad ↔ x.length % 3 = 1)
  | [], _, h => absurd rfl h
  | [a], l, _ => by simp [encGo]
  | [a, b], l, _ => by
    have := en_ne_pad ((b &&& 0xF) <<< 2)
    simp [encGo, this]
  | [a, b, c], l, _ => by
    have h1 := en_ne_pad (c &&& 0x3F)
    have h2 := en_ne_pad (((b &&& 0xF) <<< 2) ||| ((c >>> 6) &&& 0x3))
    simp [encGo, h1, h2]
  | a :: b :: c :: d :: r, l, _ => by
    have ih := enc_last2 (d :: r) c (by simp)
    have hl := encGo_s0_length (d :: r) c
    have hE : encGo .s0 l (a :: b :: c :: d :: r)
        = en ((a >>> 2) &&& 0x3F) :: en (((a &&& 0x3) <<< 4) ||| ((b >>> 4) &&& 0xF))
          :: en (((b &&& 0xF) <<< 2) ||| ((c >>> 6) &&& 0x3)) :: en (c &&& 0x3F) :: encGo .s0 c (d :: r) := by
      conv => lhs; rw [encGo, encGo, encGo]
    rw [hE]
    generalize encGo .s0 c (d :: r) = E at ih hl ⊢
    obtain ⟨m, hm⟩ : ∃ m, E.length = m + 4 := by
      refine ⟨E.length - 4, ?_⟩
      rw [hl]; simp only [List.length_cons]; omega
    simp only [List.length_cons]
    rw [hm] at ih ⊢
    have e1 : m + 4 + 1 + 1 + 1 + 1 - 1 = (m + 3) + 1 + 1 + 1 + 1 := by omega
    have e2 : m + 4 + 1 + 1 + 1 + 1 - 2 = (m + 2) + 1 + 1 + 1 + 1 := by omega
    have e3 : m + 4 - 1 = m + 3 := by omega
    have e4 : m + 4 - 2 = m + 2 := by omega
    rw [e1, e2]; rw [e3, e4] at ih
    simp only [List.getD_cons_succ]
    constructor
    · rw [ih.1]; simp only [List.length_cons]; omega
    · rw [ih.2]; simp only [List.length_cons]; omega

/-- `DecodeLength` of an encoding is the length of what was encoded -/
theorem decodeLength_enc (x : List UInt8) (l : UInt8) : decodeLength (encGo .s0 l x) = x.length := by
  by_cases hx : x = []
  · subst hx; simp [encGo, decodeLength]
  · have hl := encGo_s0_length x l
    obtain ⟨p1, p2⟩ := enc_last2 x l hx
    have hpos : 0 < x.length := by cases x <;> simp_all
    unfold decodeLength
    have hn : ¬ ((encGo .s0 l x).length = 0 ∨ (encGo .s0 l x).length % 4 ≠ 0) := by rw [hl]; omega
    simp only [hn, if_false]
    by_cases h1 : (encGo .s0 l x).getD ((encGo .s0 l x).length - 1) 0 = pad <;>
      by_cases h2 : (encGo .s0 l x).getD ((encGo .s0 l x).length - 2) 0 = pad
    · simp only [h1, h2, if_true]; have := p1.1 h1; have := p2.1 h2; rw [hl]; omega
    · simp only [h1, h2, if_true, if_false]; have := p1.1 h1; have := mt p2.2 h2; rw [hl]; omega
    · simp only [h1, h2, if_true, if_false]; have := mt p1.2 h1; have := p2.1 h2; omega
    · simp only [h1, h2, if_false]; have := mt p1.2 h1; have := mt p2.2 h2; rw [hl]; omega

end Tbox.C19.B64

