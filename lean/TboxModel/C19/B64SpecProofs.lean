/- C19 — Base64: the encoder state machine equals the RFC 4648 arithmetic definition; characters outside the alphabet
are rejected by both decoders. -/
import TboxModel.C19.B64Proofs
import TboxModel.C19.Spec
namespace Tbox.C19.B64
open Tbox.C19 Tbox.C19.Spec
set_option maxRecDepth 100000

/-! ### encoder = RFC 4648 arithmetic definition -/
theorem en_alpha (s : UInt8) : en s = alpha s.toNat := by
  unfold en alpha
  have : Gen.base64en = alphabet := by decide +kernel
  rw [this]

theorem pad_eq : pad = 61 := rfl

theorem n_hi6 (a : UInt8) : ((a >>> 2) &&& 0x3F).toNat = a.toNat / 4 := by revert a; apply u8_all; decide +kernel
theorem n_lo2 (a : UInt8) : (a &&& 0x3).toNat = a.toNat % 4 := by revert a; apply u8_all; decide +kernel
theorem n_hi4 (a : UInt8) : ((a >>> 4) &&& 0xF).toNat = a.toNat / 16 := by revert a; apply u8_all; decide +kernel
theorem n_lo4 (a : UInt8) : (a &&& 0xF).toNat = a.toNat % 16 := by revert a; apply u8_all; decide +kernel
theorem n_hi2 (a : UInt8) : ((a >>> 6) &&& 0x3).toNat = a.toNat / 64 := by revert a; apply u8_all; decide +kernel
theorem n_lo6 (a : UInt8) : (a &&& 0x3F).toNat = a.toNat % 64 := by revert a; apply u8_all; decide +kernel
theorem n_s1 (x y : UInt8) (hx : x.toNat < 4) (hy : y.toNat < 16) : ((x <<< 4) ||| y).toNat = x.toNat * 16 + y.toNat := by
  obtain ⟨i, rfl⟩ := u8_of_fin 4 x hx
  obtain ⟨j, rfl⟩ := u8_of_fin 16 y hy
  revert i j; decide +kernel
theorem n_s2 (x y : UInt8) (hx : x.toNat < 16) (hy : y.toNat < 4) : ((x <<< 2) ||| y).toNat = x.toNat * 4 + y.toNat := by
  obtain ⟨i, rfl⟩ := u8_of_fin 16 x hx
  obtain ⟨j, rfl⟩ := u8_of_fin 4 y hy
  revert i j; decide +kernel
theorem n_t1 (x : UInt8) (hx : x.toNat < 4) : (x <<< 4).toNat = x.toNat * 16 := by
  obtain ⟨i, rfl⟩ := u8_of_fin 4 x hx
  revert i; decide +kernel
theorem n_t2 (x : UInt8) (hx : x.toNat < 16) : (x <<< 2).toNat = x.toNat * 4 := by
  obtain ⟨i, rfl⟩ := u8_of_fin 16 x hx
  revert i; decide +kernel

/-- the state machine of the source computes the RFC 4648 encoding -/
theorem encGo_eq_spec : ∀ (x : List UInt8) (l : UInt8), encGo .s0 l x = b64Encode x
  | [], _ => rfl
  | [a], l => by
    have ha := a.toNat_lt
    have e1 : a.toNat * 65536 / 262144 = a.toNat / 4 := by omega
    have e2 : a.toNat * 65536 / 4096 % 64 = a.toNat % 4 * 16 := by omega
    simp only [encGo, b64Encode, pad_eq]
    rw [en_alpha, en_alpha, n_hi6, n_t1 _ (lo2_lt a), n_lo2, e1, e2]
  | [a, b], l => by
    have ha := a.toNat_lt; have hb := b.toNat_lt
    have e1 : (a.toNat * 65536 + b.toNat * 256) / 262144 = a.toNat / 4 := by omega
    have e2 : (a.toNat * 65536 + b.toNat * 256) / 4096 % 64 = a.toNat % 4 * 16 + b.toNat / 16 := by omega
    have e3 : (a.toNat * 65536 + b.toNat * 256) / 64 % 64 = b.toNat % 16 * 4 := by omega
    simp only [encGo, b64Encode, pad_eq]
    rw [en_alpha, en_alpha, en_alpha, n_hi6, n_s1 _ _ (lo2_lt a) (hi4_lt b), n_lo2, n_hi4 b, n_t2 _ (lo4_lt b), n_lo4 b,
      e1, e2, e3]
  | a :: b :: c :: r, l => by
    have ha := a.toNat_lt; have hb := b.toNat_lt; have hc := c.toNat_lt
    have ih := encGo_eq_spec r c
    have e : encGo .s0 l (a :: b :: c :: r)
        = en ((a >>> 2) &&& 0x3F) :: en (((a &&& 0x3) <<< 4) ||| ((b >>> 4) &&& 0xF))
          :: en (((b &&& 0xF) <<< 2) ||| ((c >>> 6) &&& 0x3)) :: en (c &&& 0x3F) :: encGo .s0 c r := by
      conv => lhs; rw [encGo, encGo, encGo]
    have e1 : (a.toNat * 65536 + b.toNat * 256 + c.toNat) / 262144 = a.toNat / 4 := by omega
    have e2 : (a.toNat * 65536 + b.toNat * 256 + c.toNat) / 4096 % 64 = a.toNat % 4 * 16 + b.toNat / 16 := by omega
    have e3 : (a.toNat * 65536 + b.toNat * 256 + c.toNat) / 64 % 64 = b.toNat % 16 * 4 + c.toNat / 64 := by omega
    have e4 : (a.toNat * 65536 + b.toNat * 256 + c.toNat) % 64 = c.toNat % 64 := by omega
    rw [e, ih]
    simp only [b64Encode]
    rw [en_alpha, en_alpha, en_alpha, en_alpha, n_hi6, n_s1 _ _ (lo2_lt a) (hi4_lt b), n_lo2, n_hi4 b,
      n_s2 _ _ (lo4_lt b) (hi2_lt c), n_lo4 b, n_hi2 c, n_lo6 c, e1, e2, e3, e4]

end Tbox.C19.B64

namespace Tbox.C19.B64
open Tbox.C19 Tbox.C19.Spec
set_option maxRecDepth 100000

/-- a byte outside the alphabet is rejected by the table lookup (bytes ≥ 0x80 before it) -/
theorem lookup_reject (c : UInt8) (h : c ∉ alphabet) : lookup c = .ok none := by
  revert h; revert c; apply u8_all; decide +kernel

/-- … and a byte of the alphabet is accepted -/
theorem lookup_accept (c : UInt8) (h : c ∈ alphabet) : ∃ v, lookup c = .ok (some v) := by
  revert h; revert c; apply u8_all
  intro i
  by_cases hm : UInt8.ofNat i.val ∈ alphabet
  · intro _
    have : ∀ j : Fin 256, UInt8.ofNat j.val ∈ alphabet → (match lookup (UInt8.ofNat j.val) with | .ok (some _) => true | _ => false) = true := by
      decide +kernel
    have h2 := this i hm
    cases hl : lookup (UInt8.ofNat i.val) with
    | ok o => cases o with
              | none => rw [hl] at h2; simp at h2
              | some v => exact ⟨v, rfl⟩
    | oob w => rw [hl] at h2; simp at h2
    | exc w => rw [hl] at h2; simp at h2
    | assertFail => rw [hl] at h2; simp at h2
  · intro h; exact absurd h hm

/-- some character before the first '=' is not in the alphabet -/
def HasBad (s : List UInt8) : Prop := ∃ c ∈ s.takeWhile (· ≠ pad), c ∉ alphabet

theorem hasBad_cons (c : UInt8) (r : List UInt8) (hc : c ≠ pad) (h : HasBad (c :: r)) : c ∉ alphabet ∨ HasBad r := by
  obtain ⟨x, hx, hb⟩ := h
  simp only [List.takeWhile_cons, hc, ne_eq, not_false_eq_true, decide_true, if_true, List.mem_cons] at hx
  rcases hx with rfl | hx
  · exact Or.inl hb
  · exact Or.inr ⟨x, hx, hb⟩

theorem hasBad_pad (r : List UInt8) : ¬ HasBad (pad :: r) := by
  intro ⟨x, hx, _⟩; simp at hx

theorem decGo_reject (cap : Nat) : ∀ (r : List UInt8) (pos : Nat) (tmp : UInt8) (out : List UInt8) (res : Option (List UInt8)),
    HasBad r → decGo cap pos tmp out r = .ok res → res = none := by
  intro r
  induction r with
  | nil => intro pos tmp out res h; obtain ⟨x, hx, _⟩ := h; simp at hx
  | cons c r ih =>
    intro pos tmp out res hb h
    by_cases hp : c = pad
    · subst hp; exact absurd hb (hasBad_pad r)
    · rw [decGo] at h
      simp only [hp, if_false] at h
      rcases hasBad_cons c r hp hb with hc | hr
      · rw [lookup_reject c hc] at h; simp at h; exact h.symm
      · cases hl : lookup c with
        | ok o =>
          rw [hl] at h; simp only [Res.bind_ok] at h
          cases o with
          | none => simp at h; exact h.symm
          | some v =>
            simp only at h
            split at h
            · exact ih _ _ _ _ hr h
            · split at h
              · exact ih _ _ _ _ hr h
              · cases h
            · split at h
              · exact ih _ _ _ _ hr h
              · cases h
            · split at h
              · exact ih _ _ _ _ hr h
              · cases h
        | oob w => rw [hl] at h; simp at h
        | exc w => rw [hl] at h; simp at h
        | assertFail => rw [hl] at h; simp at h

theorem decVecGo_reject : ∀ (r : List UInt8) (st : Nat) (tmp : UInt8) (out o : List UInt8) (b : Bool),
    HasBad r → decVecGo st tmp out r = .ok (b, o) → b = false := by
  intro r
  induction r with
  | nil => intro st tmp out o b h; obtain ⟨x, hx, _⟩ := h; simp at hx
  | cons c r ih =>
    intro st tmp out o b hb h
    by_cases hp : c = pad
    · subst hp; exact absurd hb (hasBad_pad r)
    · rw [decVecGo] at h
      simp only [hp, if_false] at h
      rcases hasBad_cons c r hp hb with hc | hr
      · rw [lookup_reject c hc] at h; simp at h; exact h.1
      · cases hl : lookup c with
        | ok o' =>
          rw [hl] at h; simp only [Res.bind_ok] at h
          cases o' with
          | none => simp at h; exact h.1
          | some v =>
            simp only at h
            split at h <;> exact ih _ _ _ _ _ hr h
        | oob w => rw [hl] at h; simp at h
        | exc w => rw [hl] at h; simp at h
        | assertFail => rw [hl] at h; simp at h

end Tbox.C19.B64
