/- C19 — Base64 model: transcription of modules/util/base64.cpp (after the fixes
C19-01 (no speculative store past the capacity) and C19-02 (bytes ≥ 0x80 are rejected before the
table lookup)).  Tables come from `Gen.lean`, regenerated from the source on every run.
The pre-fix code is transcribed in `Orig.lean` for the counterexample theorems. -/
import TboxModel.C19.Common
import TboxModel.C19.Gen
namespace Tbox.C19.B64
open Tbox.C19

def pad : UInt8 := Gen.base64pad

/-- `base64en[i]` -/
def en (i : UInt8) : UInt8 := Gen.base64en.getD i.toNat 0

/-- `constexpr EncodeLength` -/
def encodeLength (n : Nat) : Nat := (n + 2) / 3 * 4

inductive St | s0 | s1 | s2
  deriving DecidableEq, Repr

/-- the encoder loop + the trailing `switch (s)`: state `s`, last byte `l`, remaining input -/
def encGo : St → UInt8 → List UInt8 → List UInt8
  | .s0, _, c :: r => en ((c >>> 2) &&& 0x3F) :: encGo .s1 c r
  | .s1, l, c :: r => en (((l &&& 0x3) <<< 4) ||| ((c >>> 4) &&& 0xF)) :: encGo .s2 c r
  | .s2, l, c :: r => en (((l &&& 0xF) <<< 2) ||| ((c >>> 6) &&& 0x3)) :: en (c &&& 0x3F) :: encGo .s0 c r
  | .s0, _, [] => []
  | .s1, l, [] => [en ((l &&& 0x3) <<< 4), pad, pad]
  | .s2, l, [] => [en ((l &&& 0xF) <<< 2), pad]

/-- `std::string Encode(const void*, size_t)` / `Encode(const std::vector<uint8_t>&)` -/
def encodeStr (x : List UInt8) : Res (List UInt8) :=
  if x.isEmpty then .assertFail else .ok (encGo .s0 0 x)

/-- `size_t Encode(const void*, size_t, char*, size_t)`: returns (ret, bytes written at 0..ret) -/
def encodeBuf (x : List UInt8) (cap : Nat) : Res (Nat × List UInt8) :=
  if x.isEmpty ∨ cap = 0 then .assertFail
  else if encodeLength x.length > cap then .ok (0, [])
  else do
    let out ← storeAll cap (encGo .s0 0 x)
    pure (out.length, out)

/-- `DecodeLength(const char*, size_t)` -/
def decodeLength (s : List UInt8) : Nat :=
  let n := s.length
  if n = 0 ∨ n % 4 ≠ 0 then 0
  else
    let len := n / 4 * 3
    let len := if s.getD (n - 1) 0 = pad then len - 1 else len
    let len := if s.getD (n - 2) 0 = pad then len - 1 else len
    len

/-- result of one table lookup in the decoder: `none` = invalid character (function returns 0) -/
def lookup (c : UInt8) : Res (Option UInt8) :=
  if c ≥ 128 then .ok none            -- fix C19-02: unsigned index, range check
  else do
    let v ← tblRead "base64de" Gen.base64de c.toNat
    pure (if v = 255 then none else some v)

/-- the decoder loop of the buffer variant. `pos` = `r_pos`, `tmp` = partial byte,
`out` = bytes stored so far (`w_pos = out.length`). Result `none` = invalid char. -/
def decGo (cap : Nat) : Nat → UInt8 → List UInt8 → List UInt8 → Res (Option (List UInt8))
  | _, _, out, [] => .ok (some out)
  | pos, tmp, out, c :: r =>
    if c = pad then .ok (some out)
    else do
      match ← lookup c with
      | none => pure none
      | some v =>
        match pos % 4 with
        | 0 => decGo cap (pos + 1) (v <<< 2) out r
        | 1 => if out.length < cap then decGo cap (pos + 1) (v <<< 4) (out ++ [tmp ||| (v >>> 4)]) r
               else .oob "write out"
        | 2 => if out.length < cap then decGo cap (pos + 1) (v <<< 6) (out ++ [tmp ||| (v >>> 2)]) r
               else .oob "write out"
        | _ => if out.length < cap then decGo cap (pos + 1) tmp (out ++ [tmp ||| v]) r
               else .oob "write out"

/-- `size_t Decode(const char*, size_t, void*, size_t)`: (ret, bytes at 0..ret of the output) -/
def decodeBuf (s : List UInt8) (cap : Nat) : Res (Nat × List UInt8) :=
  if s.length % 4 ≠ 0 then .ok (0, [])
  else if decodeLength s > cap then .ok (0, [])
  else do
    match ← decGo cap 0 0 [] s with
    | none => pure (0, [])
    | some out => pure (out.length, out)

/-- unbounded store = the `push_back` variant's loop -/
def decVecGo : Nat → UInt8 → List UInt8 → List UInt8 → Res (Bool × List UInt8)
  | _, _, out, [] => .ok (true, out)
  | st, tmp, out, c :: r =>
    if c = pad then .ok (true, out)
    else do
      match ← lookup c with
      | none => pure (false, out)
      | some v =>
        match st % 4 with
        | 0 => decVecGo (st + 1) (v <<< 2) out r
        | 1 => decVecGo (st + 1) (v <<< 4) (out ++ [tmp ||| (v >>> 4)]) r
        | 2 => decVecGo (st + 1) (v <<< 6) (out ++ [tmp ||| (v >>> 2)]) r
        | _ => decVecGo (st + 1) tmp (out ++ [tmp ||| v]) r

/-- `size_t Decode(const std::string&, std::vector<uint8_t>&)` on an empty vector:
(ret, vector afterwards). Note: returns the *advertised* length, and leaves the bytes pushed
before an invalid character in the vector — transcribed as coded. -/
def decodeVec (s : List UInt8) : Res (Nat × List UInt8) :=
  let outLen := decodeLength s
  if outLen = 0 then .ok (0, [])
  else do
    let (okk, out) ← decVecGo 0 0 [] s
    pure (if okk then outLen else 0, out)

/-- the text a C-string overload sees: everything before the first NUL (`::strlen`) -/
def cstr (s : List UInt8) : List UInt8 := s.takeWhile (· ≠ 0)

/-- `DecodeLength(const char*)` / `Decode(const char*, void*, size_t)` -/
def decodeLengthZ (s : List UInt8) : Nat := decodeLength (cstr s)
def decodeBufZ (s : List UInt8) (cap : Nat) : Res (Nat × List UInt8) := decodeBuf (cstr s) cap

/-- `Decode(const std::string&, std::vector<uint8_t>&)` on a vector already holding `pre`: bytes are appended -/
def decodeVecOnto (pre s : List UInt8) : Res (Nat × List UInt8) := do
  let (r, o) ← decodeVec s
  pure (r, pre ++ o)

/-- `Decode(text, len, buf, cap)` into a buffer that already holds `old` (`cap = old.length`): return value and the buffer
afterwards — the decoded bytes followed by the old bytes behind them. Defined for the cases where the code stores exactly the
bytes it returns (every success, and the refusals that happen before the first store). -/
def decodeInto (old s : List UInt8) : Res (Nat × List UInt8) := do
  let (r, out) ← decodeBuf s old.length
  pure (r, out ++ old.drop out.length)

end Tbox.C19.B64
