/- C19 — shared vocabulary of the codec models (core Lean only). -/
namespace Tbox.C19

/-- Outcome of a modelled C++ function: a value, an out-of-bounds access (which the real code
would perform on memory it does not own), a C++ exception of the named kind, or a failed
`TBOX_ASSERT` precondition (the function aborts; callers must not do this). -/
inductive Res (α : Type) where
  | ok (a : α)
  | oob (what : String)
  | exc (kind : String)
  | assertFail
  deriving Repr, DecidableEq

namespace Res
def bind {α β} (r : Res α) (f : α → Res β) : Res β :=
  match r with
  | .ok a => f a
  | .oob w => .oob w
  | .exc k => .exc k
  | .assertFail => .assertFail

instance : Monad Res where
  pure := .ok
  bind := Res.bind

@[simp] theorem bind_ok {α β} (a : α) (f : α → Res β) : (Res.ok a >>= f) = f a := rfl
@[simp] theorem bind_oob {α β} (w : String) (f : α → Res β) : (Res.oob w >>= f) = .oob w := rfl
@[simp] theorem bind_exc {α β} (w : String) (f : α → Res β) : (Res.exc w >>= f) = .exc w := rfl
@[simp] theorem bind_assert {α β} (f : α → Res β) : (Res.assertFail >>= f) = .assertFail := rfl
@[simp] theorem pure_eq {α} (a : α) : (pure a : Res α) = .ok a := rfl

/-- the function returned normally (no out-of-bounds access, no exception, no abort) -/
def isOk {α} : Res α → Bool
  | .ok _ => true
  | _ => false

/-- the function did not touch memory outside what it was given -/
def inBounds {α} : Res α → Bool
  | .oob _ => false
  | _ => true
end Res

/-- bounds-checked read of a constant table (`tbl[i]` in the C++ source) -/
def tblRead {α} (name : String) (tbl : List α) (i : Nat) : Res α :=
  match tbl[i]? with
  | some v => .ok v
  | none => .oob ("read " ++ name)

/-- table read with a *signed* index (a `char` used as index) -/
def tblReadInt {α} (name : String) (tbl : List α) (i : Int) : Res α :=
  if i < 0 then .oob ("read " ++ name) else tblRead name tbl i.toNat

/-- all writes of a function that stores `out` at indices `0 … out.length-1` of a buffer of
capacity `cap` -/
def storeAll {α} (cap : Nat) (out : List α) : Res (List α) :=
  if out.length ≤ cap then .ok out else .oob "write out"

end Tbox.C19
