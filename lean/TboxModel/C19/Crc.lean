/- C19 — CRC-16/CCITT, CRC-32 (table driven, tables from Gen.lean) and the 8/16-bit checksums:
transcription of modules/util/crc.cpp and modules/util/checksum.cpp. -/
import TboxModel.C19.Common
import TboxModel.C19.Gen
namespace Tbox.C19.Crc
open Tbox.C19

def t16 (i : Nat) : UInt16 := Gen.crc16Table.getD i 0
def t32 (i : Nat) : UInt32 := Gen.crc32Table.getD i 0

/-- `crc = ccitt16_table[(crc >> 8 ^ *bytes++) & 0xff] ^ (crc << 8)` -/
def crc16Step (crc : UInt16) (b : UInt8) : UInt16 :=
  t16 (((crc >>> 8) ^^^ b.toUInt16) &&& 0xff).toNat ^^^ (crc <<< 8)

def crc16 (data : List UInt8) (seed : UInt16) : UInt16 := data.foldl crc16Step seed

/-- `crc = crc32_table[(crc ^ *bytes++) & 0xff] ^ (crc >> 8)` -/
def crc32Step (crc : UInt32) (b : UInt8) : UInt32 :=
  t32 ((crc ^^^ b.toUInt32) &&& 0xff).toNat ^^^ (crc >>> 8)

def crc32 (data : List UInt8) (seed : UInt32) : UInt32 := ~~~ (data.foldl crc32Step seed)

/-- `while ((acc & 0xff00) != 0) acc = (acc & 0xff) + (acc >> 8);` (acc is uint16_t and never
exceeds 0x1fe here, so two rounds are enough; the loop is modelled with that fuel) -/
def carry8 (acc : Nat) : Nat := if acc / 256 ≠ 0 then acc % 256 + acc / 256 else acc
def fold8 (acc : Nat) : Nat := carry8 (carry8 acc)

def sum8Acc (data : List UInt8) : Nat := data.foldl (fun acc b => fold8 (acc + b.toNat)) 0

/-- `CalcCheckSum8` -/
def sum8 (data : List UInt8) : UInt8 := ~~~ (UInt8.ofNat (sum8Acc data))

def carry16 (acc : Nat) : Nat := if acc / 65536 ≠ 0 then acc / 65536 + acc % 65536 else acc
def fold16 (acc : Nat) : Nat := carry16 (carry16 acc)

def sum16Acc : Nat → List UInt8 → Nat
  | acc, b0 :: b1 :: r => sum16Acc (fold16 (acc + (b0.toNat * 256 + b1.toNat))) r
  | acc, [b0] => fold16 (acc + b0.toNat * 256)
  | acc, [] => acc

/-- `CalcCheckSum16` -/
def sum16 (data : List UInt8) : UInt16 := ~~~ (UInt16.ofNat (sum16Acc 0 data))

/-! ### chained calls (round 8): a sequence of calls where each seed is derived from the previous RESULT -/

/-- how the seed of the next call is derived from the previous call's result -/
inductive Link | prev | notPrev | zero | ones
  deriving DecidableEq, Repr

def Link.seed32 (l : Link) (r : UInt32) : UInt32 :=
  match l with | .prev => r | .notPrev => ~~~ r | .zero => 0 | .ones => 0xffffffff
def Link.seed16 (l : Link) (r : UInt16) : UInt16 :=
  match l with | .prev => r | .notPrev => ~~~ r | .zero => 0 | .ones => 0xffff

/-- `r1 = CalcCrc32(d1, seed); r2 = CalcCrc32(d2, link2(r1)); …`: all results in call order -/
def seq32 (seed : UInt32) (d : List UInt8) : List (Link × List UInt8) → List UInt32
  | [] => [crc32 d seed]
  | (l, d') :: r => crc32 d seed :: seq32 (l.seed32 (crc32 d seed)) d' r
def seq16 (seed : UInt16) (d : List UInt8) : List (Link × List UInt8) → List UInt16
  | [] => [crc16 d seed]
  | (l, d') :: r => crc16 d seed :: seq16 (l.seed16 (crc16 d seed)) d' r

end Tbox.C19.Crc
