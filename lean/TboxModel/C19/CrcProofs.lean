/- C19 — table-driven CRC = bitwise CRC (per-byte lemma from the table theorem + GF(2)-linearity of the
bit step), checksums = one's-complement sums. -/
import TboxModel.C19.Crc
import TboxModel.C19.Spec
namespace Tbox.C19.Crc
open Tbox.C19 Tbox.C19.Spec
set_option maxRecDepth 100000

/-! ### Nat facts about xor with a low part -/
theorem xor_low_mod (n : Nat) : (n ^^^ n % 256) % 256 = 0 := by
  rw [show (256 : Nat) = 2 ^ 8 from rfl, Nat.xor_mod_two_pow, Nat.mod_mod, Nat.xor_self]
theorem xor_low_div (n : Nat) : (n ^^^ n % 256) / 256 = n / 256 := by
  rw [show (256 : Nat) = 2 ^ 8 from rfl, Nat.xor_div_two_pow]
  have : n % 2 ^ 8 / 2 ^ 8 = 0 := Nat.div_eq_of_lt (Nat.mod_lt _ (by decide))
  rw [this, Nat.xor_zero]

/-! ### CRC-32 -/
theorem crc32_table_eq : Gen.crc32Table = (List.range 256).map (fun i => crc32Bits8 (UInt32.ofNat i)) := by
  decide +kernel

theorem t32_eq (i : Nat) (h : i < 256) : t32 i = crc32Bits8 (UInt32.ofNat i) := by
  unfold t32; rw [crc32_table_eq]; simp [List.getD_eq_getElem?_getD, h]

theorem lsb32 (c : UInt32) : (c &&& 1 ≠ 0) ↔ c.toNat % 2 = 1 := by
  rw [Ne, ← UInt32.toNat_inj, UInt32.toNat_and]
  simp only [UInt32.toNat_one, UInt32.toNat_zero, Nat.and_one_is_mod]
  omega

theorem bit32_eq (c : UInt32) : crc32Bit c = (c >>> 1) ^^^ (if c.toNat % 2 = 1 then 0xEDB88320 else 0) := by
  unfold crc32Bit
  by_cases h : c.toNat % 2 = 1
  · rw [if_pos ((lsb32 c).2 h), if_pos h]
  · rw [if_neg (mt (lsb32 c).1 h), if_neg h]; simp

theorem bit32_lin (x y : UInt32) : crc32Bit (x ^^^ y) = crc32Bit x ^^^ crc32Bit y := by
  rw [bit32_eq, bit32_eq x, bit32_eq y, UInt32.shiftRight_xor, UInt32.toNat_xor]
  have hm : (x.toNat ^^^ y.toNat) % 2 = (x.toNat % 2) ^^^ (y.toNat % 2) := by
    have := @Nat.xor_mod_two_pow x.toNat y.toNat 1; simpa using this
  rw [hm]
  have hx : x.toNat % 2 = 0 ∨ x.toNat % 2 = 1 := by omega
  have hy : y.toNat % 2 = 0 ∨ y.toNat % 2 = 1 := by omega
  rcases hx with hx | hx <;> rcases hy with hy | hy <;> rw [hx, hy] <;> simp
  · rw [UInt32.xor_assoc]
  · rw [UInt32.xor_assoc, UInt32.xor_assoc, UInt32.xor_comm 3988292384]
  · have : (3988292384 : UInt32) ^^^ ((y >>> 1) ^^^ (3988292384 : UInt32)) = y >>> 1 := by
      rw [UInt32.xor_comm (y >>> 1), ← UInt32.xor_assoc, UInt32.xor_self, UInt32.zero_xor]
    rw [UInt32.xor_assoc, this]

theorem bits8_32_lin (x y : UInt32) : crc32Bits8 (x ^^^ y) = crc32Bits8 x ^^^ crc32Bits8 y := by
  simp only [crc32Bits8, bit32_lin]

theorem bit32_even (y : UInt32) (h : y.toNat % 2 = 0) : (crc32Bit y).toNat = y.toNat / 2 := by
  rw [bit32_eq, if_neg (by omega), UInt32.xor_zero, UInt32.toNat_shiftRight]
  simp [Nat.shiftRight_eq_div_pow]

theorem bits8_32_high (y : UInt32) (h : y.toNat % 256 = 0) : (crc32Bits8 y).toNat = y.toNat / 256 := by
  unfold crc32Bits8
  have h1 := bit32_even y (by omega)
  have h2 := bit32_even _ (show (crc32Bit y).toNat % 2 = 0 by omega)
  have h3 := bit32_even _ (show (crc32Bit (crc32Bit y)).toNat % 2 = 0 by omega)
  have h4 := bit32_even _ (show (crc32Bit (crc32Bit (crc32Bit y))).toNat % 2 = 0 by omega)
  have h5 := bit32_even _ (show (crc32Bit (crc32Bit (crc32Bit (crc32Bit y)))).toNat % 2 = 0 by omega)
  have h6 := bit32_even _ (show (crc32Bit (crc32Bit (crc32Bit (crc32Bit (crc32Bit y))))).toNat % 2 = 0 by omega)
  have h7 := bit32_even _ (show (crc32Bit (crc32Bit (crc32Bit (crc32Bit (crc32Bit (crc32Bit y)))))).toNat % 2 = 0 by omega)
  have h8 := bit32_even _ (show (crc32Bit (crc32Bit (crc32Bit (crc32Bit (crc32Bit (crc32Bit (crc32Bit y))))))).toNat % 2 = 0 by omega)
  omega

/-- the per-byte lemma: eight bit steps = one table lookup xor the shifted register -/
theorem bits8_32_table (c : UInt32) : crc32Bits8 c = t32 ((c &&& 0xff).toNat) ^^^ (c >>> 8) := by
  have hlo : (c &&& 0xff).toNat = c.toNat % 256 := by
    rw [UInt32.toNat_and]
    exact Nat.and_two_pow_sub_one_eq_mod c.toNat 8
  have hlt : (c &&& 0xff).toNat < 256 := by rw [hlo]; omega
  rw [t32_eq _ hlt, UInt32.ofNat_toNat]
  have hsplit : c = (c &&& 0xff) ^^^ (c ^^^ (c &&& 0xff)) := by
    rw [UInt32.xor_comm c, ← UInt32.xor_assoc, UInt32.xor_self, UInt32.zero_xor]
  have hhi : crc32Bits8 (c ^^^ (c &&& 0xff)) = c >>> 8 := by
    rw [← UInt32.toNat_inj, bits8_32_high _ (by rw [UInt32.toNat_xor, hlo]; exact xor_low_mod _),
      UInt32.toNat_xor, hlo, xor_low_div, UInt32.toNat_shiftRight]
    simp [Nat.shiftRight_eq_div_pow]
  conv => lhs; rw [hsplit, bits8_32_lin, hhi]

theorem crc32Step_eq (crc : UInt32) (b : UInt8) : crc32Step crc b = crc32Byte crc b := by
  unfold crc32Step crc32Byte
  rw [bits8_32_table, UInt32.shiftRight_xor]
  have : b.toUInt32 >>> 8 = 0 := by
    rw [← UInt32.toNat_inj, UInt32.toNat_shiftRight, UInt8.toNat_toUInt32]
    simp [Nat.shiftRight_eq_div_pow]; exact b.toNat_lt
  rw [this, UInt32.xor_zero]

theorem crc32_eq_bitwise (data : List UInt8) (seed : UInt32) : Crc.crc32 data seed = Spec.crc32 data seed := by
  unfold Crc.crc32 Spec.crc32
  have : crc32Step = crc32Byte := by funext c b; exact crc32Step_eq c b
  rw [this]

/-! ### CRC-16/CCITT (MSB first) -/
theorem and_pow (n k : Nat) : n &&& 2 ^ k = if n.testBit k then 2 ^ k else 0 := by
  apply Nat.eq_of_testBit_eq; intro i
  by_cases h : n.testBit k
  · simp only [h, if_true, Nat.testBit_and, Nat.testBit_two_pow]
    by_cases hik : k = i
    · subst hik; simp [h]
    · simp [hik]
  · simp only [h, Nat.testBit_and, Nat.testBit_two_pow]
    by_cases hik : k = i
    · subst hik; simp [h]
    · simp [hik]

theorem msb16 (c : UInt16) : (c &&& 0x8000 ≠ 0) ↔ c.toNat.testBit 15 = true := by
  rw [Ne, ← UInt16.toNat_inj, UInt16.toNat_and]
  have : (0x8000 : UInt16).toNat = 2 ^ 15 := rfl
  rw [this, and_pow]
  by_cases h : c.toNat.testBit 15 <;> simp [h]

theorem crc16_table_eq : Gen.crc16Table = (List.range 256).map (fun i => crc16Bits8 (UInt16.ofNat i <<< 8)) := by
  decide +kernel

theorem t16_eq (i : Nat) (h : i < 256) : t16 i = crc16Bits8 (UInt16.ofNat i <<< 8) := by
  unfold t16; rw [crc16_table_eq]; simp [List.getD_eq_getElem?_getD, h]

theorem bit16_eq (c : UInt16) : crc16Bit c = (c <<< 1) ^^^ (if c.toNat.testBit 15 then 0x1021 else 0) := by
  unfold crc16Bit
  by_cases h : c.toNat.testBit 15 = true
  · rw [if_pos ((msb16 c).2 h), if_pos h]
  · rw [if_neg (mt (msb16 c).1 h), if_neg h]; simp

theorem bit16_lin (x y : UInt16) : crc16Bit (x ^^^ y) = crc16Bit x ^^^ crc16Bit y := by
  rw [bit16_eq, bit16_eq x, bit16_eq y, UInt16.shiftLeft_xor, UInt16.toNat_xor, Nat.testBit_xor]
  cases x.toNat.testBit 15 <;> cases y.toNat.testBit 15 <;> simp
  · rw [UInt16.xor_assoc]
  · rw [UInt16.xor_assoc, UInt16.xor_assoc, UInt16.xor_comm 4129]
  · have : (4129 : UInt16) ^^^ ((y <<< 1) ^^^ (4129 : UInt16)) = y <<< 1 := by
      rw [UInt16.xor_comm (y <<< 1), ← UInt16.xor_assoc, UInt16.xor_self, UInt16.zero_xor]
    rw [UInt16.xor_assoc, this]

theorem bits8_16_lin (x y : UInt16) : crc16Bits8 (x ^^^ y) = crc16Bits8 x ^^^ crc16Bits8 y := by
  simp only [crc16Bits8, bit16_lin]

theorem bit16_small (y : UInt16) (h : y.toNat < 2 ^ 15) : (crc16Bit y).toNat = y.toNat * 2 := by
  rw [bit16_eq, Nat.testBit_lt_two_pow h]
  simp only [Bool.false_eq_true, if_false, UInt16.xor_zero, UInt16.toNat_shiftLeft]
  have : (1 : UInt16).toNat % 16 = 1 := rfl
  rw [this, Nat.shiftLeft_eq, Nat.mod_eq_of_lt (by omega)]

theorem bits8_16_low (y : UInt16) (h : y.toNat < 256) : (crc16Bits8 y).toNat = y.toNat * 256 := by
  unfold crc16Bits8
  have h1 := bit16_small y (by omega)
  have h2 := bit16_small _ (show (crc16Bit y).toNat < 2 ^ 15 by omega)
  have h3 := bit16_small _ (show (crc16Bit (crc16Bit y)).toNat < 2 ^ 15 by omega)
  have h4 := bit16_small _ (show (crc16Bit (crc16Bit (crc16Bit y))).toNat < 2 ^ 15 by omega)
  have h5 := bit16_small _ (show (crc16Bit (crc16Bit (crc16Bit (crc16Bit y)))).toNat < 2 ^ 15 by omega)
  have h6 := bit16_small _ (show (crc16Bit (crc16Bit (crc16Bit (crc16Bit (crc16Bit y))))).toNat < 2 ^ 15 by omega)
  have h7 := bit16_small _ (show (crc16Bit (crc16Bit (crc16Bit (crc16Bit (crc16Bit (crc16Bit y)))))).toNat < 2 ^ 15 by omega)
  have h8 := bit16_small _ (show (crc16Bit (crc16Bit (crc16Bit (crc16Bit (crc16Bit (crc16Bit (crc16Bit y))))))).toNat < 2 ^ 15 by omega)
  omega

/-- per-byte lemma: eight bit steps = table entry of the high byte xor the register shifted left -/
theorem bits8_16_table (c : UInt16) : crc16Bits8 c = t16 (c.toNat / 256) ^^^ (c <<< 8) := by
  have hc := c.toNat_lt
  have hlo : (c &&& (0xff : UInt16)).toNat = c.toNat % 256 := by
    rw [UInt16.toNat_and]
    exact Nat.and_two_pow_sub_one_eq_mod c.toNat 8
  have hsplit : c = (c ^^^ (c &&& (0xff : UInt16))) ^^^ (c &&& (0xff : UInt16)) := by
    rw [UInt16.xor_assoc, UInt16.xor_self, UInt16.xor_zero]
  have hhiN : (c ^^^ (c &&& (0xff : UInt16))).toNat = c.toNat / 256 * 256 := by
    rw [UInt16.toNat_xor, hlo]
    have a := xor_low_mod c.toNat; have b := xor_low_div c.toNat
    omega
  have hhi : c ^^^ (c &&& (0xff : UInt16)) = UInt16.ofNat (c.toNat / 256) <<< 8 := by
    rw [← UInt16.toNat_inj, hhiN, UInt16.toNat_shiftLeft]
    have : (8 : UInt16).toNat % 16 = 8 := rfl
    rw [this, Nat.shiftLeft_eq]
    simp only [UInt16.toNat_ofNat']
    have : c.toNat / 256 < 256 := by
      have : UInt16.size = 65536 := rfl
      omega
    rw [Nat.mod_eq_of_lt (show c.toNat / 256 < 2 ^ 16 by omega), Nat.mod_eq_of_lt (by omega)]
  have hlow : crc16Bits8 (c &&& (0xff : UInt16)) = c <<< 8 := by
    rw [← UInt16.toNat_inj, bits8_16_low _ (by rw [hlo]; omega), hlo, UInt16.toNat_shiftLeft]
    have : (8 : UInt16).toNat % 16 = 8 := rfl
    rw [this, Nat.shiftLeft_eq]
    have : UInt16.size = 65536 := rfl
    omega
  have hk : c.toNat / 256 < 256 := by
    have : UInt16.size = 65536 := rfl
    omega
  conv => lhs; rw [hsplit, bits8_16_lin, hlow, hhi, ← t16_eq _ hk]

theorem crc16Step_eq (crc : UInt16) (b : UInt8) : crc16Step crc b = crc16Byte crc b := by
  unfold crc16Step crc16Byte
  rw [bits8_16_table, UInt16.shiftLeft_xor]
  have hb := b.toNat_lt
  have hc := crc.toNat_lt
  have hsz : UInt16.size = 65536 := rfl
  have h8 : (8 : UInt16).toNat % 16 = 8 := rfl
  have hbs : (b.toUInt16 <<< 8).toNat = b.toNat * 256 := by
    rw [UInt16.toNat_shiftLeft, h8, Nat.shiftLeft_eq, UInt8.toNat_toUInt16, Nat.mod_eq_of_lt (by omega)]
  have hz : b.toUInt16 <<< 8 <<< 8 = 0 := by
    rw [← UInt16.toNat_inj, UInt16.toNat_shiftLeft, h8, Nat.shiftLeft_eq, hbs]
    simp only [UInt16.toNat_zero]; omega
  rw [hz, UInt16.xor_zero]
  congr 2
  -- the table index
  rw [UInt16.toNat_and, UInt16.toNat_xor, UInt16.toNat_xor, hbs, UInt16.toNat_shiftRight, h8,
    Nat.shiftRight_eq_div_pow, UInt8.toNat_toUInt16]
  have : (0xff : UInt16).toNat = 2 ^ 8 - 1 := rfl
  rw [this, Nat.and_two_pow_sub_one_eq_mod, show (256 : Nat) = 2 ^ 8 from rfl, Nat.xor_div_two_pow,
    Nat.xor_mod_two_pow]
  have e1 : b.toNat * 2 ^ 8 / 2 ^ 8 = b.toNat := by omega
  have e2 : crc.toNat / 2 ^ 8 % 2 ^ 8 = crc.toNat / 2 ^ 8 := by omega
  have e3 : b.toNat % 2 ^ 8 = b.toNat := by omega
  rw [e1, e2, e3]

theorem crc16_eq_bitwise (data : List UInt8) (seed : UInt16) : Crc.crc16 data seed = Spec.crc16 data seed := by
  unfold Crc.crc16 Spec.crc16
  have : crc16Step = crc16Byte := by funext c b; exact crc16Step_eq c b
  rw [this]

/-! ### 8/16-bit checksums = one's-complement (end-around carry) sums -/
theorem fold8_eac (S b : Nat) (hb : b ≤ 255) : fold8 (eac 255 S + b) = eac 255 (S + b) := by
  unfold fold8 carry8 eac
  repeat' split
  all_goals omega

theorem sum8_fold : ∀ (data : List UInt8) (S : Nat),
    data.foldl (fun acc b => fold8 (acc + b.toNat)) (eac 255 S) = eac 255 (S + byteSum data) := by
  intro data
  induction data with
  | nil => intro S; simp [byteSum]
  | cons b r ih =>
    intro S
    have hb : b.toNat ≤ 255 := by have := b.toNat_lt; omega
    simp only [List.foldl_cons, fold8_eac S b.toNat hb, ih]
    simp [byteSum, Nat.add_assoc]

theorem checksum8_eq_sum (data : List UInt8) : Crc.sum8 data = Spec.sum8 data := by
  unfold Crc.sum8 Spec.sum8 sum8Acc
  have h := sum8_fold data 0
  have e0 : eac 255 0 = 0 := rfl
  rw [e0, Nat.zero_add] at h
  rw [h]
  have hle : eac 255 (byteSum data) ≤ 255 := by unfold eac; split <;> omega
  rw [← UInt8.toNat_inj, UInt8.toNat_not]
  have : UInt8.size = 256 := rfl
  simp only [UInt8.toNat_ofNat']
  omega

theorem fold16_eac (S w : Nat) (hw : w ≤ 65535) : fold16 (eac 65535 S + w) = eac 65535 (S + w) := by
  unfold fold16 carry16 eac
  repeat' split
  all_goals omega

theorem sum16_rec : ∀ (data : List UInt8) (S : Nat),
    sum16Acc (eac 65535 S) data = eac 65535 (S + wordSum data)
  | [], S => by simp [sum16Acc, wordSum]
  | [b0], S => by
    have := b0.toNat_lt
    simp only [sum16Acc, wordSum]
    exact fold16_eac S _ (by omega)
  | b0 :: b1 :: r, S => by
    have := b0.toNat_lt; have := b1.toNat_lt
    simp only [sum16Acc, wordSum]
    rw [fold16_eac S _ (by omega), sum16_rec r]
    congr 1; omega

theorem checksum16_eq_sum (data : List UInt8) : Crc.sum16 data = Spec.sum16 data := by
  unfold Crc.sum16 Spec.sum16
  have h := sum16_rec data 0
  have e0 : eac 65535 0 = 0 := rfl
  rw [e0, Nat.zero_add] at h
  rw [h]
  have hle : eac 65535 (wordSum data) ≤ 65535 := by unfold eac; split <;> omega
  rw [← UInt16.toNat_inj, UInt16.toNat_not]
  have : UInt16.size = 65536 := rfl
  simp only [UInt16.toNat_ofNat']
  omega

end Tbox.C19.Crc
