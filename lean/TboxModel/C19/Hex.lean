/- C19 — hex string model: RawDataToHexStr / HexStrToRawData of modules/util/string.cpp
(after fix C19-04: an empty or blank string converts to no data). -/
import TboxModel.C19.Common
namespace Tbox.C19.Hex
open Tbox.C19

def digitChar (upper : Bool) (n : Nat) : UInt8 :=
  if n < 10 then UInt8.ofNat (48 + n) else if upper then UInt8.ofNat (55 + n) else UInt8.ofNat (87 + n)

def byteChars (upper : Bool) (b : UInt8) : List UInt8 :=
  [digitChar upper (b.toNat / 16), digitChar upper (b.toNat % 16)]

/-- `RawDataToHexStr(ptr, len, uppercase, delimiter)` -/
def rawToHex (upper : Bool) (delim : List UInt8) : List UInt8 → List UInt8
  | [] => []
  | [b] => byteChars upper b
  | b :: r => byteChars upper b ++ delim ++ rawToHex upper delim r

/-- `hexCharToValue` -/
def charVal (c : UInt8) : Res UInt8 :=
  if 48 ≤ c ∧ c ≤ 57 then .ok (c - 48)
  else if 65 ≤ c ∧ c ≤ 70 then .ok (c - 65 + 10)
  else if 97 ≤ c ∧ c ≤ 102 then .ok (c - 97 + 10)
  else .exc "NotAZaz09"

def pairVal (h l : UInt8) : Res UInt8 := do
  let a ← charVal h
  let b ← charVal l
  pure ((a <<< 4) ||| (b &&& 0x0f))

/-- loop of `HexStrToRawData(str, void*, uint16_t)`: `i < out_len && 2i+1 < size` -/
def toBufGo (cap : Nat) : List UInt8 → List UInt8 → Res (List UInt8)
  | out, h :: l :: r =>
    if out.length < cap then do
      let v ← pairVal h l
      toBufGo cap (out ++ [v]) r
    else .ok out
  | out, _ => .ok out

/-- `HexStrToRawData(hex_str, out_ptr, out_len)`: (ret, bytes stored) -/
def toBuf (s : List UInt8) (cap : Nat) : Res (Nat × List UInt8) :=
  if cap = 0 then .ok (0, [])
  else do
    let out ← toBufGo cap [] s
    pure (out.length, out)

def isWs (c : UInt8) : Bool := c = 32 ∨ c = 9

/-- result of the vector variants: the exception kind (if any) and the vector as left behind -/
structure VecRes where
  exc : Option String
  out : List UInt8
  deriving Repr, DecidableEq

/-- `std::string::at` -/
def strAt (s : List UInt8) (i : Nat) : Res UInt8 :=
  match s[i]? with
  | some c => .ok c
  | none => .exc "out_of_range"

/-- `_HexStrToRawDataWithoutDelimiter`: `n` = `end_pos - start_pos` (as size_t), `start` may be
`npos`; indices are computed modulo 2^64 as in the code -/
def noDelimGo (s : List UInt8) (start n : Nat) : Nat → Nat → List UInt8 → VecRes
  | 0, _, out => ⟨none, out⟩
  | fuel + 1, i, out =>
    if i * 2 < n then
      match (do let h ← strAt s ((start + 2 * i) % 2 ^ 64)
                let l ← strAt s ((start + 2 * i + 1) % 2 ^ 64)
                pairVal h l) with
      | .ok v => noDelimGo s start n fuel (i + 1) (out ++ [v])
      | .exc k => ⟨some k, out⟩
      | _ => ⟨some "?", out⟩
    else ⟨none, out⟩

def npos : Nat := 2 ^ 64 - 1

def findFirstNotOf (s : List UInt8) (set : List UInt8) (from_ : Nat) : Nat :=
  match ((s.zipIdx).drop from_).find? (fun p => !set.contains p.1) with
  | some p => p.2
  | none => npos

def findFirstOf (s : List UInt8) (set : List UInt8) (from_ : Nat) : Nat :=
  match ((s.zipIdx).drop from_).find? (fun p => set.contains p.1) with
  | some p => p.2
  | none => npos

def findLastNotOf (s : List UInt8) (set : List UInt8) : Nat :=
  match (s.zipIdx).reverse.find? (fun p => !set.contains p.1) with
  | some p => p.2
  | none => npos

def toVecNoDelim (s : List UInt8) : VecRes :=
  let start := findFirstNotOf s [32, 9] 0
  if start = npos then ⟨none, []⟩ else      -- fix C19-04: empty / blank input
  let end_ := (findLastNotOf s [32, 9] + 1) % 2 ^ 64
  let n := (end_ + 2 ^ 64 - start) % 2 ^ 64
  noDelimGo s start n (s.length + 2) 0 []

/-- `_HexStrToRawDataWithDelimiter` -/
def delimGo (s delim : List UInt8) : Nat → Nat → List UInt8 → VecRes
  | 0, _, out => ⟨none, out⟩
  | fuel + 1, start, out =>
    if start = npos then ⟨none, out⟩
    else
      let e0 := findFirstOf s delim start
      let end_ := if e0 = npos then s.length else e0
      let len := end_ - start
      let val : Res UInt8 :=
        if len = 1 then do strAt s start >>= charVal
        else if len = 2 then do
          let a ← strAt s start >>= charVal
          let b ← strAt s (start + 1) >>= charVal
          pure ((a <<< 4) ||| b)
        else .exc "MoreThan2Char"
      match val with
      | .ok v => delimGo s delim fuel (findFirstNotOf s delim end_) (out ++ [v])
      | .exc k => ⟨some k, out⟩
      | _ => ⟨some "?", out⟩

def toVecDelim (s delim : List UInt8) : VecRes :=
  delimGo s delim (s.length + 1) (findFirstNotOf s delim 0) []

/-- `HexStrToRawData(hex_str, vector&, delimiter)` -/
def toVec (s delim : List UInt8) : VecRes :=
  if delim.isEmpty then toVecNoDelim s else toVecDelim s delim

end Tbox.C19.Hex
