/- C19 round 9 (lesson h: accumulators and long inputs) — core Lean only.

* compact descriptions of LONG inputs (`rep` / `prng` / literal segments, expanded the same way by the harness),
* `Array`-based evaluators of the checksums and CRCs (the list models are the definitions the theorems speak about; the
  evaluators are proved equal to them in Round9Proofs: `…_array_refines`),
* the checksums once more WITH the C++ accumulator widths (`uint32_t acc` of CalcCheckSum16, `uint16_t acc` of
  CalcCheckSum8) and the "sum everything, fold the carries once at the end" variants a maintainer might write,
* a chunk-by-chunk evaluator for the Base64 encoder (proved equal to the list model),
* FNV-1a/64 for comparing long outputs. -/
import TboxModel.C19.Common
import TboxModel.C19.Crc
import TboxModel.C19.Base64
namespace Tbox.C19.Long
open Tbox.C19

/-! ### long inputs -/

inductive Seg
  | rep (pat : List UInt8) (n : Nat)     -- the pattern repeated cyclically, `n` bytes in total
  | prng (seed : UInt32) (n : Nat)       -- `n` bytes of x ← 1664525·x + 1013904223 (mod 2^32), byte = x >> 24
  deriving Repr

def Seg.size : Seg → Nat
  | .rep _ n => n
  | .prng _ n => n

def prngNext (x : UInt32) : UInt32 := x * 1664525 + 1013904223

def Seg.pushTo (a : Array UInt8) : Seg → Array UInt8
  | .rep pat n =>
    let p := pat.toArray
    if p.size = 0 then a else Nat.fold n (fun i _ acc => acc.push (p.getD (i % p.size) 0)) a
  | .prng seed n =>
    (Nat.fold n (fun _ _ (s : UInt32 × Array UInt8) => let x := prngNext s.1; (x, s.2.push (x >>> 24).toUInt8)) (seed, a)).2

def expand (segs : List Seg) : Array UInt8 := segs.foldl Seg.pushTo (Array.mkEmpty (segs.foldl (fun n s => n + s.size) 0))

/-! ### Array evaluators (proved equal to the list models: `C19_sum_array_refines`, `C19_crc_array_refines`) -/

def sum8A (a : Array UInt8) : UInt8 := ~~~ (UInt8.ofNat (a.foldl (fun acc b => Crc.fold8 (acc + b.toNat)) 0))

/-- one byte of `CalcCheckSum16`'s loop as a left fold: the state is the accumulator and the pending high byte -/
def step16 (s : Nat × Option UInt8) (b : UInt8) : Nat × Option UInt8 :=
  match s.2 with
  | none => (s.1, some b)
  | some h => (Crc.fold16 (s.1 + (h.toNat * 256 + b.toNat)), none)

def fin16 (s : Nat × Option UInt8) : Nat :=
  match s.2 with
  | none => s.1
  | some h => Crc.fold16 (s.1 + h.toNat * 256)

def sum16A (a : Array UInt8) : UInt16 := ~~~ (UInt16.ofNat (fin16 (a.foldl step16 (0, none))))

def crc16A (a : Array UInt8) (seed : UInt16) : UInt16 := a.foldl Crc.crc16Step seed
def crc32A (a : Array UInt8) (seed : UInt32) : UInt32 := ~~~ (a.foldl Crc.crc32Step seed)

/-! ### the checksums with the C++ accumulator widths

`CalcCheckSum16`: `uint32_t acc; acc += (b0 << 8 | b1); while ((acc & 0xffff0000) != 0) acc = (acc >> 16) + (acc & 0xffff);`
Naturals with the truncation explicit (`% 2^32` after every `+=`), the package's convention. For `acc < 2^32` the loop
condition `(acc & 0xffff0000) != 0` is `acc / 65536 ≠ 0`, i.e. `Crc.carry16`; two rounds always finish it (`fold16_done`). -/

def sum16AccW : Nat → List UInt8 → Nat
  | acc, b0 :: b1 :: r => sum16AccW (Crc.fold16 ((acc + (b0.toNat * 256 + b1.toNat)) % 2 ^ 32)) r
  | acc, [b0] => Crc.fold16 ((acc + b0.toNat * 256) % 2 ^ 32)
  | acc, [] => acc

/-- `CalcCheckSum16` with its `uint32_t` accumulator -/
def sum16W (data : List UInt8) : UInt16 := ~~~ (UInt16.ofNat (sum16AccW 0 data))

/-- the variant of seeded change C19-7: all words are summed into the `uint32_t` first … -/
def wordsW : Nat → List UInt8 → Nat
  | acc, b0 :: b1 :: r => wordsW ((acc + (b0.toNat * 256 + b1.toNat)) % 2 ^ 32) r
  | acc, [b0] => (acc + b0.toNat * 256) % 2 ^ 32
  | acc, [] => acc

/-- … and the end-around carries are folded ONCE, after the loop -/
def sum16FoldOnce32 (data : List UInt8) : UInt16 := ~~~ (UInt16.ofNat (Crc.fold16 (wordsW 0 data)))

/-- `CalcCheckSum8` with its `uint16_t` accumulator: `acc += b; while ((acc & 0xff00) != 0) acc = (acc & 0xff) + (acc >> 8);` -/
def sum8AccW (data : List UInt8) : Nat := data.foldl (fun acc b => Crc.fold8 ((acc + b.toNat) % 65536)) 0
def sum8W (data : List UInt8) : UInt8 := ~~~ (UInt8.ofNat (sum8AccW data))

/-- the fold-once variant of `CalcCheckSum8` (bytes summed into the `uint16_t`, carries folded after the loop) -/
def bytesW (data : List UInt8) : Nat := data.foldl (fun acc b => (acc + b.toNat) % 65536) 0
def sum8FoldOnce16 (data : List UInt8) : UInt8 := ~~~ (UInt8.ofNat (Crc.fold8 (bytesW data)))

/-! ### Base64 encoder chunk by chunk -/

/-- evaluate `f` on chunks of `k` elements and concatenate (the last chunk takes the rest); `fuel` ≥ number of chunks -/
def chunked (f : List UInt8 → List UInt8) (k : Nat) : Nat → List UInt8 → List UInt8
  | 0, l => f l
  | fuel + 1, l =>
    match l.drop k with
    | [] => f l
    | rest => f (l.take k) ++ chunked f k fuel rest

def b64EncChunked (x : List UInt8) : List UInt8 := chunked (B64.encGo .s0 0) 3072 (x.length / 3072 + 1) x

/-! ### FNV-1a, 64 bit -/
def fnvStep (h : UInt64) (b : UInt8) : UInt64 := (h ^^^ b.toUInt64) * 1099511628211
def fnvInit : UInt64 := 14695981039346656037
def fnvL (l : List UInt8) : UInt64 := l.foldl fnvStep fnvInit
def fnvA (a : Array UInt8) : UInt64 := a.foldl fnvStep fnvInit

end Tbox.C19.Long
