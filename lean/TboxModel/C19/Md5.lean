/- C19 — MD5 model: transcription of modules/crypto/md5.cpp. The 64 step lines (function, register
rotation, message word, shift, constant), the initial state and the padding come from Gen.lean. -/
import TboxModel.C19.Common
import TboxModel.C19.Gen
namespace Tbox.C19.Md5
open Tbox.C19

def rotl (x : UInt32) (n : Nat) : UInt32 := (x <<< UInt32.ofNat n) ||| (x >>> UInt32.ofNat (32 - n))

def fF (x y z : UInt32) : UInt32 := (x &&& y) ||| (~~~x &&& z)
def fG (x y z : UInt32) : UInt32 := (x &&& z) ||| (y &&& ~~~z)
def fH (x y z : UInt32) : UInt32 := x ^^^ y ^^^ z
def fI (x y z : UInt32) : UInt32 := y ^^^ (x ||| ~~~z)

def fn (f : Nat) (x y z : UInt32) : UInt32 :=
  match f with
  | 0 => fF x y z
  | 1 => fG x y z
  | 2 => fH x y z
  | _ => fI x y z

/-- `Decode`: 4 bytes little-endian → one word -/
def word (b0 b1 b2 b3 : UInt8) : UInt32 :=
  b0.toUInt32 ||| (b1.toUInt32 <<< 8) ||| (b2.toUInt32 <<< 16) ||| (b3.toUInt32 <<< 24)

def words : List UInt8 → List UInt32
  | b0 :: b1 :: b2 :: b3 :: r => word b0 b1 b2 b3 :: words r
  | _ => []

/-- `Encode`: words → bytes little-endian -/
def unwords : List UInt32 → List UInt8
  | [] => []
  | w :: r => (w &&& 0xFF).toUInt8 :: ((w >>> 8) &&& 0xFF).toUInt8 :: ((w >>> 16) &&& 0xFF).toUInt8
              :: ((w >>> 24) &&& 0xFF).toUInt8 :: unwords r

abbrev Regs := List UInt32   -- always 4 entries

def rget (r : Regs) (i : Nat) : UInt32 := r.getD i 0

/-- one `FF/GG/HH/II(a, b, c, d, x[k], s, ac)` with the registers named by the rotation -/
def stepOne (x : List UInt32) (r : Regs) (st : Nat × (Nat × Nat × Nat × Nat) × Nat × Nat × UInt32) : Regs :=
  let (f, (ia, ib, ic, id), k, s, ac) := st
  let a := rget r ia; let b := rget r ib; let c := rget r ic; let d := rget r id
  let a1 := a + (fn f b c d + x.getD k 0 + ac)
  let a2 := rotl a1 s
  r.set ia (a2 + b)

/-- the data of the algorithm: step table, initial state, padding -/
structure Params where
  steps : List (Nat × (Nat × Nat × Nat × Nat) × Nat × Nat × UInt32)
  init : List UInt32
  padding : List UInt8
  deriving DecidableEq

/-- the tables as they are in the source today -/
def gen : Params := ⟨Gen.md5Steps, Gen.md5Init, Gen.md5Padding⟩

/-- `Transform(state_, block)` -/
def transform (P : Params) (state : Regs) (block : List UInt8) : Regs :=
  let x := words block
  let r := P.steps.foldl (stepOne x) state
  List.zipWith (· + ·) state r

structure Ctx where
  count0 : UInt32
  count1 : UInt32
  state : Regs
  buffer : List UInt8     -- 64 bytes
  deriving Repr

def init (P : Params) : Ctx := ⟨0, 0, P.init, List.replicate 64 0⟩

/-- `memcpy(buffer_ + off, d, d.length)` -/
def poke (mem : List UInt8) (off : Nat) (d : List UInt8) : List UInt8 :=
  mem.take off ++ d ++ mem.drop (off + d.length)

/-- the `for (i = partlen; i + 64 <= len; i += 64) Transform(state_, input + i)` loop on the
remaining input; returns the state and the unconsumed tail -/
def blocks (P : Params) : Nat → Regs → List UInt8 → Regs × List UInt8
  | 0, st, d => (st, d)
  | fuel + 1, st, d => if 64 ≤ d.length then blocks P fuel (transform P st (d.take 64)) (d.drop 64) else (st, d)

/-- the bit-count update of `update()`: `plain_text_len << 3` is a 64-bit `size_t`; `count_[0]` is 32 bits wide.
`wide = true`: the carry test compares the 32-bit sum with the 64-bit shifted length (the code before fix C19-05);
`wide = false`: with the shifted length truncated to 32 bits (RFC 1321, after the fix). -/
def countUpdateW (wide : Bool) (c0 c1 : UInt32) (len : Nat) : UInt32 × UInt32 :=
  let sh := (len * 8) % 2 ^ 64
  let c0' := c0 + UInt32.ofNat sh
  let cmp := if wide then sh else sh % 2 ^ 32
  let c1a := if c0'.toNat < cmp then c1 + 1 else c1
  (c0', c1a + UInt32.ofNat (len / 2 ^ 29))

/-- the comparison as it is in the source today (`Gen.md5CarryWide` is read from md5.cpp on every run) -/
def countUpdate (c0 c1 : UInt32) (len : Nat) : UInt32 × UInt32 := countUpdateW Gen.md5CarryWide c0 c1 len

/-- `MD5::update` -/
def update (P : Params) (c : Ctx) (data : List UInt8) : Ctx :=
  let index := ((c.count0 >>> 3) &&& 0x3F).toNat
  let partlen := 64 - index
  let (c0, c1) := countUpdate c.count0 c.count1 data.length
  if data.length ≥ partlen then
    let buf := poke c.buffer index (data.take partlen)
    let st := transform P c.state buf
    let (st', rest) := blocks P data.length st (data.drop partlen)
    ⟨c0, c1, st', poke buf 0 rest⟩
  else
    ⟨c0, c1, c.state, poke c.buffer index data⟩

/-- `MD5::finish` -/
def finish (P : Params) (c : Ctx) : List UInt8 :=
  let index := ((c.count0 >>> 3) &&& 0x3F).toNat
  let padlen := if index < 56 then 56 - index else 120 - index
  let bits := unwords [c.count0, c.count1]
  let c1 := update P c (P.padding.take padlen)
  let c2 := update P c1 bits
  unwords c2.state

/-- digest of a message fed in the given pieces -/
def digestSplit (P : Params) (pieces : List (List UInt8)) : List UInt8 := finish P (pieces.foldl (update P) (init P))

def digest (P : Params) (msg : List UInt8) : List UInt8 := digestSplit P [msg]

/-! ### the object life cycle: `is_finished_` and the `TBOX_ASSERT(!is_finished_)` of `update` -/

structure Obj where
  ctx : Ctx
  finished : Bool

def Obj.new (P : Params) : Obj := ⟨init P, false⟩

/-- `MD5::update` (debug build: aborts on a finished object) -/
def Obj.update (P : Params) (o : Obj) (data : List UInt8) : Res Obj :=
  if o.finished then .assertFail else .ok { o with ctx := Md5.update P o.ctx data }

/-- the padding and the bit-count block that `finish` feeds through `update` -/
def finishPad (P : Params) (c : Ctx) : List UInt8 :=
  let index := ((c.count0 >>> 3) &&& 0x3F).toNat
  P.padding.take (if index < 56 then 56 - index else 120 - index)
def finishBits (c : Ctx) : List UInt8 := unwords [c.count0, c.count1]

/-- the context after `finish`: the two internal `update` calls (padding, bit count) stay in it -/
def finishCtx (P : Params) (c : Ctx) : Ctx := update P (update P c (finishPad P c)) (finishBits c)

/-- `MD5::finish`: its first internal `update` aborts on a finished object; otherwise the digest and `is_finished_ = true` -/
def Obj.finish (P : Params) (o : Obj) : Res (List UInt8 × Obj) :=
  if o.finished then .assertFail else .ok (Md5.finish P o.ctx, ⟨finishCtx P o.ctx, true⟩)

/-- a script step: `some data` = update, `none` = finish -/
abbrev Step := Option (List UInt8)

/-- run a script: the digests produced and whether the run ended in the abort -/
def runScript (P : Params) : Obj → List Step → List (List UInt8) × Bool
  | _, [] => ([], false)
  | o, some d :: r =>
    match o.update P d with
    | .ok o' => runScript P o' r
    | _ => ([], true)
  | o, none :: r =>
    match o.finish P with
    | .ok (dg, o') => let (ds, ab) := runScript P o' r; (dg :: ds, ab)
    | _ => ([], true)

/-! ### two objects used in turns (round 8): nothing is shared between objects -/

/-- a step on object A (`false`) or object B (`true`) -/
abbrev Step2 := Bool × Step

/-- run an interleaved script on two objects: digests of A and of B in the order produced, and whether the run aborted -/
def runTwo (P : Params) : Obj → Obj → List Step2 → List (Bool × List UInt8) × Bool
  | _, _, [] => ([], false)
  | a, b, (w, some d) :: r =>
    match (if w then b else a).update P d with
    | .ok o' => if w then runTwo P a o' r else runTwo P o' b r
    | _ => ([], true)
  | a, b, (w, none) :: r =>
    match (if w then b else a).finish P with
    | .ok (dg, o') => let (ds, ab) := (if w then runTwo P a o' r else runTwo P o' b r); ((w, dg) :: ds, ab)
    | _ => ([], true)

/-- the steps of one of the two objects -/
def proj (w : Bool) (s : List Step2) : List Step := (s.filter (fun x => x.1 = w)).map (·.2)

/-- the 16 bytes of `state_` as `Encode` would print them (one of the pieces "derived from the cached state" that the generator
feeds back into the object; it computes them with its own MD5, props/C19/refimpl.py) -/
def Ctx.stateBytes (c : Ctx) : List UInt8 := unwords c.state

/-- release build (`NDEBUG`: the assertion is compiled out): a second `finish` hashes on from the padded context -/
def finishTwiceRelease (P : Params) (c : Ctx) : List UInt8 := Md5.finish P (finishCtx P c)

end Tbox.C19.Md5
