/- C19 — MD5: the context after any sequence of `update` calls is determined by the concatenated
message (full blocks absorbed, the unfinished tail in the buffer, the bit count), hence the digest does
not depend on how the message is split. -/
import TboxModel.C19.Md5
namespace Tbox.C19.Md5
open Tbox.C19

variable (P : Params)

/-- absorb all full 64-byte blocks of `d` (canonical fuel) -/
def run (st : Regs) (d : List UInt8) : Regs × List UInt8 := blocks P d.length st d

theorem blocks_fuel : ∀ (f f' : Nat) (st : Regs) (d : List UInt8), d.length / 64 ≤ f → d.length / 64 ≤ f' →
    blocks P f st d = blocks P f' st d := by
  intro f
  induction f with
  | zero =>
    intro f' st d h _
    have hd : ¬ 64 ≤ d.length := by omega
    cases f' with
    | zero => rfl
    | succ g => simp [blocks, hd]
  | succ f ih =>
    intro f' st d h h'
    by_cases hd : 64 ≤ d.length
    · cases f' with
      | zero => omega
      | succ g =>
        simp only [blocks, hd, if_true]
        exact ih g _ _ (by simp; omega) (by simp; omega)
    · cases f' with
      | zero => simp [blocks, hd]
      | succ g => simp [blocks, hd]

theorem run_short (st : Regs) (d : List UInt8) (h : d.length < 64) : run P st d = (st, d) := by
  unfold run
  rw [blocks_fuel P d.length 0 st d (by omega) (by omega)]; rfl

theorem run_full (st : Regs) (B d : List UInt8) (hB : B.length = 64) :
    run P st (B ++ d) = run P (transform P st B) d := by
  unfold run
  rw [blocks_fuel P (B ++ d).length (d.length + 1) st (B ++ d) (by omega) (by simp; omega)]
  simp only [blocks, List.length_append, hB]
  rw [if_pos (by omega), List.take_left' hB, List.drop_left' hB]

/-- every list splits into its full blocks and a short rest, and `run` returns exactly that rest -/
theorem run_split : ∀ (n : Nat) (d : List UInt8) (st : Regs), d.length ≤ n →
    ∃ D1, d = D1 ++ (run P st d).2 ∧ D1.length % 64 = 0 ∧ (run P st d).2.length < 64
      ∧ (run P st d).1 = (run P st D1).1 := by
  intro n
  induction n with
  | zero =>
    intro d st h
    have : d = [] := List.eq_nil_of_length_eq_zero (by omega)
    subst this
    exact ⟨[], by simp [run_short], rfl, by simp [run_short], rfl⟩
  | succ n ih =>
    intro d st h
    by_cases hd : d.length < 64
    · rw [run_short P st d hd]
      exact ⟨[], by simp, rfl, hd, by simp [run_short]⟩
    · have hsplit : d = d.take 64 ++ d.drop 64 := (List.take_append_drop 64 d).symm
      have hB : (d.take 64).length = 64 := by simp; omega
      obtain ⟨D1, e1, e2, e3, e4⟩ := ih (d.drop 64) (transform P st (d.take 64)) (by simp; omega)
      have hr : run P st d = run P (transform P st (d.take 64)) (d.drop 64) := by
        conv => lhs; rw [hsplit]
        exact run_full P st _ _ hB
      refine ⟨d.take 64 ++ D1, ?_, ?_, ?_, ?_⟩
      · rw [hr, List.append_assoc, ← e1]; exact hsplit
      · simp only [List.length_append, hB]; omega
      · rw [hr]; exact e3
      · rw [hr, e4, run_full P st _ _ hB]

theorem run_append : ∀ (n : Nat) (d1 d2 : List UInt8) (st : Regs), d1.length ≤ n → d1.length % 64 = 0 →
    run P st (d1 ++ d2) = run P (run P st d1).1 d2 := by
  intro n
  induction n with
  | zero =>
    intro d1 d2 st h _
    have : d1 = [] := List.eq_nil_of_length_eq_zero (by omega)
    subst this; simp [run_short]
  | succ n ih =>
    intro d1 d2 st h hm
    by_cases hd : d1.length = 0
    · have : d1 = [] := List.eq_nil_of_length_eq_zero hd
      subst this; simp [run_short]
    · have hsplit : d1 = d1.take 64 ++ d1.drop 64 := (List.take_append_drop 64 d1).symm
      have hB : (d1.take 64).length = 64 := by simp; omega
      have h1 : run P st (d1 ++ d2) = run P (transform P st (d1.take 64)) (d1.drop 64 ++ d2) := by
        conv => lhs; rw [hsplit, List.append_assoc]
        exact run_full P st _ _ hB
      have h2 : run P st d1 = run P (transform P st (d1.take 64)) (d1.drop 64) := by
        conv => lhs; rw [hsplit]
        exact run_full P st _ _ hB
      rw [h1, h2]
      exact ih _ _ _ (by simp; omega) (by simp; omega)

end Tbox.C19.Md5

namespace Tbox.C19.Md5
open Tbox.C19

def cnt0 (n : Nat) : UInt32 := UInt32.ofNat (8 * n % 2 ^ 32)
def cnt1 (n : Nat) : UInt32 := UInt32.ofNat (8 * n / 2 ^ 32 % 2 ^ 32)

theorem idx_cnt0 (n : Nat) : ((cnt0 n >>> 3) &&& 0x3F).toNat = n % 64 := by
  unfold cnt0
  rw [UInt32.toNat_and, UInt32.toNat_shiftRight]
  have h3 : (3 : UInt32).toNat % 32 = 3 := rfl
  have h63 : (0x3F : UInt32).toNat = 2 ^ 6 - 1 := rfl
  rw [h3, h63, Nat.and_two_pow_sub_one_eq_mod, Nat.shiftRight_eq_div_pow]
  simp only [UInt32.toNat_ofNat']
  omega

theorem countUpdateW_cnt (wide : Bool) (n len : Nat) (hl : len < 2 ^ 29) :
    countUpdateW wide (cnt0 n) (cnt1 n) len = (cnt0 (n + len), cnt1 (n + len)) := by
  unfold countUpdateW cnt0 cnt1
  have hsh : len * 8 % 2 ^ 64 = len * 8 := Nat.mod_eq_of_lt (by omega)
  have hz : len / 2 ^ 29 = 0 := Nat.div_eq_of_lt hl
  have hcmp : (if wide = true then len * 8 else len * 8 % 2 ^ 32) = len * 8 := by
    cases wide
    · simp only [Bool.false_eq_true, if_false]; exact Nat.mod_eq_of_lt (by omega)
    · simp
  simp only [hsh, hz, hcmp]
  have e0 : (UInt32.ofNat (8 * n % 2 ^ 32) + UInt32.ofNat (len * 8)).toNat = 8 * (n + len) % 2 ^ 32 := by
    rw [UInt32.toNat_add]; simp only [UInt32.toNat_ofNat']; omega
  have h0 : UInt32.ofNat (8 * n % 2 ^ 32) + UInt32.ofNat (len * 8) = UInt32.ofNat (8 * (n + len) % 2 ^ 32) := by
    rw [← UInt32.toNat_inj, e0]; simp only [UInt32.toNat_ofNat']; omega
  rw [h0]
  congr 1
  rw [← UInt32.toNat_inj]
  have hlt : (UInt32.ofNat (8 * (n + len) % 2 ^ 32)).toNat = 8 * (n + len) % 2 ^ 32 := by
    simp only [UInt32.toNat_ofNat']; omega
  rw [hlt]
  by_cases hc : 8 * (n + len) % 2 ^ 32 < len * 8
  · rw [if_pos hc, UInt32.toNat_add, UInt32.toNat_add]
    simp only [UInt32.toNat_ofNat', UInt32.toNat_one]; omega
  · rw [if_neg hc, UInt32.toNat_add]
    simp only [UInt32.toNat_ofNat']; omega

/-- the RFC 1321 comparison (after fix C19-05): the 64-bit bit count is right for every update length whose
bit count fits a size_t -/
theorem countUpdateN_cnt (n len : Nat) (hl : len < 2 ^ 61) :
    countUpdateW false (cnt0 n) (cnt1 n) len = (cnt0 (n + len), cnt1 (n + len)) := by
  unfold countUpdateW cnt0 cnt1
  have hsh : len * 8 % 2 ^ 64 = len * 8 := Nat.mod_eq_of_lt (by omega)
  simp only [hsh, Bool.false_eq_true, if_false]
  have e0 : (UInt32.ofNat (8 * n % 2 ^ 32) + UInt32.ofNat (len * 8)).toNat = 8 * (n + len) % 2 ^ 32 := by
    rw [UInt32.toNat_add]; simp only [UInt32.toNat_ofNat']; omega
  have h0 : UInt32.ofNat (8 * n % 2 ^ 32) + UInt32.ofNat (len * 8) = UInt32.ofNat (8 * (n + len) % 2 ^ 32) := by
    rw [← UInt32.toNat_inj, e0]; simp only [UInt32.toNat_ofNat']; omega
  rw [h0]
  congr 1
  rw [← UInt32.toNat_inj]
  have hlt : (UInt32.ofNat (8 * (n + len) % 2 ^ 32)).toNat = 8 * (n + len) % 2 ^ 32 := by
    simp only [UInt32.toNat_ofNat']; omega
  rw [hlt]
  by_cases hc : 8 * (n + len) % 2 ^ 32 < len * 8 % 2 ^ 32
  · rw [if_pos hc, UInt32.toNat_add, UInt32.toNat_add]
    simp only [UInt32.toNat_ofNat', UInt32.toNat_one]; omega
  · rw [if_neg hc, UInt32.toNat_add]
    simp only [UInt32.toNat_ofNat']; omega
/-- the comparison that is in the source today is the repaired one (`Gen.md5CarryWide` is regenerated from md5.cpp on
every run; if the 64-bit comparison comes back this proof breaks) -/
theorem carry_is_narrow : Gen.md5CarryWide = false := by decide

theorem countUpdate_cnt (n len : Nat) (hl : len < 2 ^ 61) :
    countUpdate (cnt0 n) (cnt1 n) len = (cnt0 (n + len), cnt1 (n + len)) := by
  unfold countUpdate; rw [carry_is_narrow]; exact countUpdateN_cnt n len hl

end Tbox.C19.Md5

namespace Tbox.C19.Md5
open Tbox.C19
variable (P : Params)

/-- the context `c` represents the message `m` fed so far -/
def Repr (c : Ctx) (m : List UInt8) : Prop :=
  ∃ M tail, m = M ++ tail ∧ M.length % 64 = 0 ∧ tail.length < 64 ∧ c.buffer.length = 64
    ∧ c.buffer.take tail.length = tail ∧ c.state = (run P P.init M).1
    ∧ c.count0 = cnt0 m.length ∧ c.count1 = cnt1 m.length

theorem repr_init : Repr P (init P) [] :=
  ⟨[], [], rfl, rfl, by decide, by simp [init], rfl, by simp [init, run_short], rfl, rfl⟩

theorem poke_length (mem : List UInt8) (off : Nat) (d : List UInt8) (h : off + d.length ≤ mem.length) :
    (poke mem off d).length = mem.length := by
  unfold poke; simp; omega

theorem repr_update (c : Ctx) (m data : List UInt8) (h : Repr P c m) (hl : data.length < 2 ^ 61) :
    Repr P (update P c data) (m ++ data) := by
  obtain ⟨M, tail, hm, hM, ht, hb, hbt, hs, h0, h1⟩ := h
  have hmlen : m.length = M.length + tail.length := by rw [hm]; simp
  have hidx : ((cnt0 m.length >>> 3) &&& 0x3F).toNat = tail.length := by rw [idx_cnt0]; omega
  have hcnt := countUpdate_cnt m.length data.length hl
  unfold update
  simp only [h0, h1, hidx, hcnt]
  by_cases hge : data.length ≥ 64 - tail.length
  · rw [if_pos hge]
    -- the buffer becomes the next full block
    have hbuf : poke c.buffer tail.length (data.take (64 - tail.length)) = tail ++ data.take (64 - tail.length) := by
      unfold poke
      have hlen : (data.take (64 - tail.length)).length = 64 - tail.length := by simp; omega
      rw [hbt, hlen, List.drop_of_length_le (by omega), List.append_nil]
    rw [hbuf]
    have hB : (tail ++ data.take (64 - tail.length)).length = 64 := by simp; omega
    have hfuel : blocks P data.length (transform P c.state (tail ++ data.take (64 - tail.length))) (data.drop (64 - tail.length))
        = run P (transform P c.state (tail ++ data.take (64 - tail.length))) (data.drop (64 - tail.length)) := by
      unfold run
      exact blocks_fuel P _ _ _ _ (by simp; omega) (by omega)
    rw [hfuel]
    obtain ⟨D1, e1, e2, e3, e4⟩ := run_split P _ (data.drop (64 - tail.length))
      (transform P c.state (tail ++ data.take (64 - tail.length))) (Nat.le_refl _)
    generalize hR : run P (transform P c.state (tail ++ data.take (64 - tail.length))) (data.drop (64 - tail.length)) = R at e1 e3 e4 ⊢
    refine ⟨M ++ (tail ++ data.take (64 - tail.length)) ++ D1, R.2, ?_, ?_, e3, ?_, ?_, ?_, ?_, ?_⟩
    · rw [hm]
      have : data = data.take (64 - tail.length) ++ data.drop (64 - tail.length) := (List.take_append_drop _ _).symm
      conv => lhs; rw [this, e1]
      simp [List.append_assoc]
    · simp only [List.length_append] at hB ⊢; omega
    · simp only
      rw [poke_length _ _ _ (by simp; omega)]; exact hB
    · simp only
      unfold poke; simp
    · simp only
      rw [e4, List.append_assoc, run_append P _ M _ _ (Nat.le_refl _) hM, ← hs, run_full P _ _ _ hB]
    · simp [List.length_append]
    · simp [List.length_append]
  · rw [if_neg hge]
    refine ⟨M, tail ++ data, by rw [hm, List.append_assoc], hM, by simp; omega, ?_, ?_, hs, by simp, by simp⟩
    · simp only
      rw [poke_length _ _ _ (by omega)]; exact hb
    · simp only
      unfold poke
      rw [hbt, List.take_left' rfl]

end Tbox.C19.Md5

namespace Tbox.C19.Md5
open Tbox.C19
variable (P : Params)

theorem repr_foldl : ∀ (pieces : List (List UInt8)) (c : Ctx) (m : List UInt8), Repr P c m →
    (∀ p ∈ pieces, p.length < 2 ^ 61) → Repr P (pieces.foldl (update P) c) (m ++ pieces.flatten) := by
  intro pieces
  induction pieces with
  | nil => intro c m h _; simpa using h
  | cons p r ih =>
    intro c m h hl
    have := ih (update P c p) (m ++ p) (repr_update P c m p h (hl p (by simp))) (fun q hq => hl q (by simp [hq]))
    simpa [List.append_assoc] using this

/-- two contexts representing the same message agree on everything `finish` looks at -/
theorem repr_unique (c c' : Ctx) (m : List UInt8) (h : Repr P c m) (h' : Repr P c' m) :
    c.state = c'.state ∧ c.count0 = c'.count0 ∧ c.count1 = c'.count1 := by
  obtain ⟨M, tail, hm, hM, ht, _, _, hs, h0, h1⟩ := h
  obtain ⟨M', tail', hm', hM', ht', _, _, hs', h0', h1'⟩ := h'
  have hlen : M.length = M'.length := by
    have a : m.length = M.length + tail.length := by rw [hm]; simp
    have b : m.length = M'.length + tail'.length := by rw [hm']; simp
    omega
  have hMM : M = M' := (List.append_inj (hm.symm.trans hm') hlen).1
  subst hMM
  exact ⟨by rw [hs, hs'], by rw [h0, h0'], by rw [h1, h1']⟩

theorem unwords2_length (a b : UInt32) : (unwords [a, b]).length = 8 := by simp [unwords]

theorem finish_eq (c c' : Ctx) (m : List UInt8) (h : Repr P c m) (h' : Repr P c' m) :
    finish P c = finish P c' := by
  obtain ⟨_, e0, e1⟩ := repr_unique P c c' m h h'
  unfold finish
  rw [← e0, ← e1]
  simp only
  generalize hpad : P.padding.take (if ((c.count0 >>> 3) &&& 0x3F).toNat < 56 then 56 - ((c.count0 >>> 3) &&& 0x3F).toNat
      else 120 - ((c.count0 >>> 3) &&& 0x3F).toNat) = pad
  have hpl : pad.length < 2 ^ 61 := by
    rw [← hpad, List.length_take]
    have : ((c.count0 >>> 3) &&& 0x3F).toNat < 64 := by
      rw [UInt32.toNat_and]
      have h63 : (0x3F : UInt32).toNat = 2 ^ 6 - 1 := rfl
      rw [h63, Nat.and_two_pow_sub_one_eq_mod]; omega
    split <;> omega
  have hbl : (unwords [c.count0, c.count1]).length < 2 ^ 61 := by rw [unwords2_length]; omega
  have r1 := repr_update P _ _ _ (repr_update P c m pad h hpl) hbl
  have r2 := repr_update P _ _ _ (repr_update P c' m pad h' hpl) hbl
  rw [(repr_unique P _ _ _ r1 r2).1]

end Tbox.C19.Md5

