/- C19 — the transcribed MD5 (context, buffering, finish) equals the RFC 1321 definition `Spec.md5`. -/
import TboxModel.C19.Md5Proofs
import TboxModel.C19.Spec
namespace Tbox.C19.Md5
open Tbox.C19 Tbox.C19.Spec
set_option maxRecDepth 100000

/-! ### one block -/
theorem words_eq : ∀ b : List UInt8, words b = md5Decode b
  | [] => rfl
  | [_] => rfl
  | [_, _] => rfl
  | [_, _, _] => rfl
  | b0 :: b1 :: b2 :: b3 :: r => by simp only [words, md5Decode, word, words_eq r]

theorem unwords_eq : ∀ w : List UInt32, unwords w = md5Encode w
  | [] => rfl
  | a :: r => by simp only [unwords, md5Encode, unwords_eq r]

def stepOf (i : Nat) : Nat × (Nat × Nat × Nat × Nat) × Nat × Nat × UInt32 :=
  (i / 16, md5Rot i, md5Word i, md5Shift i, md5T.getD i 0)

theorem spec_steps : md5Params.steps = (List.range 64).map stepOf := rfl

/-- the rotating variables A B C D as seen in the model's fixed registers before step i -/
def view (i : Nat) (r : Regs) : Md5State :=
  (rget r (md5Rot i).1, rget r (md5Rot i).2.1, rget r (md5Rot i).2.2.1, rget r (md5Rot i).2.2.2)

theorem step_view (x : List UInt32) (r0 r1 r2 r3 : UInt32) (i : Nat) :
    ∃ q0 q1 q2 q3, stepOne x [r0, r1, r2, r3] (stepOf i) = [q0, q1, q2, q3]
      ∧ view (i + 1) [q0, q1, q2, q3] = md5Step x (view i [r0, r1, r2, r3]) i := by
  have hf : ∀ (q : Nat) (b c d : UInt32), fn q b c d = (match q with
      | 0 => (b &&& c) ||| (~~~b &&& d)
      | 1 => (b &&& d) ||| (c &&& ~~~d)
      | 2 => b ^^^ c ^^^ d
      | _ => c ^^^ (b ||| ~~~d)) := by
    intro q b c d
    match q with
    | 0 => rfl
    | 1 => rfl
    | 2 => rfl
    | _ + 3 => rfl
  have h4 : i % 4 = 0 ∨ i % 4 = 1 ∨ i % 4 = 2 ∨ i % 4 = 3 := by omega
  rcases h4 with h | h | h | h
  · have h' : (i + 1) % 4 = 1 := by omega
    refine ⟨(rotl (r0 + (fn (i / 16) r1 r2 r3 + x.getD (md5Word i) 0 + md5T.getD i 0)) (md5Shift i) + r1), r1, r2, r3, by simp [stepOne, stepOf, md5Rot, h, rget], ?_⟩
    simp only [view, md5Rot, h, h', rget, md5Step, hf, rotl, rotl32, List.getD_cons_zero, List.getD_cons_succ]
    simp only [Prod.mk.injEq, true_and, and_true]
    rw [UInt32.add_comm]; congr 3 <;>
    · simp only [UInt32.add_assoc]
      generalize i / 16 = q
      match q with
      | 0 => rfl
      | 1 => rfl
      | 2 => rfl
      | _ + 3 => rfl
  · have h' : (i + 1) % 4 = 2 := by omega
    refine ⟨r0, r1, r2, (rotl (r3 + (fn (i / 16) r0 r1 r2 + x.getD (md5Word i) 0 + md5T.getD i 0)) (md5Shift i) + r0), by simp [stepOne, stepOf, md5Rot, h, rget], ?_⟩
    simp only [view, md5Rot, h, h', rget, md5Step, hf, rotl, rotl32, List.getD_cons_zero, List.getD_cons_succ]
    simp only [Prod.mk.injEq, true_and, and_true]
    rw [UInt32.add_comm]; congr 3 <;>
    · simp only [UInt32.add_assoc]
      generalize i / 16 = q
      match q with
      | 0 => rfl
      | 1 => rfl
      | 2 => rfl
      | _ + 3 => rfl
  · have h' : (i + 1) % 4 = 3 := by omega
    refine ⟨r0, r1, (rotl (r2 + (fn (i / 16) r3 r0 r1 + x.getD (md5Word i) 0 + md5T.getD i 0)) (md5Shift i) + r3), r3, by simp [stepOne, stepOf, md5Rot, h, rget], ?_⟩
    simp only [view, md5Rot, h, h', rget, md5Step, hf, rotl, rotl32, List.getD_cons_zero, List.getD_cons_succ]
    simp only [Prod.mk.injEq, true_and, and_true]
    rw [UInt32.add_comm]; congr 3 <;>
    · simp only [UInt32.add_assoc]
      generalize i / 16 = q
      match q with
      | 0 => rfl
      | 1 => rfl
      | 2 => rfl
      | _ + 3 => rfl
  · have h' : (i + 1) % 4 = 0 := by omega
    refine ⟨r0, (rotl (r1 + (fn (i / 16) r2 r3 r0 + x.getD (md5Word i) 0 + md5T.getD i 0)) (md5Shift i) + r2), r2, r3, by simp [stepOne, stepOf, md5Rot, h, rget], ?_⟩
    simp only [view, md5Rot, h, h', rget, md5Step, hf, rotl, rotl32, List.getD_cons_zero, List.getD_cons_succ]
    simp only [Prod.mk.injEq, true_and, and_true]
    rw [UInt32.add_comm]; congr 3 <;>
    · simp only [UInt32.add_assoc]
      generalize i / 16 = q
      match q with
      | 0 => rfl
      | 1 => rfl
      | 2 => rfl
      | _ + 3 => rfl


theorem fold_view (x : List UInt32) : ∀ (n k : Nat) (r0 r1 r2 r3 : UInt32),
    ∃ q0 q1 q2 q3, ((List.range' k n).map stepOf).foldl (stepOne x) [r0, r1, r2, r3] = [q0, q1, q2, q3]
      ∧ view (k + n) [q0, q1, q2, q3] = (List.range' k n).foldl (md5Step x) (view k [r0, r1, r2, r3]) := by
  intro n
  induction n with
  | zero => intro k r0 r1 r2 r3; exact ⟨r0, r1, r2, r3, rfl, rfl⟩
  | succ n ih =>
    intro k r0 r1 r2 r3
    obtain ⟨p0, p1, p2, p3, e1, e2⟩ := step_view x r0 r1 r2 r3 k
    obtain ⟨q0, q1, q2, q3, f1, f2⟩ := ih (k + 1) p0 p1 p2 p3
    refine ⟨q0, q1, q2, q3, ?_, ?_⟩
    · simp only [List.range'_succ, List.map_cons, List.foldl_cons, e1, f1]
    · have : k + (n + 1) = k + 1 + n := by omega
      rw [this, f2, e2]
      simp only [List.range'_succ, List.foldl_cons]

/-- the compression function of the source (with the RFC tables) is the RFC's -/
theorem transform_eq (s0 s1 s2 s3 : UInt32) (block : List UInt8) :
    transform md5Params [s0, s1, s2, s3] block
      = (let r := md5Compress (s0, s1, s2, s3) block; [r.1, r.2.1, r.2.2.1, r.2.2.2]) := by
  unfold transform md5Compress
  rw [spec_steps, words_eq]
  obtain ⟨q0, q1, q2, q3, e1, e2⟩ := fold_view (md5Decode block) 64 0 s0 s1 s2 s3
  rw [List.range_eq_range']
  dsimp only
  rw [e1]
  have hv : view (0 + 64) [q0, q1, q2, q3] = (q0, q1, q2, q3) := rfl
  have hv0 : view 0 [s0, s1, s2, s3] = (s0, s1, s2, s3) := rfl
  rw [hv, hv0] at e2
  rw [← e2]
  rfl

/-- the same for any number of blocks: `run` over 4-register lists = `md5Blocks` over tuples -/
theorem blocks_eq : ∀ (f : Nat) (s0 s1 s2 s3 : UInt32) (d : List UInt8),
    (blocks md5Params f [s0, s1, s2, s3] d).1
      = (let r := md5Blocks f (s0, s1, s2, s3) d; [r.1, r.2.1, r.2.2.1, r.2.2.2]) := by
  intro f
  induction f with
  | zero => intro s0 s1 s2 s3 d; rfl
  | succ f ih =>
    intro s0 s1 s2 s3 d
    by_cases h : 64 ≤ d.length
    · simp only [blocks, md5Blocks, h, if_true]
      rw [transform_eq]
      exact ih _ _ _ _ _
    · simp only [blocks, md5Blocks, h, if_false]


theorem gen_eq : gen = md5Params := by decide +kernel

theorem padding_take (k : Nat) (h1 : 1 ≤ k) (h64 : k ≤ 64) :
    md5Params.padding.take k = 0x80 :: List.replicate (k - 1) 0 := by
  have hp : md5Params.padding = 0x80 :: List.replicate 63 0 := rfl
  obtain ⟨j, rfl⟩ : ∃ j, k = j + 1 := ⟨k - 1, by omega⟩
  rw [hp, List.take_succ_cons, List.take_replicate]
  congr 2; omega

/-- `finish` on a context representing `m` produces the RFC 1321 digest of `m` -/
theorem finish_spec (c : Ctx) (m : List UInt8) (h : Repr md5Params c m) : finish md5Params c = Spec.md5 m := by
  obtain ⟨M, tail, hm, hM, ht, hb, hbt, hs, h0, h1⟩ := id h
  have hmlen : m.length = M.length + tail.length := by rw [hm]; simp
  have hidx : ((c.count0 >>> 3) &&& 0x3F).toNat = m.length % 64 := by rw [h0, idx_cnt0]
  unfold finish
  simp only [hidx]
  generalize hpl : (if m.length % 64 < 56 then 56 - m.length % 64 else 120 - m.length % 64) = padlen
  have hp1 : 1 ≤ padlen ∧ padlen ≤ 64 ∧ padlen - 1 = (119 - m.length % 64) % 64 ∧ (m.length + padlen + 8) % 64 = 0 := by
    rw [← hpl]; split <;> omega
  obtain ⟨p1, p2, p3, p4⟩ := hp1
  rw [padding_take padlen p1 p2, p3, h0, h1]
  simp only [unwords_eq]
  have r1 := repr_update md5Params c m _ h (show (0x80 :: List.replicate ((119 - m.length % 64) % 64) (0 : UInt8)).length < 2 ^ 61 by
    simp; omega)
  have r2 := repr_update md5Params _ _ (md5Encode [cnt0 m.length, cnt1 m.length]) r1 (by simp [md5Encode])
  have hpad : m ++ 0x80 :: List.replicate ((119 - m.length % 64) % 64) 0 ++ md5Encode [cnt0 m.length, cnt1 m.length]
      = md5Pad m := by
    unfold md5Pad cnt0 cnt1; simp
  rw [hpad] at r2
  obtain ⟨M', tail', hm', hM', ht', _, _, hs', _, _⟩ := r2
  have hlen : (md5Pad m).length % 64 = 0 := by
    rw [← hpad]; simp [md5Encode]; omega
  have htl : tail' = [] := by
    have a : (md5Pad m).length = M'.length + tail'.length := by rw [hm']; simp
    exact List.eq_nil_of_length_eq_zero (by omega)
  subst htl
  rw [List.append_nil] at hm'
  subst hm'
  rw [hs']
  unfold Spec.md5 run
  have hi : md5Params.init = [0x67452301, 0xefcdab89, 0x98badcfe, 0x10325476] := rfl
  rw [hi, blocks_eq]

theorem digestSplit_spec (pieces : List (List UInt8)) (hp : ∀ p ∈ pieces, p.length < 2 ^ 61) :
    digestSplit gen pieces = Spec.md5 pieces.flatten := by
  rw [gen_eq]
  unfold digestSplit
  have r := repr_foldl md5Params pieces _ [] (repr_init md5Params) hp
  simp only [List.nil_append] at r
  exact finish_spec _ _ r

end Tbox.C19.Md5
