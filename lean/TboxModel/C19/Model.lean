/- C19 — executable models of the codecs (one file each); core Lean only. -/
import TboxModel.C19.Base64
import TboxModel.C19.SInt
import TboxModel.C19.Hex
import TboxModel.C19.Ser
import TboxModel.C19.Crc
import TboxModel.C19.Url
import TboxModel.C19.Md5
import TboxModel.C19.Aes
