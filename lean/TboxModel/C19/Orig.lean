/- C19 — the Base64 decoders as they were BEFORE fixes C19-01 / C19-02 (literal transcription:
speculative store of the next partial byte, `char` used as a signed table index). Used only by the
counterexample theorems in Props.lean; the driver and all positive theorems use Base64.lean. -/
import TboxModel.C19.Base64
namespace Tbox.C19.Orig
open Tbox.C19 Tbox.C19.B64

/-- `int(c)` for a signed `char` -/
def charInt (c : UInt8) : Int := if c < 128 then c.toNat else (c.toNat : Int) - 256

/-- `out_bytes[i] = v` on a buffer of the given contents (length = capacity) -/
def poke (mem : List UInt8) (i : Nat) (v : UInt8) : Res (List UInt8) :=
  if i < mem.length then .ok (mem.set i v) else .oob "write out"

/-- `out_bytes[i] |= v` -/
def pokeOr (mem : List UInt8) (i : Nat) (v : UInt8) : Res (List UInt8) :=
  if i < mem.length then .ok (mem.set i (mem.getD i 0 ||| v)) else .oob "write out"

def decGo : Nat → Nat → List UInt8 → List UInt8 → Res (Option (Nat × List UInt8))
  | _, w, mem, [] => .ok (some (w, mem))
  | pos, w, mem, c :: r =>
    if c = pad then .ok (some (w, mem))
    else do
      let v ← tblReadInt "base64de" Gen.base64de (charInt c)
      if v = 255 then pure none
      else match pos % 4 with
        | 0 => do let m ← poke mem w (v <<< 2); decGo (pos + 1) w m r
        | 1 => do let m ← pokeOr mem w (v >>> 4); let m ← poke m (w + 1) (v <<< 4); decGo (pos + 1) (w + 1) m r
        | 2 => do let m ← pokeOr mem w (v >>> 2); let m ← poke m (w + 1) (v <<< 6); decGo (pos + 1) (w + 1) m r
        | _ => do let m ← pokeOr mem w v; decGo (pos + 1) (w + 1) m r

/-- pre-fix `Decode(const char*, size_t, void*, size_t)` on a zeroed buffer of `cap` bytes -/
def decodeBuf (s : List UInt8) (cap : Nat) : Res (Nat × List UInt8) :=
  if s.length % 4 ≠ 0 then .ok (0, [])
  else if decodeLength s > cap then .ok (0, [])
  else do
    match ← decGo 0 0 (List.replicate cap 0) s with
    | none => pure (0, [])
    | some (w, mem) => pure (w, mem.take w)

end Tbox.C19.Orig
