/-
C19 — PROPERTY THEOREMS (helper lemmas live in the *Proofs files).

Property: each encoder/decoder pair (Base64, hex strings, scalable integers, serializer /
deserializer, URL percent-encoding) is an exact inverse on every value, produces exactly the size
its size function advertises, fails cleanly on invalid input, and never reads outside its input or
writes beyond the capacity given; CRC-16, CRC-32, the 8/16-bit checksums, MD5 (any split into
updates) and AES-128 equal the published algorithms.
-/
import TboxModel.C19.TableProofs
import TboxModel.C19.Orig
import TboxModel.C19.SIntProofs
import TboxModel.C19.SerProofs
import TboxModel.C19.B64Proofs
import TboxModel.C19.B64SpecProofs
import TboxModel.C19.CrcProofs
import TboxModel.C19.UrlHexProofs
import TboxModel.C19.Md5Proofs
import TboxModel.C19.Md5SpecProofs
import TboxModel.C19.AesProofs
import TboxModel.C19.AesSpecProofs
import TboxModel.C19.Round7Proofs
import TboxModel.C19.Round8Proofs
import TboxModel.C19.Round9Proofs
import TboxModel.C19.Round10Proofs
namespace Tbox.C19
set_option maxRecDepth 100000

/-! ## 1. The tables in the source are the standard ones (re-checked on every run) -/

/-- Base64 alphabet = RFC 4648 table 1 -/
theorem C19_b64_alphabet_standard : Gen.base64en = Spec.alphabet ∧ Gen.base64pad = 61 := by decide +kernel
/-- the 128-entry decode table is exactly the inverse of the alphabet (255 elsewhere) -/
theorem C19_b64_decode_table_standard : Gen.base64de = Spec.decodeTable := by decide +kernel
/-- CRC-32 table = 8 bitwise steps of the reflected polynomial 0xEDB88320 on every index -/
theorem C19_crc32_table : Gen.crc32Table = (List.range 256).map (fun i => Spec.crc32Bits8 (UInt32.ofNat i)) :=
  Crc.crc32_table_eq
/-- CRC-16 table = 8 bitwise steps of the polynomial 0x1021 on every index (MSB first) -/
theorem C19_crc16_table : Gen.crc16Table = (List.range 256).map (fun i => Spec.crc16Bits8 (UInt16.ofNat i <<< 8)) :=
  Crc.crc16_table_eq
/-- scalable integer: k bytes hold exactly 128^k values and the ranges are consecutive from 0 -/
theorem C19_si_tables : Gen.siMin = (List.range 11).map Spec.siMinSpec ∧ Gen.siMax = (List.range 10).map Spec.siMaxSpec := by
  decide +kernel
/-- MD5: the 64 step lines, initial state and padding in the source are those of RFC 1321 -/
theorem C19_md5_tables : Md5.gen = Spec.md5Params := by decide +kernel
/-- AES S-box = affine map ∘ GF(2^8) inverse (FIPS-197 §5.1.1), all 256 entries -/
theorem C19_aes_sbox_standard :
    Gen.aesSbox = Spec.sboxChunk 0 ++ Spec.sboxChunk 1 ++ Spec.sboxChunk 2 ++ Spec.sboxChunk 3 :=
  list_four_chunks _ _ _ _ _ (by decide +kernel) sbox_chunk0 sbox_chunk1 sbox_chunk2 sbox_chunk3
/-- AES round constants = powers of x in GF(2^8) -/
theorem C19_aes_rcon_standard : Gen.aesRcon = Spec.rconTable := by decide +kernel

/-- the inverse S-box in the source is the two-sided inverse of the S-box, for every byte -/
theorem C19_aes_sbox_inverse (x : UInt8) :
    Aes.invSbox Aes.gen (Aes.sbox Aes.gen x) = x ∧ Aes.sbox Aes.gen (Aes.invSbox Aes.gen x) = x := by
  have hx : x = UInt8.ofNat x.toNat := by simp
  have hlt : x.toNat < 256 := x.toNat_lt
  have key : ∀ lo, sboxInvOn lo = true → lo ≤ x.toNat → x.toNat < lo + 64 →
      Aes.invSbox Aes.gen (Aes.sbox Aes.gen (UInt8.ofNat x.toNat)) = UInt8.ofNat x.toNat
        ∧ Aes.sbox Aes.gen (Aes.invSbox Aes.gen (UInt8.ofNat x.toNat)) = UInt8.ofNat x.toNat := by
    intro lo h h1 h2
    unfold sboxInvOn at h
    rw [List.all_eq_true] at h
    have := h x.toNat (by rw [List.mem_range'_1]; omega)
    simpa using this
  rw [hx]
  by_cases h1 : x.toNat < 64
  · exact key 0 sbox_inv0 (by omega) (by omega)
  by_cases h2 : x.toNat < 128
  · exact key 64 sbox_inv1 (by omega) (by omega)
  by_cases h3 : x.toNat < 192
  · exact key 128 sbox_inv2 (by omega) (by omega)
  · exact key 192 sbox_inv3 (by omega) (by omega)

/-- URL: '%' itself is escaped in both modes (the fact the round trip rests on), and the hex digit
string of the encoder is "0123456789ABCDEF" -/
theorem C19_url_tables : Gen.urlFull.contains 37 = true ∧ Gen.urlPath.contains 37 = true
    ∧ Gen.urlHex = [48, 49, 50, 51, 52, 53, 54, 55, 56, 57, 65, 66, 67, 68, 69, 70]
    ∧ (∀ c ∈ Gen.urlPath, c ∈ Gen.urlFull) := by decide +kernel

/-! ## 2. Counterexamples on the code BEFORE the fixes (DESIGN §7 row 11) -/

/-- C19-01: decoding the padded text "QQ==" into a buffer of exactly `DecodeLength` = 1 byte
stores a second byte -/
theorem C19_b64_bounds_orig_counterexample :
    B64.decodeLength [81, 81, 61, 61] = 1 ∧ Orig.decodeBuf [81, 81, 61, 61] 1 = .oob "write out" := by
  decide +kernel
/-- … and so does every one-pad text, e.g. "QUI=" into 2 bytes -/
theorem C19_b64_bounds_orig_counterexample2 : Orig.decodeBuf [81, 85, 73, 61] 2 = .oob "write out" := by
  decide +kernel
/-- C19-02: a byte ≥ 0x80 indexes the decode table at a negative offset -/
theorem C19_b64_table_index_orig_counterexample : Orig.decodeBuf [0x80, 65, 65, 65] 3 = .oob "read base64de" := by
  decide +kernel
/-- C19-03: ten continuation bytes and a terminator make the old parse loop (`i <= 10`) read
`_min_value_tbl[11]` (the table has 11 entries) -/
theorem C19_si_bounds_orig_counterexample :
    SInt.parseOrig [0x80, 0x80, 0x80, 0x80, 0x80, 0x80, 0x80, 0x80, 0x80, 0x80, 0] = .oob "read _min_value_tbl" := by
  decide +kernel
/-- the repaired loop rejects that input by return value -/
example : SInt.parse [0x80, 0x80, 0x80, 0x80, 0x80, 0x80, 0x80, 0x80, 0x80, 0x80, 0] = .ok (0, none) := by
  decide +kernel

/-! ## 3. Scalable integer: bounds at full strength (after fix C19-03) -/
/- `C19_si_parse_bounds`: for EVERY byte string the parser returns normally (no table or input
   access out of bounds) and consumes at most 10 bytes.
   `C19_si_dump_bounds`: for EVERY value and capacity the writer returns normally, stores exactly
   the number of bytes it returns, never more than the capacity (0 and nothing when too small). -/

theorem C19_si_parse_bounds (bs : List UInt8) : ∃ r, SInt.parse bs = .ok r ∧ r.1 ≤ 10 := by
  unfold SInt.parse SInt.parseWith
  cases h : SInt.parseGo 10 0 1 0 bs with
  | none => exact ⟨_, rfl, by simp⟩
  | some p =>
    obtain ⟨rb, rv⟩ := p
    have := SInt.parseGo_bound 10 bs 0 1 0 rb rv h
    obtain ⟨m, hm⟩ := SInt.tblRead_ok "_min_value_tbl" Gen.siMin rb (by rw [SInt.siMin_length]; omega)
    simp only [hm, Res.bind_ok]
    exact ⟨_, rfl, by simp; omega⟩

theorem C19_si_dump_bounds (v cap : Nat) :
    ∃ n out, SInt.dump v cap = .ok (n, out) ∧ n ≤ cap ∧ n ≤ 10 ∧ out.length = n := by
  unfold SInt.dump SInt.needBytes
  obtain ⟨n, hn, h1, h10⟩ := SInt.needGo_spec v 10 1 (by omega) (by omega)
  rw [hn]; simp only [Res.bind_ok]
  by_cases hc : cap < n
  · simp only [hc, if_true]; exact ⟨0, [], rfl, by omega, by omega, rfl⟩
  · simp only [hc, if_false]
    have hs : ∀ store, ∃ out, storeAll cap (SInt.dumpBytes n store) = .ok out ∧ out.length = n := by
      intro store
      unfold storeAll
      rw [SInt.dumpBytes_length n store h1]
      simp only [show n ≤ cap by omega, if_true]
      exact ⟨_, rfl, SInt.dumpBytes_length n store h1⟩
    by_cases h2 : n > 1
    · simp only [h2, if_true]
      obtain ⟨m, hm⟩ := SInt.tblRead_ok "_min_value_tbl" Gen.siMin n (by rw [SInt.siMin_length]; omega)
      rw [hm]; simp only [Res.bind_ok, Res.pure_eq]
      obtain ⟨out, ho, hl⟩ := hs ((v + SInt.W - m) % SInt.W)
      rw [ho]; simp only [Res.bind_ok]
      exact ⟨n, out, rfl, by omega, h10, hl⟩
    · simp only [h2, if_false, Res.pure_eq, Res.bind_ok]
      obtain ⟨out, ho, hl⟩ := hs v
      rw [ho]; simp only [Res.bind_ok]
      exact ⟨n, out, rfl, by omega, h10, hl⟩

example : SInt.dump 16512 3 = .ok (3, [0x80, 0x80, 0x00]) := by decide +kernel
example : SInt.dump 16512 2 = .ok (0, []) := by decide +kernel
example : SInt.parse [0x80, 0x80, 0x00] = .ok (3, some 16512) := by decide +kernel

open SInt in
/-- `C19_si_roundtrip`: for EVERY 64-bit value and EVERY capacity: the writer needs `need` ∈ 1..10 bytes;
with less room it returns 0 and stores nothing, otherwise it stores exactly `need` bytes and the
parser gives back exactly (need, v) from them. -/
theorem C19_si_roundtrip (v cap : Nat) (hv : v < 2 ^ 64) :
    ∃ need, 1 ≤ need ∧ need ≤ 10 ∧ SInt.needBytes v = .ok need ∧
      (cap < need → SInt.dump v cap = .ok (0, [])) ∧
      (need ≤ cap → ∃ out, SInt.dump v cap = .ok (need, out) ∧ out.length = need
          ∧ SInt.parse out = .ok (need, some v)) := by
  obtain ⟨n, hn, h1, h10, hmax, hprev⟩ := needGo_char v 10 1 (by omega) (by omega) (by omega)
  have hW : W = 2 ^ 64 := rfl
  have tf := table_facts ⟨n, by omega⟩ h1
  simp only at tf
  obtain ⟨t1, t2, t3, t4, t5⟩ := tf
  -- the stored value and its range
  have hstore : ∃ store, (if n > 1 then (do let m ← tblRead "_min_value_tbl" Gen.siMin n; pure ((v + W - m) % W)) else pure v)
        = Res.ok store ∧ store < 128 ^ n ∧ store < W ∧ (getMin n + store) % W = v := by
    by_cases h2 : n > 1
    · simp only [h2, if_true]
      rw [tblRead_getD "_min_value_tbl" Gen.siMin n (by rw [siMin_length]; omega)]
      simp only [Res.bind_ok, Res.pure_eq]
      have hge : getMin n ≤ v := by have := hprev (by omega); rw [t2 h2]; omega
      have e : (v + W - Gen.siMin.getD n 0) % W = v - getMin n := by
        unfold getMin at hge ⊢
        have : v + W - Gen.siMin.getD n 0 = (v - Gen.siMin.getD n 0) + W := by omega
        rw [this, Nat.add_mod_right, Nat.mod_eq_of_lt (by omega)]
      refine ⟨_, rfl, ?_, ?_, ?_⟩
      · rw [e]
        by_cases h9 : n < 10
        · have := hmax h9; have := t1 h9; omega
        · have : n = 10 := by omega
          subst this; omega
      · rw [e]; omega
      · rw [e]; rw [Nat.mod_eq_of_lt (by omega)]; omega
    · have : n = 1 := by omega
      subst this
      simp only [h2, if_false, Res.pure_eq]
      refine ⟨v, rfl, ?_, by omega, ?_⟩
      · have := hmax (by omega); have := t1 (by omega); omega
      · rw [t3, Nat.zero_add, Nat.mod_eq_of_lt (by omega)]
  obtain ⟨store, hst, hs1, hs2, hs3⟩ := hstore
  have hn' : SInt.needBytes v = .ok n := hn
  refine ⟨n, h1, h10, hn', ?_, ?_⟩
  · intro hc
    unfold SInt.dump
    rw [hn']; simp only [Res.bind_ok, hc, if_true, Res.pure_eq]
  · intro hc
    unfold SInt.dump
    rw [hn']; simp only [Res.bind_ok, show ¬ cap < n by omega, if_false]
    rw [hst]; simp only [Res.bind_ok]
    have hl := dumpBytes_length n store h1
    unfold storeAll
    rw [hl]; simp only [hc, if_true, Res.bind_ok, Res.pure_eq]
    refine ⟨_, rfl, hl, ?_⟩
    unfold SInt.parse SInt.parseWith
    rw [dumpBytes_parse n store h1 h10 hs1 hs2]
    simp only
    rw [tblRead_getD "_min_value_tbl" Gen.siMin n (by rw [siMin_length]; omega)]
    simp only [Res.bind_ok, Res.pure_eq]
    unfold getMin at hs3; rw [hs3]

example : (16512 : Nat) < 2 ^ 64 := by decide

/-! ## 4. Serializer / Deserializer -/


/-- decoder inverts encoder for every width, value, endianness and position in the input -/
theorem C19_ser_int_roundtrip (e : Ser.Endian) (n v : Nat) (pre post : List UInt8) (hv : v < 256 ^ n) :
    Ser.D.fetchInt ⟨pre ++ Ser.intBytes e n v ++ post, e, pre.length⟩ n
      = .ok (some v, ⟨pre ++ Ser.intBytes e n v ++ post, e, pre.length + n⟩) := by
  have hl := Ser.intBytes_length e n v
  unfold Ser.D.fetchInt Ser.D.take
  simp only [List.length_append, hl]
  rw [if_pos (by omega)]
  have hd : ((pre ++ Ser.intBytes e n v ++ post).drop pre.length).take n = Ser.intBytes e n v := by
    rw [List.append_assoc, List.drop_left, List.take_left' hl]
  rw [hd, if_pos hl]
  simp only [Res.bind_ok, Res.pure_eq, Option.map_some, Ser.intValue_intBytes]
  have h8 : 2 ^ (8 * n) = 256 ^ n := by rw [Nat.pow_mul]
  rw [h8, Nat.mod_mod, Nat.mod_eq_of_lt hv]

/-- every Serializer store is inside the buffer; a store that does not fit returns `false` and
changes nothing -/
theorem C19_ser_put_bounds (s : Ser.S) (bs : List UInt8) :
    ∃ b s', s.put bs = .ok (b, s') ∧ (b = false → s' = s) ∧ (s.raw = true → s.pos ≤ s.cap → s'.pos ≤ s.cap) := by
  unfold Ser.S.put
  by_cases hr : s.raw = true
  · simp only [hr, if_true]
    by_cases hw : s.pos + bs.length ≤ s.cap
    · simp only [hw, if_true]; exact ⟨true, _, rfl, by simp, fun _ _ => hw⟩
    · simp only [hw, if_false]; exact ⟨false, s, rfl, fun _ => rfl, fun _ h => h⟩
  · have hr' : s.raw = false := by simpa using hr
    simp only [hr']; exact ⟨true, _, rfl, by simp, fun h => by simp at h⟩

/-- every Deserializer read is inside the input; a short input gives `false` (none) and leaves
the position unchanged; the position never passes the end -/
theorem C19_des_take_bounds (d : Ser.D) (need : Nat) (hp : d.pos ≤ d.data.length) :
    ∃ r d', d.take need = .ok (r, d') ∧ (r = none → d' = d) ∧ d'.pos ≤ d'.data.length
      ∧ (r = none ↔ d.pos + need > d.data.length) := by
  unfold Ser.D.take
  by_cases h : d.pos + need ≤ d.data.length
  · simp only [h, if_true]
    have hl : ((d.data.drop d.pos).take need).length = need := by simp; omega
    simp only [hl, if_true]
    exact ⟨_, _, rfl, by simp, by simpa using h, by simp; omega⟩
  · simp only [h, if_false]; exact ⟨none, d, rfl, fun _ => rfl, hp, by simp; omega⟩

example : (256 : Nat) < 256 ^ 2 := by decide
example : Ser.D.fetchInt ⟨[9] ++ Ser.intBytes .big 2 256 ++ [7], .big, 1⟩ 2 = .ok (some 256, ⟨[9, 1, 0, 7], .big, 3⟩) := by
  decide +kernel

/-- `C19_ser_roundtrip`: for EVERY field sequence (integers of any width that fit it, raw blocks, POD blocks, endianness
switches, in any order) and either initial endianness: serializing into an empty vector succeeds, produces exactly the
encoding, leaves the position at its end — and deserializing that vector with the same shape gives the same fields. -/
theorem C19_ser_roundtrip (e : Ser.Endian) (fields : List Ser.Field) (hv : ∀ f ∈ fields, f.valid = true) :
    ∃ s, Ser.serFields (Ser.S.newVec [] e) fields = .ok s ∧ s.mem = Ser.encodeFields e fields ∧ s.pos = s.mem.length
      ∧ Ser.desFields (Ser.D.new s.mem e) fields = .ok (some fields) := by
  obtain ⟨s, h1, h2, _, h4⟩ := Ser.serFields_vec fields (Ser.S.newVec [] e) rfl rfl
  have hm : s.mem = Ser.encodeFields e fields := by simpa [Ser.S.newVec] using h2
  refine ⟨s, h1, hm, h4.symm, ?_⟩
  have := Ser.desFields_enc fields e [] [] hv
  simpa [Ser.D.new, hm] using this

example : ∀ f ∈ [Ser.Field.int 2 513, .endian .little, .pod [1, 2, 3], .raw [9]], f.valid = true := by decide

/-! ## 5. Base64 -/
open B64 in
/-- `C19_b64_size`: the encoder produces exactly `EncodeLength(n)` characters for every input -/
theorem C19_b64_size (x : List UInt8) (h : x ≠ []) :
    ∃ out, B64.encodeStr x = .ok out ∧ out.length = B64.encodeLength x.length := by
  unfold B64.encodeStr
  have : x.isEmpty = false := by cases x <;> simp_all
  simp only [this]
  exact ⟨_, rfl, by simpa [B64.encodeLength] using B64.encGo_length x .s0 0⟩

/-- the buffer encoder never writes beyond the capacity: too small ⇒ 0 and nothing stored -/
theorem C19_b64_encode_bounds (x : List UInt8) (cap : Nat) (h : x ≠ []) (hc : cap ≠ 0) :
    ∃ n out, B64.encodeBuf x cap = .ok (n, out) ∧ n ≤ cap ∧ out.length = n
      ∧ (n = 0 ↔ B64.encodeLength x.length > cap) := by
  unfold B64.encodeBuf
  have he : x.isEmpty = false := by cases x <;> simp_all
  have hlen : (B64.encGo .s0 0 x).length = B64.encodeLength x.length := by
    simpa [B64.encodeLength] using B64.encGo_length x .s0 0
  have hpos : 0 < B64.encodeLength x.length := by
    cases x with
    | nil => exact absurd rfl h
    | cons a r => simp only [B64.encodeLength, List.length_cons]; omega
  simp only [he, hc, Bool.false_eq_true, false_or, if_false]
  by_cases hg : B64.encodeLength x.length > cap
  · simp only [hg, if_true]; exact ⟨0, [], rfl, by omega, rfl, by simp⟩
  · simp only [hg, if_false]
    unfold storeAll
    rw [hlen]
    simp only [show B64.encodeLength x.length ≤ cap by omega, if_true, Res.bind_ok, Res.pure_eq]
    exact ⟨_, _, rfl, by omega, rfl, by constructor <;> intro h' <;> simp only [hlen] at * <;> omega⟩

example : B64.encodeBuf [65] 4 = .ok (4, [81, 81, 61, 61]) := by decide +kernel
example : B64.encodeBuf [65] 3 = .ok (0, []) := by decide +kernel
/-- the repaired decoder on the former counterexamples: exact capacity suffices, bytes ≥ 0x80 are rejected -/
theorem C19_b64_fixed_examples :
    B64.decodeBuf [81, 81, 61, 61] 1 = .ok (1, [65]) ∧ B64.decodeBuf [81, 85, 73, 61] 2 = .ok (2, [65, 66])
      ∧ B64.decodeBuf [0x80, 65, 65, 65] 3 = .ok (0, []) ∧ B64.decodeVec [65, 65, 65, 0xC0] = .ok (0, [0, 0]) := by
  decide +kernel

open B64 in
/-- `C19_b64_bounds`: for EVERY input byte string (all 256 values) and EVERY capacity the buffer decoder
returns normally — no store at or beyond the capacity, no table index outside 0..127 — the returned
size is at most the capacity and at most the advertised `DecodeLength`, and equals the number of bytes stored. -/
theorem C19_b64_bounds (s : List UInt8) (cap : Nat) :
    ∃ n out, B64.decodeBuf s cap = .ok (n, out) ∧ n ≤ cap ∧ out.length = n ∧ n ≤ B64.decodeLength s := by
  unfold B64.decodeBuf
  by_cases h4 : s.length % 4 ≠ 0
  · rw [if_pos h4]; exact ⟨0, [], rfl, by omega, rfl, by omega⟩
  · rw [if_neg h4]
    by_cases hc : B64.decodeLength s > cap
    · rw [if_pos hc]; exact ⟨0, [], rfl, by omega, rfl, by omega⟩
    · rw [if_neg hc]
      have hB := nw_pre_le_decodeLength s (by omega)
      obtain ⟨res, e, f⟩ := decGo_ok cap s 0 0 [] (by simp [nw]) (by simp only [Nat.zero_add]; omega)
      rw [e]; simp only [Res.bind_ok]
      cases res with
      | none => exact ⟨0, [], rfl, by omega, rfl, by omega⟩
      | some o =>
        have := f o rfl
        simp only [Nat.zero_add] at this
        exact ⟨o.length, o, rfl, by omega, rfl, by omega⟩

open B64 in
/-- the vector decoder never indexes outside the decode table either -/
theorem C19_b64_vec_bounds (s : List UInt8) : ∃ r, B64.decodeVec s = .ok r := by
  unfold B64.decodeVec
  by_cases h : B64.decodeLength s = 0
  · simp only [h, if_true]; exact ⟨_, rfl⟩
  · simp only [h, if_false]
    obtain ⟨res, e⟩ := decVecGo_ok s 0 0 []
    rw [e]; exact ⟨_, rfl⟩

open B64 in
/-- `C19_b64_roundtrip`: for EVERY non-empty byte string: the encoding has the advertised length, its
`DecodeLength` is the original length, and both decoders give the input back — the buffer decoder for
every capacity ≥ the original length (in particular the exact one), returning 0 with nothing stored
for every smaller capacity. -/
theorem C19_b64_roundtrip (x : List UInt8) (hx : x ≠ []) :
    ∃ e, B64.encodeStr x = .ok e ∧ e.length = B64.encodeLength x.length ∧ B64.decodeLength e = x.length
      ∧ (∀ cap, x.length ≤ cap → B64.decodeBuf e cap = .ok (x.length, x))
      ∧ (∀ cap, cap < x.length → B64.decodeBuf e cap = .ok (0, []))
      ∧ B64.decodeVec e = .ok (x.length, x) := by
  have he : x.isEmpty = false := by cases x <;> simp_all
  have hpos : 0 < x.length := by cases x <;> simp_all
  have hl := encGo_s0_length x 0
  have hd := decodeLength_enc x 0
  refine ⟨encGo .s0 0 x, by simp [B64.encodeStr, he], by simpa [B64.encodeLength] using hl, hd, ?_, ?_, ?_⟩
  · intro cap hc
    unfold B64.decodeBuf
    rw [if_neg (by rw [hl]; omega), hd, if_neg (by omega)]
    rw [dec_enc cap x 0 0 0 [] rfl (by simpa using hc)]
    simp
  · intro cap hc
    unfold B64.decodeBuf
    rw [if_neg (by rw [hl]; omega), hd, if_pos (by omega)]
  · unfold B64.decodeVec
    simp only [hd]
    rw [if_neg (by omega)]
    have := decVec_of_dec x.length (encGo .s0 0 x) 0 0 [] x (by simpa using dec_enc x.length x 0 0 0 [] rfl (by simp))
    rw [this]; simp

example : ([65, 66] : List UInt8) ≠ [] := by decide

/-- `C19_b64_eq_spec`: for EVERY non-empty byte string the encoder state machine of the source (either overload) produces
exactly the RFC 4648 encoding defined arithmetically in Spec.lean (24-bit groups → four 6-bit digits of the standard
alphabet, '=' padding) -/
theorem C19_b64_eq_spec (x : List UInt8) (hx : x ≠ []) :
    B64.encodeStr x = .ok (Spec.b64Encode x)
      ∧ ∀ cap, B64.encodeLength x.length ≤ cap → B64.encodeBuf x cap = .ok ((Spec.b64Encode x).length, Spec.b64Encode x) := by
  have he : x.isEmpty = false := by cases x <;> simp_all
  have hs := B64.encGo_eq_spec x 0
  have hl := B64.encGo_s0_length x 0
  refine ⟨by simp [B64.encodeStr, he, hs], ?_⟩
  intro cap hc
  have hpos : 0 < B64.encodeLength x.length := by
    cases x with
    | nil => exact absurd rfl hx
    | cons a r => simp only [B64.encodeLength, List.length_cons]; omega
  unfold B64.encodeBuf
  have hc0 : cap ≠ 0 := by omega
  simp only [he, hc0, Bool.false_eq_true, false_or, if_false]
  rw [if_neg (by omega), hs]
  unfold storeAll
  have : (Spec.b64Encode x).length ≤ cap := by rw [← hs, hl]; simpa [B64.encodeLength] using hc
  simp [this]

/-- `C19_b64_rejects`: if any character before the first '=' is outside the Base64 alphabet (any of the other 191 byte
values), the buffer decoder returns 0 and stores nothing for EVERY capacity, and the vector decoder returns 0 -/
theorem C19_b64_rejects (s : List UInt8) (h : B64.HasBad s) :
    (∀ cap, B64.decodeBuf s cap = .ok (0, [])) ∧ ∃ out, B64.decodeVec s = .ok (0, out) := by
  constructor
  · intro cap
    unfold B64.decodeBuf
    by_cases h4 : s.length % 4 ≠ 0
    · rw [if_pos h4]
    · rw [if_neg h4]
      by_cases hc : B64.decodeLength s > cap
      · rw [if_pos hc]
      · rw [if_neg hc]
        have hB := B64.nw_pre_le_decodeLength s (by omega)
        obtain ⟨res, e, _⟩ := B64.decGo_ok cap s 0 0 [] (by simp [B64.nw]) (by simp only [Nat.zero_add]; omega)
        have := B64.decGo_reject cap s 0 0 [] res h e
        subst this
        rw [e]; rfl
  · unfold B64.decodeVec
    by_cases h0 : B64.decodeLength s = 0
    · simp only [h0, if_true]; exact ⟨[], rfl⟩
    · simp only [h0, if_false]
      obtain ⟨⟨b, o⟩, e⟩ := B64.decVecGo_ok s 0 0 []
      have := B64.decVecGo_reject s 0 0 [] o b h e
      subst this
      rw [e]; exact ⟨o, rfl⟩

example : B64.HasBad [65, 42, 65, 65] := ⟨42, by decide, by decide⟩
example : B64.HasBad [65, 0x80, 61, 61] := ⟨0x80, by decide, by decide⟩

/-! ## 6. CRC and checksums equal the published definitions, for every byte string and seed -/
/-- `C19_crc_eq_bitwise`: the table-driven CRC-32 and CRC-16 loops of crc.cpp (with the tables as they are in
the source) equal the bit-by-bit definitions from the polynomials 0xEDB88320 (reflected) and 0x1021 (MSB first). -/
theorem C19_crc_eq_bitwise :
    (∀ (data : List UInt8) (seed : UInt32), Crc.crc32 data seed = Spec.crc32 data seed) ∧
    (∀ (data : List UInt8) (seed : UInt16), Crc.crc16 data seed = Spec.crc16 data seed) :=
  ⟨Crc.crc32_eq_bitwise, Crc.crc16_eq_bitwise⟩

/-- `C19_checksum_eq_sum`: the 8- and 16-bit checksum loops equal the complement of the end-around-carry
(one's-complement) sum of the bytes / big-endian 16-bit words (odd tail padded with a zero byte). -/
theorem C19_checksum_eq_sum :
    (∀ data : List UInt8, Crc.sum8 data = Spec.sum8 data) ∧ (∀ data : List UInt8, Crc.sum16 data = Spec.sum16 data) :=
  ⟨Crc.checksum8_eq_sum, Crc.checksum16_eq_sum⟩

/-! ## 7. URL percent-encoding and hex strings -/
/-- `C19_url_roundtrip`: for EVERY byte string and both modes, decoding the encoding gives the input back -/
theorem C19_url_roundtrip (pathMode : Bool) (s : List UInt8) : Url.decode (Url.encode pathMode s) = .ok s := by
  unfold Url.decode; simpa using Url.dec_enc pathMode s 0 []

/-- the decoder on ARBITRARY input returns a string or raises exactly the one exception of `HexCharToValue`
(`std::out_of_range`); it has no other outcome (in particular no out-of-bounds access) -/
theorem C19_url_decode_total (s : List UInt8) : (∃ o, Url.decode s = .ok o) ∨ Url.decode s = .exc "out_of_range" := by
  unfold Url.decode
  suffices h : ∀ (s : List UInt8) (st : Url.St) (tmp : UInt8) (out : List UInt8),
      (∃ o, Url.decGo st tmp out s = .ok o) ∨ Url.decGo st tmp out s = .exc "out_of_range" from h s _ _ _
  intro s
  induction s with
  | nil => intro st tmp out; exact Or.inl ⟨out, by cases st <;> rfl⟩
  | cons c r ih =>
    intro st tmp out
    cases st with
    | none => rw [Url.decGo]; split <;> exact ih _ _ _
    | start => rw [Url.decGo]; split
               · exact ih _ _ _
               · exact Or.inr rfl
    | half => rw [Url.decGo]; split
              · exact ih _ _ _
              · exact Or.inr rfl

/-- hex strings, fixed-buffer reader without delimiter: for EVERY byte string, both letter cases and every
capacity ≥ its length the reader returns exactly the bytes (and stores nothing beyond them) -/
theorem C19_hex_roundtrip_buf (upper : Bool) (x : List UInt8) (cap : Nat) (hc : x.length ≤ cap) (h0 : cap ≠ 0) :
    Hex.toBuf (Hex.rawToHex upper [] x) cap = .ok (x.length, x) := by
  unfold Hex.toBuf
  rw [if_neg h0, Hex.rawToHex_nodelim, Hex.toBufGo_digits upper cap x [] (by simpa using hc)]
  simp

example : Hex.toBuf (Hex.rawToHex true [] [0xAB, 0x01]) 2 = .ok (2, [0xAB, 0x01]) := by decide +kernel

/-- `C19_hex_roundtrip`: the vector readers. For EVERY byte string, both letter cases and every delimiter that is empty or
contains no hex digit of that case, `HexStrToRawData(RawDataToHexStr(x, delim), out, delim)` returns exactly x and raises
nothing (string lengths below 2^64 − 1, as for any std::string). After fix C19-04 this includes the empty byte string. -/
theorem C19_hex_roundtrip (upper : Bool) (delim x : List UInt8) (hd : delim = [] ∨ Hex.delimOk upper delim)
    (hs : (Hex.rawToHex upper delim x).length < 2 ^ 64 - 1) :
    Hex.toVec (Hex.rawToHex upper delim x) delim = ⟨none, x⟩ := by
  unfold Hex.toVec
  by_cases he : delim = []
  · subst he
    simp only [List.isEmpty_nil, if_true]
    rw [Hex.rawToHex_nodelim] at hs ⊢
    rw [Hex.flatMap_digits_length] at hs
    exact Hex.toVecNoDelim_digits upper x hs
  · have : delim.isEmpty = false := by cases delim <;> simp_all
    simp only [this, Bool.false_eq_true, if_false]
    exact Hex.toVecDelim_digits upper delim x (hd.resolve_left he) he hs

example : Hex.delimOk false [58, 32] := by unfold Hex.delimOk; decide
example : Hex.toVec (Hex.rawToHex false [58, 32] [0xAB, 0x01]) [58, 32] = ⟨none, [0xAB, 0x01]⟩ := by decide +kernel

/-! ## 8. MD5: equality with RFC 1321 and split independence (after fix C19-05) -/
/- The only size hypothesis left is that one `update` call is shorter than 2^61 bytes: `plain_text_len << 3` is computed in
   a 64-bit size_t (no object of that size can exist). The total length is unrestricted: the bit counter is kept modulo 2^64
   exactly as RFC 1321 §3.2 prescribes. -/

/-- `C19_md5_eq_spec`: for EVERY message and EVERY way of feeding it to `update` (any number of pieces, empty ones included),
the transcribed MD5 — context initialisation, the buffering of `update`, the bit counter, the padding and length block of
`finish`, the 64 steps with the tables as they are in the source — returns exactly `Spec.md5` of the concatenation: the
RFC 1321 definition written independently (explicit padding, 512-bit blocks, rotating variables, T[i] from the sine). -/
theorem C19_md5_eq_spec (pieces : List (List UInt8)) (hp : ∀ p ∈ pieces, p.length < 2 ^ 61) :
    Md5.digestSplit Md5.gen pieces = Spec.md5 pieces.flatten :=
  Md5.digestSplit_spec pieces hp

/-- `C19_md5_split`: the digest does not depend on how the message is split into updates (for any step table, not only
the standard one: this is a property of the buffering code alone) -/
theorem C19_md5_split (P : Md5.Params) (ps qs : List (List UInt8)) (h : ps.flatten = qs.flatten)
    (hp : ∀ p ∈ ps, p.length < 2 ^ 61) (hq : ∀ q ∈ qs, q.length < 2 ^ 61) :
    Md5.digestSplit P ps = Md5.digestSplit P qs := by
  unfold Md5.digestSplit
  have r1 := Md5.repr_foldl P ps _ [] (Md5.repr_init P) hp
  have r2 := Md5.repr_foldl P qs _ [] (Md5.repr_init P) hq
  simp only [List.nil_append] at r1 r2
  rw [h] at r1
  exact Md5.finish_eq P _ _ _ r1 r2

/-- in particular any split equals the one-shot digest of the whole message -/
theorem C19_md5_split_oneshot (P : Md5.Params) (ps : List (List UInt8)) (hp : ∀ p ∈ ps, p.length < 2 ^ 61)
    (ht : ps.flatten.length < 2 ^ 61) : Md5.digestSplit P ps = Md5.digest P ps.flatten := by
  unfold Md5.digest
  exact C19_md5_split P ps [ps.flatten] (by simp) hp (by simpa using ht)

example : Spec.md5 [0x61, 0x62, 0x63] = [0x90, 0x01, 0x50, 0x98, 0x3c, 0xd2, 0x4f, 0xb0, 0xd6, 0x96, 0x3f, 0x7d, 0x28, 0xe1, 0x7f, 0x72] := by
  decide +kernel

/-- the bit counter of `update` with the 64-bit comparison (`count_[0] < (plain_text_len << 3)`, the code before fix
C19-05) after ONE update of 2^29 bytes differs from the counter after the same bytes fed as two updates of 2^28 bytes: the
carry into `count_[1]` is counted twice for a single update of ≥ 512 MiB; with the 32-bit comparison both agree. The full
statement was therefore false of that code (replay: props/C19/md5_big_update.ops — the real
implementation returns d3fbf790… instead of aa559b4e… for 2^29 zero bytes in one update). -/
theorem C19_md5_count_counterexample :
    Md5.countUpdateW true 0 0 (2 ^ 29) = (0, 2) ∧
    (let (a, b) := Md5.countUpdateW true 0 0 (2 ^ 28); Md5.countUpdateW true a b (2 ^ 28)) = (0, 1) ∧
    Md5.countUpdateW false 0 0 (2 ^ 29) = (0, 1) := by
  decide +kernel

example : ([[1, 2], [], [3]] : List (List UInt8)).flatten = [[1], [2, 3]].flatten := by decide

/-! ## 9. AES -/
/-- ShiftRows / InvShiftRows are mutually inverse on every 4×4 state -/
theorem C19_aes_shiftrows_inverse (m : Aes.Mat) (h : m.length = 16) :
    Aes.invShiftRows (Aes.shiftRows m) = m ∧ Aes.shiftRows (Aes.invShiftRows m) = m :=
  ⟨Aes.invShiftRows_shiftRows m h, Aes.shiftRows_invShiftRows m h⟩

/-- InvMixColumns undoes MixColumns on every 4×4 state (FFmul is GF(2)-linear; the four coefficient identities
0e·02⊕0b·01⊕0d·01⊕09·03 = 01, … = 0 hold for all 256 bytes) -/
theorem C19_aes_mixcolumns_inverse (m : Aes.Mat) (h : m.length = 16) : Aes.invMixColumns (Aes.mixColumns m) = m :=
  Aes.invMixColumns_mixColumns m h

/-- AddRoundKey is an involution -/
theorem C19_aes_addroundkey_involution (m k : Aes.Mat) (h : m.length = k.length) :
    Aes.addRoundKey (Aes.addRoundKey m k) k = m := Aes.addRoundKey_invol m k h

/-- `C19_aes_roundtrip`: for EVERY key (any 16 bytes; the model reads missing key bytes as 0) and EVERY 16-byte block,
with the S-boxes and round constants as they are in the source: invcipher (cipher block) = block. -/
theorem C19_aes_roundtrip (key block : List UInt8) (hb : block.length = 16) :
    Aes.invCipher Aes.gen key (Aes.cipher Aes.gen key block) = block :=
  Aes.invCipher_cipher (fun x => (C19_aes_sbox_inverse x).1) key block hb

example : ((List.range 16).map UInt8.ofNat).length = 16 := by decide

/-- `C19_aes_eq_spec`: for EVERY 16-byte key and EVERY 16-byte block the transcribed AES-128 — the 4×4 row-major state of
aes.cpp, its key expansion loops, FFmul over the low four bits, the S-boxes and round constants as they are in the source —
computes exactly the FIPS-197 functions written independently in Spec.lean: state in input order (column words),
S-box = affine ∘ GF(2^8) inverse and its inverse map by formula, MixColumns / InvMixColumns with full GF(2^8) multiplication,
the 44-word key schedule recursion of §5.2, Cipher of §5.1 and InvCipher of §5.3. -/
theorem C19_aes_eq_spec (key block : List UInt8) (hk : key.length = 16) (hb : block.length = 16) :
    Aes.cipher Aes.gen key block = Spec.aesCipher key block
      ∧ Aes.invCipher Aes.gen key block = Spec.aesInvCipher key block :=
  ⟨Aes.cipher_eq_spec key block hk hb, Aes.invCipher_eq_spec key block hk hb⟩

/-! ## 10. Round 7: chained CRC, MD5 life cycle and bit counter, widths, C-string overloads, AES object, URL host / port -/

/-- `C19_crc_chain`: the CRC of `a ++ b` from the CRC of `a`, for EVERY pair of byte strings and EVERY seed. `CalcCrc16` returns the
register, so its result is the seed of the next call; `CalcCrc32` returns the COMPLEMENT of the register, so the next call must be
seeded with `~CalcCrc32(a)`. Stated for the table-driven code and (through `C19_crc_eq_bitwise`) for the bitwise definitions. -/
theorem C19_crc_chain :
    (∀ (a b : List UInt8) (seed : UInt32), Crc.crc32 (a ++ b) seed = Crc.crc32 b (~~~ Crc.crc32 a seed)) ∧
    (∀ (a b : List UInt8) (seed : UInt16), Crc.crc16 (a ++ b) seed = Crc.crc16 b (Crc.crc16 a seed)) ∧
    (∀ (a b : List UInt8) (seed : UInt32), Spec.crc32 (a ++ b) seed = Spec.crc32 b (~~~ Spec.crc32 a seed)) ∧
    (∀ (a b : List UInt8) (seed : UInt16), Spec.crc16 (a ++ b) seed = Spec.crc16 b (Spec.crc16 a seed)) := by
  refine ⟨Crc.crc32_append, Crc.crc16_append, ?_, ?_⟩
  · intro a b seed; simp only [← Crc.crc32_eq_bitwise]; exact Crc.crc32_append a b seed
  · intro a b seed; simp only [← Crc.crc16_eq_bitwise]; exact Crc.crc16_append a b seed

/-- the naive chaining law `crc32(a ++ b, s) = crc32(b, crc32(a, s))` (what the parameter name `init_seed` suggests; crc.h documents
nothing) is FALSE for CalcCrc32 already on empty inputs: the final complement is applied by every call -/
theorem C19_crc32_chain_naive_counterexample :
    Crc.crc32 (([] : List UInt8) ++ []) 0 = 0xffffffff ∧ Crc.crc32 [] (Crc.crc32 [] 0) = 0 := by decide

/-- `C19_md5_lifecycle`: EVERY history of one MD5 object (md5.h: `update` "may be repeated", `finish` "ends the computation"). Any
number of updates followed by the first `finish` yields exactly one digest — that of the updates (hence, by `C19_md5_eq_spec`, RFC 1321
of their concatenation) — and the object is finished: if anything at all follows (`update`, even of zero bytes, or another `finish`)
the debug build aborts at `TBOX_ASSERT(!is_finished_)` before producing anything more. Histories without `finish` produce nothing. -/
theorem C19_md5_lifecycle (P : Md5.Params) (us : List (List UInt8)) (rest : List Md5.Step) :
    Md5.runScript P (Md5.Obj.new P) (us.map some ++ none :: rest) = ([Md5.digestSplit P us], !rest.isEmpty)
      ∧ Md5.runScript P (Md5.Obj.new P) (us.map some) = ([], false) :=
  ⟨Md5.runScript_updates P us rest _ rfl, Md5.runScript_no_finish P us _ rfl⟩

example : Md5.runScript Spec.md5Params (Md5.Obj.new Spec.md5Params) [some [0x61], none, some []] =
    ([[0x0c, 0xc1, 0x75, 0xb9, 0xc0, 0xf1, 0xb6, 0xa8, 0x31, 0xc3, 0x99, 0xe2, 0x69, 0x77, 0x26, 0x61]], true) := by decide +kernel

/-- release builds (`NDEBUG`: the assertion is compiled out). `finish` is NOT idempotent: a second `finish` returns the MD5 of the
message followed by the first call's padding and length block, for every history of updates -/
theorem C19_md5_finish_twice_release (pieces : List (List UInt8)) (hp : ∀ p ∈ pieces, p.length < 2 ^ 61) :
    Md5.finishTwiceRelease Md5.gen (pieces.foldl (Md5.update Md5.gen) (Md5.init Md5.gen))
      = Spec.md5 (pieces.flatten ++ Md5.finishPad Md5.gen (pieces.foldl (Md5.update Md5.gen) (Md5.init Md5.gen))
                    ++ Md5.finishBits (pieces.foldl (Md5.update Md5.gen) (Md5.init Md5.gen))) := by
  rw [Md5.finishTwice_eq, C19_md5_eq_spec]
  · simp [List.flatten_append]
  · intro p hm
    rcases List.mem_append.mp hm with h | h
    · exact hp p h
    · simp only [List.mem_cons, List.not_mem_nil, or_false] at h
      rcases h with h | h
      · rw [h]; exact Md5.finishPad_length _ _
      · rw [h]; exact Md5.finishBits_length _

/-- … which differs from the first digest, e.g. for the empty message -/
theorem C19_md5_finish_twice_counterexample :
    Md5.finishTwiceRelease Spec.md5Params (Md5.init Spec.md5Params) ≠ Md5.finish Spec.md5Params (Md5.init Spec.md5Params) := by
  decide +kernel

/-- `C19_md5_bitcount_exact` (md5.cpp:264/271, size_t → uint32_t): `count_[1]:count_[0]` always holds 8·(bytes fed) modulo 2^64 —
the value RFC 1321 §3.2 asks for — for EVERY sequence of updates each shorter than 2^61 bytes; below a total of 2^61 bytes
(2 EiB) it is the exact bit count. -/
theorem C19_md5_bitcount_exact (P : Md5.Params) (pieces : List (List UInt8)) (hp : ∀ p ∈ pieces, p.length < 2 ^ 61) :
    (pieces.foldl (Md5.update P) (Md5.init P)).count1.toNat * 2 ^ 32 + (pieces.foldl (Md5.update P) (Md5.init P)).count0.toNat
        = 8 * pieces.flatten.length % 2 ^ 64
      ∧ (pieces.flatten.length < 2 ^ 61 →
          (pieces.foldl (Md5.update P) (Md5.init P)).count1.toNat * 2 ^ 32 + (pieces.foldl (Md5.update P) (Md5.init P)).count0.toNat
            = 8 * pieces.flatten.length) := by
  have h := Md5.count_exact P pieces hp
  exact ⟨h, fun ht => by rw [h]; omega⟩

/-- scalable_integer.cpp:100 (`int pos = need_bytes - 2`, size_t → int): the narrowed value is at most 8 for every 64-bit input -/
theorem C19_si_pos_fits_int (v : Nat) : ∃ need, SInt.needBytes v = .ok need ∧ 1 ≤ need ∧ need - 2 ≤ 8 := by
  obtain ⟨n, hn, h1, h10⟩ := SInt.needGo_spec v 10 1 (by omega) (by omega)
  exact ⟨n, hn, h1, by omega⟩

/-- signed stream operators (`s << int16_t` is `append(static_cast<uint16_t>(in))`, `s >> int16_t&` reads the same storage): for every
width and EVERY value of the signed type the cast is a valid unsigned field (so `C19_ser_roundtrip` applies to it) and reading it back
as signed gives the value -/
theorem C19_ser_signed_roundtrip (n : Nat) (hn : n = 1 ∨ n = 2 ∨ n = 4 ∨ n = 8) (v : Int)
    (hlo : -(2 ^ (8 * n - 1) : Nat) ≤ v) (hhi : v < (2 ^ (8 * n - 1) : Nat)) :
    Ser.toUnsigned n v < 2 ^ (8 * n) ∧ Ser.toSigned n (Ser.toUnsigned n v) = v := by
  unfold Ser.toSigned Ser.toUnsigned
  rcases hn with h | h | h | h <;> subst h <;>
    simp only [Nat.reduceMul, Nat.reduceSub, Nat.reducePow] at * <;> omega

example : Ser.toUnsigned 2 (-2) = 65534 ∧ Ser.toSigned 2 65534 = -2 := by decide

/-- the bounds check as coded after the fix (`need_size <= size_ - pos_`, all `size_t`) is the mathematical `pos + need ≤ size` for
EVERY `need` (up to `SIZE_MAX`), given the invariant `pos ≤ size` — which `take` (`C19_des_take_bounds`), `skip` and `set_pos` keep -/
theorem C19_des_checksize_exact (d : Ser.D) (need : Nat) (hs : d.data.length < 2 ^ 64) (hp : d.pos ≤ d.data.length) :
    Ser.checkSizeW d.data.length d.pos need = d.check need
      ∧ (d.skip need).2.pos ≤ (d.skip need).2.data.length ∧ (d.setPos need).2.pos ≤ (d.setPos need).2.data.length := by
  refine ⟨?_, Ser.skip_pos d need hp, Ser.setPos_pos d need hp⟩
  rw [Ser.checkSizeW_exact _ _ _ hs hp]; rfl

/-- the comparison BEFORE the fix (`pos_ + need_size <= size_`) wraps: `skip(SIZE_MAX)` at position 4 of 8 was accepted (and moved
the position to 3) -/
theorem C19_des_checksize_orig_counterexample :
    Ser.checkSizeOrig 8 4 (2 ^ 64 - 1) = true ∧ Ser.checkSizeW 8 4 (2 ^ 64 - 1) = false ∧ (4 + (2 ^ 64 - 1)) % 2 ^ 64 = 3 := by decide

/-- C-string overloads (`DecodeLength(const char*)`, `Decode(const char*, void*, size_t)`): they see exactly the bytes before the
first NUL — so they agree with the pointer/length overloads on NUL-free text, and text behind a NUL is never read -/
theorem C19_b64_cstr (pre post : List UInt8) (cap : Nat) (h : ∀ c ∈ pre, c ≠ 0) :
    B64.decodeBufZ pre cap = B64.decodeBuf pre cap ∧ B64.decodeLengthZ pre = B64.decodeLength pre
      ∧ B64.decodeBufZ (pre ++ 0 :: post) cap = B64.decodeBuf pre cap := by
  unfold B64.decodeBufZ B64.decodeLengthZ
  rw [B64.cstr_no_nul pre h, B64.cstr_at_nul pre post h]
  exact ⟨rfl, rfl, rfl⟩

/-- decoding onto a vector that already holds data appends exactly the original bytes -/
theorem C19_b64_decode_onto (pre x : List UInt8) (hx : x ≠ []) :
    ∃ e, B64.encodeStr x = .ok e ∧ B64.decodeVecOnto pre e = .ok (x.length, pre ++ x) := by
  obtain ⟨e, h1, _, _, _, _, h6⟩ := C19_b64_roundtrip x hx
  exact ⟨e, h1, by simp [B64.decodeVecOnto, h6]⟩

/-- `C19_aes_setkey` (round 8: stated on HISTORIES of one object). The AES object keeps nothing but the round keys and `setKey` / the
constructor overwrite all of them: after ANY sequence of `setKey` calls `ks` followed by `setKey(key)` on ANY object (whatever it held:
another key, the transpose of `key`, a round key of an earlier key, the uninitialised `w` of `AES(nullptr)`), `cipher` / `invcipher` are
FIPS-197 under the LAST key. (The earlier keys are unrestricted; the last one and the block are 16 bytes.) -/
theorem C19_aes_setkey (o : Aes.Obj) (ks : List (List UInt8)) (key block : List UInt8) (hk : key.length = 16) (hb : block.length = 16) :
    ((ks ++ [key]).foldl (Aes.Obj.setKey Aes.gen) o).cipher Aes.gen block = Spec.aesCipher key block
      ∧ ((ks ++ [key]).foldl (Aes.Obj.setKey Aes.gen) o).invCipher Aes.gen block = Spec.aesInvCipher key block
      ∧ (Aes.Obj.new Aes.gen key).cipher Aes.gen block = Spec.aesCipher key block := by
  have h := Aes.obj_cipher _ key block (Aes.setKeys_last o ks key) hk hb
  exact ⟨h.1, h.2, (C19_aes_eq_spec key block hk hb).1⟩

example : ([[1, 2, 3], List.replicate 16 7] ++ [List.replicate 16 (9 : UInt8)]).length = 3 := by decide

/-- `C19_url_port_range` (url.cpp:218, int → uint16_t): what `StringToUrlHost` does with a decimal port text of value n, for EVERY
digit string: n < 65536 ⇒ the port is n; 65536 ≤ n < 2^31 ⇒ ACCEPTED with the port reduced modulo 65536 (as coded: no range check);
n ≥ 2^31 ⇒ `std::stoi` throws and the function returns false -/
theorem C19_url_port_range (ds : List UInt8) (hne : ds ≠ []) (hd : ∀ c ∈ ds, Url.isDigit c = true) :
    (Url.digitsVal ds < 2 ^ 31 → ∃ i, Url.stoi ds = some i ∧ Url.toU16 i = Url.digitsVal ds % 65536)
      ∧ (Url.digitsVal ds < 65536 → ∃ i, Url.stoi ds = some i ∧ Url.toU16 i = Url.digitsVal ds)
      ∧ (2 ^ 31 ≤ Url.digitsVal ds → Url.stoi ds = none) := by
  have h := Url.stoi_digits ds hne hd
  refine ⟨?_, ?_, ?_⟩
  · intro hl; rw [if_neg (by omega)] at h
    exact ⟨_, h, by unfold Url.toU16; simp only [Int.ofNat_eq_natCast]; omega⟩
  · intro hl; rw [if_neg (by omega)] at h
    exact ⟨_, h, by unfold Url.toU16; simp only [Int.ofNat_eq_natCast]; omega⟩
  · intro hl; rw [if_pos (by omega)] at h; exact h

/-- the wrap is real: "65616" is accepted as port 80, "-1" as 65535, "2147483648" is refused -/
theorem C19_url_port_wrap_examples :
    Url.parseHost [104, 58, 54, 53, 54, 49, 54] = (true, ⟨[], [], [104], 80⟩)
      ∧ Url.parseHost [104, 58, 45, 49] = (true, ⟨[], [], [104], 65535⟩)
      ∧ (Url.parseHost [104, 58, 50, 49, 52, 55, 52, 56, 51, 54, 52, 56]).1 = false := by decide +kernel

/-- `UrlHostToString` prints a port so that `std::stoi` + the narrowing read it back exactly, for EVERY 16-bit port -/
theorem C19_url_port_roundtrip (p : Nat) (hp : p < 65536) : ∃ i, Url.stoi (Url.decimal p) = some i ∧ Url.toU16 i = p := by
  obtain ⟨h1, h2, h3⟩ := Url.decimal_spec p
  obtain ⟨i, hi, hv⟩ := (C19_url_port_range (Url.decimal p) h1 h2).2.1 (by rw [h3]; exact hp)
  exact ⟨i, hi, by rw [hv, h3]⟩

/-! ## 11. Round 8: histories on one object with inputs derived from its cached state (lesson g); URL host round trip -/

/-- `C19_aes_history`: EVERY history of calls on ONE object — `setKey`, `cipher`, `invcipher` in any order and number, keys and blocks
16 bytes — starting from `AES(k0)`, or from ANY object (e.g. `AES(nullptr)`) whose first call is `setKey(k0)`: the outputs are exactly
those of the independent FIPS-197 definitions under the key installed LAST before each call. In particular it does not matter how a
new key is related to what the object caches (equal to the old key, to the memory image of `w[0]` = its transpose, to any round key). -/
theorem C19_aes_history (k0 : List UInt8) (ops : List Aes.Op) (hk : k0.length = 16) (hw : ∀ op ∈ ops, op.wf = true) :
    (Aes.Obj.new Aes.gen k0).run Aes.gen ops = Aes.refRun Spec.aesCipher Spec.aesInvCipher k0 ops
      ∧ ∀ o : Aes.Obj, o.run Aes.gen (.setKey k0 :: ops) = Aes.refRun Spec.aesCipher Spec.aesInvCipher k0 ops :=
  ⟨Aes.run_ref ops _ k0 rfl hk hw, fun o => Aes.run_ref ops (o.setKey Aes.gen k0) k0 rfl hk hw⟩

example : ∀ op ∈ [Aes.Op.enc (List.replicate 16 1), .setKey (List.replicate 16 2), .dec (List.replicate 16 3)], op.wf = true := by decide

/-- `C19_aes_two_objects`: two AES objects used in turns share nothing — for EVERY interleaving of calls each object produces exactly
the outputs of its own calls (which `C19_aes_history` equates with FIPS-197 under its own last key), whatever keys the other object
was given in between -/
theorem C19_aes_two_objects (s : List (Bool × Aes.Op)) (a b : Aes.Obj) :
    Aes.outsOf false (Aes.runTwo Aes.gen a b s) = a.run Aes.gen (Aes.projOps false s)
      ∧ Aes.outsOf true (Aes.runTwo Aes.gen a b s) = b.run Aes.gen (Aes.projOps true s) := Aes.runTwo_proj Aes.gen s a b

/-- what the object caches, in the code's layout: `w[0]` read in memory order is the TRANSPOSE of the key, read column-wise it is the key -/
theorem C19_aes_cached_key (o : Aes.Obj) (k : List UInt8) (ho : o.w = Aes.keyExpansion Aes.gen k) (hk : k.length = 16) :
    o.memCol 0 = k ∧ o.memRow 0 = Aes.transpose k := Aes.memCol_zero o k ho hk

/-- an "unchanged key? then skip the expansion" shortcut is a correct `setKey` when it compares in the right order
(`w[0][r][c] == key[r + 4*c]`): on every object holding the expansion of some key the result is the expansion of the new key -/
theorem C19_aes_setkey_skip_sound (o : Aes.Obj) (k key : List UInt8) (ho : o.w = Aes.keyExpansion Aes.gen k) (hk : k.length = 16) :
    (o.setKeySkipCol Aes.gen key).w = Aes.keyExpansion Aes.gen key := Aes.setKeySkipCol_sound o k key ho hk

/-- … and WRONG when it compares the memory image (`memcmp(w[0], key, 16)`, seeded change C19-6): on an object holding
K1 = 00 01 … 0f, `setKey(transpose K1)` is skipped (the image of `w[0]` IS that key, and it differs from K1), so the object goes on
encrypting under K1 — not FIPS-197 under the key the caller installed -/
theorem C19_aes_setkey_skip_counterexample :
    let k1 : List UInt8 := [0, 1, 2, 3, 4, 5, 6, 7, 8, 9, 10, 11, 12, 13, 14, 15]
    let k2 : List UInt8 := [0, 4, 8, 12, 1, 5, 9, 13, 2, 6, 10, 14, 3, 7, 11, 15]
    let blk : List UInt8 := List.replicate 16 0
    (Aes.Obj.new Aes.gen k1).memRow 0 = k2 ∧ k2 ≠ k1
      ∧ ((Aes.Obj.new Aes.gen k1).setKeySkipMem Aes.gen k2).cipher Aes.gen blk = Spec.aesCipher k1 blk
      ∧ Spec.aesCipher k1 blk ≠ Spec.aesCipher k2 blk
      ∧ ((Aes.Obj.new Aes.gen k1).setKey Aes.gen k2).cipher Aes.gen blk = Spec.aesCipher k2 blk := by
  decide +kernel

/-- `C19_crc_chain_seq`: a SEQUENCE of calls in which every seed is derived from the previous result. For every first seed, first
piece and list of further pieces: seeding each `CalcCrc32` call with the COMPLEMENT of the previous result (each `CalcCrc16` call with
the previous result itself) makes the last result the CRC of the concatenation; the sequence has one result per call. -/
theorem C19_crc_chain_seq :
    (∀ (seed : UInt32) (d : List UInt8) (ps : List (List UInt8)),
        (Crc.seq32 seed d (ps.map (fun p => (Crc.Link.notPrev, p)))).getLast? = some (Spec.crc32 (d ++ ps.flatten) seed)) ∧
    (∀ (seed : UInt16) (d : List UInt8) (ps : List (List UInt8)),
        (Crc.seq16 seed d (ps.map (fun p => (Crc.Link.prev, p)))).getLast? = some (Spec.crc16 (d ++ ps.flatten) seed)) ∧
    (∀ seed d r, (Crc.seq32 seed d r).length = r.length + 1) ∧ (∀ seed d r, (Crc.seq16 seed d r).length = r.length + 1) := by
  refine ⟨?_, ?_, Crc.seq32_length, Crc.seq16_length⟩
  · intro seed d ps; rw [← Crc.crc32_eq_bitwise]; exact Crc.seq32_chain seed d ps
  · intro seed d ps; rw [← Crc.crc16_eq_bitwise]; exact Crc.seq16_chain seed d ps

example : Crc.seq32 0xffffffff [0x31] [(.notPrev, [0x32]), (.prev, []), (.zero, [0x33]), (.ones, [])] =
    [Crc.crc32 [0x31] 0xffffffff, Crc.crc32 [0x31, 0x32] 0xffffffff, ~~~ Crc.crc32 [0x31, 0x32] 0xffffffff, Crc.crc32 [0x33] 0, 0] := by
  decide +kernel

/-- `C19_si_stream`: an encoding is self-delimiting. For EVERY 64-bit value and EVERY bytes that follow it in the same buffer (the next
encoding, old contents, anything), parsing at the start of the encoding returns exactly (need, v) -/
theorem C19_si_stream (v : Nat) (hv : v < 2 ^ 64) (rest : List UInt8) :
    ∃ need out, SInt.dump v 10 = .ok (need, out) ∧ out.length = need ∧ SInt.parse (out ++ rest) = .ok (need, some v) := by
  obtain ⟨need, _, h10, _, _, hfit⟩ := C19_si_roundtrip v 10 hv
  obtain ⟨out, h1, h2, h3⟩ := hfit h10
  exact ⟨need, out, h1, h2, SInt.parse_append out rest need v h3⟩

/-- `C19_si_buffer`: dumping at an offset of a buffer that already holds data (`DumpScalableInteger(v, buf + off, size - off)`) and
parsing at the same offset: for every buffer content, offset inside it and 64-bit value — with fewer than `need` bytes left the call
returns 0 and the buffer is unchanged; otherwise exactly the `need` bytes at `off` are replaced, everything in front of and behind them
is untouched, and `ParseScalableInteger(buf + off, size - off)` gives back (need, v) whatever lies behind. -/
theorem C19_si_buffer (buf : List UInt8) (off v : Nat) (ho : off ≤ buf.length) (hv : v < 2 ^ 64) :
    ∃ need, SInt.needBytes v = .ok need ∧
      (buf.length - off < need → SInt.dumpAt buf off v = .ok (0, buf)) ∧
      (need ≤ buf.length - off → ∃ buf', SInt.dumpAt buf off v = .ok (need, buf') ∧ buf'.length = buf.length
          ∧ buf'.take off = buf.take off ∧ buf'.drop (off + need) = buf.drop (off + need)
          ∧ SInt.parseAt buf' off = .ok (need, some v)) := by
  obtain ⟨need, h1, h10, hn, hshort, hfit⟩ := C19_si_roundtrip v (buf.length - off) hv
  refine ⟨need, hn, ?_, ?_⟩
  · intro hc
    unfold SInt.dumpAt
    rw [hshort hc]
    simp only [Res.bind_ok, Res.pure_eq]
    unfold SInt.poke; simp
  · intro hc
    obtain ⟨out, e1, e2, e3⟩ := hfit hc
    unfold SInt.dumpAt
    rw [e1]
    simp only [Res.bind_ok, Res.pure_eq]
    refine ⟨_, rfl, SInt.poke_length buf off out (by omega), SInt.poke_take buf off out ho, ?_, ?_⟩
    · have := SInt.poke_drop buf off out ho
      rw [← e2, ← List.drop_drop, this, List.drop_left' rfl]
    · unfold SInt.parseAt
      rw [SInt.poke_drop buf off out ho]
      exact SInt.parse_append out _ need v e3

example : SInt.dumpAt [1, 2, 3, 4, 5] 1 16512 = .ok (3, [1, 0x80, 0x80, 0x00, 5]) ∧ SInt.parseAt [1, 0x80, 0x80, 0x00, 5] 1 = .ok (3, some 16512)
    ∧ SInt.dumpAt [1, 2, 3, 4, 5] 3 16512 = .ok (0, [1, 2, 3, 4, 5]) := by decide +kernel

/-- `C19_md5_two_objects`: two MD5 objects used in turns share nothing. For EVERY interleaving of steps on objects A and B whose own
step sequences do not abort: the interleaved run does not abort, and each object yields exactly the digests of its own steps — hence
(by `C19_md5_lifecycle` and `C19_md5_eq_spec`) RFC 1321 of its own updates, whatever the other object was fed in between. -/
theorem C19_md5_two_objects (P : Md5.Params) (s : List Md5.Step2) (a b : Md5.Obj)
    (ha : (Md5.runScript P a (Md5.proj false s)).2 = false) (hb : (Md5.runScript P b (Md5.proj true s)).2 = false) :
    (Md5.runTwo P a b s).2 = false
      ∧ Md5.digestsOf false (Md5.runTwo P a b s).1 = (Md5.runScript P a (Md5.proj false s)).1
      ∧ Md5.digestsOf true (Md5.runTwo P a b s).1 = (Md5.runScript P b (Md5.proj true s)).1 :=
  Md5.runTwo_proj P s a b ha hb

example : (Md5.runScript Spec.md5Params (Md5.Obj.new Spec.md5Params) (Md5.proj false [(false, some [0x61]), (true, some [0x62]), (false, none)])).2 = false := by
  decide +kernel

/-- `C19_b64_decode_into`: decoding into a buffer that already holds data (e.g. the previous output). For EVERY old content and EVERY
text: the call returns r ≤ capacity, the first r bytes are the decoded bytes (the same as decoding into a fresh buffer: the result does
not depend on what the buffer held), and every byte behind them keeps its old value -/
theorem C19_b64_decode_into (old s : List UInt8) :
    ∃ r buf, B64.decodeInto old s = .ok (r, buf) ∧ r ≤ old.length ∧ buf.length = old.length
      ∧ B64.decodeBuf s old.length = .ok (r, buf.take r) ∧ buf.drop r = old.drop r := by
  obtain ⟨n, out, h1, h2, h3, _⟩ := C19_b64_bounds s old.length
  unfold B64.decodeInto
  rw [h1]
  simp only [Res.bind_ok, Res.pure_eq]
  refine ⟨n, _, rfl, h2, by simp; omega, ?_, ?_⟩
  · rw [List.take_left' h3]
  · rw [h3, List.drop_left' h3]

example : B64.decodeInto [1, 2, 3, 4] [81, 85, 73, 61] = .ok (2, [65, 66, 3, 4]) := by decide +kernel

/-- `C19_url_host_roundtrip` (closes the former OPEN): `StringToUrlHost (UrlHostToString h)` returns true and gives back exactly `h`,
for EVERY host value that is well-formed (`Url.Host.wf`, decidable): user / password / host contain none of `% @ :` (they are printed
unencoded), a password needs a user, the port fits `uint16_t`. (Property C12 proves the same law on its own model of url.cpp,
`C12_url_host_roundtrip`, where the tokens must in addition be free of '/' because there the host is cut out of an absolute URL;
both models are compared with the real `StringToUrlHost` on every run of their checks.) -/
theorem C19_url_host_roundtrip (h : Url.Host) (hw : h.wf = true) : Url.parseHost (Url.hostToString h) = (true, h) :=
  Url.parseHost_print {} h hw

/-- `C19_url_host_reuse` (lesson g: the state is what the output object already holds; after fix C19-09): the same round trip into a
RE-USED `Url::Host` object — whatever user / password / host / port it held from an earlier parse, after
`StringToUrlHost (UrlHostToString h, obj)` it holds exactly `h` -/
theorem C19_url_host_reuse (old h : Url.Host) (hw : h.wf = true) : Url.parseHostInto old (Url.hostToString h) = (true, h) :=
  Url.parseHost_print old h hw

/-- the code as found kept the OLD user and password when the new text has no '@': parsing "h" into an object that had parsed
"u:p@x:1" before answered true and left user "u", password "p" in it (replay: corpus/C19/10-url-host-reused-object.ops). On a fresh
object both variants agree. -/
theorem C19_url_host_reuse_orig_counterexample :
    Url.parseHostIntoOrig ⟨[117], [112], [120], 1⟩ [104] = (true, ⟨[117], [112], [104], 0⟩)
      ∧ Url.parseHostInto ⟨[117], [112], [120], 1⟩ [104] = (true, ⟨[], [], [104], 0⟩)
      ∧ Url.hostToString ⟨[], [], [104], 0⟩ = [104] := by decide +kernel

theorem C19_url_host_fresh_same (s : List UInt8) : Url.parseHostIntoOrig {} s = Url.parseHostInto {} s := by
  unfold Url.parseHostIntoOrig Url.parseHostInto Url.parseHostIntoW Url.parseHostUserW
  cases Url.find 64 s <;> rfl

example : (Url.Host.mk [117] [112, 32, 119] [104, 46, 120] 8443).wf = true := by decide

/-- every clause of `Url.Host.wf` is needed: a user with '@' ("a@b@h" reads back as user "a", host "b@h"); a host with ':' (what follows
is taken for the port, `std::stoi` refuses it); a password without a user is not printed; '%' is printed raw but decoded when read
("%41" comes back as "A"); a port outside `uint16_t` is reduced modulo 65536 -/
theorem C19_url_host_roundtrip_counterexample :
    Url.parseHost (Url.hostToString ⟨[97, 64, 98], [], [104], 0⟩) = (true, ⟨[97], [], [98, 64, 104], 0⟩)
      ∧ (Url.parseHost (Url.hostToString ⟨[], [], [104, 58, 120], 0⟩)).1 = false
      ∧ Url.parseHost (Url.hostToString ⟨[], [112], [104], 0⟩) = (true, ⟨[], [], [104], 0⟩)
      ∧ Url.parseHost (Url.hostToString ⟨[37, 52, 49], [], [104], 0⟩) = (true, ⟨[65], [], [104], 0⟩)
      ∧ Url.parseHost (Url.hostToString ⟨[], [], [104], 65616⟩) = (true, ⟨[], [], [104], 80⟩) := by decide +kernel

/-! ## Round 9 (lesson h): accumulators and long inputs -/

/-- `C19_sum16_width`: `CalcCheckSum16` with its `uint32_t` accumulator (truncation `% 2^32` after every `+=`, carry loop after every
word) is the one's-complement sum of the big-endian words for EVERY byte string of EVERY length: the accumulator holds at most 0xFFFF
after each word, so no addition ever reaches 2^32 and the two-round carry loop always finishes. Same for `CalcCheckSum8` and its
`uint16_t` accumulator. Hence the unbounded naturals of `Crc.sum16` / `Crc.sum8` are exact (no hidden width assumption). -/
theorem C19_sum16_width :
    (∀ data : List UInt8, Long.sum16W data = Spec.sum16 data ∧ Long.sum16W data = Crc.sum16 data ∧ Long.sum16AccW 0 data ≤ 0xFFFF) ∧
    (∀ data : List UInt8, Long.sum8W data = Spec.sum8 data ∧ Long.sum8W data = Crc.sum8 data) ∧
    (∀ acc, acc < 2 ^ 32 → Crc.fold16 acc < 65536) ∧ (∀ acc, acc < 2 ^ 16 → Crc.fold8 acc < 256) :=
  ⟨fun d => ⟨by rw [Long.sum16W_eq, Crc.checksum16_eq_sum], Long.sum16W_eq d, Long.sum16AccW_le d⟩,
   fun d => ⟨by rw [Long.sum8W_eq, Crc.checksum8_eq_sum], Long.sum8W_eq d⟩, Long.fold16_done, Long.fold8_done⟩

/- OPEN (false): ∀ data, Long.sum16FoldOnce32 data = Spec.sum16 data — the variant of seeded change C19-7 ("sum all words into the
uint32_t, fold the carries once after the loop"). -/
/-- `C19_sum16_fold_once_partial`: the fold-once variant is exact for every input of at most 131074 bytes (65537 words sum to at most
2^32 − 1) … -/
theorem C19_sum16_fold_once_partial (data : List UInt8) (h : data.length ≤ 131074) :
    Long.sum16FoldOnce32 data = Spec.sum16 data := Long.foldOnce32_ok data h

example : ([0xFF, 0xFF, 0x01] : List UInt8).length ≤ 131074 := by decide

/-- … and 131075 is the LEAST failing length: 131075 bytes of 0xFF give 0x0100 instead of 0x00FF (the 32-bit accumulator wrapped once;
every wrap loses one end-around carry) -/
theorem C19_sum16_fold_once_counterexample :
    Long.sum16FoldOnce32 (List.replicate 131075 0xFF) = 0x0100 ∧ Spec.sum16 (List.replicate 131075 0xFF) = 0x00FF
      ∧ Long.sum16FoldOnce32 (List.replicate 131075 0xFF) ≠ Spec.sum16 (List.replicate 131075 0xFF) := by
  obtain ⟨h1, h2⟩ := Long.foldOnce32_bad
  exact ⟨h1, h2, by rw [h1, h2]; decide⟩

/-- the same for `CalcCheckSum8` with its `uint16_t` accumulator: fold-once is exact up to 257 bytes, wrong for 258 bytes of 0xFF -/
theorem C19_sum8_fold_once_partial (data : List UInt8) (h : data.length ≤ 257) :
    Long.sum8FoldOnce16 data = Spec.sum8 data := Long.foldOnce16_ok data h

example : ([0xFF, 0x01] : List UInt8).length ≤ 257 := by decide

theorem C19_sum8_fold_once_counterexample :
    Long.sum8FoldOnce16 (List.replicate 258 0xFF) = 0x01 ∧ Spec.sum8 (List.replicate 258 0xFF) = 0x00 := Long.foldOnce16_bad

/-- closed form on the saturating input: the 16-bit checksum of n bytes 0xFF is 0xFFFF (n = 0), 0 (n even), 0x00FF (n odd) — for every n -/
theorem C19_sum16_ff_closed (n : Nat) :
    Spec.sum16 (List.replicate n 0xFF) = if n = 0 then 0xFFFF else if n % 2 = 0 then 0 else 0x00FF := Long.sum16_ff_closed n

/-- `C19_sum_array_refines` / `C19_crc_array_refines`: the `Array` evaluators the driver uses for inputs of up to 2^24 bytes compute
exactly the list models (which the theorems above relate to the published algorithms) -/
theorem C19_sum_array_refines (a : Array UInt8) :
    Long.sum8A a = Crc.sum8 a.toList ∧ Long.sum16A a = Crc.sum16 a.toList
      ∧ Long.sum8A a = Spec.sum8 a.toList ∧ Long.sum16A a = Spec.sum16 a.toList :=
  ⟨Long.sum8A_eq a, Long.sum16A_eq a, by rw [Long.sum8A_eq, Crc.checksum8_eq_sum], by rw [Long.sum16A_eq, Crc.checksum16_eq_sum]⟩

theorem C19_crc_array_refines (a : Array UInt8) :
    (∀ seed, Long.crc16A a seed = Crc.crc16 a.toList seed ∧ Long.crc16A a seed = Spec.crc16 a.toList seed) ∧
    (∀ seed, Long.crc32A a seed = Crc.crc32 a.toList seed ∧ Long.crc32A a seed = Spec.crc32 a.toList seed) ∧
    Long.fnvA a = Long.fnvL a.toList :=
  ⟨fun s => ⟨Long.crc16A_eq a s, by rw [Long.crc16A_eq, Crc.crc16_eq_bitwise]⟩,
   fun s => ⟨Long.crc32A_eq a s, by rw [Long.crc32A_eq, Crc.crc32_eq_bitwise]⟩, Long.fnvA_eq a⟩

/-- `C19_b64_chunked_refines`: the Base64 encoder evaluated 3072 bytes at a time (what the driver does for long inputs) is the encoder;
more generally the encoding of `a ++ b` is the concatenation of the encodings when |a| is a multiple of 3 -/
theorem C19_b64_chunked_refines :
    (∀ x : List UInt8, Long.b64EncChunked x = B64.encGo .s0 0 x) ∧
    (∀ a b : List UInt8, a.length % 3 = 0 → B64.encGo .s0 0 (a ++ b) = B64.encGo .s0 0 a ++ B64.encGo .s0 0 b) :=
  ⟨Long.b64EncChunked_eq, fun a b h => Long.encGo_append3 a b 0 0 h⟩

example : ([1, 2, 3] : List UInt8).length % 3 = 0 := by decide

/-- `C19_aes_unkeyed_roundtrip`: an object built with `AES(nullptr)` and used BEFORE its first `setKey` has unspecified round keys
(`w[11][4][4]` is left uninitialised) — its `cipher` output is unspecified and outside the property's quantifier ("every key and
block": there is no key). What still holds, for EVERY content of the 11 × 16 bytes of `w`: `invcipher` undoes `cipher` on that object.
(The harness observes exactly this and prints nothing of the unspecified ciphertext.) -/
theorem C19_aes_unkeyed_roundtrip (o : Aes.Obj) (hw : ∀ i, (Aes.wAt o.w i).length = 16) (b : List UInt8) (hb : b.length = 16) :
    o.invCipher Aes.gen (o.cipher Aes.gen b) = b := by
  unfold Aes.Obj.invCipher Aes.Obj.cipher
  rw [Aes.transpose_transpose _ (Aes.cipherMat_length Aes.gen _ _ hw),
    Aes.invCipherMat_cipherMat (fun x => (C19_aes_sbox_inverse x).1) _ _ (Aes.transpose_length _) hw, Aes.transpose_transpose _ hb]

example : ∀ i, (Aes.wAt (⟨[]⟩ : Aes.Obj).w i).length = 16 := by intro i; simp [Aes.wAt]

/-! ## Round 10: aliased buffers (one memory for input and output) -/

/-- `C19_b64_decode_in_place`: `Decode(p + src, n, p + dst, cap)` with text and output in ONE buffer, the output starting at or before
the text (`dst ≤ src`; `dst = src` is the in-place call `Decode(p, n, p, cap)`). The model reads every character from the shared
memory at the moment the code reads it and stores every byte into it. For EVERY memory content around the text, EVERY text (valid or
not) and EVERY capacity, what the caller sees — the return value and that many bytes at the output pointer, or the refusal — is
exactly what the call into a separate buffer gives: the write index never passes the read index. -/
theorem C19_b64_decode_in_place (pre s post : List UInt8) (dst cap : Nat) (hd : dst ≤ pre.length) :
    B64.ipView dst (B64.decodeIp (pre ++ s ++ post) pre.length s.length dst cap) = B64.decodeBuf s cap :=
  B64.decodeIp_refines pre s post dst cap hd

example : B64.decodeIp [7, 81, 85, 74, 68, 9] 1 4 1 3 = .ok (3, [7, 65, 66, 67, 68, 9]) := by decide +kernel
example : (1 : Nat) ≤ ([7] : List UInt8).length := by decide

/-- hence in place every call returns normally, with at most `cap` and at most `DecodeLength` bytes, and encode-then-decode-in-place
gives the data back -/
theorem C19_b64_decode_in_place_bounds (pre s post : List UInt8) (dst cap : Nat) (hd : dst ≤ pre.length) :
    ∃ n out, B64.ipView dst (B64.decodeIp (pre ++ s ++ post) pre.length s.length dst cap) = .ok (n, out)
      ∧ n ≤ cap ∧ out.length = n ∧ n ≤ B64.decodeLength s := by
  rw [C19_b64_decode_in_place pre s post dst cap hd]; exact C19_b64_bounds s cap

/-- `C19_b64_decode_in_place_frame`: whatever the placement of text and output inside the memory (overlapping or not), every call that
returns leaves the memory length unchanged and every byte outside the output window `[dst, dst + cap)` untouched — no store beyond the
capacity given, also when the stores land in the text itself -/
theorem C19_b64_decode_in_place_frame (mem : List UInt8) (src n dst cap r : Nat) (m : List UInt8)
    (e : B64.decodeIp mem src n dst cap = .ok (r, m)) :
    m.length = mem.length ∧ ∀ i, (i < dst ∨ dst + cap ≤ i) → m[i]? = mem[i]? :=
  B64.decodeIp_frame mem src n dst cap r m e

example : B64.decodeIp [7, 81, 85, 74, 68, 9] 1 4 0 3 = .ok (3, [65, 66, 67, 74, 68, 9]) := by decide +kernel

/-- the hypothesis is needed: an output pointer two bytes BEHIND the start of the text overwrites a character before it is read
("QUJD" decoded to text+2: the first store replaces 'J' by 'A', the second replaces 'D' by '@', which is then refused): the caller
gets 0 instead of "ABC" and the text is destroyed. One byte behind is still safe for this text. -/
theorem C19_b64_decode_in_place_overlap_counterexample :
    B64.decodeBuf [81, 85, 74, 68] 3 = .ok (3, [65, 66, 67])
    ∧ B64.decodeIp [81, 85, 74, 68, 0, 0] 0 4 2 3 = .ok (0, [81, 85, 65, 64, 0, 0])
    ∧ B64.ipView 1 (B64.decodeIp [81, 85, 74, 68, 0, 0] 0 4 1 3) = .ok (3, [65, 66, 67]) := by decide +kernel

/-- `C19_ser_self_append_reserved`: `ser.append(own data + off, k)` with the source inside the written data. Raw mode, and vector mode
whenever the capacity already covers `pos + k` (the caller reserved): the call is exactly the append of a COPY of those bytes.
Decision against the statement: a source range inside the serializer's own storage is a valid "byte string as encoder input" only
while that storage stays in place; like `vector::insert` with iterators into the vector itself, the unreserved case is the caller's. -/
theorem C19_ser_self_append_reserved (s : Ser.S) (vcap off k : Nat) (h : off + k ≤ s.pos)
    (hp : s.raw = false → s.pos ≤ s.mem.length) (hc : s.raw = false → s.pos + k ≤ max vcap s.mem.length) :
    s.appendSelf vcap off k = some (s.appendRaw ((s.mem.drop off).take k)) := by
  unfold Ser.S.appendSelf Ser.S.appendRaw
  cases hr : s.raw
  · have := hp hr; have := hc hr
    rw [if_neg (by simp; omega)]; simp [this]
  · rw [if_neg (by simp; omega)]; simp

example : (Ser.S.newVec [1, 2, 3, 4] .big |>.appendSelf 4 0 0) = some (.ok (true, ⟨false, 0, [], .big, 0⟩)) := by decide +kernel
example : (⟨false, 0, [1, 2, 3], .big, 3⟩ : Ser.S).appendSelf 8 1 2 = some (.ok (true, ⟨false, 0, [1, 2, 3, 2, 3], .big, 5⟩)) := by
  decide +kernel

/-- … and without the reservation: in vector mode, whenever `pos + k` exceeds the capacity, `resize` moves the block and `memcpy`
reads the freed source — for every such call (the harness observes the AddressSanitizer report in a child process, as an `M` line) -/
theorem C19_ser_self_append_dangles (s : Ser.S) (vcap off k : Nat) (hr : s.raw = false) (h : off + k ≤ s.pos)
    (hp : s.pos ≤ s.mem.length) (hc : max vcap s.mem.length < s.pos + k) :
    s.appendSelf vcap off k = some (.oob "read source freed by resize") := by
  unfold Ser.S.appendSelf
  rw [if_neg (by simp [hr]; omega)]; simp [hr]; omega

example : (⟨false, 0, [1, 2, 3], .big, 3⟩ : Ser.S).appendSelf 3 1 2 = some (.oob "read source freed by resize") := by decide +kernel

end Tbox.C19
