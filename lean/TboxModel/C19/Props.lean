/-
C19 — PROPERTY THEOREMS (helper lemmas live in the *Proofs files).

Property: each encoder/decoder pair (Base64, hex strings, scalable integers, serializer /
deserializer, URL percent-encoding) is an exact inverse on every value, produces exactly the size
its size function advertises, fails cleanly on invalid input, and never reads outside its input or
writes beyond the capacity given; CRC-16, CRC-32, the 8/16-bit checksums, MD5 (any split into
updates) and AES-128 equal the published algorithms.
-/
import TboxModel.C19.TableProofs
import TboxModel.C19.Orig
import TboxModel.C19.SIntProofs
import TboxModel.C19.SerProofs
namespace Tbox.C19
set_option maxRecDepth 100000

/-! ## 1. The tables in the source are the standard ones (re-checked on every run) -/

/-- Base64 alphabet = RFC 4648 table 1 -/
theorem C19_b64_alphabet_standard : Gen.base64en = Spec.alphabet ∧ Gen.base64pad = 61 := by decide +kernel
/-- the 128-entry decode table is exactly the inverse of the alphabet (255 elsewhere) -/
theorem C19_b64_decode_table_standard : Gen.base64de = Spec.decodeTable := by decide +kernel
/-- CRC-32 table = 8 bitwise steps of the reflected polynomial 0xEDB88320 on every index -/
theorem C19_crc32_table : Gen.crc32Table = (List.range 256).map (fun i => Spec.crc32Bits8 (UInt32.ofNat i)) := by
  decide +kernel
/-- CRC-16 table = 8 bitwise steps of the polynomial 0x1021 on every index (MSB first) -/
theorem C19_crc16_table : Gen.crc16Table = (List.range 256).map (fun i => Spec.crc16Bits8 (UInt16.ofNat i <<< 8)) := by
  decide +kernel
/-- scalable integer: k bytes hold exactly 128^k values and the ranges are consecutive from 0 -/
theorem C19_si_tables : Gen.siMin = (List.range 11).map Spec.siMinSpec ∧ Gen.siMax = (List.range 10).map Spec.siMaxSpec := by
  decide +kernel
/-- MD5: the 64 step lines, initial state and padding in the source are those of RFC 1321 -/
theorem C19_md5_tables : Md5.gen = Spec.md5Params := by decide +kernel
/-- AES S-box = affine map ∘ GF(2^8) inverse (FIPS-197 §5.1.1), all 256 entries -/
theorem C19_aes_sbox_standard :
    Gen.aesSbox = Spec.sboxChunk 0 ++ Spec.sboxChunk 1 ++ Spec.sboxChunk 2 ++ Spec.sboxChunk 3 :=
  list_four_chunks _ _ _ _ _ (by decide +kernel) sbox_chunk0 sbox_chunk1 sbox_chunk2 sbox_chunk3
/-- AES round constants = powers of x in GF(2^8) -/
theorem C19_aes_rcon_standard : Gen.aesRcon = Spec.rconTable := by decide +kernel

/-- the inverse S-box in the source is the two-sided inverse of the S-box, for every byte -/
theorem C19_aes_sbox_inverse (x : UInt8) :
    Aes.invSbox Aes.gen (Aes.sbox Aes.gen x) = x ∧ Aes.sbox Aes.gen (Aes.invSbox Aes.gen x) = x := by
  have hx : x = UInt8.ofNat x.toNat := by simp
  have hlt : x.toNat < 256 := x.toNat_lt
  have key : ∀ lo, sboxInvOn lo = true → lo ≤ x.toNat → x.toNat < lo + 64 →
      Aes.invSbox Aes.gen (Aes.sbox Aes.gen (UInt8.ofNat x.toNat)) = UInt8.ofNat x.toNat
        ∧ Aes.sbox Aes.gen (Aes.invSbox Aes.gen (UInt8.ofNat x.toNat)) = UInt8.ofNat x.toNat := by
    intro lo h h1 h2
    unfold sboxInvOn at h
    rw [List.all_eq_true] at h
    have := h x.toNat (by rw [List.mem_range'_1]; omega)
    simpa using this
  rw [hx]
  by_cases h1 : x.toNat < 64
  · exact key 0 sbox_inv0 (by omega) (by omega)
  by_cases h2 : x.toNat < 128
  · exact key 64 sbox_inv1 (by omega) (by omega)
  by_cases h3 : x.toNat < 192
  · exact key 128 sbox_inv2 (by omega) (by omega)
  · exact key 192 sbox_inv3 (by omega) (by omega)

/-- URL: '%' itself is escaped in both modes (the fact the round trip rests on), and the hex digit
string of the encoder is "0123456789ABCDEF" -/
theorem C19_url_tables : Gen.urlFull.contains 37 = true ∧ Gen.urlPath.contains 37 = true
    ∧ Gen.urlHex = [48, 49, 50, 51, 52, 53, 54, 55, 56, 57, 65, 66, 67, 68, 69, 70]
    ∧ (∀ c ∈ Gen.urlPath, c ∈ Gen.urlFull) := by decide +kernel

/-! ## 2. Counterexamples on the code BEFORE the fixes (DESIGN §7 row 11) -/

/-- C19-01: decoding the padded text "QQ==" into a buffer of exactly `DecodeLength` = 1 byte
stores a second byte -/
theorem C19_b64_bounds_orig_counterexample :
    B64.decodeLength [81, 81, 61, 61] = 1 ∧ Orig.decodeBuf [81, 81, 61, 61] 1 = .oob "write out" := by
  decide +kernel
/-- … and so does every one-pad text, e.g. "QUI=" into 2 bytes -/
theorem C19_b64_bounds_orig_counterexample2 : Orig.decodeBuf [81, 85, 73, 61] 2 = .oob "write out" := by
  decide +kernel
/-- C19-02: a byte ≥ 0x80 indexes the decode table at a negative offset -/
theorem C19_b64_table_index_orig_counterexample : Orig.decodeBuf [0x80, 65, 65, 65] 3 = .oob "read base64de" := by
  decide +kernel
/-- C19-03: ten continuation bytes and a terminator make the old parse loop (`i <= 10`) read
`_min_value_tbl[11]` (the table has 11 entries) -/
theorem C19_si_bounds_orig_counterexample :
    SInt.parseOrig [0x80, 0x80, 0x80, 0x80, 0x80, 0x80, 0x80, 0x80, 0x80, 0x80, 0] = .oob "read _min_value_tbl" := by
  decide +kernel
/-- the repaired loop rejects that input by return value -/
example : SInt.parse [0x80, 0x80, 0x80, 0x80, 0x80, 0x80, 0x80, 0x80, 0x80, 0x80, 0] = .ok (0, none) := by
  decide +kernel

/-! ## 3. Scalable integer: bounds at full strength (after fix C19-03) -/
/- `C19_si_parse_bounds`: for EVERY byte string the parser returns normally (no table or input
   access out of bounds) and consumes at most 10 bytes.
   `C19_si_dump_bounds`: for EVERY value and capacity the writer returns normally, stores exactly
   the number of bytes it returns, never more than the capacity (0 and nothing when too small). -/

theorem C19_si_parse_bounds (bs : List UInt8) : ∃ r, SInt.parse bs = .ok r ∧ r.1 ≤ 10 := by
  unfold SInt.parse SInt.parseWith
  cases h : SInt.parseGo 10 0 1 0 bs with
  | none => exact ⟨_, rfl, by simp⟩
  | some p =>
    obtain ⟨rb, rv⟩ := p
    have := SInt.parseGo_bound 10 bs 0 1 0 rb rv h
    obtain ⟨m, hm⟩ := SInt.tblRead_ok "_min_value_tbl" Gen.siMin rb (by rw [SInt.siMin_length]; omega)
    simp only [hm, Res.bind_ok]
    exact ⟨_, rfl, by simp; omega⟩

theorem C19_si_dump_bounds (v cap : Nat) :
    ∃ n out, SInt.dump v cap = .ok (n, out) ∧ n ≤ cap ∧ n ≤ 10 ∧ out.length = n := by
  unfold SInt.dump SInt.needBytes
  obtain ⟨n, hn, h1, h10⟩ := SInt.needGo_spec v 10 1 (by omega) (by omega)
  rw [hn]; simp only [Res.bind_ok]
  by_cases hc : cap < n
  · simp only [hc, if_true]; exact ⟨0, [], rfl, by omega, by omega, rfl⟩
  · simp only [hc, if_false]
    have hs : ∀ store, ∃ out, storeAll cap (SInt.dumpBytes n store) = .ok out ∧ out.length = n := by
      intro store
      unfold storeAll
      rw [SInt.dumpBytes_length n store h1]
      simp only [show n ≤ cap by omega, if_true]
      exact ⟨_, rfl, SInt.dumpBytes_length n store h1⟩
    by_cases h2 : n > 1
    · simp only [h2, if_true]
      obtain ⟨m, hm⟩ := SInt.tblRead_ok "_min_value_tbl" Gen.siMin n (by rw [SInt.siMin_length]; omega)
      rw [hm]; simp only [Res.bind_ok, Res.pure_eq]
      obtain ⟨out, ho, hl⟩ := hs ((v + SInt.W - m) % SInt.W)
      rw [ho]; simp only [Res.bind_ok]
      exact ⟨n, out, rfl, by omega, h10, hl⟩
    · simp only [h2, if_false, Res.pure_eq, Res.bind_ok]
      obtain ⟨out, ho, hl⟩ := hs v
      rw [ho]; simp only [Res.bind_ok]
      exact ⟨n, out, rfl, by omega, h10, hl⟩

example : SInt.dump 16512 3 = .ok (3, [0x80, 0x80, 0x00]) := by decide +kernel
example : SInt.dump 16512 2 = .ok (0, []) := by decide +kernel
example : SInt.parse [0x80, 0x80, 0x00] = .ok (3, some 16512) := by decide +kernel

-- OPEN  C19_si_roundtrip : ∀ v < 2^64, ∀ cap ≥ 10, ∃ n out, SInt.dump v cap = .ok (n, out) ∧ SInt.parse out = .ok (n, some v)
--       (executed by the `si.rt` operation for every boundary value ±2 and random 64-bit values; the table facts it
--        needs — consecutive ranges of exactly 128^k values — are C19_si_tables)

/-! ## 4. Serializer / Deserializer -/


/-- decoder inverts encoder for every width, value, endianness and position in the input -/
theorem C19_ser_int_roundtrip (e : Ser.Endian) (n v : Nat) (pre post : List UInt8) (hv : v < 256 ^ n) :
    Ser.D.fetchInt ⟨pre ++ Ser.intBytes e n v ++ post, e, pre.length⟩ n
      = .ok (some v, ⟨pre ++ Ser.intBytes e n v ++ post, e, pre.length + n⟩) := by
  have hl := Ser.intBytes_length e n v
  unfold Ser.D.fetchInt Ser.D.take
  simp only [List.length_append, hl]
  rw [if_pos (by omega)]
  have hd : ((pre ++ Ser.intBytes e n v ++ post).drop pre.length).take n = Ser.intBytes e n v := by
    rw [List.append_assoc, List.drop_left, List.take_left' hl]
  rw [hd, if_pos hl]
  simp only [Res.bind_ok, Res.pure_eq, Option.map_some, Ser.intValue_intBytes]
  have h8 : 2 ^ (8 * n) = 256 ^ n := by rw [Nat.pow_mul]
  rw [h8, Nat.mod_mod, Nat.mod_eq_of_lt hv]

/-- every Serializer store is inside the buffer; a store that does not fit returns `false` and
changes nothing -/
theorem C19_ser_put_bounds (s : Ser.S) (bs : List UInt8) :
    ∃ b s', s.put bs = .ok (b, s') ∧ (b = false → s' = s) ∧ (s.raw = true → s.pos ≤ s.cap → s'.pos ≤ s.cap) := by
  unfold Ser.S.put
  by_cases hr : s.raw = true
  · simp only [hr, if_true]
    by_cases hw : s.pos + bs.length ≤ s.cap
    · simp only [hw, if_true]; exact ⟨true, _, rfl, by simp, fun _ _ => hw⟩
    · simp only [hw, if_false]; exact ⟨false, s, rfl, fun _ => rfl, fun _ h => h⟩
  · have hr' : s.raw = false := by simpa using hr
    simp only [hr']; exact ⟨true, _, rfl, by simp, fun h => by simp at h⟩

/-- every Deserializer read is inside the input; a short input gives `false` (none) and leaves
the position unchanged; the position never passes the end -/
theorem C19_des_take_bounds (d : Ser.D) (need : Nat) (hp : d.pos ≤ d.data.length) :
    ∃ r d', d.take need = .ok (r, d') ∧ (r = none → d' = d) ∧ d'.pos ≤ d'.data.length
      ∧ (r = none ↔ d.pos + need > d.data.length) := by
  unfold Ser.D.take
  by_cases h : d.pos + need ≤ d.data.length
  · simp only [h, if_true]
    have hl : ((d.data.drop d.pos).take need).length = need := by simp; omega
    simp only [hl, if_true]
    exact ⟨_, _, rfl, by simp, by simpa using h, by simp; omega⟩
  · simp only [h, if_false]; exact ⟨none, d, rfl, fun _ => rfl, hp, by simp; omega⟩

example : (256 : Nat) < 256 ^ 2 := by decide
example : Ser.D.fetchInt ⟨[9] ++ Ser.intBytes .big 2 256 ++ [7], .big, 1⟩ 2 = .ok (some 256, ⟨[9, 1, 0, 7], .big, 3⟩) := by
  decide +kernel

-- OPEN  C19_ser_roundtrip : ∀ e fields (all ints in range), ∃ s, Ser.serFields (Ser.S.newVec [] e) fields = .ok s ∧
--         Ser.desFields (Ser.D.new s.mem e) fields = .ok (some fields)
--       (the per-field inverse is C19_ser_int_roundtrip; raw/POD fields are list identities; the sequence level is
--        executed by the `ser.rt` operation)

/-! ## 5. Base64 -/
/-- the encoder's output length for every state of the state machine -/
theorem encGo_length : ∀ (x : List UInt8) (s : B64.St) (l : UInt8),
    (B64.encGo s l x).length = match s with
      | .s0 => (x.length + 2) / 3 * 4
      | .s1 => 3 + x.length / 3 * 4
      | .s2 => 2 + (x.length + 1) / 3 * 4 := by
  intro x; induction x with
  | nil => intro s l; cases s <;> simp [B64.encGo]
  | cons c r ih =>
    intro s l
    cases s <;> simp only [B64.encGo, List.length_cons, ih] <;> omega


/-- `C19_b64_size`: the encoder produces exactly `EncodeLength(n)` characters for every input -/
theorem C19_b64_size (x : List UInt8) (h : x ≠ []) :
    ∃ out, B64.encodeStr x = .ok out ∧ out.length = B64.encodeLength x.length := by
  unfold B64.encodeStr
  have : x.isEmpty = false := by cases x <;> simp_all
  simp only [this]
  exact ⟨_, rfl, by simpa [B64.encodeLength] using encGo_length x .s0 0⟩

/-- the buffer encoder never writes beyond the capacity: too small ⇒ 0 and nothing stored -/
theorem C19_b64_encode_bounds (x : List UInt8) (cap : Nat) (h : x ≠ []) (hc : cap ≠ 0) :
    ∃ n out, B64.encodeBuf x cap = .ok (n, out) ∧ n ≤ cap ∧ out.length = n
      ∧ (n = 0 ↔ B64.encodeLength x.length > cap) := by
  unfold B64.encodeBuf
  have he : x.isEmpty = false := by cases x <;> simp_all
  have hlen : (B64.encGo .s0 0 x).length = B64.encodeLength x.length := by
    simpa [B64.encodeLength] using encGo_length x .s0 0
  have hpos : 0 < B64.encodeLength x.length := by
    cases x with
    | nil => exact absurd rfl h
    | cons a r => simp only [B64.encodeLength, List.length_cons]; omega
  simp only [he, hc, Bool.false_eq_true, false_or, if_false]
  by_cases hg : B64.encodeLength x.length > cap
  · simp only [hg, if_true]; exact ⟨0, [], rfl, by omega, rfl, by simp⟩
  · simp only [hg, if_false]
    unfold storeAll
    rw [hlen]
    simp only [show B64.encodeLength x.length ≤ cap by omega, if_true, Res.bind_ok, Res.pure_eq]
    exact ⟨_, _, rfl, by omega, rfl, by constructor <;> intro h' <;> simp only [hlen] at * <;> omega⟩

example : B64.encodeBuf [65] 4 = .ok (4, [81, 81, 61, 61]) := by decide +kernel
example : B64.encodeBuf [65] 3 = .ok (0, []) := by decide +kernel
/-- the repaired decoder on the former counterexamples: exact capacity suffices, bytes ≥ 0x80 are rejected -/
theorem C19_b64_fixed_examples :
    B64.decodeBuf [81, 81, 61, 61] 1 = .ok (1, [65]) ∧ B64.decodeBuf [81, 85, 73, 61] 2 = .ok (2, [65, 66])
      ∧ B64.decodeBuf [0x80, 65, 65, 65] 3 = .ok (0, []) ∧ B64.decodeVec [65, 65, 65, 0xC0] = .ok (0, [0, 0]) := by
  decide +kernel

-- OPEN  C19_b64_bounds : ∀ s cap, (B64.decodeBuf s cap).inBounds   (all 256 byte values, every capacity). The argument is
--         "complete bytes before the first '=' ≤ DecodeLength"; not closed in the time available. Executed: every byte
--         value at every position of a two-quad text with exact capacity (thorough), random capacities exact/short/zero.
-- OPEN  C19_b64_roundtrip : ∀ x ≠ [], B64.decodeBuf (encGo x) |x| = .ok (|x|, x) ∧ B64.decodeVec (encGo x) = .ok (|x|, x)
--         (executed by `b64.rt`; the table half — decode table is the inverse of the alphabet — is
--          C19_b64_decode_table_standard)
-- OPEN  C19_url_roundtrip, C19_hex_roundtrip, C19_crc_eq_bitwise, C19_checksum_eq_sum, C19_md5_split,
--         C19_aes_shiftrows_inverse / mixcolumns_inverse / roundtrip: stated in DESIGN §6; not closed in the time
--         available. For these the run compares the implementation with the independent definitions of Spec.lean
--         (bitwise CRC, closed-form checksums, RFC-1321 schedule, GF(2^8) S-box) and with python references.

end Tbox.C19
