/- C19 round 10 — proofs for Alias.lean: the in-place Base64 decoder over one shared memory refines the decoder over
separate buffers whenever the output starts at or before the text; serializer self-append. -/
import TboxModel.C19.Alias
import TboxModel.C19.B64Proofs
namespace Tbox.C19.B64
open Tbox.C19

/-- view of the shared-memory loop result: (w_pos, the w_pos bytes at the output pointer) -/
def viewGo (dst : Nat) (r : Res (Bool × Nat × List UInt8)) : Res (Option (Nat × List UInt8)) :=
  match r with
  | .ok (g, w, m) => .ok (if g then some (w, (m.drop dst).take w) else none)
  | .oob w => .oob w
  | .exc e => .exc e
  | .assertFail => .assertFail

def specGo (r : Res (Option (List UInt8))) : Res (Option (Nat × List UInt8)) :=
  match r with
  | .ok o => .ok (o.map fun o => (o.length, o))
  | .oob w => .oob w
  | .exc e => .exc e
  | .assertFail => .assertFail

theorem take_drop_append_left (A B : List UInt8) (d w : Nat) (h : d + w ≤ A.length) :
    ((A ++ B).drop d).take w = (A.drop d).take w := by
  rw [List.drop_append_of_le_length (by omega), List.take_append_of_le_length (by simp; omega)]

theorem take_drop_set_snoc (A : List UInt8) (d w : Nat) (b : UInt8) (h : d + w < A.length) :
    ((A.set (d + w) b).drop d).take (w + 1) = (A.drop d).take w ++ [b] := by
  rw [List.drop_set, if_neg (by omega), Nat.add_sub_cancel_left, List.take_add_one, List.take_set,
    List.set_eq_of_length_le (by simp; omega)]
  simp [List.getElem?_set]; omega

theorem decIpGo_refines (src dst cap : Nat) (hd : dst ≤ src) (post : List UInt8) :
    ∀ (rest A out : List UInt8) (pos : Nat) (tmp : UInt8),
      A.length = src + pos → out.length ≤ pos → (pos % 4 ≠ 0 → out.length < pos) →
      (A.drop dst).take out.length = out →
      viewGo dst (decIpGo src dst cap rest.length pos tmp out.length (A ++ rest ++ post))
        = specGo (decGo cap pos tmp out rest) := by
  intro rest
  induction rest with
  | nil =>
    intro A out pos tmp hA hle _ hout
    simp only [List.length_nil, decIpGo, decGo, viewGo, specGo, List.append_nil, if_true, Option.map]
    rw [take_drop_append_left _ _ _ _ (by omega), hout]
  | cons c r ih =>
    intro A out pos tmp hA hle hlt hout
    have hrd : (A ++ c :: r ++ post)[src + pos]? = some c := by
      rw [← hA]; simp
    have hre : A ++ c :: r ++ post = (A ++ [c]) ++ r ++ post := by simp
    simp only [List.length_cons]
    unfold decIpGo decGo
    rw [hrd]
    simp only
    by_cases hp : c = pad
    · simp only [hp, if_true, viewGo, specGo, Option.map]
      rw [List.append_assoc, take_drop_append_left _ _ _ _ (by omega), hout]
    · simp only [hp, if_false]
      obtain ⟨lr, hl⟩ := lookup_ok c
      rw [hl]; simp only [Res.bind_ok]
      cases lr with
      | none => simp [viewGo, specGo]
      | some v =>
        simp only
        have hidx : dst + out.length < (A ++ c :: r ++ post).length ∨ pos % 4 = 0 := by
          by_cases h0 : pos % 4 = 0
          · exact Or.inr h0
          · left; have := hlt h0; simp; omega
        have hstore : ∀ b : UInt8, pos % 4 ≠ 0 →
            memStore (A ++ c :: r ++ post) (dst + out.length) b = .ok ((A.set (dst + out.length) b ++ [c]) ++ r ++ post) := by
          intro b h0
          have hl := hlt h0
          unfold memStore
          rw [if_pos (by simp; omega)]
          rw [List.append_assoc A, List.set_append_left _ _ (by omega)]
          simp
        have hnext : ∀ b : UInt8, pos % 4 ≠ 0 →
            (((A.set (dst + out.length) b ++ [c]).drop dst).take (out ++ [b]).length) = out ++ [b] := by
          intro b h0
          have hl := hlt h0
          rw [take_drop_append_left _ _ _ _ (by simp; omega)]
          simp only [List.length_append, List.length_singleton]
          rw [take_drop_set_snoc _ _ _ _ (by omega), hout]
        rcases (by omega : pos % 4 = 0 ∨ pos % 4 = 1 ∨ pos % 4 = 2 ∨ pos % 4 = 3) with h0 | h1 | h2 | h3
        · simp only [h0]
          rw [hre]
          exact ih (A ++ [c]) out (pos + 1) (v <<< 2) (by simp; omega) (by omega) (by intro _; omega)
            (by rw [take_drop_append_left _ _ _ _ (by omega), hout])
        · simp only [h1]
          by_cases hw : out.length < cap
          · simp only [hw, if_true]
            rw [hstore _ (by omega)]; simp only [Res.bind_ok]
            have hl1 : ∀ b : UInt8, out.length + 1 = (out ++ [b]).length := by intro b; simp
            rw [hl1]
            exact ih (A.set (dst + out.length) (tmp ||| (v >>> 4)) ++ [c]) (out ++ [tmp ||| (v >>> 4)]) (pos + 1) (v <<< 4)
              (by simp; omega) (by simp; have := hlt (by omega); omega) (by intro _; simp; have := hlt (by omega); omega)
              (hnext _ (by omega))
          · simp [hw, viewGo, specGo]
        · simp only [h2]
          by_cases hw : out.length < cap
          · simp only [hw, if_true]
            rw [hstore _ (by omega)]; simp only [Res.bind_ok]
            have hl1 : ∀ b : UInt8, out.length + 1 = (out ++ [b]).length := by intro b; simp
            rw [hl1]
            exact ih (A.set (dst + out.length) (tmp ||| (v >>> 2)) ++ [c]) (out ++ [tmp ||| (v >>> 2)]) (pos + 1) (v <<< 6)
              (by simp; omega) (by simp; have := hlt (by omega); omega) (by intro _; simp; have := hlt (by omega); omega)
              (hnext _ (by omega))
          · simp [hw, viewGo, specGo]
        · simp only [h3]
          by_cases hw : out.length < cap
          · simp only [hw, if_true]
            rw [hstore _ (by omega)]; simp only [Res.bind_ok]
            have hl1 : ∀ b : UInt8, out.length + 1 = (out ++ [b]).length := by intro b; simp
            rw [hl1]
            exact ih (A.set (dst + out.length) (tmp ||| v) ++ [c]) (out ++ [tmp ||| v]) (pos + 1) tmp
              (by simp; omega) (by simp; have := hlt (by omega); omega) (by intro _; simp; have := hlt (by omega); omega)
              (hnext _ (by omega))
          · simp [hw, viewGo, specGo]

/-- the whole call: what the caller sees of `Decode(p+src, n, p+dst, cap)` is what `Decode` into a separate buffer gives -/
theorem decodeIp_refines (pre s post : List UInt8) (dst cap : Nat) (hd : dst ≤ pre.length) :
    ipView dst (decodeIp (pre ++ s ++ post) pre.length s.length dst cap) = decodeBuf s cap := by
  have hs : ((pre ++ s ++ post).drop pre.length).take s.length = s := by
    rw [List.append_assoc, List.drop_left, List.take_left]
  unfold decodeIp decodeBuf
  simp only [hs, ne_eq, not_true_eq_false, if_false]
  by_cases h4 : s.length % 4 = 0
  · simp only [h4, not_true_eq_false, if_false]
    by_cases hc : decodeLength s > cap
    · simp [hc, ipView]
    · simp only [hc, if_false]
      have := decIpGo_refines pre.length dst cap hd post s pre [] 0 0 (by simp) (by simp) (by simp) (by simp)
      simp only [List.length_nil] at this
      cases hgo : decGo cap 0 0 [] s with
      | ok o =>
        rw [hgo] at this
        cases hip : decIpGo pre.length dst cap s.length 0 0 0 (pre ++ s ++ post) with
        | ok t =>
          obtain ⟨g, w, m⟩ := t
          rw [hip] at this
          simp only [viewGo, specGo, Res.ok.injEq] at this
          cases o with
          | none =>
            cases g <;> simp at this
            simp [ipView]
          | some o =>
            cases g <;> simp at this
            obtain ⟨h1, h2⟩ := this
            subst h1
            simp [ipView, h2]
        | oob _ => rw [hip] at this; simp [viewGo, specGo] at this
        | exc _ => rw [hip] at this; simp [viewGo, specGo] at this
        | assertFail => rw [hip] at this; simp [viewGo, specGo] at this
      | oob e =>
        rw [hgo] at this
        cases hip : decIpGo pre.length dst cap s.length 0 0 0 (pre ++ s ++ post) with
        | ok t => obtain ⟨g, w, m⟩ := t; rw [hip] at this; simp [viewGo, specGo] at this
        | oob e' => rw [hip] at this; simp [viewGo, specGo] at this; simp [ipView, this]
        | exc _ => rw [hip] at this; simp [viewGo, specGo] at this
        | assertFail => rw [hip] at this; simp [viewGo, specGo] at this
      | exc e =>
        rw [hgo] at this
        cases hip : decIpGo pre.length dst cap s.length 0 0 0 (pre ++ s ++ post) with
        | ok t => obtain ⟨g, w, m⟩ := t; rw [hip] at this; simp [viewGo, specGo] at this
        | oob e' => rw [hip] at this; simp [viewGo, specGo] at this
        | exc _ => rw [hip] at this; simp [viewGo, specGo] at this; simp [ipView, this]
        | assertFail => rw [hip] at this; simp [viewGo, specGo] at this
      | assertFail =>
        rw [hgo] at this
        cases hip : decIpGo pre.length dst cap s.length 0 0 0 (pre ++ s ++ post) with
        | ok t => obtain ⟨g, w, m⟩ := t; rw [hip] at this; simp [viewGo, specGo] at this
        | oob e' => rw [hip] at this; simp [viewGo, specGo] at this
        | exc _ => rw [hip] at this; simp [viewGo, specGo] at this
        | assertFail => simp [ipView]
  · simp [h4, ipView]

/-! ### frame: an in-place call changes nothing outside the output window -/

/-- memory `m` equals `mem` outside the output window `[dst, dst+cap)` -/
def sameOutside (dst cap : Nat) (m mem : List UInt8) : Prop :=
  m.length = mem.length ∧ ∀ i, (i < dst ∨ dst + cap ≤ i) → m[i]? = mem[i]?

theorem sameOutside_refl (dst cap : Nat) (m : List UInt8) : sameOutside dst cap m m := ⟨rfl, fun _ _ => rfl⟩

theorem sameOutside_store (dst cap w : Nat) (m0 mem m1 : List UInt8) (b : UInt8) (hw : w < cap)
    (h : sameOutside dst cap mem m0) (hs : memStore mem (dst + w) b = .ok m1) : sameOutside dst cap m1 m0 := by
  unfold memStore at hs
  split at hs
  · cases hs
    refine ⟨by simp [h.1], fun i hi => ?_⟩
    rw [List.getElem?_set_ne (by omega)]; exact h.2 i hi
  · cases hs

theorem decIpGo_frame (src dst cap : Nat) (m0 : List UInt8) :
    ∀ (k pos : Nat) (tmp : UInt8) (w : Nat) (mem : List UInt8) (g : Bool) (w' : Nat) (m : List UInt8),
      sameOutside dst cap mem m0 → decIpGo src dst cap k pos tmp w mem = .ok (g, w', m) → sameOutside dst cap m m0 := by
  intro k
  induction k with
  | zero => intro pos tmp w mem g w' m h e; simp only [decIpGo, Res.ok.injEq, Prod.mk.injEq] at e; obtain ⟨_, _, rfl⟩ := e; exact h
  | succ k ih =>
    intro pos tmp w mem g w' m h e
    unfold decIpGo at e
    split at e
    · cases e
    · rename_i c _
      split at e
      · simp only [Res.ok.injEq, Prod.mk.injEq] at e; obtain ⟨_, _, rfl⟩ := e; exact h
      · obtain ⟨lr, hl⟩ := lookup_ok c
        rw [hl] at e; simp only [Res.bind_ok] at e
        cases lr with
        | none => simp only [Res.pure_eq, Res.ok.injEq, Prod.mk.injEq] at e; obtain ⟨_, _, rfl⟩ := e; exact h
        | some v =>
          simp only at e
          split at e
          · exact ih _ _ _ _ _ _ _ h e
          all_goals
            split at e
            · rename_i hw
              cases hs : memStore mem (dst + w) _ with
              | ok m1 => rw [hs] at e; simp only [Res.bind_ok] at e; exact ih _ _ _ _ _ _ _ (sameOutside_store dst cap w m0 mem m1 _ hw h hs) e
              | oob _ => rw [hs] at e; cases e
              | exc _ => rw [hs] at e; cases e
              | assertFail => rw [hs] at e; cases e
            · cases e

theorem decodeIp_frame (mem : List UInt8) (src n dst cap r : Nat) (m : List UInt8)
    (e : decodeIp mem src n dst cap = .ok (r, m)) : sameOutside dst cap m mem := by
  unfold decodeIp at e
  simp only at e
  split at e
  · cases e
  · split at e
    · cases e; exact sameOutside_refl _ _ _
    · split at e
      · cases e; exact sameOutside_refl _ _ _
      · cases hgo : decIpGo src dst cap n 0 0 0 mem with
        | ok t =>
          obtain ⟨g, w, m1⟩ := t
          rw [hgo] at e; simp only [Res.bind_ok, Res.pure_eq, Res.ok.injEq, Prod.mk.injEq] at e
          obtain ⟨_, rfl⟩ := e
          exact decIpGo_frame src dst cap mem n 0 0 0 mem g w m1 (sameOutside_refl _ _ _) hgo
        | oob _ => rw [hgo] at e; cases e
        | exc _ => rw [hgo] at e; cases e
        | assertFail => rw [hgo] at e; cases e
end Tbox.C19.B64
