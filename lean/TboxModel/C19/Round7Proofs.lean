/- C19 round 7 — helper lemmas for the chained CRC law, the MD5 object life cycle and bit counter, the widths of the
(de)serializer and the URL host / port reader. Property theorems are in Props.lean. -/
import TboxModel.C19.Model
import TboxModel.C19.Md5Proofs
import TboxModel.C19.Md5SpecProofs

namespace Tbox.C19.Md5
open Tbox.C19

/-- on a finished object every script step aborts -/
theorem runScript_finished (P : Params) (o : Obj) (h : o.finished = true) (steps : List Step) :
    runScript P o steps = ([], !steps.isEmpty) := by
  cases steps with
  | nil => rfl
  | cons s r =>
    cases s with
    | none => simp [runScript, Obj.finish, h]
    | some d => simp [runScript, Obj.update, h]

/-- updates, then the first finish, then anything: one digest — that of the updates — and an abort iff anything follows -/
theorem runScript_updates (P : Params) (us : List (List UInt8)) (rest : List Step) :
    ∀ o : Obj, o.finished = false →
      runScript P o (us.map some ++ none :: rest) = ([finish P (us.foldl (update P) o.ctx)], !rest.isEmpty) := by
  induction us with
  | nil =>
    intro o h
    simp only [List.map_nil, List.nil_append, List.foldl_nil, runScript, Obj.finish, h, Bool.false_eq_true, if_false]
    rw [runScript_finished P _ rfl rest]
  | cons u r ih =>
    intro o h
    simp only [List.map_cons, List.cons_append, List.foldl_cons, runScript, Obj.update, h, Bool.false_eq_true, if_false]
    exact ih _ rfl

theorem runScript_no_finish (P : Params) (us : List (List UInt8)) :
    ∀ o : Obj, o.finished = false → runScript P o (us.map some) = ([], false) := by
  induction us with
  | nil => intro o _; rfl
  | cons u r ih =>
    intro o h
    simp only [List.map_cons, runScript, Obj.update, h, Bool.false_eq_true, if_false]
    exact ih _ rfl

theorem finishPad_length (P : Params) (c : Ctx) : (finishPad P c).length < 2 ^ 61 := by
  unfold finishPad
  simp only [List.length_take]
  split <;> omega

theorem finishBits_length (c : Ctx) : (finishBits c).length < 2 ^ 61 := by
  unfold finishBits; rw [unwords2_length]; decide

/-- a second `finish` with the assertion compiled out continues from the padded context -/
theorem finishTwice_eq (P : Params) (pieces : List (List UInt8)) :
    finishTwiceRelease P (pieces.foldl (update P) (init P))
      = digestSplit P (pieces ++ [finishPad P (pieces.foldl (update P) (init P)), finishBits (pieces.foldl (update P) (init P))]) := by
  unfold finishTwiceRelease finishCtx digestSplit
  rw [List.foldl_append]; rfl

/-- the two 32-bit counter words hold the bit count of everything fed so far, modulo 2^64 -/
theorem count_exact (P : Params) (pieces : List (List UInt8)) (hp : ∀ p ∈ pieces, p.length < 2 ^ 61) :
    (pieces.foldl (update P) (init P)).count1.toNat * 2 ^ 32 + (pieces.foldl (update P) (init P)).count0.toNat
      = 8 * pieces.flatten.length % 2 ^ 64 := by
  have r := repr_foldl P pieces _ [] (repr_init P) hp
  simp only [List.nil_append] at r
  obtain ⟨M, tail, _, _, _, _, _, _, h0, h1⟩ := r
  rw [h0, h1]
  unfold cnt0 cnt1
  simp only [UInt32.toNat_ofNat']
  omega

end Tbox.C19.Md5

namespace Tbox.C19.Crc
open Tbox.C19

theorem crc32_append (a b : List UInt8) (seed : UInt32) : crc32 (a ++ b) seed = crc32 b (~~~ crc32 a seed) := by
  unfold crc32; rw [List.foldl_append, UInt32.not_not]

theorem crc16_append (a b : List UInt8) (seed : UInt16) : crc16 (a ++ b) seed = crc16 b (crc16 a seed) := by
  unfold crc16; rw [List.foldl_append]

end Tbox.C19.Crc

namespace Tbox.C19.Ser
open Tbox.C19

theorem checkSizeW_exact (size pos need : Nat) (hs : size < 2 ^ 64) (hp : pos ≤ size) :
    checkSizeW size pos need = decide (pos + need ≤ size) := by
  unfold checkSizeW
  have : (size + 2 ^ 64 - pos) % 2 ^ 64 = size - pos := by omega
  rw [this]
  by_cases h : pos + need ≤ size
  · simp only [h, decide_true, decide_eq_true_eq]; omega
  · simp only [h, decide_false, decide_eq_false_iff_not]; omega

theorem skip_pos (d : D) (n : Nat) (hp : d.pos ≤ d.data.length) : (d.skip n).2.pos ≤ (d.skip n).2.data.length := by
  unfold D.skip; split
  · simpa using ‹d.pos + n ≤ d.data.length›
  · exact hp

theorem setPos_pos (d : D) (p : Nat) (hp : d.pos ≤ d.data.length) : (d.setPos p).2.pos ≤ (d.setPos p).2.data.length := by
  unfold D.setPos; split
  · simp; omega
  · exact hp

end Tbox.C19.Ser

namespace Tbox.C19.B64
open Tbox.C19

theorem cstr_no_nul (s : List UInt8) (h : ∀ c ∈ s, c ≠ 0) : cstr s = s := by
  unfold cstr
  induction s with
  | nil => rfl
  | cons a r ih =>
    have ha : a ≠ 0 := h a (by simp)
    simp only [List.takeWhile_cons, ne_eq, ha, not_false_eq_true, decide_true, if_true]
    rw [ih (fun c hc => h c (by simp [hc]))]

theorem cstr_at_nul (pre post : List UInt8) (h : ∀ c ∈ pre, c ≠ 0) : cstr (pre ++ 0 :: post) = pre := by
  unfold cstr
  induction pre with
  | nil => simp
  | cons a r ih =>
    have ha : a ≠ 0 := h a (by simp)
    simp only [List.cons_append, List.takeWhile_cons, ne_eq, ha, not_false_eq_true, decide_true, if_true]
    rw [ih (fun c hc => h c (by simp [hc]))]

end Tbox.C19.B64

namespace Tbox.C19.Url
open Tbox.C19

theorem digit_facts (c : UInt8) (h : isDigit c = true) : isSpace c = false ∧ c ≠ 45 ∧ c ≠ 43 ∧ 48 ≤ c.toNat ∧ c.toNat ≤ 57 := by
  unfold isDigit at h
  simp only [decide_eq_true_eq, UInt8.le_iff_toNat_le] at h
  have h48 : (48 : UInt8).toNat = 48 := rfl
  have h57 : (57 : UInt8).toNat = 57 := rfl
  rw [h48, h57] at h
  refine ⟨?_, ?_, ?_, h.1, h.2⟩
  · unfold isSpace
    simp only [Bool.decide_or, Bool.or_eq_false_iff, decide_eq_false_iff_not, UInt8.le_iff_toNat_le, ← UInt8.toNat_inj]
    have h32 : (32 : UInt8).toNat = 32 := rfl
    have h9 : (9 : UInt8).toNat = 9 := rfl
    have h13 : (13 : UInt8).toNat = 13 := rfl
    rw [h32, h9, h13]; omega
  · intro e; rw [e] at h; have : (45 : UInt8).toNat = 45 := rfl; omega
  · intro e; rw [e] at h; have : (43 : UInt8).toNat = 43 := rfl; omega

theorem takeWhile_all {α} (p : α → Bool) (l : List α) (h : ∀ c ∈ l, p c = true) : l.takeWhile p = l := by
  induction l with
  | nil => rfl
  | cons a r ih => simp only [List.takeWhile_cons, h a (by simp), if_true]; rw [ih (fun c hc => h c (by simp [hc]))]

/-- `std::stoi` on a plain digit string -/
theorem stoi_digits (ds : List UInt8) (hne : ds ≠ []) (hd : ∀ c ∈ ds, isDigit c = true) :
    stoi ds = if digitsVal ds > 2 ^ 31 - 1 then none else some (Int.ofNat (digitsVal ds)) := by
  cases ds with
  | nil => exact absurd rfl hne
  | cons c r =>
    obtain ⟨hsp, h45, h43, _, _⟩ := digit_facts c (hd c (by simp))
    unfold stoi
    have hdw : (c :: r).dropWhile isSpace = c :: r := by simp [hsp]
    rw [hdw]
    have hm : stoiSign (c :: r) = (false, c :: r) := by
      unfold stoiSign
      split
      · rename_i heq; injection heq with h1 _; exact absurd h1 h45
      · rename_i heq; injection heq with h1 _; exact absurd h1 h43
      · rfl
    simp only [hm]
    rw [takeWhile_all isDigit (c :: r) hd]
    simp

theorem digitsVal_append (a : List UInt8) (d : UInt8) : digitsVal (a ++ [d]) = digitsVal a * 10 + (d.toNat - 48) := by
  unfold digitsVal; rw [List.foldl_append]; rfl

theorem decimal_spec (n : Nat) : decimal n ≠ [] ∧ (∀ c ∈ decimal n, isDigit c = true) ∧ digitsVal (decimal n) = n := by
  induction n using Nat.strongRecOn with
  | _ n ih =>
    have dig : ∀ k, k < 10 → isDigit (UInt8.ofNat (48 + k)) = true ∧ (UInt8.ofNat (48 + k)).toNat - 48 = k := by
      intro k hk
      have ht : (UInt8.ofNat (48 + k)).toNat = 48 + k := by simp only [UInt8.toNat_ofNat']; omega
      refine ⟨?_, by omega⟩
      unfold isDigit
      simp only [decide_eq_true_eq, UInt8.le_iff_toNat_le, ht]
      have h48 : (48 : UInt8).toNat = 48 := rfl
      have h57 : (57 : UInt8).toNat = 57 := rfl
      rw [h48, h57]; omega
    rw [decimal]
    by_cases h : n < 10
    · rw [if_pos h]
      obtain ⟨d1, d2⟩ := dig n h
      refine ⟨by simp, ?_, ?_⟩
      · intro c hc; simp only [List.mem_singleton] at hc; rw [hc]; exact d1
      · simp only [digitsVal, List.foldl_cons, List.foldl_nil]; omega
    · rw [if_neg h]
      obtain ⟨i1, i2, i3⟩ := ih (n / 10) (by omega)
      obtain ⟨d1, d2⟩ := dig (n % 10) (by omega)
      refine ⟨by simp, ?_, ?_⟩
      · intro c hc
        rcases List.mem_append.mp hc with hc | hc
        · exact i2 c hc
        · simp only [List.mem_singleton] at hc; rw [hc]; exact d1
      · rw [digitsVal_append, i3, d2]; omega

end Tbox.C19.Url
