/- C19 — helper lemmas of round 8: histories on one AES object, CRC call sequences, scalable integers in one buffer,
two MD5 objects used in turns, Base64 decode into a used buffer, URL host print / parse round trip. -/
import TboxModel.C19.AesSpecProofs
import TboxModel.C19.Round7Proofs
import TboxModel.C19.SIntProofs
import TboxModel.C19.B64Proofs
import TboxModel.C19.UrlHexProofs

/-! ## AES: histories on one object -/
namespace Tbox.C19.Aes
open Tbox.C19 Tbox.C19.Spec

/-- an object whose round keys are the expansion of `k` computes FIPS-197 under `k` -/
theorem obj_cipher (o : Obj) (k b : List UInt8) (ho : o.w = keyExpansion gen k) (hk : k.length = 16) (hb : b.length = 16) :
    o.cipher gen b = aesCipher k b ∧ o.invCipher gen b = aesInvCipher k b := by
  constructor
  · rw [← cipher_eq_spec k b hk hb]; unfold Obj.cipher cipher; rw [ho]
  · rw [← invCipher_eq_spec k b hk hb]; unfold Obj.invCipher invCipher; rw [ho]

/-- every history: the outputs are those of the reference under the last key installed -/
theorem run_ref : ∀ (ops : List Op) (o : Obj) (k : List UInt8), o.w = keyExpansion gen k → k.length = 16 →
    (∀ op ∈ ops, op.wf = true) → o.run gen ops = refRun aesCipher aesInvCipher k ops := by
  intro ops
  induction ops with
  | nil => intro o k _ _ _; rfl
  | cons op r ih =>
    intro o k ho hk hw
    have hr : ∀ op ∈ r, op.wf = true := fun x hx => hw x (by simp [hx])
    have h0 := hw op (by simp)
    cases op with
    | setKey k' =>
      have hk' : k'.length = 16 := by simpa [Op.wf] using h0
      simp only [Obj.run, Obj.step, refRun]
      exact ih (o.setKey gen k') k' rfl hk' hr
    | enc b =>
      have hb : b.length = 16 := by simpa [Op.wf] using h0
      simp only [Obj.run, Obj.step, refRun]
      rw [(obj_cipher o k b ho hk hb).1, ih o k ho hk hr]
    | dec b =>
      have hb : b.length = 16 := by simpa [Op.wf] using h0
      simp only [Obj.run, Obj.step, refRun]
      rw [(obj_cipher o k b ho hk hb).2, ih o k ho hk hr]

/-- folding `setKey` over a non-empty key sequence leaves the expansion of the LAST key, whatever the object was -/
theorem setKeys_last (o : Obj) (ks : List (List UInt8)) (k : List UInt8) :
    ((ks ++ [k]).foldl (Obj.setKey gen) o).w = keyExpansion gen k := by
  rw [List.foldl_append]; rfl

theorem foldl_snoc_getD0 {α} (f : List α → UInt8 → α) (d : α) : ∀ (rcs : List UInt8) (ws : List α), ws ≠ [] →
    (rcs.foldl (fun ws rc => ws ++ [f ws rc]) ws).getD 0 d = ws.getD 0 d := by
  intro rcs
  induction rcs with
  | nil => intro ws _; rfl
  | cons rc r ih =>
    intro ws hne
    rw [List.foldl_cons, ih _ (by simp)]
    cases ws with
    | nil => exact absurd rfl hne
    | cons a t => rfl

/-- `w[0]` is the transposed key: read in column order it is the key itself -/
theorem memCol_zero (o : Obj) (k : List UInt8) (ho : o.w = keyExpansion gen k) (hk : k.length = 16) :
    o.memCol 0 = k ∧ o.memRow 0 = transpose k := by
  have h0 : wAt o.w 0 = transpose k := by
    rw [ho]; unfold wAt keyExpansion
    exact foldl_snoc_getD0 (fun ws rc => nextKey gen (ws.getLastD (transpose k)) rc) _ _ [transpose k] (by simp)
  exact ⟨by unfold Obj.memCol; rw [h0, transpose_transpose k hk], h0⟩

/-- the shortcut that compares in the right order is a correct `setKey` on every object that holds some key -/
theorem setKeySkipCol_sound (o : Obj) (k key : List UInt8) (ho : o.w = keyExpansion gen k) (hk : k.length = 16) :
    (o.setKeySkipCol gen key).w = keyExpansion gen key := by
  unfold Obj.setKeySkipCol
  by_cases h : o.memCol 0 = key
  · rw [if_pos h, ho]
    have := (memCol_zero o k ho hk).1
    rw [← h, this]
  · rw [if_neg h]

theorem outsOf_cons_same (w : Bool) (d : List UInt8) (r : List (Bool × List UInt8)) :
    outsOf w ((w, d) :: r) = d :: outsOf w r := by simp [outsOf]
theorem outsOf_cons_other (w : Bool) (d : List UInt8) (r : List (Bool × List UInt8)) :
    outsOf (!w) ((w, d) :: r) = outsOf (!w) r := by cases w <;> simp [outsOf]

/-- two objects used in turns share nothing: each produces exactly the outputs of its own calls -/
theorem runTwo_proj (T : Tables) : ∀ (s : List (Bool × Op)) (a b : Obj),
    outsOf false (runTwo T a b s) = a.run T (projOps false s) ∧ outsOf true (runTwo T a b s) = b.run T (projOps true s) := by
  intro s
  induction s with
  | nil => intro a b; exact ⟨rfl, rfl⟩
  | cons x r ih =>
    intro a b
    obtain ⟨w, op⟩ := x
    cases w with
    | false =>
      have p1 : projOps false ((false, op) :: r) = op :: projOps false r := by simp [projOps]
      have p2 : projOps true ((false, op) :: r) = projOps true r := by simp [projOps]
      rw [p1, p2]
      simp only [runTwo, Obj.run, Bool.false_eq_true, if_false]
      cases hs : a.step T op with
      | mk o' out =>
        cases out with
        | none => simp only; exact ih o' b
        | some v =>
          simp only
          obtain ⟨i1, i2⟩ := ih o' b
          exact ⟨by rw [outsOf_cons_same false, i1], by rw [show outsOf true ((false, v) :: runTwo T o' b r) = outsOf true (runTwo T o' b r) from
            outsOf_cons_other false v _, i2]⟩
    | true =>
      have p1 : projOps true ((true, op) :: r) = op :: projOps true r := by simp [projOps]
      have p2 : projOps false ((true, op) :: r) = projOps false r := by simp [projOps]
      rw [p1, p2]
      simp only [runTwo, Obj.run, if_true]
      cases hs : b.step T op with
      | mk o' out =>
        cases out with
        | none => simp only; exact ih a o'
        | some v =>
          simp only
          obtain ⟨i1, i2⟩ := ih a o'
          exact ⟨by rw [show outsOf false ((true, v) :: runTwo T a o' r) = outsOf false (runTwo T a o' r) from
            outsOf_cons_other true v _, i1], by rw [outsOf_cons_same true, i2]⟩

end Tbox.C19.Aes

/-! ## CRC: call sequences -/
namespace Tbox.C19.Crc
open Tbox.C19

theorem seq32_length (seed : UInt32) (d : List UInt8) (r : List (Link × List UInt8)) : (seq32 seed d r).length = r.length + 1 := by
  induction r generalizing seed d with
  | nil => rfl
  | cons x r ih => obtain ⟨l, d'⟩ := x; simp [seq32, ih]

theorem seq16_length (seed : UInt16) (d : List UInt8) (r : List (Link × List UInt8)) : (seq16 seed d r).length = r.length + 1 := by
  induction r generalizing seed d with
  | nil => rfl
  | cons x r ih => obtain ⟨l, d'⟩ := x; simp [seq16, ih]

/-- seeding every next call with the complement of the previous result: the last result is the CRC-32 of the concatenation -/
theorem seq32_chain (seed : UInt32) (d : List UInt8) (ps : List (List UInt8)) :
    (seq32 seed d (ps.map (fun p => (Link.notPrev, p)))).getLast? = some (crc32 (d ++ ps.flatten) seed) := by
  induction ps generalizing seed d with
  | nil => simp [seq32]
  | cons p ps ih =>
    simp only [List.map_cons, seq32, List.getLast?_cons, ih, Link.seed32, List.flatten_cons, Option.getD_some]
    rw [crc32_append d (p ++ ps.flatten) seed]

/-- seeding every next call with the previous result: the last result is the CRC-16 of the concatenation -/
theorem seq16_chain (seed : UInt16) (d : List UInt8) (ps : List (List UInt8)) :
    (seq16 seed d (ps.map (fun p => (Link.prev, p)))).getLast? = some (crc16 (d ++ ps.flatten) seed) := by
  induction ps generalizing seed d with
  | nil => simp [seq16]
  | cons p ps ih =>
    simp only [List.map_cons, seq16, List.getLast?_cons, ih, Link.seed16, List.flatten_cons, Option.getD_some]
    rw [crc16_append d (p ++ ps.flatten) seed]

end Tbox.C19.Crc

/-! ## scalable integer: what follows an encoding does not matter -/
namespace Tbox.C19.SInt
open Tbox.C19

theorem parseGo_append (lim : Nat) (rest : List UInt8) : ∀ (bs : List UInt8) (i rb rv : Nat) (r : Nat × Nat),
    parseGo lim i rb rv bs = some r → parseGo lim i rb rv (bs ++ rest) = some r := by
  intro bs
  induction bs with
  | nil => intro i rb rv r h; simp [parseGo] at h
  | cons b t ih =>
    intro i rb rv r h
    simp only [List.cons_append, parseGo] at h ⊢
    by_cases hi : i < lim
    · simp only [hi, if_true] at h ⊢
      by_cases hb : b.toNat < 128
      · simp only [hb, if_true] at h ⊢; exact h
      · simp only [hb, if_false] at h ⊢; exact ih _ _ _ r h
    · simp only [hi, if_false] at h; exact absurd h (by simp)

theorem parse_append (bs rest : List UInt8) (n v : Nat) (h : parse bs = .ok (n, some v)) :
    parse (bs ++ rest) = .ok (n, some v) := by
  unfold parse parseWith at h ⊢
  cases hg : parseGo 10 0 1 0 bs with
  | none => rw [hg] at h; simp at h
  | some p => rw [hg] at h; rw [parseGo_append 10 rest bs 0 1 0 p hg]; exact h

theorem poke_length (mem : List UInt8) (off : Nat) (d : List UInt8) (h : off + d.length ≤ mem.length) :
    (poke mem off d).length = mem.length := by
  unfold poke; simp; omega

theorem poke_take (mem : List UInt8) (off : Nat) (d : List UInt8) (h : off ≤ mem.length) :
    (poke mem off d).take off = mem.take off := by
  unfold poke
  rw [List.append_assoc, List.take_left' (by simp; omega)]

theorem poke_drop (mem : List UInt8) (off : Nat) (d : List UInt8) (h : off ≤ mem.length) :
    (poke mem off d).drop off = d ++ mem.drop (off + d.length) := by
  unfold poke
  rw [List.append_assoc, List.drop_left' (by simp; omega)]

end Tbox.C19.SInt

/-! ## MD5: two objects used in turns share nothing -/
namespace Tbox.C19.Md5
open Tbox.C19

/-- the digests an interleaved run produces for object `w` -/
def digestsOf (w : Bool) (r : List (Bool × List UInt8)) : List (List UInt8) := (r.filter (fun x => x.1 = w)).map (·.2)

theorem proj_cons_same (w : Bool) (st : Step) (s : List Step2) : proj w ((w, st) :: s) = st :: proj w s := by
  simp [proj]
theorem proj_cons_other (w : Bool) (st : Step) (s : List Step2) : proj (!w) ((w, st) :: s) = proj (!w) s := by
  cases w <;> simp [proj]

theorem digestsOf_cons_same (w : Bool) (d : List UInt8) (r : List (Bool × List UInt8)) :
    digestsOf w ((w, d) :: r) = d :: digestsOf w r := by simp [digestsOf]
theorem digestsOf_cons_other (w : Bool) (d : List UInt8) (r : List (Bool × List UInt8)) :
    digestsOf (!w) ((w, d) :: r) = digestsOf (!w) r := by cases w <;> simp [digestsOf]

/-- if neither object's own steps abort, the interleaved run does not abort and gives each object exactly the digests of its own steps -/
theorem runTwo_proj (P : Params) : ∀ (s : List Step2) (a b : Obj),
    (runScript P a (proj false s)).2 = false → (runScript P b (proj true s)).2 = false →
    (runTwo P a b s).2 = false
      ∧ digestsOf false (runTwo P a b s).1 = (runScript P a (proj false s)).1
      ∧ digestsOf true (runTwo P a b s).1 = (runScript P b (proj true s)).1 := by
  intro s
  induction s with
  | nil => intro a b _ _; exact ⟨rfl, rfl, rfl⟩
  | cons x r ih =>
    intro a b ha hb
    obtain ⟨w, st⟩ := x
    cases w with
    | false =>
      rw [proj_cons_same false st r] at ha
      rw [show proj true ((false, st) :: r) = proj true r from proj_cons_other false st r] at hb ⊢
      rw [proj_cons_same false st r]
      cases st with
      | some d =>
        simp only [runTwo, runScript, Bool.false_eq_true, if_false] at ha ⊢
        cases hu : a.update P d with
        | ok o' => rw [hu] at ha; simp only at ha ⊢; exact ih o' b ha hb
        | oob _ => rw [hu] at ha; simp at ha
        | exc _ => rw [hu] at ha; simp at ha
        | assertFail => rw [hu] at ha; simp at ha
      | none =>
        simp only [runTwo, runScript, Bool.false_eq_true, if_false] at ha ⊢
        cases hu : a.finish P with
        | ok p =>
          obtain ⟨dg, o'⟩ := p
          rw [hu] at ha; simp only at ha ⊢
          obtain ⟨i1, i2, i3⟩ := ih o' b ha hb
          refine ⟨i1, ?_, ?_⟩
          · rw [digestsOf_cons_same false, i2]
          · rw [show digestsOf true ((false, dg) :: (runTwo P o' b r).1) = digestsOf true (runTwo P o' b r).1 from
              digestsOf_cons_other false dg _, i3]
        | oob _ => rw [hu] at ha; simp at ha
        | exc _ => rw [hu] at ha; simp at ha
        | assertFail => rw [hu] at ha; simp at ha
    | true =>
      rw [proj_cons_same true st r] at hb
      rw [show proj false ((true, st) :: r) = proj false r from proj_cons_other true st r] at ha ⊢
      rw [proj_cons_same true st r]
      cases st with
      | some d =>
        simp only [runTwo, runScript, if_true] at hb ⊢
        cases hu : b.update P d with
        | ok o' => rw [hu] at hb; simp only at hb ⊢; exact ih a o' ha hb
        | oob _ => rw [hu] at hb; simp at hb
        | exc _ => rw [hu] at hb; simp at hb
        | assertFail => rw [hu] at hb; simp at hb
      | none =>
        simp only [runTwo, runScript, if_true] at hb ⊢
        cases hu : b.finish P with
        | ok p =>
          obtain ⟨dg, o'⟩ := p
          rw [hu] at hb; simp only at hb ⊢
          obtain ⟨i1, i2, i3⟩ := ih a o' ha hb
          refine ⟨i1, ?_, ?_⟩
          · rw [show digestsOf false ((true, dg) :: (runTwo P a o' r).1) = digestsOf false (runTwo P a o' r).1 from
              digestsOf_cons_other true dg _, i2]
          · rw [digestsOf_cons_same true, i3]
        | oob _ => rw [hu] at hb; simp at hb
        | exc _ => rw [hu] at hb; simp at hb
        | assertFail => rw [hu] at hb; simp at hb

end Tbox.C19.Md5

/-! ## URL host: print then parse -/
namespace Tbox.C19.Url
open Tbox.C19

theorem find_none (c : UInt8) : ∀ l : List UInt8, (∀ x ∈ l, x ≠ c) → find c l = none := by
  intro l
  induction l with
  | nil => intro _; rfl
  | cons a t ih =>
    intro h
    have ha : a ≠ c := h a (by simp)
    simp only [find, ha, if_false, ih (fun x hx => h x (by simp [hx])), Option.map_none]

theorem find_append (c : UInt8) (post : List UInt8) : ∀ pre : List UInt8, (∀ x ∈ pre, x ≠ c) →
    find c (pre ++ post) = (find c post).map (· + pre.length) := by
  intro pre
  induction pre with
  | nil => intro _; simp
  | cons a t ih =>
    intro h
    have ha : a ≠ c := h a (by simp)
    simp only [List.cons_append, find, ha, if_false, ih (fun x hx => h x (by simp [hx])), Option.map_map, List.length_cons]
    congr 1

theorem find_first (c : UInt8) (pre post : List UInt8) (h : ∀ x ∈ pre, x ≠ c) : find c (pre ++ c :: post) = some pre.length := by
  rw [find_append c _ pre h]; simp [find]

theorem decGo_plain : ∀ (s : List UInt8) (tmp : UInt8) (out : List UInt8), (∀ x ∈ s, x ≠ 37) →
    decGo .none tmp out s = .ok (out ++ s) := by
  intro s
  induction s with
  | nil => intro tmp out _; simp [decGo]
  | cons a t ih =>
    intro tmp out h
    have ha : a ≠ 37 := h a (by simp)
    rw [decGo]; simp only [ha, if_false]
    rw [ih tmp _ (fun x hx => h x (by simp [hx]))]; simp

theorem decodeOpt_plain (s : List UInt8) (h : ∀ x ∈ s, x ≠ 37) : decodeOpt s = some s := by
  unfold decodeOpt decode; rw [decGo_plain s 0 [] h]; simp

theorem tokOk_spec (b : List UInt8) (h : tokOk b = true) : (∀ x ∈ b, x ≠ 37) ∧ (∀ x ∈ b, x ≠ 64) ∧ (∀ x ∈ b, x ≠ 58) := by
  unfold tokOk at h
  rw [List.all_eq_true] at h
  refine ⟨fun x hx => ?_, fun x hx => ?_, fun x hx => ?_⟩ <;> have := h x hx <;> simp at this <;> simp [this]

theorem digit_not (c : UInt8) (h : isDigit c = true) : c ≠ 64 ∧ c ≠ 58 := by
  have := digit_facts c h
  constructor <;> intro e <;> subst e <;> simp at this

/-- the printed port part: nothing, or ':' and the decimal digits -/
def portPart (p : Nat) : List UInt8 := if p = 0 then [] else 58 :: decimal p

theorem portPart_no_at (p : Nat) : ∀ x ∈ portPart p, x ≠ 64 := by
  unfold portPart
  by_cases h : p = 0
  · simp [h]
  · rw [if_neg h]
    intro x hx
    rcases List.mem_cons.mp hx with e | e
    · rw [e]; decide
    · exact (digit_not x ((decimal_spec p).2.1 x e)).1

/-- second half of the parser on `… host[:port]` printed by `UrlHostToString` -/
theorem parseHostTail_print (h1 : Host) (s : List UInt8) (start : Nat) (host : List UInt8) (port : Nat)
    (hs : start ≤ s.length) (hd : s.drop start = host ++ portPart port) (hh : tokOk host = true) (hp : port < 65536) :
    parseHostTail h1 s start = (true, { h1 with host := host, port := port }) := by
  obtain ⟨h37, _, h58⟩ := tokOk_spec host hh
  unfold parseHostTail
  rw [if_neg (by omega)]
  unfold findFrom
  rw [hd]
  unfold portPart
  by_cases h0 : port = 0
  · subst h0
    simp only [if_true, List.append_nil]
    rw [find_none 58 host h58]
    simp only [Option.map_none]
    rw [decodeOpt_plain host h37]
  · rw [if_neg h0, find_first 58 host (decimal port) h58]
    simp only [Option.map_some]
    rw [show host.length + start - start = host.length by omega]
    rw [List.take_left' rfl, decodeOpt_plain host h37]
    simp only
    have hdrop : s.drop (host.length + start + 1) = decimal port := by
      have : s.drop (host.length + start + 1) = (s.drop start).drop (host.length + 1) := by
        rw [List.drop_drop]; congr 1; omega
      rw [this, hd]; unfold portPart; rw [if_neg h0]
      rw [show host ++ 58 :: decimal port = (host ++ [58]) ++ decimal port by simp]
      exact List.drop_left' (by simp)
    rw [hdrop]
    obtain ⟨d1, d2, d3⟩ := decimal_spec port
    have hst := stoi_digits (decimal port) d1 d2
    rw [d3, if_neg (by omega)] at hst
    rw [hst]
    simp only [toU16, Int.ofNat_eq_natCast]
    congr 2
    omega

/-- the printed `user[:password]@` part -/
def userPart (h : Host) : List UInt8 :=
  if h.user.isEmpty then [] else h.user ++ (if h.password.isEmpty then [] else 58 :: h.password) ++ [64]

theorem hostToString_parts (h : Host) : hostToString h = userPart h ++ (h.host ++ portPart h.port) := by
  unfold hostToString userPart portPart; simp

/-- first half of the parser on a printed well-formed host value -/
theorem parseHostUser_print (old h : Host) (hw : h.wf = true) :
    parseHostUserW true old (hostToString h) = some (⟨h.user, h.password, old.host, old.port⟩, (userPart h).length) := by
  unfold Host.wf at hw
  simp only [Bool.and_eq_true, Bool.or_eq_true, Bool.not_eq_true', decide_eq_true_eq] at hw
  obtain ⟨⟨⟨⟨hu, hpw⟩, hh⟩, hup⟩, _⟩ := hw
  obtain ⟨u37, u64, u58⟩ := tokOk_spec _ hu
  obtain ⟨p37, p64, p58⟩ := tokOk_spec _ hpw
  obtain ⟨_, h64, _⟩ := tokOk_spec _ hh
  have rest64 : ∀ x ∈ h.host ++ portPart h.port, x ≠ 64 := by
    intro x hx
    rcases List.mem_append.mp hx with e | e
    · exact h64 x e
    · exact portPart_no_at _ x e
  rw [hostToString_parts]
  unfold parseHostUserW
  by_cases hue : h.user.isEmpty = true
  · -- no user: nothing before the host, no '@' anywhere
    have hu0 : h.user = [] := by simpa using hue
    have hp0 : h.password = [] := by
      rcases hup with e | e
      · rw [hue] at e; exact absurd e (by simp)
      · simpa using e
    have hU : userPart h = [] := by unfold userPart; rw [if_pos hue]
    rw [hU, List.nil_append, find_none 64 _ rest64]
    simp [hu0, hp0]
  · have hU : userPart h = h.user ++ (if h.password.isEmpty then [] else 58 :: h.password) ++ [64] := by
      unfold userPart; rw [if_neg hue]
    by_cases hpe : h.password.isEmpty = true
    · -- user only
      have hp0 : h.password = [] := by simpa using hpe
      have hU' : userPart h = h.user ++ [64] := by rw [hU, if_pos hpe]; simp
      rw [hU']
      have e1 : h.user ++ [64] ++ (h.host ++ portPart h.port) = h.user ++ 64 :: (h.host ++ portPart h.port) := by simp
      rw [e1, find_first 64 h.user _ u64]
      simp only
      rw [find_append 58 _ h.user u58]
      have e2 : find 58 (64 :: (h.host ++ portPart h.port)) = (find 58 (h.host ++ portPart h.port)).map (· + 1) := by
        simp [find]
      rw [e2, List.take_left' rfl, decodeOpt_plain h.user u37]
      cases find 58 (h.host ++ portPart h.port) with
      | none => simp [hp0]
      | some j =>
        simp only [Option.map_some]
        rw [if_pos (by omega)]
        simp [hp0]
    · -- user and password
      have hU' : userPart h = h.user ++ 58 :: h.password ++ [64] := by rw [hU, if_neg hpe]
      rw [hU']
      have e1 : h.user ++ 58 :: h.password ++ [64] ++ (h.host ++ portPart h.port)
          = (h.user ++ 58 :: h.password) ++ 64 :: (h.host ++ portPart h.port) := by simp
      have e2 : (h.user ++ 58 :: h.password) ++ 64 :: (h.host ++ portPart h.port)
          = h.user ++ 58 :: (h.password ++ 64 :: (h.host ++ portPart h.port)) := by simp
      have pre64 : ∀ x ∈ h.user ++ 58 :: h.password, x ≠ 64 := by
        intro x hx
        rcases List.mem_append.mp hx with e | e
        · exact u64 x e
        · rcases List.mem_cons.mp e with e | e
          · rw [e]; decide
          · exact p64 x e
      rw [e1, find_first 64 _ _ pre64]
      simp only
      rw [e2, find_first 58 h.user _ u58]
      simp only
      rw [if_neg (by simp)]
      rw [List.take_left' rfl, decodeOpt_plain h.user u37]
      simp only
      have e3 : (h.user ++ 58 :: (h.password ++ 64 :: (h.host ++ portPart h.port))).drop (h.user.length + 1)
          = h.password ++ 64 :: (h.host ++ portPart h.port) := by
        rw [show h.user ++ 58 :: (h.password ++ 64 :: (h.host ++ portPart h.port))
              = (h.user ++ [58]) ++ (h.password ++ 64 :: (h.host ++ portPart h.port)) by simp]
        exact List.drop_left' (by simp)
      rw [e3]
      have e4 : (h.user ++ 58 :: h.password).length - h.user.length - 1 = h.password.length := by simp
      rw [e4, List.take_left' rfl, decodeOpt_plain h.password p37]
      simp; omega

/-- `StringToUrlHost (UrlHostToString h, obj) = true` and `obj = h` afterwards, for every well-formed host value and whatever `obj` held -/
theorem parseHost_print (old h : Host) (hw : h.wf = true) : parseHostInto old (hostToString h) = (true, h) := by
  unfold parseHostInto parseHostIntoW
  rw [parseHostUser_print old h hw]
  simp only
  have hw' := hw
  unfold Host.wf at hw'
  simp only [Bool.and_eq_true, decide_eq_true_eq] at hw'
  rw [parseHostTail_print _ (hostToString h) (userPart h).length h.host h.port
    (by rw [hostToString_parts]; simp) (by rw [hostToString_parts]; exact List.drop_left' rfl) hw'.1.1.2 hw'.2]
  <;> rfl

end Tbox.C19.Url
