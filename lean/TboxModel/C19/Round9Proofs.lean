/- C19 round 9 — proofs for Long.lean: Array evaluators = list models, accumulator widths of the checksums, the
"fold once" variants (equal up to a least failing length, wrong there), closed forms on constant inputs, chunked Base64. -/
import TboxModel.C19.Long
import TboxModel.C19.CrcProofs
import TboxModel.C19.B64Proofs
namespace Tbox.C19.Long
open Tbox.C19 Tbox.C19.Spec Tbox.C19.Crc
set_option maxRecDepth 100000

/-! ### Array evaluators refine the list models -/

theorem sum8A_eq (a : Array UInt8) : sum8A a = Crc.sum8 a.toList := by
  unfold sum8A Crc.sum8 Crc.sum8Acc
  rw [Array.foldl_toList]

theorem fin16_foldl : ∀ (l : List UInt8) (acc : Nat), fin16 (l.foldl step16 (acc, none)) = sum16Acc acc l
  | [], acc => by simp [fin16, sum16Acc]
  | [b0], acc => by simp [fin16, step16, sum16Acc]
  | b0 :: b1 :: r, acc => by
    simp only [List.foldl_cons, step16, sum16Acc]
    exact fin16_foldl r _

theorem sum16A_eq (a : Array UInt8) : sum16A a = Crc.sum16 a.toList := by
  unfold sum16A Crc.sum16
  rw [← Array.foldl_toList, fin16_foldl]

theorem crc16A_eq (a : Array UInt8) (seed : UInt16) : crc16A a seed = Crc.crc16 a.toList seed := by
  unfold crc16A Crc.crc16; rw [Array.foldl_toList]

theorem crc32A_eq (a : Array UInt8) (seed : UInt32) : crc32A a seed = Crc.crc32 a.toList seed := by
  unfold crc32A Crc.crc32; rw [Array.foldl_toList]

theorem fnvA_eq (a : Array UInt8) : fnvA a = fnvL a.toList := by
  unfold fnvA fnvL; rw [Array.foldl_toList]

/-! ### accumulator widths -/

/-- two rounds of the carry loop finish it for every 32-bit accumulator value -/
theorem fold16_done (acc : Nat) (h : acc < 2 ^ 32) : fold16 acc < 65536 := by
  unfold fold16 carry16
  repeat' split
  all_goals omega

/-- … and the result is the end-around-carry (one's-complement) reduction of the value -/
theorem fold16_is_eac (acc : Nat) (h : acc < 2 ^ 32) : fold16 acc = eac 65535 acc := by
  unfold fold16 carry16 eac
  repeat' split
  all_goals omega

theorem fold8_done (acc : Nat) (h : acc < 2 ^ 16) : fold8 acc < 256 := by
  unfold fold8 carry8
  repeat' split
  all_goals omega

theorem fold8_is_eac (acc : Nat) (h : acc < 2 ^ 16) : fold8 acc = eac 255 acc := by
  unfold fold8 carry8 eac
  repeat' split
  all_goals omega

theorem eac16_le (S : Nat) : eac 65535 S ≤ 65535 := by unfold eac; split <;> omega
theorem eac8_le (S : Nat) : eac 255 S ≤ 255 := by unfold eac; split <;> omega

/-- the `uint32_t` accumulator of `CalcCheckSum16` holds `eac 65535 (sum so far)` ≤ 0xFFFF after every word: the addition
never reaches 2^32, so the truncation is the identity — for EVERY length -/
theorem sum16W_rec : ∀ (data : List UInt8) (S : Nat),
    sum16AccW (eac 65535 S) data = eac 65535 (S + wordSum data)
  | [], S => by simp [sum16AccW, wordSum]
  | [b0], S => by
    have := b0.toNat_lt; have := eac16_le S
    simp only [sum16AccW, wordSum]
    rw [Nat.mod_eq_of_lt (by omega)]
    exact fold16_eac S _ (by omega)
  | b0 :: b1 :: r, S => by
    have := b0.toNat_lt; have := b1.toNat_lt; have := eac16_le S
    simp only [sum16AccW, wordSum]
    rw [Nat.mod_eq_of_lt (by omega), fold16_eac S _ (by omega), sum16W_rec r]
    congr 1; omega

theorem sum16AccW_eq (data : List UInt8) : sum16AccW 0 data = sum16Acc 0 data := by
  have h1 := sum16W_rec data 0
  have h2 := sum16_rec data 0
  have e0 : eac 65535 0 = 0 := rfl
  rw [e0] at h1 h2
  rw [h1, h2]

theorem sum16W_eq (data : List UInt8) : sum16W data = Crc.sum16 data := by
  unfold sum16W Crc.sum16; rw [sum16AccW_eq]

theorem sum16AccW_le (data : List UInt8) : sum16AccW 0 data ≤ 65535 := by
  have h1 := sum16W_rec data 0
  have e0 : eac 65535 0 = 0 := rfl
  rw [e0] at h1
  rw [h1]; exact eac16_le _

theorem sum8W_fold : ∀ (data : List UInt8) (S : Nat),
    data.foldl (fun acc b => fold8 ((acc + b.toNat) % 65536)) (eac 255 S) = eac 255 (S + byteSum data) := by
  intro data
  induction data with
  | nil => intro S; simp [byteSum]
  | cons b r ih =>
    intro S
    have hb : b.toNat ≤ 255 := by have := b.toNat_lt; omega
    have := eac8_le S
    simp only [List.foldl_cons]
    rw [Nat.mod_eq_of_lt (by omega), fold8_eac S b.toNat hb, ih]
    simp [byteSum, Nat.add_assoc]

theorem sum8AccW_eq (data : List UInt8) : sum8AccW data = sum8Acc data := by
  have h1 := sum8W_fold data 0
  have h2 := sum8_fold data 0
  have e0 : eac 255 0 = 0 := rfl
  rw [e0] at h1 h2
  unfold sum8AccW sum8Acc
  rw [h1, h2]

theorem sum8W_eq (data : List UInt8) : sum8W data = Crc.sum8 data := by
  unfold sum8W Crc.sum8; rw [sum8AccW_eq]

/-! ### the fold-once variants -/

theorem wordsW_eq : ∀ (data : List UInt8) (acc : Nat), acc < 2 ^ 32 → wordsW acc data = (acc + wordSum data) % 2 ^ 32
  | [], acc, h => by simp [wordsW, wordSum, Nat.mod_eq_of_lt h]
  | [b0], acc, _ => by simp [wordsW, wordSum]
  | b0 :: b1 :: r, acc, _ => by
    simp only [wordsW, wordSum]
    rw [wordsW_eq r _ (Nat.mod_lt _ (by decide))]
    omega

theorem wordSum_le : ∀ (data : List UInt8), wordSum data ≤ 65535 * ((data.length + 1) / 2)
  | [] => by simp [wordSum]
  | [b0] => by have := b0.toNat_lt; simp only [wordSum, List.length_cons, List.length_nil]; omega
  | b0 :: b1 :: r => by
    have := b0.toNat_lt; have := b1.toNat_lt; have := wordSum_le r
    simp only [wordSum, List.length_cons]
    omega

theorem spec_sum16_of_acc (data : List UInt8) (v : Nat) (h : v = eac 65535 (wordSum data)) :
    ~~~ (UInt16.ofNat v) = Spec.sum16 data := by
  subst h
  unfold Spec.sum16
  have hle := eac16_le (wordSum data)
  rw [← UInt16.toNat_inj, UInt16.toNat_not]
  have : UInt16.size = 65536 := rfl
  simp only [UInt16.toNat_ofNat']
  omega

/-- up to 131074 bytes (65537 words: the plain sum is at most 65537 · 0xFFFF = 2^32 − 1) folding once is exact -/
theorem foldOnce32_ok (data : List UInt8) (h : data.length ≤ 131074) : sum16FoldOnce32 data = Spec.sum16 data := by
  unfold sum16FoldOnce32
  apply spec_sum16_of_acc
  have hw := wordSum_le data
  have hlt : wordSum data < 2 ^ 32 := by omega
  rw [wordsW_eq data 0 (by decide), Nat.zero_add, Nat.mod_eq_of_lt hlt, fold16_is_eac _ hlt]

theorem wordSum_ff_even : ∀ k : Nat, wordSum (List.replicate (2 * k) 0xFF) = 65535 * k
  | 0 => by simp [wordSum]
  | k + 1 => by
    have e : 2 * (k + 1) = (2 * k + 1) + 1 := by omega
    rw [e, List.replicate_succ, List.replicate_succ]
    simp only [wordSum]
    rw [wordSum_ff_even k]
    have : (0xFF : UInt8).toNat = 255 := rfl
    omega

theorem wordSum_ff_odd (k : Nat) : wordSum (List.replicate (2 * k + 1) 0xFF) = 65535 * k + 65280 := by
  induction k with
  | zero => simp [wordSum]
  | succ k ih =>
    have e : 2 * (k + 1) + 1 = ((2 * k + 1) + 1) + 1 := by omega
    rw [e, List.replicate_succ, List.replicate_succ]
    simp only [wordSum]
    rw [ih]
    have : (0xFF : UInt8).toNat = 255 := rfl
    omega

/-- `CalcCheckSum16` of n bytes 0xFF as a function of n (closed form used by nobody but stated for the record: the driver
evaluates long inputs with the Array evaluator) -/
theorem sum16_ff_closed (n : Nat) :
    Spec.sum16 (List.replicate n 0xFF) = if n = 0 then 0xFFFF else if n % 2 = 0 then 0 else 0x00FF := by
  unfold Spec.sum16
  obtain ⟨k, hk | hk⟩ : ∃ k, n = 2 * k ∨ n = 2 * k + 1 := ⟨n / 2, by omega⟩
  · subst hk
    rw [wordSum_ff_even]
    by_cases h0 : k = 0
    · subst h0; simp [eac]
    · have hn : ¬ (2 * k = 0) := by omega
      have hm : 2 * k % 2 = 0 := by omega
      rw [if_neg hn, if_pos hm]
      have : eac 65535 (65535 * k) = 65535 := by
        unfold eac
        have : 65535 * k ≠ 0 := by omega
        rw [if_neg this]
        have : (65535 * k - 1) = 65535 * (k - 1) + 65534 := by omega
        rw [this, Nat.mul_add_mod]
      rw [this]; rfl
  · subst hk
    rw [wordSum_ff_odd]
    have hn : ¬ (2 * k + 1 = 0) := by omega
    have hm : ¬ ((2 * k + 1) % 2 = 0) := by omega
    rw [if_neg hn, if_neg hm]
    have : eac 65535 (65535 * k + 65280) = 65280 := by
      unfold eac
      have : 65535 * k + 65280 ≠ 0 := by omega
      rw [if_neg this]
      have : (65535 * k + 65280 - 1) = 65535 * k + 65279 := by omega
      rw [this, Nat.mul_add_mod]
    rw [this]; rfl

/-- 131075 bytes of 0xFF: the plain word sum is 2^32 + 65279, the 32-bit accumulator loses the carry -/
theorem foldOnce32_bad :
    sum16FoldOnce32 (List.replicate 131075 0xFF) = 0x0100 ∧ Spec.sum16 (List.replicate 131075 0xFF) = 0x00FF := by
  constructor
  · unfold sum16FoldOnce32
    rw [wordsW_eq _ 0 (by decide), show (131075 : Nat) = 2 * 65537 + 1 from rfl, wordSum_ff_odd]
    decide
  · rw [sum16_ff_closed]; decide

theorem byteSum_cons (b : UInt8) (r : List UInt8) : byteSum (b :: r) = b.toNat + byteSum r := by simp [byteSum]

theorem bytesW_eq : ∀ (data : List UInt8) (acc : Nat), acc < 65536 →
    data.foldl (fun acc b => (acc + b.toNat) % 65536) acc = (acc + byteSum data) % 65536 := by
  intro data
  induction data with
  | nil => intro acc h; simp [byteSum, Nat.mod_eq_of_lt h]
  | cons b r ih =>
    intro acc _
    simp only [List.foldl_cons, byteSum_cons]
    rw [ih _ (Nat.mod_lt _ (by decide))]
    omega

theorem byteSum_le : ∀ (data : List UInt8), byteSum data ≤ 255 * data.length
  | [] => by simp [byteSum]
  | b :: r => by
    have := b.toNat_lt; have := byteSum_le r
    simp only [byteSum_cons, List.length_cons]; omega

theorem spec_sum8_of_acc (data : List UInt8) (v : Nat) (h : v = eac 255 (byteSum data)) :
    ~~~ (UInt8.ofNat v) = Spec.sum8 data := by
  subst h
  unfold Spec.sum8
  have hle := eac8_le (byteSum data)
  rw [← UInt8.toNat_inj, UInt8.toNat_not]
  have : UInt8.size = 256 := rfl
  simp only [UInt8.toNat_ofNat']
  omega

/-- up to 257 bytes (257 · 0xFF = 65535) the fold-once variant of `CalcCheckSum8` with its `uint16_t` accumulator is exact -/
theorem foldOnce16_ok (data : List UInt8) (h : data.length ≤ 257) : sum8FoldOnce16 data = Spec.sum8 data := by
  unfold sum8FoldOnce16 bytesW
  apply spec_sum8_of_acc
  have hw := byteSum_le data
  have hlt : byteSum data < 2 ^ 16 := by omega
  rw [bytesW_eq data 0 (by decide), Nat.zero_add, Nat.mod_eq_of_lt hlt, fold8_is_eac _ hlt]

theorem byteSum_ff : ∀ n : Nat, byteSum (List.replicate n 0xFF) = 255 * n
  | 0 => by simp [byteSum]
  | n + 1 => by
    rw [List.replicate_succ, byteSum_cons, byteSum_ff n]
    have : (0xFF : UInt8).toNat = 255 := rfl
    omega

theorem foldOnce16_bad :
    sum8FoldOnce16 (List.replicate 258 0xFF) = 0x01 ∧ Spec.sum8 (List.replicate 258 0xFF) = 0x00 := by
  constructor
  · unfold sum8FoldOnce16 bytesW
    rw [bytesW_eq _ 0 (by decide), byteSum_ff]
    decide
  · unfold Spec.sum8; rw [byteSum_ff]; decide

/-! ### Base64 encoder: chunks of a multiple of three bytes -/

theorem encGo_append3 : ∀ (a b : List UInt8) (l l' : UInt8), a.length % 3 = 0 →
    B64.encGo .s0 l (a ++ b) = B64.encGo .s0 l' a ++ B64.encGo .s0 0 b
  | [], b, l, l', _ => by
    cases b <;> simp [B64.encGo]
  | [_], _, _, _, h => by simp at h
  | [_, _], _, _, _, h => by simp at h
  | x :: y :: z :: r, b, l, l', h => by
    have hr : r.length % 3 = 0 := by simp only [List.length_cons] at h; omega
    simp only [List.cons_append, B64.encGo]
    rw [encGo_append3 r b z z hr]

theorem chunked_enc (k : Nat) (hk : k % 3 = 0) : ∀ (fuel : Nat) (l : List UInt8),
    chunked (B64.encGo .s0 0) k fuel l = B64.encGo .s0 0 l
  | 0, l => rfl
  | fuel + 1, l => by
    unfold chunked
    split
    · rfl
    · rename_i rest hne
      have hlen : k < l.length := by
        rcases Nat.lt_or_ge k l.length with h | h
        · exact h
        · exact absurd (List.drop_eq_nil_of_le h) hne
      have ht : (l.take k).length % 3 = 0 := by rw [List.length_take]; omega
      rw [chunked_enc k hk fuel (l.drop k)]
      conv => rhs; rw [← List.take_append_drop k l]
      exact (encGo_append3 (l.take k) (l.drop k) 0 0 ht).symm

theorem b64EncChunked_eq (x : List UInt8) : b64EncChunked x = B64.encGo .s0 0 x :=
  chunked_enc 3072 (by decide) _ x

end Tbox.C19.Long
