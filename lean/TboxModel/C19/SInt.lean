/- C19 — scalable integer model: transcription of modules/util/scalable_integer.cpp (after fix
C19-03: the parse loop reads at most 10 bytes). 64-bit unsigned arithmetic is explicit (`% 2^64`).
`siMin`/`siMax` come from Gen.lean (the constexpr chain evaluated from the source). -/
import TboxModel.C19.Common
import TboxModel.C19.Gen
namespace Tbox.C19.SInt
open Tbox.C19

def W : Nat := 2 ^ 64

/-- `while (need_bytes < 10) { if (in_value <= _max_value_tbl[need_bytes]) break; ++need_bytes; }` -/
def needGo (v : Nat) : Nat → Nat → Res Nat
  | 0, need => .ok need
  | fuel + 1, need =>
    if need < 10 then do
      let m ← tblRead "_max_value_tbl" Gen.siMax need
      if v ≤ m then pure need else needGo v fuel (need + 1)
    else .ok need

def needBytes (v : Nat) : Res Nat := needGo v 10 1

/-- big-endian base-128 digits: `k` digits of `s` -/
def be7 : Nat → Nat → List Nat
  | 0, _ => []
  | k + 1, s => be7 k (s / 128) ++ [s % 128]

/-- the bytes `DumpScalableInteger` stores for `store_value` in `need` bytes: last byte has the top
bit clear, all others set -/
def dumpBytes (need store : Nat) : List UInt8 :=
  (be7 (need - 1) (store / 128)).map (fun d => UInt8.ofNat (128 + d)) ++ [UInt8.ofNat (store % 128)]

/-- `DumpScalableInteger(in_value, buff, buff_size)`: (ret, bytes stored at 0..ret) -/
def dump (v cap : Nat) : Res (Nat × List UInt8) := do
  let need ← needBytes v
  if cap < need then pure (0, [])
  else do
    let store ← (if need > 1 then do
                   let m ← tblRead "_min_value_tbl" Gen.siMin need
                   pure ((v + W - m) % W)
                 else pure v)
    let out ← storeAll cap (dumpBytes need store)
    pure (need, out)

/-- the parse loop with loop bound `lim` (`i < lim`): `some (read_bytes, read_value)` when a
terminating byte was seen -/
def parseGo (lim : Nat) : Nat → Nat → Nat → List UInt8 → Option (Nat × Nat)
  | _, _, _, [] => none
  | i, rb, rv, b :: r =>
    if i < lim then
      let rv' := (rv * 128) % W + b.toNat % 128
      if b.toNat < 128 then some (rb, rv') else parseGo lim (i + 1) (rb + 1) rv' r
    else none

/-- `ParseScalableInteger` with the loop bound as a parameter: (ret, out_value if written) -/
def parseWith (lim : Nat) (bs : List UInt8) : Res (Nat × Option Nat) :=
  match parseGo lim 0 1 0 bs with
  | none => .ok (0, none)
  | some (rb, rv) => do
    let m ← tblRead "_min_value_tbl" Gen.siMin rb
    pure (rb, some ((m + rv) % W))

/-- the code after fix C19-03 (`i < 10`) -/
def parse (bs : List UInt8) : Res (Nat × Option Nat) := parseWith 10 bs

/-- the code before the fix (`i <= 10`) — used only by the counterexample theorem -/
def parseOrig (bs : List UInt8) : Res (Nat × Option Nat) := parseWith 11 bs

/-! ### several values in ONE buffer (round 8): dump at an offset, parse at an offset -/

/-- `memcpy`-like store of `d` at `off` (caller guarantees `off + d.length ≤ mem.length`) -/
def poke (mem : List UInt8) (off : Nat) (d : List UInt8) : List UInt8 := mem.take off ++ d ++ mem.drop (off + d.length)

/-- `DumpScalableInteger(v, buf + off, size - off)`: return value and the buffer afterwards -/
def dumpAt (buf : List UInt8) (off v : Nat) : Res (Nat × List UInt8) := do
  let (n, out) ← dump v (buf.length - off)
  pure (n, poke buf off out)

/-- `ParseScalableInteger(buf + off, size - off, value)` -/
def parseAt (buf : List UInt8) (off : Nat) : Res (Nat × Option Nat) := parse (buf.drop off)

end Tbox.C19.SInt
