/- C19 — helper lemmas for the scalable integer model. -/
import TboxModel.C19.SInt
namespace Tbox.C19.SInt
open Tbox.C19

theorem siMin_length : Gen.siMin.length = 11 := by decide
theorem siMax_length : Gen.siMax.length = 10 := by decide

theorem tblRead_ok {α} (name : String) (tbl : List α) (i : Nat) (h : i < tbl.length) :
    ∃ v, tblRead name tbl i = .ok v := by
  unfold tblRead
  rw [List.getElem?_eq_getElem h]
  exact ⟨_, rfl⟩

/-- the loop counter and the byte counter move together and the loop bound caps both -/
theorem parseGo_bound (lim : Nat) (bs : List UInt8) :
    ∀ i rb rv r v, parseGo lim i rb rv bs = some (r, v) → rb ≤ r ∧ r + i < rb + lim := by
  induction bs with
  | nil => intro i rb rv r v h; simp [parseGo] at h
  | cons b bs ih =>
    intro i rb rv r v h
    unfold parseGo at h
    split at h
    · rename_i hi
      split at h
      · simp at h; omega
      · have := ih _ _ _ _ _ h; omega
    · simp at h

/-- `needGo` answers between its start value and 10, and never leaves the table -/
theorem needGo_spec (v : Nat) : ∀ fuel need, 1 ≤ need → need ≤ 10 →
    ∃ n, needGo v fuel need = .ok n ∧ need ≤ n ∧ n ≤ 10 := by
  intro fuel
  induction fuel with
  | zero => intro need h1 h2; exact ⟨need, rfl, Nat.le_refl _, h2⟩
  | succ f ih =>
    intro need h1 h2
    unfold needGo
    by_cases hn : need < 10
    · simp only [hn, if_true]
      obtain ⟨m, hm⟩ := tblRead_ok "_max_value_tbl" Gen.siMax need (by rw [siMax_length]; exact hn)
      rw [hm]; simp only [Res.bind_ok]
      by_cases hv : v ≤ m
      · simp only [hv, if_true]; exact ⟨need, rfl, Nat.le_refl _, h2⟩
      · simp only [hv, if_false]
        obtain ⟨n, e, a, b⟩ := ih (need + 1) (by omega) (by omega)
        exact ⟨n, e, by omega, b⟩
    · simp only [hn, if_false]; exact ⟨need, rfl, Nat.le_refl _, h2⟩

theorem be7_length : ∀ k s, (be7 k s).length = k := by
  intro k; induction k with
  | zero => intro s; rfl
  | succ k ih => intro s; simp [be7, ih]

theorem dumpBytes_length (need store : Nat) (h : 1 ≤ need) : (dumpBytes need store).length = need := by
  unfold dumpBytes; simp [be7_length]; omega

end Tbox.C19.SInt

/-! ### round trip -/
namespace Tbox.C19.SInt
open Tbox.C19

def getMax (k : Nat) : Nat := Gen.siMax.getD k 0
def getMin (k : Nat) : Nat := Gen.siMin.getD k 0

theorem tblRead_getD (name : String) (tbl : List Nat) (i : Nat) (h : i < tbl.length) :
    tblRead name tbl i = .ok (tbl.getD i 0) := by
  unfold tblRead
  rw [List.getElem?_eq_getElem h]
  simp [List.getD_eq_getElem?_getD, List.getElem?_eq_getElem h]

/-- what the length search returns: the first length class whose maximum is ≥ v (or 10) -/
theorem needGo_char (v : Nat) : ∀ fuel need, 1 ≤ need → need + fuel ≥ 10 → need ≤ 10 →
    ∃ n, needGo v fuel need = .ok n ∧ need ≤ n ∧ n ≤ 10 ∧ (n < 10 → v ≤ getMax n)
      ∧ (need < n → getMax (n - 1) < v) := by
  intro fuel
  induction fuel with
  | zero => intro need h1 hf h2; exact ⟨need, rfl, Nat.le_refl _, h2, by omega, by omega⟩
  | succ f ih =>
    intro need h1 hf h2
    unfold needGo
    by_cases hn : need < 10
    · simp only [hn, if_true]
      rw [tblRead_getD "_max_value_tbl" Gen.siMax need (by rw [siMax_length]; exact hn)]
      simp only [Res.bind_ok]
      by_cases hv : v ≤ Gen.siMax.getD need 0
      · simp only [hv, if_true]; exact ⟨need, rfl, Nat.le_refl _, h2, fun _ => hv, by omega⟩
      · simp only [hv, if_false]
        obtain ⟨n, e, a, b, c, d⟩ := ih (need + 1) (by omega) (by omega) (by omega)
        refine ⟨n, e, by omega, b, c, ?_⟩
        intro _
        by_cases hh : need + 1 < n
        · exact d hh
        · have : n = need + 1 := by omega
          subst this; simp only [Nat.add_sub_cancel]; unfold getMax; omega
    · simp only [hn, if_false]; exact ⟨need, rfl, Nat.le_refl _, h2, by omega, by omega⟩

/-- table facts used by the round trip (all 10 length classes, by evaluation of the extracted table) -/
theorem table_facts : ∀ n : Fin 11, 1 ≤ n.val →
    (n.val < 10 → getMax n.val < getMin n.val + 128 ^ n.val) ∧
    (1 < n.val → getMin n.val = getMax (n.val - 1) + 1) ∧
    getMin 1 = 0 ∧ W ≤ getMin 10 + 128 ^ 10 ∧ getMin n.val < W := by decide +kernel

end Tbox.C19.SInt

namespace Tbox.C19.SInt
open Tbox.C19

def fW (acc d : Nat) : Nat := (acc * 128) % W + d

theorem be7_lt : ∀ k s, ∀ d ∈ be7 k s, d < 128 := by
  intro k; induction k with
  | zero => intro s d h; simp [be7] at h
  | succ k ih =>
    intro s d h
    simp only [be7, List.mem_append, List.mem_singleton] at h
    rcases h with h | h
    · exact ih _ _ h
    · omega

theorem foldl_be7 : ∀ k s, s < W → (be7 k s).foldl fW 0 = s % 128 ^ k := by
  intro k; induction k with
  | zero => intro s _; simp [be7, Nat.mod_one]
  | succ k ih =>
    intro s hs
    have hs' : s / 128 < W := by omega
    simp only [be7, List.foldl_append, List.foldl_cons, List.foldl_nil, ih _ hs', fW]
    rw [Nat.pow_succ, Nat.mul_comm (128 ^ k) 128, Nat.mod_mul]
    have ht : (s / 128) % 128 ^ k ≤ s / 128 := Nat.mod_le _ _
    generalize (s / 128) % 128 ^ k = t at ht
    have : t * 128 < W := by omega
    rw [Nat.mod_eq_of_lt this]; omega

theorem parseGo_digits (lim : Nat) : ∀ (ds : List Nat) (t i rb rv : Nat), (∀ d ∈ ds, d < 128) → t < 128 →
    i + ds.length < lim →
    parseGo lim i rb rv (ds.map (fun d => UInt8.ofNat (128 + d)) ++ [UInt8.ofNat t])
      = some (rb + ds.length, (ds ++ [t]).foldl fW rv) := by
  intro ds
  induction ds with
  | nil =>
    intro t i rb rv _ ht hi
    have h1 : (UInt8.ofNat t).toNat = t := by simp; omega
    simp only [List.map_nil, List.nil_append, parseGo, h1]
    simp only [List.length_nil, Nat.add_zero] at hi
    simp [hi, ht, fW, Nat.mod_eq_of_lt ht]
  | cons d ds ih =>
    intro t i rb rv hd ht hi
    have hd0 : d < 128 := hd d (by simp)
    have h1 : (UInt8.ofNat (128 + d)).toNat = 128 + d := by simp; omega
    simp only [List.map_cons, List.cons_append, parseGo, h1]
    simp only [List.length_cons] at hi
    have e1 : (128 + d) % 128 = d := by omega
    have e2 : ¬ (128 + d < 128) := by omega
    simp only [show i < lim by omega, if_true, e1, e2, if_false]
    rw [ih t (i + 1) (rb + 1) _ (fun x hx => hd x (by simp [hx])) ht (by omega)]
    simp [fW]; omega

theorem dumpBytes_parse (n store : Nat) (h1 : 1 ≤ n) (h10 : n ≤ 10) (hs : store < 128 ^ n) (hw : store < W) :
    parseGo 10 0 1 0 (dumpBytes n store) = some (n, store) := by
  unfold dumpBytes
  rw [parseGo_digits 10 _ _ 0 1 0 (be7_lt _ _) (by omega) (by rw [be7_length]; omega)]
  have hb : be7 (n - 1) (store / 128) ++ [store % 128] = be7 n store := by
    obtain ⟨m, rfl⟩ : ∃ m, n = m + 1 := ⟨n - 1, by omega⟩
    simp [be7]
  rw [hb, foldl_be7 n store hw, be7_length, Nat.mod_eq_of_lt hs]
  congr 2; omega

end Tbox.C19.SInt

