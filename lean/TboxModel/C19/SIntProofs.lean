/- C19 — helper lemmas for the scalable integer model. -/
import TboxModel.C19.SInt
namespace Tbox.C19.SInt
open Tbox.C19

theorem siMin_length : Gen.siMin.length = 11 := by decide
theorem siMax_length : Gen.siMax.length = 10 := by decide

theorem tblRead_ok {α} (name : String) (tbl : List α) (i : Nat) (h : i < tbl.length) :
    ∃ v, tblRead name tbl i = .ok v := by
  unfold tblRead
  rw [List.getElem?_eq_getElem h]
  exact ⟨_, rfl⟩

/-- the loop counter and the byte counter move together and the loop bound caps both -/
theorem parseGo_bound (lim : Nat) (bs : List UInt8) :
    ∀ i rb rv r v, parseGo lim i rb rv bs = some (r, v) → rb ≤ r ∧ r + i < rb + lim := by
  induction bs with
  | nil => intro i rb rv r v h; simp [parseGo] at h
  | cons b bs ih =>
    intro i rb rv r v h
    unfold parseGo at h
    split at h
    · rename_i hi
      split at h
      · simp at h; omega
      · have := ih _ _ _ _ _ h; omega
    · simp at h

/-- `needGo` answers between its start value and 10, and never leaves the table -/
theorem needGo_spec (v : Nat) : ∀ fuel need, 1 ≤ need → need ≤ 10 →
    ∃ n, needGo v fuel need = .ok n ∧ need ≤ n ∧ n ≤ 10 := by
  intro fuel
  induction fuel with
  | zero => intro need h1 h2; exact ⟨need, rfl, Nat.le_refl _, h2⟩
  | succ f ih =>
    intro need h1 h2
    unfold needGo
    by_cases hn : need < 10
    · simp only [hn, if_true]
      obtain ⟨m, hm⟩ := tblRead_ok "_max_value_tbl" Gen.siMax need (by rw [siMax_length]; exact hn)
      rw [hm]; simp only [Res.bind_ok]
      by_cases hv : v ≤ m
      · simp only [hv, if_true]; exact ⟨need, rfl, Nat.le_refl _, h2⟩
      · simp only [hv, if_false]
        obtain ⟨n, e, a, b⟩ := ih (need + 1) (by omega) (by omega)
        exact ⟨n, e, by omega, b⟩
    · simp only [hn, if_false]; exact ⟨need, rfl, Nat.le_refl _, h2⟩

theorem be7_length : ∀ k s, (be7 k s).length = k := by
  intro k; induction k with
  | zero => intro s; rfl
  | succ k ih => intro s; simp [be7, ih]

theorem dumpBytes_length (need store : Nat) (h : 1 ≤ need) : (dumpBytes need store).length = need := by
  unfold dumpBytes; simp [be7_length]; omega

end Tbox.C19.SInt
