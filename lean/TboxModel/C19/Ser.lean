/- C19 — Serializer / Deserializer model: transcription of modules/util/serializer.cpp.
Integers are naturals with the C truncations explicit (`in & 0xff` = `% 256`, `in >>= 8` = `/ 256`,
`out <<= 8; out |= p[i]` = `out * 256 + p[i]` reduced modulo the width). Sizes are naturals
(assumption recorded in the plugin: position + size < 2^64). -/
import TboxModel.C19.Common
namespace Tbox.C19.Ser
open Tbox.C19

inductive Endian | big | little
  deriving DecidableEq, Repr

/-- little-endian bytes of `v`, `n` of them (`p[0] = in & 0xff; in >>= 8; …`) -/
def leBytes : Nat → Nat → List UInt8
  | 0, _ => []
  | n + 1, v => UInt8.ofNat (v % 256) :: leBytes n (v / 256)

/-- the bytes `append(uintN)` stores -/
def intBytes (e : Endian) (n v : Nat) : List UInt8 :=
  match e with
  | .little => leBytes n v
  | .big => (leBytes n v).reverse

/-- `out = p[0]; out <<= 8; out |= p[1]; …` over the bytes in most-significant-first order -/
def beValue (bs : List UInt8) : Nat := bs.foldl (fun acc b => acc * 256 + b.toNat) 0

def intValue (e : Endian) (bs : List UInt8) : Nat :=
  match e with
  | .big => beValue bs
  | .little => beValue bs.reverse

/-- the serializer writes into a fixed buffer (`kRaw`, capacity `cap`) or a vector (`kVector`) -/
structure S where
  raw : Bool
  cap : Nat
  mem : List UInt8        -- raw: bytes stored so far at 0..pos; vector: the whole vector
  endian : Endian
  pos : Nat
  deriving Repr, DecidableEq

def S.newRaw (cap : Nat) (e : Endian) : S := ⟨true, cap, [], e, 0⟩
def S.newVec (init : List UInt8) (e : Endian) : S := ⟨false, 0, init, e, 0⟩

/-- `vector::resize(n)` -/
def resize (v : List UInt8) (n : Nat) : List UInt8 := v.take n ++ List.replicate (n - v.length) 0

/-- `extendSize(need)` followed by storing `bs` (`need = bs.length`) at `pos_`.
Raw mode: `false` and nothing stored when `pos + need > size`. The store itself is bounds-checked
against the capacity, so an `oob` outcome would mean a write beyond the buffer. -/
def S.put (s : S) (bs : List UInt8) : Res (Bool × S) :=
  let whole := s.pos + bs.length
  if s.raw then
    if whole ≤ s.cap then
      if s.pos + bs.length ≤ s.cap then .ok (true, { s with mem := s.mem.take s.pos ++ bs, pos := whole })
      else .oob "write buffer"
    else .ok (false, s)
  else
    let v := resize s.mem whole
    .ok (true, { s with mem := v.take s.pos ++ bs, pos := whole })

def S.appendInt (s : S) (n v : Nat) : Res (Bool × S) := s.put (intBytes s.endian n v)
def S.appendRaw (s : S) (bs : List UInt8) : Res (Bool × S) := s.put bs
/-- `appendPOD`: as stored in memory for little endian, reversed for big endian -/
def S.appendPOD (s : S) (bs : List UInt8) : Res (Bool × S) :=
  s.put (match s.endian with | .little => bs | .big => bs.reverse)

structure D where
  data : List UInt8
  endian : Endian
  pos : Nat
  deriving Repr, DecidableEq

def D.new (data : List UInt8) (e : Endian) : D := ⟨data, e, 0⟩

/-- `checkSize(need)` then reading `need` bytes at `pos_`; each byte read is bounds-checked against
the input, so `oob` would mean a read outside it -/
def D.take (d : D) (need : Nat) : Res (Option (List UInt8) × D) :=
  if d.pos + need ≤ d.data.length then
    let bs := (d.data.drop d.pos).take need
    if bs.length = need then .ok (some bs, { d with pos := d.pos + need })
    else .oob "read input"
  else .ok (none, d)

def D.fetchInt (d : D) (n : Nat) : Res (Option Nat × D) := do
  let (r, d') ← d.take n
  pure (r.map (fun bs => intValue d.endian bs % 2 ^ (8 * n)), d')

def D.fetchRaw (d : D) (n : Nat) : Res (Option (List UInt8) × D) := d.take n

def D.fetchPOD (d : D) (n : Nat) : Res (Option (List UInt8) × D) := do
  let (r, d') ← d.take n
  pure (r.map (fun bs => match d.endian with | .little => bs | .big => bs.reverse), d')

/-- `skip(n)` -/
def D.skip (d : D) (n : Nat) : Bool × D :=
  if d.pos + n ≤ d.data.length then (true, { d with pos := d.pos + n }) else (false, d)

/-- `set_pos(p)` — note the strict comparison in the code: the end position cannot be set -/
def D.setPos (d : D) (p : Nat) : Bool × D :=
  if p < d.data.length then (true, { d with pos := p }) else (false, d)

/-- a field of a record to serialize -/
inductive Field
  | int (bytes : Nat) (v : Nat)      -- bytes ∈ {1,2,4,8}, v < 2^(8*bytes)
  | raw (bs : List UInt8)
  | pod (bs : List UInt8)
  | endian (e : Endian)
  deriving Repr, DecidableEq

/-- serialize a field sequence into a vector-backed serializer -/
def serFields : S → List Field → Res S
  | s, [] => .ok s
  | s, .int n v :: r => do let (_, s') ← s.appendInt n v; serFields s' r
  | s, .raw bs :: r => do let (_, s') ← s.appendRaw bs; serFields s' r
  | s, .pod bs :: r => do let (_, s') ← s.appendPOD bs; serFields s' r
  | s, .endian e :: r => serFields { s with endian := e } r

/-- deserialize with the same shape; `none` if any fetch fails -/
def desFields : D → List Field → Res (Option (List Field))
  | _, [] => .ok (some [])
  | d, .int n _ :: r => do
      let (v, d') ← d.fetchInt n
      match v, ← desFields d' r with
      | some v, some fs => pure (some (.int n v :: fs))
      | _, _ => pure none
  | d, .raw bs :: r => do
      let (v, d') ← d.fetchRaw bs.length
      match v, ← desFields d' r with
      | some v, some fs => pure (some (.raw v :: fs))
      | _, _ => pure none
  | d, .pod bs :: r => do
      let (v, d') ← d.fetchPOD bs.length
      match v, ← desFields d' r with
      | some v, some fs => pure (some (.pod v :: fs))
      | _, _ => pure none
  | d, .endian e :: r => do
      match ← desFields { d with endian := e } r with
      | some fs => pure (some (.endian e :: fs))
      | none => pure none

/-! ### widths kept explicit -/

/-- `static_cast<uintN_t>(intN_t)` of the signed stream operators -/
def toUnsigned (n : Nat) (v : Int) : Nat := (v % (2 ^ (8 * n) : Nat)).toNat

/-- reading the same storage back as `intN_t` (`*((uintN_t*)&out)`) -/
def toSigned (n : Nat) (u : Nat) : Int := if u < 2 ^ (8 * n - 1) then u else (u : Int) - (2 ^ (8 * n) : Nat)

/-- `checkSize` / `extendSize` as coded after the fix: `need_size <= size_ - pos_` in `size_t` arithmetic -/
def checkSizeW (size pos need : Nat) : Bool := need ≤ (size + 2 ^ 64 - pos) % 2 ^ 64

/-- the comparison before the fix: `pos_ + need_size <= size_` with the sum wrapping at 2^64 -/
def checkSizeOrig (size pos need : Nat) : Bool := (pos + need) % 2 ^ 64 ≤ size

/-- `checkSize(n)` of the model (what `D.take` / `D.skip` test) -/
def D.check (d : D) (need : Nat) : Bool := d.pos + need ≤ d.data.length

end Tbox.C19.Ser
