/- C19 — helper lemmas for the serializer model. -/
import TboxModel.C19.Ser
namespace Tbox.C19.Ser
open Tbox.C19

theorem leBytes_length : ∀ n v, (leBytes n v).length = n := by
  intro n; induction n with
  | zero => intro v; rfl
  | succ n ih => intro v; simp [leBytes, ih]

theorem beValue_snoc (xs : List UInt8) (b : UInt8) : beValue (xs ++ [b]) = beValue xs * 256 + b.toNat := by
  unfold beValue; simp [List.foldl_append]

theorem beValue_rev_leBytes : ∀ n v, beValue (leBytes n v).reverse = v % 256 ^ n := by
  intro n; induction n with
  | zero => intro v; simp [leBytes, beValue, Nat.mod_one]
  | succ n ih =>
    intro v
    simp only [leBytes, List.reverse_cons, beValue_snoc, ih]
    have h : (UInt8.ofNat (v % 256)).toNat = v % 256 := by simp
    rw [h, Nat.pow_succ, Nat.mul_comm (256 ^ n) 256, Nat.mod_mul]
    omega

theorem intBytes_length (e : Endian) (n v : Nat) : (intBytes e n v).length = n := by
  cases e <;> simp [intBytes, leBytes_length]

theorem intValue_intBytes (e : Endian) (n v : Nat) : intValue e (intBytes e n v) = v % 256 ^ n := by
  cases e <;> simp [intValue, intBytes, beValue_rev_leBytes]

end Tbox.C19.Ser
