/- C19 — helper lemmas for the serializer model. -/
import TboxModel.C19.Ser
namespace Tbox.C19.Ser
open Tbox.C19

theorem leBytes_length : ∀ n v, (leBytes n v).length = n := by
  intro n; induction n with
  | zero => intro v; rfl
  | succ n ih => intro v; simp [leBytes, ih]

theorem beValue_snoc (xs : List UInt8) (b : UInt8) : beValue (xs ++ [b]) = beValue xs * 256 + b.toNat := by
  unfold beValue; simp [List.foldl_append]

theorem beValue_rev_leBytes : ∀ n v, beValue (leBytes n v).reverse = v % 256 ^ n := by
  intro n; induction n with
  | zero => intro v; simp [leBytes, beValue, Nat.mod_one]
  | succ n ih =>
    intro v
    simp only [leBytes, List.reverse_cons, beValue_snoc, ih]
    have h : (UInt8.ofNat (v % 256)).toNat = v % 256 := by simp
    rw [h, Nat.pow_succ, Nat.mul_comm (256 ^ n) 256, Nat.mod_mul]
    omega

theorem intBytes_length (e : Endian) (n v : Nat) : (intBytes e n v).length = n := by
  cases e <;> simp [intBytes, leBytes_length]

theorem intValue_intBytes (e : Endian) (n v : Nat) : intValue e (intBytes e n v) = v % 256 ^ n := by
  cases e <;> simp [intValue, intBytes, beValue_rev_leBytes]

end Tbox.C19.Ser

/-! ### field sequences -/
namespace Tbox.C19.Ser
open Tbox.C19

/-- the bytes a field sequence serializes to, starting with endianness `e` -/
def encodeFields : Endian → List Field → List UInt8
  | _, [] => []
  | e, .int n v :: r => intBytes e n v ++ encodeFields e r
  | e, .raw bs :: r => bs ++ encodeFields e r
  | e, .pod bs :: r => (match e with | .little => bs | .big => bs.reverse) ++ encodeFields e r
  | _, .endian e' :: r => encodeFields e' r

/-- integers fit their width -/
def Field.valid : Field → Bool
  | .int n v => decide (v < 256 ^ n)
  | _ => true

theorem put_vec (s : S) (bs : List UInt8) (hr : s.raw = false) (hl : s.mem.length = s.pos) :
    s.put bs = .ok (true, { s with mem := s.mem ++ bs, pos := s.pos + bs.length }) := by
  unfold S.put
  simp only [hr, Bool.false_eq_true, if_false]
  have h1 : s.mem.take (s.pos + bs.length) = s.mem := List.take_of_length_le (by omega)
  have : (resize s.mem (s.pos + bs.length)).take s.pos = s.mem := by
    unfold resize
    rw [h1, List.take_left' hl]
  rw [this]

/-- a vector-backed serializer whose vector is exactly the bytes written so far appends the encoding -/
theorem serFields_vec : ∀ (fs : List Field) (s : S), s.raw = false → s.mem.length = s.pos →
    ∃ s', serFields s fs = .ok s' ∧ s'.mem = s.mem ++ encodeFields s.endian fs ∧ s'.raw = false
      ∧ s'.mem.length = s'.pos := by
  intro fs
  induction fs with
  | nil => intro s hr hl; exact ⟨s, rfl, by simp [encodeFields], hr, hl⟩
  | cons f r ih =>
    intro s hr hl
    cases f with
    | int n v =>
      simp only [serFields, S.appendInt, put_vec s _ hr hl, Res.bind_ok]
      obtain ⟨s', e, m, a, b⟩ := ih { s with mem := s.mem ++ intBytes s.endian n v, pos := s.pos + (intBytes s.endian n v).length } hr (by simp [hl])
      exact ⟨s', e, by rw [m]; simp [encodeFields], a, b⟩
    | raw bs =>
      simp only [serFields, S.appendRaw, put_vec s _ hr hl, Res.bind_ok]
      obtain ⟨s', e, m, a, b⟩ := ih { s with mem := s.mem ++ bs, pos := s.pos + bs.length } hr (by simp [hl])
      exact ⟨s', e, by rw [m]; simp [encodeFields], a, b⟩
    | pod bs =>
      obtain ⟨raw, cap, mem, en, pos⟩ := s
      simp only at hr hl
      cases en
      · simp only [serFields, S.appendPOD, encodeFields]
        rw [put_vec _ _ hr hl]; simp only [Res.bind_ok]
        obtain ⟨s', e, m, a, b⟩ := ih ⟨raw, cap, mem ++ bs.reverse, .big, pos + bs.reverse.length⟩ hr (by simp [hl])
        exact ⟨s', e, by rw [m]; simp, a, b⟩
      · simp only [serFields, S.appendPOD, encodeFields]
        rw [put_vec _ _ hr hl]; simp only [Res.bind_ok]
        obtain ⟨s', e, m, a, b⟩ := ih ⟨raw, cap, mem ++ bs, .little, pos + bs.length⟩ hr (by simp [hl])
        exact ⟨s', e, by rw [m]; simp, a, b⟩
    | endian e' =>
      simp only [serFields]
      obtain ⟨s', e, m, a, b⟩ := ih { s with endian := e' } hr hl
      exact ⟨s', e, by rw [m]; simp [encodeFields], a, b⟩

theorem take_at (pre bs post : List UInt8) (e : Endian) :
    D.take ⟨pre ++ bs ++ post, e, pre.length⟩ bs.length
      = .ok (some bs, ⟨pre ++ bs ++ post, e, pre.length + bs.length⟩) := by
  unfold D.take
  simp only [List.length_append]
  rw [if_pos (by omega)]
  have hd : ((pre ++ bs ++ post).drop pre.length).take bs.length = bs := by
    rw [List.append_assoc, List.drop_left, List.take_left' rfl]
  rw [hd, if_pos rfl]

/-- reading back with the same shape returns the same fields, at any offset and with any suffix -/
theorem desFields_enc : ∀ (fs : List Field) (e : Endian) (pre post : List UInt8), (∀ f ∈ fs, f.valid = true) →
    desFields ⟨pre ++ encodeFields e fs ++ post, e, pre.length⟩ fs = .ok (some fs) := by
  intro fs
  induction fs with
  | nil => intro e pre post _; rfl
  | cons f r ih =>
    intro e pre post hv
    have hr : ∀ f ∈ r, f.valid = true := fun f hf => hv f (by simp [hf])
    cases f with
    | int n v =>
      have hvn : v < 256 ^ n := by have := hv (.int n v) (by simp); simpa [Field.valid] using this
      have hl := intBytes_length e n v
      simp only [desFields, encodeFields, D.fetchInt]
      have e1 : pre ++ (intBytes e n v ++ encodeFields e r) ++ post
          = pre ++ intBytes e n v ++ (encodeFields e r ++ post) := by simp
      rw [e1]
      have := take_at pre (intBytes e n v) (encodeFields e r ++ post) e
      rw [hl] at this
      rw [this]; simp only [Res.bind_ok, Res.pure_eq, Option.map_some, intValue_intBytes]
      have e2 : pre ++ intBytes e n v ++ (encodeFields e r ++ post)
          = (pre ++ intBytes e n v) ++ encodeFields e r ++ post := by simp
      have e3 : pre.length + n = (pre ++ intBytes e n v).length := by simp [hl]
      rw [e2, e3, ih e _ post hr]
      have h8 : 2 ^ (8 * n) = 256 ^ n := by rw [Nat.pow_mul]
      simp [h8, Nat.mod_eq_of_lt hvn]
    | raw bs =>
      simp only [desFields, encodeFields, D.fetchRaw]
      have e1 : pre ++ (bs ++ encodeFields e r) ++ post = pre ++ bs ++ (encodeFields e r ++ post) := by simp
      rw [e1, take_at pre bs (encodeFields e r ++ post) e]; simp only [Res.bind_ok]
      have e2 : pre ++ bs ++ (encodeFields e r ++ post) = (pre ++ bs) ++ encodeFields e r ++ post := by simp
      have e3 : pre.length + bs.length = (pre ++ bs).length := by simp
      rw [e2, e3, ih e _ post hr]; simp
    | pod bs =>
      simp only [desFields, encodeFields, D.fetchPOD]
      cases e with
      | little =>
        simp only
        have e1 : pre ++ (bs ++ encodeFields .little r) ++ post = pre ++ bs ++ (encodeFields .little r ++ post) := by simp
        rw [e1, take_at pre bs (encodeFields .little r ++ post) .little]; simp only [Res.bind_ok, Res.pure_eq, Option.map_some]
        have e2 : pre ++ bs ++ (encodeFields .little r ++ post) = (pre ++ bs) ++ encodeFields .little r ++ post := by simp
        have e3 : pre.length + bs.length = (pre ++ bs).length := by simp
        rw [e2, e3, ih .little _ post hr]; simp
      | big =>
        simp only
        have e1 : pre ++ (bs.reverse ++ encodeFields .big r) ++ post = pre ++ bs.reverse ++ (encodeFields .big r ++ post) := by simp
        have := take_at pre bs.reverse (encodeFields .big r ++ post) .big
        rw [List.length_reverse] at this
        rw [e1, this]; simp only [Res.bind_ok, Res.pure_eq, Option.map_some, List.reverse_reverse]
        have e2 : pre ++ bs.reverse ++ (encodeFields .big r ++ post) = (pre ++ bs.reverse) ++ encodeFields .big r ++ post := by simp
        have e3 : pre.length + bs.length = (pre ++ bs.reverse).length := by simp
        rw [e2, e3, ih .big _ post hr]; simp
    | endian e' =>
      simp only [desFields, encodeFields]
      rw [ih e' pre post hr]; simp

end Tbox.C19.Ser
