/- C19 — reference definitions written independently of the repo sources (core Lean only, all
executable): RFC 4648 Base64 in arithmetic form, bitwise CRCs from the polynomials, the
one's-complement checksums in closed form, the RFC 1321 step schedule, the FIPS-197 S-box from
the GF(2^8) inverse and the affine map. The driver prints these as the expected answers for the
"equals the published algorithm" part of the property; the theorems relate them to the models. -/
import TboxModel.C19.Md5
import TboxModel.C19.Aes
namespace Tbox.C19.Spec

/-! ### Base64 (RFC 4648 §4) -/
def alphabet : List UInt8 :=
  [65, 66, 67, 68, 69, 70, 71, 72, 73, 74, 75, 76, 77, 78, 79, 80, 81, 82, 83, 84, 85, 86, 87, 88, 89, 90,
   97, 98, 99, 100, 101, 102, 103, 104, 105, 106, 107, 108, 109, 110, 111, 112, 113, 114, 115, 116, 117,
   118, 119, 120, 121, 122, 48, 49, 50, 51, 52, 53, 54, 55, 56, 57, 43, 47]

def alpha (i : Nat) : UInt8 := alphabet.getD i 0

/-- 24-bit groups → four 6-bit digits -/
def b64Encode : List UInt8 → List UInt8
  | a :: b :: c :: r =>
      let n := a.toNat * 65536 + b.toNat * 256 + c.toNat
      alpha (n / 262144) :: alpha (n / 4096 % 64) :: alpha (n / 64 % 64) :: alpha (n % 64) :: b64Encode r
  | [a, b] =>
      let n := a.toNat * 65536 + b.toNat * 256
      [alpha (n / 262144), alpha (n / 4096 % 64), alpha (n / 64 % 64), 61]
  | [a] =>
      let n := a.toNat * 65536
      [alpha (n / 262144), alpha (n / 4096 % 64), 61, 61]
  | [] => []

/-- the decode table derived from the alphabet: position of the character, 255 if absent -/
def decodeTable : List UInt8 :=
  (List.range 128).map fun c => match alphabet.idxOf? (UInt8.ofNat c) with
    | some i => UInt8.ofNat i
    | none => 255

/-! ### CRC, bit by bit from the polynomial -/
/-- CRC-32 (IEEE 802.3, reflected, polynomial 0xEDB88320): one bit -/
def crc32Bit (c : UInt32) : UInt32 := if c &&& 1 ≠ 0 then (c >>> 1) ^^^ 0xEDB88320 else c >>> 1
def crc32Bits8 (c : UInt32) : UInt32 := crc32Bit (crc32Bit (crc32Bit (crc32Bit (crc32Bit (crc32Bit (crc32Bit (crc32Bit c)))))))
def crc32Byte (c : UInt32) (b : UInt8) : UInt32 := crc32Bits8 (c ^^^ b.toUInt32)
def crc32 (data : List UInt8) (seed : UInt32) : UInt32 := ~~~ (data.foldl crc32Byte seed)

/-- CRC-16/CCITT (polynomial 0x1021, MSB first): one bit -/
def crc16Bit (c : UInt16) : UInt16 := if c &&& 0x8000 ≠ 0 then (c <<< 1) ^^^ 0x1021 else c <<< 1
def crc16Bits8 (c : UInt16) : UInt16 := crc16Bit (crc16Bit (crc16Bit (crc16Bit (crc16Bit (crc16Bit (crc16Bit (crc16Bit c)))))))
def crc16Byte (c : UInt16) (b : UInt8) : UInt16 := crc16Bits8 (c ^^^ (b.toUInt16 <<< 8))
def crc16 (data : List UInt8) (seed : UInt16) : UInt16 := data.foldl crc16Byte seed

/-! ### one's-complement checksums, closed form -/
/-- end-around-carry sum of a natural number in base m+1 digits: 0 for 0, else 1 + (s-1) mod m -/
def eac (m s : Nat) : Nat := if s = 0 then 0 else (s - 1) % m + 1

def byteSum (data : List UInt8) : Nat := (data.map UInt8.toNat).sum
def sum8 (data : List UInt8) : UInt8 := UInt8.ofNat (255 - eac 255 (byteSum data))

def wordSum : List UInt8 → Nat
  | a :: b :: r => a.toNat * 256 + b.toNat + wordSum r
  | [a] => a.toNat * 256
  | [] => 0
def sum16 (data : List UInt8) : UInt16 := UInt16.ofNat (65535 - eac 65535 (wordSum data))

/-! ### scalable integer: the number of values representable in k bytes is 128^k and the ranges are
consecutive -/
def siMinSpec : Nat → Nat
  | 0 => 0
  | 1 => 0
  | k + 1 => siMinSpec k + 128 ^ k
def siMaxSpec (k : Nat) : Nat := if k = 0 then 0 else siMinSpec k + 128 ^ k - 1

/-! ### MD5 (RFC 1321 §3.4): T[i] = ⌊2^32·|sin(i+1)|⌋, shifts, message word schedule -/
def md5T : List UInt32 := [
  3614090360, 3905402710, 606105819, 3250441966, 4118548399, 1200080426, 2821735955, 4249261313,
  1770035416, 2336552879, 4294925233, 2304563134, 1804603682, 4254626195, 2792965006, 1236535329,
  4129170786, 3225465664, 643717713, 3921069994, 3593408605, 38016083, 3634488961, 3889429448,
  568446438, 3275163606, 4107603335, 1163531501, 2850285829, 4243563512, 1735328473, 2368359562,
  4294588738, 2272392833, 1839030562, 4259657740, 2763975236, 1272893353, 4139469664, 3200236656,
  681279174, 3936430074, 3572445317, 76029189, 3654602809, 3873151461, 530742520, 3299628645,
  4096336452, 1126891415, 2878612391, 4237533241, 1700485571, 2399980690, 4293915773, 2240044497,
  1873313359, 4264355552, 2734768916, 1309151649, 4149444226, 3174756917, 718787259, 3951481745]

def md5Shift (i : Nat) : Nat :=
  ([[7, 12, 17, 22], [5, 9, 14, 20], [4, 11, 16, 23], [6, 10, 15, 21]].getD (i / 16) []).getD (i % 4) 0

def md5Word (i : Nat) : Nat :=
  match i / 16 with
  | 0 => i
  | 1 => (5 * i + 1) % 16
  | 2 => (3 * i + 5) % 16
  | _ => (7 * i) % 16

/-- register rotation of step i: (a b c d), (d a b c), (c d a b), (b c d a) -/
def md5Rot (i : Nat) : Nat × Nat × Nat × Nat :=
  match i % 4 with
  | 0 => (0, 1, 2, 3)
  | 1 => (3, 0, 1, 2)
  | 2 => (2, 3, 0, 1)
  | _ => (1, 2, 3, 0)

def md5Params : Md5.Params :=
  ⟨(List.range 64).map (fun i => (i / 16, md5Rot i, md5Word i, md5Shift i, md5T.getD i 0)),
   [0x67452301, 0xefcdab89, 0x98badcfe, 0x10325476],
   0x80 :: List.replicate 63 0⟩

/-! ### AES (FIPS-197 §5.1.1): S-box = affine ∘ multiplicative inverse in GF(2^8) -/
def gmul (a b : UInt8) : UInt8 :=
  (List.range 8).foldl (fun (acc : UInt8 × UInt8) i =>
      let (r, x) := acc
      (if (b >>> UInt8.ofNat i) &&& 1 ≠ 0 then r ^^^ x else r, Aes.xtime x)) (0, a) |>.1

def gpow (a : UInt8) : Nat → UInt8
  | 0 => 1
  | n + 1 => gmul a (gpow a n)

/-- a^254 = a⁻¹ (and 0 ↦ 0), by repeated squaring: 254 = 2+4+8+16+32+64+128 -/
def ginv (a : UInt8) : UInt8 :=
  let a2 := gmul a a; let a4 := gmul a2 a2; let a8 := gmul a4 a4; let a16 := gmul a8 a8
  let a32 := gmul a16 a16; let a64 := gmul a32 a32; let a128 := gmul a64 a64
  gmul a2 (gmul a4 (gmul a8 (gmul a16 (gmul a32 (gmul a64 a128)))))

def rotl8 (x : UInt8) (n : UInt8) : UInt8 := (x <<< n) ||| (x >>> (8 - n))
def sboxSpec (a : UInt8) : UInt8 :=
  let b := ginv a
  b ^^^ rotl8 b 1 ^^^ rotl8 b 2 ^^^ rotl8 b 3 ^^^ rotl8 b 4 ^^^ 0x63

def sboxTable : List UInt8 := (List.range 256).map (fun i => sboxSpec (UInt8.ofNat i))
/-- 64 consecutive S-box entries (the table theorem is checked in four chunks) -/
def sboxChunk (k : Nat) : List UInt8 := (List.range' (64 * k) 64).map (fun i => sboxSpec (UInt8.ofNat i))
/-- inverse table = position of each value in the S-box -/
def invSboxTable : List UInt8 :=
  (List.range 256).map fun v => UInt8.ofNat (sboxTable.idxOf (UInt8.ofNat v))
/-- round constants x^(i) in GF(2^8) -/
def rconTable : List UInt8 := (List.range 10).map (fun i => gpow 2 i)

def aesTables : Aes.Tables := ⟨sboxTable, invSboxTable, rconTable⟩

end Tbox.C19.Spec
