/- C19 — reference definitions written independently of the repo sources (core Lean only, all
executable): RFC 4648 Base64 in arithmetic form, bitwise CRCs from the polynomials, the
one's-complement checksums in closed form, the RFC 1321 step schedule, the FIPS-197 S-box from
the GF(2^8) inverse and the affine map. The driver prints these as the expected answers for the
"equals the published algorithm" part of the property; the theorems relate them to the models. -/
import TboxModel.C19.Md5
import TboxModel.C19.Aes
namespace Tbox.C19.Spec

/-! ### Base64 (RFC 4648 §4) -/
def alphabet : List UInt8 :=
  [65, 66, 67, 68, 69, 70, 71, 72, 73, 74, 75, 76, 77, 78, 79, 80, 81, 82, 83, 84, 85, 86, 87, 88, 89, 90,
   97, 98, 99, 100, 101, 102, 103, 104, 105, 106, 107, 108, 109, 110, 111, 112, 113, 114, 115, 116, 117,
   118, 119, 120, 121, 122, 48, 49, 50, 51, 52, 53, 54, 55, 56, 57, 43, 47]

def alpha (i : Nat) : UInt8 := alphabet.getD i 0

/-- 24-bit groups → four 6-bit digits -/
def b64Encode : List UInt8 → List UInt8
  | a :: b :: c :: r =>
      let n := a.toNat * 65536 + b.toNat * 256 + c.toNat
      alpha (n / 262144) :: alpha (n / 4096 % 64) :: alpha (n / 64 % 64) :: alpha (n % 64) :: b64Encode r
  | [a, b] =>
      let n := a.toNat * 65536 + b.toNat * 256
      [alpha (n / 262144), alpha (n / 4096 % 64), alpha (n / 64 % 64), 61]
  | [a] =>
      let n := a.toNat * 65536
      [alpha (n / 262144), alpha (n / 4096 % 64), 61, 61]
  | [] => []

/-- the decode table derived from the alphabet: position of the character, 255 if absent -/
def decodeTable : List UInt8 :=
  (List.range 128).map fun c => match alphabet.idxOf? (UInt8.ofNat c) with
    | some i => UInt8.ofNat i
    | none => 255

/-! ### CRC, bit by bit from the polynomial -/
/-- CRC-32 (IEEE 802.3, reflected, polynomial 0xEDB88320): one bit -/
def crc32Bit (c : UInt32) : UInt32 := if c &&& 1 ≠ 0 then (c >>> 1) ^^^ 0xEDB88320 else c >>> 1
def crc32Bits8 (c : UInt32) : UInt32 := crc32Bit (crc32Bit (crc32Bit (crc32Bit (crc32Bit (crc32Bit (crc32Bit (crc32Bit c)))))))
def crc32Byte (c : UInt32) (b : UInt8) : UInt32 := crc32Bits8 (c ^^^ b.toUInt32)
def crc32 (data : List UInt8) (seed : UInt32) : UInt32 := ~~~ (data.foldl crc32Byte seed)

/-- CRC-16/CCITT (polynomial 0x1021, MSB first): one bit -/
def crc16Bit (c : UInt16) : UInt16 := if c &&& 0x8000 ≠ 0 then (c <<< 1) ^^^ 0x1021 else c <<< 1
def crc16Bits8 (c : UInt16) : UInt16 := crc16Bit (crc16Bit (crc16Bit (crc16Bit (crc16Bit (crc16Bit (crc16Bit (crc16Bit c)))))))
def crc16Byte (c : UInt16) (b : UInt8) : UInt16 := crc16Bits8 (c ^^^ (b.toUInt16 <<< 8))
def crc16 (data : List UInt8) (seed : UInt16) : UInt16 := data.foldl crc16Byte seed

/-! ### one's-complement checksums, closed form -/
/-- end-around-carry sum of a natural number in base m+1 digits: 0 for 0, else 1 + (s-1) mod m -/
def eac (m s : Nat) : Nat := if s = 0 then 0 else (s - 1) % m + 1

def byteSum (data : List UInt8) : Nat := (data.map UInt8.toNat).sum
def sum8 (data : List UInt8) : UInt8 := UInt8.ofNat (255 - eac 255 (byteSum data))

def wordSum : List UInt8 → Nat
  | a :: b :: r => a.toNat * 256 + b.toNat + wordSum r
  | [a] => a.toNat * 256
  | [] => 0
def sum16 (data : List UInt8) : UInt16 := UInt16.ofNat (65535 - eac 65535 (wordSum data))

/-! ### scalable integer: the number of values representable in k bytes is 128^k and the ranges are
consecutive -/
def siMinSpec : Nat → Nat
  | 0 => 0
  | 1 => 0
  | k + 1 => siMinSpec k + 128 ^ k
def siMaxSpec (k : Nat) : Nat := if k = 0 then 0 else siMinSpec k + 128 ^ k - 1

/-! ### MD5 (RFC 1321 §3.4): T[i] = ⌊2^32·|sin(i+1)|⌋, shifts, message word schedule -/
def md5T : List UInt32 := [
  3614090360, 3905402710, 606105819, 3250441966, 4118548399, 1200080426, 2821735955, 4249261313,
  1770035416, 2336552879, 4294925233, 2304563134, 1804603682, 4254626195, 2792965006, 1236535329,
  4129170786, 3225465664, 643717713, 3921069994, 3593408605, 38016083, 3634488961, 3889429448,
  568446438, 3275163606, 4107603335, 1163531501, 2850285829, 4243563512, 1735328473, 2368359562,
  4294588738, 2272392833, 1839030562, 4259657740, 2763975236, 1272893353, 4139469664, 3200236656,
  681279174, 3936430074, 3572445317, 76029189, 3654602809, 3873151461, 530742520, 3299628645,
  4096336452, 1126891415, 2878612391, 4237533241, 1700485571, 2399980690, 4293915773, 2240044497,
  1873313359, 4264355552, 2734768916, 1309151649, 4149444226, 3174756917, 718787259, 3951481745]

def md5Shift (i : Nat) : Nat :=
  ([[7, 12, 17, 22], [5, 9, 14, 20], [4, 11, 16, 23], [6, 10, 15, 21]].getD (i / 16) []).getD (i % 4) 0

def md5Word (i : Nat) : Nat :=
  match i / 16 with
  | 0 => i
  | 1 => (5 * i + 1) % 16
  | 2 => (3 * i + 5) % 16
  | _ => (7 * i) % 16

/-- register rotation of step i: (a b c d), (d a b c), (c d a b), (b c d a) -/
def md5Rot (i : Nat) : Nat × Nat × Nat × Nat :=
  match i % 4 with
  | 0 => (0, 1, 2, 3)
  | 1 => (3, 0, 1, 2)
  | 2 => (2, 3, 0, 1)
  | _ => (1, 2, 3, 0)

def md5Params : Md5.Params :=
  ⟨(List.range 64).map (fun i => (i / 16, md5Rot i, md5Word i, md5Shift i, md5T.getD i 0)),
   [0x67452301, 0xefcdab89, 0x98badcfe, 0x10325476],
   0x80 :: List.replicate 63 0⟩


/-! ### MD5 (RFC 1321 §3) as one function of the whole message: pad, split in 512-bit blocks, 64 steps per block on
the rotating variables A B C D -/
abbrev Md5State := UInt32 × UInt32 × UInt32 × UInt32

def rotl32 (x : UInt32) (n : Nat) : UInt32 := (x <<< UInt32.ofNat n) ||| (x >>> UInt32.ofNat (32 - n))

/-- RFC 1321 `Decode`: little-endian bytes → 32-bit words -/
def md5Decode : List UInt8 → List UInt32
  | b0 :: b1 :: b2 :: b3 :: r =>
      (b0.toUInt32 ||| (b1.toUInt32 <<< 8) ||| (b2.toUInt32 <<< 16) ||| (b3.toUInt32 <<< 24)) :: md5Decode r
  | _ => []

/-- RFC 1321 `Encode`: words → little-endian bytes -/
def md5Encode : List UInt32 → List UInt8
  | [] => []
  | w :: r => (w &&& 0xFF).toUInt8 :: ((w >>> 8) &&& 0xFF).toUInt8 :: ((w >>> 16) &&& 0xFF).toUInt8
              :: ((w >>> 24) &&& 0xFF).toUInt8 :: md5Encode r

/-- step i (0-based) of §3.4: a = b + ((a + F/G/H/I(b,c,d) + X[k] + T[i+1]) <<< s), then the variables rotate -/
def md5Step (x : List UInt32) (s : Md5State) (i : Nat) : Md5State :=
  let (a, b, c, d) := s
  let f := match i / 16 with
    | 0 => (b &&& c) ||| (~~~b &&& d)
    | 1 => (b &&& d) ||| (c &&& ~~~d)
    | 2 => b ^^^ c ^^^ d
    | _ => c ^^^ (b ||| ~~~d)
  let t := a + f + x.getD (md5Word i) 0 + md5T.getD i 0
  (d, b + rotl32 t (md5Shift i), b, c)

/-- process one 16-word block -/
def md5Compress (s : Md5State) (block : List UInt8) : Md5State :=
  let x := md5Decode block
  let (a, b, c, d) := (List.range 64).foldl (md5Step x) s
  (s.1 + a, s.2.1 + b, s.2.2.1 + c, s.2.2.2 + d)

/-- §3.1–3.2: a single 1 bit, zeros up to 448 mod 512, the bit length (mod 2^64) low-order word first -/
def md5Pad (m : List UInt8) : List UInt8 :=
  let bits := 8 * m.length
  m ++ [0x80] ++ List.replicate ((119 - m.length % 64) % 64) 0
    ++ md5Encode [UInt32.ofNat (bits % 2 ^ 32), UInt32.ofNat (bits / 2 ^ 32 % 2 ^ 32)]

def md5Blocks : Nat → Md5State → List UInt8 → Md5State
  | 0, s, _ => s
  | fuel + 1, s, d => if 64 ≤ d.length then md5Blocks fuel (md5Compress s (d.take 64)) (d.drop 64) else s

/-- the MD5 digest of a message -/
def md5 (m : List UInt8) : List UInt8 :=
  let p := md5Pad m
  let (a, b, c, d) := md5Blocks p.length (0x67452301, 0xefcdab89, 0x98badcfe, 0x10325476) p
  md5Encode [a, b, c, d]

/-! ### AES (FIPS-197 §5.1.1): S-box = affine ∘ multiplicative inverse in GF(2^8) -/
/-- multiplication by x in GF(2^8) modulo x^8+x^4+x^3+x+1 -/
def gxtime (b : UInt8) : UInt8 := if b ≥ 0x80 then (b <<< 1) ^^^ 0x1b else b <<< 1

/-- full GF(2^8) multiplication (shift-and-add over all eight bits of the second factor) -/
def gmulAux : Nat → UInt8 → UInt8 → UInt8 → UInt8
  | 0, acc, _, _ => acc
  | n + 1, acc, a, b => gmulAux n (if b &&& 1 ≠ 0 then acc ^^^ a else acc) (gxtime a) (b >>> 1)
def gmul (a b : UInt8) : UInt8 := gmulAux 8 0 a b

def gpow (a : UInt8) : Nat → UInt8
  | 0 => 1
  | n + 1 => gmul a (gpow a n)

/-- a^254 = a⁻¹ (and 0 ↦ 0), by repeated squaring: 254 = 2+4+8+16+32+64+128 -/
def ginv (a : UInt8) : UInt8 :=
  let a2 := gmul a a; let a4 := gmul a2 a2; let a8 := gmul a4 a4; let a16 := gmul a8 a8
  let a32 := gmul a16 a16; let a64 := gmul a32 a32; let a128 := gmul a64 a64
  gmul a2 (gmul a4 (gmul a8 (gmul a16 (gmul a32 (gmul a64 a128)))))

def rotl8 (x : UInt8) (n : UInt8) : UInt8 := (x <<< n) ||| (x >>> (8 - n))
def sboxSpec (a : UInt8) : UInt8 :=
  let b := ginv a
  b ^^^ rotl8 b 1 ^^^ rotl8 b 2 ^^^ rotl8 b 3 ^^^ rotl8 b 4 ^^^ 0x63


/-! ### AES-128 (FIPS-197 §5) as functions of key and block. The state is kept in input order
(s[r,c] = in[r + 4c], §3.4), i.e. as its four column words one after the other. -/
/-- InvSubBytes byte map (§5.3.2): inverse affine map, then the GF(2^8) inverse -/
def invSboxSpec (y : UInt8) : UInt8 := ginv (rotl8 y 1 ^^^ rotl8 y 3 ^^^ rotl8 y 6 ^^^ 0x05)

def aesSubBytes (st : List UInt8) : List UInt8 := st.map sboxSpec
def aesInvSubBytes (st : List UInt8) : List UInt8 := st.map invSboxSpec

/-- §5.1.2: s'[r,c] = s[r,(c + r) mod 4] -/
def aesShiftRows (st : List UInt8) : List UInt8 :=
  (List.range 16).map fun i => st.getD (4 * ((i / 4 + i % 4) % 4) + i % 4) 0
/-- §5.3.1: s'[r,(c + r) mod 4] = s[r,c] -/
def aesInvShiftRows (st : List UInt8) : List UInt8 :=
  (List.range 16).map fun i => st.getD (4 * ((i / 4 + 4 - i % 4) % 4) + i % 4) 0

/-- §5.1.3 (5.6): one column times the fixed polynomial {03}x³+{01}x²+{01}x+{02} -/
def aesMixCol (a0 a1 a2 a3 : UInt8) : List UInt8 :=
  [gmul 2 a0 ^^^ gmul 3 a1 ^^^ a2 ^^^ a3, a0 ^^^ gmul 2 a1 ^^^ gmul 3 a2 ^^^ a3,
   a0 ^^^ a1 ^^^ gmul 2 a2 ^^^ gmul 3 a3, gmul 3 a0 ^^^ a1 ^^^ a2 ^^^ gmul 2 a3]
def aesMixColumns : List UInt8 → List UInt8
  | a0 :: a1 :: a2 :: a3 :: r => aesMixCol a0 a1 a2 a3 ++ aesMixColumns r
  | _ => []
/-- §5.3.3 (5.10): {0b}x³+{0d}x²+{09}x+{0e} -/
def aesInvMixCol (a0 a1 a2 a3 : UInt8) : List UInt8 :=
  [gmul 0x0e a0 ^^^ gmul 0x0b a1 ^^^ gmul 0x0d a2 ^^^ gmul 0x09 a3,
   gmul 0x09 a0 ^^^ gmul 0x0e a1 ^^^ gmul 0x0b a2 ^^^ gmul 0x0d a3,
   gmul 0x0d a0 ^^^ gmul 0x09 a1 ^^^ gmul 0x0e a2 ^^^ gmul 0x0b a3,
   gmul 0x0b a0 ^^^ gmul 0x0d a1 ^^^ gmul 0x09 a2 ^^^ gmul 0x0e a3]
def aesInvMixColumns : List UInt8 → List UInt8
  | a0 :: a1 :: a2 :: a3 :: r => aesInvMixCol a0 a1 a2 a3 ++ aesInvMixColumns r
  | _ => []

def aesXor (a b : List UInt8) : List UInt8 := List.zipWith (· ^^^ ·) a b

/-- §5.2 KeyExpansion for Nk = 4: the 44 words w[0..43] -/
def aesRotWord : List UInt8 → List UInt8
  | [a, b, c, d] => [b, c, d, a]
  | w => w
def aesKeyStep (ws : List (List UInt8)) (i : Nat) : List (List UInt8) :=
  let temp := ws.getD (i - 1) []
  let temp := if i % 4 = 0 then aesXor ((aesRotWord temp).map sboxSpec) [gpow 2 (i / 4 - 1), 0, 0, 0] else temp
  ws ++ [aesXor (ws.getD (i - 4) []) temp]
def aesKeyWords (key : List UInt8) : List (List UInt8) :=
  (List.range' 4 40).foldl aesKeyStep [key.take 4, (key.drop 4).take 4, (key.drop 8).take 4, (key.drop 12).take 4]
/-- round key r = words w[4r .. 4r+3] -/
def aesRoundKey (ws : List (List UInt8)) (r : Nat) : List UInt8 := ((ws.drop (4 * r)).take 4).flatten

/-- §5.1 Cipher -/
def aesCipher (key inp : List UInt8) : List UInt8 :=
  let ws := aesKeyWords key
  let st := aesXor inp (aesRoundKey ws 0)
  let st := (List.range' 1 9).foldl
    (fun st r => aesXor (aesMixColumns (aesShiftRows (aesSubBytes st))) (aesRoundKey ws r)) st
  aesXor (aesShiftRows (aesSubBytes st)) (aesRoundKey ws 10)

/-- §5.3 InvCipher -/
def aesInvCipher (key inp : List UInt8) : List UInt8 :=
  let ws := aesKeyWords key
  let st := aesXor inp (aesRoundKey ws 10)
  let st := [9, 8, 7, 6, 5, 4, 3, 2, 1].foldl
    (fun st r => aesInvMixColumns (aesXor (aesInvSubBytes (aesInvShiftRows st)) (aesRoundKey ws r))) st
  aesXor (aesInvSubBytes (aesInvShiftRows st)) (aesRoundKey ws 0)

def sboxTable : List UInt8 := (List.range 256).map (fun i => sboxSpec (UInt8.ofNat i))
/-- 64 consecutive S-box entries (the table theorem is checked in four chunks) -/
def sboxChunk (k : Nat) : List UInt8 := (List.range' (64 * k) 64).map (fun i => sboxSpec (UInt8.ofNat i))
/-- inverse table = position of each value in the S-box -/
def invSboxTable : List UInt8 :=
  (List.range 256).map fun v => UInt8.ofNat (sboxTable.idxOf (UInt8.ofNat v))
/-- round constants x^(i) in GF(2^8) -/
def rconTable : List UInt8 := (List.range 10).map (fun i => gpow 2 i)

def aesTables : Aes.Tables := ⟨sboxTable, invSboxTable, rconTable⟩

end Tbox.C19.Spec
