/- C19 — the tables extracted from the source (Gen.lean) re-checked against the standards
(whole finite tables, `decide +kernel`, chunked where a single call would be slow). -/
import TboxModel.C19.Model
import TboxModel.C19.Spec
namespace Tbox.C19
set_option maxRecDepth 100000

theorem list_four_chunks {α} (l c0 c1 c2 c3 : List α) (hl : l.length = 256)
    (h0 : (l.drop 0).take 64 = c0) (h1 : (l.drop 64).take 64 = c1)
    (h2 : (l.drop 128).take 64 = c2) (h3 : (l.drop 192).take 64 = c3) :
    l = c0 ++ c1 ++ c2 ++ c3 := by
  subst h0 h1 h2 h3
  have e3 : (l.drop 192).take 64 = l.drop 192 := by
    apply List.take_of_length_le; simp [hl]
  rw [e3]
  have a : ∀ n, l.drop n = (l.drop n).take 64 ++ l.drop (n + 64) := by
    intro n; rw [← List.drop_drop]; exact (List.take_append_drop 64 (l.drop n)).symm
  have h := a 0
  rw [a 64, a 128] at h
  simpa [List.append_assoc] using h

theorem sbox_chunk0 : (Gen.aesSbox.drop 0).take 64 = Spec.sboxChunk 0 := by decide +kernel
theorem sbox_chunk1 : (Gen.aesSbox.drop 64).take 64 = Spec.sboxChunk 1 := by decide +kernel
theorem sbox_chunk2 : (Gen.aesSbox.drop 128).take 64 = Spec.sboxChunk 2 := by decide +kernel
theorem sbox_chunk3 : (Gen.aesSbox.drop 192).take 64 = Spec.sboxChunk 3 := by decide +kernel

def sboxInvOn (lo : Nat) : Bool :=
  (List.range' lo 64).all fun i =>
    Aes.invSbox Aes.gen (Aes.sbox Aes.gen (UInt8.ofNat i)) = UInt8.ofNat i
      ∧ Aes.sbox Aes.gen (Aes.invSbox Aes.gen (UInt8.ofNat i)) = UInt8.ofNat i

theorem sbox_inv0 : sboxInvOn 0 = true := by decide +kernel
theorem sbox_inv1 : sboxInvOn 64 = true := by decide +kernel
theorem sbox_inv2 : sboxInvOn 128 = true := by decide +kernel
theorem sbox_inv3 : sboxInvOn 192 = true := by decide +kernel

end Tbox.C19
