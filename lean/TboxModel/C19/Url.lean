/- C19 — URL percent-encoding model: UrlEncode / UrlDecode of modules/http/url.cpp.
The special-character sets and the hex digit string come from Gen.lean. -/
import TboxModel.C19.Common
import TboxModel.C19.Gen
namespace Tbox.C19.Url
open Tbox.C19

/-- `std::isprint` in the "C" locale (for a negative `char` the glibc table answers 0) -/
def isPrint (c : UInt8) : Bool := 32 ≤ c ∧ c ≤ 126

def special (pathMode : Bool) : List UInt8 := if pathMode then Gen.urlPath else Gen.urlFull

def hexCh (n : UInt8) : UInt8 := Gen.urlHex.getD n.toNat 0

def encChar (pathMode : Bool) (c : UInt8) : List UInt8 :=
  if (special pathMode).contains c ∨ !isPrint c then [37, hexCh (c >>> 4), hexCh (c &&& 0xf)] else [c]

/-- `UrlEncode(local_str, path_mode)` -/
def encode (pathMode : Bool) (s : List UInt8) : List UInt8 := s.flatMap (encChar pathMode)

/-- `HexCharToValue` (throws `std::out_of_range`) -/
def hexVal (c : UInt8) : Option UInt8 :=
  if 48 ≤ c ∧ c ≤ 57 then some (c - 48)
  else if 65 ≤ c ∧ c ≤ 70 then some (c - 65 + 10)
  else if 97 ≤ c ∧ c ≤ 102 then some (c - 97 + 10)
  else none

inductive St | none | start | half
  deriving DecidableEq, Repr

def decGo : St → UInt8 → List UInt8 → List UInt8 → Res (List UInt8)
  | _, _, out, [] => .ok out
  | .none, tmp, out, c :: r =>
      if c = 37 then decGo .start 0 out r else decGo .none tmp (out ++ [c]) r
  | .start, _, out, c :: r =>
      match hexVal c with
      | some v => decGo .half (v <<< 4) out r
      | none => .exc "out_of_range"
  | .half, tmp, out, c :: r =>
      match hexVal c with
      | some v => decGo .none (tmp ||| v) (out ++ [tmp ||| v]) r
      | none => .exc "out_of_range"

/-- `UrlDecode(url_str)` -/
def decode (s : List UInt8) : Res (List UInt8) := decGo .none 0 [] s

/-! ### `Url::Host`: `UrlHostToString` / `StringToUrlHost` (user:password@host:port).
The port text goes through `std::stoi` (an `int`) and is then stored in a `uint16_t`: the narrowing is part of the
model (`toU16`). String positions are `size_t` (the code keeps one of them in an `int`, url.cpp:208 — a string of
2^31 bytes is out of reach, positions are naturals here). -/

structure Host where
  user : List UInt8 := []
  password : List UInt8 := []
  host : List UInt8 := []
  port : Nat := 0            -- uint16_t
  deriving Repr, DecidableEq

/-- `str.find_first_of(c)` -/
def find (c : UInt8) : List UInt8 → Option Nat
  | [] => none
  | x :: r => if x = c then some 0 else (find c r).map (· + 1)

/-- `str.find_first_of(c, from)` -/
def findFrom (c : UInt8) (s : List UInt8) (from_ : Nat) : Option Nat := (find c (s.drop from_)).map (· + from_)

/-- `UrlDecode` inside the `try`: `none` = it threw -/
def decodeOpt (s : List UInt8) : Option (List UInt8) :=
  match decode s with
  | .ok o => some o
  | _ => none

def isSpace (c : UInt8) : Bool := c = 32 ∨ (9 ≤ c ∧ c ≤ 13)
def isDigit (c : UInt8) : Bool := 48 ≤ c ∧ c ≤ 57
def digitsVal (ds : List UInt8) : Nat := ds.foldl (fun a c => a * 10 + (c.toNat - 48)) 0

/-- the optional sign of `strtol` -/
def stoiSign : List UInt8 → Bool × List UInt8
  | 45 :: t => (true, t)
  | 43 :: t => (false, t)
  | s => (false, s)

/-- `std::stoi(text)`: skips `isspace`, one optional sign, then decimal digits; what follows the digits is ignored.
`none` = throws (`invalid_argument` without a digit, `out_of_range` outside `int`). -/
def stoi (v : List UInt8) : Option Int :=
  let p := stoiSign (v.dropWhile isSpace)
  let ds := p.2.takeWhile isDigit
  if ds.isEmpty then none else
  let n := digitsVal ds
  if p.1 then (if n > 2 ^ 31 then none else some (- (Int.ofNat n)))
  else (if n > 2 ^ 31 - 1 then none else some (Int.ofNat n))

/-- `host.port = <int>`: implicit conversion `int` → `uint16_t` (url.cpp:218) -/
def toU16 (i : Int) : Nat := (i % 65536).toNat

/-- first half of `StringToUrlHost(str, host)` on an object that holds `old`: `user[:password]@`. `none` = `UrlDecode` threw before
anything was assigned; otherwise the object so far and `host_start_pose` (`s.length + 1` marks: threw after `user` was assigned).
`clears` = the repaired code (patch C19-09): without an '@' the user and password of a re-used object are cleared; the code as found
left them as they were. -/
def parseHostUserW (clears : Bool) (old : Host) (s : List UInt8) : Option (Host × Nat) :=
  match find 64 s with
  | none => some (if clears then { old with user := [], password := [] } else old, 0)
  | some a =>
    let userOnly : Option (Host × Nat) := (decodeOpt (s.take a)).map (fun u => ({ old with user := u, password := [] }, a + 1))
    match find 58 s with
    | none => userOnly
    | some c =>
      if c > a then userOnly
      else match decodeOpt (s.take c) with
        | none => none
        | some u =>
          match decodeOpt ((s.drop (c + 1)).take (a - c - 1)) with
          | none => some ({ old with user := u }, s.length + 1)      -- marker: failed after `user` was assigned
          | some p => some ({ old with user := u, password := p }, a + 1)

/-- second half: `host[:port]` from `host_start_pose` on -/
def parseHostTail (h1 : Host) (s : List UInt8) (start : Nat) : Bool × Host :=
  if start > s.length then (false, h1) else
  match findFrom 58 s start with
  | none =>
    match decodeOpt (s.drop start) with
    | none => (false, h1)
    | some hs => (true, { h1 with host := hs, port := 0 })
  | some c =>
    match decodeOpt ((s.drop start).take (c - start)) with
    | none => (false, h1)
    | some hs =>
      match stoi (s.drop (c + 1)) with
      | none => (false, { h1 with host := hs })
      | some i => (true, { h1 with host := hs, port := toU16 i })

/-- `StringToUrlHost(str, host)` on an object holding `old`: the return value and the object as left behind (fields assigned before a
failing `UrlDecode` / `std::stoi` keep their new values, the others their old ones) -/
def parseHostIntoW (clears : Bool) (old : Host) (s : List UInt8) : Bool × Host :=
  match parseHostUserW clears old s with
  | none => (false, old)
  | some (h1, start) => parseHostTail h1 s start

/-- the code after patch C19-09 / the code as found -/
def parseHostInto (old : Host) (s : List UInt8) : Bool × Host := parseHostIntoW true old s
def parseHostIntoOrig (old : Host) (s : List UInt8) : Bool × Host := parseHostIntoW false old s

/-- on a default-constructed object (both variants agree there) -/
def parseHostUser (s : List UInt8) : Option (Host × Nat) := parseHostUserW true {} s
def parseHost (s : List UInt8) : Bool × Host := parseHostInto {} s

/-- decimal digits of a natural (`operator<<(uint16_t)`) -/
def decimal (n : Nat) : List UInt8 :=
  if n < 10 then [UInt8.ofNat (48 + n)] else decimal (n / 10) ++ [UInt8.ofNat (48 + n % 10)]

/-- `UrlHostToString(host)` -/
def hostToString (h : Host) : List UInt8 :=
  (if h.user.isEmpty then [] else h.user ++ (if h.password.isEmpty then [] else 58 :: h.password) ++ [64])
    ++ h.host ++ (if h.port = 0 then [] else 58 :: decimal h.port)

/-- a token `UrlHostToString` can print so that `StringToUrlHost` reads it back: none of `% @ :` (nothing is encoded when printing) -/
def tokOk (b : List UInt8) : Bool := b.all fun c => c != 37 && c != 64 && c != 58

/-- well-formed host value: printable tokens, a password only with a user, the port a `uint16_t` -/
def Host.wf (h : Host) : Bool :=
  tokOk h.user && tokOk h.password && tokOk h.host && (!h.user.isEmpty || h.password.isEmpty) && decide (h.port < 65536)

end Tbox.C19.Url
