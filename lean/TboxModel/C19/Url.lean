/- C19 — URL percent-encoding model: UrlEncode / UrlDecode of modules/http/url.cpp.
The special-character sets and the hex digit string come from Gen.lean. -/
import TboxModel.C19.Common
import TboxModel.C19.Gen
namespace Tbox.C19.Url
open Tbox.C19

/-- `std::isprint` in the "C" locale (for a negative `char` the glibc table answers 0) -/
def isPrint (c : UInt8) : Bool := 32 ≤ c ∧ c ≤ 126

def special (pathMode : Bool) : List UInt8 := if pathMode then Gen.urlPath else Gen.urlFull

def hexCh (n : UInt8) : UInt8 := Gen.urlHex.getD n.toNat 0

def encChar (pathMode : Bool) (c : UInt8) : List UInt8 :=
  if (special pathMode).contains c ∨ !isPrint c then [37, hexCh (c >>> 4), hexCh (c &&& 0xf)] else [c]

/-- `UrlEncode(local_str, path_mode)` -/
def encode (pathMode : Bool) (s : List UInt8) : List UInt8 := s.flatMap (encChar pathMode)

/-- `HexCharToValue` (throws `std::out_of_range`) -/
def hexVal (c : UInt8) : Option UInt8 :=
  if 48 ≤ c ∧ c ≤ 57 then some (c - 48)
  else if 65 ≤ c ∧ c ≤ 70 then some (c - 65 + 10)
  else if 97 ≤ c ∧ c ≤ 102 then some (c - 97 + 10)
  else none

inductive St | none | start | half
  deriving DecidableEq, Repr

def decGo : St → UInt8 → List UInt8 → List UInt8 → Res (List UInt8)
  | _, _, out, [] => .ok out
  | .none, tmp, out, c :: r =>
      if c = 37 then decGo .start 0 out r else decGo .none tmp (out ++ [c]) r
  | .start, _, out, c :: r =>
      match hexVal c with
      | some v => decGo .half (v <<< 4) out r
      | none => .exc "out_of_range"
  | .half, tmp, out, c :: r =>
      match hexVal c with
      | some v => decGo .none (tmp ||| v) (out ++ [tmp ||| v]) r
      | none => .exc "out_of_range"

/-- `UrlDecode(url_str)` -/
def decode (s : List UInt8) : Res (List UInt8) := decGo .none 0 [] s

end Tbox.C19.Url
