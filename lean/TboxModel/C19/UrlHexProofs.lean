/- C19 — URL percent-encoding and hex-string round trips. -/
import TboxModel.C19.Url
import TboxModel.C19.Hex
import TboxModel.C19.B64Proofs
namespace Tbox.C19.Url
open Tbox.C19 Tbox.C19.B64
set_option maxRecDepth 100000

theorem percent_special : ∀ pm : Bool, (special pm).contains 37 = true := by decide +kernel

/-- an escaped byte decodes to itself: both hex digits are recognised and recombine to the byte -/
theorem escape_ok (c : UInt8) :
    hexVal (hexCh (c >>> 4)) = some (c >>> 4) ∧ hexVal (hexCh (c &&& 0xf)) = some (c &&& 0xf)
      ∧ ((c >>> 4) <<< 4) ||| (c &&& 0xf) = c := by
  revert c; apply u8_all; decide +kernel

theorem dec_encChar (pm : Bool) (c tmp : UInt8) (out r : List UInt8) :
    ∃ tmp', decGo .none tmp out (encChar pm c ++ r) = decGo .none tmp' (out ++ [c]) r := by
  unfold encChar
  by_cases h : ((special pm).contains c ∨ (!isPrint c) = true)
  · rw [if_pos h]
    obtain ⟨h1, h2, h3⟩ := escape_ok c
    refine ⟨((c >>> 4) <<< 4) ||| (c &&& 0xf), ?_⟩
    simp only [List.cons_append, List.nil_append]
    rw [decGo]; simp only [if_true]
    rw [decGo]; simp only [h1]
    rw [decGo]; simp only [h2, h3]
  · rw [if_neg h]
    have hc : c ≠ 37 := by
      intro e; subst e; exact h (Or.inl (percent_special pm))
    refine ⟨tmp, ?_⟩
    simp only [List.cons_append, List.nil_append]
    rw [decGo]; simp only [hc, if_false]

theorem dec_enc (pm : Bool) : ∀ (s : List UInt8) (tmp : UInt8) (out : List UInt8),
    decGo .none tmp out (encode pm s) = .ok (out ++ s) := by
  intro s
  induction s with
  | nil => intro tmp out; simp [encode, decGo]
  | cons c s ih =>
    intro tmp out
    have : encode pm (c :: s) = encChar pm c ++ encode pm s := by simp [encode]
    rw [this]
    obtain ⟨tmp', e⟩ := dec_encChar pm c tmp out (encode pm s)
    rw [e, ih]; simp

end Tbox.C19.Url

namespace Tbox.C19.Hex
open Tbox.C19 Tbox.C19.B64
set_option maxRecDepth 100000

/-- the two digits written for a byte are read back as that byte (both letter cases) -/
theorem pair_digits (upper : Bool) (b : UInt8) :
    pairVal (digitChar upper (b.toNat / 16)) (digitChar upper (b.toNat % 16)) = .ok b := by
  cases upper
  · revert b; apply u8_all; decide +kernel
  · revert b; apply u8_all; decide +kernel

theorem rawToHex_nodelim (upper : Bool) : ∀ x : List UInt8, rawToHex upper [] x = x.flatMap (byteChars upper)
  | [] => rfl
  | [b] => by simp [rawToHex]
  | b :: c :: r => by
    have := rawToHex_nodelim upper (c :: r)
    simp only [rawToHex, List.append_nil, this, List.flatMap_cons]

theorem toBufGo_digits (upper : Bool) (cap : Nat) : ∀ (x : List UInt8) (out : List UInt8),
    out.length + x.length ≤ cap → toBufGo cap out (x.flatMap (byteChars upper)) = .ok (out ++ x) := by
  intro x
  induction x with
  | nil => intro out _; simp [toBufGo]
  | cons b r ih =>
    intro out h
    simp only [List.length_cons] at h
    simp only [List.flatMap_cons, byteChars, List.cons_append, List.nil_append]
    rw [toBufGo]
    simp only [show out.length < cap by omega, if_true, pair_digits, Res.bind_ok]
    rw [ih _ (by simp; omega)]; simp

end Tbox.C19.Hex

/-! ### vector readers -/
namespace Tbox.C19.Hex
open Tbox.C19 Tbox.C19.B64
set_option maxRecDepth 100000

theorem zipIdx_drop : ∀ (l : List UInt8) (n k : Nat), (l.zipIdx n).drop k = (l.drop k).zipIdx (n + k) := by
  intro l
  induction l with
  | nil => intro n k; simp
  | cons a t ih =>
    intro n k
    cases k with
    | zero => simp
    | succ k => simp only [List.zipIdx_cons, List.drop_succ_cons, ih]; congr 1; omega

theorem find_zipIdx (q : UInt8 → Bool) : ∀ (l : List UInt8) (n : Nat),
    ((l.zipIdx n).find? (fun p => q p.1)).map (·.2) = (l.findIdx? q).map (n + ·) := by
  intro l
  induction l with
  | nil => intro n; simp
  | cons a t ih =>
    intro n
    simp only [List.zipIdx_cons, List.find?_cons, List.findIdx?_cons]
    by_cases h : q a = true
    · simp [h]
    · have h' : q a = false := by simpa using h
      simp only [h', Bool.false_eq_true, if_false]
      rw [ih (n + 1)]
      cases List.findIdx? q t with
      | none => rfl
      | some k => simp only [Option.map_some]; congr 1; omega

theorem findFirstOf_eq (s set : List UInt8) (from_ : Nat) :
    findFirstOf s set from_ = ((s.drop from_).findIdx? (fun c => set.contains c)).elim npos (from_ + ·) := by
  unfold findFirstOf
  rw [zipIdx_drop]
  have e := find_zipIdx (fun c => set.contains c) (s.drop from_) (0 + from_)
  rw [Nat.zero_add] at e ⊢
  cases hf : ((s.drop from_).zipIdx from_).find? (fun p => set.contains p.1) with
  | none => rw [hf] at e; simp only [Option.map_none] at e
            cases hg : (s.drop from_).findIdx? (fun c => set.contains c) with
            | none => rfl
            | some k => rw [hg] at e; simp at e
  | some p => rw [hf] at e; simp only [Option.map_some] at e
              cases hg : (s.drop from_).findIdx? (fun c => set.contains c) with
              | none => rw [hg] at e; simp at e
              | some k => rw [hg] at e; simp only [Option.map_some, Option.some.injEq] at e
                          simp [e]

theorem findFirstNotOf_eq (s set : List UInt8) (from_ : Nat) :
    findFirstNotOf s set from_ = ((s.drop from_).findIdx? (fun c => !set.contains c)).elim npos (from_ + ·) := by
  unfold findFirstNotOf
  rw [zipIdx_drop]
  have e := find_zipIdx (fun c => !set.contains c) (s.drop from_) (0 + from_)
  rw [Nat.zero_add] at e ⊢
  cases hf : ((s.drop from_).zipIdx from_).find? (fun p => !set.contains p.1) with
  | none => rw [hf] at e; simp only [Option.map_none] at e
            cases hg : (s.drop from_).findIdx? (fun c => !set.contains c) with
            | none => rfl
            | some k => rw [hg] at e; simp at e
  | some p => rw [hf] at e; simp only [Option.map_some] at e
              cases hg : (s.drop from_).findIdx? (fun c => !set.contains c) with
              | none => rw [hg] at e; simp at e
              | some k => rw [hg] at e; simp only [Option.map_some, Option.some.injEq] at e
                          simp [e]

theorem findLastNotOf_concat (init set : List UInt8) (l : UInt8) (h : set.contains l = false) :
    findLastNotOf (init ++ [l]) set = init.length := by
  unfold findLastNotOf
  rw [List.zipIdx_append, List.reverse_append]
  simp only [List.zipIdx_cons, List.zipIdx_nil, List.reverse_cons, List.reverse_nil, List.nil_append,
    List.cons_append, List.find?_cons, h, Bool.not_false, Nat.zero_add]

/-- hex digit characters are neither blanks nor anything but digits -/
theorem digit_not_ws : ∀ (upper : Bool) (n : Fin 16), [32, 9].contains (digitChar upper n.val) = false := by decide +kernel

/-- digits of a byte -/
theorem charVal_digits (upper : Bool) (b : UInt8) :
    charVal (digitChar upper (b.toNat / 16)) = .ok (UInt8.ofNat (b.toNat / 16))
      ∧ charVal (digitChar upper (b.toNat % 16)) = .ok (UInt8.ofNat (b.toNat % 16))
      ∧ (UInt8.ofNat (b.toNat / 16) <<< 4) ||| UInt8.ofNat (b.toNat % 16) = b
      ∧ (UInt8.ofNat (b.toNat / 16) <<< 4) ||| (UInt8.ofNat (b.toNat % 16) &&& 0x0f) = b := by
  cases upper
  · revert b; apply u8_all; decide +kernel
  · revert b; apply u8_all; decide +kernel

end Tbox.C19.Hex

namespace Tbox.C19.Hex
open Tbox.C19 Tbox.C19.B64

/-! ### vector reader without delimiter -/
theorem flatMap_digits_get (upper : Bool) : ∀ (x : List UInt8) (i : Nat) (h : i < x.length),
    (x.flatMap (byteChars upper))[2 * i]? = some (digitChar upper (x[i].toNat / 16))
      ∧ (x.flatMap (byteChars upper))[2 * i + 1]? = some (digitChar upper (x[i].toNat % 16)) := by
  intro x
  induction x with
  | nil => intro i h; simp at h
  | cons b r ih =>
    intro i h
    cases i with
    | zero => simp [byteChars]
    | succ j =>
      have := ih j (by simpa using h)
      simp only [List.flatMap_cons, byteChars, List.cons_append, List.nil_append]
      have e1 : 2 * (j + 1) = 2 * j + 1 + 1 := by omega
      have e2 : 2 * (j + 1) + 1 = 2 * j + 1 + 1 + 1 := by omega
      rw [e2, e1]
      simpa using this

theorem flatMap_digits_length (upper : Bool) (x : List UInt8) : (x.flatMap (byteChars upper)).length = 2 * x.length := by
  induction x with
  | nil => rfl
  | cons b r ih => simp only [List.flatMap_cons, List.length_append, ih, byteChars, List.length_cons, List.length_nil]; omega

theorem noDelim_loop (upper : Bool) (x : List UInt8) (hx : 2 * x.length < 2 ^ 64) : ∀ (k i fuel : Nat), i + k = x.length → k + 1 ≤ fuel →
    noDelimGo (x.flatMap (byteChars upper)) 0 (2 * x.length) fuel i (x.take i) = ⟨none, x⟩ := by
  intro k
  induction k with
  | zero =>
    intro i fuel hi hf
    obtain ⟨f, rfl⟩ : ∃ f, fuel = f + 1 := ⟨fuel - 1, by omega⟩
    simp only [Nat.add_zero] at hi
    rw [noDelimGo, if_neg (by omega), hi, List.take_length]
  | succ k ih =>
    intro i fuel hi hf
    obtain ⟨f, rfl⟩ : ∃ f, fuel = f + 1 := ⟨fuel - 1, by omega⟩
    have hil : i < x.length := by omega
    obtain ⟨g1, g2⟩ := flatMap_digits_get upper x i hil
    rw [noDelimGo, if_pos (by omega)]
    have m1 : (0 + 2 * i) % 2 ^ 64 = 2 * i := by rw [Nat.zero_add]; exact Nat.mod_eq_of_lt (by omega)
    have m2 : (0 + 2 * i + 1) % 2 ^ 64 = 2 * i + 1 := by rw [Nat.zero_add]; exact Nat.mod_eq_of_lt (by omega)
    simp only [m1, m2, strAt, g1, g2, Res.bind_ok, pair_digits]
    have : x.take i ++ [x[i]] = x.take (i + 1) := by
      rw [List.take_add_one, List.getElem?_eq_getElem hil]; rfl
    rw [this]
    exact ih (i + 1) f (by omega) (by omega)

theorem toVecNoDelim_digits (upper : Bool) (x : List UInt8) (hx : 2 * x.length < 2 ^ 64 - 1) :
    toVecNoDelim (x.flatMap (byteChars upper)) = ⟨none, x⟩ := by
  have hnp : npos = 2 ^ 64 - 1 := rfl
  cases x with
  | nil => simp [toVecNoDelim, findFirstNotOf, npos]
  | cons b r =>
    have hlen := flatMap_digits_length upper (b :: r)
    -- first character is a digit
    have hstart : findFirstNotOf ((b :: r).flatMap (byteChars upper)) [32, 9] 0 = 0 := by
      rw [findFirstNotOf_eq]
      have hb := b.toNat_lt
      have := digit_not_ws upper ⟨b.toNat / 16, by omega⟩
      simp only [List.flatMap_cons, byteChars, List.cons_append, List.drop_zero, List.findIdx?_cons, this]
      simp
    -- last character is a digit
    obtain ⟨init, l, hl, hlws⟩ : ∃ init l, (b :: r).flatMap (byteChars upper) = init ++ [l] ∧ [32, 9].contains l = false := by
      rcases List.eq_nil_or_concat (b :: r) with h | ⟨r', b', h⟩
      · simp at h
      · have hb := b'.toNat_lt
        refine ⟨r'.flatMap (byteChars upper) ++ [digitChar upper (b'.toNat / 16)], digitChar upper (b'.toNat % 16), ?_,
          digit_not_ws upper ⟨b'.toNat % 16, by omega⟩⟩
        rw [h]; simp [byteChars]
    have hlast : findLastNotOf ((b :: r).flatMap (byteChars upper)) [32, 9] = init.length := by
      rw [hl]; exact findLastNotOf_concat init [32, 9] l hlws
    have hil : init.length + 1 = 2 * (b :: r).length := by
      rw [← hlen, hl]; simp
    unfold toVecNoDelim
    simp only [hstart, hlast]
    rw [if_neg (by rw [hnp]; omega)]
    have e1 : (init.length + 1) % 2 ^ 64 = 2 * (b :: r).length := by rw [hil]; exact Nat.mod_eq_of_lt (by omega)
    rw [e1]
    have e2 : (2 * (b :: r).length + 2 ^ 64 - 0) % 2 ^ 64 = 2 * (b :: r).length := by
      rw [Nat.sub_zero, Nat.add_mod_right]; exact Nat.mod_eq_of_lt (by omega)
    rw [e2]
    have := noDelim_loop upper (b :: r) (by omega) (b :: r).length 0 (((b :: r).flatMap (byteChars upper)).length + 2)
      (by omega) (by rw [hlen]; omega)
    simpa using this

end Tbox.C19.Hex

namespace Tbox.C19.Hex
open Tbox.C19 Tbox.C19.B64

/-! ### vector reader with a delimiter set -/

/-- no character of the delimiter is a hex digit of the chosen letter case -/
def delimOk (upper : Bool) (delim : List UInt8) : Prop := ∀ n, n < 16 → digitChar upper n ∉ delim

theorem findIdx_skip (p : UInt8 → Bool) : ∀ (xs : List UInt8) (y : UInt8) (ys : List UInt8),
    (∀ x ∈ xs, p x = false) → p y = true → (xs ++ y :: ys).findIdx? p = some xs.length := by
  intro xs
  induction xs with
  | nil => intro y ys _ hy; simp [List.findIdx?_cons, hy]
  | cons a t ih =>
    intro y ys hx hy
    have ha : p a = false := hx a (by simp)
    simp only [List.cons_append, List.findIdx?_cons, ha, Bool.false_eq_true, if_false,
      ih y ys (fun x h => hx x (by simp [h])) hy]
    simp

theorem rawToHex_cons2 (upper : Bool) (delim : List UInt8) (b c : UInt8) (r : List UInt8) :
    rawToHex upper delim (b :: c :: r) = byteChars upper b ++ delim ++ rawToHex upper delim (c :: r) := by
  simp [rawToHex]

theorem rawToHex_head (upper : Bool) (delim : List UInt8) : ∀ (b : UInt8) (r : List UInt8),
    ∃ rest, rawToHex upper delim (b :: r) = digitChar upper (b.toNat / 16) :: digitChar upper (b.toNat % 16) :: rest
  | b, [] => ⟨[], by simp [rawToHex, byteChars]⟩
  | b, c :: r => ⟨delim ++ rawToHex upper delim (c :: r), by simp [rawToHex, byteChars]⟩

theorem rawToHex_length_ge (upper : Bool) (delim : List UInt8) : ∀ x : List UInt8, x.length ≤ (rawToHex upper delim x).length
  | [] => by simp [rawToHex]
  | [b] => by simp [rawToHex, byteChars]
  | b :: c :: r => by
    have := rawToHex_length_ge upper delim (c :: r)
    rw [rawToHex_cons2]; simp only [List.length_append, byteChars, List.length_cons, List.length_nil] at this ⊢; omega

theorem delimGo_npos (s delim : List UInt8) (fuel : Nat) (out : List UInt8) : delimGo s delim fuel npos out = ⟨none, out⟩ := by
  cases fuel with
  | zero => rw [delimGo]
  | succ f => rw [delimGo, if_pos rfl]

theorem delim_loop (upper : Bool) (s delim : List UInt8) (hd : delimOk upper delim) (hne : delim ≠ []) (hs : s.length < npos) :
    ∀ (xr : List UInt8), xr ≠ [] → ∀ (start fuel : Nat) (out : List UInt8), xr.length ≤ fuel →
      s.drop start = rawToHex upper delim xr → delimGo s delim fuel start out = ⟨none, out ++ xr⟩ := by
  have hnp : npos = 2 ^ 64 - 1 := rfl
  intro xr
  induction xr with
  | nil => intro h; exact absurd rfl h
  | cons b r ih =>
    intro _ start fuel out hf hdrop
    obtain ⟨f, rfl⟩ : ∃ f, fuel = f + 1 := ⟨fuel - 1, by simp at hf; omega⟩
    have hb := b.toNat_lt
    have n1 : digitChar upper (b.toNat / 16) ∉ delim := hd _ (by omega)
    have n2 : digitChar upper (b.toNat % 16) ∉ delim := hd _ (by omega)
    obtain ⟨c1, c2, c3, _⟩ := charVal_digits upper b
    cases r with
    | nil =>
      have hL : s.drop start = [digitChar upper (b.toNat / 16), digitChar upper (b.toNat % 16)] := by
        rw [hdrop]; simp [rawToHex, byteChars]
      have hlen : s.length = start + 2 := by
        have := congrArg List.length hL; simp at this; omega
      have g0 : s[start]? = some (digitChar upper (b.toNat / 16)) := by
        have := @List.getElem?_drop _ s start 0; rw [hL] at this; simpa using this.symm
      have g1 : s[start + 1]? = some (digitChar upper (b.toNat % 16)) := by
        have := @List.getElem?_drop _ s start 1; rw [hL] at this; simpa using this.symm
      have hfo : findFirstOf s delim start = npos := by
        rw [findFirstOf_eq, hL]
        simp [List.findIdx?_cons, n1, n2]
      have hnext : findFirstNotOf s delim s.length = npos := by
        rw [findFirstNotOf_eq]; simp
      have hsn : start ≠ npos := by omega
      rw [delimGo, if_neg hsn]
      simp only [hfo, if_true, hlen, show start + 2 - start = 2 by omega]
      simp only [show ¬ (2 = 1) by omega, if_false, strAt, g0, g1, Res.bind_ok, c1, c2, Res.pure_eq, c3]
      rw [← hlen, hnext, delimGo_npos]
    | cons c r =>
      obtain ⟨d0, dt, hdel⟩ : ∃ d0 dt, delim = d0 :: dt := by
        cases delim with
        | nil => exact absurd rfl hne
        | cons a t => exact ⟨a, t, rfl⟩
      have hL : s.drop start = digitChar upper (b.toNat / 16) :: digitChar upper (b.toNat % 16)
          :: (delim ++ rawToHex upper delim (c :: r)) := by
        rw [hdrop, rawToHex_cons2]; simp [byteChars]
      have hlen : start + 2 + delim.length + (rawToHex upper delim (c :: r)).length = s.length := by
        have := congrArg List.length hL; simp at this; omega
      have g0 : s[start]? = some (digitChar upper (b.toNat / 16)) := by
        have := @List.getElem?_drop _ s start 0; rw [hL] at this; simpa using this.symm
      have g1 : s[start + 1]? = some (digitChar upper (b.toNat % 16)) := by
        have := @List.getElem?_drop _ s start 1; rw [hL] at this; simpa using this.symm
      have hd0 : delim.contains d0 = true := by rw [hdel]; simp
      have hfo : findFirstOf s delim start = start + 2 := by
        rw [findFirstOf_eq, hL]
        have := findIdx_skip (fun c => delim.contains c)
          [digitChar upper (b.toNat / 16), digitChar upper (b.toNat % 16)] d0 (dt ++ rawToHex upper delim (c :: r))
          (by intro x hx; simp at hx; rcases hx with rfl | rfl
              · simpa using n1
              · simpa using n2) hd0
        have e : digitChar upper (b.toNat / 16) :: digitChar upper (b.toNat % 16) :: (delim ++ rawToHex upper delim (c :: r))
            = [digitChar upper (b.toNat / 16), digitChar upper (b.toNat % 16)] ++ d0 :: (dt ++ rawToHex upper delim (c :: r)) := by
          rw [hdel]; simp
        rw [e, this]; rfl
      have hdrop2 : s.drop (start + 2) = delim ++ rawToHex upper delim (c :: r) := by
        rw [← List.drop_drop, hL]; rfl
      obtain ⟨rest, hhead⟩ := rawToHex_head upper delim c r
      have hc := c.toNat_lt
      have n3 : digitChar upper (c.toNat / 16) ∉ delim := hd _ (by omega)
      have hnext : findFirstNotOf s delim (start + 2) = start + 2 + delim.length := by
        rw [findFirstNotOf_eq, hdrop2, hhead]
        rw [findIdx_skip (fun c => !delim.contains c) delim _ _
          (by intro x hx; simp [hx]) (by simpa using n3)]
        rfl
      have hdrop3 : s.drop (start + 2 + delim.length) = rawToHex upper delim (c :: r) := by
        rw [← List.drop_drop, hdrop2, List.drop_left]
      have hsn : start ≠ npos := by omega
      have hsn2 : start + 2 ≠ npos := by omega
      rw [delimGo, if_neg hsn]
      simp only [hfo]
      rw [if_neg hsn2]
      simp only [show start + 2 - start = 2 by omega, show ¬ (2 = 1) by omega, if_false, if_true, strAt, g0, g1,
        Res.bind_ok, c1, c2, Res.pure_eq, c3, hnext]
      rw [ih (by simp) _ f _ (by simp at hf ⊢; omega) hdrop3]
      simp

theorem toVecDelim_digits (upper : Bool) (delim x : List UInt8) (hd : delimOk upper delim) (hne : delim ≠ [])
    (hs : (rawToHex upper delim x).length < npos) :
    toVecDelim (rawToHex upper delim x) delim = ⟨none, x⟩ := by
  unfold toVecDelim
  cases x with
  | nil => simp [rawToHex, findFirstNotOf, delimGo_npos]
  | cons b r =>
    obtain ⟨rest, hhead⟩ := rawToHex_head upper delim b r
    have hb := b.toNat_lt
    have hstart : findFirstNotOf (rawToHex upper delim (b :: r)) delim 0 = 0 := by
      rw [findFirstNotOf_eq, List.drop_zero, hhead]
      have n1 : digitChar upper (b.toNat / 16) ∉ delim := hd _ (by omega)
      simp [List.findIdx?_cons, n1]
    rw [hstart]
    have := delim_loop upper _ delim hd hne hs (b :: r) (by simp) 0 ((rawToHex upper delim (b :: r)).length + 1) []
      (by have := rawToHex_length_ge upper delim (b :: r); omega) (by simp)
    simpa using this

end Tbox.C19.Hex
