/- C19 — URL percent-encoding and hex-string round trips. -/
import TboxModel.C19.Url
import TboxModel.C19.Hex
import TboxModel.C19.B64Proofs
namespace Tbox.C19.Url
open Tbox.C19 Tbox.C19.B64
set_option maxRecDepth 100000

theorem percent_special : ∀ pm : Bool, (special pm).contains 37 = true := by decide +kernel

/-- an escaped byte decodes to itself: both hex digits are recognised and recombine to the byte -/
theorem escape_ok (c : UInt8) :
    hexVal (hexCh (c >>> 4)) = some (c >>> 4) ∧ hexVal (hexCh (c &&& 0xf)) = some (c &&& 0xf)
      ∧ ((c >>> 4) <<< 4) ||| (c &&& 0xf) = c := by
  revert c; apply u8_all; decide +kernel

theorem dec_encChar (pm : Bool) (c tmp : UInt8) (out r : List UInt8) :
    ∃ tmp', decGo .none tmp out (encChar pm c ++ r) = decGo .none tmp' (out ++ [c]) r := by
  unfold encChar
  by_cases h : ((special pm).contains c ∨ (!isPrint c) = true)
  · rw [if_pos h]
    obtain ⟨h1, h2, h3⟩ := escape_ok c
    refine ⟨((c >>> 4) <<< 4) ||| (c &&& 0xf), ?_⟩
    simp only [List.cons_append, List.nil_append]
    rw [decGo]; simp only [if_true]
    rw [decGo]; simp only [h1]
    rw [decGo]; simp only [h2, h3]
  · rw [if_neg h]
    have hc : c ≠ 37 := by
      intro e; subst e; exact h (Or.inl (percent_special pm))
    refine ⟨tmp, ?_⟩
    simp only [List.cons_append, List.nil_append]
    rw [decGo]; simp only [hc, if_false]

theorem dec_enc (pm : Bool) : ∀ (s : List UInt8) (tmp : UInt8) (out : List UInt8),
    decGo .none tmp out (encode pm s) = .ok (out ++ s) := by
  intro s
  induction s with
  | nil => intro tmp out; simp [encode, decGo]
  | cons c s ih =>
    intro tmp out
    have : encode pm (c :: s) = encChar pm c ++ encode pm s := by simp [encode]
    rw [this]
    obtain ⟨tmp', e⟩ := dec_encChar pm c tmp out (encode pm s)
    rw [e, ih]; simp

end Tbox.C19.Url

namespace Tbox.C19.Hex
open Tbox.C19 Tbox.C19.B64
set_option maxRecDepth 100000

/-- the two digits written for a byte are read back as that byte (both letter cases) -/
theorem pair_digits (upper : Bool) (b : UInt8) :
    pairVal (digitChar upper (b.toNat / 16)) (digitChar upper (b.toNat % 16)) = .ok b := by
  cases upper
  · revert b; apply u8_all; decide +kernel
  · revert b; apply u8_all; decide +kernel

theorem rawToHex_nodelim (upper : Bool) : ∀ x : List UInt8, rawToHex upper [] x = x.flatMap (byteChars upper)
  | [] => rfl
  | [b] => by simp [rawToHex]
  | b :: c :: r => by
    have := rawToHex_nodelim upper (c :: r)
    simp only [rawToHex, List.append_nil, this, List.flatMap_cons]

theorem toBufGo_digits (upper : Bool) (cap : Nat) : ∀ (x : List UInt8) (out : List UInt8),
    out.length + x.length ≤ cap → toBufGo cap out (x.flatMap (byteChars upper)) = .ok (out ++ x) := by
  intro x
  induction x with
  | nil => intro out _; simp [toBufGo]
  | cons b r ih =>
    intro out h
    simp only [List.length_cons] at h
    simp only [List.flatMap_cons, byteChars, List.cons_append, List.nil_append]
    rw [toBufGo]
    simp only [show out.length < cap by omega, if_true, pair_digits, Res.bind_ok]
    rw [ih _ (by simp; omega)]; simp

end Tbox.C19.Hex
