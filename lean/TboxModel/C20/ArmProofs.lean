/- C20 — helper lemmas: arming arithmetic of activeTimer, state-machine invariant per operation -/
import TboxModel.C20.Proofs
import TboxModel.C20.CronProofs
namespace Tbox.C20

theorem delayMs_exact (r ms : Nat) (hr : r < U32) (h1 : 1 ≤ r) (hms : ms < 1000) :
    delayMs r ms = r * 1000 - ms := by
  simp only [U32_eq] at hr
  unfold delayMs
  simp [UInt64.toNat_sub, UInt64.toNat_mul, UInt64.toNat_ofNat']
  omega

theorem oneshot_lt (sod t : Nat) (hs : sod < D) (ht : t + 2 * D ≤ U32) : nextOneshot sod t < t + 2 * D := by
  simp only [D_eq, U32_eq] at hs ht
  have hc0 : t - t % D + sod < U32 := by simp only [D_eq, U32_eq]; omega
  have hc1 : t - t % D + sod + D < U32 := by simp only [D_eq, U32_eq]; omega
  unfold nextOneshot
  simp only [w32_of_lt hc0, w32_of_lt hc1]
  simp only [D_eq]
  by_cases hge : t ≥ t - t % 86400 + sod
  · simp only [hge, if_true]; omega
  · simp only [hge, if_false]; omega

/-- the three classic computations stay within 368 days (and below 2^32) -/
theorem calcNext_near (a : Alarm) (cal : Calendar) (t nl : Nat) (hc : a.cls ≠ .cron) (hs : a.sod < D) (ht : t + 368 * D ≤ U32)
    (h : calcNext a cal t = some nl) : nl < t + 368 * D := by
  have hD := D_eq
  unfold calcNext at h
  cases hcl : a.cls with
  | weekly =>
    simp only [hcl] at h
    have := weekly_some a.sod a.mask t nl hs (by omega) h
    omega
  | oneshot =>
    simp only [hcl, Option.some.injEq] at h
    subst h
    have := oneshot_lt a.sod t hs (by omega); omega
  | workday =>
    simp only [hcl] at h
    have := workday_some a.sod cal a.wd t nl hs ht h
    omega
  | cron => exact absurd hcl hc

/-- whatever the computation returns (below 2200 days ahead, no wrap) is the earliest matching instant -/
theorem calcNext_good (a : Alarm) (cal : Calendar) (t nl : Nat) (hs : a.sod < D) (ht : t + 2200 * D ≤ U32)
    (h : calcNext a cal t = some nl) : Earliest (Matches a cal) t nl := by
  have hD := D_eq
  have hU := U32_eq
  unfold calcNext at h
  unfold Matches
  cases hc : a.cls with
  | weekly =>
    simp only [hc] at h ⊢
    exact (weekly_some a.sod a.mask t nl hs (by omega) h).1
  | oneshot =>
    simp only [hc, Option.some.injEq] at h ⊢
    subst h
    exact oneshot_earliest a.sod t hs (by omega)
  | workday =>
    simp only [hc] at h ⊢
    exact (workday_some a.sod cal a.wd t nl hs (by omega) h).1
  | cron =>
    simp only [hc] at h ⊢
    exact Cron.nextCron_some a.expr t cronScan nl h

@[simp] theorem armed_target (a : Alarm) (e : Env) (T d : Nat) : (armed a e T d).target = T := rfl
@[simp] theorem armed_timer (a : Alarm) (e : Env) (T d : Nat) : (armed a e T d).timer = some (e.monoMs + d) := rfl
@[simp] theorem armed_st (a : Alarm) (e : Env) (T d : Nat) : (armed a e T d).st = .running := rfl
@[simp] theorem armed_lastServed (a : Alarm) (e : Env) (T d : Nat) : (armed a e T d).lastServed = a.lastServed := rfl

theorem activeTimer_of_none (a : Alarm) (e : Env)
    (hc : calcNext a e.cal (addOff (a.base e) a.offset) = none) : activeTimer a e = (a, false) := by
  unfold activeTimer; simp only [hc]; split <;> rfl

/-- gettimeofday failed: nothing is armed, nothing changes -/
theorem activeTimer_of_clock_failure (a : Alarm) (e : Env) (hg : e.gtod = false) : activeTimer a e = (a, false) := by
  unfold activeTimer; simp [hg]

theorem activeTimer_of_some (a : Alarm) (e : Env) (nl : Nat) (hg : e.gtod = true)
    (hc : calcNext a e.cal (addOff (a.base e) a.offset) = some nl) :
    activeTimer a e = (armed a e (subOff (w32 nl) a.offset) (delayMs (w32 (subOff (w32 nl) a.offset + U32 - e.sec)) e.ms), true) := by
  unfold activeTimer; simp [hg, hc]

/-- a successful arm read the clock -/
theorem activeTimer_ok_clock (a : Alarm) (e : Env) (hok : (activeTimer a e).2 = true) : e.gtod = true := by
  cases hg : e.gtod with
  | true => rfl
  | false => rw [activeTimer_of_clock_failure a e hg] at hok; cases hok

/-- the arithmetic of activeTimer without wrap (`start` = the base of the search, not before `cur`) -/
theorem arm_arith (cur start : Nat) (off : Int) (nl ms : Nat) (hcs : cur ≤ start) (hr : InRange start off)
    (h1 : addOff start off < nl) (h2 : nl < addOff start off + 2200 * D) (hms : ms < 1000) :
    ((subOff nl off : Nat) : Int) + off = nl ∧ start < subOff nl off ∧
    delayMs (w32 (subOff nl off + U32 - cur)) ms + ms = (subOff nl off - cur) * 1000 := by
  obtain ⟨r1, r2, r3⟩ := hr
  simp only [addOff, U32_eq, D_eq] at h1 h2
  have hT : ((subOff nl off : Nat) : Int) = (nl : Int) - off := by
    simp only [subOff, U32_eq]; omega
  have hlt : start < subOff nl off := by omega
  have hw : w32 (subOff nl off + U32 - cur) = subOff nl off - cur := by
    simp only [w32, U32_eq]; omega
  refine ⟨by omega, hlt, ?_⟩
  rw [hw, delayMs_exact _ _ (by simp only [U32_eq]; omega) (by omega) hms]
  omega

theorem base_ge (a : Alarm) (e : Env) : e.sec ≤ a.base e ∧ a.target ≤ a.base e ∧ a.lastServed ≤ a.base e := by
  unfold Alarm.base; omega

theorem env_ms_lt (e : Env) : e.ms < 1000 := by unfold Env.ms; omega

theorem farOk_of_some {a : Alarm} {e : Env} {nl : Nat} (hf : FarOk a e)
    (hc : calcNext a e.cal (addOff (a.base e) a.offset) = some nl) : nl < addOff (a.base e) a.offset + 2200 * 86400 := by
  unfold FarOk at hf; rw [hc] at hf; exact hf

/-- weekly / one-shot / workday alarms are always `FarOk` in range -/
theorem farOk_classic (a : Alarm) (e : Env) (hc : a.cls ≠ .cron) (hs : a.sod < D) (hr : InRange (a.base e) a.offset) : FarOk a e := by
  unfold FarOk
  cases h : calcNext a e.cal (addOff (a.base e) a.offset) with
  | none => trivial
  | some nl =>
    have hrange : addOff (a.base e) a.offset + 368 * D ≤ U32 := by
      obtain ⟨r1, r2, r3⟩ := hr
      simp only [addOff, U32_eq, D_eq]; omega
    have := calcNext_near a e.cal _ nl hc hs hrange h
    simp only [D_eq] at this
    show nl < _
    omega

/-- what a successful activeTimer establishes (no uint32 wrap in range) -/
theorem activeTimer_spec (a : Alarm) (e : Env) (hs : a.sod < D)
    (hr : InRange (a.base e) a.offset) (hf : FarOk a e) (hok : (activeTimer a e).2 = true) :
    ∃ nl T d, calcNext a e.cal (addOff (a.base e) a.offset) = some nl ∧
      activeTimer a e = (armed a e T d, true) ∧
      (T : Int) + a.offset = nl ∧ a.base e < T ∧ d + e.ms = (T - e.sec) * 1000 ∧
      Earliest (Matches a e.cal) (addOff (a.base e) a.offset) nl := by
  cases hc : calcNext a e.cal (addOff (a.base e) a.offset) with
  | none => rw [activeTimer_of_none a e hc] at hok; cases hok
  | some nl =>
    have hfar := farOk_of_some hf hc
    have hrange : addOff (a.base e) a.offset + 2200 * D ≤ U32 := by
      obtain ⟨r1, r2, r3⟩ := hr
      simp only [addOff, U32_eq, D_eq]; omega
    have hw : w32 nl = nl := w32_of_lt (by simp only [D_eq] at hrange; omega)
    have hg := calcNext_good a e.cal _ nl hs hrange hc
    have har := arm_arith e.sec (a.base e) a.offset nl e.ms (base_ge a e).1 hr hg.1 (by simp only [D_eq]; exact hfar) (env_ms_lt e)
    have heq := activeTimer_of_some a e nl (activeTimer_ok_clock a e hok) hc
    rw [hw] at heq
    exact ⟨nl, subOff nl a.offset, delayMs (w32 (subOff nl a.offset + U32 - e.sec)) e.ms, rfl,
      heq, har.1, har.2.1, har.2.2, hg⟩

/-- activeTimer changes nothing but timer / state / target -/
theorem activeTimer_fields (a : Alarm) (e : Env) :
    (activeTimer a e).1.cls = a.cls ∧ (activeTimer a e).1.nFired = a.nFired ∧
    (activeTimer a e).1.nEnabled = a.nEnabled ∧ (activeTimer a e).1.hasCb = a.hasCb ∧
    (activeTimer a e).1.subs = a.subs ∧ (activeTimer a e).1.sod = a.sod := by
  cases hg : e.gtod with
  | false => rw [activeTimer_of_clock_failure a e hg]; simp
  | true =>
  cases hc : calcNext a e.cal (addOff (a.base e) a.offset) with
  | none => rw [activeTimer_of_none a e hc]; simp
  | some nl => rw [activeTimer_of_some a e nl hg hc]; simp [armed]

/-- either armed (running, timer set) or untouched -/
theorem activeTimer_cases (a : Alarm) (e : Env) :
    ((activeTimer a e).2 = true ∧ (activeTimer a e).1.st = .running ∧ (activeTimer a e).1.timer.isSome = true) ∨
    ((activeTimer a e).2 = false ∧ (activeTimer a e).1 = a) := by
  cases hg : e.gtod with
  | false => rw [activeTimer_of_clock_failure a e hg]; simp
  | true =>
  cases hc : calcNext a e.cal (addOff (a.base e) a.offset) with
  | none => rw [activeTimer_of_none a e hc]; simp
  | some nl => rw [activeTimer_of_some a e nl hg hc]; simp [armed]

theorem activeTimer_inv (a : Alarm) (e : Env) (h : Inv a) : Inv (activeTimer a e).1 := by
  rcases activeTimer_cases a e with ⟨_, h1, h2⟩ | ⟨_, h1⟩
  · unfold Inv; simp [h1, h2]
  · rw [h1]; exact h

theorem inv_of_idle {a : Alarm} (h1 : a.st ≠ .running) (h2 : a.timer = none) : Inv a := by
  unfold Inv; simp [h1, h2]

theorem unsubscribe_fields (a : Alarm) :
    (unsubscribe a).st = a.st ∧ (unsubscribe a).timer = a.timer ∧ (unsubscribe a).target = a.target ∧
    (unsubscribe a).sod = a.sod ∧ (unsubscribe a).cls = a.cls ∧ (unsubscribe a).nFired = a.nFired ∧
    (unsubscribe a).nEnabled = a.nEnabled ∧ (unsubscribe a).wrapped = a.wrapped ∧ (unsubscribe a).lastServed = a.lastServed ∧
    (unsubscribe a).hasCb = a.hasCb := by
  unfold unsubscribe; split <;> simp

/-- the re-arm of refresh() / onTimeExpired(): the arm when it succeeds, otherwise the idle alarm minus its subscription -/
theorem rearm_cases (a : Alarm) (e : Env) :
    ((activeTimer a e).2 = true ∧ rearm a e = (activeTimer a e).1) ∨
    ((activeTimer a e).2 = false ∧ rearm a e = unsubscribe a) := by
  rcases activeTimer_cases a e with ⟨h, _, _⟩ | ⟨h, heq⟩
  · left; exact ⟨h, by unfold rearm; simp [h]⟩
  · right; exact ⟨h, by unfold rearm; simp [h, heq]⟩

theorem Inv.idle {a : Alarm} (h : Inv a) (hr : a.st ≠ .running) : a.timer = none := by
  cases ht : a.timer with
  | none => rfl
  | some d => exact absurd (h.mpr (by simp [ht])) hr

theorem initAlarm_inv (a : Alarm) (sod : Int) (m : List Bool) (wd : Bool) (h : Inv a) :
    Inv (initAlarm a sod m wd).1 := by
  unfold initAlarm
  split
  · exact h
  unfold initClassic
  split
  · exact h
  · rename_i hr
    split
    · exact h
    · split
      · exact h
      · exact inv_of_idle (by simp) (by simpa using h.idle hr)

theorem initCron_inv (a : Alarm) (x : Option Cron.Expr) (h : Inv a) : Inv (initCron a x).1 := by
  unfold initCron
  split
  · exact h
  · split
    · exact h
    · rename_i hr
      split
      · exact h
      · exact inv_of_idle (by simp) (by simpa using h.idle hr)

theorem inv_congr {a b : Alarm} (h1 : b.st = a.st) (h2 : b.timer = a.timer) (h : Inv a) : Inv b := by
  unfold Inv at *; rw [h1, h2]; exact h

theorem subscribe_inv (a : Alarm) (h : Inv a) : Inv (subscribe a) := by
  unfold subscribe; split
  · exact inv_congr rfl rfl h
  · exact h

theorem unsubscribe_inv (a : Alarm) (h : Inv a) : Inv (unsubscribe a) :=
  inv_congr (unsubscribe_fields a).1 (unsubscribe_fields a).2.1 h

theorem rearm_inv (a : Alarm) (e : Env) (h : Inv a) : Inv (rearm a e) := by
  rcases rearm_cases a e with ⟨_, heq⟩ | ⟨_, heq⟩
  · rw [heq]; exact activeTimer_inv a e h
  · rw [heq]; exact unsubscribe_inv a h

theorem enable_inv (a : Alarm) (e : Env) (h : Inv a) : Inv (enable a e).1 := by
  unfold enable
  split
  · have := activeTimer_inv _ e (subscribe_inv a h)
    simp only
    split
    · exact inv_congr rfl rfl this
    · exact unsubscribe_inv _ this
  · exact h

theorem disable_inv (a : Alarm) (h : Inv a) : Inv (disable a).1 ∧ (disable a).1.st ≠ .running := by
  unfold disable
  split
  · exact ⟨inv_of_idle (by simp) (by simp), by simp⟩
  · rename_i hr; exact ⟨h, hr⟩

theorem cleanup_inv (a : Alarm) (h : Inv a) : Inv (cleanup a) ∧ (cleanup a).st ≠ .running := by
  unfold cleanup
  split
  · rename_i hn; exact ⟨h, by rw [hn]; simp⟩
  · have hd := disable_inv a h
    exact ⟨inv_of_idle (by simp) (by simpa using hd.1.idle hd.2), by simp⟩

theorem refresh_inv (a : Alarm) (e : Env) (h : Inv a) : Inv (refresh a e) := by
  unfold refresh
  split
  · exact rearm_inv _ e (inv_of_idle (by simp) (by simp))
  · exact h

theorem refresh_idle (a : Alarm) (e : Env) (h : a.st ≠ .running) : refresh a e = a := by
  unfold refresh; simp [h]

theorem repeat_inv (f : Alarm → Alarm) (hf : ∀ a, Inv a → Inv (f a)) : ∀ n a, Inv a → Inv (Nat.repeat f n a) := by
  intro n; induction n with
  | zero => intro a h; exact h
  | succ n ih => intro a h; exact hf _ (ih a h)

theorem calendarChanged_inv (a : Alarm) (e : Env) (h : Inv a) : Inv (calendarChanged a e) :=
  repeat_inv _ (fun x hx => refresh_inv x e hx) _ a h

theorem repeat_fix (f : Alarm → Alarm) (a : Alarm) (hf : f a = a) : ∀ n, Nat.repeat f n a = a := by
  intro n; induction n with
  | zero => rfl
  | succ n ih => show f (Nat.repeat f n a) = a; rw [ih, hf]

theorem calendarChanged_idle (a : Alarm) (e : Env) (h : a.st ≠ .running) : calendarChanged a e = a :=
  repeat_fix (fun x => refresh x e) a (refresh_idle a e h) a.subs

theorem expire_inv (a : Alarm) (e : Env) : Inv (expire a e).1 := by
  unfold expire
  split
  · exact inv_of_idle (by simp) (by simp)
  · exact rearm_inv _ e (inv_of_idle (by simp) (by simp))

theorem expire_served (a : Alarm) (e : Env) : (expire a e).2 = (a.target, decide (a.st = .running)) := by
  unfold expire; cases a.cls <;> rfl

theorem tick_inv (e : Env) : ∀ n a, Inv a → Inv (tick a e n).1 ∧ ∀ p ∈ (tick a e n).2, p.2.1 = true := by
  intro n
  induction n with
  | zero => intro a h; exact ⟨h, by simp [tick]⟩
  | succ n ih =>
    intro a h
    unfold tick
    cases ht : a.timer with
    | none => exact ⟨h, by simp⟩
    | some d =>
      simp only
      split
      · have h1 := expire_inv a e
        have := ih _ h1
        refine ⟨this.1, ?_⟩
        intro p hp
        simp only [List.mem_cons] at hp
        rcases hp with hp | hp
        · subst hp
          simp only [expire_served]
          have : a.st = .running := h.mpr (by simp [ht])
          simp [this]
        · exact this.2 p hp
      · exact ⟨h, by simp⟩

theorem tick_idle (a : Alarm) (e : Env) (h : a.timer = none) : ∀ n, tick a e n = (a, []) := by
  intro n; cases n with
  | zero => rfl
  | succ n => unfold tick; simp [h]

end Tbox.C20
