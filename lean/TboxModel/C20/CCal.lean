/-
C20 — `struct tm`, `timegm` and `gmtime_r` as ccronexpr uses them (core Lean only).

ccronexpr is compiled WITHOUT `CRON_USE_LOCAL_TIME`: `cron_mktime` = `timegm`, `cron_time` = `gmtime_r`
(UTC; no TZ database, no DST).  CronAlarm hands it the alarm's LOCAL second count (UTC + explicit offset,
added by Alarm::activeTimer) — the library only ever sees "seconds since 1970 on a proleptic Gregorian
calendar without a zone".  The calendar functions are the ones of Cron.lean (`civil`) plus its inverse `dfc`.

Every field of the `struct tm` that `cron_next` touches stays non-negative on its paths (fields are set to
0/1, to a bit index, or incremented), so the fields are `Nat`.
-/
import TboxModel.C20.Cron
namespace Tbox.C20.CC
open Tbox.C20.Cron

/-- days_from_civil (H. Hinnant): year, month 1…12, day ≥ 1 → days since 1970-01-01 (year ≥ 1970) -/
def dfc (y m d : Nat) : Nat :=
  let y' := if m ≤ 2 then y - 1 else y
  let era := y' / 400
  let yoe := y' % 400
  let mp := if m > 2 then m - 3 else m + 9
  let doy := (153 * mp + 2) / 5 + d - 1
  era * 146097 + (yoe * 365 + yoe / 4 - yoe / 100 + doy) - 719468

/-- the fields of `struct tm` that ccronexpr reads or writes -/
structure Tm where
  sec : Nat
  min : Nat
  hour : Nat
  mday : Nat      -- 1…31 (32 transiently after `tm_mday + 1`)
  mon : Nat       -- 0…11
  year : Nat      -- years since 1900
  wday : Nat      -- 0 = Sunday; written by timegm / gmtime_r only
deriving Repr, DecidableEq

/-- `timegm`: the fields may be out of range (tm_sec = 60, tm_mday = 32, Feb 29 of a non-leap year, tm_mon ≥ 12);
the overflow is carried linearly -/
def timegm (c : Tm) : Nat :=
  dfc (c.year + 1900 + c.mon / 12) (c.mon % 12 + 1) c.mday * 86400 + c.hour * 3600 + c.min * 60 + c.sec

/-- `gmtime_r` -/
def gmtime (T : Nat) : Tm :=
  let cv := civil (T / 86400)
  { sec := T % 60, min := T / 60 % 60, hour := T / 3600 % 24,
    mday := cv.2.2, mon := cv.2.1 - 1, year := cv.1 - 1900, wday := dayOfWeek (T / 86400) }

/-- `cron_mktime(calendar)`: timegm also writes the normalised fields back into the struct -/
def mkNorm (c : Tm) : Tm := gmtime (timegm c)

end Tbox.C20.CC
