/-
C20 — TRANSCRIPTION of the third-party evaluator modules/alarm/3rd-party/ccronexpr.cpp (core Lean only).

Part 1  `cron_parse_expr`: split_str / parse_uint (strtol base 0) / to_upper / replace_ordinals / get_range /
        set_number_hits / set_months / set_days_of_week / set_days_of_month, on the raw bytes of the
        expression, producing the six bit sets of `cron_expr` (months already rotated to 0…11, Sunday 7
        folded onto 0) or "error".
Part 2  `cron_next`: next_set_bit / add_to_field / reset_min / reset_all_min / set_field / find_next /
        find_next_day / do_next (with its `resets` list, its recursion and the CRON_MAX_YEARS_DIFF horizon)
        over `struct tm` + `timegm` (CCal.lean).

What is NOT carried: malloc failure paths (`cron_malloc` returning NULL), `timegm` returning -1 (int overflow
of tm_year / the instant 1969-12-31 23:59:59 — unreachable from a non-negative `date` because every step moves
forward), `cron_prev` and its helpers (never called by the alarm module).
do_next is recursive without an explicit bound in C; here it takes fuel (`none` when it runs out — the
driver uses 20000, the C recursion is bounded by the same year horizon).
-/
import TboxModel.C20.CCal
namespace Tbox.C20.CC

/-! ## Part 1 — cron_parse_expr -/

/-- `isspace` in the "C" locale -/
def isSpace (c : Char) : Bool := c == ' ' || (c.toNat ≥ 9 && c.toNat ≤ 13)

/-- `toupper` in the "C" locale -/
def toUpper (c : Char) : Char := if c.toNat ≥ 97 && c.toNat ≤ 122 then Char.ofNat (c.toNat - 32) else c

/-- the two passes of `split_str` produce the same grouping: pieces between delimiters with every white-space
character dropped, empty pieces skipped (state: finished pieces reversed, current piece reversed) -/
def splitGo (del : Char) : List Char → List (List Char) → List Char → List (List Char)
  | [], acc, cur => (if cur.isEmpty then acc else cur.reverse :: acc).reverse
  | c :: rest, acc, cur =>
    if c == del then splitGo del rest (if cur.isEmpty then acc else cur.reverse :: acc) []
    else if isSpace c then splitGo del rest acc cur
    else splitGo del rest acc (c :: cur)

/-- `split_str(str, del, &len)`: `[]` stands for NULL / len 0 (string of CRON_MAX_STR_LEN_TO_SPLIT = 256 or
more characters, or no piece at all) -/
def splitStr (s : List Char) (del : Char) : List (List Char) :=
  if s.length ≥ 256 then [] else splitGo del s [] []

def hasChar (s : List Char) (ch : Char) : Bool := s.contains ch

/-- value of a digit character for strtol (letters = 10…35) -/
def digitVal (c : Char) : Nat :=
  if c.toNat ≥ 48 && c.toNat ≤ 57 then c.toNat - 48
  else if c.toNat ≥ 97 && c.toNat ≤ 122 then c.toNat - 87
  else if c.toNat ≥ 65 && c.toNat ≤ 90 then c.toNat - 55
  else 99

/-- longest prefix of digits valid in `base`: (value, rest) -/
def takeDigits (base : Nat) : List Char → Nat → Nat × List Char
  | [], v => (v, [])
  | c :: rest, v => if digitVal c < base then takeDigits base rest (v * base + digitVal c) else (v, c :: rest)

/-- `parse_uint`: `strtol(str, &endptr, 0)` (base by prefix: 0x/0X hexadecimal, 0 octal, else decimal; optional
sign; the strings that reach it contain no white space) followed by
`errno == ERANGE || *endptr != '\0' || l < 0 || l > INT_MAX` → error (`none`). -/
def parseUInt (s : List Char) : Option Nat :=
  let (neg, body) := match s with
    | '-' :: r => (true, r)
    | '+' :: r => (false, r)
    | _ => (false, s)
  -- where the digits start and in which base
  let (base, digits) := match body with
    | '0' :: x :: h :: r => if (x == 'x' || x == 'X') && digitVal h < 16 then (16, h :: r) else (8, body)
    | '0' :: _ => (8, body)
    | _ => (10, body)
  match digits with
  | [] => if s.isEmpty then some 0 else none       -- no conversion: endptr = str; accepted only for the empty string
  | d :: _ =>
    if digitVal d ≥ base then none                  -- no digit: endptr = str, *endptr ≠ 0
    else
      let (v, rest) := takeDigits base digits 0
      if !rest.isEmpty then none                    -- trailing characters
      else if neg then (if v == 0 then some 0 else none)     -- l < 0
      else if v > 2147483647 then none              -- ERANGE or l > INT_MAX
      else some v

def startsWith : List Char → List Char → Bool
  | _, [] => true
  | [], _ :: _ => false
  | a :: as, b :: bs => a == b && startsWith as bs

/-- `str_replace(orig, rep, with)`: every non-overlapping occurrence, left to right (`rep` non-empty) -/
def strReplace (rep w : List Char) : Nat → List Char → List Char
  | 0, s => s
  | _, [] => []
  | fuel + 1, c :: rest =>
    if startsWith (c :: rest) rep then w ++ strReplace rep w fuel ((c :: rest).drop rep.length)
    else c :: strReplace rep w fuel rest

/-- `to_string(i)` -/
def natToChars (n : Nat) : List Char := (toString n).toList

/-- `replace_ordinals(value, arr, arr_len)`: arr[i] → decimal i, for i = 0, 1, … in this order -/
def replaceOrdinals (names : List (List Char)) (s : List Char) : List Char :=
  (names.zipIdx).foldl (fun cur p => strReplace p.1 (natToChars p.2) (cur.length + 1) cur) s

def daysArr : List (List Char) := ["SUN", "MON", "TUE", "WED", "THU", "FRI", "SAT"].map String.toList
def monthsArr : List (List Char) :=
  ["FOO", "JAN", "FEB", "MAR", "APR", "MAY", "JUN", "JUL", "AUG", "SEP", "OCT", "NOV", "DEC"].map String.toList

/-- `get_range(field, min, max, &error)`: `none` = error -/
def getRange (field : List Char) (min max : Nat) : Option (Nat × Nat) :=
  let r : Option (Nat × Nat) :=
    if field == ['*'] then some (min, max - 1)
    else if !hasChar field '-' then (parseUInt field).map (fun v => (v, v))
    else match splitStr field '-' with
      | [a, b] => do pure ((← parseUInt a), (← parseUInt b))
      | _ => none
  match r with
  | none => none
  | some (lo, hi) =>
    if lo ≥ max || hi ≥ max then none
    else if lo < min || hi < min then none
    else if lo > hi then none
    else some (lo, hi)

def setBit (bits i : Nat) : Nat := bits ||| (1 <<< i)
/-- `rbyte[j] &= ~(1 << k)` -/
def delBit (bits i : Nat) : Nat := if bits.testBit i then bits ^^^ (1 <<< i) else bits
def getBit (bits i : Nat) : Bool := bits.testBit i

/-- `for (i1 = lo; i1 <= hi; i1 += delta) cron_set_bit(target, i1);` (hi < 60, delta ≥ 1 ≤ INT_MAX: the unsigned
sum never wraps; at most 60 rounds) -/
def setEvery (delta hi : Nat) : Nat → Nat → Nat → Nat
  | 0, _, bits => bits
  | fuel + 1, i, bits => if i ≤ hi then setEvery delta hi fuel (i + delta) (setBit bits i) else bits

/-- one comma-separated item of `set_number_hits` -/
def setItem (bits : Nat) (item : List Char) (min max : Nat) : Option Nat :=
  if !hasChar item '/' then
    match getRange item min max with
    | none => none
    | some (lo, hi) => some (setEvery 1 hi 64 lo bits)
  else
    match splitStr item '/' with
    | [a, b] =>
      match getRange a min max with
      | none => none
      | some (lo, hi) =>
        let hi := if !hasChar a '-' then max - 1 else hi
        match parseUInt b with
        | none => none
        | some 0 => none
        | some delta => some (setEvery delta hi 64 lo bits)
    | _ => none

/-- `set_number_hits(value, target, min, max, &error)` on a zeroed target -/
def setNumberHits (value : List Char) (min max : Nat) : Option Nat :=
  match splitStr value ',' with
  | [] => none                                      -- "Comma split error"
  | items => items.foldl (fun acc it => acc.bind (fun b => setItem b it min max)) (some 0)

/-- `set_months`: upper-case, names → numbers, hits for 1…12, then rotated to 0…11 -/
def setMonths (value : List Char) : Option Nat :=
  (setNumberHits (replaceOrdinals monthsArr (value.map toUpper)) 1 13).map fun bits =>
    (List.range 12).foldl (fun b k => if getBit b (k + 1) then delBit (setBit b k) (k + 1) else b) bits

/-- `set_days_of_week`: `?` = `*`, names → numbers, hits for 0…7, Sunday 7 folded onto 0 -/
def setDaysOfWeek (field : List Char) : Option Nat :=
  let field := if field == ['?'] then ['*'] else field
  (setNumberHits (replaceOrdinals daysArr (field.map toUpper)) 0 8).map fun bits =>
    if getBit bits 7 then delBit (setBit bits 0) 7 else bits

/-- `set_days_of_month`: `?` = `*`, hits for 1…31 -/
def setDaysOfMonth (field : List Char) : Option Nat :=
  let field := if field == ['?'] then ['*'] else field
  setNumberHits field 1 32

/-- `cron_expr` (bit sets as Nat; byte `j`, bit `k` of the C arrays = bit `8 j + k`) -/
structure CExpr where
  seconds : Nat
  minutes : Nat
  hours : Nat
  dow : Nat        -- days_of_week, bits 0…6
  dom : Nat        -- days_of_month, bits 1…31
  months : Nat     -- bits 0…11
deriving Repr, DecidableEq

/-- `cron_parse_expr(expression, target, &error)`: `none` = `*error != NULL` -/
def parseExpr (expression : List Char) : Option CExpr :=
  match splitStr expression ' ' with
  | [f0, f1, f2, f3, f4, f5] => do
    let s ← setNumberHits f0 0 60
    let m ← setNumberHits f1 0 60
    let h ← setNumberHits f2 0 24
    let dom ← setDaysOfMonth f3
    let mon ← setMonths f4
    let dow ← setDaysOfWeek f5
    pure { seconds := s, minutes := m, hours := h, dow := dow, dom := dom, months := mon }
  | _ => none

/-! ## Part 2 — cron_next -/

inductive Field where
  | second | minute | hour | dow | dom | month | year
deriving Repr, DecidableEq

/-- `next_set_bit(bits, max, from, &notfound)`: `none` = notfound -/
def nextSetBit (bits max : Nat) : Nat → Nat → Option Nat
  | 0, _ => none
  | fuel + 1, i => if i < max then (if getBit bits i then some i else nextSetBit bits max fuel (i + 1)) else none

/-- `add_to_field(calendar, field, val)` (then cron_mktime) -/
def addToField (c : Tm) (f : Field) (v : Nat) : Tm :=
  mkNorm (match f with
    | .second => { c with sec := c.sec + v }
    | .minute => { c with min := c.min + v }
    | .hour => { c with hour := c.hour + v }
    | .dow => { c with mday := c.mday + v }          -- "mkgmtime ignores this field": the day of month moves
    | .dom => { c with mday := c.mday + v }
    | .month => { c with mon := c.mon + v }
    | .year => { c with year := c.year + v })

/-- `reset_min(calendar, field)` -/
def resetMin (c : Tm) (f : Field) : Tm :=
  mkNorm (match f with
    | .second => { c with sec := 0 }
    | .minute => { c with min := 0 }
    | .hour => { c with hour := 0 }
    | .dow => { c with wday := 0 }
    | .dom => { c with mday := 1 }
    | .month => { c with mon := 0 }
    | .year => { c with year := 0 })

/-- `reset_all_min(calendar, fields)` -/
def resetAllMin (c : Tm) (fields : List Field) : Tm := fields.foldl resetMin c

/-- `set_field(calendar, field, val)` -/
def setField (c : Tm) (f : Field) (v : Nat) : Tm :=
  mkNorm (match f with
    | .second => { c with sec := v }
    | .minute => { c with min := v }
    | .hour => { c with hour := v }
    | .dow => { c with wday := v }
    | .dom => { c with mday := v }
    | .month => { c with mon := v }
    | .year => { c with year := v })

/-- `push_to_fields_arr` -/
def pushField (arr : List Field) (f : Field) : List Field := if arr.contains f then arr else arr ++ [f]

/-- `find_next(bits, max, value, calendar, field, nextField, lower_orders, &res)`: (calendar, returned value) -/
def findNext (bits max value : Nat) (c : Tm) (field nextField : Field) (lower : List Field) : Tm × Nat :=
  match nextSetBit bits max max value with
  | some nv =>
    if nv != value then (setField (resetAllMin c lower) field nv, nv) else (c, nv)
  | none =>
    -- roll over
    let c1 := resetMin (addToField c nextField 1) field
    match nextSetBit bits max max 0 with
    | some nv => if nv != value then (setField (resetAllMin c1 lower) field nv, nv) else (c1, nv)
    | none => (setField (resetAllMin c1 lower) field 0, 0)         -- `notfound`: next_value = 0

/-- the loop of `find_next_day` (`count++ < 366`: at most 366 rounds); `dom`/`dw` are the locals
day_of_month / day_of_week, re-read after add_to_field and BEFORE reset_all_min -/
def findNextDayLoop (e_dom e_dow : Nat) (resets : List Field) : Nat → Tm → Nat → Nat → Tm × Nat
  | 0, c, dom, _ => (c, dom)
  | n + 1, c, dom, dw =>
    if !getBit e_dom dom || !getBit e_dow dw then
      let c1 := addToField c .dom 1
      findNextDayLoop e_dom e_dow resets n (resetAllMin c1 resets) c1.mday c1.wday
    else (c, dom)

def findNextDay (c : Tm) (e_dom e_dow : Nat) (resets : List Field) : Tm × Nat :=
  findNextDayLoop e_dom e_dow resets 366 c c.mday c.wday

def U32c : Nat := 4294967296

/-- the minute block of `do_next` (`rec` = the recursive call `do_next(expr, calendar, dot)`): calendar and `resets` afterwards -/
def stepMinute (e : CExpr) (rec : Tm → Option Tm) (c1 : Tm) (r1 : List Field) : Option (Tm × List Field) :=
  let minute := c1.min
  let (c2, um) := findNext e.minutes 60 minute c1 .minute .hour r1
  if minute == um then some (c2, pushField r1 .minute) else (rec c2).map (fun c => (c, r1))

/-- the hour block (the next field of the hour is CRON_CF_DAY_OF_WEEK: add_to_field moves tm_mday) -/
def stepHour (e : CExpr) (rec : Tm → Option Tm) (c2 : Tm) (r2 : List Field) : Option (Tm × List Field) :=
  let hour := c2.hour
  let (c3, uh) := findNext e.hours 24 hour c2 .hour .dow r2
  if hour == uh then some (c3, pushField r2 .hour) else (rec c3).map (fun c => (c, r2))

/-- the day block: "the same day number in a later month is a different day" -/
def stepDay (e : CExpr) (rec : Tm → Option Tm) (c3 : Tm) (r3 : List Field) : Option (Tm × List Field) :=
  let dom := c3.mday
  let month := c3.mon
  let year := c3.year
  let (c4, ud) := findNextDay c3 e.dom e.dow r3
  if dom == ud && month == c4.mon && year == c4.year then some (c4, pushField r3 .dom)
  else (rec c4).map (fun c => (c, r3))

/-- the month block with the CRON_MAX_YEARS_DIFF horizon: `calendar->tm_year - dot > 4` (int − unsigned int) -/
def stepMonth (e : CExpr) (dot : Nat) (rec : Tm → Option Tm) (c4 : Tm) (r4 : List Field) : Option Tm :=
  let month := c4.mon
  let (c5, umon) := findNext e.months 12 month c4 .month .year r4
  if month != umon then
    if (c5.year + U32c - dot) % U32c > 4 then none else rec c5
  else some c5

/-- `do_next(expr, calendar, dot)`: `none` = a non-zero result (year horizon, or the fuel of this model).
After a recursive call returned 0 the C code CONTINUES with the following blocks (on the calendar the
recursion left, with the `resets` it had before). -/
def doNext (e : CExpr) (dot : Nat) : Nat → Tm → Option Tm
  | 0, _ => none
  | fuel + 1, c0 =>
    -- seconds (returned value ignored); "the seconds are a lower order of every other field"
    let c1 := (findNext e.seconds 60 c0.sec c0 .second .minute []).1
    (stepMinute e (doNext e dot fuel) c1 (pushField [] .second)).bind fun p2 =>
    (stepHour e (doNext e dot fuel) p2.1 p2.2).bind fun p3 =>
    (stepDay e (doNext e dot fuel) p3.1 p3.2).bind fun p4 =>
    stepMonth e dot (doNext e dot fuel) p4.1 p4.2

/-- `cron_next(expr, date)`: `none` = CRON_INVALID_INSTANT -/
def cronNext (e : CExpr) (date fuel : Nat) : Option Nat :=
  let c := gmtime date
  let original := timegm c
  match doNext e c.year fuel c with
  | none => none
  | some c1 =>
    if timegm c1 == original then
      -- "We arrived at the original timestamp - round up to the next whole second and try again..."
      let c2 := addToField c1 .second 1
      (doNext e c2.year fuel c2).map timegm
    else some (timegm c1)

def cronFuel : Nat := 20000

/-! ### the reference expression a `CExpr` stands for (months back at 1…12) -/
def CExpr.toExpr (e : CExpr) : Cron.Expr :=
  { sec := e.seconds, min := e.minutes, hour := e.hours, dom := e.dom, mon := e.months <<< 1, dow := e.dow }

end Tbox.C20.CC
