/-
C20 — the fuel of the transcribed `do_next` / `cron_next` (CCron.lean) is never the reason for an answer.

The C function `do_next` recurses without an explicit bound; the transcription takes fuel and answers `none` both for
"the year horizon fired" and for "out of fuel".  This file separates the two:
  * `doNext_mono`, `cronNext_mono`       more fuel never changes an answer `some _` (purely structural: every block is
                                         `if unchanged then … else rec …`, so a recursion that answered keeps answering)
  * `cronNext_stable`                    hence some fuel₀ exists from which on the answer is constant (every e, every t)
  * `doNext_fuel_enough`                 an EXPLICIT bound whenever a matching instant M ≥ T exists at all (with or without
                                         the horizon in between): every re-entry of `do_next` happens on a calendar strictly
                                         later than the one it was entered with (`minBlock_skip` … `monBlock_skip` now also
                                         state `T < T'`) and never later than M (no block skips a matching instant), so the
                                         recursion is at most M − T + 1 deep: for every fuel ≥ M − T + 1 the result is the
                                         one at fuel M − T + 1
  * `cronNext_fuel_enough`, `cronNext_none_is_horizon`
                                         the same for `cron_next`; a `none` at fuel ≥ M − t + 1 is a `none` at EVERY fuel, i.e.
                                         it is the `tm_year − dot > 4` test that fired, not the model's recursion bound.
-/
import TboxModel.C20.CCronMin
namespace Tbox.C20.CC
open Tbox.C20.Cron

/-! ### more fuel never changes an answer -/
def RecLe (rec1 rec2 : Tm → Option Tm) : Prop := ∀ c c', rec1 c = some c' → rec2 c = some c'

theorem stepMinute_eq (e : CExpr) (rec : Tm → Option Tm) (c1 : Tm) (r1 : List Field) :
    stepMinute e rec c1 r1 =
      if (c1.min == (findNext e.minutes 60 c1.min c1 .minute .hour r1).2) = true
      then some ((findNext e.minutes 60 c1.min c1 .minute .hour r1).1, pushField r1 .minute)
      else (rec (findNext e.minutes 60 c1.min c1 .minute .hour r1).1).map (fun c => (c, r1)) := rfl

theorem stepHour_eq (e : CExpr) (rec : Tm → Option Tm) (c2 : Tm) (r2 : List Field) :
    stepHour e rec c2 r2 =
      if (c2.hour == (findNext e.hours 24 c2.hour c2 .hour .dow r2).2) = true
      then some ((findNext e.hours 24 c2.hour c2 .hour .dow r2).1, pushField r2 .hour)
      else (rec (findNext e.hours 24 c2.hour c2 .hour .dow r2).1).map (fun c => (c, r2)) := rfl

theorem ite_map_mono {β : Type} (rec1 rec2 : Tm → Option Tm) (hle : RecLe rec1 rec2) (cond : Prop) [Decidable cond]
    (x : β) (y : Tm) (g : Tm → β) (p : β) (h : (if cond then some x else (rec1 y).map g) = some p) :
    (if cond then some x else (rec2 y).map g) = some p := by
  by_cases hc : cond
  · rw [if_pos hc] at h ⊢; exact h
  · rw [if_neg hc] at h ⊢
    cases hrc : rec1 y with
    | none => rw [hrc] at h; simp at h
    | some c => rw [hrc] at h; rw [hle _ _ hrc]; exact h

theorem stepMinute_mono (e : CExpr) (rec1 rec2 : Tm → Option Tm) (hle : RecLe rec1 rec2) (c : Tm) (r : List Field)
    (p : Tm × List Field) (h : stepMinute e rec1 c r = some p) : stepMinute e rec2 c r = some p := by
  rw [stepMinute_eq] at h ⊢
  exact ite_map_mono rec1 rec2 hle _ _ _ _ p h

theorem stepHour_mono (e : CExpr) (rec1 rec2 : Tm → Option Tm) (hle : RecLe rec1 rec2) (c : Tm) (r : List Field)
    (p : Tm × List Field) (h : stepHour e rec1 c r = some p) : stepHour e rec2 c r = some p := by
  rw [stepHour_eq] at h ⊢
  exact ite_map_mono rec1 rec2 hle _ _ _ _ p h

theorem stepDay_mono (e : CExpr) (rec1 rec2 : Tm → Option Tm) (hle : RecLe rec1 rec2) (c : Tm) (r : List Field)
    (p : Tm × List Field) (h : stepDay e rec1 c r = some p) : stepDay e rec2 c r = some p := by
  rw [stepDay_eq] at h ⊢
  exact ite_map_mono rec1 rec2 hle _ _ _ _ p h

theorem stepMonth_mono (e : CExpr) (dot : Nat) (rec1 rec2 : Tm → Option Tm) (hle : RecLe rec1 rec2) (c : Tm)
    (r : List Field) (p : Tm) (h : stepMonth e dot rec1 c r = some p) : stepMonth e dot rec2 c r = some p := by
  rw [stepMonth_eq] at h ⊢
  by_cases hc : (c.mon != (findNext e.months 12 c.mon c .month .year r).2) = true
  · rw [if_pos hc] at h ⊢
    by_cases hy : ((findNext e.months 12 c.mon c .month .year r).1.year + U32c - dot) % U32c > 4
    · rw [if_pos hy] at h; cases h
    · rw [if_neg hy] at h ⊢; exact hle _ _ h
  · rw [if_neg hc] at h ⊢; exact h

/-- one more unit of fuel keeps every answer -/
theorem doNext_mono1 (e : CExpr) (dot : Nat) : ∀ fuel, RecLe (doNext e dot fuel) (doNext e dot (fuel + 1)) := by
  intro fuel
  induction fuel with
  | zero => intro c c' h; simp [doNext] at h
  | succ n ih =>
    intro c0 c' h
    rw [doNext_succ_eq] at h ⊢
    cases h2 : stepMinute e (doNext e dot n) (findNext e.seconds 60 c0.sec c0 .second .minute []).1 [.second] with
    | none => rw [h2] at h; simp at h
    | some p2 =>
      rw [h2] at h
      rw [stepMinute_mono e _ _ ih _ _ _ h2]
      simp only [Option.bind_some] at h ⊢
      cases h3 : stepHour e (doNext e dot n) p2.1 p2.2 with
      | none => rw [h3] at h; simp at h
      | some p3 =>
        rw [h3] at h
        rw [stepHour_mono e _ _ ih _ _ _ h3]
        simp only [Option.bind_some] at h ⊢
        cases h4 : stepDay e (doNext e dot n) p3.1 p3.2 with
        | none => rw [h4] at h; simp at h
        | some p4 =>
          rw [h4] at h
          rw [stepDay_mono e _ _ ih _ _ _ h4]
          simp only [Option.bind_some] at h ⊢
          exact stepMonth_mono e dot _ _ ih _ _ _ h

/-- **`do_next`: more fuel never changes an answer** -/
theorem doNext_mono (e : CExpr) (dot : Nat) (f f' : Nat) (hle : f ≤ f') (c c' : Tm)
    (h : doNext e dot f c = some c') : doNext e dot f' c = some c' := by
  obtain ⟨k, rfl⟩ : ∃ k, f' = f + k := ⟨f' - f, by omega⟩
  induction k with
  | zero => exact h
  | succ k ih => exact doNext_mono1 e dot (f + k) c c' (ih (by omega))

/-- **`cron_next`: more fuel never changes an answer** -/
theorem cronNext_mono (e : CExpr) (t f f' r : Nat) (hle : f ≤ f') (h : cronNext e t f = some r) :
    cronNext e t f' = some r := by
  unfold cronNext at h ⊢
  simp only at h ⊢
  cases h1 : doNext e (gmtime t).year f (gmtime t) with
  | none => rw [h1] at h; cases h
  | some c1 =>
    rw [h1] at h
    rw [doNext_mono e _ f f' hle _ _ h1]
    simp only at h ⊢
    split
    · rename_i heq
      rw [if_pos heq] at h
      cases h2 : doNext e (addToField c1 .second 1).year f (addToField c1 .second 1) with
      | none => rw [h2] at h; cases h
      | some c3 =>
        rw [h2] at h
        rw [doNext_mono e _ f f' hle _ _ h2]
        exact h
    · rename_i hne
      rw [if_neg hne] at h
      exact h

/-- **fuel sufficiency, existence** (every expression, every t — also when nothing matches): from some fuel₀ on
the answer of the transcribed `cron_next` no longer depends on the fuel -/
theorem cronNext_stable (e : CExpr) (t : Nat) : ∃ fuel0, ∀ fuel, fuel0 ≤ fuel → cronNext e t fuel = cronNext e t fuel0 := by
  by_cases hex : ∃ f r, cronNext e t f = some r
  · obtain ⟨f, r, hr⟩ := hex
    exact ⟨f, fun f' hle => by rw [hr]; exact cronNext_mono e t f f' r hle hr⟩
  · refine ⟨0, fun f' _ => ?_⟩
    have hn : ∀ f, cronNext e t f = none := by
      intro f
      cases hc : cronNext e t f with
      | none => rfl
      | some r => exact absurd ⟨f, r, hc⟩ hex
    rw [hn f', hn 0]

/-! ### an explicit bound: the recursion never passes a matching instant -/
def AgreeOn (rec1 rec2 : Tm → Option Tm) (lo hi : Nat) : Prop :=
  ∀ T1, lo < T1 → T1 ≤ hi → rec1 (gmtime T1) = rec2 (gmtime T1)

theorem agree_mono {rec1 rec2 : Tm → Option Tm} {lo lo' hi : Nat} (h : AgreeOn rec1 rec2 lo hi) (hl : lo ≤ lo') :
    AgreeOn rec1 rec2 lo' hi := fun T1 a b => h T1 (by omega) b

theorem le_of_noMatch (e : CExpr) (T T' M : Nat) (hM : MatchAt e M) (hTM : T ≤ M)
    (hs : ∀ r, T ≤ r → r < T' → ¬ MatchAt e r) : T' ≤ M := by
  by_cases hc : T' ≤ M
  · exact hc
  · exact absurd hM (hs M hTM (by omega))

theorem stepMinute_agree (e : CExpr) (hw : WF e) (rec1 rec2 : Tm → Option Tm) (T M : Nat) (hM : MatchAt e M)
    (hTM : T ≤ M) (hag : AgreeOn rec1 rec2 T M) :
    stepMinute e rec1 (gmtime T) [.second] = stepMinute e rec2 (gmtime T) [.second] := by
  rw [stepMinute_eq, stepMinute_eq]
  rcases minBlock_skip e hw T with hfn | ⟨T1, nv, _, hfn, hs1, hlt⟩
  · rw [hfn]; simp
  · rw [hfn]
    simp only
    rw [hag T1 hlt (le_of_noMatch e T T1 M hM hTM hs1)]

theorem stepHour_agree (e : CExpr) (hw : WF e) (rec1 rec2 : Tm → Option Tm) (T M : Nat) (r2 : List Field)
    (hM : MatchAt e M) (hTM : T ≤ M) (hg : MatchTm e (gmtime T) ∨ r2 = [.second, .minute])
    (hag : AgreeOn rec1 rec2 T M) :
    stepHour e rec1 (gmtime T) r2 = stepHour e rec2 (gmtime T) r2 := by
  rw [stepHour_eq, stepHour_eq]
  have hv : (gmtime T).hour < 24 := by rw [gmtime_hour]; omega
  rcases hg with hm | rfl
  · rw [findNext_id _ _ _ _ _ _ _ hv hm.2.2.1]; simp
  rcases hourBlock_skip e hw T with hfn | ⟨T1, nv, _, hfn, hs1, hlt⟩
  · rw [hfn]; simp
  · rw [hfn]
    simp only
    rw [hag T1 hlt (le_of_noMatch e T T1 M hM hTM hs1)]

theorem stepDay_agree (e : CExpr) (rec1 rec2 : Tm → Option Tm) (T M : Nat) (r3 : List Field)
    (hM : MatchAt e M) (hTM : T ≤ M) (hg : MatchTm e (gmtime T) ∨ r3 = [.second, .minute, .hour])
    (hag : AgreeOn rec1 rec2 T M) :
    stepDay e rec1 (gmtime T) r3 = stepDay e rec2 (gmtime T) r3 := by
  rw [stepDay_eq, stepDay_eq]
  rcases hg with hm | rfl
  · rw [findNextDay_id _ _ _ _ hm.2.2.2.1 hm.2.2.2.2.1]
    simp only
    rw [if_pos (dayCond_self _ _ _), if_pos (dayCond_self _ _ _)]
  obtain ⟨T1, hl, hd, hs1⟩ := findNextDay_skip e.dom e.dow T
  rw [hl]
  simp only
  have hs1' : ∀ r, T ≤ r → r < T1 → ¬ MatchAt e r := fun r a b hm => hs1 r a b ⟨hm.2.2.2.1, hm.2.2.2.2.1⟩
  by_cases hc : ((gmtime T).mday == (gmtime T1).mday && (gmtime T).mon == (gmtime T1).mon &&
      (gmtime T).year == (gmtime T1).year) = true
  · rw [if_pos hc, if_pos hc]
  · rw [if_neg hc, if_neg hc]
    have hlt : T < T1 := by
      rcases hd with rfl | hd
      · exact absurd (dayCond_self _ _ _) hc
      · have := Nat.div_le_div_right (c := 86400) (Nat.le_of_not_lt (fun (h : T1 < T + 1) => by omega))
        omega
    rw [hag T1 hlt (le_of_noMatch e T T1 M hM hTM hs1')]

theorem stepMonth_agree (e : CExpr) (hw : WF e) (dot : Nat) (rec1 rec2 : Tm → Option Tm) (T M : Nat) (r4 : List Field)
    (hM : MatchAt e M) (hTM : T ≤ M) (hg : MatchTm e (gmtime T) ∨ r4 = [.second, .minute, .hour, .dom])
    (hag : AgreeOn rec1 rec2 T M) :
    stepMonth e dot rec1 (gmtime T) r4 = stepMonth e dot rec2 (gmtime T) r4 := by
  rw [stepMonth_eq, stepMonth_eq]
  have hv : (gmtime T).mon < 12 := by rw [mon_of]; omega
  rcases hg with hm | rfl
  · rw [findNext_id _ _ _ _ _ _ _ hv hm.2.2.2.2.2]
    simp only
    rw [bne_self']
    simp
  rcases monBlock_skip e hw T with hfn | ⟨T1, nv, _, hfn, hs1, hlt⟩
  · rw [hfn]
    simp only
    rw [bne_self']
    simp
  · rw [hfn]
    simp only
    rw [hag T1 hlt (le_of_noMatch e T T1 M hM hTM hs1)]

/-- **fuel sufficiency with an explicit bound**: if ANY instant M ≥ T matches the expression, `do_next` entered at T
re-enters itself at most M − T times (each time on a strictly later calendar, never past M): for every
fuel ≥ n > M − T the result is the result at fuel n — whatever the year horizon does in between. -/
theorem doNext_fuel_enough (e : CExpr) (hw : WF e) (dot M : Nat) (hM : MatchAt e M) :
    ∀ n T, T ≤ M → M - T < n → ∀ f, n ≤ f → doNext e dot f (gmtime T) = doNext e dot n (gmtime T) := by
  intro n
  induction n with
  | zero => intro T _ h; omega
  | succ n ih =>
    intro T0 hT0 hd f hf
    obtain ⟨f', rfl⟩ : ∃ f', f = f' + 1 := ⟨f - 1, by omega⟩
    have hag : AgreeOn (doNext e dot f') (doNext e dot n) T0 M :=
      fun T1 a b => ih T1 b (by omega) f' (by omega)
    have hok := doNext_sound e hw dot n
    have hsk := doNext_skip e hw dot n
    have hfw := doNext_forward e hw dot n
    rw [doNext_succ_eq, doNext_succ_eq]
    obtain ⟨T1, e1, s1⟩ := secBlock_skip e hw T0
    have l1 : T0 ≤ T1 := by
      obtain ⟨T', e', l'⟩ := findNext_fwd_sec e.seconds T0
      rw [e1] at e'
      have := congrArg timegm e'
      rw [timegm_gmtime, timegm_gmtime] at this
      omega
    have m1 := le_of_noMatch e T0 T1 M hM hT0 s1
    rw [e1, stepMinute_agree e hw _ _ T1 M hM m1 (agree_mono hag l1)]
    cases h2 : stepMinute e (doNext e dot n) (gmtime T1) [.second] with
    | none => simp only [Option.bind_none]
    | some p2 =>
      simp only [Option.bind_some]
      obtain ⟨T2, e2, s2, g2⟩ := stepMinute_skip e hw _ hok hsk T1 p2 h2
      obtain ⟨f2, q2⟩ := stepMinute_fwd e _ hfw _ p2.1 _ p2.2 ⟨T1, rfl⟩ sub1_init h2
      rw [e2, timegm_gmtime, timegm_gmtime] at f2
      have m2 := le_of_noMatch e T1 T2 M hM m1 s2
      rw [e2, stepHour_agree e hw _ _ T2 M p2.2 hM m2 g2 (agree_mono hag (by omega))]
      cases h3 : stepHour e (doNext e dot n) (gmtime T2) p2.2 with
      | none => simp only [Option.bind_none]
      | some p3 =>
        simp only [Option.bind_some]
        obtain ⟨T3, e3, s3, g3⟩ := stepHour_skip e hw _ hok hsk T2 p2.2 p3 g2 h3
        obtain ⟨f3, q3⟩ := stepHour_fwd e _ hfw _ p3.1 _ p3.2 ⟨T2, rfl⟩ q2 h3
        rw [e3, timegm_gmtime, timegm_gmtime] at f3
        have m3 := le_of_noMatch e T2 T3 M hM m2 s3
        rw [e3, stepDay_agree e _ _ T3 M p3.2 hM m3 g3 (agree_mono hag (by omega))]
        cases h4 : stepDay e (doNext e dot n) (gmtime T3) p3.2 with
        | none => simp only [Option.bind_none]
        | some p4 =>
          simp only [Option.bind_some]
          obtain ⟨T4, e4, s4, g4⟩ := stepDay_skip e _ hok hsk T3 p3.2 p4 g3 h4
          obtain ⟨f4, _⟩ := stepDay_fwd e _ hfw _ p4.1 _ p4.2 ⟨T3, rfl⟩ q3 h4
          rw [e4, timegm_gmtime, timegm_gmtime] at f4
          have m4 := le_of_noMatch e T3 T4 M hM m3 s4
          rw [e4]
          exact stepMonth_agree e hw dot _ _ T4 M p4.2 hM m4 g4 (agree_mono hag (by omega))

/-- the same for `cron_next`: with a matching instant M > t, every fuel ≥ n > M − t gives the answer of fuel n -/
theorem cronNext_fuel_enough (e : CExpr) (hw : WF e) (t M n f : Nat) (hM : MatchAt e M) (htM : t < M)
    (hn : M - t < n) (hf : n ≤ f) : cronNext e t f = cronNext e t n := by
  unfold cronNext
  simp only
  rw [doNext_fuel_enough e hw _ M hM n t (by omega) hn f hf]
  cases h1 : doNext e (gmtime t).year n (gmtime t) with
  | none => simp only
  | some c1 =>
    simp only
    obtain ⟨⟨T1, hT1⟩, _⟩ := doNext_sound e hw _ n _ _ ⟨t, rfl⟩ h1
    split
    · rename_i heq
      rw [timegm_gmtime] at heq
      have hT : timegm c1 = t := by simpa using heq
      rw [hT1, timegm_gmtime] at hT
      rw [hT1, hT, addSec]
      rw [doNext_fuel_enough e hw _ M hM n (t + 1) (by omega) (by omega) f hf]
    · rfl

/-- **a `none` at sufficient fuel is the year horizon, never the fuel**: with a matching instant M > t, if the
transcription answers `none` at some fuel > M − t, it answers `none` at EVERY fuel (the only other source of `none`
in `do_next` is the test `tm_year − dot > 4` of the month block) -/
theorem cronNext_none_is_horizon (e : CExpr) (hw : WF e) (t M n : Nat) (hM : MatchAt e M) (htM : t < M)
    (hn : M - t < n) (h : cronNext e t n = none) : ∀ f, cronNext e t f = none := by
  intro f
  cases hc : cronNext e t f with
  | none => rfl
  | some r =>
    by_cases hle : f ≤ n
    · rw [cronNext_mono e t f n r hle hc] at h; cases h
    · rw [cronNext_fuel_enough e hw t M n f hM htM hn (by omega), h] at hc; cases hc

end Tbox.C20.CC
