/-
C20 — every step of the transcribed `do_next` moves the calendar forward (CCron.lean), hence `cron_next` returns an
instant strictly after its argument:
  * instant-level descriptions of set_field / add_to_field / reset_min on a normalised calendar `gmtime T`
  * `findNext_fwd_sec/min/hour/mon` — `find_next` for the four ways `do_next` uses it (with the reset lists it can pass)
  * `doNext_forward`, `cronNext_after`
Month starts are handled through `S i` = first day of month number i = 12·year + (month − 1) (strictly increasing:
`dfc_month_mono`, `dfc_year_mono` of CalLaws.lean) and `idx x` = the month number of day x.
-/
import TboxModel.C20.CCronProofs
namespace Tbox.C20.CC
open Tbox.C20.Cron

/-! ### every step of do_next moves forward -/
theorem norm_eq {c : Tm} (h : Norm c) : c = gmtime (timegm c) := by
  obtain ⟨T, rfl⟩ := h; rw [timegm_gmtime]

theorem setSec (T v : Nat) : setField (gmtime T) .second v = gmtime (T - T % 60 + v) := by
  show gmtime (timegm { gmtime T with sec := v }) = _
  congr 1
  rw [timegm_eq]; simp only
  have := dayPart_gmtime T 0; simp only [Nat.add_zero] at this
  rw [this, gmtime_hour, gmtime_min]; omega

theorem setMin (T v : Nat) : setField (gmtime T) .minute v = gmtime (T - (T / 60 % 60) * 60 + v * 60) := by
  show gmtime (timegm { gmtime T with min := v }) = _
  congr 1
  rw [timegm_eq]; simp only
  have := dayPart_gmtime T 0; simp only [Nat.add_zero] at this
  rw [this, gmtime_hour, gmtime_sec]; omega

theorem setHour (T v : Nat) : setField (gmtime T) .hour v = gmtime (T - (T / 3600 % 24) * 3600 + v * 3600) := by
  show gmtime (timegm { gmtime T with hour := v }) = _
  congr 1
  rw [timegm_eq]; simp only
  have := dayPart_gmtime T 0; simp only [Nat.add_zero] at this
  rw [this, gmtime_min, gmtime_sec]; omega

theorem addSec (T : Nat) : addToField (gmtime T) .second 1 = gmtime (T + 1) := by
  show gmtime (timegm { gmtime T with sec := (gmtime T).sec + 1 }) = _
  congr 1
  rw [timegm_eq]; simp only
  have := dayPart_gmtime T 0; simp only [Nat.add_zero] at this
  rw [this, gmtime_hour, gmtime_min, gmtime_sec]; omega

theorem addMin (T : Nat) : addToField (gmtime T) .minute 1 = gmtime (T + 60) := by
  show gmtime (timegm { gmtime T with min := (gmtime T).min + 1 }) = _
  congr 1
  rw [timegm_eq]; simp only
  have := dayPart_gmtime T 0; simp only [Nat.add_zero] at this
  rw [this, gmtime_hour, gmtime_min, gmtime_sec]; omega

theorem addHour (T : Nat) : addToField (gmtime T) .hour 1 = gmtime (T + 3600) := by
  show gmtime (timegm { gmtime T with hour := (gmtime T).hour + 1 }) = _
  congr 1
  rw [timegm_eq]; simp only
  have := dayPart_gmtime T 0; simp only [Nat.add_zero] at this
  rw [this, gmtime_hour, gmtime_min, gmtime_sec]; omega

theorem addDow (T : Nat) : addToField (gmtime T) .dow 1 = gmtime (T + 86400) := addDom T

theorem rstSec (T : Nat) : resetMin (gmtime T) .second = gmtime (T - T % 60) := by
  have h := setSec T 0; rw [Nat.add_zero] at h; exact h
theorem rstMin (T : Nat) : resetMin (gmtime T) .minute = gmtime (T - (T / 60 % 60) * 60) := by
  have h := setMin T 0; rw [Nat.zero_mul, Nat.add_zero] at h; exact h
theorem rstHour (T : Nat) : resetMin (gmtime T) .hour = gmtime (T - (T / 3600 % 24) * 3600) := by
  have h := setHour T 0; rw [Nat.zero_mul, Nat.add_zero] at h; exact h

def Sub1 (r : List Field) : Prop := ∀ f, f ∈ r → f = .second
def Sub2 (r : List Field) : Prop := ∀ f, f ∈ r → f = .second ∨ f = .minute

theorem resetAll_sub1 (r : List Field) : Sub1 r → ∀ T, ∃ T', resetAllMin (gmtime T) r = gmtime T' ∧ T' / 60 = T / 60 ∧ T' ≤ T := by
  induction r with
  | nil => intro _ T; exact ⟨T, rfl, rfl, Nat.le_refl _⟩
  | cons f fs ih =>
    intro hs T
    have hf := hs f List.mem_cons_self
    subst hf
    obtain ⟨T2, e2, d2, l2⟩ := ih (fun g hg => hs g (List.mem_cons_of_mem _ hg)) (T - T % 60)
    refine ⟨T2, ?_, by omega, by omega⟩
    show resetAllMin (resetMin (gmtime T) .second) fs = _
    rw [rstSec, e2]

theorem resetAll_sub2 (r : List Field) : Sub2 r → ∀ T, ∃ T', resetAllMin (gmtime T) r = gmtime T' ∧ T' / 3600 = T / 3600 ∧ T' ≤ T := by
  induction r with
  | nil => intro _ T; exact ⟨T, rfl, rfl, Nat.le_refl _⟩
  | cons f fs ih =>
    intro hs T
    rcases hs f List.mem_cons_self with hf | hf <;> subst hf
    · obtain ⟨T2, e2, d2, l2⟩ := ih (fun g hg => hs g (List.mem_cons_of_mem _ hg)) (T - T % 60)
      refine ⟨T2, ?_, by omega, by omega⟩
      show resetAllMin (resetMin (gmtime T) .second) fs = _
      rw [rstSec, e2]
    · obtain ⟨T2, e2, d2, l2⟩ := ih (fun g hg => hs g (List.mem_cons_of_mem _ hg)) (T - (T / 60 % 60) * 60)
      refine ⟨T2, ?_, by omega, by omega⟩
      show resetAllMin (resetMin (gmtime T) .minute) fs = _
      rw [rstMin, e2]

/-- the shapes `find_next` can leave the calendar in -/
theorem findNext_cases (bits max value : Nat) (c : Tm) (f nf : Field) (lower : List Field) (hv : value < max) :
    let c1 := resetMin (addToField c nf 1) f
    (findNext bits max value c f nf lower).1 = c ∨
    (∃ nv, value < nv ∧ nv < max ∧ (findNext bits max value c f nf lower).1 = setField (resetAllMin c lower) f nv) ∨
    (∃ nv, nv < max ∧ (findNext bits max value c f nf lower).1 = setField (resetAllMin c1 lower) f nv) ∨
    (findNext bits max value c f nf lower).1 = c1 := by
  intro c1
  unfold findNext
  cases h1 : nextSetBit bits max max value with
  | some nv =>
    obtain ⟨a1, a2, _, _⟩ := nsb_some _ _ _ _ _ h1
    simp only
    by_cases hne : (nv != value) = true
    · rw [if_pos hne]
      have : nv ≠ value := by simpa using hne
      exact Or.inr (Or.inl ⟨nv, by omega, a2, rfl⟩)
    · rw [if_neg hne]; exact Or.inl rfl
  | none =>
    simp only
    cases h2 : nextSetBit bits max max 0 with
    | some nv =>
      obtain ⟨_, a2, _, _⟩ := nsb_some _ _ _ _ _ h2
      simp only
      by_cases hne : (nv != value) = true
      · rw [if_pos hne]; exact Or.inr (Or.inr (Or.inl ⟨nv, a2, rfl⟩))
      · rw [if_neg hne]; exact Or.inr (Or.inr (Or.inr rfl))
    | none => exact Or.inr (Or.inr (Or.inl ⟨0, by omega, rfl⟩))

theorem findNext_fwd_sec (bits T : Nat) :
    ∃ T', (findNext bits 60 (gmtime T).sec (gmtime T) .second .minute []).1 = gmtime T' ∧ T ≤ T' := by
  have hv : (gmtime T).sec < 60 := by rw [gmtime_sec]; omega
  rcases findNext_cases bits 60 (gmtime T).sec (gmtime T) .second .minute [] hv with h | ⟨nv, a, b, h⟩ | ⟨nv, b, h⟩ | h
  · exact ⟨T, h, Nat.le_refl _⟩
  · rw [h]; show ∃ T', setField (gmtime T) .second nv = _ ∧ _
    rw [gmtime_sec] at a
    exact ⟨_, setSec T nv, by omega⟩
  · rw [h]; show ∃ T', setField (resetMin (addToField (gmtime T) .minute 1) .second) .second nv = _ ∧ _
    rw [addMin, rstSec]
    exact ⟨_, setSec _ nv, by omega⟩
  · rw [h, addMin, rstSec]; exact ⟨_, rfl, by omega⟩

theorem findNext_fwd_min (bits T : Nat) (lower : List Field) (hl : Sub1 lower) :
    ∃ T', (findNext bits 60 (gmtime T).min (gmtime T) .minute .hour lower).1 = gmtime T' ∧ T ≤ T' := by
  have hv : (gmtime T).min < 60 := by rw [gmtime_min]; omega
  rcases findNext_cases bits 60 (gmtime T).min (gmtime T) .minute .hour lower hv with h | ⟨nv, a, b, h⟩ | ⟨nv, b, h⟩ | h
  · exact ⟨T, h, Nat.le_refl _⟩
  · rw [h]
    obtain ⟨T1, e1, d1, l1⟩ := resetAll_sub1 lower hl T
    rw [e1, setMin]
    rw [gmtime_min] at a
    exact ⟨_, rfl, by omega⟩
  · rw [h, addHour, rstMin]
    obtain ⟨T1, e1, d1, l1⟩ := resetAll_sub1 lower hl (T + 3600 - ((T + 3600) / 60 % 60) * 60)
    rw [e1, setMin]
    exact ⟨_, rfl, by omega⟩
  · rw [h, addHour, rstMin]; exact ⟨_, rfl, by omega⟩

theorem findNext_fwd_hour (bits T : Nat) (lower : List Field) (hl : Sub2 lower) :
    ∃ T', (findNext bits 24 (gmtime T).hour (gmtime T) .hour .dow lower).1 = gmtime T' ∧ T ≤ T' := by
  have hv : (gmtime T).hour < 24 := by rw [gmtime_hour]; omega
  rcases findNext_cases bits 24 (gmtime T).hour (gmtime T) .hour .dow lower hv with h | ⟨nv, a, b, h⟩ | ⟨nv, b, h⟩ | h
  · exact ⟨T, h, Nat.le_refl _⟩
  · rw [h]
    obtain ⟨T1, e1, d1, l1⟩ := resetAll_sub2 lower hl T
    rw [e1, setHour]
    rw [gmtime_hour] at a
    exact ⟨_, rfl, by omega⟩
  · rw [h, addDow, rstHour]
    obtain ⟨T1, e1, d1, l1⟩ := resetAll_sub2 lower hl (T + 86400 - ((T + 86400) / 3600 % 24) * 3600)
    rw [e1, setHour]
    exact ⟨_, rfl, by omega⟩
  · rw [h, addDow, rstHour]; exact ⟨_, rfl, by omega⟩

/-! ### month starts: `S i` = first day of month number `i = 12·year + (month − 1)` -/
@[irreducible] def S (i : Nat) : Nat := dfc (i / 12) (i % 12 + 1) 1

theorem S_step (i : Nat) (hi : 23640 ≤ i) : S i < S (i + 1) := by
  unfold S
  by_cases h : i % 12 < 11
  · have e1 : (i + 1) / 12 = i / 12 := by omega
    have e2 : (i + 1) % 12 + 1 = i % 12 + 1 + 1 := by omega
    rw [e1, e2]
    exact dfc_month_mono _ _ (by omega) (by omega) (by omega)
  · have e0 : i % 12 + 1 = 12 := by omega
    have e1 : (i + 1) / 12 = i / 12 + 1 := by omega
    have e2 : (i + 1) % 12 + 1 = 1 := by omega
    rw [e0, e1, e2]
    exact dfc_year_mono _ (by omega)

theorem S_mono (i : Nat) (hi : 23640 ≤ i) : ∀ k, S i ≤ S (i + k) := by
  intro k
  induction k with
  | zero => exact Nat.le_refl _
  | succ k ih =>
    have := S_step (i + k) (by omega)
    have e : i + (k + 1) = i + k + 1 := by omega
    rw [e]; omega

theorem S_mono' {i j : Nat} (hi : 23640 ≤ i) (h : i ≤ j) : S i ≤ S j := by
  have := S_mono i hi (j - i)
  have e : i + (j - i) = j := by omega
  rw [e] at this; exact this

/-- month number of day `x` -/
@[irreducible] def idx (x : Nat) : Nat := (civil x).1 * 12 + ((civil x).2.1 - 1)

theorem idx_bounds (x : Nat) : 23640 ≤ idx x ∧ x = S (idx x) + ((civil x).2.2 - 1) ∧ x < S (idx x + 1) := by
  obtain ⟨h1, h2, h3, h4, _⟩ := civil_ranges x
  have e1 : idx x / 12 = (civil x).1 := by unfold idx; omega
  have e2 : idx x % 12 + 1 = (civil x).2.1 := by unfold idx; omega
  refine ⟨by unfold idx; omega, ?_, ?_⟩
  · unfold S; rw [e1, e2]
    have := dfc_civil x
    rw [dfc_day_linear _ _ _ h1 h2 h3 h4] at this
    omega
  · have hb := civil_before_next_month x
    unfold S
    by_cases hm : (civil x).2.1 < 12
    · rw [if_pos hm] at hb
      have f1 : (idx x + 1) / 12 = (civil x).1 := by unfold idx; omega
      have f2 : (idx x + 1) % 12 + 1 = (civil x).2.1 + 1 := by unfold idx; omega
      rw [f1, f2]; exact hb
    · rw [if_neg hm] at hb
      have f1 : (idx x + 1) / 12 = (civil x).1 + 1 := by unfold idx; omega
      have f2 : (idx x + 1) % 12 + 1 = 1 := by unfold idx; omega
      rw [f1, f2]; exact hb

theorem idx_ge (i x : Nat) (_hi : 23640 ≤ i) (h : S i ≤ x) : i ≤ idx x := by
  obtain ⟨b1, _, b3⟩ := idx_bounds x
  by_cases hc : i ≤ idx x
  · exact hc
  · have := S_mono' (i := idx x + 1) (j := i) (by omega) (by omega)
    omega

theorem idx_le (i x : Nat) (h : x < S (i + 1)) (_hi : 23640 ≤ i) : idx x ≤ i := by
  obtain ⟨b1, b2, _⟩ := idx_bounds x
  by_cases hc : idx x ≤ i
  · exact hc
  · have := S_mono' (i := i + 1) (j := idx x) (by omega) (by omega)
    omega

/-- the date fields of a normalised calendar in terms of the month number -/
theorem gm_ym (T : Nat) : (gmtime T).year + 1900 = idx (T / 86400) / 12 ∧ (gmtime T).mon = idx (T / 86400) % 12 ∧
    1 ≤ (gmtime T).mday ∧ T / 86400 = S (idx (T / 86400)) + ((gmtime T).mday - 1) := by
  rw [gmtime_year, gmtime_mon, gmtime_mday]
  obtain ⟨h1, h2, h3, h4, _⟩ := civil_ranges (T / 86400)
  obtain ⟨_, b2, _⟩ := idx_bounds (T / 86400)
  refine ⟨by unfold idx; omega, by unfold idx; omega, h4, b2⟩

theorem tod_eq (T : Nat) : (gmtime T).hour * 3600 + (gmtime T).min * 60 + (gmtime T).sec = T % 86400 := by
  rw [gmtime_hour, gmtime_min, gmtime_sec]; omega

set_option maxRecDepth 8000 in
theorem rstDom (T : Nat) : resetMin (gmtime T) .dom = gmtime (S (idx (T / 86400)) * 86400 + T % 86400) := by
  show gmtime (timegm { gmtime T with mday := 1 }) = _
  apply congrArg gmtime
  rw [timegm_eq]; simp only
  obtain ⟨g1, g2, _, _⟩ := gm_ym T
  have := tod_eq T
  have e1 : (gmtime T).year + 1900 + (gmtime T).mon / 12 = idx (T / 86400) / 12 := by omega
  have e2 : (gmtime T).mon % 12 + 1 = idx (T / 86400) % 12 + 1 := by omega
  rw [e1, e2]; unfold S; omega

set_option maxRecDepth 8000 in
theorem setMon (T nv : Nat) (hnv : nv < 12) : setField (gmtime T) .month nv =
    gmtime ((S (idx (T / 86400) / 12 * 12 + nv) + ((gmtime T).mday - 1)) * 86400 + T % 86400) := by
  show gmtime (timegm { gmtime T with mon := nv }) = _
  apply congrArg gmtime
  rw [timegm_eq]; simp only
  obtain ⟨g1, g2, g3, _⟩ := gm_ym T
  obtain ⟨b1, _, _⟩ := idx_bounds (T / 86400)
  have := tod_eq T
  have e1 : (gmtime T).year + 1900 + nv / 12 = idx (T / 86400) / 12 := by omega
  have e2 : nv % 12 + 1 = nv + 1 := by omega
  rw [e1, e2, dfc_day_linear _ _ _ (by omega) (by omega) (by omega) g3]
  unfold S
  have f1 : (idx (T / 86400) / 12 * 12 + nv) / 12 = idx (T / 86400) / 12 := by omega
  have f2 : (idx (T / 86400) / 12 * 12 + nv) % 12 + 1 = nv + 1 := by omega
  rw [f1, f2]; omega

set_option maxRecDepth 8000 in
theorem addYear (T : Nat) : addToField (gmtime T) .year 1 =
    gmtime ((S (idx (T / 86400) + 12) + ((gmtime T).mday - 1)) * 86400 + T % 86400) := by
  show gmtime (timegm { gmtime T with year := (gmtime T).year + 1 }) = _
  apply congrArg gmtime
  rw [timegm_eq]; simp only
  obtain ⟨g1, g2, g3, _⟩ := gm_ym T
  obtain ⟨b1, _, _⟩ := idx_bounds (T / 86400)
  have := tod_eq T
  have e1 : (gmtime T).year + 1 + 1900 + (gmtime T).mon / 12 = idx (T / 86400) / 12 + 1 := by omega
  have e2 : (gmtime T).mon % 12 + 1 = idx (T / 86400) % 12 + 1 := by omega
  rw [e1, e2, dfc_day_linear _ _ _ (by omega) (by omega) (by omega) g3]
  unfold S
  have f1 : (idx (T / 86400) + 12) / 12 = idx (T / 86400) / 12 + 1 := by omega
  have f2 : (idx (T / 86400) + 12) % 12 + 1 = idx (T / 86400) % 12 + 1 := by omega
  rw [f1, f2]; omega

theorem rstMon (T : Nat) : resetMin (gmtime T) .month =
    gmtime ((S (idx (T / 86400) / 12 * 12) + ((gmtime T).mday - 1)) * 86400 + T % 86400) := by
  have h := setMon T 0 (by omega)
  rw [Nat.add_zero] at h; exact h

def Sub4 (r : List Field) : Prop := ∀ f, f ∈ r → f = .second ∨ f = .minute ∨ f = .hour ∨ f = .dom

/-- resets of second / minute / hour / day of month stay inside the month and never move forward -/
theorem resetAll_sub4 (r : List Field) : Sub4 r → ∀ T, ∃ T', resetAllMin (gmtime T) r = gmtime T' ∧
    idx (T' / 86400) = idx (T / 86400) ∧ T' ≤ T := by
  induction r with
  | nil => intro _ T; exact ⟨T, rfl, rfl, Nat.le_refl _⟩
  | cons f fs ih =>
    intro hs T
    have hfs : Sub4 fs := fun g hg => hs g (List.mem_cons_of_mem _ hg)
    have key : ∃ T1, resetMin (gmtime T) f = gmtime T1 ∧ idx (T1 / 86400) = idx (T / 86400) ∧ T1 ≤ T := by
      rcases hs f List.mem_cons_self with hf | hf | hf | hf
      · obtain ⟨T1, a, b, c⟩ := resetMin_smh T f (Or.inl hf); exact ⟨T1, a, by rw [b], c⟩
      · obtain ⟨T1, a, b, c⟩ := resetMin_smh T f (Or.inr (Or.inl hf)); exact ⟨T1, a, by rw [b], c⟩
      · obtain ⟨T1, a, b, c⟩ := resetMin_smh T f (Or.inr (Or.inr hf)); exact ⟨T1, a, by rw [b], c⟩
      · subst hf
        obtain ⟨b1, b2, b3⟩ := idx_bounds (T / 86400)
        refine ⟨_, rstDom T, ?_, by omega⟩
        have e : (S (idx (T / 86400)) * 86400 + T % 86400) / 86400 = S (idx (T / 86400)) := by omega
        rw [e]
        have l1 := idx_ge _ _ b1 (Nat.le_refl (S (idx (T / 86400))))
        have l2 := idx_le (idx (T / 86400)) (S (idx (T / 86400))) (S_step _ b1) b1
        omega
    obtain ⟨T1, e1, d1, l1⟩ := key
    obtain ⟨T2, e2, d2, l2⟩ := ih hfs T1
    refine ⟨T2, ?_, by omega, by omega⟩
    show resetAllMin (resetMin (gmtime T) f) fs = _
    rw [e1, e2]

set_option maxRecDepth 8000 in
/-- an instant on or after the first day of month `J` stays there under Sub4 resets followed by `set_field(month)` -/
theorem month_floor (r : List Field) (hr : Sub4 r) (T J nv : Nat) (hJ : 23640 ≤ J) (hJ12 : J % 12 = 0) (hnv : nv < 12)
    (h : S J * 86400 ≤ T) :
    ∃ T', setField (resetAllMin (gmtime T) r) .month nv = gmtime T' ∧ S J * 86400 ≤ T' := by
  obtain ⟨T1, e1, d1, _⟩ := resetAll_sub4 r hr T
  rw [e1, setMon T1 nv hnv]
  refine ⟨_, rfl, ?_⟩
  generalize (gmtime T1).mday = dd
  have hi : J ≤ idx (T / 86400) := idx_ge J (T / 86400) hJ (by omega)
  have : J ≤ idx (T1 / 86400) / 12 * 12 + nv := by omega
  have := S_mono' hJ this
  have hm : S J * 86400 ≤ S (idx (T1 / 86400) / 12 * 12 + nv) * 86400 := Nat.mul_le_mul_right _ this
  have : S (idx (T1 / 86400) / 12 * 12 + nv) * 86400 ≤
      (S (idx (T1 / 86400) / 12 * 12 + nv) + (dd - 1)) * 86400 := Nat.mul_le_mul_right _ (by omega)
  exact Nat.le_trans hm (Nat.le_trans this (Nat.le_add_right _ _))

set_option maxRecDepth 8000 in
theorem findNext_fwd_mon (bits T : Nat) (lower : List Field) (hl : Sub4 lower) :
    ∃ T', (findNext bits 12 (gmtime T).mon (gmtime T) .month .year lower).1 = gmtime T' ∧ T ≤ T' := by
  obtain ⟨g1, g2, g3, g4⟩ := gm_ym T
  obtain ⟨b1, b2, b3⟩ := idx_bounds (T / 86400)
  have hv : (gmtime T).mon < 12 := by omega
  -- the first day of next year, as a month number
  have hJ : ∃ J, J = (idx (T / 86400) / 12 + 1) * 12 := ⟨_, rfl⟩
  obtain ⟨J, hJd⟩ := hJ
  have hJ1 : idx (T / 86400) + 1 ≤ J := by omega
  have hSJ : T < S J * 86400 := by
    have := S_mono' (i := idx (T / 86400) + 1) (j := J) (by omega) hJ1
    have : (T / 86400 + 1) * 86400 ≤ S J * 86400 := Nat.mul_le_mul_right _ (by omega)
    omega
  -- the roll-over calendar c1 lies in year+1 or later
  have hc1 : ∃ T3, resetMin (addToField (gmtime T) .year 1) .month = gmtime T3 ∧ S J * 86400 ≤ T3 := by
    rw [addYear, rstMon]
    refine ⟨_, rfl, ?_⟩
    generalize (gmtime ((S (idx (T / 86400) + 12) + ((gmtime T).mday - 1)) * 86400 + T % 86400)).mday = d3
    generalize hdd : (gmtime T).mday = dd at *
    have hday : ((S (idx (T / 86400) + 12) + (dd - 1)) * 86400 + T % 86400) / 86400
        = S (idx (T / 86400) + 12) + (dd - 1) := by omega
    rw [hday]
    have hi2 : idx (T / 86400) + 12 ≤ idx (S (idx (T / 86400) + 12) + (dd - 1)) :=
      idx_ge _ _ (by omega) (by omega)
    have : J ≤ idx (S (idx (T / 86400) + 12) + (dd - 1)) / 12 * 12 := by omega
    have := S_mono' (by omega) this
    have hm := Nat.mul_le_mul_right 86400 this
    have : S (idx (S (idx (T / 86400) + 12) + (dd - 1)) / 12 * 12) * 86400 ≤
      (S (idx (S (idx (T / 86400) + 12) + (dd - 1)) / 12 * 12) + (d3 - 1)) * 86400 :=
      Nat.mul_le_mul_right _ (by omega)
    exact Nat.le_trans hm (Nat.le_trans this (Nat.le_add_right _ _))
  rcases findNext_cases bits 12 (gmtime T).mon (gmtime T) .month .year lower hv with h | ⟨nv, a, b, h⟩ | ⟨nv, b, h⟩ | h
  · exact ⟨T, h, Nat.le_refl _⟩
  · rw [h]
    obtain ⟨T1, e1, d1, l1⟩ := resetAll_sub4 lower hl T
    rw [e1, setMon T1 nv b]
    refine ⟨_, rfl, ?_⟩
    generalize (gmtime T1).mday = d1'
    have : idx (T / 86400) + 1 ≤ idx (T1 / 86400) / 12 * 12 + nv := by omega
    have := S_mono' (by omega) this
    have hm := Nat.mul_le_mul_right 86400 this
    have : S (idx (T1 / 86400) / 12 * 12 + nv) * 86400 ≤
        (S (idx (T1 / 86400) / 12 * 12 + nv) + (d1' - 1)) * 86400 := Nat.mul_le_mul_right _ (by omega)
    have : (T / 86400 + 1) * 86400 ≤ S (idx (T / 86400) + 1) * 86400 := Nat.mul_le_mul_right _ (by omega)
    omega
  · rw [h]
    obtain ⟨T3, e3, l3⟩ := hc1
    rw [e3]
    obtain ⟨T', e', l'⟩ := month_floor lower hl T3 J nv (by omega) (by omega) b l3
    exact ⟨T', e', by omega⟩
  · rw [h]
    obtain ⟨T3, e3, l3⟩ := hc1
    exact ⟨T3, e3, by omega⟩

/-! ### the blocks of do_next, do_next and cron_next move forward -/
def RecFwd (rec : Tm → Option Tm) : Prop := ∀ c c', Norm c → rec c = some c' → timegm c ≤ timegm c'

theorem sub1_init : Sub1 (pushField [] .second) := by
  intro f hf
  simp [pushField] at hf
  exact hf

theorem sub2_of_sub1 {r : List Field} (h : Sub1 r) : Sub2 r := fun f hf => Or.inl (h f hf)
theorem smh_of_sub2 {r : List Field} (h : Sub2 r) : Smh r := fun f hf => by
  rcases h f hf with a | a
  · exact Or.inl a
  · exact Or.inr (Or.inl a)
theorem sub4_of_smh {r : List Field} (h : Smh r) : Sub4 r := fun f hf => by
  rcases h f hf with a | a | a
  · exact Or.inl a
  · exact Or.inr (Or.inl a)
  · exact Or.inr (Or.inr (Or.inl a))

theorem push_grade (P : Field → Prop) (r : List Field) (f : Field) (hr : ∀ g, g ∈ r → P g) (hf : P f) :
    ∀ g, g ∈ pushField r f → P g := by
  unfold pushField
  split
  · exact hr
  · intro g hg
    rcases List.mem_append.mp hg with h | h
    · exact hr g h
    · simp at h; subst h; exact hf

theorem stepMinute_fwd (e : CExpr) (rec : Tm → Option Tm) (hf : RecFwd rec) (c1 c2 : Tm) (r1 r2 : List Field)
    (hn : Norm c1) (hr : Sub1 r1) (h : stepMinute e rec c1 r1 = some (c2, r2)) : timegm c1 ≤ timegm c2 ∧ Sub2 r2 := by
  obtain ⟨T, hT⟩ := hn
  obtain ⟨T', e', l'⟩ := findNext_fwd_min e.minutes T r1 hr
  rw [← hT] at e'
  have ht : timegm c1 = T := by rw [hT, timegm_gmtime]
  unfold stepMinute at h
  simp only at h
  rw [ht]
  split at h
  · simp only [Option.some.injEq, Prod.mk.injEq] at h
    obtain ⟨h1, h2⟩ := h
    rw [← h1, ← h2, e', timegm_gmtime]
    exact ⟨l', push_grade _ _ _ (sub2_of_sub1 hr) (Or.inr rfl)⟩
  · cases hrc : rec (findNext e.minutes 60 c1.min c1 .minute .hour r1).1 with
    | none => rw [hrc] at h; simp at h
    | some c =>
      rw [hrc] at h
      simp only [Option.map_some, Option.some.injEq, Prod.mk.injEq] at h
      obtain ⟨h1, h2⟩ := h
      rw [e'] at hrc
      have := hf _ _ ⟨_, rfl⟩ hrc
      rw [timegm_gmtime] at this
      rw [← h1, ← h2]
      exact ⟨by omega, sub2_of_sub1 hr⟩

theorem stepHour_fwd (e : CExpr) (rec : Tm → Option Tm) (hf : RecFwd rec) (c2 c3 : Tm) (r2 r3 : List Field)
    (hn : Norm c2) (hr : Sub2 r2) (h : stepHour e rec c2 r2 = some (c3, r3)) : timegm c2 ≤ timegm c3 ∧ Smh r3 := by
  obtain ⟨T, hT⟩ := hn
  obtain ⟨T', e', l'⟩ := findNext_fwd_hour e.hours T r2 hr
  rw [← hT] at e'
  have ht : timegm c2 = T := by rw [hT, timegm_gmtime]
  unfold stepHour at h
  simp only at h
  rw [ht]
  split at h
  · simp only [Option.some.injEq, Prod.mk.injEq] at h
    obtain ⟨h1, h2⟩ := h
    rw [← h1, ← h2, e', timegm_gmtime]
    exact ⟨l', push_grade _ _ _ (smh_of_sub2 hr) (Or.inr (Or.inr rfl))⟩
  · cases hrc : rec (findNext e.hours 24 c2.hour c2 .hour .dow r2).1 with
    | none => rw [hrc] at h; simp at h
    | some c =>
      rw [hrc] at h
      simp only [Option.map_some, Option.some.injEq, Prod.mk.injEq] at h
      obtain ⟨h1, h2⟩ := h
      rw [e'] at hrc
      have := hf _ _ ⟨_, rfl⟩ hrc
      rw [timegm_gmtime] at this
      rw [← h1, ← h2]
      exact ⟨by omega, smh_of_sub2 hr⟩

theorem stepDay_fwd (e : CExpr) (rec : Tm → Option Tm) (hf : RecFwd rec) (c3 c4 : Tm) (r3 r4 : List Field)
    (hn : Norm c3) (hr : Smh r3) (h : stepDay e rec c3 r3 = some (c4, r4)) : timegm c3 ≤ timegm c4 ∧ Sub4 r4 := by
  obtain ⟨T, hT⟩ := hn
  unfold stepDay at h
  rw [hT] at h ⊢
  clear hT
  obtain ⟨T', k, hl, hd, hk0, _⟩ := findNextDay_spec e.dom e.dow r3 hr T
  rw [hl] at h
  simp only at h
  have hfw : T ≤ T' := by
    by_cases hk : k = 0
    · rw [hk0 hk]; exact Nat.le_refl _
    · omega
  rw [timegm_gmtime]
  split at h
  · simp only [Option.some.injEq, Prod.mk.injEq] at h
    obtain ⟨h1, h2⟩ := h
    rw [← h1, ← h2, timegm_gmtime]
    exact ⟨hfw, push_grade _ _ _ (sub4_of_smh hr) (Or.inr (Or.inr (Or.inr rfl)))⟩
  · cases hrc : rec (gmtime T') with
    | none => rw [hrc] at h; simp at h
    | some c =>
      rw [hrc] at h
      simp only [Option.map_some, Option.some.injEq, Prod.mk.injEq] at h
      obtain ⟨h1, h2⟩ := h
      have := hf _ _ ⟨_, rfl⟩ hrc
      rw [timegm_gmtime] at this
      rw [← h1, ← h2]
      exact ⟨by omega, sub4_of_smh hr⟩

theorem stepMonth_fwd (e : CExpr) (dot : Nat) (rec : Tm → Option Tm) (hf : RecFwd rec) (c4 c5 : Tm) (r4 : List Field)
    (hn : Norm c4) (hr : Sub4 r4) (h : stepMonth e dot rec c4 r4 = some c5) : timegm c4 ≤ timegm c5 := by
  obtain ⟨T, hT⟩ := hn
  obtain ⟨T', e', l'⟩ := findNext_fwd_mon e.months T r4 hr
  rw [← hT] at e'
  have ht : timegm c4 = T := by rw [hT, timegm_gmtime]
  unfold stepMonth at h
  simp only at h
  rw [ht]
  split at h
  · split at h
    · cases h
    · rw [e'] at h
      have := hf _ _ ⟨_, rfl⟩ h
      rw [timegm_gmtime] at this
      omega
  · simp only [Option.some.injEq] at h
    rw [← h, e', timegm_gmtime]; exact l'

/-- **do_next never moves the calendar backwards** -/
theorem doNext_forward (e : CExpr) (hw : WF e) (dot : Nat) : ∀ fuel, RecFwd (doNext e dot fuel) := by
  intro fuel
  induction fuel with
  | zero => intro c c' _ h; simp [doNext] at h
  | succ n ih =>
    intro c0 c' hn h
    have hok := doNext_sound e hw dot n
    unfold doNext at h
    simp only at h
    obtain ⟨T0, hT0⟩ := hn
    have hn0 : Norm c0 := ⟨T0, hT0⟩
    have hn1 := findNext_norm e.seconds 60 c0.sec c0 .second .minute [] hn0
    have hs1 := findNext_sec e.seconds c0 .minute [] hw.sec (norm_bounds hn0).1
    have hr1 : Smh (pushField [] .second) := smh_push [] _ (fun _ h => by cases h) (Or.inl rfl)
    have hf1 : timegm c0 ≤ timegm (findNext e.seconds 60 c0.sec c0 .second .minute []).1 := by
      rw [hT0]
      obtain ⟨T', e', l'⟩ := findNext_fwd_sec e.seconds T0
      rw [e', timegm_gmtime, timegm_gmtime]; exact l'
    cases h2 : stepMinute e (doNext e dot n) (findNext e.seconds 60 c0.sec c0 .second .minute []).1 (pushField [] .second) with
    | none => rw [h2] at h; simp at h
    | some p2 =>
      rw [h2] at h
      simp only [Option.bind_some] at h
      obtain ⟨n2, s2, m2, _⟩ := stepMinute_ok e hw _ hok _ p2.1 _ p2.2 hn1 hs1 hr1 h2
      obtain ⟨f2, g2⟩ := stepMinute_fwd e _ ih _ p2.1 _ p2.2 hn1 sub1_init h2
      cases h3 : stepHour e (doNext e dot n) p2.1 p2.2 with
      | none => rw [h3] at h; simp at h
      | some p3 =>
        rw [h3] at h
        simp only [Option.bind_some] at h
        obtain ⟨n3, s3, m3, hh3, _⟩ := stepHour_ok e hw _ hok _ p3.1 _ p3.2 n2 s2 m2 (smh_of_sub2 g2) h3
        obtain ⟨f3, g3⟩ := stepHour_fwd e _ ih _ p3.1 _ p3.2 n2 g2 h3
        cases h4 : stepDay e (doNext e dot n) p3.1 p3.2 with
        | none => rw [h4] at h; simp at h
        | some p4 =>
          rw [h4] at h
          simp only [Option.bind_some] at h
          obtain ⟨n4, _⟩ := stepDay_ok e _ hok _ p4.1 _ p4.2 n3 s3 m3 hh3 g3 h4
          obtain ⟨f4, g4⟩ := stepDay_fwd e _ ih _ p4.1 _ p4.2 n3 g3 h4
          have f5 := stepMonth_fwd e dot _ ih _ _ _ n4 g4 h
          omega

/-- **cron_next returns an instant strictly after its argument** -/
theorem cronNext_after (e : CExpr) (hw : WF e) (t fuel r : Nat) (h : cronNext e t fuel = some r) : t < r := by
  unfold cronNext at h
  simp only at h
  cases h1 : doNext e (gmtime t).year fuel (gmtime t) with
  | none => rw [h1] at h; cases h
  | some c1 =>
    rw [h1] at h
    simp only at h
    have f1 := doNext_forward e hw _ fuel _ _ ⟨t, rfl⟩ h1
    obtain ⟨⟨T1, hT1⟩, _⟩ := doNext_sound e hw _ fuel _ _ ⟨t, rfl⟩ h1
    rw [timegm_gmtime] at f1 h
    split at h
    · rename_i heq
      have hT : timegm c1 = t := by simpa using heq
      rw [hT1, timegm_gmtime] at hT
      rw [hT1, hT, addSec] at h
      cases h2 : doNext e (gmtime (t + 1)).year fuel (gmtime (t + 1)) with
      | none => rw [h2] at h; cases h
      | some c3 =>
        rw [h2] at h
        simp only [Option.map_some, Option.some.injEq] at h
        have f3 := doNext_forward e hw _ fuel _ _ ⟨t + 1, rfl⟩ h2
        rw [timegm_gmtime] at f3
        omega
    · rename_i hne
      simp only [Option.some.injEq] at h
      have : timegm c1 ≠ t := by simpa using hne
      omega

end Tbox.C20.CC
