/-
C20 — minimality of the transcribed `cron_next` (CCron.lean): `do_next` skips no matching instant, hence whatever
`cron_next` returns is the EARLIEST matching instant strictly after its argument, and it coincides with the
reference search `Cron.nextCron` whenever both succeed.
  * `findNext_exact`        the three ways `find_next` can end, with the facts about the bits it passed over
  * `secBlock_skip` / `minBlock_skip` / `hourBlock_skip` / `dayLoop_skip` / `monBlock_skip`
                            the exact instant each block of `do_next` produces when no earlier block changed its
                            field (the `resets` list is then the full one), and: every instant passed over has a
                            disallowed value in that very field; when the field changes the calendar produced is
                            STRICTLY later (`T < T'` — the recursion measure of CCronFuel.lean)
  * `stepMinute_skip` … `stepMonth_skip`, `doNext_skip`
                            state between the blocks: the calendar matches every field (a recursion returned it;
                            all later blocks are then the identity: `findNext_id`, `findNextDay_id`) or the resets
                            list is the full one
  * `cronMatch_matchTm`, `cronNext_earliest`, `earliest_unique`, `cronNext_eq_reference_of_some`
Month lengths (`S_len`: at least 28 days, `S_dec`: December has 31) come from `dfc_char'` of CalLaws.lean.
-/
import TboxModel.C20.CCronFwd
import TboxModel.C20.Spec
import TboxModel.C20.CronProofs
namespace Tbox.C20.CC
open Tbox.C20.Cron

def MatchAt (e : CExpr) (r : Nat) : Prop := MatchTm e (gmtime r)
def RecSkip (e : CExpr) (rec : Tm → Option Tm) : Prop :=
  ∀ T c', rec (gmtime T) = some c' → ∀ r, T ≤ r → r < timegm c' → ¬ MatchAt e r

theorem nsb_self (bits max value : Nat) (hv : value < max) (hb : getBit bits value = true) :
    nextSetBit bits max max value = some value := by
  obtain ⟨m, rfl⟩ : ∃ m, max = m + 1 := ⟨max - 1, by omega⟩
  unfold nextSetBit
  rw [if_pos hv, if_pos hb]

theorem findNext_id (bits max value : Nat) (c : Tm) (f nf : Field) (lower : List Field) (hv : value < max)
    (hb : getBit bits value = true) : findNext bits max value c f nf lower = (c, value) := by
  unfold findNext
  rw [nsb_self bits max value hv hb]
  simp

theorem findNext_exact (bits max value : Nat) (c : Tm) (f nf : Field) (lower : List Field) (hv : value < max)
    (hok : BitsOk bits max) :
    (findNext bits max value c f nf lower = (c, value) ∧ getBit bits value = true) ∨
    (∃ nv, value < nv ∧ nv < max ∧
       findNext bits max value c f nf lower = (setField (resetAllMin c lower) f nv, nv) ∧
       ∀ j, value ≤ j → j < nv → getBit bits j = false) ∨
    (∃ nv, nv < max ∧ nv ≠ value ∧
       findNext bits max value c f nf lower =
         (setField (resetAllMin (resetMin (addToField c nf 1) f) lower) f nv, nv) ∧
       (∀ j, value ≤ j → j < max → getBit bits j = false) ∧ ∀ j, j < nv → getBit bits j = false) := by
  unfold findNext
  cases h1 : nextSetBit bits max max value with
  | some nv =>
    obtain ⟨a1, a2, a3, a4⟩ := nsb_some _ _ _ _ _ h1
    simp only
    by_cases hne : (nv != value) = true
    · rw [if_pos hne]
      have : nv ≠ value := by simpa using hne
      exact Or.inr (Or.inl ⟨nv, by omega, a2, rfl, a4⟩)
    · rw [if_neg hne]
      have : nv = value := by simpa using hne
      subst this
      exact Or.inl ⟨rfl, a3⟩
  | none =>
    simp only
    have hnone := nsb_none _ _ _ _ h1 (by omega)
    cases h2 : nextSetBit bits max max 0 with
    | some nv =>
      obtain ⟨_, a2, a3, a4⟩ := nsb_some _ _ _ _ _ h2
      simp only
      have hne : nv ≠ value := by
        intro hq; subst hq
        have := hnone nv (Nat.le_refl _) a2
        rw [a3] at this; cases this
      have hne' : (nv != value) = true := by simpa using hne
      rw [if_pos hne']
      exact Or.inr (Or.inr ⟨nv, a2, hne, rfl, hnone, fun j hj => a4 j (Nat.zero_le _) hj⟩)
    | none =>
      obtain ⟨i, hi, hb⟩ := hok
      have := nsb_none _ _ _ _ h2 (by omega) i (Nat.zero_le _) hi
      rw [hb] at this; cases this

/-! ### seconds -/
theorem secBlock_skip (e : CExpr) (hw : WF e) (T : Nat) :
    ∃ T', (findNext e.seconds 60 (gmtime T).sec (gmtime T) .second .minute []).1 = gmtime T' ∧
      ∀ r, T ≤ r → r < T' → ¬ MatchAt e r := by
  have hv : (gmtime T).sec < 60 := by rw [gmtime_sec]; omega
  rcases findNext_exact e.seconds 60 _ (gmtime T) .second .minute [] hv hw.sec with
    ⟨h, _⟩ | ⟨nv, a, b, h, hf⟩ | ⟨nv, b, _, h, hf1, hf2⟩
  · rw [h]; exact ⟨T, rfl, fun r h1 h2 => by omega⟩
  · rw [h]
    refine ⟨T - T % 60 + nv, setSec T nv, ?_⟩
    intro r h1 h2 hm
    have hs := hm.1
    rw [gmtime_sec] at hs a hf
    have := hf (r % 60) (by omega) (by omega)
    rw [this] at hs; cases hs
  · rw [h]
    show ∃ T', setField (resetMin (addToField (gmtime T) .minute 1) .second) .second nv = _ ∧ _
    rw [addMin, rstSec, setSec]
    refine ⟨_, rfl, ?_⟩
    intro r h1 h2 hm
    have hs := hm.1
    rw [gmtime_sec] at hs hf1
    by_cases hc : r / 60 = T / 60
    · have := hf1 (r % 60) (by omega) (by omega)
      rw [this] at hs; cases hs
    · have := hf2 (r % 60) (by omega)
      rw [this] at hs; cases hs

/-! ### minutes -/
theorem low1 (T : Nat) : resetMin (gmtime T) .second = gmtime (T / 60 * 60) := by
  rw [rstSec]; congr 1; omega
theorem low2 (T : Nat) : resetMin (resetMin (gmtime T) .second) .minute = gmtime (T / 3600 * 3600) := by
  rw [rstSec, rstMin]; congr 1; omega
theorem setMin0 (T nv : Nat) (h : T % 3600 = 0) : setField (gmtime T) .minute nv = gmtime (T + nv * 60) := by
  rw [setMin]; congr 1; omega
theorem setHour0 (T nv : Nat) (h : T % 86400 = 0) : setField (gmtime T) .hour nv = gmtime (T + nv * 3600) := by
  rw [setHour]; congr 1; omega
theorem setMin1 (T nv : Nat) : setField (resetMin (gmtime T) .second) .minute nv = gmtime (T / 3600 * 3600 + nv * 60) := by
  rw [rstSec, setMin]; congr 1; omega
theorem setHour1 (T nv : Nat) :
    setField (resetMin (resetMin (gmtime T) .second) .minute) .hour nv = gmtime (T / 86400 * 86400 + nv * 3600) := by
  rw [low2, setHour]; congr 1; omega
theorem rollMin (T : Nat) : resetMin (resetMin (addToField (gmtime T) .hour 1) .minute) .second =
    gmtime ((T / 3600 + 1) * 3600) := by
  rw [addHour, rstMin, rstSec]; congr 1; omega
set_option maxRecDepth 8000 in
theorem rollHour (T : Nat) : resetMin (resetMin (resetMin (addToField (gmtime T) .dow 1) .hour) .second) .minute =
    gmtime ((T / 86400 + 1) * 86400) := by
  rw [addDow, rstHour, low2]; congr 1; omega

theorem minBlock_skip (e : CExpr) (hw : WF e) (T : Nat) :
    (findNext e.minutes 60 (gmtime T).min (gmtime T) .minute .hour [.second] = (gmtime T, (gmtime T).min)) ∨
    ∃ T' nv, nv ≠ (gmtime T).min ∧
      findNext e.minutes 60 (gmtime T).min (gmtime T) .minute .hour [.second] = (gmtime T', nv) ∧
      (∀ r, T ≤ r → r < T' → ¬ MatchAt e r) ∧ T < T' := by
  have hv : (gmtime T).min < 60 := by rw [gmtime_min]; omega
  rcases findNext_exact e.minutes 60 _ (gmtime T) .minute .hour [.second] hv hw.min with
    ⟨h, _⟩ | ⟨nv, a, b, h, hf⟩ | ⟨nv, b, hne, h, hf1, hf2⟩
  · exact Or.inl h
  · refine Or.inr ⟨T / 3600 * 3600 + nv * 60, nv, by omega, ?_, ?_, ?_⟩
    rotate_left 2
    · rw [gmtime_min] at a; omega
    · rw [h]
      show (setField (resetMin (gmtime T) .second) .minute nv, nv) = _
      rw [setMin1]
    · intro r h1 h2 hm
      have hs := hm.2.1
      rw [gmtime_min] at hs a hf
      have := hf (r / 60 % 60) (by omega) (by omega)
      rw [this] at hs; cases hs
  · refine Or.inr ⟨(T / 3600 + 1) * 3600 + nv * 60, nv, hne, ?_, ?_, by omega⟩
    · rw [h]
      show (setField (resetMin (resetMin (addToField (gmtime T) .hour 1) .minute) .second) .minute nv, nv) = _
      rw [rollMin, setMin0 _ _ (by omega)]
    · intro r h1 h2 hm
      have hs := hm.2.1
      rw [gmtime_min] at hs hf1
      by_cases hc : r / 3600 = T / 3600
      · have := hf1 (r / 60 % 60) (by omega) (by omega)
        rw [this] at hs; cases hs
      · have := hf2 (r / 60 % 60) (by omega)
        rw [this] at hs; cases hs

/-! ### hours -/
theorem hourBlock_skip (e : CExpr) (hw : WF e) (T : Nat) :
    (findNext e.hours 24 (gmtime T).hour (gmtime T) .hour .dow [.second, .minute] = (gmtime T, (gmtime T).hour)) ∨
    ∃ T' nv, nv ≠ (gmtime T).hour ∧
      findNext e.hours 24 (gmtime T).hour (gmtime T) .hour .dow [.second, .minute] = (gmtime T', nv) ∧
      (∀ r, T ≤ r → r < T' → ¬ MatchAt e r) ∧ T < T' := by
  have hv : (gmtime T).hour < 24 := by rw [gmtime_hour]; omega
  rcases findNext_exact e.hours 24 _ (gmtime T) .hour .dow [.second, .minute] hv hw.hour with
    ⟨h, _⟩ | ⟨nv, a, b, h, hf⟩ | ⟨nv, b, hne, h, hf1, hf2⟩
  · exact Or.inl h
  · refine Or.inr ⟨T / 86400 * 86400 + nv * 3600, nv, by omega, ?_, ?_, ?_⟩
    rotate_left 2
    · rw [gmtime_hour] at a; omega
    · rw [h]
      show (setField (resetMin (resetMin (gmtime T) .second) .minute) .hour nv, nv) = _
      rw [setHour1]
    · intro r h1 h2 hm
      have hs := hm.2.2.1
      rw [gmtime_hour] at hs a hf
      have := hf (r / 3600 % 24) (by omega) (by omega)
      rw [this] at hs; cases hs
  · refine Or.inr ⟨(T / 86400 + 1) * 86400 + nv * 3600, nv, hne, ?_, ?_, by omega⟩
    · rw [h]
      show (setField (resetMin (resetMin (resetMin (addToField (gmtime T) .dow 1) .hour) .second) .minute) .hour nv, nv) = _
      rw [rollHour, setHour0 _ _ (by omega)]
    · intro r h1 h2 hm
      have hs := hm.2.2.1
      rw [gmtime_hour] at hs hf1
      by_cases hc : r / 86400 = T / 86400
      · have := hf1 (r / 3600 % 24) (by omega) (by omega)
        rw [this] at hs; cases hs
      · have := hf2 (r / 3600 % 24) (by omega)
        rw [this] at hs; cases hs

/-! ### the minute and hour blocks of do_next -/
theorem stepMinute_skip (e : CExpr) (hw : WF e) (rec : Tm → Option Tm) (hok : RecOk e rec) (hsk : RecSkip e rec)
    (T : Nat) (p : Tm × List Field) (h : stepMinute e rec (gmtime T) [.second] = some p) :
    ∃ T', p.1 = gmtime T' ∧ (∀ r, T ≤ r → r < T' → ¬ MatchAt e r) ∧
      (MatchTm e (gmtime T') ∨ p.2 = [.second, .minute]) := by
  unfold stepMinute at h
  simp only at h
  rcases minBlock_skip e hw T with hfn | ⟨T1, nv, hne, hfn, hs1, _⟩
  · rw [hfn] at h
    simp only [beq_self_eq_true, if_true, Option.some.injEq] at h
    subst h
    exact ⟨T, rfl, fun r h1 h2 => by omega, Or.inr rfl⟩
  · rw [hfn] at h
    have hb : ((gmtime T).min == nv) = false := by simpa using (Ne.symm hne)
    simp only [hb, Bool.false_eq_true, if_false] at h
    cases hrc : rec (gmtime T1) with
    | none => rw [hrc] at h; simp at h
    | some c =>
      rw [hrc] at h
      simp only [Option.map_some, Option.some.injEq] at h
      subst h
      obtain ⟨⟨T2, rfl⟩, m2⟩ := hok _ _ ⟨_, rfl⟩ hrc
      have hs2 := hsk _ _ hrc
      rw [timegm_gmtime] at hs2
      refine ⟨T2, rfl, ?_, Or.inl m2⟩
      intro r h1 h2
      by_cases hc : r < T1
      · exact hs1 r h1 hc
      · exact hs2 r (by omega) h2

theorem stepHour_skip (e : CExpr) (hw : WF e) (rec : Tm → Option Tm) (hok : RecOk e rec) (hsk : RecSkip e rec)
    (T : Nat) (r2 : List Field) (p : Tm × List Field) (hg : MatchTm e (gmtime T) ∨ r2 = [.second, .minute])
    (h : stepHour e rec (gmtime T) r2 = some p) :
    ∃ T', p.1 = gmtime T' ∧ (∀ r, T ≤ r → r < T' → ¬ MatchAt e r) ∧
      (MatchTm e (gmtime T') ∨ p.2 = [.second, .minute, .hour]) := by
  unfold stepHour at h
  simp only at h
  have hv : (gmtime T).hour < 24 := by rw [gmtime_hour]; omega
  rcases hg with hm | rfl
  · rw [findNext_id _ _ _ _ _ _ _ hv hm.2.2.1] at h
    simp only [beq_self_eq_true, if_true, Option.some.injEq] at h
    subst h
    exact ⟨T, rfl, fun r h1 h2 => by omega, Or.inl hm⟩
  rcases hourBlock_skip e hw T with hfn | ⟨T1, nv, hne, hfn, hs1, _⟩
  · rw [hfn] at h
    simp only [beq_self_eq_true, if_true, Option.some.injEq] at h
    subst h
    exact ⟨T, rfl, fun r h1 h2 => by omega, Or.inr rfl⟩
  · rw [hfn] at h
    have hb : ((gmtime T).hour == nv) = false := by simpa using (Ne.symm hne)
    simp only [hb, Bool.false_eq_true, if_false] at h
    cases hrc : rec (gmtime T1) with
    | none => rw [hrc] at h; simp at h
    | some c =>
      rw [hrc] at h
      simp only [Option.map_some, Option.some.injEq] at h
      subst h
      obtain ⟨⟨T2, rfl⟩, m2⟩ := hok _ _ ⟨_, rfl⟩ hrc
      have hs2 := hsk _ _ hrc
      rw [timegm_gmtime] at hs2
      refine ⟨T2, rfl, ?_, Or.inl m2⟩
      intro r h1 h2
      by_cases hc : r < T1
      · exact hs1 r h1 hc
      · exact hs2 r (by omega) h2

/-! ### days -/
theorem dayLoop_id (ed ew : Nat) (r : List Field) (n : Nat) (c : Tm) (h1 : getBit ed c.mday = true)
    (h2 : getBit ew c.wday = true) : findNextDayLoop ed ew r (n + 1) c c.mday c.wday = (c, c.mday) := by
  unfold findNextDayLoop
  simp [h1, h2]

theorem resetAll3 (T : Nat) : resetAllMin (gmtime T) [.second, .minute, .hour] = gmtime (T / 86400 * 86400) := by
  show resetMin (resetMin (resetMin (gmtime T) .second) .minute) .hour = _
  rw [rstSec, rstMin, rstHour]
  congr 1
  omega

theorem dayLoop_skip (ed ew : Nat) : ∀ n T, ∃ T',
    findNextDayLoop ed ew [.second, .minute, .hour] n (gmtime T) (gmtime T).mday (gmtime T).wday =
      (gmtime T', (gmtime T').mday) ∧
    (T' = T ∨ T / 86400 < T' / 86400) ∧
    ∀ r, T ≤ r → r < T' → ¬ (getBit ed (gmtime r).mday = true ∧ getBit ew (gmtime r).wday = true) := by
  intro n
  induction n with
  | zero => intro T; exact ⟨T, rfl, Or.inl rfl, fun r h1 h2 => by omega⟩
  | succ n ih =>
    intro T
    unfold findNextDayLoop
    by_cases hc : (!getBit ed (gmtime T).mday || !getBit ew (gmtime T).wday) = true
    · simp only [hc, if_true]
      rw [addDom, resetAll3]
      have d1 : (T + 86400) / 86400 * 86400 / 86400 = (T + 86400) / 86400 := by omega
      obtain ⟨s1, _, _, s4⟩ := gmtime_same_day d1
      rw [← s1, ← s4]
      obtain ⟨T', h1, h2, h3⟩ := ih ((T + 86400) / 86400 * 86400)
      refine ⟨T', h1, Or.inr (by omega), ?_⟩
      intro r a1 a2
      by_cases hr : r < (T + 86400) / 86400 * 86400
      · have d2 : r / 86400 = T / 86400 := by omega
        obtain ⟨t1, _, _, t4⟩ := gmtime_same_day d2
        rw [t1, t4]
        intro hb
        simp [hb.1, hb.2] at hc
      · exact h3 r (by omega) a2
    · rw [if_neg hc]
      exact ⟨T, rfl, Or.inl rfl, fun r h1 h2 => by omega⟩

theorem findNextDay_id (ed ew : Nat) (r : List Field) (c : Tm) (h1 : getBit ed c.mday = true)
    (h2 : getBit ew c.wday = true) : findNextDay c ed ew r = (c, c.mday) := dayLoop_id ed ew r 365 c h1 h2

theorem findNextDay_skip (ed ew T : Nat) : ∃ T',
    findNextDay (gmtime T) ed ew [.second, .minute, .hour] = (gmtime T', (gmtime T').mday) ∧
    (T' = T ∨ T / 86400 < T' / 86400) ∧
    ∀ r, T ≤ r → r < T' → ¬ (getBit ed (gmtime r).mday = true ∧ getBit ew (gmtime r).wday = true) :=
  dayLoop_skip ed ew 366 T

theorem stepDay_eq (e : CExpr) (rec : Tm → Option Tm) (c3 : Tm) (r3 : List Field) :
    stepDay e rec c3 r3 =
      if (c3.mday == (findNextDay c3 e.dom e.dow r3).2 && c3.mon == (findNextDay c3 e.dom e.dow r3).1.mon &&
          c3.year == (findNextDay c3 e.dom e.dow r3).1.year) = true
      then some ((findNextDay c3 e.dom e.dow r3).1, pushField r3 .dom)
      else (rec (findNextDay c3 e.dom e.dow r3).1).map (fun c => (c, r3)) := rfl

theorem dayCond_self (a b c : Nat) : (a == a && b == b && c == c) = true := by simp

theorem stepDay_skip (e : CExpr) (rec : Tm → Option Tm) (hok : RecOk e rec) (hsk : RecSkip e rec)
    (T : Nat) (r3 : List Field) (p : Tm × List Field) (hg : MatchTm e (gmtime T) ∨ r3 = [.second, .minute, .hour])
    (h : stepDay e rec (gmtime T) r3 = some p) :
    ∃ T', p.1 = gmtime T' ∧ (∀ r, T ≤ r → r < T' → ¬ MatchAt e r) ∧
      (MatchTm e (gmtime T') ∨ p.2 = [.second, .minute, .hour, .dom]) := by
  rw [stepDay_eq] at h
  rcases hg with hm | rfl
  · rw [findNextDay_id _ _ _ _ hm.2.2.2.1 hm.2.2.2.2.1] at h
    simp only at h
    rw [if_pos (dayCond_self _ _ _)] at h
    simp only [Option.some.injEq] at h
    subst h
    exact ⟨T, rfl, fun r h1 h2 => by omega, Or.inl hm⟩
  obtain ⟨T1, hl, hd, hs1⟩ := findNextDay_skip e.dom e.dow T
  rw [hl] at h
  simp only at h
  have hs1' : ∀ r, T ≤ r → r < T1 → ¬ MatchAt e r := fun r a b hm => hs1 r a b ⟨hm.2.2.2.1, hm.2.2.2.2.1⟩
  by_cases hc : ((gmtime T).mday == (gmtime T1).mday && (gmtime T).mon == (gmtime T1).mon &&
      (gmtime T).year == (gmtime T1).year) = true
  · rw [if_pos hc] at h
    simp only [Bool.and_eq_true, beq_iff_eq] at hc
    have hday := gmtime_date_inj hc.1.1 hc.1.2 hc.2
    have hT : T1 = T := by omega
    subst hT
    simp only [Option.some.injEq] at h
    subst h
    exact ⟨T1, rfl, fun r h1 h2 => by omega, Or.inr rfl⟩
  · rw [if_neg hc] at h
    cases hrc : rec (gmtime T1) with
    | none => rw [hrc] at h; simp at h
    | some c =>
      rw [hrc] at h
      simp only [Option.map_some, Option.some.injEq] at h
      subst h
      obtain ⟨⟨T2, rfl⟩, m2⟩ := hok _ _ ⟨_, rfl⟩ hrc
      have hs2 := hsk _ _ hrc
      rw [timegm_gmtime] at hs2
      refine ⟨T2, rfl, ?_, Or.inl m2⟩
      intro r h1 h2
      by_cases hc : r < T1
      · exact hs1' r h1 hc
      · exact hs2 r (by omega) h2

/-! ### months -/
theorem dfc_month_len (y m : Nat) (hy : 1970 ≤ y) (hm1 : 1 ≤ m) (hm2 : m < 12) :
    dfc y m 1 + 28 ≤ dfc y (m + 1) 1 := by
  obtain ⟨y1, k1, a1, b1, c1, d1⟩ := dfc_char' y m 1 hy hm1 (by omega) (Nat.le_refl 1)
  obtain ⟨y2, k2, a2, b2, c2, d2⟩ := dfc_char' y (m + 1) 1 hy (by omega) (by omega) (Nat.le_refl 1)
  by_cases h1 : m = 1
  · subst h1
    obtain ⟨e1, e2⟩ := c1 (by omega)
    obtain ⟨e3, e4⟩ := c2 (by omega)
    have : y1 = y2 := by omega
    subst this; omega
  · by_cases h2 : m = 2
    · subst h2
      obtain ⟨e1, e2⟩ := c1 (by omega)
      obtain ⟨e3, e4⟩ := d2 (by omega)
      subst e3
      have := dby_step y1
      rw [e1] at this
      omega
    · obtain ⟨e1, e2⟩ := d1 (by omega)
      obtain ⟨e3, e4⟩ := d2 (by omega)
      subst e1; subst e3; omega

theorem dfc_dec_len (y : Nat) (hy : 1970 ≤ y) : dfc (y + 1) 1 1 = dfc y 12 1 + 31 := by
  obtain ⟨y1, k1, a1, b1, c1, d1⟩ := dfc_char' y 12 1 hy (by omega) (by omega) (Nat.le_refl 1)
  obtain ⟨y2, k2, a2, b2, c2, d2⟩ := dfc_char' (y + 1) 1 1 (by omega) (by omega) (by omega) (Nat.le_refl 1)
  obtain ⟨e1, e2⟩ := d1 (by omega)
  obtain ⟨e3, e4⟩ := c2 (by omega)
  have : y1 = y2 := by omega
  subst this; omega

theorem S_dec (i : Nat) (hi : 23640 ≤ i) (h : i % 12 = 11) : S (i + 1) = S i + 31 := by
  unfold S
  have e0 : i % 12 + 1 = 12 := by omega
  have e1 : (i + 1) / 12 = i / 12 + 1 := by omega
  have e2 : (i + 1) % 12 + 1 = 1 := by omega
  rw [e0, e1, e2]
  exact dfc_dec_len _ (by omega)

theorem S_len (i : Nat) (hi : 23640 ≤ i) : S i + 28 ≤ S (i + 1) := by
  by_cases h : i % 12 < 11
  · unfold S
    have e1 : (i + 1) / 12 = i / 12 := by omega
    have e2 : (i + 1) % 12 + 1 = i % 12 + 1 + 1 := by omega
    rw [e1, e2]
    exact dfc_month_len _ _ (by omega) (by omega) (by omega)
  · have := S_dec i hi (by omega); omega

theorem idx_S (i : Nat) (hi : 23640 ≤ i) : idx (S i) = i := by
  have l1 := idx_ge i (S i) hi (Nat.le_refl _)
  have l2 := idx_le i (S i) (S_step i hi) hi
  omega

/-- a day at most 30 days after the first of month `k` lies in month `k` or `k + 1` -/
theorem idx_near (k d : Nat) (hk : 23640 ≤ k) (hd : d ≤ 30) : k ≤ idx (S k + d) ∧ idx (S k + d) ≤ k + 1 := by
  refine ⟨idx_ge k _ hk (by omega), idx_le (k + 1) _ ?_ (by omega)⟩
  have a := S_len k hk
  have b := S_len (k + 1) (by omega)
  omega

theorem idx_dec (k d : Nat) (hk : 23640 ≤ k) (hdec : k % 12 = 11) (hd : d ≤ 30) : idx (S k + d) = k := by
  have l1 := idx_ge k (S k + d) hk (by omega)
  have l2 := idx_le k (S k + d) (by have := S_dec k hk hdec; omega) hk
  omega

theorem mday_le (T : Nat) : 1 ≤ (gmtime T).mday ∧ (gmtime T).mday ≤ 31 := by
  rw [gmtime_mday]
  obtain ⟨_, _, _, h4, h5⟩ := civil_ranges (T / 86400)
  exact ⟨h4, h5⟩

set_option maxRecDepth 8000 in
theorem mday_first (i : Nat) (hi : 23640 ≤ i) : (gmtime (S i * 86400)).mday = 1 := by
  obtain ⟨_, _, g3, g4⟩ := gm_ym (S i * 86400)
  have e : S i * 86400 / 86400 = S i := by omega
  rw [e, idx_S i hi] at g4
  omega

set_option maxRecDepth 8000 in
theorem resetAll4 (T : Nat) :
    resetAllMin (gmtime T) [.second, .minute, .hour, .dom] = gmtime (S (idx (T / 86400)) * 86400) := by
  show resetMin (resetAllMin (gmtime T) [.second, .minute, .hour]) .dom = _
  rw [resetAll3, rstDom]
  have e1 : T / 86400 * 86400 / 86400 = T / 86400 := by omega
  have e2 : T / 86400 * 86400 % 86400 = 0 := by omega
  rw [e1, e2, Nat.add_zero]

set_option maxRecDepth 8000 in
theorem setMon_first (j nv : Nat) (hj : 23640 ≤ j) (hnv : nv < 12) :
    setField (gmtime (S j * 86400)) .month nv = gmtime (S (j / 12 * 12 + nv) * 86400) := by
  rw [setMon _ nv hnv, mday_first j hj]
  have e1 : S j * 86400 / 86400 = S j := by omega
  have e2 : S j * 86400 % 86400 = 0 := by omega
  rw [e1, e2, idx_S j hj, Nat.add_zero, Nat.sub_self, Nat.add_zero]

set_option maxRecDepth 8000 in
theorem rollMon0 (T : Nat) : ∃ B, resetMin (addToField (gmtime T) .year 1) .month = gmtime B ∧
    idx (B / 86400) / 12 = idx (T / 86400) / 12 + 1 := by
  rw [addYear, rstMon]
  refine ⟨_, rfl, ?_⟩
  obtain ⟨b1, _, _⟩ := idx_bounds (T / 86400)
  obtain ⟨d1, d2⟩ := mday_le T
  obtain ⟨A, hA⟩ : ∃ A, A = (S (idx (T / 86400) + 12) + ((gmtime T).mday - 1)) * 86400 + T % 86400 := ⟨_, rfl⟩
  rw [← hA]
  have hAd : A / 86400 = S (idx (T / 86400) + 12) + ((gmtime T).mday - 1) := by omega
  obtain ⟨a1, a2⟩ := mday_le A
  have ha : idx (A / 86400) / 12 = idx (T / 86400) / 12 + 1 := by
    rw [hAd]
    obtain ⟨n1, n2⟩ := idx_near (idx (T / 86400) + 12) ((gmtime T).mday - 1) (by omega) (by omega)
    by_cases hdec : idx (T / 86400) % 12 = 11
    · rw [idx_dec _ _ (by omega) (by omega) (by omega)]; omega
    · omega
  generalize (gmtime A).mday = dA at *
  have hBd : ((S (idx (A / 86400) / 12 * 12) + (dA - 1)) * 86400 + A % 86400) / 86400 =
      S (idx (A / 86400) / 12 * 12) + (dA - 1) := by omega
  rw [hBd]
  obtain ⟨n1, n2⟩ := idx_near (idx (A / 86400) / 12 * 12) (dA - 1) (by omega) (by omega)
  omega

/-- the roll-over calendar of the month block, after the resets: the first day of some month of next year -/
theorem rollMon (T : Nat) : ∃ j,
    resetAllMin (resetMin (addToField (gmtime T) .year 1) .month) [.second, .minute, .hour, .dom] =
      gmtime (S j * 86400) ∧ j / 12 = idx (T / 86400) / 12 + 1 := by
  obtain ⟨B, hB, hj⟩ := rollMon0 T
  rw [hB]
  exact ⟨idx (B / 86400), resetAll4 B, hj⟩

theorem mon_of (r : Nat) : (gmtime r).mon = idx (r / 86400) % 12 := (gm_ym r).2.1

set_option maxRecDepth 8000 in
theorem monBlock_skip (e : CExpr) (hw : WF e) (T : Nat) :
    (findNext e.months 12 (gmtime T).mon (gmtime T) .month .year [.second, .minute, .hour, .dom] =
      (gmtime T, (gmtime T).mon)) ∨
    ∃ T' nv, nv ≠ (gmtime T).mon ∧
      findNext e.months 12 (gmtime T).mon (gmtime T) .month .year [.second, .minute, .hour, .dom] = (gmtime T', nv) ∧
      (∀ r, T ≤ r → r < T' → ¬ MatchAt e r) ∧ T < T' := by
  obtain ⟨b1, b2, b3⟩ := idx_bounds (T / 86400)
  have hmon := mon_of T
  have hv : (gmtime T).mon < 12 := by omega
  rcases findNext_exact e.months 12 _ (gmtime T) .month .year [.second, .minute, .hour, .dom] hv hw.mon with
    ⟨h, _⟩ | ⟨nv, a, b, h, hf⟩ | ⟨nv, b, hne, h, hf1, hf2⟩
  · exact Or.inl h
  · obtain ⟨k, hk⟩ : ∃ k, idx (T / 86400) / 12 * 12 + nv = k + 1 :=
      ⟨idx (T / 86400) / 12 * 12 + nv - 1, by omega⟩
    refine Or.inr ⟨S (k + 1) * 86400, nv, by omega, ?_, ?_, ?_⟩
    rotate_left 2
    · have := S_mono' (i := idx (T / 86400) + 1) (j := k + 1) (by omega) (by omega)
      omega
    · rw [h, resetAll4, setMon_first _ _ b1 b, hk]
    · intro r h1 h2 hm
      have hs := hm.2.2.2.2.2
      rw [mon_of r] at hs
      rw [hmon] at a hf
      have l1 : idx (T / 86400) ≤ idx (r / 86400) := idx_ge _ _ b1 (by
        have : T / 86400 ≤ r / 86400 := Nat.div_le_div_right h1
        omega)
      have l2 : idx (r / 86400) ≤ k := idx_le k _ (by omega) (by omega)
      have := hf (idx (r / 86400) % 12) (by omega) (by omega)
      rw [this] at hs; cases hs
  · obtain ⟨j, hj, hj12⟩ := rollMon T
    have hj0 : 23640 ≤ j := by omega
    obtain ⟨k, hk⟩ : ∃ k, j / 12 * 12 + nv = k + 1 := ⟨j / 12 * 12 + nv - 1, by omega⟩
    refine Or.inr ⟨S (k + 1) * 86400, nv, hne, ?_, ?_, ?_⟩
    rotate_left 2
    · have := S_mono' (i := idx (T / 86400) + 1) (j := k + 1) (by omega) (by omega)
      omega
    · rw [h, hj, setMon_first _ _ hj0 b, hk]
    · intro r h1 h2 hm
      have hs := hm.2.2.2.2.2
      rw [mon_of r] at hs
      rw [hmon] at hf1
      have l1 : idx (T / 86400) ≤ idx (r / 86400) := idx_ge _ _ b1 (by
        have : T / 86400 ≤ r / 86400 := Nat.div_le_div_right h1
        omega)
      have l2 : idx (r / 86400) ≤ k := idx_le k _ (by omega) (by omega)
      by_cases hc : idx (r / 86400) / 12 = idx (T / 86400) / 12
      · have := hf1 (idx (r / 86400) % 12) (by omega) (by omega)
        rw [this] at hs; cases hs
      · have := hf2 (idx (r / 86400) % 12) (by omega)
        rw [this] at hs; cases hs

theorem stepMonth_eq (e : CExpr) (dot : Nat) (rec : Tm → Option Tm) (c4 : Tm) (r4 : List Field) :
    stepMonth e dot rec c4 r4 =
      if (c4.mon != (findNext e.months 12 c4.mon c4 .month .year r4).2) = true then
        (if ((findNext e.months 12 c4.mon c4 .month .year r4).1.year + U32c - dot) % U32c > 4 then none
         else rec (findNext e.months 12 c4.mon c4 .month .year r4).1)
      else some (findNext e.months 12 c4.mon c4 .month .year r4).1 := rfl

theorem bne_self' (a : Nat) : (a != a) = false := by simp
theorem bne_of_ne' (a b : Nat) (h : b ≠ a) : (a != b) = true := by simpa using Ne.symm h

theorem stepMonth_skip (e : CExpr) (hw : WF e) (dot : Nat) (rec : Tm → Option Tm) (hsk : RecSkip e rec)
    (T : Nat) (r4 : List Field) (c5 : Tm) (hg : MatchTm e (gmtime T) ∨ r4 = [.second, .minute, .hour, .dom])
    (h : stepMonth e dot rec (gmtime T) r4 = some c5) :
    ∀ r, T ≤ r → r < timegm c5 → ¬ MatchAt e r := by
  rw [stepMonth_eq] at h
  have hv : (gmtime T).mon < 12 := by rw [mon_of]; omega
  rcases hg with hm | rfl
  · rw [findNext_id _ _ _ _ _ _ _ hv hm.2.2.2.2.2] at h
    simp only at h
    rw [bne_self'] at h
    simp only [Bool.false_eq_true, if_false, Option.some.injEq] at h
    subst h
    rw [timegm_gmtime]
    intro r h1 h2; omega
  rcases monBlock_skip e hw T with hfn | ⟨T1, nv, hne, hfn, hs1, _⟩
  · rw [hfn] at h
    simp only at h
    rw [bne_self'] at h
    simp only [Bool.false_eq_true, if_false, Option.some.injEq] at h
    subst h
    rw [timegm_gmtime]
    intro r h1 h2; omega
  · rw [hfn] at h
    simp only at h
    rw [bne_of_ne' _ _ hne, if_pos rfl] at h
    split at h
    · cases h
    · have hs2 := hsk _ _ h
      intro r h1 h2
      by_cases hc : r < T1
      · exact hs1 r h1 hc
      · exact hs2 r (by omega) h2

theorem doNext_succ_eq (e : CExpr) (dot fuel : Nat) (c0 : Tm) : doNext e dot (fuel + 1) c0 =
    (stepMinute e (doNext e dot fuel) (findNext e.seconds 60 c0.sec c0 .second .minute []).1 [.second]).bind fun p2 =>
    (stepHour e (doNext e dot fuel) p2.1 p2.2).bind fun p3 =>
    (stepDay e (doNext e dot fuel) p3.1 p3.2).bind fun p4 =>
    stepMonth e dot (doNext e dot fuel) p4.1 p4.2 := rfl

/-- **do_next skips no matching instant** -/
theorem doNext_skip (e : CExpr) (hw : WF e) (dot : Nat) : ∀ fuel, RecSkip e (doNext e dot fuel) := by
  intro fuel
  induction fuel with
  | zero => intro T c' h; simp [doNext] at h
  | succ n ih =>
    intro T0 c' h
    have hok := doNext_sound e hw dot n
    rw [doNext_succ_eq] at h
    obtain ⟨T1, e1, s1⟩ := secBlock_skip e hw T0
    rw [e1] at h
    cases h2 : stepMinute e (doNext e dot n) (gmtime T1) [.second] with
    | none => rw [h2] at h; simp at h
    | some p2 =>
      rw [h2] at h
      simp only [Option.bind_some] at h
      obtain ⟨T2, e2, s2, g2⟩ := stepMinute_skip e hw _ hok ih T1 p2 h2
      rw [e2] at h
      cases h3 : stepHour e (doNext e dot n) (gmtime T2) p2.2 with
      | none => rw [h3] at h; simp at h
      | some p3 =>
        rw [h3] at h
        simp only [Option.bind_some] at h
        obtain ⟨T3, e3, s3, g3⟩ := stepHour_skip e hw _ hok ih T2 p2.2 p3 g2 h3
        rw [e3] at h
        cases h4 : stepDay e (doNext e dot n) (gmtime T3) p3.2 with
        | none => rw [h4] at h; simp at h
        | some p4 =>
          rw [h4] at h
          simp only [Option.bind_some] at h
          obtain ⟨T4, e4, s4, g4⟩ := stepDay_skip e _ hok ih T3 p3.2 p4 g3 h4
          rw [e4] at h
          have s5 := stepMonth_skip e hw dot _ ih T4 p4.2 c' g4 h
          intro r a1 a2
          by_cases c1 : r < T1
          · exact s1 r a1 c1
          by_cases c2 : r < T2
          · exact s2 r (by omega) c2
          by_cases c3 : r < T3
          · exact s3 r (by omega) c3
          by_cases c4 : r < T4
          · exact s4 r (by omega) c4
          exact s5 r (by omega) a2

/-! ### cron_next returns the earliest matching instant -/
theorem cronMatch_matchTm (e : CExpr) (r : Nat) (h : CronMatch e.toExpr r) : MatchTm e (gmtime r) := by
  obtain ⟨_, m1, _, _, _⟩ := civil_ranges (r / 86400)
  unfold CronMatch MatchG dayOk domDowOk monOk timeOk CExpr.toExpr at h
  have e1 : r % 86400 / 3600 = r / 3600 % 24 := by omega
  have e2 : r % 86400 % 3600 / 60 = r / 60 % 60 := by omega
  have e3 : r % 86400 % 60 = r % 60 := by omega
  rw [e1, e2, e3] at h
  simp only [Bool.and_eq_true] at h
  obtain ⟨⟨⟨h4, h5⟩, h6⟩, ⟨h3, h2⟩, h1⟩ := h
  rw [Nat.testBit_shiftLeft] at h6
  simp only [Bool.and_eq_true, decide_eq_true_eq] at h6
  exact ⟨h1, h2, h3, h4, h5, h6.2⟩

theorem cronNext_earliest (e : CExpr) (hw : WF e) (t fuel r : Nat) (h : cronNext e t fuel = some r) :
    Tbox.C20.Earliest (CronMatch e.toExpr) t r := by
  refine ⟨cronNext_after e hw t fuel r h, cronNext_match e hw t fuel r h, ?_⟩
  intro r' a1 a2 hm
  have hm' : MatchAt e r' := cronMatch_matchTm e r' hm
  unfold cronNext at h
  simp only at h
  cases h1 : doNext e (gmtime t).year fuel (gmtime t) with
  | none => rw [h1] at h; cases h
  | some c1 =>
    rw [h1] at h
    simp only at h
    have k1 := doNext_skip e hw _ fuel t c1 h1
    obtain ⟨⟨T1, hT1⟩, _⟩ := doNext_sound e hw _ fuel _ _ ⟨t, rfl⟩ h1
    rw [timegm_gmtime] at h
    split at h
    · rename_i heq
      have hT : timegm c1 = t := by simpa using heq
      rw [hT1, timegm_gmtime] at hT
      rw [hT1, hT, addSec] at h
      cases h2 : doNext e (gmtime (t + 1)).year fuel (gmtime (t + 1)) with
      | none => rw [h2] at h; cases h
      | some c3 =>
        rw [h2] at h
        simp only [Option.map_some, Option.some.injEq] at h
        have k3 := doNext_skip e hw _ fuel (t + 1) c3 h2
        exact k3 r' (by omega) (by omega) hm'
    · simp only [Option.some.injEq] at h
      exact k1 r' (by omega) (by omega) hm'

theorem earliest_unique (P : Nat → Prop) (t a b : Nat) (ha : Tbox.C20.Earliest P t a)
    (hb : Tbox.C20.Earliest P t b) : a = b := by
  obtain ⟨a1, a2, a3⟩ := ha
  obtain ⟨b1, b2, b3⟩ := hb
  by_cases h1 : a < b
  · exact absurd a2 (b3 a a1 h1)
  · by_cases h2 : b < a
    · exact absurd b2 (a3 b b1 h2)
    · omega

/-- whenever the transcribed `cron_next` and the reference search both succeed they return the same instant -/
theorem cronNext_eq_reference_of_some (e : CExpr) (hw : WF e) (t fuel H r r2 : Nat)
    (h : cronNext e t fuel = some r) (h2 : Cron.nextCron e.toExpr t H = some r2) : r = r2 :=
  earliest_unique _ t r r2 (cronNext_earliest e hw t fuel r h) (Cron.nextCron_some e.toExpr t H r2 h2)

end Tbox.C20.CC
