/-
C20 — proofs about the transcription of ccronexpr (CCron.lean):
  * `parseExpr_wf`   every expression `cron_parse_expr` accepts has non-empty second / minute / hour / month sets
  * `doNext_sound`   whenever `do_next` reports success every field of the calendar is an allowed value
  * `cronNext_match` the instant `cron_next` returns matches the expression (in the sense of the reference `Cron.CronMatch`)
Calendar facts come from CalLaws.lean (`dfc ∘ civil = id`, ranges, linearity in the day).
-/
import TboxModel.C20.CCron
import TboxModel.C20.CalLaws
namespace Tbox.C20.CC
open Tbox.C20.Cron

/-- a field set is usable: some value below `max` is allowed -/
def BitsOk (bits max : Nat) : Prop := ∃ i, i < max ∧ getBit bits i = true
structure WF (e : CExpr) : Prop where
  sec : BitsOk e.seconds 60
  min : BitsOk e.minutes 60
  hour : BitsOk e.hours 24
  mon : BitsOk e.months 12

/-! ### cron_parse_expr leaves no field set empty -/
theorem one_shl_testBit (i j : Nat) : (1 <<< i).testBit j = decide (i = j) := by
  rw [Nat.testBit_shiftLeft]
  by_cases h : i ≤ j
  · by_cases h2 : i = j
    · subst h2; simp
    · have hz : Nat.testBit 1 (j - i) = false := by
        cases hh : Nat.testBit 1 (j - i) with
        | false => rfl
        | true => rw [Nat.testBit_one_eq_true_iff_self_eq_zero] at hh; omega
      simp [h, h2, hz]
  · have : i ≠ j := by omega
    simp [h, this]

theorem getBit_setBit (b i j : Nat) : getBit (setBit b i) j = (getBit b j || decide (i = j)) := by
  unfold getBit setBit
  rw [Nat.testBit_or, one_shl_testBit]

theorem getBit_delBit (b i j : Nat) : getBit (delBit b i) j = (getBit b j && !decide (i = j)) := by
  unfold getBit delBit
  split
  · rename_i h
    rw [Nat.testBit_xor, one_shl_testBit]
    by_cases hij : i = j
    · subst hij; simp [h]
    · simp [hij]
  · rename_i h
    by_cases hij : i = j
    · subst hij; simp at h; simp [h]
    · simp [hij]

theorem setEvery_keeps (delta hi : Nat) : ∀ fuel i b j, getBit b j = true → getBit (setEvery delta hi fuel i b) j = true := by
  intro fuel
  induction fuel with
  | zero => intro i b j h; exact h
  | succ n ih =>
    intro i b j h
    unfold setEvery
    split
    · exact ih _ _ _ (by rw [getBit_setBit, h]; rfl)
    · exact h

theorem setEvery_first (delta hi fuel i b : Nat) (h : i ≤ hi) : getBit (setEvery delta hi (fuel + 1) i b) i = true := by
  unfold setEvery
  rw [if_pos h]
  exact setEvery_keeps _ _ _ _ _ _ (by rw [getBit_setBit]; simp)

theorem getRange_bounds (field : List Char) (min max lo hi : Nat) (h : getRange field min max = some (lo, hi)) :
    min ≤ lo ∧ lo ≤ hi ∧ hi < max := by
  unfold getRange at h
  simp only at h
  split at h
  · cases h
  · rename_i lo' hi' _
    by_cases c1 : (lo' ≥ max || hi' ≥ max) = true
    · rw [if_pos c1] at h; cases h
    · rw [if_neg c1] at h
      by_cases c2 : (lo' < min || hi' < min) = true
      · rw [if_pos c2] at h; cases h
      · rw [if_neg c2] at h
        by_cases c3 : lo' > hi'
        · simp [c3] at h
        · simp only [c3, if_false, Option.some.injEq, Prod.mk.injEq] at h
          obtain ⟨rfl, rfl⟩ := h
          simp at c1 c2
          omega

/-- one accepted item adds an allowed value ≥ min below max and keeps what was there -/
theorem setItem_spec (b : Nat) (item : List Char) (min max b' : Nat) (h : setItem b item min max = some b') :
    (∃ i, min ≤ i ∧ i < max ∧ getBit b' i = true) ∧ ∀ j, getBit b j = true → getBit b' j = true := by
  unfold setItem at h
  split at h
  · cases hr : getRange item min max with
    | none => rw [hr] at h; cases h
    | some p =>
      obtain ⟨lo, hi⟩ := p
      rw [hr] at h
      simp only [Option.some.injEq] at h
      subst h
      obtain ⟨h1, h2, h3⟩ := getRange_bounds _ _ _ _ _ hr
      exact ⟨⟨lo, h1, by omega, setEvery_first _ _ _ _ _ h2⟩, fun j hj => setEvery_keeps _ _ _ _ _ _ hj⟩
  · split at h
    · rename_i a bb _
      cases hr : getRange a min max with
      | none => rw [hr] at h; cases h
      | some p =>
        obtain ⟨lo, hi⟩ := p
        rw [hr] at h
        simp only at h
        obtain ⟨h1, h2, h3⟩ := getRange_bounds _ _ _ _ _ hr
        split at h
        · cases h
        · cases h
        · rename_i delta _ _
          simp only [Option.some.injEq] at h
          subst h
          refine ⟨⟨lo, h1, by omega, ?_⟩, fun j hj => setEvery_keeps _ _ _ _ _ _ hj⟩
          apply setEvery_first
          split <;> omega
    · cases h

theorem fold_keeps (min max : Nat) : ∀ (items : List (List Char)) (acc : Option Nat) (b' : Nat),
    items.foldl (fun acc it => acc.bind (fun b => setItem b it min max)) acc = some b' →
    ∃ b, acc = some b ∧ ∀ j, getBit b j = true → getBit b' j = true := by
  intro items
  induction items with
  | nil => intro acc b' h; exact ⟨b', h, fun _ hj => hj⟩
  | cons it rest ih =>
    intro acc b' h
    simp only [List.foldl_cons] at h
    obtain ⟨b1, e1, k1⟩ := ih _ _ h
    cases acc with
    | none => simp at e1
    | some b =>
      simp only [Option.bind_some] at e1
      exact ⟨b, rfl, fun j hj => k1 j ((setItem_spec _ _ _ _ _ e1).2 j hj)⟩

/-- `set_number_hits` without error: at least one value in [min, max) is set -/
theorem setNumberHits_nonempty (value : List Char) (min max bits : Nat) (h : setNumberHits value min max = some bits) :
    ∃ i, min ≤ i ∧ i < max ∧ getBit bits i = true := by
  unfold setNumberHits at h
  cases hsp : splitStr value ',' with
  | nil => rw [hsp] at h; cases h
  | cons it rest =>
      rw [hsp] at h
      simp only [List.foldl_cons, Option.bind_some] at h
      obtain ⟨b1, e1, k1⟩ := fold_keeps _ _ _ _ _ h
      obtain ⟨⟨i, a1, a2, a3⟩, _⟩ := setItem_spec _ _ _ _ _ e1
      exact ⟨i, a1, a2, k1 i a3⟩

/-- one step of the month rotation -/
def rotStep (b k : Nat) : Nat := if getBit b (k + 1) then delBit (setBit b k) (k + 1) else b

theorem rotStep_get (b k j : Nat) : getBit (rotStep b k) j =
    if j = k then (getBit b k || getBit b (k + 1)) else if j = k + 1 then false else getBit b j := by
  unfold rotStep
  by_cases hb : getBit b (k + 1) = true
  · rw [if_pos hb, getBit_delBit, getBit_setBit]
    by_cases h1 : j = k
    · subst h1; simp [hb]
    · by_cases h2 : j = k + 1
      · subst h2; simp
      · have e1 : ¬ k = j := fun h => h1 h.symm
        have e2 : ¬ k + 1 = j := fun h => h2 h.symm
        simp [h1, h2, e1, e2]
  · rw [if_neg hb]
    by_cases h1 : j = k
    · subst h1; simp at hb; simp [hb]
    · by_cases h2 : j = k + 1
      · subst h2; simp at hb; simp [hb]
      · simp [h1, h2]

theorem rot_fold (i : Nat) : ∀ n k0 b, (if k0 ≤ i then getBit b (i + 1) else getBit b i) = true → i < k0 + n →
    getBit ((List.range' k0 n).foldl rotStep b) i = true := by
  intro n
  induction n with
  | zero =>
    intro k0 b h hi
    have : ¬ k0 ≤ i := by omega
    simpa [this] using h
  | succ n ih =>
    intro k0 b h hi
    simp only [List.range'_succ, List.foldl_cons]
    apply ih (k0 + 1) (rotStep b k0) _ (by omega)
    by_cases c1 : k0 + 1 ≤ i
    · have c0 : k0 ≤ i := by omega
      rw [if_pos c0] at h
      rw [if_pos c1, rotStep_get]
      have e1 : ¬ i + 1 = k0 := by omega
      have e3 : ¬ i = k0 := by omega
      simp [e1, e3, h]
    · rw [if_neg c1, rotStep_get]
      by_cases c0 : k0 ≤ i
      · have : i = k0 := by omega
        subst this
        rw [if_pos c0] at h
        simp [h]
      · rw [if_neg c0] at h
        have e1 : ¬ i = k0 := by omega
        have e2 : ¬ i = k0 + 1 := by omega
        simp [e1, e2, h]

theorem setMonths_nonempty (value : List Char) (bits : Nat) (h : setMonths value = some bits) : BitsOk bits 12 := by
  unfold setMonths at h
  cases hs : setNumberHits (replaceOrdinals monthsArr (value.map toUpper)) 1 13 with
  | none => rw [hs] at h; cases h
  | some b =>
    rw [hs] at h
    simp only [Option.map_some, Option.some.injEq] at h
    obtain ⟨i, h1, h2, h3⟩ := setNumberHits_nonempty _ _ _ _ hs
    refine ⟨i - 1, by omega, ?_⟩
    rw [← h, List.range_eq_range']
    have := rot_fold (i - 1) 12 0 b (by
      have e : i - 1 + 1 = i := by omega
      simp [e, h3]) (by omega)
    exact this

/-- **every expression cron_parse_expr accepts has non-empty second, minute, hour and month sets** -/
theorem parseExpr_wf (s : List Char) (e : CExpr) (h : parseExpr s = some e) : WF e := by
  unfold parseExpr at h
  split at h
  · rename_i f0 f1 f2 f3 f4 f5 _
    cases h0 : setNumberHits f0 0 60 with
    | none => simp [h0] at h
    | some s0 =>
      cases h1 : setNumberHits f1 0 60 with
      | none => simp [h0, h1] at h
      | some s1 =>
        cases h2 : setNumberHits f2 0 24 with
        | none => simp [h0, h1, h2] at h
        | some s2 =>
          cases h3 : setDaysOfMonth f3 with
          | none => simp [h0, h1, h2, h3] at h
          | some s3 =>
            cases h4 : setMonths f4 with
            | none => simp [h0, h1, h2, h3, h4] at h
            | some s4 =>
              cases h5 : setDaysOfWeek f5 with
              | none => simp [h0, h1, h2, h3, h4, h5] at h
              | some s5 =>
                simp [h0, h1, h2, h3, h4, h5] at h
                subst h
                obtain ⟨i0, _, a0, b0⟩ := setNumberHits_nonempty _ _ _ _ h0
                obtain ⟨i1, _, a1, b1⟩ := setNumberHits_nonempty _ _ _ _ h1
                obtain ⟨i2, _, a2, b2⟩ := setNumberHits_nonempty _ _ _ _ h2
                exact ⟨⟨i0, a0, b0⟩, ⟨i1, a1, b1⟩, ⟨i2, a2, b2⟩, setMonths_nonempty _ _ h4⟩
  · cases h

/-! ### next_set_bit -/
theorem nsb_some (bits max : Nat) : ∀ fuel i k, nextSetBit bits max fuel i = some k →
    i ≤ k ∧ k < max ∧ getBit bits k = true ∧ ∀ j, i ≤ j → j < k → getBit bits j = false := by
  intro fuel
  induction fuel with
  | zero => intro i k h; simp [nextSetBit] at h
  | succ n ih =>
    intro i k h
    unfold nextSetBit at h
    by_cases h1 : i < max
    · simp only [h1, if_true] at h
      by_cases h2 : getBit bits i = true
      · simp only [h2, if_true, Option.some.injEq] at h
        subst h
        exact ⟨Nat.le_refl _, h1, h2, fun j a b => by omega⟩
      · simp only [h2] at h
        obtain ⟨a, b, c, d⟩ := ih (i + 1) k h
        refine ⟨by omega, b, c, ?_⟩
        intro j hj1 hj2
        by_cases hji : j = i
        · subst hji; simpa using h2
        · exact d j (by omega) hj2
    · simp [h1] at h

theorem nsb_none (bits max : Nat) : ∀ fuel i, nextSetBit bits max fuel i = none → max ≤ i + fuel →
    ∀ j, i ≤ j → j < max → getBit bits j = false := by
  intro fuel
  induction fuel with
  | zero => intro i _ hf j h1 h2; omega
  | succ n ih =>
    intro i h hf j h1 h2
    unfold nextSetBit at h
    by_cases hi : i < max
    · simp only [hi, if_true] at h
      by_cases hb : getBit bits i = true
      · simp [hb] at h
      · simp only [hb] at h
        by_cases hji : j = i
        · subst hji; simpa using hb
        · exact ih (i + 1) h (by omega) j (by omega) h2
    · omega


def Norm (c : Tm) : Prop := ∃ T, c = gmtime T

theorem norm_mk (c : Tm) : Norm (mkNorm c) := ⟨_, rfl⟩
theorem norm_setField (c : Tm) (f : Field) (v : Nat) : Norm (setField c f v) := ⟨_, rfl⟩
theorem norm_resetMin (c : Tm) (f : Field) : Norm (resetMin c f) := ⟨_, rfl⟩
theorem norm_addToField (c : Tm) (f : Field) (v : Nat) : Norm (addToField c f v) := ⟨_, rfl⟩

theorem norm_resetAll (fs : List Field) : ∀ c, Norm c → Norm (resetAllMin c fs) := by
  induction fs with
  | nil => intro c h; exact h
  | cons f fs ih => intro c _; exact ih _ (norm_resetMin c f)

/-- `find_next` returned the value it was given: nothing was changed and that value is allowed -/
theorem findNext_same (bits max value : Nat) (c : Tm) (f nf : Field) (lower : List Field)
    (hv : value < max) (hok : BitsOk bits max) (h : (findNext bits max value c f nf lower).2 = value) :
    (findNext bits max value c f nf lower).1 = c ∧ getBit bits value = true := by
  unfold findNext at h ⊢
  cases h1 : nextSetBit bits max max value with
  | some nv =>
    simp only [h1] at h ⊢
    obtain ⟨_, _, hb, _⟩ := nsb_some _ _ _ _ _ h1
    by_cases hne : (nv != value) = true
    · simp only [hne, if_true] at h; simp at hne; exact absurd h hne
    · simp only [hne] at h ⊢
      simp at hne; subst hne
      exact ⟨rfl, hb⟩
  | none =>
    simp only [h1] at h ⊢
    have hnone := nsb_none _ _ _ _ h1 (by omega)
    cases h2 : nextSetBit bits max max 0 with
    | some nv =>
      simp only [h2] at h ⊢
      obtain ⟨_, hlt, hb, _⟩ := nsb_some _ _ _ _ _ h2
      by_cases hne : (nv != value) = true
      · simp only [hne, if_true] at h; simp at hne; exact absurd h hne
      · simp at hne; subst hne
        have := hnone nv (Nat.le_refl _) hlt
        rw [hb] at this; cases this
    | none =>
      obtain ⟨i, hi, hb⟩ := hok
      have := nsb_none _ _ _ _ h2 (by omega) i (Nat.zero_le _) hi
      rw [hb] at this; cases this

theorem findNext_norm (bits max value : Nat) (c : Tm) (f nf : Field) (lower : List Field) (hc : Norm c) :
    Norm (findNext bits max value c f nf lower).1 := by
  unfold findNext
  cases nextSetBit bits max max value with
  | some nv =>
    simp only; split
    · exact norm_setField _ _ _
    · exact hc
  | none =>
    simp only
    cases nextSetBit bits max max 0 with
    | some nv =>
      simp only; split
      · exact norm_setField _ _ _
      · exact norm_resetMin _ _
    | none => exact norm_setField _ _ _

theorem gmtime_sec (T : Nat) : (gmtime T).sec = T % 60 := rfl
theorem gmtime_min (T : Nat) : (gmtime T).min = T / 60 % 60 := rfl
theorem gmtime_hour (T : Nat) : (gmtime T).hour = T / 3600 % 24 := rfl
theorem setField_second (c : Tm) (v : Nat) : setField c .second v = gmtime (timegm { c with sec := v }) := rfl

theorem setField_sec (c : Tm) (v : Nat) (hv : v < 60) : (setField c .second v).sec = v := by
  rw [setField_second, gmtime_sec]
  unfold timegm
  simp only
  generalize dfc _ _ _ = A
  omega

/-- after the seconds block the second is an allowed one -/
theorem findNext_sec (bits : Nat) (c : Tm) (nf : Field) (lower : List Field) (hok : BitsOk bits 60) (hs : c.sec < 60) :
    getBit bits (findNext bits 60 c.sec c .second nf lower).1.sec = true := by
  unfold findNext
  cases h1 : nextSetBit bits 60 60 c.sec with
  | some nv =>
    obtain ⟨_, hlt, hb, _⟩ := nsb_some _ _ _ _ _ h1
    simp only
    by_cases hne : (nv != c.sec) = true
    · simp only [hne, if_true]; rw [setField_sec _ _ hlt]; exact hb
    · rw [if_neg hne]
      have hq : nv = c.sec := by simpa using hne
      show getBit bits c.sec = true
      rw [← hq]; exact hb
  | none =>
    simp only
    have hnone := nsb_none _ _ _ _ h1 (by omega)
    cases h2 : nextSetBit bits 60 60 0 with
    | some nv =>
      obtain ⟨_, hlt, hb, _⟩ := nsb_some _ _ _ _ _ h2
      simp only
      by_cases hne : (nv != c.sec) = true
      · simp only [hne, if_true]; rw [setField_sec _ _ hlt]; exact hb
      · simp at hne; subst hne
        have := hnone _ (Nat.le_refl _) hs
        rw [hb] at this; cases this
    | none =>
      obtain ⟨i, hi, hb⟩ := hok
      have := nsb_none _ _ _ _ h2 (by omega) i (Nat.zero_le _) hi
      rw [hb] at this; cases this

/-! ### the calendar at the level of instants -/
theorem gmtime_mday (T : Nat) : (gmtime T).mday = (civil (T / 86400)).2.2 := rfl
theorem gmtime_mon (T : Nat) : (gmtime T).mon = (civil (T / 86400)).2.1 - 1 := rfl
theorem gmtime_year (T : Nat) : (gmtime T).year = (civil (T / 86400)).1 - 1900 := rfl
theorem gmtime_wday (T : Nat) : (gmtime T).wday = dayOfWeek (T / 86400) := rfl

theorem timegm_eq (c : Tm) : timegm c =
    dfc (c.year + 1900 + c.mon / 12) (c.mon % 12 + 1) c.mday * 86400 + c.hour * 3600 + c.min * 60 + c.sec := rfl

/-- the day number behind the date fields of a normalised calendar -/
theorem dayPart_gmtime (T k : Nat) :
    dfc ((gmtime T).year + 1900 + (gmtime T).mon / 12) ((gmtime T).mon % 12 + 1) ((gmtime T).mday + k) = T / 86400 + k := by
  rw [gmtime_year, gmtime_mon, gmtime_mday]
  obtain ⟨h1, h2, h3, h4, _⟩ := civil_ranges (T / 86400)
  have e1 : (civil (T / 86400)).1 - 1900 + 1900 + ((civil (T / 86400)).2.1 - 1) / 12 = (civil (T / 86400)).1 := by omega
  have e2 : ((civil (T / 86400)).2.1 - 1) % 12 + 1 = (civil (T / 86400)).2.1 := by omega
  rw [e1, e2, dfc_day_linear _ _ _ h1 h2 h3 (by omega)]
  have := dfc_civil (T / 86400)
  rw [dfc_day_linear _ _ _ h1 h2 h3 h4] at this
  omega

theorem timegm_gmtime (T : Nat) : timegm (gmtime T) = T := by
  rw [timegm_eq]
  have := dayPart_gmtime T 0
  simp only [Nat.add_zero] at this
  rw [this, gmtime_hour, gmtime_min, gmtime_sec]
  omega

theorem gmtime_same_day {T1 T2 : Nat} (h : T1 / 86400 = T2 / 86400) :
    (gmtime T1).mday = (gmtime T2).mday ∧ (gmtime T1).mon = (gmtime T2).mon ∧ (gmtime T1).year = (gmtime T2).year ∧
    (gmtime T1).wday = (gmtime T2).wday := by
  simp only [gmtime_mday, gmtime_mon, gmtime_year, gmtime_wday, h, and_self]

/-- equal date fields ⇒ equal day numbers -/
theorem gmtime_date_inj {T1 T2 : Nat} (h1 : (gmtime T1).mday = (gmtime T2).mday) (h2 : (gmtime T1).mon = (gmtime T2).mon)
    (h3 : (gmtime T1).year = (gmtime T2).year) : T1 / 86400 = T2 / 86400 := by
  have a := dayPart_gmtime T1 0
  have b := dayPart_gmtime T2 0
  rw [h1, h2, h3] at a
  omega

/-- `tm_mday + 1`: the next day, same time of day -/
theorem addDom (T : Nat) : addToField (gmtime T) .dom 1 = gmtime (T + 86400) := by
  show gmtime (timegm { gmtime T with mday := (gmtime T).mday + 1 }) = _
  congr 1
  rw [timegm_eq]
  simp only
  rw [dayPart_gmtime T 1, gmtime_hour, gmtime_min, gmtime_sec]
  omega

def Smh (r : List Field) : Prop := ∀ f, f ∈ r → f = .second ∨ f = .minute ∨ f = .hour

theorem resetMin_smh (T : Nat) (f : Field) (hf : f = .second ∨ f = .minute ∨ f = .hour) :
    ∃ T', resetMin (gmtime T) f = gmtime T' ∧ T' / 86400 = T / 86400 ∧ T' ≤ T := by
  have hd := dayPart_gmtime T 0
  simp only [Nat.add_zero] at hd
  rcases hf with h | h | h <;> subst h
  · refine ⟨timegm { gmtime T with sec := 0 }, rfl, ?_⟩
    rw [timegm_eq]; simp only; rw [hd, gmtime_hour, gmtime_min]; omega
  · refine ⟨timegm { gmtime T with min := 0 }, rfl, ?_⟩
    rw [timegm_eq]; simp only; rw [hd, gmtime_hour, gmtime_sec]; omega
  · refine ⟨timegm { gmtime T with hour := 0 }, rfl, ?_⟩
    rw [timegm_eq]; simp only; rw [hd, gmtime_min, gmtime_sec]; omega

theorem resetAll_smh (r : List Field) : Smh r → ∀ T, ∃ T', resetAllMin (gmtime T) r = gmtime T' ∧ T' / 86400 = T / 86400 ∧ T' ≤ T := by
  induction r with
  | nil => intro _ T; exact ⟨T, rfl, rfl, Nat.le_refl _⟩
  | cons f fs ih =>
    intro hs T
    obtain ⟨T1, e1, d1, l1⟩ := resetMin_smh T f (hs f (List.mem_cons_self))
    obtain ⟨T2, e2, d2, l2⟩ := ih (fun g hg => hs g (List.mem_cons_of_mem _ hg)) T1
    refine ⟨T2, ?_, by omega, by omega⟩
    show resetAllMin (resetMin (gmtime T) f) fs = _
    rw [e1, e2]

/-- the loop of find_next_day from a normalised calendar: it ends on day `day(T) + k`; if it moved at all the
day number grew; if it stopped before its 366 rounds were used up the day of month and the weekday are allowed -/
theorem dayLoop_spec (ed ew : Nat) (r : List Field) (hr : Smh r) : ∀ n T,
    ∃ T' k, findNextDayLoop ed ew r n (gmtime T) (gmtime T).mday (gmtime T).wday = (gmtime T', (gmtime T').mday) ∧
      T' / 86400 = T / 86400 + k ∧ k ≤ n ∧ (k = 0 → T' = T) ∧
      (k < n → getBit ed (gmtime T').mday = true ∧ getBit ew (gmtime T').wday = true) := by
  intro n
  induction n with
  | zero => intro T; exact ⟨T, 0, rfl, rfl, Nat.le_refl _, fun _ => rfl, fun h => by omega⟩
  | succ n ih =>
    intro T
    unfold findNextDayLoop
    by_cases hc : (!getBit ed (gmtime T).mday || !getBit ew (gmtime T).wday) = true
    · simp only [hc, if_true]
      rw [addDom]
      obtain ⟨T1, e1, d1, _⟩ := resetAll_smh r hr (T + 86400)
      rw [e1]
      obtain ⟨s1, s2, s3, s4⟩ := gmtime_same_day d1
      rw [← s1, ← s4]
      obtain ⟨T', k, h1, h2, h3, _, h5⟩ := ih T1
      refine ⟨T', k + 1, h1, by omega, by omega, fun h => by omega, fun h => h5 (by omega)⟩
    · rw [if_neg hc]
      refine ⟨T, 0, rfl, rfl, by omega, fun _ => rfl, fun _ => ?_⟩
      simp at hc
      exact hc

/-! ### soundness of do_next -/
/-- every field of the calendar is an allowed value -/
def MatchTm (e : CExpr) (c : Tm) : Prop :=
  getBit e.seconds c.sec = true ∧ getBit e.minutes c.min = true ∧ getBit e.hours c.hour = true ∧
  getBit e.dom c.mday = true ∧ getBit e.dow c.wday = true ∧ getBit e.months c.mon = true

theorem norm_bounds {c : Tm} (h : Norm c) : c.sec < 60 ∧ c.min < 60 ∧ c.hour < 24 ∧ c.mon < 12 := by
  obtain ⟨T, rfl⟩ := h
  rw [gmtime_sec, gmtime_min, gmtime_hour, gmtime_mon]
  obtain ⟨_, _, h3, _, _⟩ := civil_ranges (T / 86400)
  omega

theorem smh_push (r : List Field) (f : Field) (hr : Smh r) (hf : f = .second ∨ f = .minute ∨ f = .hour) : Smh (pushField r f) := by
  unfold pushField
  split
  · exact hr
  · intro g hg
    rcases List.mem_append.mp hg with h | h
    · exact hr g h
    · simp at h; subst h; exact hf

/-- what the recursive call is assumed to deliver (the induction hypothesis) -/
def RecOk (e : CExpr) (rec : Tm → Option Tm) : Prop := ∀ c c', Norm c → rec c = some c' → Norm c' ∧ MatchTm e c'

theorem stepMinute_ok (e : CExpr) (hw : WF e) (rec : Tm → Option Tm) (hrec : RecOk e rec) (c1 c2 : Tm) (r1 r2 : List Field)
    (hn : Norm c1) (hs : getBit e.seconds c1.sec = true) (hr : Smh r1) (h : stepMinute e rec c1 r1 = some (c2, r2)) :
    Norm c2 ∧ getBit e.seconds c2.sec = true ∧ getBit e.minutes c2.min = true ∧ Smh r2 := by
  unfold stepMinute at h
  simp only at h
  by_cases hc : (c1.min == (findNext e.minutes 60 c1.min c1 .minute .hour r1).2) = true
  · rw [if_pos hc] at h
    have hq : (findNext e.minutes 60 c1.min c1 .minute .hour r1).2 = c1.min := by simpa using Eq.symm (by simpa using hc)
    obtain ⟨e1, b1⟩ := findNext_same _ _ _ _ _ _ _ (norm_bounds hn).2.1 hw.min hq
    simp only [Option.some.injEq, Prod.mk.injEq] at h
    obtain ⟨h1, h2⟩ := h
    rw [e1] at h1; subst h1; subst h2
    exact ⟨hn, hs, b1, smh_push _ _ hr (Or.inr (Or.inl rfl))⟩
  · rw [if_neg hc] at h
    cases hrc : rec (findNext e.minutes 60 c1.min c1 .minute .hour r1).1 with
    | none => rw [hrc] at h; simp at h
    | some c =>
      rw [hrc] at h
      simp only [Option.map_some, Option.some.injEq, Prod.mk.injEq] at h
      obtain ⟨h1, h2⟩ := h
      subst h1; subst h2
      obtain ⟨n1, m1⟩ := hrec _ _ (findNext_norm _ _ _ _ _ _ _ hn) hrc
      exact ⟨n1, m1.1, m1.2.1, hr⟩

theorem stepHour_ok (e : CExpr) (hw : WF e) (rec : Tm → Option Tm) (hrec : RecOk e rec) (c2 c3 : Tm) (r2 r3 : List Field)
    (hn : Norm c2) (hs : getBit e.seconds c2.sec = true) (hm : getBit e.minutes c2.min = true) (hr : Smh r2)
    (h : stepHour e rec c2 r2 = some (c3, r3)) :
    Norm c3 ∧ getBit e.seconds c3.sec = true ∧ getBit e.minutes c3.min = true ∧ getBit e.hours c3.hour = true ∧ Smh r3 := by
  unfold stepHour at h
  simp only at h
  by_cases hc : (c2.hour == (findNext e.hours 24 c2.hour c2 .hour .dow r2).2) = true
  · rw [if_pos hc] at h
    have hq : (findNext e.hours 24 c2.hour c2 .hour .dow r2).2 = c2.hour := by simpa using Eq.symm (by simpa using hc)
    obtain ⟨e1, b1⟩ := findNext_same _ _ _ _ _ _ _ (norm_bounds hn).2.2.1 hw.hour hq
    simp only [Option.some.injEq, Prod.mk.injEq] at h
    obtain ⟨h1, h2⟩ := h
    rw [e1] at h1; subst h1; subst h2
    exact ⟨hn, hs, hm, b1, smh_push _ _ hr (Or.inr (Or.inr rfl))⟩
  · rw [if_neg hc] at h
    cases hrc : rec (findNext e.hours 24 c2.hour c2 .hour .dow r2).1 with
    | none => rw [hrc] at h; simp at h
    | some c =>
      rw [hrc] at h
      simp only [Option.map_some, Option.some.injEq, Prod.mk.injEq] at h
      obtain ⟨h1, h2⟩ := h
      subst h1; subst h2
      obtain ⟨n1, m1⟩ := hrec _ _ (findNext_norm _ _ _ _ _ _ _ hn) hrc
      exact ⟨n1, m1.1, m1.2.1, m1.2.2.1, hr⟩

theorem findNextDay_spec (ed ew : Nat) (r : List Field) (hr : Smh r) (T : Nat) :
    ∃ T' k, findNextDay (gmtime T) ed ew r = (gmtime T', (gmtime T').mday) ∧ T' / 86400 = T / 86400 + k ∧ (k = 0 → T' = T) ∧
      (k = 0 → getBit ed (gmtime T').mday = true ∧ getBit ew (gmtime T').wday = true) := by
  obtain ⟨T', k, h1, h2, _, h4, h5⟩ := dayLoop_spec ed ew r hr 366 T
  exact ⟨T', k, h1, h2, h4, fun h => h5 (by omega)⟩

theorem stepDay_ok (e : CExpr) (rec : Tm → Option Tm) (hrec : RecOk e rec) (c3 c4 : Tm) (r3 r4 : List Field)
    (hn : Norm c3) (hs : getBit e.seconds c3.sec = true) (hm : getBit e.minutes c3.min = true) (hh : getBit e.hours c3.hour = true)
    (hr : Smh r3) (h : stepDay e rec c3 r3 = some (c4, r4)) :
    Norm c4 ∧ getBit e.seconds c4.sec = true ∧ getBit e.minutes c4.min = true ∧ getBit e.hours c4.hour = true ∧
      getBit e.dom c4.mday = true ∧ getBit e.dow c4.wday = true := by
  obtain ⟨T, hT0⟩ := hn
  unfold stepDay at h
  rw [hT0] at h hs hm hh
  clear hT0
  obtain ⟨T', k, hl, hd, hk0, hkb⟩ := findNextDay_spec e.dom e.dow r3 hr T
  rw [hl] at h
  simp only at h
  by_cases hc : ((gmtime T).mday == (gmtime T').mday && (gmtime T).mon == (gmtime T').mon && (gmtime T).year == (gmtime T').year) = true
  · rw [if_pos hc] at h
    simp only [Bool.and_eq_true, beq_iff_eq] at hc
    have hday := gmtime_date_inj hc.1.1 hc.1.2 hc.2
    have hk : k = 0 := by omega
    have hT := hk0 hk
    subst hT
    simp only [Option.some.injEq, Prod.mk.injEq] at h
    obtain ⟨h1, _⟩ := h
    subst h1
    obtain ⟨b1, b2⟩ := hkb hk
    exact ⟨⟨_, rfl⟩, hs, hm, hh, b1, b2⟩
  · rw [if_neg hc] at h
    cases hrc : rec (gmtime T') with
    | none => rw [hrc] at h; simp at h
    | some c =>
      rw [hrc] at h
      simp only [Option.map_some, Option.some.injEq, Prod.mk.injEq] at h
      obtain ⟨h1, _⟩ := h
      subst h1
      obtain ⟨n1, m1⟩ := hrec _ _ ⟨_, rfl⟩ hrc
      exact ⟨n1, m1.1, m1.2.1, m1.2.2.1, m1.2.2.2.1, m1.2.2.2.2.1⟩

theorem stepMonth_ok (e : CExpr) (hw : WF e) (dot : Nat) (rec : Tm → Option Tm) (hrec : RecOk e rec) (c4 c5 : Tm) (r4 : List Field)
    (hn : Norm c4) (hs : getBit e.seconds c4.sec = true) (hm : getBit e.minutes c4.min = true) (hh : getBit e.hours c4.hour = true)
    (hd : getBit e.dom c4.mday = true) (hwd : getBit e.dow c4.wday = true) (h : stepMonth e dot rec c4 r4 = some c5) :
    Norm c5 ∧ MatchTm e c5 := by
  unfold stepMonth at h
  simp only at h
  by_cases hc : (c4.mon != (findNext e.months 12 c4.mon c4 .month .year r4).2) = true
  · rw [if_pos hc] at h
    split at h
    · cases h
    · exact hrec _ _ (findNext_norm _ _ _ _ _ _ _ hn) h
  · rw [if_neg hc] at h
    have hq : (findNext e.months 12 c4.mon c4 .month .year r4).2 = c4.mon := by
      simp at hc; exact hc.symm
    obtain ⟨e1, b1⟩ := findNext_same _ _ _ _ _ _ _ (norm_bounds hn).2.2.2 hw.mon hq
    simp only [Option.some.injEq] at h
    rw [e1] at h; subst h
    exact ⟨hn, hs, hm, hh, hd, hwd, b1⟩

/-- **do_next is sound**: whenever it reports success the calendar it leaves is normalised and EVERY field is an
allowed value — for every expression with non-empty field sets, every start calendar, every `dot` and fuel -/
theorem doNext_sound (e : CExpr) (hw : WF e) (dot : Nat) : ∀ fuel, RecOk e (doNext e dot fuel) := by
  intro fuel
  induction fuel with
  | zero => intro c c' _ h; simp [doNext] at h
  | succ n ih =>
    intro c0 c' hn h
    unfold doNext at h
    simp only at h
    have hn1 := findNext_norm e.seconds 60 c0.sec c0 .second .minute [] hn
    have hs1 := findNext_sec e.seconds c0 .minute [] hw.sec (norm_bounds hn).1
    have hr1 : Smh (pushField [] .second) := smh_push [] _ (fun _ h => by cases h) (Or.inl rfl)
    cases h2 : stepMinute e (doNext e dot n) (findNext e.seconds 60 c0.sec c0 .second .minute []).1 (pushField [] .second) with
    | none => rw [h2] at h; simp at h
    | some p2 =>
      rw [h2] at h
      simp only [Option.bind_some] at h
      obtain ⟨n2, s2, m2, r2⟩ := stepMinute_ok e hw _ ih _ p2.1 _ p2.2 hn1 hs1 hr1 h2
      cases h3 : stepHour e (doNext e dot n) p2.1 p2.2 with
      | none => rw [h3] at h; simp at h
      | some p3 =>
        rw [h3] at h
        simp only [Option.bind_some] at h
        obtain ⟨n3, s3, m3, hh3, r3⟩ := stepHour_ok e hw _ ih _ p3.1 _ p3.2 n2 s2 m2 r2 h3
        cases h4 : stepDay e (doNext e dot n) p3.1 p3.2 with
        | none => rw [h4] at h; simp at h
        | some p4 =>
          rw [h4] at h
          simp only [Option.bind_some] at h
          obtain ⟨n4, s4, m4, hh4, d4, w4⟩ := stepDay_ok e _ ih _ p4.1 _ p4.2 n3 s3 m3 hh3 r3 h4
          exact stepMonth_ok e hw dot _ ih _ _ _ n4 s4 m4 hh4 d4 w4 h

/-! ### cron_next -/
theorem matchTm_cronMatch (e : CExpr) (r : Nat) (h : MatchTm e (gmtime r)) : CronMatch e.toExpr r := by
  obtain ⟨h1, h2, h3, h4, h5, h6⟩ := h
  rw [gmtime_sec] at h1; rw [gmtime_min] at h2; rw [gmtime_hour] at h3
  rw [gmtime_mday] at h4; rw [gmtime_wday] at h5; rw [gmtime_mon] at h6
  obtain ⟨_, m1, _, _, _⟩ := civil_ranges (r / 86400)
  unfold CronMatch MatchG dayOk domDowOk monOk timeOk CExpr.toExpr
  simp only [getBit] at h1 h2 h3 h4 h5 h6
  have e1 : r % 86400 / 3600 = r / 3600 % 24 := by omega
  have e2 : r % 86400 % 3600 / 60 = r / 60 % 60 := by omega
  have e3 : r % 86400 % 60 = r % 60 := by omega
  refine ⟨?_, ?_⟩
  · simp only [h4, h5, Bool.and_self, Bool.true_and]
    rw [Nat.testBit_shiftLeft]
    simp only [Bool.and_eq_true, decide_eq_true_eq]
    exact ⟨m1, h6⟩
  · rw [e1, e2, e3, h1, h2, h3]; rfl

/-- **cron_next is sound (field part)**: whatever instant `cron_next` returns lies on a day whose month, day of
month and weekday the expression allows, at an allowed hour, minute and second — for every expression with
non-empty field sets (every parsed one: `parseExpr_wf`), every start instant and every fuel. -/
theorem cronNext_match (e : CExpr) (hw : WF e) (t fuel r : Nat) (h : cronNext e t fuel = some r) :
    CronMatch e.toExpr r := by
  unfold cronNext at h
  simp only at h
  cases h1 : doNext e (gmtime t).year fuel (gmtime t) with
  | none => rw [h1] at h; cases h
  | some c1 =>
    rw [h1] at h
    simp only at h
    obtain ⟨⟨T1, hT1⟩, m1⟩ := doNext_sound e hw _ fuel _ _ ⟨t, rfl⟩ h1
    split at h
    · cases h2 : doNext e (addToField c1 .second 1).year fuel (addToField c1 .second 1) with
      | none => rw [h2] at h; cases h
      | some c3 =>
        rw [h2] at h
        simp only [Option.map_some, Option.some.injEq] at h
        obtain ⟨⟨T3, hT3⟩, m3⟩ := doNext_sound e hw _ fuel _ _ (norm_addToField _ _ _) h2
        rw [hT3, timegm_gmtime] at h
        subst h
        rw [hT3] at m3
        exact matchTm_cronMatch e _ m3
    · simp only [Option.some.injEq] at h
      rw [hT1, timegm_gmtime] at h
      subst h
      rw [hT1] at m1
      exact matchTm_cronMatch e _ m1

end Tbox.C20.CC
