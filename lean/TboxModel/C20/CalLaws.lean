/-
C20 — laws of the proleptic Gregorian calendar functions (core Lean only, no Mathlib).

`civil` (Cron.lean, civil_from_days) and `dfc` (CCal.lean, days_from_civil) are inverse to each other on
the days from 1970-01-01 on; `dfc` is linear in the day and strictly monotone across month and year ends;
every day lies before the first day of the following month.

Proof plan: the year-of-era formula of `civil` is analysed once (`yoe_spec`) by splitting the day of the
400-year era into century, 4-year block and rest; everything else goes through `dby y` = number of days
before 1 March of the March-based year `y` (`civil_char`, `dfc_char'`) and linear arithmetic.
-/
import TboxModel.C20.CCal
namespace Tbox.C20.CC
open Tbox.C20.Cron

/-! ### the year of the era -/

theorem yoe_fin (c q t s : Nat) (hc : c ≤ 3) (hq : q ≤ 24) (ht : t ≤ 3) (h1 : 365 * t ≤ s)
    (h2 : t < 3 → s < 365 * (t + 1)) (h3 : s < 1461) (h4 : q = 24 → s < 1460) (yoe doe : Nat)
    (hyoe : yoe = 100 * c + 4 * q + t) (hdoe : doe = 36524 * c + 1461 * q + s) :
    yoe < 400 ∧ 365 * yoe + yoe / 4 - yoe / 100 ≤ doe ∧
    doe < 365 * (yoe + 1) + (yoe + 1) / 4 - (yoe + 1) / 100 + (yoe + 1) / 400 := by
  have e1 : yoe / 4 = 25 * c + q := by omega
  have e2 : yoe / 100 = c := by omega
  obtain rfl | rfl | rfl | rfl : t = 0 ∨ t = 1 ∨ t = 2 ∨ t = 3 := by omega
  · have e3 : (yoe + 1) / 4 = 25 * c + q := by omega
    have e4 : (yoe + 1) / 100 = c := by omega
    omega
  · have e3 : (yoe + 1) / 4 = 25 * c + q := by omega
    have e4 : (yoe + 1) / 100 = c := by omega
    omega
  · have e3 : (yoe + 1) / 4 = 25 * c + q := by omega
    have e4 : (yoe + 1) / 100 = c := by omega
    omega
  · have e3 : (yoe + 1) / 4 = 25 * c + q + 1 := by omega
    by_cases hq24 : q = 24
    · subst hq24
      have e4 : (yoe + 1) / 100 = c + 1 := by omega
      by_cases hc3 : c = 3
      · subst hc3; omega
      · have e5 : (yoe + 1) / 400 = 0 := by omega
        omega
    · have e4 : (yoe + 1) / 100 = c := by omega
      omega

theorem yoe_spec (doe yoe : Nat) (h : doe < 146097)
    (hy : yoe = (doe - doe / 1460 + doe / 36524 - doe / 146096) / 365) :
    yoe < 400 ∧ 365 * yoe + yoe / 4 - yoe / 100 ≤ doe ∧
    doe < 365 * (yoe + 1) + (yoe + 1) / 4 - (yoe + 1) / 100 + (yoe + 1) / 400 := by
  by_cases hlast : doe = 146096
  · subst hlast; subst hy; decide
  obtain ⟨c, hc⟩ : ∃ c, doe / 36524 = c := ⟨_, rfl⟩
  obtain ⟨q, hq⟩ : ∃ q, doe % 36524 / 1461 = q := ⟨_, rfl⟩
  obtain ⟨s, hs⟩ : ∃ s, doe % 36524 % 1461 = s := ⟨_, rfl⟩
  have hdoe : doe = 36524 * c + 1461 * q + s := by omega
  have hc3 : c ≤ 3 := by omega
  have hq24 : q ≤ 24 := by omega
  have hs' : s < 1461 := by omega
  have hs24 : q = 24 → s < 1460 := by omega
  have hf : doe / 146096 = 0 := by omega
  by_cases hd : 24 * c + q + s < 1460
  · have hg : doe / 1460 = 25 * c + q := by omega
    obtain ⟨t, ht⟩ : ∃ t, s / 365 = t := ⟨_, rfl⟩
    have hyoe : yoe = 100 * c + 4 * q + t := by omega
    exact yoe_fin c q t s hc3 hq24 (by omega) (by omega) (by omega) hs' hs24 yoe doe hyoe hdoe
  · have hg : doe / 1460 = 25 * c + q + 1 := by omega
    have hyoe : yoe = 100 * c + 4 * q + 3 := by omega
    exact yoe_fin c q 3 s hc3 hq24 (by omega) (by omega) (by omega) hs' hs24 yoe doe hyoe hdoe

/-- days before 1 March of (March-based) year `y`, counted from 1 March of year 0 -/
def dby (y : Nat) : Nat := 365 * y + y / 4 - y / 100 + y / 400

theorem dby_split (era yoe : Nat) (h : yoe < 400) :
    dby (yoe + era * 400) = era * 146097 + (365 * yoe + yoe / 4 - yoe / 100) := by
  unfold dby; omega

theorem dby_split_succ (era yoe : Nat) (h : yoe < 400) :
    dby (yoe + era * 400 + 1) =
      era * 146097 + (365 * (yoe + 1) + (yoe + 1) / 4 - (yoe + 1) / 100 + (yoe + 1) / 400) := by
  unfold dby; omega

/-- the month/day part of `civil` as a function of the (March-based) year and the day of that year -/
def ofDoy (y doy : Nat) : Nat × Nat × Nat :=
  let mp := (5 * doy + 2) / 153
  let d := doy - (153 * mp + 2) / 5 + 1
  let m := if mp < 10 then mp + 3 else mp - 9
  (if m ≤ 2 then y + 1 else y, m, d)

theorem civil_char (x : Nat) : ∃ y doy, x + 719468 = dby y + doy ∧ dby y + doy < dby (y + 1) ∧
    civil x = ofDoy y doy := by
  obtain ⟨era, hera⟩ : ∃ e, (x + 719468) / 146097 = e := ⟨_, rfl⟩
  obtain ⟨doe, hdoe⟩ : ∃ e, (x + 719468) % 146097 = e := ⟨_, rfl⟩
  obtain ⟨yoe, hyoe⟩ : ∃ e, (doe - doe / 1460 + doe / 36524 - doe / 146096) / 365 = e := ⟨_, rfl⟩
  have hlt : doe < 146097 := by omega
  obtain ⟨h1, h2, h3⟩ := yoe_spec doe yoe hlt hyoe.symm
  refine ⟨yoe + era * 400, doe - (365 * yoe + yoe / 4 - yoe / 100), ?_, ?_, ?_⟩
  · rw [dby_split era yoe h1]; omega
  · rw [dby_split era yoe h1, dby_split_succ era yoe h1]; omega
  · subst hyoe; subst hdoe; subst hera; rfl

theorem dfc_char (y m d : Nat) :
    dfc y m d = dby (if m ≤ 2 then y - 1 else y) +
      ((153 * (if m > 2 then m - 3 else m + 9) + 2) / 5 + d - 1) - 719468 := by
  unfold dfc
  simp only
  generalize (if m ≤ 2 then y - 1 else y) = y'
  generalize (if m > 2 then m - 3 else m + 9) = mp
  unfold dby
  omega

theorem dby_step (y : Nat) : dby y + 365 ≤ dby (y + 1) ∧ dby (y + 1) ≤ dby y + 366 := by
  unfold dby; omega

/-- the month number of `ofDoy` and the inverse shift of `dfc` cancel -/
theorem month_inv (y mp m : Nat) (hmp : mp ≤ 11) (hm : m = if mp < 10 then mp + 3 else mp - 9) :
    (if m ≤ 2 then (if m ≤ 2 then y + 1 else y) - 1 else (if m ≤ 2 then y + 1 else y)) = y ∧
    (if m > 2 then m - 3 else m + 9) = mp ∧ 1 ≤ m ∧ m ≤ 12 ∧ (m ≤ 2 ↔ 10 ≤ mp) := by
  by_cases h : mp < 10
  · have e : m = mp + 3 := by rw [hm, if_pos h]
    have h2 : ¬ m ≤ 2 := by omega
    have h3 : m > 2 := by omega
    rw [if_neg h2, if_neg h2, if_pos h3]; omega
  · have e : m = mp - 9 := by rw [hm, if_neg h]
    have h2 : m ≤ 2 := by omega
    have h3 : ¬ m > 2 := by omega
    rw [if_pos h2, if_pos h2, if_neg h3]; omega

theorem dfc_civil (x : Nat) : dfc (civil x).1 (civil x).2.1 (civil x).2.2 = x := by
  obtain ⟨y, doy, h1, h2, h3⟩ := civil_char x
  have h4 := dby_step y
  rw [h3, dfc_char]
  unfold ofDoy
  simp only
  obtain ⟨mp, hmp⟩ : ∃ mp, (5 * doy + 2) / 153 = mp := ⟨_, rfl⟩
  rw [hmp]
  have h11 : mp ≤ 11 := by omega
  obtain ⟨m, hm⟩ : ∃ m, m = if mp < 10 then mp + 3 else mp - 9 := ⟨_, rfl⟩
  rw [← hm]
  obtain ⟨e1, e2, -⟩ := month_inv y mp m h11 hm
  rw [e1, e2]
  omega

theorem dby_lower (y : Nat) (h : 719468 ≤ dby y + 365) : 1969 ≤ y := by
  unfold dby at h; omega

theorem dby_1969 : dby 1969 = 719162 := by decide

theorem civil_ranges (x : Nat) : 1970 ≤ (civil x).1 ∧ 1 ≤ (civil x).2.1 ∧ (civil x).2.1 ≤ 12 ∧
    1 ≤ (civil x).2.2 ∧ (civil x).2.2 ≤ 31 := by
  obtain ⟨y, doy, h1, h2, h3⟩ := civil_char x
  have h4 := dby_step y
  rw [h3]
  unfold ofDoy
  simp only
  obtain ⟨mp, hmp⟩ : ∃ mp, (5 * doy + 2) / 153 = mp := ⟨_, rfl⟩
  rw [hmp]
  have h11 : mp ≤ 11 := by omega
  obtain ⟨m, hm⟩ : ∃ m, m = if mp < 10 then mp + 3 else mp - 9 := ⟨_, rfl⟩
  rw [← hm]
  obtain ⟨-, -, e3, e4, e5⟩ := month_inv y mp m h11 hm
  refine ⟨?_, e3, e4, by omega, by omega⟩
  have h5 : 1969 ≤ y := dby_lower y (by omega)
  by_cases hm2 : m ≤ 2
  · rw [if_pos hm2]; omega
  · rw [if_neg hm2]
    by_cases hy : y = 1969
    · subst hy
      have := dby_1969
      omega
    · omega

theorem dby_lower' (y : Nat) (h : 1970 ≤ y) : 719468 ≤ dby y := by
  unfold dby; omega

/-- `dfc` without truncated subtraction, for dates from 1970 on -/
theorem dfc_char' (y m d : Nat) (hy : 1970 ≤ y) (hm1 : 1 ≤ m) (hm2 : m ≤ 12) (hd : 1 ≤ d) :
    ∃ y' k, 719468 ≤ dby y' + k ∧ dfc y m d + 719468 + 1 = dby y' + k + d ∧
      (m ≤ 2 → y' + 1 = y ∧ k = 306 + 31 * (m - 1)) ∧ (2 < m → y' = y ∧ k = (153 * (m - 3) + 2) / 5) := by
  rw [dfc_char]
  by_cases h : m ≤ 2
  · have h' : ¬ m > 2 := by omega
    rw [if_pos h, if_neg h']
    refine ⟨y - 1, (153 * (m + 9) + 2) / 5, ?_, ?_, ?_, ?_⟩
    · by_cases hy' : y = 1970
      · subst hy'; have : dby (1970 - 1) = 719162 := dby_1969; omega
      · have := dby_lower' (y - 1) (by omega); omega
    · by_cases hy' : y = 1970
      · subst hy'; have : dby (1970 - 1) = 719162 := dby_1969; omega
      · have := dby_lower' (y - 1) (by omega); omega
    · intro _; omega
    · intro h2; omega
  · have h' : m > 2 := by omega
    rw [if_neg h, if_pos h']
    have := dby_lower' y hy
    refine ⟨y, (153 * (m - 3) + 2) / 5, by omega, by omega, by omega, by omega⟩

theorem dfc_day_linear (y m d : Nat) (hy : 1970 ≤ y) (hm1 : 1 ≤ m) (hm2 : m ≤ 12) (hd : 1 ≤ d) :
    dfc y m d = dfc y m 1 + (d - 1) := by
  obtain ⟨y1, k1, a1, b1, c1, d1⟩ := dfc_char' y m d hy hm1 hm2 hd
  obtain ⟨y2, k2, a2, b2, c2, d2⟩ := dfc_char' y m 1 hy hm1 hm2 (Nat.le_refl 1)
  by_cases h : m ≤ 2
  · obtain ⟨e1, e2⟩ := c1 h
    obtain ⟨e3, e4⟩ := c2 h
    have : y1 = y2 := by omega
    subst this; omega
  · obtain ⟨e1, e2⟩ := d1 (by omega)
    obtain ⟨e3, e4⟩ := d2 (by omega)
    subst e1; subst e3; omega

theorem dfc_month_mono (y m : Nat) (hy : 1970 ≤ y) (hm1 : 1 ≤ m) (hm2 : m < 12) :
    dfc y m 1 < dfc y (m + 1) 1 := by
  obtain ⟨y1, k1, a1, b1, c1, d1⟩ := dfc_char' y m 1 hy hm1 (by omega) (Nat.le_refl 1)
  obtain ⟨y2, k2, a2, b2, c2, d2⟩ := dfc_char' y (m + 1) 1 hy (by omega) (by omega) (Nat.le_refl 1)
  by_cases h1 : m = 1
  · subst h1
    obtain ⟨e1, e2⟩ := c1 (by omega)
    obtain ⟨e3, e4⟩ := c2 (by omega)
    have : y1 = y2 := by omega
    subst this; omega
  · by_cases h2 : m = 2
    · subst h2
      obtain ⟨e1, e2⟩ := c1 (by omega)
      obtain ⟨e3, e4⟩ := d2 (by omega)
      subst e3
      have := dby_step y1
      rw [e1] at this
      omega
    · obtain ⟨e1, e2⟩ := d1 (by omega)
      obtain ⟨e3, e4⟩ := d2 (by omega)
      subst e1; subst e3; omega

theorem dfc_year_mono (y : Nat) (hy : 1970 ≤ y) : dfc y 12 1 < dfc (y + 1) 1 1 := by
  obtain ⟨y1, k1, a1, b1, c1, d1⟩ := dfc_char' y 12 1 hy (by omega) (by omega) (Nat.le_refl 1)
  obtain ⟨y2, k2, a2, b2, c2, d2⟩ := dfc_char' (y + 1) 1 1 (by omega) (by omega) (by omega) (Nat.le_refl 1)
  obtain ⟨e1, e2⟩ := d1 (by omega)
  obtain ⟨e3, e4⟩ := c2 (by omega)
  have : y1 = y2 := by omega
  subst this; omega

theorem month_val (mp m : Nat) (hm : m = if mp < 10 then mp + 3 else mp - 9) :
    (mp < 10 → m = mp + 3) ∧ (10 ≤ mp → m = mp - 9) := by
  by_cases h : mp < 10
  · rw [if_pos h] at hm; omega
  · rw [if_neg h] at hm; omega

/-- a day lies before the first day of the following month -/
theorem civil_before_next_month (x : Nat) :
    x < (if (civil x).2.1 < 12 then dfc (civil x).1 ((civil x).2.1 + 1) 1
         else dfc ((civil x).1 + 1) 1 1) := by
  obtain ⟨y, doy, h1, h2, h3⟩ := civil_char x
  have hr := civil_ranges x
  have h4 := dby_step y
  rw [h3] at hr ⊢
  unfold ofDoy at hr ⊢
  simp only at hr ⊢
  obtain ⟨mp, hmp⟩ : ∃ mp, (5 * doy + 2) / 153 = mp := ⟨_, rfl⟩
  rw [hmp] at hr ⊢
  have h11 : mp ≤ 11 := by omega
  obtain ⟨m, hm⟩ : ∃ m, m = if mp < 10 then mp + 3 else mp - 9 := ⟨_, rfl⟩
  rw [← hm] at hr ⊢
  obtain ⟨v1, v2⟩ := month_val mp m hm
  obtain ⟨Y, hY⟩ : ∃ Y, Y = if m ≤ 2 then y + 1 else y := ⟨_, rfl⟩
  rw [← hY] at hr ⊢
  have hY1 : m ≤ 2 → Y = y + 1 := fun h => by rw [if_pos h] at hY; exact hY
  have hY2 : 2 < m → Y = y := fun h => by rw [if_neg (by omega)] at hY; exact hY
  obtain ⟨r1, r2, r3, -, -⟩ := hr
  by_cases h12 : m < 12
  · rw [if_pos h12]
    obtain ⟨y', k, a, b, c, d⟩ := dfc_char' Y (m + 1) 1 r1 (by omega) (by omega) (Nat.le_refl 1)
    by_cases hm1 : m = 1
    · obtain ⟨c1, c2⟩ := c (by omega)
      have := hY1 (by omega)
      have : y' = y := by omega
      subst this
      have : mp = 10 := by omega
      omega
    · by_cases hm2 : m = 2
      · obtain ⟨c1, c2⟩ := d (by omega)
        have := hY1 (by omega)
        have : y' = y + 1 := by omega
        subst this
        omega
      · obtain ⟨c1, c2⟩ := d (by omega)
        have := hY2 (by omega)
        have : y' = y := by omega
        subst this
        have : m = mp + 3 := v1 (by omega)
        subst this
        omega
  · rw [if_neg h12]
    obtain ⟨y', k, a, b, c, d⟩ := dfc_char' (Y + 1) 1 1 (by omega) (by omega) (by omega) (Nat.le_refl 1)
    obtain ⟨c1, c2⟩ := c (by omega)
    have := hY2 (by omega)
    have : y' = y := by omega
    subst this
    have : mp = 9 := by omega
    omega

theorem dby_mono (a n : Nat) : dby a ≤ dby (a + n) := by
  induction n with
  | zero => exact Nat.le_refl _
  | succ n ih =>
    have := dby_step (a + n)
    rw [← Nat.add_assoc]
    omega

theorem dby_mono' (a b : Nat) (h : a ≤ b) : dby a ≤ dby b := by
  have := dby_mono a (b - a)
  rwa [Nat.add_sub_cancel' h] at this

/-- `civil` inverts `dfc` on the first day of every month from 1970 on -/
theorem civil_dfc (y m : Nat) (hy : 1970 ≤ y) (hm1 : 1 ≤ m) (hm2 : m ≤ 12) :
    civil (dfc y m 1) = (y, m, 1) := by
  obtain ⟨y', k, a, b, c, d⟩ := dfc_char' y m 1 hy hm1 hm2 (Nat.le_refl 1)
  obtain ⟨y0, doy0, h1, h2, h3⟩ := civil_char (dfc y m 1)
  have hk : k ≤ 337 := by
    by_cases h : m ≤ 2
    · have := c h; omega
    · have := d (by omega); omega
  have s1 := dby_step y'
  have hy0 : y0 = y' := by
    by_cases l1 : y0 < y'
    · have := dby_mono' (y0 + 1) y' l1; omega
    · by_cases l2 : y' < y0
      · have := dby_mono' (y' + 1) y0 l2; omega
      · omega
  subst hy0
  have hdoy : doy0 = k := by omega
  subst hdoy
  rw [h3]
  unfold ofDoy
  simp only
  by_cases h : m ≤ 2
  · obtain ⟨c1, c2⟩ := c h
    by_cases hm : m = 1
    · subst hm
      have : doy0 = 306 := by omega
      subst this
      subst c1
      simp
    · have : m = 2 := by omega
      subst this
      have : doy0 = 337 := by omega
      subst this
      subst c1
      simp
  · obtain ⟨c1, c2⟩ := d (by omega)
    subst c1
    have hmp : (5 * doy0 + 2) / 153 = m - 3 := by omega
    rw [hmp, if_pos (by omega : m - 3 < 10), if_neg (by omega : ¬ m - 3 + 3 ≤ 2)]
    have e1 : m - 3 + 3 = m := by omega
    have e2 : doy0 - (153 * (m - 3) + 2) / 5 + 1 = 1 := by omega
    rw [e1, e2]

end Tbox.C20.CC
