/-
C20 — reference semantics of the cron alarm (core Lean only).

CronAlarm::calculateNextLocalTimeSec delegates to the THIRD-PARTY evaluator
modules/alarm/3rd-party/ccronexpr.cpp (`cron_parse_expr`, `cron_next`).  That code is transcribed
in CCron.lean.  THIS file is an independent executable reference (declarative meaning + a search
proved to return the earliest match) for the expression shapes `sec min hour dom mon dow` built
from lists, ranges, steps and `*`; the driver compares both `cron_next` of the real code and the
transcription with it on every run.

Field semantics transcribed from ccronexpr's parser (`set_number_hits` / `get_range`):
  item   := range | range '/' step
  range  := '*' (= min … max-1) | n (= n … n) | a '-' b          must satisfy min ≤ a ≤ b < max
  n/step := n, n+step, … up to max-1 (a bare number before '/' opens the range to max-1); step ≥ 1
  dow: values 0…7, 7 is folded onto 0 (Sunday); months 1…12; dom 1…31.
Day rule as ccronexpr implements it (`find_next_day`): a day matches iff its day-of-month is in the
dom set AND its weekday is in the dow set (`*` = every value) — NOT the "either" rule of Vixie cron.
-/
namespace Tbox.C20.Cron

/-! ### fields -/

inductive Range where
  | star | one (n : Nat) | span (a b : Nat)
deriving Repr, DecidableEq

structure Item where
  range : Range
  step : Option Nat := none
deriving Repr, DecidableEq

/-- `get_range` + the incrementer rule; `none` = the parser reports an error -/
def Item.bounds (it : Item) (min max : Nat) : Option (Nat × Nat × Nat) :=
  let r : Nat × Nat := match it.range with
    | .star => (min, max - 1)
    | .one n => (n, n)
    | .span a b => (a, b)
  if r.1 ≥ max ∨ r.2 ≥ max ∨ r.1 < min ∨ r.2 < min ∨ r.1 > r.2 then none else
  match it.step with
  | none => some (r.1, r.2, 1)
  | some 0 => none
  | some d =>
    let hi := match it.range with
      | .span _ _ => r.2
      | _ => max - 1
    some (r.1, hi, d)

/-- bit set of one item: lo, lo+step, … ≤ hi -/
def itemBits (lo hi step : Nat) : Nat :=
  (List.range (hi + 1 - lo)).foldl (fun acc k => if k % step = 0 then acc ||| (1 <<< (lo + k)) else acc) 0

/-- `set_number_hits`: the union over the comma list; `none` if any item is rejected -/
def fieldBits (items : List Item) (min max : Nat) : Option Nat :=
  items.foldl (fun acc it => do
    let a ← acc
    let (lo, hi, st) ← it.bounds min max
    pure (a ||| itemBits lo hi st)) (some 0)

structure Expr where
  sec : Nat     -- bits 0…59
  min : Nat     -- bits 0…59
  hour : Nat    -- bits 0…23
  dom : Nat     -- bits 1…31
  mon : Nat     -- bits 1…12
  dow : Nat     -- bits 0…6 (0 = Sunday)
deriving Repr, DecidableEq

/-- `cron_parse_expr` on six well-shaped fields -/
def parse (s m h dom mon dow : List Item) : Option Expr := do
  let s ← fieldBits s 0 60
  let m ← fieldBits m 0 60
  let h ← fieldBits h 0 24
  let dom ← fieldBits dom 1 32
  let mon ← fieldBits mon 1 13
  let dow ← fieldBits dow 0 8
  let dow := if dow.testBit 7 then (dow ||| 1) &&& 127 else dow      -- Sunday is 0 or 7
  pure { sec := s, min := m, hour := h, dom := dom, mon := mon, dow := dow }

/-! ### proleptic Gregorian calendar -/

/-- days since 1970-01-01 → (year, month 1…12, day 1…31)  (civil_from_days, H. Hinnant) -/
def civil (days : Nat) : Nat × Nat × Nat :=
  let z := days + 719468
  let era := z / 146097
  let doe := z % 146097
  let yoe := (doe - doe / 1460 + doe / 36524 - doe / 146096) / 365
  let y := yoe + era * 400
  let doy := doe - (365 * yoe + yoe / 4 - yoe / 100)
  let mp := (5 * doy + 2) / 153
  let d := doy - (153 * mp + 2) / 5 + 1
  let m := if mp < 10 then mp + 3 else mp - 9
  (if m ≤ 2 then y + 1 else y, m, d)

/-- 0 = Sunday; day 0 was a Thursday -/
def dayOfWeek (days : Nat) : Nat := (days + 4) % 7

/-! ### the declarative meaning -/

/-- day-of-month AND weekday of day `x` are allowed (ccronexpr's `find_next_day` looks at nothing else) -/
def domDowOk (e : Expr) (x : Nat) : Bool := e.dom.testBit (civil x).2.2 && e.dow.testBit (dayOfWeek x)

/-- the month of day `x` is allowed -/
def monOk (e : Expr) (x : Nat) : Bool := e.mon.testBit (civil x).2.1

/-- calendar year of day `x` -/
def yearOf (x : Nat) : Nat := (civil x).1

/-- the calendar day `x` is one the expression allows: day-of-month AND weekday AND month -/
def dayOk (e : Expr) (x : Nat) : Bool := domDowOk e x && monOk e x

/-- the second-of-day `s` (< 86400) is one the expression allows -/
def timeOk (e : Expr) (s : Nat) : Bool :=
  e.hour.testBit (s / 3600) && e.min.testBit (s % 3600 / 60) && e.sec.testBit (s % 60)

/-- instant `r` lies on an allowed day at an allowed time of day (generic in the two predicates so
that proofs never unfold the calendar arithmetic) -/
def MatchG (dayP timeP : Nat → Bool) (r : Nat) : Prop := dayP (r / 86400) = true ∧ timeP (r % 86400) = true

/-- instant `r` (seconds since the epoch, local time of the alarm) matches the expression -/
def CronMatch (e : Expr) (r : Nat) : Prop := MatchG (dayOk e) (timeOk e) r

/-! ### the executable search, with ccronexpr's year horizon

ccronexpr walks like this (`do_next`): find the next day whose day-of-month and weekday are allowed;
if its month is allowed too, that is the day.  Otherwise jump to the first day of the next allowed
month — and GIVE UP (`cron_next` returns (time_t)-1) if that day lies in a calendar year more than
CRON_MAX_YEARS_DIFF = 4 after the year `dot` in which the search started
(`if (calendar->tm_year - dot > 4) return -1`, checked only at such a jump).  `dot` is the year of `t`,
or of `t+1` when `t` itself matches (cron_next then restarts one second later).
So the result is the earliest matching instant after t, unless a jump lands beyond year dot+4 first. -/

/-- least k in [lo, lo+n) with p k -/
def leastFrom (p : Nat → Bool) : Nat → Nat → Option Nat
  | _, 0 => none
  | lo, n + 1 => if p lo then some lo else leastFrom p (lo + 1) n

/-- outcome of the day search -/
inductive DayResult where
  | found (d : Nat)          -- the first allowed day
  | beyond (l : Nat)         -- gave up: the jump to the next allowed month landed on day `l`, year(l) > dot + 4
  | exhausted                -- the reference's own scan bounds ran out (never observed; not a ccronexpr outcome)
deriving Repr, DecidableEq

/-- the day search from day `p` (generic in the predicates; `limit` = dot + 4; `H` bounds one scan for a
day-of-month/weekday hit, 400 days bound the scan for the next allowed month) -/
def daySearch (ddP monP : Nat → Bool) (yearP : Nat → Nat) (limit H : Nat) : Nat → Nat → DayResult
  | 0, _ => .exhausted
  | fuel + 1, p =>
    match leastFrom ddP p H with
    | none => .exhausted
    | some d =>
      if monP d then .found d else
      match leastFrom monP (d + 1) 400 with
      | none => .exhausted
      | some l => if yearP l > limit then .beyond l else daySearch ddP monP yearP limit H fuel l

/-- the year the horizon is counted from (generic) -/
def dotG (ddP monP : Nat → Bool) (yearP : Nat → Nat) (timeP : Nat → Bool) (t : Nat) : Nat :=
  if ddP (t / 86400) && monP (t / 86400) && timeP (t % 86400) then yearP ((t + 1) / 86400) else yearP (t / 86400)

/-- the search with the number of seconds per day as a parameter `n` (always 86400; a parameter so
that proofs never unfold the scan over a large literal) -/
def nextG (ddP monP : Nat → Bool) (yearP : Nat → Nat) (timeP : Nat → Bool) (t H n : Nat) : Option Nat :=
  let day := t / 86400
  let s0 := t % 86400
  let dot := dotG ddP monP yearP timeP t
  match leastFrom timeP 0 n with
  | none => none                                  -- empty time-of-day set
  | some sFirst =>
    let later := leastFrom timeP (s0 + 1) (n - (s0 + 1))        -- an allowed second later today
    let p0 := if later.isSome then day else day + 1
    match daySearch ddP monP yearP (dot + 4) H 100 p0 with
    | .found d =>
      if d = day then later.map (fun s => day * 86400 + s) else some (d * 86400 + sFirst)
    | _ => none

/-- ccronexpr's `cron_next` as the reference sees it: the earliest matching instant strictly after `t`,
or none when the year horizon (or, never observed, a scan bound `H`) is hit first -/
def nextCron (e : Expr) (t H : Nat) : Option Nat :=
  nextG (domDowOk e) (monOk e) yearOf (timeOk e) t H 86400

/-- the outcome of the day search inside `nextG` (generic) -/
def dayResultG (ddP monP : Nat → Bool) (yearP : Nat → Nat) (timeP : Nat → Bool) (t H n : Nat) : DayResult :=
  daySearch ddP monP yearP (dotG ddP monP yearP timeP t + 4) H 100
    (if (leastFrom timeP (t % 86400 + 1) (n - (t % 86400 + 1))).isSome then t / 86400 else t / 86400 + 1)

/-- ccronexpr's `dot`: the year of `t`, or of `t+1` when `t` itself matches -/
def cronDot (e : Expr) (t : Nat) : Nat := dotG (domDowOk e) (monOk e) yearOf (timeOk e) t

/-- why `nextCron` found nothing (for the horizon theorem and for the driver's tags) -/
def nextCronDay (e : Expr) (t H : Nat) : DayResult := dayResultG (domDowOk e) (monOk e) yearOf (timeOk e) t H 86400

end Tbox.C20.Cron
