/- C20 — the executable cron search returns the declaratively earliest matching instant -/
import TboxModel.C20.Cron
import TboxModel.C20.Spec
namespace Tbox.C20.Cron
open Tbox.C20

theorem leastFrom_some (p : Nat → Bool) : ∀ n lo k, leastFrom p lo n = some k →
    lo ≤ k ∧ k < lo + n ∧ p k = true ∧ ∀ j, lo ≤ j → j < k → p j = false := by
  intro n
  induction n with
  | zero => intro lo k h; simp [leastFrom] at h
  | succ n ih =>
    intro lo k h
    unfold leastFrom at h
    by_cases hp : p lo = true
    · simp only [hp, if_true, Option.some.injEq] at h
      subst h
      exact ⟨Nat.le_refl _, by omega, hp, fun j h1 h2 => by omega⟩
    · simp only [hp] at h
      obtain ⟨h1, h2, h3, h4⟩ := ih (lo + 1) k h
      refine ⟨by omega, by omega, h3, ?_⟩
      intro j hj1 hj2
      by_cases hj : j = lo
      · subst hj; simpa using hp
      · exact h4 j (by omega) hj2

theorem leastFrom_none (p : Nat → Bool) : ∀ n lo, leastFrom p lo n = none →
    ∀ j, lo ≤ j → j < lo + n → p j = false := by
  intro n
  induction n with
  | zero => intro lo _ j h1 h2; omega
  | succ n ih =>
    intro lo h j h1 h2
    unfold leastFrom at h
    by_cases hp : p lo = true
    · simp [hp] at h
    · simp only [hp] at h
      by_cases hj : j = lo
      · subst hj; simpa using hp
      · exact ih (lo + 1) h j (by omega) (by omega)

/-- today still has a matching second -/
theorem today_case (dayP timeP : Nat → Bool) (t n s : Nat) (hn : n = 86400) (hd : dayP (t / 86400) = true)
    (htd : leastFrom timeP (t % 86400 + 1) (n - (t % 86400 + 1)) = some s) :
    Earliest (MatchG dayP timeP) t (t / 86400 * 86400 + s) := by
  obtain ⟨l1, l2, l3, l4⟩ := leastFrom_some _ _ _ _ htd
  have e1 : (t / 86400 * 86400 + s) / 86400 = t / 86400 := by omega
  have e2 : (t / 86400 * 86400 + s) % 86400 = s := by omega
  refine ⟨by omega, ⟨by rw [e1]; exact hd, by rw [e2]; exact l3⟩, ?_⟩
  intro r' h1 h2 hm
  have hk := l4 (r' % 86400) (by omega) (by omega)
  have := hm.2
  rw [hk] at this; cases this

/-- nothing left today: first allowed second of the first allowed later day -/
theorem later_case (dayP timeP : Nat → Bool) (t H n s d : Nat) (hn : n = 86400)
    (hnt : ∀ r', r' / 86400 = t / 86400 → t < r' → ¬ MatchG dayP timeP r')
    (hall : leastFrom timeP 0 n = some s) (hday : leastFrom dayP (t / 86400 + 1) H = some d) :
    Earliest (MatchG dayP timeP) t (d * 86400 + s) := by
  obtain ⟨_, a2, a3, a4⟩ := leastFrom_some _ _ _ _ hall
  obtain ⟨d1, _, d3, d4⟩ := leastFrom_some _ _ _ _ hday
  have e1 : (d * 86400 + s) / 86400 = d := by omega
  have e2 : (d * 86400 + s) % 86400 = s := by omega
  refine ⟨by omega, ⟨by rw [e1]; exact d3, by rw [e2]; exact a3⟩, ?_⟩
  intro r' h1 h2 hm
  by_cases c1 : r' / 86400 = t / 86400
  · exact hnt r' c1 h1 hm
  · by_cases c2 : r' / 86400 = d
    · have hk := a4 (r' % 86400) (by omega) (by omega)
      have := hm.2
      rw [hk] at this; cases this
    · have hk := d4 (r' / 86400) (by omega) (by omega)
      have := hm.1
      rw [hk] at this; cases this

/-- "today yields nothing" in the form the later case wants -/
theorem today_none (dayP timeP : Nat → Bool) (t n : Nat) (hn : n = 86400)
    (h : (if dayP (t / 86400) = true then leastFrom timeP (t % 86400 + 1) (n - (t % 86400 + 1)) else none) = none) :
    ∀ r', r' / 86400 = t / 86400 → t < r' → ¬ MatchG dayP timeP r' := by
  intro r' c1 h1 hm
  by_cases hd : dayP (t / 86400) = true
  · rw [if_pos hd] at h
    have hk := leastFrom_none _ _ _ h (r' % 86400) (by omega) (by omega)
    have := hm.2
    rw [hk] at this; cases this
  · have := hm.1
    rw [c1] at this; exact hd this

theorem nextG_some (dayP timeP : Nat → Bool) (t H n r : Nat) (hn : n = 86400) (h : nextG dayP timeP t H n = some r) :
    Earliest (MatchG dayP timeP) t r := by
  unfold nextG at h
  cases htoday : (if dayP (t / 86400) = true then leastFrom timeP (t % 86400 + 1) (n - (t % 86400 + 1)) else none) with
  | some s =>
    simp only [htoday, Option.some.injEq] at h
    subst h
    by_cases hd : dayP (t / 86400) = true
    · rw [if_pos hd] at htoday; exact today_case dayP timeP t n s hn hd htoday
    · rw [if_neg hd] at htoday; cases htoday
  | none =>
    simp only [htoday] at h
    cases hall : leastFrom timeP 0 n with
    | none => simp only [hall] at h; cases h
    | some s =>
      cases hday : leastFrom dayP (t / 86400 + 1) H with
      | none => simp only [hall, hday] at h; cases h
      | some d =>
        simp only [hall, hday, Option.some.injEq] at h
        subst h
        exact later_case dayP timeP t H n s d hn (today_none dayP timeP t n hn htoday) hall hday

theorem nextG_none (dayP timeP : Nat → Bool) (t H n : Nat) (hn : n = 86400) (h : nextG dayP timeP t H n = none) :
    ∀ r', t < r' → r' / 86400 ≤ t / 86400 + H → ¬ MatchG dayP timeP r' := by
  intro r' h1 h2 hm
  unfold nextG at h
  cases htoday : (if dayP (t / 86400) = true then leastFrom timeP (t % 86400 + 1) (n - (t % 86400 + 1)) else none) with
  | some s => simp only [htoday] at h; cases h
  | none =>
    simp only [htoday] at h
    by_cases c1 : r' / 86400 = t / 86400
    · exact today_none dayP timeP t n hn htoday r' c1 h1 hm
    · cases hall : leastFrom timeP 0 n with
      | none =>
        have hk := leastFrom_none _ _ _ hall (r' % 86400) (by omega) (by omega)
        have := hm.2
        rw [hk] at this; cases this
      | some s =>
        cases hday : leastFrom dayP (t / 86400 + 1) H with
        | some d => simp only [hall, hday] at h; cases h
        | none =>
          have hk := leastFrom_none _ _ _ hday (r' / 86400) (by omega) (by omega)
          have := hm.1
          rw [hk] at this; cases this

theorem nextCron_some (e : Expr) (t H r : Nat) (h : nextCron e t H = some r) :
    Earliest (CronMatch e) t r := nextG_some (dayOk e) (timeOk e) t H 86400 r rfl h

theorem nextCron_none (e : Expr) (t H : Nat) (h : nextCron e t H = none) :
    ∀ r', t < r' → r' / 86400 ≤ t / 86400 + H → ¬ CronMatch e r' := nextG_none (dayOk e) (timeOk e) t H 86400 rfl h

end Tbox.C20.Cron
