/- C20 — the executable cron search returns the declaratively earliest matching instant -/
import TboxModel.C20.Cron
import TboxModel.C20.Spec
namespace Tbox.C20.Cron
open Tbox.C20

theorem leastFrom_some (p : Nat → Bool) : ∀ n lo k, leastFrom p lo n = some k →
    lo ≤ k ∧ k < lo + n ∧ p k = true ∧ ∀ j, lo ≤ j → j < k → p j = false := by
  intro n
  induction n with
  | zero => intro lo k h; simp [leastFrom] at h
  | succ n ih =>
    intro lo k h
    unfold leastFrom at h
    by_cases hp : p lo = true
    · simp only [hp, if_true, Option.some.injEq] at h
      subst h
      exact ⟨Nat.le_refl _, by omega, hp, fun j h1 h2 => by omega⟩
    · simp only [hp] at h
      obtain ⟨h1, h2, h3, h4⟩ := ih (lo + 1) k h
      refine ⟨by omega, by omega, h3, ?_⟩
      intro j hj1 hj2
      by_cases hj : j = lo
      · subst hj; simpa using hp
      · exact h4 j (by omega) hj2

theorem leastFrom_none (p : Nat → Bool) : ∀ n lo, leastFrom p lo n = none →
    ∀ j, lo ≤ j → j < lo + n → p j = false := by
  intro n
  induction n with
  | zero => intro lo _ j h1 h2; omega
  | succ n ih =>
    intro lo h j h1 h2
    unfold leastFrom at h
    by_cases hp : p lo = true
    · simp [hp] at h
    · simp only [hp] at h
      by_cases hj : j = lo
      · subst hj; simpa using hp
      · exact ih (lo + 1) h j (by omega) (by omega)

/-- today still has a matching second -/
theorem today_case (dayP timeP : Nat → Bool) (t n s : Nat) (hn : n = 86400) (hd : dayP (t / 86400) = true)
    (htd : leastFrom timeP (t % 86400 + 1) (n - (t % 86400 + 1)) = some s) :
    Earliest (MatchG dayP timeP) t (t / 86400 * 86400 + s) := by
  obtain ⟨l1, l2, l3, l4⟩ := leastFrom_some _ _ _ _ htd
  have e1 : (t / 86400 * 86400 + s) / 86400 = t / 86400 := by omega
  have e2 : (t / 86400 * 86400 + s) % 86400 = s := by omega
  refine ⟨by omega, ⟨by rw [e1]; exact hd, by rw [e2]; exact l3⟩, ?_⟩
  intro r' h1 h2 hm
  have hk := l4 (r' % 86400) (by omega) (by omega)
  have := hm.2
  rw [hk] at this; cases this

/-- nothing left today: first allowed second of the first allowed later day -/
theorem later_case (dayP timeP : Nat → Bool) (t n s d : Nat) (hn : n = 86400)
    (hnt : ∀ r', r' / 86400 = t / 86400 → t < r' → ¬ MatchG dayP timeP r')
    (hall : leastFrom timeP 0 n = some s) (d1 : t / 86400 < d) (d3 : dayP d = true)
    (d4 : ∀ j, t / 86400 < j → j < d → dayP j = false) :
    Earliest (MatchG dayP timeP) t (d * 86400 + s) := by
  obtain ⟨_, a2, a3, a4⟩ := leastFrom_some _ _ _ _ hall
  have e1 : (d * 86400 + s) / 86400 = d := by omega
  have e2 : (d * 86400 + s) % 86400 = s := by omega
  refine ⟨by omega, ⟨by rw [e1]; exact d3, by rw [e2]; exact a3⟩, ?_⟩
  intro r' h1 h2 hm
  by_cases c1 : r' / 86400 = t / 86400
  · exact hnt r' c1 h1 hm
  · by_cases c2 : r' / 86400 = d
    · have hk := a4 (r' % 86400) (by omega) (by omega)
      have := hm.2
      rw [hk] at this; cases this
    · have hk := d4 (r' / 86400) (by omega) (by omega)
      have := hm.1
      rw [hk] at this; cases this

/-- the day search returns the first day that is allowed in all three respects -/
theorem daySearch_found (ddP monP : Nat → Bool) (yearP : Nat → Nat) (limit H : Nat) :
    ∀ fuel p D, daySearch ddP monP yearP limit H fuel p = .found D →
      p ≤ D ∧ (ddP D && monP D) = true ∧ ∀ x, p ≤ x → x < D → (ddP x && monP x) = false := by
  intro fuel
  induction fuel with
  | zero => intro p D h; simp [daySearch] at h
  | succ fuel ih =>
    intro p D h
    unfold daySearch at h
    cases hd : leastFrom ddP p H with
    | none => simp [hd] at h
    | some d =>
      simp only [hd] at h
      obtain ⟨l1, _, l3, l4⟩ := leastFrom_some _ _ _ _ hd
      by_cases hm : monP d = true
      · simp only [hm, if_true, DayResult.found.injEq] at h
        subst h
        exact ⟨l1, by simp [l3, hm], fun x hx1 hx2 => by simp [l4 x hx1 hx2]⟩
      · simp only [hm] at h
        cases hl : leastFrom monP (d + 1) 400 with
        | none => simp [hl] at h
        | some l =>
          simp only [hl] at h
          obtain ⟨m1, _, _, m4⟩ := leastFrom_some _ _ _ _ hl
          by_cases hy : yearP l > limit
          · simp [hy] at h
          · simp only [hy, if_false] at h
            obtain ⟨r1, r2, r3⟩ := ih l D h
            refine ⟨by omega, r2, ?_⟩
            intro x hx1 hx2
            by_cases c1 : x < d
            · simp [l4 x hx1 c1]
            · by_cases c2 : x = d
              · subst c2; simp at hm; simp [hm]
              · by_cases c3 : x < l
                · simp [m4 x (by omega) c3]
                · exact r3 x (by omega) hx2

/-- … or reports the landing day beyond the year limit, with no allowed day before it -/
theorem daySearch_beyond (ddP monP : Nat → Bool) (yearP : Nat → Nat) (limit H : Nat) :
    ∀ fuel p L, daySearch ddP monP yearP limit H fuel p = .beyond L →
      p ≤ L ∧ yearP L > limit ∧ ∀ x, p ≤ x → x < L → (ddP x && monP x) = false := by
  intro fuel
  induction fuel with
  | zero => intro p L h; simp [daySearch] at h
  | succ fuel ih =>
    intro p L h
    unfold daySearch at h
    cases hd : leastFrom ddP p H with
    | none => simp [hd] at h
    | some d =>
      simp only [hd] at h
      obtain ⟨l1, _, l3, l4⟩ := leastFrom_some _ _ _ _ hd
      by_cases hm : monP d = true
      · simp [hm] at h
      · simp only [hm, Bool.false_eq_true, if_false] at h
        cases hl : leastFrom monP (d + 1) 400 with
        | none => simp [hl] at h
        | some l =>
          simp only [hl] at h
          obtain ⟨m1, _, _, m4⟩ := leastFrom_some _ _ _ _ hl
          have skip : ∀ x, p ≤ x → x < l → (ddP x && monP x) = false := by
            intro x hx1 hx2
            by_cases c1 : x < d
            · simp [l4 x hx1 c1]
            · by_cases c2 : x = d
              · subst c2; simp at hm; simp [hm]
              · simp [m4 x (by omega) hx2]
          by_cases hy : yearP l > limit
          · simp only [hy, if_true, DayResult.beyond.injEq] at h
            subst h
            exact ⟨by omega, hy, skip⟩
          · simp only [hy, if_false] at h
            obtain ⟨r1, r2, r3⟩ := ih l L h
            refine ⟨by omega, r2, ?_⟩
            intro x hx1 hx2
            by_cases c3 : x < l
            · exact skip x hx1 c3
            · exact r3 x (by omega) hx2

/-- "no allowed second later today" in the form the later case wants -/
theorem later_none (dayP timeP : Nat → Bool) (t n : Nat) (hn : n = 86400)
    (h : leastFrom timeP (t % 86400 + 1) (n - (t % 86400 + 1)) = none) :
    ∀ r', r' / 86400 = t / 86400 → t < r' → ¬ MatchG dayP timeP r' := by
  intro r' c1 h1 hm
  have hk := leastFrom_none _ _ _ h (r' % 86400) (by omega) (by omega)
  have := hm.2
  rw [hk] at this; cases this

theorem nextG_some (ddP monP : Nat → Bool) (yearP : Nat → Nat) (timeP : Nat → Bool) (t H n r : Nat) (hn : n = 86400)
    (h : nextG ddP monP yearP timeP t H n = some r) :
    Earliest (MatchG (fun x => ddP x && monP x) timeP) t r := by
  unfold nextG at h
  cases hall : leastFrom timeP 0 n with
  | none => simp only [hall] at h; cases h
  | some sFirst =>
    simp only [hall] at h
    cases hlater : leastFrom timeP (t % 86400 + 1) (n - (t % 86400 + 1)) with
    | none =>
      simp only [hlater, Option.isSome_none, Bool.false_eq_true, if_false, Option.map_none] at h
      cases hds : daySearch ddP monP yearP (dotG ddP monP yearP timeP t + 4) H 100 (t / 86400 + 1) with
      | exhausted => simp only [hds] at h; cases h
      | beyond l => simp only [hds] at h; cases h
      | found d =>
        simp only [hds] at h
        obtain ⟨f1, f2, f3⟩ := daySearch_found _ _ _ _ _ _ _ _ hds
        have hne : ¬ d = t / 86400 := by omega
        simp only [hne, if_false, Option.some.injEq] at h
        subst h
        exact later_case _ timeP t n sFirst d hn (later_none _ timeP t n hn hlater) hall (by omega) f2
          (fun j hj1 hj2 => f3 j (by omega) hj2)
    | some s =>
      simp only [hlater, Option.isSome_some, if_true, Option.map_some] at h
      cases hds : daySearch ddP monP yearP (dotG ddP monP yearP timeP t + 4) H 100 (t / 86400) with
      | exhausted => simp only [hds] at h; cases h
      | beyond l => simp only [hds] at h; cases h
      | found d =>
        simp only [hds] at h
        obtain ⟨f1, f2, f3⟩ := daySearch_found _ _ _ _ _ _ _ _ hds
        by_cases hde : d = t / 86400
        · simp only [hde, if_true, Option.some.injEq] at h
          subst h
          rw [hde] at f2
          exact today_case _ timeP t n s hn f2 hlater
        · simp only [hde, if_false, Option.some.injEq] at h
          subst h
          have hday : (ddP (t / 86400) && monP (t / 86400)) = false := f3 _ (Nat.le_refl _) (by omega)
          refine later_case _ timeP t n sFirst d hn ?_ hall (by omega) f2 (fun j hj1 hj2 => f3 j (by omega) hj2)
          intro r' c1 _ hm
          have := hm.1
          rw [c1] at this
          simp only at this
          rw [hday] at this; cases this

/-- when the search gave up at the year horizon: no matching instant before the landing day `L`, whose
calendar year exceeds dot + 4 -/
theorem dayResultG_beyond (ddP monP : Nat → Bool) (yearP : Nat → Nat) (timeP : Nat → Bool) (t H n L : Nat) (hn : n = 86400)
    (h : dayResultG ddP monP yearP timeP t H n = .beyond L) :
    yearP L > dotG ddP monP yearP timeP t + 4 ∧
    ∀ r', t < r' → r' / 86400 < L → ¬ MatchG (fun x => ddP x && monP x) timeP r' := by
  unfold dayResultG at h
  obtain ⟨b1, b2, b3⟩ := daySearch_beyond _ _ _ _ _ _ _ _ h
  refine ⟨b2, ?_⟩
  intro r' h1 h2 hm
  cases hlater : leastFrom timeP (t % 86400 + 1) (n - (t % 86400 + 1)) with
  | none =>
    by_cases c1 : r' / 86400 = t / 86400
    · exact later_none _ timeP t n hn hlater r' c1 h1 hm
    · simp only [hlater, Option.isSome_none, Bool.false_eq_true, if_false] at b3
      have := b3 (r' / 86400) (by omega) h2
      have hm1 := hm.1
      simp only at hm1
      rw [this] at hm1; cases hm1
  | some s =>
    simp only [hlater, Option.isSome_some, if_true] at b3
    have := b3 (r' / 86400) (by omega) h2
    have hm1 := hm.1
    simp only at hm1
    rw [this] at hm1; cases hm1

/-- nothing found: the time-of-day set is empty, or the day search did not find a day (year horizon
hit, or — never observed — a scan bound exhausted) -/
theorem nextG_none (ddP monP : Nat → Bool) (yearP : Nat → Nat) (timeP : Nat → Bool) (t H n : Nat) (hn : n = 86400)
    (h : nextG ddP monP yearP timeP t H n = none) :
    leastFrom timeP 0 n = none ∨ ∀ d, dayResultG ddP monP yearP timeP t H n ≠ .found d := by
  unfold nextG at h
  cases hall : leastFrom timeP 0 n with
  | none => exact Or.inl rfl
  | some sFirst =>
    right
    intro d hd
    unfold dayResultG at hd
    simp only [hall] at h
    cases hlater : leastFrom timeP (t % 86400 + 1) (n - (t % 86400 + 1)) with
    | none =>
      simp only [hlater, Option.isSome_none, Bool.false_eq_true, if_false, Option.map_none] at h hd
      obtain ⟨f1, _, _⟩ := daySearch_found _ _ _ _ _ _ _ _ hd
      have hne : ¬ d = t / 86400 := by omega
      simp [hd, hne] at h
    | some s =>
      simp only [hlater, Option.isSome_some, if_true, Option.map_some] at h hd
      simp only [hd] at h
      by_cases hde : d = t / 86400
      · simp [hde] at h
      · simp [hde] at h

theorem nextCron_some (e : Expr) (t H r : Nat) (h : nextCron e t H = some r) :
    Earliest (CronMatch e) t r := nextG_some (domDowOk e) (monOk e) yearOf (timeOk e) t H 86400 r rfl h

theorem nextCron_beyond (e : Expr) (t H L : Nat) (h : nextCronDay e t H = .beyond L) :
    yearOf L > cronDot e t + 4 ∧ ∀ r', t < r' → r' / 86400 < L → ¬ CronMatch e r' :=
  dayResultG_beyond (domDowOk e) (monOk e) yearOf (timeOk e) t H 86400 L rfl h

theorem nextCron_none (e : Expr) (t H : Nat) (h : nextCron e t H = none) :
    leastFrom (timeOk e) 0 86400 = none ∨ ∀ d, nextCronDay e t H ≠ .found d :=
  nextG_none (domDowOk e) (monOk e) yearOf (timeOk e) t H 86400 rfl h

end Tbox.C20.Cron
