/- C20 — helper lemmas: invariants over histories of one alarm (enabled ⇔ timer armed; one-shot bookkeeping) -/
import TboxModel.C20.ArmProofs
namespace Tbox.C20

theorem fresh_inv (c : Cls) : Inv (fresh c) := by unfold Inv fresh; simp

theorem astep_inv (a : Alarm) (e : Env) (op : AOp) (h : Inv a) :
    Inv (astep a e op).1 ∧ ∀ f ∈ (astep a e op).2, f.wasRunning = true := by
  cases op with
  | init sod m wd => exact ⟨initAlarm_inv a sod m wd h, by simp [astep]⟩
  | initc x => exact ⟨initCron_inv a x h, by simp [astep]⟩
  | tz m => exact ⟨inv_congr rfl rfl h, by simp [astep]⟩
  | enable => exact ⟨enable_inv a e h, by simp [astep]⟩
  | disable => exact ⟨(disable_inv a h).1, by simp [astep]⟩
  | refresh => exact ⟨refresh_inv a e h, by simp [astep]⟩
  | cleanup => exact ⟨(cleanup_inv a h).1, by simp [astep]⟩
  | setCb => exact ⟨inv_congr rfl rfl h, by simp [astep]⟩
  | calChanged => exact ⟨calendarChanged_inv a e h, by simp [astep]⟩
  | pass =>
    have := tick_inv e tickFuel a h
    refine ⟨this.1, ?_⟩
    intro f hf
    simp only [astep, List.mem_map] at hf
    obtain ⟨p, hp, rfl⟩ := hf
    exact this.2 p hp

theorem arun_inv : ∀ (hist : List (Env × AOp)) (a : Alarm), Inv a →
    Inv (arun a hist).1 ∧ ∀ f ∈ (arun a hist).2, f.wasRunning = true := by
  intro hist
  induction hist with
  | nil => intro a h; exact ⟨h, by simp [arun]⟩
  | cons p rest ih =>
    intro a h
    obtain ⟨e, op⟩ := p
    have h1 := astep_inv a e op h
    have h2 := ih _ h1.1
    simp only [arun]
    refine ⟨h2.1, ?_⟩
    intro f hf
    simp only [List.mem_append] at hf
    rcases hf with hf | hf
    · exact h1.2 f hf
    · exact h2.2 f hf

theorem initAlarm_st (a : Alarm) (sod : Int) (m : List Bool) (wd : Bool) (h : a.st ≠ .running) :
    (initAlarm a sod m wd).1.st ≠ .running := by
  unfold initAlarm
  split
  · exact h
  unfold initClassic
  split
  · exact h
  · split
    · exact h
    · split
      · exact h
      · simp

theorem initCron_st (a : Alarm) (x : Option Cron.Expr) (h : a.st ≠ .running) : (initCron a x).1.st ≠ .running := by
  unfold initCron
  repeat' split
  all_goals first | exact h | simp

/-- an operation other than enable() on an alarm that is not enabled: no callback, still not enabled -/
theorem astep_idle (a : Alarm) (e : Env) (op : AOp) (h : Inv a) (hst : a.st ≠ .running)
    (hne : isEnable op = false) : (astep a e op).2 = [] ∧ (astep a e op).1.st ≠ .running := by
  cases op with
  | init sod m wd => exact ⟨rfl, initAlarm_st a sod m wd hst⟩
  | initc x => exact ⟨rfl, initCron_st a x hst⟩
  | tz m => exact ⟨rfl, hst⟩
  | enable => simp [isEnable] at hne
  | disable => exact ⟨rfl, (disable_inv a h).2⟩
  | refresh => exact ⟨rfl, by simp only [astep]; rw [refresh_idle a e hst]; exact hst⟩
  | cleanup => exact ⟨rfl, (cleanup_inv a h).2⟩
  | setCb => exact ⟨rfl, hst⟩
  | calChanged => exact ⟨rfl, by simp only [astep]; rw [calendarChanged_idle a e hst]; exact hst⟩
  | pass =>
    simp only [astep, tick_idle a e (h.idle hst)]
    exact ⟨by simp, hst⟩

theorem arun_idle : ∀ (hist : List (Env × AOp)) (a : Alarm), Inv a → a.st ≠ .running →
    (∀ p ∈ hist, isEnable p.2 = false) → (arun a hist).2 = [] ∧ (arun a hist).1.st ≠ .running := by
  intro hist
  induction hist with
  | nil => intro a _ hst _; exact ⟨rfl, hst⟩
  | cons p rest ih =>
    intro a h hst hne
    obtain ⟨e, op⟩ := p
    have h0 := astep_idle a e op h hst (hne (e, op) (by simp))
    have h1 := astep_inv a e op h
    have h2 := ih _ h1.1 h0.2 (fun q hq => hne q (by simp [hq]))
    simp only [arun, h0.1, h2.1, List.append_nil]
    exact ⟨trivial, h2.2⟩


/-- one-shot bookkeeping: expiries so far, plus the armed timer if any, never exceed the
number of successful enable() calls -/
def Inv2 (a : Alarm) : Prop := a.nFired + (if a.timer.isSome then 1 else 0) ≤ a.nEnabled

/-- summary of one operation on a one-shot alarm -/
structure OStep (a b : Alarm) (k : Nat) (en : Bool) : Prop where
  cls : b.cls = a.cls
  fired : b.nFired = a.nFired + k
  enabled : b.nEnabled ≤ a.nEnabled + (if en then 1 else 0)
  inv2 : Inv2 b

theorem ostep_same {a b : Alarm} (h2 : Inv2 a) (hc : b.cls = a.cls) (hf : b.nFired = a.nFired)
    (he : b.nEnabled = a.nEnabled) (ht : b.timer.isSome = true → a.timer.isSome = true) (en : Bool) :
    OStep a b 0 en := by
  refine ⟨hc, by omega, by split <;> omega, ?_⟩
  unfold Inv2 at *
  rw [hf, he]
  by_cases hb : b.timer.isSome = true
  · simp only [hb, ht hb, if_true] at h2 ⊢; exact h2
  · simp only [hb]; split at h2 <;> simp <;> omega

theorem rearm_ostep (a : Alarm) (e : Env) (h2 : a.nFired + 1 ≤ a.nEnabled) :
    Inv2 (activeTimer a e).1 := by
  obtain ⟨_, hf, he, _⟩ := activeTimer_fields a e
  unfold Inv2; rw [hf, he]; split <;> omega

theorem initAlarm_fields (a : Alarm) (sod : Int) (m : List Bool) (wd : Bool) :
    (initAlarm a sod m wd).1.cls = a.cls ∧ (initAlarm a sod m wd).1.nFired = a.nFired ∧
    (initAlarm a sod m wd).1.nEnabled = a.nEnabled ∧ (initAlarm a sod m wd).1.timer = a.timer := by
  unfold initAlarm
  split
  · simp
  unfold initClassic
  split
  · simp
  · split
    · simp
    · split <;> simp

theorem initCron_fields (a : Alarm) (x : Option Cron.Expr) :
    (initCron a x).1.cls = a.cls ∧ (initCron a x).1.nFired = a.nFired ∧
    (initCron a x).1.nEnabled = a.nEnabled ∧ (initCron a x).1.timer = a.timer := by
  unfold initCron
  repeat' split
  all_goals simp

theorem disable_fields (a : Alarm) :
    (disable a).1.cls = a.cls ∧ (disable a).1.nFired = a.nFired ∧
    (disable a).1.nEnabled = a.nEnabled ∧ ((disable a).1.timer.isSome = true → a.timer.isSome = true) := by
  unfold disable; split <;> simp

theorem cleanup_fields (a : Alarm) :
    (cleanup a).cls = a.cls ∧ (cleanup a).nFired = a.nFired ∧
    (cleanup a).nEnabled = a.nEnabled ∧ ((cleanup a).timer.isSome = true → a.timer.isSome = true) := by
  have := disable_fields a
  unfold cleanup; split
  · simp
  · simpa using this

theorem rearm_fields (a : Alarm) (e : Env) :
    (rearm a e).cls = a.cls ∧ (rearm a e).nFired = a.nFired ∧ (rearm a e).nEnabled = a.nEnabled := by
  obtain ⟨f1, f2, f3, _⟩ := activeTimer_fields a e
  obtain ⟨_, _, _, _, u1, u2, u3, _⟩ := unsubscribe_fields a
  rcases rearm_cases a e with ⟨_, heq⟩ | ⟨_, heq⟩
  · rw [heq]; exact ⟨f1, f2, f3⟩
  · rw [heq]; exact ⟨u1, u2, u3⟩

theorem rearm_inv2 (a : Alarm) (e : Env) (h2 : a.nFired + 1 ≤ a.nEnabled) : Inv2 (rearm a e) := by
  obtain ⟨_, hf, he⟩ := rearm_fields a e
  unfold Inv2; rw [hf, he]; split <;> omega

theorem refresh_ostep (a : Alarm) (e : Env) (h : Inv a) (h2 : Inv2 a) : OStep a (refresh a e) 0 false := by
  unfold refresh
  split
  · rename_i hr
    have hsome : a.timer.isSome = true := h.mp hr
    obtain ⟨hc, hf, he⟩ := rearm_fields { a with st := .inited, timer := none, target := 0 } e
    have : a.nFired + 1 ≤ a.nEnabled := by unfold Inv2 at h2; simpa [hsome] using h2
    exact ⟨hc, by simpa using hf, by simpa using Nat.le_of_eq he, rearm_inv2 _ e this⟩
  · exact ostep_same h2 rfl rfl rfl id false

theorem ostep_trans {a b c : Alarm} {k1 k2 : Nat} (h1 : OStep a b k1 false) (h2 : OStep b c k2 false) :
    OStep a c (k1 + k2) false := by
  refine ⟨h2.cls.trans h1.cls, by rw [h2.fired, h1.fired]; omega, ?_, h2.inv2⟩
  have := h1.enabled; have := h2.enabled; simp at *; omega

theorem repeat_ostep (f : Alarm → Alarm) (hf : ∀ a, Inv a → Inv2 a → OStep a (f a) 0 false ∧ Inv (f a)) :
    ∀ n a, Inv a → Inv2 a → OStep a (Nat.repeat f n a) 0 false ∧ Inv (Nat.repeat f n a) := by
  intro n; induction n with
  | zero => intro a h h2; exact ⟨ostep_same h2 rfl rfl rfl id false, h⟩
  | succ n ih =>
    intro a h h2
    have h1 := ih a h h2
    have h3 := hf _ h1.2 h1.1.inv2
    exact ⟨ostep_trans h1.1 h3.1, h3.2⟩

theorem tick_oneshot (e : Env) : ∀ n a, a.cls = .oneshot → Inv a → Inv2 a →
    OStep a (tick a e n).1 (tick a e n).2.length false := by
  intro n
  induction n with
  | zero => intro a _ _ h2; exact ostep_same h2 rfl rfl rfl id false
  | succ n ih =>
    intro a hc h h2
    unfold tick
    cases ht : a.timer with
    | none => exact ostep_same h2 rfl rfl rfl id false
    | some d =>
      simp only
      split
      · -- the one-shot expiry: timer gone, not re-armed
        have hex : (expire a e).1 = { a with timer := none, st := .inited, nFired := a.nFired + 1, lastServed := a.target } := by
          unfold expire; simp [hc]
        have hidle := tick_idle (expire a e).1 e (by rw [hex]) n
        rw [hidle]
        simp only [List.length_cons, List.length_nil]
        rw [hex]
        refine ⟨rfl, by simp, by simp, ?_⟩
        unfold Inv2 at *; simp [ht] at h2 ⊢; omega
      · exact ostep_same h2 rfl rfl rfl id false

theorem astep_oneshot (a : Alarm) (e : Env) (op : AOp) (hc : a.cls = .oneshot) (h : Inv a) (h2 : Inv2 a) :
    OStep a (astep a e op).1 (astep a e op).2.length (isEnable op) := by
  cases op with
  | init sod m wd =>
    obtain ⟨f1, f2, f3, f4⟩ := initAlarm_fields a sod m wd
    show OStep a (initAlarm a sod m wd).1 0 false
    exact ostep_same h2 f1 f2 f3 (by rw [f4]; exact id) _
  | initc x =>
    obtain ⟨f1, f2, f3, f4⟩ := initCron_fields a x
    show OStep a (initCron a x).1 0 false
    exact ostep_same h2 f1 f2 f3 (by rw [f4]; exact id) _
  | tz m =>
    show OStep a (setTimezone a m) 0 false
    exact ostep_same (b := setTimezone a m) h2 rfl rfl rfl id _
  | enable =>
    simp only [astep, isEnable, List.length_nil]
    unfold enable
    split
    · rename_i hi
      have hnone : a.timer = none := h.idle (by rw [hi]; simp)
      have hsub : (subscribe a) = a := by unfold subscribe; simp [hc]
      rw [hsub]
      obtain ⟨f1, f2, f3, _⟩ := activeTimer_fields a e
      have hle : a.nFired ≤ a.nEnabled := by unfold Inv2 at h2; simpa [hnone] using h2
      simp only
      split
      · refine ⟨f1, by simpa [bump] using f2, by simp [bump, f3], ?_⟩
        unfold Inv2; simp only [bump]; rw [f2, f3]
        by_cases hb : (activeTimer a e).1.timer.isSome = true <;> simp [hb] <;> omega
      · rename_i hf
        rcases activeTimer_cases a e with ⟨ht, _⟩ | ⟨_, heq⟩
        · exact absurd ht hf
        · rw [heq]
          have hu : unsubscribe a = a := by unfold unsubscribe; simp [hc]
          rw [hu]; exact ostep_same h2 rfl rfl rfl id _
    · exact ostep_same h2 rfl rfl rfl id _
  | disable =>
    obtain ⟨f1, f2, f3, f4⟩ := disable_fields a
    show OStep a (disable a).1 0 false
    exact ostep_same h2 f1 f2 f3 f4 _
  | refresh => exact refresh_ostep a e h h2
  | cleanup =>
    obtain ⟨f1, f2, f3, f4⟩ := cleanup_fields a
    show OStep a (cleanup a) 0 false
    exact ostep_same h2 f1 f2 f3 f4 _
  | setCb =>
    show OStep a { a with hasCb := true } 0 false
    exact ostep_same (b := { a with hasCb := true }) h2 rfl rfl rfl id _
  | calChanged =>
    exact (repeat_ostep (fun x => refresh x e) (fun x hx hx2 => ⟨refresh_ostep x e hx hx2, refresh_inv x e hx⟩)
      a.subs a h h2).1
  | pass =>
    have := tick_oneshot e tickFuel a hc h h2
    simpa [astep, isEnable] using this

theorem arun_oneshot : ∀ (hist : List (Env × AOp)) (a : Alarm), a.cls = .oneshot → Inv a → Inv2 a →
    (arun a hist).1.nFired = a.nFired + (arun a hist).2.length ∧
    (arun a hist).1.nEnabled ≤ a.nEnabled + countEnable hist ∧ Inv2 (arun a hist).1 := by
  intro hist
  induction hist with
  | nil => intro a _ _ h2; exact ⟨rfl, Nat.le_refl _, h2⟩
  | cons p rest ih =>
    intro a hc h h2
    obtain ⟨e, op⟩ := p
    have s1 := astep_oneshot a e op hc h h2
    have i1 := (astep_inv a e op h).1
    have r := ih _ (s1.cls.trans hc) i1 s1.inv2
    simp only [arun, List.length_append]
    refine ⟨by rw [r.1, s1.fired]; omega, ?_, r.2.2⟩
    have := s1.enabled
    cases op <;> simp [isEnable, countEnable] at this ⊢ <;> omega

end Tbox.C20
