import TboxModel.C20.Cron
/-
C20 — executable model of the alarm module (core Lean only):
  modules/alarm/weekly_alarm.cpp, oneshot_alarm.cpp, workday_alarm.cpp, workday_calendar.cpp
      `calculateNextLocalTimeSec` of each kind, in uint32 arithmetic exactly as coded
      (every `+`/`+=` on a uint32_t is taken modulo 2^32: `w32`)
  modules/alarm/alarm.cpp
      activeTimer (max(now,target) base, explicit time-zone offset added before / removed after
      the local computation in uint32, seconds→milliseconds conversion), onTimeExpired (re-arm
      BEFORE the user callback), OneshotAlarm::onTimeExpired (no re-arm), enable / disable /
      refresh / cleanup / initialize / setTimezone / remainSeconds state machine; the workday
      calendar's subscriber list (calendar updates call refresh()).

The underlying loop timer is the one-shot TimerEvent of C02; here it is a single optional
deadline on the monotonic clock (milliseconds).  Wall clock and monotonic clock are separate
inputs of every step (`Env`), so skew and wall-clock adjustments are ordinary inputs.
The cron alarm delegates to the third-party ccronexpr: `calcNext` uses the proved-earliest reference `Cron.nextCron`;
ccronexpr itself is transcribed in CCron.lean (parser + cron_next) and compared with the reference by the driver on every case.

The model follows the tree WITH patches/C20-01 (64-bit millisecond conversion), C20-02 (disable()
forgets the stale target), C20-03 (WorkdayAlarm destructor unsubscribes), C20-07 (the last served
instant is remembered and never armed again) and C20-11 (a failed arm undoes onEnable(): the calendar
subscription exists exactly while the alarm is enabled); the arithmetic of the unpatched tree is
kept as `delayMs32` for the counterexample theorem.  `gettimeofday` may fail: its answer is an oracle
input of every step (`Env.gtod`).
-/
namespace Tbox.C20

def D : Nat := 86400          -- kSecondsOfDay
def W : Nat := 604800         -- kSecondsOfWeek
def U32 : Nat := 4294967296

/-- uint32_t truncation -/
def w32 (x : Nat) : Nat := x % U32

/-- `(mask & (1 << i)) != 0` -/
def bit (m i : Nat) : Bool := m.testBit i

/-- day of week as the weekly alarm computes it (0 = Sunday; 1970-01-01 was a Thursday) -/
def codeWeek (t : Nat) : Nat := ((t % W) / D + 4) % 7

/-- The common day scan of WeeklyAlarm / WorkdayAlarm:
`for (i = 0; i < n; ++i) { if (curr < next && ok(i)) return true; next += kSecondsOfDay; } return false;`
(`i` counts up from the given start, `n` iterations remain). -/
def scan (ok : Nat → Bool) (t : Nat) : Nat → Nat → Nat → Option Nat
  | 0, _, _ => none
  | n + 1, i, next => if t < next && ok i then some next else scan ok t n (i + 1) (w32 (next + D))

/-- WeeklyAlarm::calculateNextLocalTimeSec -/
def nextWeekly (sod mask t : Nat) : Option Nat :=
  let from0 := t % D
  let at0 := t - from0
  let cw := codeWeek t
  scan (fun i => bit mask ((i + cw) % 7)) t 8 0 (w32 (at0 + sod))

/-- OneshotAlarm::calculateNextLocalTimeSec (always succeeds) -/
def nextOneshot (sod t : Nat) : Nat :=
  let at0 := t - t % D
  let next := w32 (at0 + sod)
  if t ≥ next then w32 (next + D) else next

/-- WorkdayCalendar: default week mask 0b00111110, special days override (std::map lookup) -/
structure Calendar where
  weekMask : Nat := 62
  special : List (Nat × Bool) := []
deriving Repr

/-- WorkdayCalendar::isWorkay -/
def Calendar.isWorkday (c : Calendar) (day : Nat) : Bool :=
  match c.special.lookup day with
  | some b => b
  | none => bit c.weekMask ((day % 7 + 4) % 7)

/-- WorkdayAlarm::calculateNextLocalTimeSec (367-day scan) -/
def nextWorkday (sod : Nat) (cal : Calendar) (workday : Bool) (t : Nat) : Option Nat :=
  let at0 := t - t % D
  let days := t / D
  scan (fun i => workday == cal.isWorkday (days + i)) t 367 0 (w32 (at0 + sod))

/-! ## the alarm base class -/

inductive Cls where | weekly | oneshot | workday | cron
deriving Repr, DecidableEq

inductive St where | none | inited | running
deriving Repr, DecidableEq

structure Alarm where
  cls     : Cls
  sod     : Nat := 0
  mask    : Nat := 0                -- weekly: week_mask_
  wd      : Bool := true            -- workday: workday_
  expr    : Cron.Expr := ⟨0, 0, 0, 0, 0, 0⟩   -- cron: *sp_cron_expr_ (bit sets of the six fields)
  st      : St := .none
  tzSet   : Bool := false           -- using_independ_timezone_
  off     : Int := 0                -- timezone_offset_seconds_
  target  : Nat := 0                -- target_utc_sec_
  timer   : Option Nat := none      -- deadline of the armed one-shot TimerEvent (monotonic ms)
  hasCb   : Bool := true            -- cb_ != nullptr
  subs    : Nat := 0                -- entries of this alarm in the calendar's watch list
  nFired  : Nat := 0                -- ghost: callbacks-or-expiries so far
  nEnabled : Nat := 0               -- ghost: successful enable() calls so far
  lastServed : Nat := 0             -- last_fired_utc_sec_ (patches/C20-07): the instant the last expiry stood for
  wrapped : Bool := false           -- ghost: some arm happened outside the no-wrap range `InRange`
  calSet  : Bool := false           -- workday: wp_calendar_ != nullptr (set by the first successful initialize, never cleared)
deriving Repr

/-- what the clocks and the calendar say when an operation runs -/
structure Env where
  wallMs : Nat                      -- wall clock (UTC), milliseconds
  monoMs : Nat                      -- monotonic clock, milliseconds
  cal    : Calendar := {}
  gtod   : Bool := true             -- ORACLE: gettimeofday() returns 0 (false: it fails, GetCurrentUtcTime returns false)
deriving Repr

/-- tv_sec as stored into the uint32_t -/
def Env.sec (e : Env) : Nat := w32 (e.wallMs / 1000)
/-- `curr_utc_usec / 1000` -/
def Env.ms (e : Env) : Nat := e.wallMs % 1000

/-- `uint32_t + int` / `uint32_t - int`: the int is converted to unsigned, result modulo 2^32 -/
def addOff (x : Nat) (off : Int) : Nat := (((x : Int) + off) % (U32 : Int)).toNat
def subOff (x : Nat) (off : Int) : Nat := (((x : Int) - off) % (U32 : Int)).toNat

/-- scan bound of the cron reference (days); never reached in practice, see Cron.lean -/
def cronScan : Nat := 4000

/-- the virtual `calculateNextLocalTimeSec` (the value before it is stored into the uint32_t) -/
def calcNext (a : Alarm) (cal : Calendar) (t : Nat) : Option Nat :=
  match a.cls with
  | .weekly => nextWeekly a.sod a.mask t
  | .oneshot => some (nextOneshot a.sod t)
  | .workday => nextWorkday a.sod cal a.wd t
  | .cron => Cron.nextCron a.expr t cronScan      -- cron_next (time_t; activeTimer stores it into a uint32_t)

/-- seconds → milliseconds as the UNPATCHED tree does it:
`auto remain_usec = (remain_sec * 1000) - (curr_utc_usec / 1000);` with uint32_t operands -/
def delayMs32 (remainSec ms : Nat) : Nat :=
  (UInt32.ofNat remainSec * 1000 - UInt32.ofNat ms).toNat

/-- the same after patches/C20-01: `uint64_t(remain_sec) * 1000 - curr_utc_usec / 1000` -/
def delayMs (remainSec ms : Nat) : Nat :=
  (UInt64.ofNat remainSec * 1000 - UInt64.ofNat ms).toNat

/-- GetSystemTimezoneOffsetSeconds(): the harness pins the system zone to UTC+3 without DST
(TZ=VRF-3), so that "no explicit zone" is distinguishable from "explicit zone 0" -/
def sysOffset : Int := 10800

/-- the time-zone offset activeTimer uses -/
def Alarm.offset (a : Alarm) : Int := if a.tzSet then a.off else sysOffset

/-- no uint32 wrap around the local computation that starts at UTC second `start` with
time-zone offset `off`: local start not before 1970, and 2200 days (six years: a cron alarm may
be armed up to five calendar years ahead) of head-room below 2^32 on both the local and the UTC side -/
def InRange (start : Nat) (off : Int) : Prop :=
  0 ≤ (start : Int) + off ∧ (start : Int) + off + 2200 * 86400 ≤ 4294967296 ∧ start + 2200 * 86400 ≤ 4294967296

instance (start : Nat) (off : Int) : Decidable (InRange start off) := by unfold InRange; infer_instance

/-- where activeTimer starts its search (UTC second): the current second, the pending target, or the
last instant already served — whichever is latest (patches/C20-07) -/
def Alarm.base (a : Alarm) (e : Env) : Nat := max (max e.sec a.target) a.lastServed

/-- the as-found base (before patches/C20-07): an instant already served is not remembered once
refresh()/disable() cleared the target — kept for the counterexample theorem -/
def Alarm.baseAsFound (a : Alarm) (e : Env) : Nat := max e.sec a.target

/-- the next local instant the computation returns lies less than 2200 days after the local start
(always so for weekly / one-shot / workday alarms — a theorem; for cron alarms it is what ccronexpr's
year horizon gives in practice, recorded per arm) -/
def FarOk (a : Alarm) (e : Env) : Prop :=
  match calcNext a e.cal (addOff (a.base e) a.offset) with
  | some raw => raw < addOff (a.base e) a.offset + 2200 * 86400
  | none => True

instance (a : Alarm) (e : Env) : Decidable (FarOk a e) := by
  unfold FarOk; split <;> infer_instance

/-- the alarm after a successful arm for UTC target `T` with delay `d` (ghost flag updated) -/
def armed (a : Alarm) (e : Env) (T d : Nat) : Alarm :=
  { a with timer := some (e.monoMs + d), st := .running, target := T,
           wrapped := a.wrapped || !decide (InRange (a.base e) a.offset) || !decide (FarOk a e) }

/-- Alarm::activeTimer (`if (!GetCurrentUtcTime(…)) return false;` first: the kernel's answer is the oracle `e.gtod`) -/
def activeTimer (a : Alarm) (e : Env) : Alarm × Bool :=
  if !e.gtod then (a, false) else
  let cur := e.sec
  let off := a.offset
  let start := a.base e
  let localStart := addOff start off
  match calcNext a e.cal localStart with
  | none => (a, false)
  | some raw =>
    let nl := w32 raw                                       -- `uint32_t &next_local_sec`
    let nu := subOff nl off
    let remain := w32 (nu + U32 - cur)                      -- uint32 subtraction
    let delay := delayMs remain e.ms
    (armed a e nu delay, true)

/-- initialize of the three kinds (`sod` as passed: may be out of range; `mask` = the
characters of week_mask compared with '1') -/
def initClassic (a : Alarm) (sod : Int) (mask : List Bool) (wd : Bool) : Alarm × Bool :=
  if a.st = .running then (a, false)
  else if sod < 0 ∨ sod ≥ 86400 then (a, false)
  else if a.cls = .weekly ∧ mask.length ≠ 7 then (a, false)
  else
    let m := (mask.zipIdx.filter (·.1)).foldl (fun acc p => acc ||| (1 <<< p.2)) 0
    ({ a with sod := sod.toNat, mask := if a.cls = .weekly then m else a.mask,
              wd := if a.cls = .workday then wd else a.wd, st := .inited,
              calSet := a.calSet || decide (a.cls = .workday) }, true)

/-- `initialize(seconds_of_day, …)` on a slot: a CronAlarm has no such method (the harness calls nothing) -/
def initAlarm (a : Alarm) (sod : Int) (mask : List Bool) (wd : Bool) : Alarm × Bool :=
  if a.cls = .cron then (a, false) else initClassic a sod mask wd

/-- CronAlarm::initialize (patches/C20-10: the stored expression is replaced only when the new one
parses); `e` = the parsed expression, none when cron_parse_expr reports an error -/
def initCron (a : Alarm) (e : Option Cron.Expr) : Alarm × Bool :=
  if a.cls ≠ .cron then (a, false)
  else if a.st = .running then (a, false)
  else match e with
    | none => (a, false)
    | some x => ({ a with expr := x, st := .inited }, true)

-- (as found, the stored expression was wiped before parsing: a rejected expression left the alarm
-- initialised with partly empty field sets and the next enable() overflowed the stack in cron_next)

/-- Alarm::setTimezone -/
def setTimezone (a : Alarm) (minutes : Int) : Alarm :=
  { a with off := minutes * 60, tzSet := true }

/-- WorkdayAlarm::onEnable: `wp_calendar_->subscribe(this)` -/
def subscribe (a : Alarm) : Alarm := if a.cls = .workday then { a with subs := a.subs + 1 } else a

/-- WorkdayAlarm::onDisable: `wp_calendar_->unsubscribe(this)` (std::remove: every entry of this alarm goes) -/
def unsubscribe (a : Alarm) : Alarm := if a.cls = .workday then { a with subs := 0 } else a

/-- `if (!activeTimer()) onDisable();` — the re-arm of refresh() and onTimeExpired() (patches/C20-11): when no next
instant is found (or the clock cannot be read) the alarm stays idle AND what onEnable() did is undone, so that a
WorkdayAlarm is subscribed to its calendar exactly while it is enabled -/
def rearm (a : Alarm) (e : Env) : Alarm :=
  let r := activeTimer a e
  if r.2 then r.1 else unsubscribe r.1

/-- ghost bookkeeping of successful enable() calls -/
def bump (a : Alarm) : Alarm := { a with nEnabled := a.nEnabled + 1 }

/-- Alarm::enable (onEnable of the workday alarm subscribes to the calendar; patches/C20-11: when activeTimer() fails
onDisable() takes the subscription back) -/
def enable (a : Alarm) (e : Env) : Alarm × Bool :=
  if a.st = .inited then
    let r := activeTimer (subscribe a) e
    if r.2 then (bump r.1, true) else (unsubscribe r.1, false)
  else (a, false)

/-- Alarm::disable (with patches/C20-02: the stale target is forgotten) -/
def disable (a : Alarm) : Alarm × Bool :=
  if a.st = .running then
    ({ a with subs := if a.cls = .workday then 0 else a.subs, st := .inited, timer := none, target := 0 }, true)
  else (a, false)

/-- Alarm::cleanup -/
def cleanup (a : Alarm) : Alarm :=
  if a.st = .none then a
  else
    let a1 := (disable a).1
    { a1 with hasCb := false, tzSet := false, off := 0, st := .none, target := 0 }

/-- Alarm::refresh -/
def refresh (a : Alarm) (e : Env) : Alarm :=
  if a.st = .running then
    rearm { a with st := .inited, timer := none, target := 0 } e
  else a

/-- Alarm::remainSeconds (`state_ == kRunning && GetCurrentUtcTime(curr_utc_sec)`, else 0) -/
def remainSeconds (a : Alarm) (e : Env) : Nat :=
  if a.st = .running ∧ e.gtod = true then w32 (a.target + U32 - e.sec) else 0

/-- WorkdayCalendar::updateSpecialDays / updateWeekMask: refresh every watch-list entry -/
def calendarChanged (a : Alarm) (e : Env) : Alarm :=
  Nat.repeat (fun x => refresh x e) a.subs a

/-- an expiry of the armed one-shot TimerEvent; the `Nat` reported is the instant the expiry
stands for (target_utc_sec_ when onTimeExpired is entered), the `Bool` whether the alarm was
enabled at that moment.
Alarm::onTimeExpired: state = kInited; activeTimer(); then cb_.
OneshotAlarm::onTimeExpired: state = kInited; cb_ (no re-arm). -/
def expire (a : Alarm) (e : Env) : Alarm × (Nat × Bool) :=
  let served := (a.target, decide (a.st = .running))
  let a0 := { a with timer := none, st := .inited, nFired := a.nFired + 1, lastServed := a.target }
  match a.cls with
  | .oneshot => (a0, served)
  | _ => (rearm a0 e, served)

/-- one look of the loop at this alarm's timer (`handleExpiredTimers` keeps serving while due;
a re-armed timer with a zero delay would be served again in the same pass: fuel-bounded).
Each event: the instant served, whether the alarm was enabled, the alarm as the callback sees it. -/
def tick (a : Alarm) (e : Env) : Nat → Alarm × List (Nat × Bool × Alarm)
  | 0 => (a, [])
  | fuel + 1 =>
    match a.timer with
    | some d =>
      if d ≤ e.monoMs then
        let (a1, ev) := expire a e
        let (a2, evs) := tick a1 e fuel
        (a2, (ev.1, ev.2, a1) :: evs)
      else (a, [])
    | none => (a, [])

def tickFuel : Nat := 4

/-! ## histories of one alarm (for the history theorems; the driver runs several slots) -/

inductive AOp where
  | init (sod : Int) (mask : List Bool) (wd : Bool)
  | initc (e : Option Cron.Expr)
  | tz (minutes : Int)
  | enable | disable | refresh | cleanup | setCb
  | calChanged           -- the calendar in the step's `Env` differs from before
  | pass                 -- the loop looks at the timers
deriving Repr

/-- events a history produces: callbacks with the instant they stand for -/
structure Fired where
  instant : Nat
  wasRunning : Bool
  cb : Bool              -- a callback was installed (cb_ != nullptr): the user saw it
deriving Repr, DecidableEq

def astep (a : Alarm) (e : Env) : AOp → Alarm × List Fired
  | .init sod mask wd => ((initAlarm a sod mask wd).1, [])
  | .initc x => ((initCron a x).1, [])
  | .tz m => (setTimezone a m, [])
  | .enable => ((enable a e).1, [])
  | .disable => ((disable a).1, [])
  | .refresh => (refresh a e, [])
  | .cleanup => (cleanup a, [])
  | .setCb => ({ a with hasCb := true }, [])
  | .calChanged => (calendarChanged a e, [])
  | .pass =>
    let (a', evs) := tick a e tickFuel
    (a', evs.map fun p => { instant := p.1, wasRunning := p.2.1, cb := a.hasCb })

/-- run a history: every operation comes with the clocks/calendar it sees (arbitrary: the wall
clock may jump either way, the monotonic clock may run ahead of it) -/
def arun (a : Alarm) : List (Env × AOp) → Alarm × List Fired
  | [] => (a, [])
  | (e, op) :: rest =>
    let (a1, f1) := astep a e op
    let (a2, f2) := arun a1 rest
    (a2, f1 ++ f2)

def fresh (c : Cls) : Alarm := { cls := c }

end Tbox.C20
