/- C20 — helper lemmas: the day scan, earliest-instant characterisation of the three computations -/
import TboxModel.C20.Spec
namespace Tbox.C20

theorem w32_of_lt {x : Nat} (h : x < U32) : w32 x = x := Nat.mod_eq_of_lt h

theorem scan_some (ok : Nat → Bool) (t : Nat) : ∀ n i c r, c + n * D < U32 → scan ok t n i c = some r →
    ∃ k, k < n ∧ r = c + k * D ∧ t < r ∧ ok (i + k) = true ∧
      ∀ j, j < k → ¬ (t < c + j * D ∧ ok (i + j) = true) := by
  intro n
  induction n with
  | zero => intro i c r _ h; simp [scan] at h
  | succ n ih =>
    intro i c r hb h
    unfold scan at h
    split at h
    · rename_i hc
      simp only [Bool.and_eq_true, decide_eq_true_eq] at hc
      cases h
      exact ⟨0, by omega, by simp, by omega, by simpa using hc.2, by intro j hj; omega⟩
    · rename_i hc
      simp only [Bool.and_eq_true, decide_eq_true_eq] at hc
      have hD : D = 86400 := rfl
      have hw : w32 (c + D) = c + D := w32_of_lt (by rw [Nat.succ_mul] at hb; omega)
      rw [hw] at h
      obtain ⟨k, hk, hr, ht, hok, hmin⟩ := ih (i + 1) (c + D) r (by rw [Nat.succ_mul] at hb; omega) h
      have e : i + (k + 1) = i + 1 + k := by omega
      refine ⟨k + 1, by omega, by rw [hr, Nat.succ_mul]; omega, ht, by rw [e]; exact hok, ?_⟩
      intro j hj
      cases j with
      | zero => simpa using hc
      | succ j =>
        have := hmin j (by omega)
        rw [Nat.succ_mul]
        have e1 : c + (j * D + D) = c + D + j * D := by omega
        have e2 : i + (j + 1) = i + 1 + j := by omega
        rw [e1, e2]; exact this

theorem scan_none (ok : Nat → Bool) (t : Nat) : ∀ n i c, c + n * D < U32 → scan ok t n i c = none →
    ∀ j, j < n → ¬ (t < c + j * D ∧ ok (i + j) = true) := by
  intro n
  induction n with
  | zero => intro i c _ _ j hj; omega
  | succ n ih =>
    intro i c hb h j hj
    unfold scan at h
    split at h
    · cases h
    · rename_i hc
      simp only [Bool.and_eq_true, decide_eq_true_eq] at hc
      have hD : D = 86400 := rfl
      have hw : w32 (c + D) = c + D := w32_of_lt (by rw [Nat.succ_mul] at hb; omega)
      rw [hw] at h
      cases j with
      | zero => simpa using hc
      | succ j =>
        have := ih (i + 1) (c + D) (by rw [Nat.succ_mul] at hb; omega) h j (by omega)
        rw [Nat.succ_mul]
        have e1 : c + (j * D + D) = c + D + j * D := by omega
        have e2 : i + (j + 1) = i + 1 + j := by omega
        rw [e1, e2]; exact this

theorem D_eq : D = 86400 := rfl
theorem W_eq : W = 604800 := rfl
theorem U32_eq : U32 = 4294967296 := rfl

theorem weekly_some (sod mask t r : Nat) (hs : sod < D) (ht : t + 9 * D ≤ U32)
    (h : nextWeekly sod mask t = some r) :
    Earliest (WeeklyMatch sod mask) t r ∧ r < t + 9 * D := by
  simp only [D_eq, U32_eq] at hs ht
  have hc0 : t - t % D + sod < U32 := by simp only [D_eq, U32_eq]; omega
  have hb : (t - t % D + sod) + 8 * D < U32 := by simp only [D_eq, U32_eq]; omega
  unfold nextWeekly at h
  simp only [w32_of_lt hc0] at h
  obtain ⟨k, hk, hr, htr, hok, hmin⟩ := scan_some _ t 8 0 _ r hb h
  simp only [D_eq] at hr
  have hwd : ∀ j, weekday (t - t % D + sod + j * D) = (0 + j + codeWeek t) % 7 := by
    intro j; unfold weekday codeWeek; simp only [D_eq, W_eq]; omega
  refine ⟨⟨htr, ⟨by simp only [D_eq]; omega, ?_⟩, ?_⟩, by simp only [D_eq]; omega⟩
  · have := hwd k
    simp only [D_eq] at this
    rw [hr, this]; exact hok
  · intro r' h1 h2 hmt
    obtain ⟨hm1, hm2⟩ := hmt
    simp only [D_eq] at hm1
    have hj : r' = t - t % D + sod + (r' / 86400 - t / 86400) * D := by simp only [D_eq]; omega
    have hlt : r' / 86400 - t / 86400 < k := by omega
    apply hmin _ hlt
    refine ⟨by rw [← hj]; exact h1, ?_⟩
    rw [hj, hwd] at hm2; exact hm2

theorem weekly_ne_none (sod mask t : Nat) (hs : sod < D) (hm : ∃ w, w < 7 ∧ bit mask w = true)
    (ht : t + 9 * D ≤ U32) : nextWeekly sod mask t ≠ none := by
  simp only [D_eq, U32_eq] at hs ht
  have hc0 : t - t % D + sod < U32 := by simp only [D_eq, U32_eq]; omega
  have hb : (t - t % D + sod) + 8 * D < U32 := by simp only [D_eq, U32_eq]; omega
  unfold nextWeekly
  simp only [w32_of_lt hc0]
  intro hsc
  obtain ⟨w, hw7, hw⟩ := hm
  have hcw : codeWeek t < 7 := by unfold codeWeek; omega
  have hn := scan_none _ t 8 0 _ hb hsc ((w + 7 - codeWeek t - 1) % 7 + 1) (by omega)
  apply hn
  refine ⟨by simp only [D_eq]; omega, ?_⟩
  have : (0 + ((w + 7 - codeWeek t - 1) % 7 + 1) + codeWeek t) % 7 = w := by omega
  simp only [this]; exact hw

theorem weekly_earliest (sod mask t : Nat) (hs : sod < D) (hm : ∃ w, w < 7 ∧ bit mask w = true)
    (ht : t + 9 * D ≤ U32) :
    ∃ r, nextWeekly sod mask t = some r ∧ Earliest (WeeklyMatch sod mask) t r := by
  cases h : nextWeekly sod mask t with
  | none => exact absurd h (weekly_ne_none sod mask t hs hm ht)
  | some r => exact ⟨r, rfl, (weekly_some sod mask t r hs ht h).1⟩

theorem scan_all_false (ok : Nat → Bool) (t : Nat) (h : ∀ i, ok i = false) :
    ∀ n i c, scan ok t n i c = none := by
  intro n
  induction n with
  | zero => intro i c; rfl
  | succ n ih => intro i c; unfold scan; simp [h, ih]

theorem scan_false_bounded (ok : Nat → Bool) (t : Nat) :
    ∀ n i c, (∀ j, j < n → ok (i + j) = false) → scan ok t n i c = none := by
  intro n
  induction n with
  | zero => intro i c _; rfl
  | succ n ih =>
    intro i c h
    unfold scan
    have h0 : ok i = false := by simpa using h 0 (by omega)
    simp only [h0, Bool.and_false, Bool.false_eq_true, if_false]
    exact ih _ _ (fun j hj => by have := h (j + 1) (by omega); rwa [show i + (j + 1) = i + 1 + j by omega] at this)

theorem weekly_empty (sod mask t : Nat) (hm : ∀ w, w < 7 → bit mask w = false) :
    nextWeekly sod mask t = none := by
  unfold nextWeekly
  exact scan_all_false _ t (fun i => hm _ (Nat.mod_lt _ (by omega))) 8 0 _

theorem oneshot_earliest (sod t : Nat) (hs : sod < D) (ht : t + 2 * D ≤ U32) :
    Earliest (OneshotMatch sod) t (nextOneshot sod t) := by
  simp only [D_eq, U32_eq] at hs ht
  have hc0 : t - t % D + sod < U32 := by simp only [D_eq, U32_eq]; omega
  have hc1 : t - t % D + sod + D < U32 := by simp only [D_eq, U32_eq]; omega
  unfold nextOneshot Earliest OneshotMatch
  simp only [w32_of_lt hc0, w32_of_lt hc1]
  simp only [D_eq]
  by_cases hge : t ≥ t - t % 86400 + sod
  · simp only [hge, if_true]
    refine ⟨by omega, by omega, ?_⟩
    intro r' h1 h2; omega
  · simp only [hge, if_false]
    refine ⟨by omega, by omega, ?_⟩
    intro r' h1 h2; omega

theorem workday_some (sod : Nat) (cal : Calendar) (wd : Bool) (t r : Nat) (hs : sod < D)
    (ht : t + 368 * D ≤ U32) (h : nextWorkday sod cal wd t = some r) :
    Earliest (WorkdayMatch sod cal wd) t r ∧ r < t + 367 * D := by
  simp only [D_eq, U32_eq] at hs ht
  have hc0 : t - t % D + sod < U32 := by simp only [D_eq, U32_eq]; omega
  have hb : (t - t % D + sod) + 367 * D < U32 := by simp only [D_eq, U32_eq]; omega
  unfold nextWorkday at h
  simp only [w32_of_lt hc0] at h
  obtain ⟨k, hk, hr, htr, hok, hmin⟩ := scan_some _ t 367 0 _ r hb h
  simp only [D_eq] at hr
  simp only [beq_iff_eq] at hok hmin
  refine ⟨⟨htr, ⟨by simp only [D_eq]; omega, ?_⟩, ?_⟩, by simp only [D_eq]; omega⟩
  · have : r / D = t / D + (0 + k) := by simp only [D_eq]; omega
    rw [this]; exact hok.symm
  · intro r' h1 h2 hmt
    obtain ⟨hm1, hm2⟩ := hmt
    simp only [D_eq] at hm1
    have hj : r' = t - t % D + sod + (r' / 86400 - t / 86400) * D := by simp only [D_eq]; omega
    have hlt : r' / 86400 - t / 86400 < k := by omega
    apply hmin _ hlt
    refine ⟨by rw [← hj]; exact h1, ?_⟩
    have : t / D + (0 + (r' / 86400 - t / 86400)) = r' / D := by simp only [D_eq]; omega
    rw [this]; exact hm2.symm

theorem workday_none (sod : Nat) (cal : Calendar) (wd : Bool) (t : Nat) (hs : sod < D)
    (ht : t + 368 * D ≤ U32) (h : nextWorkday sod cal wd t = none) :
    ∀ r', t < r' → r' / D < t / D + 367 → ¬ WorkdayMatch sod cal wd r' := by
  simp only [D_eq, U32_eq] at hs ht
  have hc0 : t - t % D + sod < U32 := by simp only [D_eq, U32_eq]; omega
  have hb : (t - t % D + sod) + 367 * D < U32 := by simp only [D_eq, U32_eq]; omega
  unfold nextWorkday at h
  simp only [w32_of_lt hc0] at h
  intro r' h1 h2 hmt
  obtain ⟨hm1, hm2⟩ := hmt
  simp only [D_eq] at hm1 h2
  have hn := scan_none _ t 367 0 _ hb h (r' / 86400 - t / 86400) (by omega)
  simp only [beq_iff_eq] at hn
  have hj : r' = t - t % D + sod + (r' / 86400 - t / 86400) * D := by simp only [D_eq]; omega
  apply hn
  refine ⟨by rw [← hj]; exact h1, ?_⟩
  have : t / D + (0 + (r' / 86400 - t / 86400)) = r' / D := by simp only [D_eq]; omega
  rw [this]; exact hm2.symm

end Tbox.C20
