/-
C20 — PROPERTY THEOREMS.  "Alarms pick the earliest matching future instant and fire once per
instant."  Statements rely on Model.lean / Spec.lean only; helper lemmas live in Proofs.lean,
ArmProofs.lean, HistProofs.lean.

Ranges: the code computes in uint32_t.  The theorems exclude (decidable hypotheses) the last
days of the uint32 epoch range where `next += kSecondsOfDay` wraps (t + 9 d ≤ 2^32 for weekly,
t + 368 d ≤ 2^32 for workday) and local times before 1970 (`InRange`); the model itself wraps
like the code (correspondence-checked over the whole range).
Cron: CronAlarm delegates to the third-party ccronexpr.  Part 5 proves that the independent reference
`Cron.nextCron` returns the declaratively earliest matching instant; Part 6 is about the TRANSCRIPTION of
ccronexpr itself (CCron.lean: `cron_parse_expr` on the raw bytes, `cron_next`/`do_next` over struct tm + timegm):
every accepted expression has non-empty field sets, and every instant `cron_next` returns matches the expression.
-/
import TboxModel.C20.HistProofs
import TboxModel.C20.WProofs
import TboxModel.C20.CronProofs
import TboxModel.C20.CCronProofs
import TboxModel.C20.CCronFwd
import TboxModel.C20.CCronMin
import TboxModel.C20.CCronFuel
import TboxModel.C20.Reads
namespace Tbox.C20

/-! ### Part 1 — the next-instant computations -/

/-- **weekly**: for every t, seconds-of-day < 86400 and every mask with at least one of the
seven day bits, the result exists, is strictly after t, has the time of day `sod`, falls on a
day of the mask, and no instant in between does. -/
theorem C20_weekly_earliest (sod mask t : Nat) (hs : sod < D) (hm : ∃ w, w < 7 ∧ bit mask w = true)
    (ht : t + 9 * D ≤ U32) :
    ∃ r, nextWeekly sod mask t = some r ∧ Earliest (WeeklyMatch sod mask) t r :=
  weekly_earliest sod mask t hs hm ht

/-- an empty mask has no next instant: the computation reports failure (enable() returns false) -/
theorem C20_weekly_empty_mask (sod mask t : Nat) (hm : ∀ w, w < 7 → bit mask w = false) :
    nextWeekly sod mask t = none :=
  weekly_empty sod mask t hm

/-- **one-shot**: today at `sod` if still ahead, otherwise tomorrow — the earliest instant
strictly after t with that time of day. -/
theorem C20_oneshot_earliest (sod t : Nat) (hs : sod < D) (ht : t + 2 * D ≤ U32) :
    Earliest (OneshotMatch sod) t (nextOneshot sod t) :=
  oneshot_earliest sod t hs ht

/-- **workday**: if the calendar has a matching instant whose day is among the 367 days the
code scans (today … today + 366), the result is the earliest matching instant after t. -/
theorem C20_workday_earliest (sod : Nat) (cal : Calendar) (wd : Bool) (t : Nat) (hs : sod < D)
    (ht : t + 368 * D ≤ U32)
    (hex : ∃ r', t < r' ∧ r' / D < t / D + 367 ∧ WorkdayMatch sod cal wd r') :
    ∃ r, nextWorkday sod cal wd t = some r ∧ Earliest (WorkdayMatch sod cal wd) t r := by
  cases h : nextWorkday sod cal wd t with
  | none =>
    obtain ⟨r', h1, h2, h3⟩ := hex
    exact absurd h3 (workday_none sod cal wd t hs ht h r' h1 h2)
  | some r => exact ⟨r, rfl, (workday_some sod cal wd t r hs ht h).1⟩

/-- and when it reports failure there is no matching instant on any scanned day -/
theorem C20_workday_none (sod : Nat) (cal : Calendar) (wd : Bool) (t : Nat) (hs : sod < D)
    (ht : t + 368 * D ≤ U32) (h : nextWorkday sod cal wd t = none) :
    ∀ r', t < r' → r' / D < t / D + 367 → ¬ WorkdayMatch sod cal wd r' :=
  workday_none sod cal wd t hs ht h

-- OPEN (false of the code as it is): `C20_workday_earliest` without the 367-day bound `hex`.
/-- beyond the scan the computation gives up although a matching instant exists: every day a
holiday except day 367 — the alarm reports "no next instant" (enable() fails). -/
theorem C20_workday_beyond_scan_counterexample :
    ∃ (cal : Calendar) (t r' : Nat), t + 368 * D ≤ U32 ∧ t < r' ∧ WorkdayMatch 0 cal true r' ∧
      nextWorkday 0 cal true t = none := by
  refine ⟨{ weekMask := 0, special := [(367, true)] }, 0, 367 * 86400, by decide, by decide, ⟨by decide, by decide⟩, ?_⟩
  unfold nextWorkday
  apply scan_false_bounded
  intro j hj
  have : (j == 367) = false := by simp; omega
  simp [Calendar.isWorkday, List.lookup, bit, this]

/-! ### Part 2 — arming -/

/-- **time zone**: with offset `off` (explicit, or 0 when none was set) a successful arm computes
the EARLIEST matching local instant `nl` strictly after the local start `base + off`, where
`base = max(now, pending target, last served instant)`; it stores the UTC target `nl − off`, and
that target is strictly after the current UTC second, the previous target and the last served instant. -/
theorem C20_tz (a : Alarm) (e : Env) (hs : a.sod < D) (hr : InRange (a.base e) a.offset) (hf : FarOk a e)
    (hok : (activeTimer a e).2 = true) :
    ∃ nl, Earliest (Matches a e.cal) (addOff (a.base e) a.offset) nl ∧
      (((activeTimer a e).1.target : Nat) : Int) + a.offset = nl ∧
      e.sec < (activeTimer a e).1.target ∧ a.target < (activeTimer a e).1.target ∧
      a.lastServed < (activeTimer a e).1.target ∧
      (addOff (a.base e) a.offset : Int) = (a.base e : Nat) + a.offset := by
  obtain ⟨nl, T, d, _, heq, h1, h2, _, h4⟩ := activeTimer_spec a e hs hr hf hok
  obtain ⟨g1, g2, g3⟩ := base_ge a e
  refine ⟨nl, h4, by rw [heq]; exact h1, by rw [heq]; simp only [armed_target]; omega, by rw [heq]; simp only [armed_target]; omega,
    by rw [heq]; simp only [armed_target]; omega, ?_⟩
  obtain ⟨r1, r2, _⟩ := hr
  simp only [addOff, U32_eq]; omega

/-- **the wait is never short** — for EVERY distance: the armed delay `d` (milliseconds on the
monotonic clock, counted from the arming moment) is exactly the wall-clock distance to the
target measured at arming: `d = 1000·(target − now_sec) − ⌊usec/1000⌋`, i.e. wall-now(ms) + d =
target(ms).  (Holds with the 64-bit conversion of patches/C20-01.) -/
theorem C20_delay_not_short (a : Alarm) (e : Env) (hs : a.sod < D)
    (hr : InRange (a.base e) a.offset) (hf : FarOk a e) (hok : (activeTimer a e).2 = true) :
    ∃ d, (activeTimer a e).1.timer = some (e.monoMs + d) ∧
      e.sec < (activeTimer a e).1.target ∧
      d + e.ms = ((activeTimer a e).1.target - e.sec) * 1000 ∧
      (e.wallMs / 1000 < U32 → e.wallMs + d = (activeTimer a e).1.target * 1000) := by
  obtain ⟨nl, T, d, _, heq, _, h2, h3, _⟩ := activeTimer_spec a e hs hr hf hok
  obtain ⟨g1, _, _⟩ := base_ge a e
  refine ⟨d, by rw [heq]; rfl, by rw [heq]; simp only [armed_target]; omega, by rw [heq]; exact h3, ?_⟩
  intro hw
  rw [heq]; simp only [armed_target]
  have hsec : e.sec = e.wallMs / 1000 := by unfold Env.sec; exact w32_of_lt hw
  have hms : e.ms = e.wallMs % 1000 := rfl
  have : e.sec < T := by omega
  omega

-- the same statement is FALSE for the arithmetic of the unpatched tree:
/-- `remain_sec * 1000` in uint32_t: a distance of 4 294 968 s (49.7 days) is armed as 704 ms. -/
theorem C20_delay_u32_counterexample :
    delayMs32 4294968 0 = 704 ∧ 704 < 4294968 * 1000 ∧ delayMs 4294968 0 = 4294968 * 1000 := by decide

/-- **targets strictly increase** across re-arms, also on an early wake-up (monotonic clock
ahead of the wall clock: `now < target` when the timer fires): the expiry of a weekly / workday
alarm standing for instant `a.target` either re-arms for a target strictly greater than both
`a.target` and the current second, or (no further matching day) leaves the alarm idle with no
timer.  Hence never two callbacks for one instant. -/
theorem C20_targets_strictly_increase (a : Alarm) (e : Env) (hcls : a.cls ≠ .oneshot) (hcron : a.cls ≠ .cron) (hs : a.sod < D)
    (hr : InRange (max e.sec a.target) a.offset) :
    ((expire a e).1.st = .running → a.target < (expire a e).1.target ∧ e.sec < (expire a e).1.target) ∧
    ((expire a e).1.st ≠ .running → (expire a e).1.timer = none) ∧
    (expire a e).2.1 = a.target := by
  have hex : (expire a e).1 = rearm { a with timer := none, st := .inited, nFired := a.nFired + 1, lastServed := a.target } e := by
    unfold expire; cases hc : a.cls <;> simp_all
  refine ⟨?_, ?_, by rw [expire_served]⟩
  · intro hrun
    rw [hex] at hrun ⊢
    rcases rearm_cases { a with timer := none, st := .inited, nFired := a.nFired + 1, lastServed := a.target } e with ⟨hok, heq⟩ | ⟨_, heq⟩
    · rw [heq]
      have hbase : Alarm.base { a with timer := none, st := .inited, nFired := a.nFired + 1, lastServed := a.target } e
          = max e.sec a.target := by unfold Alarm.base; simp only; omega
      obtain ⟨nl, T, d, _, heq, _, h2, _, _⟩ :=
        activeTimer_spec { a with timer := none, st := .inited, nFired := a.nFired + 1, lastServed := a.target } e hs
          (by rw [hbase]; exact hr) (farOk_classic _ e hcron hs (by rw [hbase]; exact hr)) hok
      rw [heq]; rw [hbase] at h2; simp only [armed_target] at h2 ⊢; omega
    · rw [heq, (unsubscribe_fields _).1] at hrun; simp at hrun
  · intro hnr
    exact (expire_inv a e).idle hnr

/-- **disable(); enable() computes from the current time** (patches/C20-02): after disable()
the next enable() arms the earliest matching instant strictly after NOW, whatever target was
pending before (`hls`: the wall clock is not behind the last instant already served — otherwise
the base is that instant, patches/C20-07). -/
theorem C20_enable_after_disable_earliest (a : Alarm) (e : Env) (hrun : a.st = .running) (hcron : a.cls ≠ .cron) (hs : a.sod < D)
    (hls : a.lastServed ≤ e.sec)
    (hr : InRange e.sec a.offset) (hok : (enable (disable a).1 e).2 = true) :
    ∃ nl, Earliest (Matches a e.cal) (addOff e.sec a.offset) nl ∧
      (((enable (disable a).1 e).1.target : Nat) : Int) + a.offset = nl := by
  have hd : (disable a).1 = { a with subs := if a.cls = .workday then 0 else a.subs, st := .inited, timer := none, target := 0 } := by
    unfold disable; simp [hrun]
  rw [hd] at hok ⊢
  unfold enable at hok ⊢
  simp only [if_true] at hok ⊢
  generalize hb : subscribe { a with subs := if a.cls = .workday then 0 else a.subs, st := .inited, timer := none, target := 0 } = b at hok ⊢
  have hb' : b.cls = a.cls ∧ b.sod = a.sod ∧ b.mask = a.mask ∧ b.wd = a.wd ∧ b.target = 0 ∧ b.offset = a.offset ∧
      b.lastServed = a.lastServed ∧ b.expr = a.expr := by
    rw [← hb]; unfold subscribe Alarm.offset; split <;> simp
  obtain ⟨b1, b2, b3, b4, b5, b6, b7, b8⟩ := hb'
  have hok' : (activeTimer b e).2 = true := by
    cases h : (activeTimer b e).2 with
    | true => rfl
    | false => simp [h] at hok
  have hmax : b.base e = e.sec := by unfold Alarm.base; rw [b5, b7]; omega
  have hr' : InRange (b.base e) b.offset := by rw [hmax, b6]; exact hr
  obtain ⟨nl, he, ht, _, _, _, _⟩ := C20_tz b e (by rw [b2]; exact hs) hr' (farOk_classic b e (by rw [b1]; exact hcron) (by rw [b2]; exact hs) hr') hok'
  refine ⟨nl, ?_, ?_⟩
  · rw [hmax, b6] at he
    unfold Earliest Matches at he ⊢
    rw [b1, b2, b3, b4, b8] at he
    exact he
  · simp only [hok', if_true, bump]
    rw [← b6]; exact ht

-- the property is FALSE of the unpatched tree, whose disable() keeps target_utc_sec_:
/-- an alarm left "inited" with a stale pending target (what the unpatched disable() leaves
behind): daily 10:00 alarm, now 02:00, stale target 10:00 today — enable() arms 10:00 TOMORROW
although 10:00 today matches and is in the future. -/
theorem C20_stale_target_counterexample :
    let a : Alarm := { cls := .weekly, sod := 36000, mask := 127, st := .inited, tzSet := true, off := 0,
                       target := 1699956000 }
    let e : Env := { wallMs := 1699927200000, monoMs := 0 }
    (enable a e).1.target = 1700042400 ∧ e.sec < 1699956000 ∧ 1699956000 < 1700042400 ∧
      1699956000 % D = a.sod ∧ bit a.mask (weekday 1699956000) = true := by decide

/-! ### Part 3 — histories: enable / disable / refresh / cleanup / calendar updates / passes,
with arbitrary clocks at every step (skew and wall-clock adjustments included) -/

/-- **a one-shot alarm fires at most once per enable()**: over any history of a one-shot alarm
the number of callbacks is at most the number of enable() calls. -/
theorem C20_oneshot_once (hist : List (Env × AOp)) :
    (arun (fresh .oneshot) hist).2.length ≤ countEnable hist := by
  have h := arun_oneshot hist (fresh .oneshot) rfl (fresh_inv _) (by unfold Inv2 fresh; simp)
  have h0 : (fresh .oneshot).nFired = 0 ∧ (fresh .oneshot).nEnabled = 0 := ⟨rfl, rfl⟩
  have h2 := h.2.2
  unfold Inv2 at h2
  omega

/-- and its expiry leaves it idle: no timer, not enabled, until the next enable() -/
theorem C20_oneshot_expiry_idle (a : Alarm) (e : Env) (hc : a.cls = .oneshot) :
    (expire a e).1.timer = none ∧ (expire a e).1.st = .inited := by
  unfold expire; simp [hc]

/-- **a disabled alarm never fires**: after disable(), whatever the history before and
whatever follows except enable() — clock jumps, passes at any time, refresh, calendar updates,
re-initialisation, cleanup — there is no callback. -/
theorem C20_disabled_never_fires (c : Cls) (hist1 hist2 : List (Env × AOp))
    (hne : ∀ p ∈ hist2, isEnable p.2 = false) :
    (arun (disable (arun (fresh c) hist1).1).1 hist2).2 = [] := by
  have h1 := (arun_inv hist1 (fresh c) (fresh_inv c)).1
  have hd := disable_inv _ h1
  exact (arun_idle hist2 _ hd.1 hd.2 hne).1

/-- every callback ever made finds the alarm enabled (isEnabled() was true when the timer
expired): in every reachable state the loop timer is armed iff the alarm is enabled. -/
theorem C20_fired_was_enabled (c : Cls) (hist : List (Env × AOp)) :
    (∀ f ∈ (arun (fresh c) hist).2, f.wasRunning = true) ∧ Inv (arun (fresh c) hist).1 :=
  ⟨(arun_inv hist (fresh c) (fresh_inv c)).2, (arun_inv hist (fresh c) (fresh_inv c)).1⟩

/-! ### Part 4 — worlds: several alarms, callbacks that call the API, calendar watch list, destruction.
Every theorem quantifies over EVERY execution `wExec wInit sts = some w`: any API calls outside
callbacks, any clock changes, any callback scripts (refresh / disable / enable / cleanup / initialize with
another specification / setTimezone of any alarm incl. the one whose callback runs, destruction of other
alarms — also ones due in the same pass —, calendar updates), and any order in which the
loop serves several due timers (`fire j` is enabled for every due timer of minimal deadline). -/

/-- **no dangling watch-list entry** (patches/C20-03): every entry of the calendar's watch list is a
living alarm, so a calendar update never calls refresh() on a destroyed one — also when the alarm was
destroyed while enabled, after a failed enable(), or from inside another alarm's callback. -/
theorem C20_watch_alive (sts : List WStep) (w : World) (he : wExec wInit sts = some w) :
    (∀ j, j ∈ w.watch → (w.get j).isSome = true) ∧ ∀ cal, (wCalUpdate w cal).2 = false :=
  have h := wExec_inv sts wInit w wInit_inv he
  ⟨fun j hj => by obtain ⟨a, ha, _⟩ := h.watch j hj; rw [ha]; rfl, fun cal => (wCalUpdate_inv w cal h).2⟩

-- the same is FALSE of the tree without patches/C20-03 (~Alarm() cannot reach WorkdayAlarm::onDisable()):
/-- enabled workday alarm destroyed the unpatched way: its entry stays in the watch list, the slot is
gone, and the next calendar update dereferences it (the use-after-free ASan reports on the real code). -/
theorem C20_destroy_unpatched_counterexample :
    (wExec wInit [.op (.new 0 .workday []), .op (.init 0 100 [] true), .op (.enable 0)]).map
      (fun w => ((wDestroyUnpatched w 0).watch, ((wDestroyUnpatched w 0).get 0).isSome,
                 (wCalUpdate (wDestroyUnpatched w 0) {}).2, (wCalUpdate (wDestroy w 0) {}).2))
      = some ([0], false, true, false) := by decide

/-- **every callback finds its alarm enabled**, in every world execution (a timer that was disabled,
cleaned up or destroyed — by the user or by another callback of the same pass — is not served). -/
theorem C20_world_callbacks_enabled (sts : List WStep) (w : World) (he : wExec wInit sts = some w) :
    ∀ ev, ev ∈ w.log → ev.wasRunning = true :=
  fun ev h => ((wExec_inv sts wInit w wInit_inv he).log ev h).1

/-- **once per instant** — full strength, every world execution: callbacks calling refresh() /
disable() / enable() on any alarm, early wake-ups (monotonic clock ahead of the wall clock), wall-clock
adjustments either way, cleanup / re-initialisation, calendar updates, destruction of other alarms.
The instant a callback stands for is strictly later than the instant the same alarm served before.
(`ev.inRange`: no arm of this alarm ever left the no-wrap range `InRange` — the end of the uint32 epoch
range, as in every arming theorem above.)  Holds because of patches/C20-07: the last served instant is
part of the base of every search. -/
theorem C20_once_per_instant (sts : List WStep) (w : World) (he : wExec wInit sts = some w) :
    ∀ ev, ev ∈ w.log → ev.inRange = true → ev.prev < ev.instant :=
  fun ev h => ((wExec_inv sts wInit w wInit_inv he).log ev h).2

/-- … and in every reachable world an enabled alarm is armed for an instant strictly after the last
one it served (the extension of `C20_targets_strictly_increase` to scripted histories) -/
theorem C20_world_targets_increase (sts : List WStep) (w : World) (he : wExec wInit sts = some w)
    (j : Nat) (a : Alarm) (hg : w.get j = some a) (hr : a.st = .running) (h2 : a.wrapped = false) :
    a.lastServed < a.target :=
  ((wExec_inv sts wInit w wInit_inv he).alarms j a hg).k hr h2

/-- the history that used to serve one instant twice: monotonic clock 5 ms ahead, the callback calls
refresh() on its own alarm.  The timer fires at 00:01:39.995 for 00:01:40 (86400100); refresh() now
starts from the served instant and arms the next day; 5 ms later nothing is due. -/
theorem C20_refresh_in_early_callback_fixed :
    let pre : List WStep := [.op (.new 0 .weekly [.refresh 0]), .op (.init 0 100 [true, true, true, true, true, true, true] true),
                  .op (.tz 0 0), .op (.wall 86400000000), .op (.enable 0), .op (.mono 5), .op (.adv 99995), .fire 0, .op (.adv 5)]
    (wExec wInit pre).map (fun w => (w.log.map (·.instant), (w.get 0).map (·.target), canFire w 0, anyDue w))
      = some ([86400100], some 86486500, false, false) := by decide

-- the AS-FOUND code (before patches/C20-07) violates the statement:
/-- inside that refresh() the as-found base is max(now, target = 0) = 00:01:39: the search returns
00:01:40 — the instant that has just been served — and arms it again (replayed on the real code by
corpus/C20/06: two callbacks for one instant); the patched base returns the next day. -/
theorem C20_refresh_in_early_callback_counterexample :
    let a : Alarm := { cls := .weekly, sod := 100, mask := 127, st := .inited, tzSet := true, off := 0,
                       target := 0, lastServed := 86400100 }
    let e : Env := { wallMs := 86400099995, monoMs := 100000 }
    calcNext a e.cal (addOff (a.baseAsFound e) a.offset) = some a.lastServed ∧
    calcNext a e.cal (addOff (a.base e) a.offset) = some 86486500 := by decide

/-- **never after disable / cleanup / destruction, also from inside callbacks**: in every reachable world
the loop cannot serve an alarm that is not enabled (its timer is gone the moment disable(), cleanup(),
a failing re-arm or a one-shot expiry made it idle — whoever called them, the user or a callback of the
same pass), nor a slot whose alarm was destroyed. -/
theorem C20_world_idle_not_served (sts : List WStep) (w : World) (he : wExec wInit sts = some w) (j : Nat) :
    (w.get j = none → canFire w j = false) ∧
    (∀ a, w.get j = some a → a.st ≠ .running → canFire w j = false) := by
  have h := wExec_inv sts wInit w wInit_inv he
  refine ⟨fun hn => by unfold canFire; rw [hn], ?_⟩
  intro a hg hst
  have ht := (h.alarms j a hg).inv.idle hst
  unfold canFire; rw [hg]; simp only [ht]

/-- **a wall-clock step between arming and firing is not seen by the armed timer**: whether the loop may
serve an alarm depends on the monotonic clock only, and the instant the expiry stands for is the target
fixed at arming — whatever the wall clock says now (the delay was fixed at arming, `C20_delay_not_short`;
only refresh() / disable()+enable() re-base on the new wall time, `C20_refresh_rebases_on_now`). -/
theorem C20_wall_step_not_seen_until_refresh (w : World) (j v : Nat) (a : Alarm) (e e' : Env) :
    canFire { w with wallMs := v } j = canFire w j ∧ (expire a e).2.1 = a.target ∧ (expire a e').2.1 = a.target :=
  ⟨rfl, by rw [expire_served], by rw [expire_served]⟩

/-- **refresh() re-bases on the current wall time**: for a running alarm (the wall clock not behind the
last served instant) refresh() arms the earliest matching local instant strictly after NOW — however
the wall clock was stepped since the alarm was armed. -/
theorem C20_refresh_rebases_on_now (a : Alarm) (e : Env) (hrun : a.st = .running) (hs : a.sod < D)
    (hls : a.lastServed ≤ e.sec) (hr : InRange e.sec a.offset)
    (hf : FarOk { a with st := .inited, timer := none, target := 0 } e)
    (hok : (refresh a e).st = .running) :
    ∃ nl, Earliest (Matches a e.cal) (addOff e.sec a.offset) nl ∧ (((refresh a e).target : Nat) : Int) + a.offset = nl := by
  have hb : Alarm.base { a with st := .inited, timer := none, target := 0 } e = e.sec := by
    unfold Alarm.base; simp only; omega
  have href0 : refresh a e = rearm { a with st := .inited, timer := none, target := 0 } e := by
    unfold refresh; simp [hrun]
  have hok' : (activeTimer { a with st := .inited, timer := none, target := 0 } e).2 = true := by
    rcases rearm_cases { a with st := .inited, timer := none, target := 0 } e with ⟨h1, _⟩ | ⟨_, h2⟩
    · exact h1
    · rw [href0, h2, (unsubscribe_fields _).1] at hok; simp at hok
  have href : refresh a e = (activeTimer { a with st := .inited, timer := none, target := 0 } e).1 := by
    rcases rearm_cases { a with st := .inited, timer := none, target := 0 } e with ⟨_, h2⟩ | ⟨h1, _⟩
    · rw [href0, h2]
    · rw [hok'] at h1; cases h1
  rw [href] at hok ⊢
  obtain ⟨nl, h1, h2, _⟩ := C20_tz { a with st := .inited, timer := none, target := 0 } e hs (by rw [hb]; exact hr) hf hok'
  rw [hb] at h1
  exact ⟨nl, h1, h2⟩

/-- **no next instant ⇒ idle, not armed for a fake instant**: when the computation reports failure at an
expiry (workday calendar with all days off, cron expression beyond ccronexpr's year horizon — patches/C20-08)
the alarm is left initialised and idle with no timer; it neither spins nor claims a next instant. -/
theorem C20_expiry_without_next_instant_goes_idle (a : Alarm) (e : Env)
    (hn : calcNext a e.cal (addOff (max e.sec a.target) a.offset) = none) (hcls : a.cls ≠ .oneshot) :
    (expire a e).1.st = .inited ∧ (expire a e).1.timer = none := by
  have hbase : Alarm.base { a with timer := none, st := .inited, nFired := a.nFired + 1, lastServed := a.target } e
      = max e.sec a.target := by unfold Alarm.base; simp only; omega
  have hex : (expire a e).1 = rearm { a with timer := none, st := .inited, nFired := a.nFired + 1, lastServed := a.target } e := by
    unfold expire; cases hc : a.cls <;> simp_all
  have hnone := activeTimer_of_none { a with timer := none, st := .inited, nFired := a.nFired + 1, lastServed := a.target } e (by rw [hbase]; exact hn)
  rcases rearm_cases { a with timer := none, st := .inited, nFired := a.nFired + 1, lastServed := a.target } e with ⟨h1, _⟩ | ⟨_, h2⟩
  · rw [hnone] at h1; cases h1
  · rw [hex, h2, (unsubscribe_fields _).1, (unsubscribe_fields _).2.1]
    exact ⟨rfl, rfl⟩

/-- **a rejected re-initialisation changes nothing** (patches/C20-10): CronAlarm::initialize with an
expression the parser rejects leaves the stored expression, the state and everything else as they were. -/
theorem C20_cron_reinit_rejected_keeps_expression (a : Alarm) : initCron a none = (a, false) := by
  unfold initCron
  by_cases h1 : a.cls ≠ .cron
  · simp [h1]
  · by_cases h2 : a.st = .running <;> simp [h1, h2]

/-! ### Part 5 — cron (reference semantics; ccronexpr itself is tied by correspondence only) -/

/-- whenever the reference (ccronexpr's search order and year horizon included) returns an instant, it is
the EARLIEST instant after t that lies on a day the expression allows (month AND day-of-month AND
weekday, as ccronexpr combines them) at an allowed time of day — for every expression, t and scan bound. -/
theorem C20_cron_earliest (e : Cron.Expr) (t H r : Nat) (h : Cron.nextCron e t H = some r) :
    Earliest (Cron.CronMatch e) t r :=
  Cron.nextCron_some e t H r h

/-- when the reference finds nothing, the day search did not end on a day (or the time-of-day set is
empty — impossible for a parsed expression) … -/
theorem C20_cron_none (e : Cron.Expr) (t H : Nat) (h : Cron.nextCron e t H = none) :
    Cron.leastFrom (Cron.timeOk e) 0 86400 = none ∨ ∀ d, Cron.nextCronDay e t H ≠ .found d :=
  Cron.nextCron_none e t H h

/-- … and when the day search gave up at ccronexpr's year horizon (`tm_year - dot > 4` at a jump to the
next allowed month) it reports the landing day `L`: its calendar year exceeds dot + 4 and NO instant
after t before day `L` matches — so "none" never hides a match that lies before the horizon. -/
theorem C20_cron_horizon (e : Cron.Expr) (t H L : Nat) (h : Cron.nextCronDay e t H = .beyond L) :
    Cron.yearOf L > Cron.cronDot e t + 4 ∧ ∀ r', t < r' → r' / 86400 < L → ¬ Cron.CronMatch e r' :=
  Cron.nextCron_beyond e t H L h

/-! ### Part 6 — the third-party evaluator ccronexpr itself (CCron.lean: a transcription of `cron_parse_expr` on the
raw bytes of the expression and of `cron_next` / `do_next` / `find_next` / `find_next_day` over `struct tm` + `timegm`),
tied to the real code on every run: bit sets as `M` lines, acceptance and next instants as `P` lines -/

/-- **every expression `cron_parse_expr` accepts has non-empty second, minute, hour and month sets** — whatever the
bytes of the string (names, `?`, hexadecimal / octal numbers, white space …).  (With an empty set `find_next` reports
its `notfound` value 0 as "unchanged" and `do_next` would return a calendar that does not match.) -/
theorem C20_cparse_nonempty (s : List Char) (e : CC.CExpr) (h : CC.parseExpr s = some e) : CC.WF e :=
  CC.parseExpr_wf s e h

/-- **`cron_next` is sound (fields)**: for every string the parser accepts, every start instant `t` and every fuel, an
instant returned by the transcription of `cron_next` lies on a day whose month, day of month AND weekday are allowed,
at an allowed hour, minute and second — it satisfies the declarative `Cron.CronMatch` of the expression it stands for. -/
theorem C20_cnext_matches (s : List Char) (e : CC.CExpr) (t fuel r : Nat) (hp : CC.parseExpr s = some e)
    (h : CC.cronNext e t fuel = some r) : Cron.CronMatch e.toExpr r :=
  CC.cronNext_match e (CC.parseExpr_wf s e hp) t fuel r h

/-- `do_next` alone: success ⇒ normalised calendar with every field allowed, from ANY normalised start calendar, any `dot` -/
theorem C20_cdo_next_sound (e : CC.CExpr) (hw : CC.WF e) (dot fuel : Nat) (c c' : CC.Tm) (hn : CC.Norm c)
    (h : CC.doNext e dot fuel c = some c') : CC.Norm c' ∧ CC.MatchTm e c' :=
  CC.doNext_sound e hw dot fuel c c' hn h

/-- **`cron_next` returns an instant strictly after `t`**: every step of `do_next` (find_next with its roll-over and
reset-lower-fields logic for seconds, minutes, hours and months; the day loop) moves the calendar forward or leaves it,
and `cron_next` restarts one second later when it arrives at the original instant. -/
theorem C20_cnext_after (s : List Char) (e : CC.CExpr) (t fuel r : Nat) (hp : CC.parseExpr s = some e)
    (h : CC.cronNext e t fuel = some r) : t < r :=
  CC.cronNext_after e (CC.parseExpr_wf s e hp) t fuel r h

/-- **soundness of the transcribed `cron_next`** for every accepted expression string, every t and fuel: the result is
strictly after t and matches every field. -/
theorem C20_cnext_sound (s : List Char) (e : CC.CExpr) (t fuel r : Nat) (hp : CC.parseExpr s = some e)
    (h : CC.cronNext e t fuel = some r) : t < r ∧ Cron.CronMatch e.toExpr r :=
  ⟨C20_cnext_after s e t fuel r hp h, C20_cnext_matches s e t fuel r hp h⟩

/-- `do_next` never moves backwards, from any normalised calendar -/
theorem C20_cdo_next_forward (e : CC.CExpr) (hw : CC.WF e) (dot fuel : Nat) (c c' : CC.Tm) (hn : CC.Norm c)
    (h : CC.doNext e dot fuel c = some c') : CC.timegm c ≤ CC.timegm c' :=
  CC.doNext_forward e hw dot fuel c c' hn h

/-- **`do_next` skips no matching instant**: from any normalised calendar `gmtime T`, any `dot` and fuel, when the transcribed
`do_next` reports success no instant in [T, result) has all six fields allowed — every `find_next` jumps to the least allowed
value ≥ the current one of its field and resets exactly the lower fields to their least values; the day loop passes only days
whose day of month or weekday is excluded; the month roll-over stays inside the following year (month lengths of CalLaws). -/
theorem C20_cdo_next_skips_nothing (e : CC.CExpr) (hw : CC.WF e) (dot fuel T : Nat) (c' : CC.Tm)
    (h : CC.doNext e dot fuel (CC.gmtime T) = some c') : ∀ r, T ≤ r → r < CC.timegm c' → ¬ CC.MatchTm e (CC.gmtime r) :=
  CC.doNext_skip e hw dot fuel T c' h

-- OPEN: `C20_cnext_earliest` — CC.cronNext e t fuel = Cron.nextCron e.toExpr t H for all sufficiently large fuel / H.
--   PROVED below: whenever the transcription returns an instant it is THE earliest match (hypothesis: it returns one — decidable);
--   (a) FUEL SUFFICIENCY IS CLOSED (CCronFuel.lean): more fuel never changes an answer (`C20_cnext_more_fuel_same_answer`), a
--   stable fuel exists for every expression and t (`C20_cnext_fuel_stable`), and with an explicit bound: whenever any instant
--   M > t matches, every fuel > M − t gives the same answer and a `none` there is a `none` at every fuel — the horizon test, not
--   the fuel (`C20_cnext_fuel_sufficient`, `C20_cnext_none_is_horizon`); hence `C20_cnext_earliest_upto_horizon`: when the
--   reference answers r2, the transcription with fuel > r2 − t answers r2 too, or its horizon test fired.
--   STILL MISSING for the full equality, precisely: (b) horizon exactness — the test `tm_year − dot > 4` at a month change fires
--   iff the reference's `yearOf l > cronDot e t + 4` at its month jump (needs: the landing day of `findNext months` is the
--   reference's `leastFrom monP (d+1) 400`), i.e. the second alternative of `C20_cnext_earliest_upto_horizon` is impossible.
--   The driver compares the two answers on every generated case.
/-- **minimality of the transcribed `cron_next`** (partial: given that it returns an instant): for every string the parser
accepts, every t and every fuel, the instant returned is strictly after t, matches all six fields, and NO instant strictly
between t and it matches — it is the declaratively earliest match, the same notion the weekly / workday theorems use. -/
theorem C20_cnext_earliest_partial (s : List Char) (e : CC.CExpr) (t fuel r : Nat) (hp : CC.parseExpr s = some e)
    (h : CC.cronNext e t fuel = some r) : Earliest (Cron.CronMatch e.toExpr) t r :=
  CC.cronNext_earliest e (CC.parseExpr_wf s e hp) t fuel r h

/-- … hence transcription and reference can never return different instants: when both answer, the answers are equal
(for every fuel and every scan bound of the reference) -/
theorem C20_cnext_agrees_with_reference (s : List Char) (e : CC.CExpr) (t fuel H r r2 : Nat) (hp : CC.parseExpr s = some e)
    (h : CC.cronNext e t fuel = some r) (h2 : Cron.nextCron e.toExpr t H = some r2) : r = r2 :=
  CC.cronNext_eq_reference_of_some e (CC.parseExpr_wf s e hp) t fuel H r r2 h h2

/-- the full equality is false for small fuel (the model's own recursion bound; the C recursion has none): "* * * * * *" at t = 0 -/
theorem C20_cnext_fuel_counterexample :
    (CC.parseExpr "* * * * * *".toList).map (fun e => (CC.cronNext e 0 0, CC.cronNext e 0 1, Cron.nextCron e.toExpr 0 4000))
      = some (none, some 1, some 1) := by decide +kernel

/-- **more fuel never changes an answer** of the transcribed `cron_next` (every expression value, every t): the recursion
bound of the model can only turn an answer into "none", never into a different instant -/
theorem C20_cnext_more_fuel_same_answer (e : CC.CExpr) (t fuel fuel' r : Nat) (hle : fuel ≤ fuel')
    (h : CC.cronNext e t fuel = some r) : CC.cronNext e t fuel' = some r :=
  CC.cronNext_mono e t fuel fuel' r hle h

/-- **fuel sufficiency (existence)**: for every expression value and every t there is a fuel from which on the answer of the
transcribed `cron_next` is constant — also when nothing ever matches ("0 0 0 30 2 *") -/
theorem C20_cnext_fuel_stable (e : CC.CExpr) (t : Nat) :
    ∃ fuel0, ∀ fuel, fuel0 ≤ fuel → CC.cronNext e t fuel = CC.cronNext e t fuel0 :=
  CC.cronNext_stable e t

/-- **fuel sufficiency (explicit bound)**: for every accepted string, if ANY instant M > t matches the expression then
`do_next` re-enters itself at most M − t times (each re-entry is on a strictly later calendar and no block passes a
matching instant): every fuel > M − t gives the answer of fuel M − t + 1 -/
theorem C20_cnext_fuel_sufficient (s : List Char) (e : CC.CExpr) (t M fuel : Nat) (hp : CC.parseExpr s = some e)
    (hM : Cron.CronMatch e.toExpr M) (htM : t < M) (hf : M - t < fuel) :
    CC.cronNext e t fuel = CC.cronNext e t (M - t + 1) :=
  CC.cronNext_fuel_enough e (CC.parseExpr_wf s e hp) t M (M - t + 1) fuel (CC.cronMatch_matchTm e M hM) htM (by omega) (by omega)

/-- … and a "none" at such a fuel is the YEAR HORIZON (`tm_year − dot > 4` in the month block — the only other way `do_next`
fails), never the model's recursion bound: the transcription then answers "none" at every fuel -/
theorem C20_cnext_none_is_horizon (s : List Char) (e : CC.CExpr) (t M fuel : Nat) (hp : CC.parseExpr s = some e)
    (hM : Cron.CronMatch e.toExpr M) (htM : t < M) (hf : M - t < fuel) (h : CC.cronNext e t fuel = none) :
    ∀ f, CC.cronNext e t f = none :=
  CC.cronNext_none_is_horizon e (CC.parseExpr_wf s e hp) t M fuel (CC.cronMatch_matchTm e M hM) htM hf h

/-- **transcription = reference up to the horizon test** (lemma (a) closed, lemma (b) isolated): whenever the reference
search answers r2, the transcribed `cron_next` with ANY fuel > r2 − t answers r2 as well — unless its horizon test fired,
in which case it answers "none" at every fuel -/
theorem C20_cnext_earliest_upto_horizon (s : List Char) (e : CC.CExpr) (t H r2 fuel : Nat) (hp : CC.parseExpr s = some e)
    (h2 : Cron.nextCron e.toExpr t H = some r2) (hf : r2 - t < fuel) :
    CC.cronNext e t fuel = some r2 ∨ ∀ f, CC.cronNext e t f = none := by
  obtain ⟨a1, a2, _⟩ := Cron.nextCron_some e.toExpr t H r2 h2
  cases hc : CC.cronNext e t fuel with
  | some r => exact Or.inl (by rw [C20_cnext_agrees_with_reference s e t fuel H r r2 hp hc h2])
  | none => exact Or.inr (C20_cnext_none_is_horizon s e t r2 fuel hp a2 a1 hf hc)

/-- the hypotheses are satisfiable and the first alternative is the one observed: "0 0 12 * * *" from 11:59:50 on day 0 — the
reference answers 43200, the bound asks for fuel > 10, and at fuel 11 (as at fuel 300) the transcription answers 43200 -/
example : (CC.parseExpr "0 0 12 * * *".toList).map
      (fun e => (Cron.nextCron e.toExpr 43190 4000, decide (43200 - 43190 < 11), CC.cronNext e 43190 11, CC.cronNext e 43190 300))
    = some (some 43200, true, some 43200, some 43200) := by decide +kernel
/-- the hypothesis of the partial theorem is satisfiable: a sparse expression whose next instant lies four calendar years ahead -/
example : (CC.parseExpr "0 0 0 29 2 *".toList).map (fun e => CC.cronNext e 1709164800 300) = some (some 1835395200) := by decide +kernel

/-- the parser on concrete strings: month / day names in any case, `?`, hexadecimal and octal numbers (strtol base 0),
Sunday as 7, a tab inside a field is dropped; rejected: five fields, a name that is none, `08` (octal), 256 characters -/
example : CC.parseExpr "*/15 0x10 010 ? JAN-mar,DEC sun,7".toList
    = some { seconds := 35185445863425, minutes := 65536, hours := 256, dow := 1, dom := 4294967294, months := 2055 } := by decide
example : CC.parseExpr "0 0 1\t2 * * 1-5".toList = some { seconds := 1, minutes := 1, hours := 4096, dow := 62, dom := 4294967294, months := 4095 } := by decide
example : CC.parseExpr "* * * * *".toList = none ∧ CC.parseExpr "0 0 0 * JANU *".toList = none ∧ CC.parseExpr "08 * * * * *".toList = none := by decide
/-- "0 0 0 29 2 *" from 2024-02-29 00:00:00: the next Feb 29 (2028) is found, from 2096 it is not (2104 lies beyond the horizon) -/
example : (CC.parseExpr "0 0 0 29 2 *".toList).map (fun e => (CC.cronNext e 1709164800 300, CC.cronNext e 3981398400 300))
    = some (some 1835395200, none) := by decide +kernel

/-! ### Part 7 — widths and the ends of the 32-bit range (tools/narrowing/C20.txt) -/

/-- `utc_sec = utc_tv.tv_sec` (alarm.cpp:38/50, time_t → uint32_t): the alarm sees the wall second modulo 2^32 — exact
up to 2106-02-07 06:28:15, nothing special at 2^31 (2038), and from 2^32 on the second count starts again at 0 -/
theorem C20_tv_sec_width (e : Env) :
    e.sec = e.wallMs / 1000 % 4294967296 ∧ (e.wallMs / 1000 < 4294967296 → e.sec = e.wallMs / 1000) ∧
    ({ wallMs := 2147483648000, monoMs := 0 } : Env).sec = 2147483648 ∧
    ({ wallMs := 4294967296000, monoMs := 0 } : Env).sec = 0 :=
  ⟨rfl, fun h => Nat.mod_eq_of_lt h, by decide, by decide⟩

/-- `remainSeconds()` is `target_utc_sec_ - curr_utc_sec` in uint32_t (alarm.cpp:161): exact while the target is ahead,
and 2^32 − lateness when the wall clock has passed the target of a running alarm (a late pass, a forward jump) -/
theorem C20_remain_seconds_width (a : Alarm) (e : Env) (hr : a.st = .running) (hg : e.gtod = true) (ht : a.target < U32) (hs : e.sec < U32) :
    (e.sec ≤ a.target → remainSeconds a e = a.target - e.sec) ∧
    (a.target < e.sec → remainSeconds a e = U32 - (e.sec - a.target)) := by
  unfold remainSeconds w32
  simp only [hr, hg, and_self, if_true, U32_eq] at *
  constructor <;> intro h <;> omega

-- OPEN (false of the code as it is): the arming theorems without `InRange` — the local computation runs in uint32_t.
/-- **local time before 1970** (UTC in the first hours of the epoch, negative zone): `next_utc_start_sec + offset`
wraps to just below 2^32, and 2^32 s is neither a whole number of days nor of weeks.  One-shot alarm for 08:00 at
UTC−5, wall clock 1970-01-01 00:00:00 UTC: the instant armed is 109904 = 01:31:44 local on Jan 2, not 08:00;
the weekly alarm with the same setting cannot be enabled at all (every candidate wraps past the comparison). -/
theorem C20_local_before_1970_counterexample :
    let e : Env := { wallMs := 0, monoMs := 0 }
    let os : Alarm := { cls := .oneshot, sod := 28800, st := .inited, tzSet := true, off := -18000 }
    let wk : Alarm := { cls := .weekly, sod := 28800, mask := 127, st := .inited, tzSet := true, off := -18000 }
    ¬ InRange (os.base e) os.offset ∧ (activeTimer os e).1.target = 109904 ∧ (109904 - 18000) % D = 5504 ∧ 5504 ≠ os.sod ∧
    (activeTimer wk e).2 = false := by decide

/-- **the last days before 2106-02-07 06:28:16**: when the next matching instant is not representable in 32 bits the
weekly / workday scan compares against wrapped candidates and reports "no instant" (enable() fails); the one-shot
computation returns the wrapped instant and the armed delay is still the true distance (all arithmetic is modulo 2^32). -/
theorem C20_end_of_range_counterexample :
    nextWeekly 0 127 (U32 - 1) = none ∧
    nextOneshot 0 (U32 - 1) = 63104 ∧ U32 - 1 + 63105 = U32 + 63104 ∧
    (activeTimer { cls := .oneshot, sod := 0, st := .inited, tzSet := true, off := 0 } { wallMs := (U32 - 1) * 1000, monoMs := 0 }).1.timer
      = some 63105000 := by
  refine ⟨by decide, by decide, by decide, by decide⟩

/-- `initialize(seconds_of_day, …)` rejects every value outside [0, 86400) — the whole `int` range — and leaves the
alarm as it was -/
theorem C20_init_rejects_out_of_range (a : Alarm) (sod : Int) (mask : List Bool) (wd : Bool) (h : sod < 0 ∨ sod ≥ 86400) :
    initAlarm a sod mask wd = (a, false) := by
  unfold initAlarm initClassic
  by_cases h1 : a.cls = .cron
  · simp [h1]
  · by_cases h2 : a.st = .running <;> simp [h1, h2, h]

/-- the weekly mask string: exactly seven characters, bit i set iff character i is '1' (anything else counts as '0') -/
theorem C20_week_mask_string (a : Alarm) (sod : Int) (mask : List Bool) (hc : a.cls = .weekly) (hr : a.st ≠ .running)
    (hs : 0 ≤ sod ∧ sod < 86400) :
    (mask.length ≠ 7 → initAlarm a sod mask true = (a, false)) ∧
    (mask.length = 7 → (initAlarm a sod mask true).2 = true ∧ ∀ i, i < 7 → bit (initAlarm a sod mask true).1.mask i = mask.getD i false) := by
  have h0 : ¬ (sod < 0 ∨ sod ≥ 86400) := by omega
  refine ⟨fun hl => ?_, fun hl => ?_⟩
  · unfold initAlarm initClassic; simp [hc, hr, h0, hl]
  · have hfold : ∀ b0 b1 b2 b3 b4 b5 b6 : Bool, ∀ i, i < 7 →
        bit (([b0, b1, b2, b3, b4, b5, b6].zipIdx.filter (·.1)).foldl (fun acc p => acc ||| (1 <<< p.2)) 0) i
          = [b0, b1, b2, b3, b4, b5, b6].getD i false := by decide
    match mask, hl with
    | [b0, b1, b2, b3, b4, b5, b6], _ =>
      unfold initAlarm initClassic
      simp only [hc, hr, h0, reduceCtorEq, if_false, true_and, List.length_cons, List.length_nil, ne_eq, not_true_eq_false, if_true]
      exact fun i hi => hfold b0 b1 b2 b3 b4 b5 b6 i hi

/-! ### Part 8 — wall-clock jumps between arming and firing -/

/-- **what the re-arm at an expiry guarantees under clock jumps**: the timer fires on the monotonic clock
(`C20_wall_step_not_seen_until_refresh`); at that moment the wall clock may be anywhere — days behind the target (stepped
back, or the monotonic clock ran ahead) or days past it.  The next instant is computed from `max(now, served target)`:
it is the EARLIEST matching local instant strictly after both, so a backward jump can never make the served instant (or
anything before it) fire again, and a forward jump skips the instants that the jump passed over (they are not replayed). -/
theorem C20_rearm_after_clock_jump (a : Alarm) (e : Env) (hcls : a.cls ≠ .oneshot) (hcron : a.cls ≠ .cron) (hs : a.sod < D)
    (hr : InRange (max e.sec a.target) a.offset) (hrun : (expire a e).1.st = .running) :
    ∃ nl, Earliest (Matches a e.cal) (addOff (max e.sec a.target) a.offset) nl ∧
      (((expire a e).1.target : Nat) : Int) + a.offset = nl := by
  have hex : (expire a e).1 = rearm { a with timer := none, st := .inited, nFired := a.nFired + 1, lastServed := a.target } e := by
    unfold expire; cases hc : a.cls <;> simp_all
  rw [hex] at hrun ⊢
  have hbase : Alarm.base { a with timer := none, st := .inited, nFired := a.nFired + 1, lastServed := a.target } e
      = max e.sec a.target := by unfold Alarm.base; simp only; omega
  rcases rearm_cases { a with timer := none, st := .inited, nFired := a.nFired + 1, lastServed := a.target } e with ⟨hok, heq⟩ | ⟨_, heq⟩
  · rw [heq]
    obtain ⟨nl, h1, h2, _⟩ := C20_tz { a with timer := none, st := .inited, nFired := a.nFired + 1, lastServed := a.target } e hs
        (by rw [hbase]; exact hr) (farOk_classic _ e hcron hs (by rw [hbase]; exact hr)) hok
    rw [hbase] at h1
    exact ⟨nl, h1, h2⟩
  · rw [heq, (unsubscribe_fields _).1] at hrun; simp at hrun

/-- an arm in range: UTC+8, 08:30 local every day, now = 2023-11-14 22:13:20.250 UTC -/
def demoAlarm : Alarm := { cls := .weekly, sod := 30600, mask := 127, st := .inited, tzSet := true, off := 28800 }
def demoEnv : Env := { wallMs := 1700000000250, monoMs := 5000 }

/-! ### Part 9 — gettimeofday() fails (the kernel's answer is an oracle input of every step: `Env.gtod`) -/

theorem subscribe_keeps (a : Alarm) : (subscribe a).st = a.st ∧ (subscribe a).timer = a.timer ∧ (subscribe a).target = a.target := by
  unfold subscribe; split <;> simp

/-- **the clock cannot be read**: nothing is ever armed for a made-up instant.  activeTimer() reports failure and changes
nothing; enable() returns false and leaves state, timer and target as they were (the calendar subscription is taken back,
patches/C20-11); refresh() of an enabled alarm and the re-arm at an expiry leave the alarm initialised and IDLE with no
timer (it has to be enabled again once the clock works); remainSeconds() answers 0. -/
theorem C20_clock_failure_goes_idle (a : Alarm) (e : Env) (hg : e.gtod = false) :
    activeTimer a e = (a, false) ∧
    ((enable a e).2 = false ∧ (enable a e).1.st = a.st ∧ (enable a e).1.timer = a.timer ∧ (enable a e).1.target = a.target) ∧
    (a.st = .running → (refresh a e).st = .inited ∧ (refresh a e).timer = none) ∧
    (a.cls ≠ .oneshot → (expire a e).1.st = .inited ∧ (expire a e).1.timer = none) ∧
    remainSeconds a e = 0 := by
  refine ⟨activeTimer_of_clock_failure a e hg, ?_, ?_, ?_, ?_⟩
  · unfold enable
    split
    · rw [activeTimer_of_clock_failure _ e hg]
      obtain ⟨u1, u2, u3, _⟩ := unsubscribe_fields (subscribe a)
      obtain ⟨s1, s2, s3⟩ := subscribe_keeps a
      simp only [Bool.false_eq_true, if_false]
      exact ⟨trivial, by rw [u1, s1], by rw [u2, s2], by rw [u3, s3]⟩
    · exact ⟨rfl, rfl, rfl, rfl⟩
  · intro hr
    unfold refresh rearm
    simp only [hr, if_true]
    rw [activeTimer_of_clock_failure _ e hg]
    simp only [Bool.false_eq_true, if_false]
    rw [(unsubscribe_fields _).1, (unsubscribe_fields _).2.1]
    exact ⟨rfl, rfl⟩
  · intro hc
    have hex : (expire a e).1 = rearm { a with timer := none, st := .inited, nFired := a.nFired + 1, lastServed := a.target } e := by
      unfold expire; cases hcl : a.cls <;> simp_all
    rw [hex]
    unfold rearm
    rw [activeTimer_of_clock_failure _ e hg]
    simp only [Bool.false_eq_true, if_false]
    rw [(unsubscribe_fields _).1, (unsubscribe_fields _).2.1]
    exact ⟨rfl, rfl⟩
  · unfold remainSeconds; simp [hg]

/-- and a successful arm did read the clock: every conclusion of the arming theorems holds for whatever the oracle answers -/
theorem C20_arm_implies_clock_read (a : Alarm) (e : Env) (hok : (activeTimer a e).2 = true) : e.gtod = true :=
  activeTimer_ok_clock a e hok

/-! ### Part 10 — the life time of the WorkdayCalendar (raw pointer `wp_calendar_`; contract: the calendar outlives every alarm
that is ENABLED with it — `wValid` allows `caldel` only when no workday alarm is enabled, `enable` of an initialised workday
alarm only while the calendar exists).  `w.uaf` records a step that went through the pointer after the calendar's destruction. -/

/-- **the calendar is never touched after its destruction**, in every world execution that keeps the user's side of the
contract — whatever else happens: alarms that were never enabled, were disabled, whose enable() failed or that went idle by
themselves at a refresh / expiry are re-initialised (rejected: there is no calendar), cleaned up and DESTROYED after the
calendar.  Holds because of patches/C20-11: the watch list holds enabled workday alarms only, so an alarm that is not enabled
has nothing to unsubscribe and its destructor does not use the pointer. -/
theorem C20_calendar_not_used_after_destruction (sts : List WStep) (w : World) (he : wExec wInit sts = some w) :
    w.uaf = false ∧
    (∀ j, j ∈ w.watch → ∃ a, w.get j = some a ∧ a.st = .running ∧ a.cls = .workday) ∧
    (w.calAlive = false → ∀ j a, w.get j = some a → a.cls = .workday → a.st ≠ .running) :=
  have h := wExec_inv sts wInit w wInit_inv he
  ⟨h.uaf, h.watch, h.dead⟩

/-- destroying an alarm that is not an enabled workday alarm does not go through the calendar pointer, in ANY world -/
theorem C20_destroy_idle_leaves_calendar_alone (w : World) (j : Nat) (a : Alarm) (hg : w.get j = some a)
    (hn : ¬ (a.st = .running ∧ a.cls = .workday)) : (wDestroy w j).uaf = w.uaf ∧ (wDestroy w j).watch = w.watch := by
  unfold wDestroy
  simp only [hg, hn, decide_false, Bool.false_eq_true, if_false]
  exact ⟨rfl, rfl⟩

-- the same is FALSE of the tree before patches/C20-11 (destructor: `cleanup(); if (wp_calendar_) wp_calendar_->unsubscribe(this);`):
/-- the legal order "alarm disabled, calendar destroyed, alarm destroyed": the as-found destructor goes through the dangling
pointer (heap-use-after-free under ASan on the real code, corpus/C20/16); the repaired one does not. -/
theorem C20_destroy_after_calendar_counterexample :
    (wExec wInit [.op (.new 0 .workday []), .op (.init 0 100 [] true), .op (.enable 0), .op (.disable 0), .op .caldel]).map
      (fun w => ((wDestroyAsFound w 0).uaf, (wDestroy w 0).uaf, w.watch, w.calAlive)) = some (true, false, [], false) := by decide

/-- `caldel` while a workday alarm is enabled is the USER's contract violation: such a step is not an execution -/
example : wExec wInit [.op (.new 0 .workday []), .op (.init 0 100 [] true), .op (.enable 0), .op .caldel] = none := by decide

/-! ### Part 11 — the same input again on one armed object (every "unchanged? then skip" shortcut must keep the armed target) -/

/-- **calls that repeat what the object already has change nothing**: initialize() of an ENABLED alarm (any specification,
in particular the one it runs with) is rejected and leaves it as it is, so is a second enable(); setTimezone() to the offset
already set, refresh() / disable() of an alarm that is not enabled are the identity. -/
theorem C20_repeated_calls_change_nothing (a : Alarm) (e : Env) :
    (a.st = .running → (∀ sod m wd, initAlarm a sod m wd = (a, false)) ∧ (∀ x, initCron a x = (a, false)) ∧ enable a e = (a, false)) ∧
    (a.st ≠ .running → refresh a e = a ∧ disable a = (a, false)) ∧
    (∀ m : Int, a.tzSet = true → a.off = m * 60 → setTimezone a m = a) := by
  refine ⟨fun hr => ⟨fun sod m wd => ?_, fun x => ?_, ?_⟩, fun hr => ⟨refresh_idle a e hr, by unfold disable; simp [hr]⟩, fun m h1 h2 => ?_⟩
  · unfold initAlarm initClassic; by_cases hc : a.cls = .cron <;> simp [hc, hr]
  · unfold initCron; by_cases hc : a.cls ≠ .cron <;> simp [hc, hr]
  · unfold enable; simp [hr]
  · unfold setTimezone; rw [← h2, ← h1]

/-- **refresh() of an armed alarm keeps the armed instant when nothing changed**: with the same clocks and calendar a second
refresh() arms exactly what the first one armed (same target, same timer deadline, same state) — for every alarm, clock and
calendar: a calendar update that changes nothing, or refresh() twice, cannot move or lose the target. -/
theorem C20_refresh_again_same_target (a : Alarm) (e : Env) :
    (refresh (refresh a e) e).target = (refresh a e).target ∧ (refresh (refresh a e) e).timer = (refresh a e).timer ∧
    (refresh (refresh a e) e).st = (refresh a e).st :=
  refresh_again a e

/-- the target a running alarm stands for survives a refresh() issued before it is served (same wall second as the arm) -/
example : (refresh { demoAlarm with st := .running, target := 1700008200, timer := some 1 } demoEnv).target = 1700008200 := by decide

/-! ### Part 10 — the wall clock moves while one arming runs (readings as an oracle sequence, Reads.lean) -/

/-- **one reading per arming**: whatever gettimeofday() would answer to a second, third … call inside the same
`activeTimer()` (time passing, a second boundary, an NTP step in either direction, a failure) has no influence on
the arming: two oracles that agree on the FIRST answer give the same alarm, result and number of readings (= 1). -/
theorem C20_arm_reads_clock_once (a : Alarm) (e : Env) (c c' : Clock) (h0 : c 0 = c' 0) :
    activeTimerR a e c = activeTimerR a e c' ∧ (activeTimerR a e c).2 = 1 := by
  simp [activeTimerR, h0]

/-- **the wait is never short, as measured by the reading taken when the alarm was armed** — for every oracle
sequence `c` whose first answer is `us` µs: the armed delay `d` satisfies
`d = 1000·(target − sec₀) − ⌊usec₀/1000⌋` with `sec₀ = us / 10⁶` (as stored into the uint32_t) and
`usec₀ = us mod 10⁶`, both of the FIRST reading; and every later reading `u'` of the sequence that is not before the
first one sees the deadline at or after the target (`u'/1000 + d ≥ 1000·target`: a later look at the clock is only later). -/
theorem C20_delay_not_short_first_reading (a : Alarm) (e : Env) (c : Clock) (us : Nat) (hc : c 0 = some us)
    (hs : a.sod < D) (hr : InRange (a.base (e.seen (some us))) a.offset) (hf : FarOk a (e.seen (some us)))
    (hok : (activeTimerR a e c).1.2 = true) :
    ∃ d, (activeTimerR a e c).1.1.timer = some (e.monoMs + d) ∧
      w32 (us / 1000000) < (activeTimerR a e c).1.1.target ∧
      d + us % 1000000 / 1000 = ((activeTimerR a e c).1.1.target - w32 (us / 1000000)) * 1000 ∧
      (us / 1000000 < U32 → us / 1000 + d = (activeTimerR a e c).1.1.target * 1000 ∧
        ∀ k u', c k = some u' → us ≤ u' → (activeTimerR a e c).1.1.target * 1000 ≤ u' / 1000 + d) := by
  have hA : activeTimerR a e c = (activeTimer a (e.seen (some us)), 1) := by simp [activeTimerR, hc]
  rw [hA] at hok ⊢
  simp only at hok ⊢
  obtain ⟨d, h1, h2, h3, h4⟩ := C20_delay_not_short a (e.seen (some us)) hs hr hf hok
  have hdiv : us / 1000 / 1000 = us / 1000000 := by omega
  have hsec : (e.seen (some us)).sec = w32 (us / 1000000) := by
    show w32 (us / 1000 / 1000) = _; rw [hdiv]
  have hms : (e.seen (some us)).ms = us % 1000000 / 1000 := by
    show us / 1000 % 1000 = _; omega
  have hmono : (e.seen (some us)).monoMs = e.monoMs := rfl
  have hw : (e.seen (some us)).wallMs = us / 1000 := rfl
  rw [hsec] at h2 h3; rw [hms] at h3; rw [hmono] at h1; rw [hw] at h4
  refine ⟨d, h1, h2, h3, ?_⟩
  intro hlt
  have h5 := h4 (by rw [hdiv]; exact hlt)
  refine ⟨h5, ?_⟩
  intro k u' _ hle
  have : us / 1000 ≤ u' / 1000 := Nat.div_le_div_right hle
  omega

/-- what mixing two readings would do (seconds of a SECOND reading, sub-second part of the first — not what the code
does): first reading 09:59:58.999900, second 09:59:59.000100.  Instant 10:00:00 (1000.1 ms away): 1 ms is armed
instead of 1001; instant 09:59:59 (0.1 ms away): `0·1000 − 999` wraps in uint64_t. -/
theorem C20_second_reading_counterexample :
    delayTwoReadings 1700042400 1700042398999900 1700042399000100 = 1 ∧
    delayTwoReadings 1700042400 1700042398999900 1700042398999900 = 1001 ∧
    delayTwoReadings 1700042399 1700042398999900 1700042399000100 = 18446744073709550617 := by decide

/-- remainSeconds() reads the clock exactly when the alarm is enabled, and once -/
theorem C20_remain_reads_clock_once (a : Alarm) (e : Env) (c c' : Clock) (h0 : c 0 = c' 0) :
    remainSecondsR a e c = remainSecondsR a e c' ∧ (remainSecondsR a e c).2 ≤ 1 := by
  unfold remainSecondsR; rw [h0]; split <;> simp

/-! ### non-vacuity -/

/-- Tuesday 2023-11-14 22:13:20 UTC, alarm at 10:00 on Wednesdays and Sundays → Wed 10:00 -/
example : nextWeekly 36000 0b0001001 1700000000 = some 1700042400 := by decide
example : 1700000000 + 9 * D ≤ U32 ∧ (36000 < D) ∧ (∃ w, w < 7 ∧ bit 0b0001001 w = true) :=
  ⟨by decide, by decide, 0, by decide, by decide⟩
/-- only today's weekday in the mask and today's time already passed → a full week ahead (8th iteration) -/
example : nextWeekly 0 0b0000100 1700000000 = some (1700000000 - 80000 + 7 * 86400) := by decide
example : nextOneshot 80000 1700000000 = 1700086400 := by decide
example : nextWorkday 30600 {} true 1700000000 = some 1700037000 := by decide
/-- a workday calendar with a matching day inside the scan window -/
example : ∃ r', 1700000000 < r' ∧ r' / D < 1700000000 / D + 367 ∧ WorkdayMatch 30600 {} true r' :=
  ⟨1700037000, by decide, by decide, by decide, by decide⟩
example : InRange (max demoEnv.sec demoAlarm.target) demoAlarm.offset := by decide
example : (activeTimer demoAlarm demoEnv).2 = true ∧ (activeTimer demoAlarm demoEnv).1.target = 1700008200 ∧
    (activeTimer demoAlarm demoEnv).1.timer = some (5000 + 8199750) := by decide
/-- an early wake-up (wall clock 5 ms short of the target) re-arms for the NEXT day -/
example : ((expire { demoAlarm with st := .running, target := 1700008200, timer := some 1 }
    { wallMs := 1700008199995, monoMs := 9000000 }).1.target) = 1700094600 := by decide
/-- a history: one-shot enabled, fires, stays idle; second pass yields nothing -/
example : (arun (fresh .oneshot)
    [({ wallMs := 1000000000, monoMs := 0 }, .init 100 [] true), ({ wallMs := 1000000000, monoMs := 0 }, .enable),
     ({ wallMs := 90000000000, monoMs := 89000000000 }, .pass), ({ wallMs := 190000000000, monoMs := 189000000000 }, .pass)]).2.length = 1 := by decide

/-- a weekly alarm armed for 10:00 whose timer fires while the wall clock was stepped back by a day: the re-arm starts from the served target -/
example : ((expire { demoAlarm with st := .running, target := 1700008200, timer := some 1 }
    { wallMs := 1699921800000, monoMs := 9000000 }).1.target) = 1700094600 := by decide
example : InRange (max ({ wallMs := 1699921800000, monoMs := 9000000 } : Env).sec 1700008200) demoAlarm.offset := by decide
/-- hypotheses of the width theorems are satisfiable -/
example : (initAlarm (fresh .weekly) 2147483647 [true, true, true, true, true, true, true] true).2 = false := by decide
example : (initAlarm (fresh .weekly) 100 [true, false, false, false, false, false, true] true).1.mask = 65 := by decide

/-- calendar sanity: epoch, a leap day, the non-leap century 2100, end of the uint32 range -/
example : Cron.civil 0 = (1970, 1, 1) ∧ Cron.civil 11016 = (2000, 2, 29) ∧ Cron.civil 47540 = (2100, 2, 28) ∧
    Cron.civil 47541 = (2100, 3, 1) ∧ Cron.civil 49710 = (2106, 2, 7) ∧ Cron.dayOfWeek 19675 = 2 := by decide
/-- "0 0 12 1,15 * 1-5": the 15th of Nov 2023 is a Wednesday → allowed day; noon is the allowed time -/
example : (Cron.parse [⟨.one 0, none⟩] [⟨.one 0, none⟩] [⟨.one 12, none⟩] [⟨.one 1, none⟩, ⟨.one 15, none⟩] [⟨.star, none⟩] [⟨.span 1 5, none⟩]).map
    (fun e => (Cron.dayOk e 19676, Cron.dayOk e 19675, Cron.timeOk e 43200, Cron.timeOk e 43201)) = some (true, false, true, false) := by decide
/-- Sunday as 7, a step from a bare number, a rejected range -/
example : (Cron.fieldBits [⟨.one 1, some 2⟩] 0 8, Cron.fieldBits [⟨.span 5 3, none⟩] 0 60) = (some 0b10101010, none) := by decide

/-- hypotheses of `C20_delay_not_short_first_reading` are satisfiable: the clock crosses a second boundary between the readings -/
example : let c : Clock := fun k => if k = 0 then some 1700000000999900 else some (1700000001000100 + 200 * k)
    (activeTimerR demoAlarm demoEnv c).1.2 = true ∧ InRange (demoAlarm.base (demoEnv.seen (c 0))) demoAlarm.offset ∧
    FarOk demoAlarm (demoEnv.seen (c 0)) ∧ demoAlarm.sod < D := by decide

end Tbox.C20
