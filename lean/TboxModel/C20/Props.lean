import TboxModel.C20.Model
