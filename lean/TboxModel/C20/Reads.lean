/-
C20 — the wall clock as a SEQUENCE of readings (core Lean only).

Time passes (and the clock may be stepped) while one library call runs: two calls of gettimeofday() inside one
`Alarm::activeTimer()` need not agree.  `Clock` is the oracle for the answers successive gettimeofday() calls get
inside ONE library call (index 0 = the first call, 1 = the second …; `none` = the call fails; the value is in
microseconds since the epoch).  The code as it stands (alarm.cpp:177-214) looks at the clock ONCE per arming:
`GetCurrentUtcTime(curr_utc_sec, curr_utc_usec)` at the top of activeTimer(); the seconds and the sub-second part
that enter `remain_msec` come from that one `struct timeval`.  `activeTimerR` is activeTimer over such an oracle and
reports how many readings it consumed.

The harness plays the oracle through its interposed gettimeofday (op `skew sub inc step`): the first reading of a
library call is the virtual wall clock (+ `sub` µs below the millisecond), the k-th later reading is
first + step + k·inc.
-/
import TboxModel.C20.Model
namespace Tbox.C20

/-- answers of successive gettimeofday() calls inside one library call (µs since the epoch; none = failure) -/
abbrev Clock := Nat → Option Nat

/-- the step's environment as one reading shows it: `tv_sec = us / 10^6`, `tv_usec / 1000 = us / 1000 % 1000` -/
def Env.seen (e : Env) : Option Nat → Env
  | none => { e with gtod := false }
  | some us => { e with wallMs := us / 1000, gtod := true }

/-- Alarm::activeTimer over the reading oracle; second component = number of gettimeofday() calls made -/
def activeTimerR (a : Alarm) (e : Env) (c : Clock) : (Alarm × Bool) × Nat :=
  (activeTimer a (e.seen (c 0)), 1)

/-- Alarm::remainSeconds over the oracle (`state_ == kRunning && GetCurrentUtcTime(sec)`: no reading when not running) -/
def remainSecondsR (a : Alarm) (e : Env) (c : Clock) : Nat × Nat :=
  if a.st = .running then (remainSeconds a (e.seen (c 0)), 1) else (0, 0)

/-- the arithmetic of an arming that takes the whole seconds from a SECOND reading and the sub-second part from the
first one (`remain_sec = target − sec₂`, `remain_msec = uint64(remain_sec)·1000 − usec₁/1000`) — not what the code
does; kept for the counterexample theorem -/
def delayTwoReadings (target us1 us2 : Nat) : Nat :=
  delayMs (w32 (target + U32 - w32 (us2 / 1000000))) (us1 / 1000 % 1000)

end Tbox.C20
