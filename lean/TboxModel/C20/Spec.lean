/- C20 — declarative specification of "the earliest matching instant strictly after t"
(core Lean only; nothing here looks at how the code searches). -/
import TboxModel.C20.Model
namespace Tbox.C20

/-- day of week of a local time stamp: 1970-01-01 was a Thursday; 0 = Sunday -/
def weekday (t : Nat) : Nat := (t / D + 4) % 7

/-- a weekly alarm (seconds-of-day `sod`, 7-bit mask, bit i = weekday i) matches instant `r` -/
def WeeklyMatch (sod mask r : Nat) : Prop := r % D = sod ∧ bit mask (weekday r) = true

/-- a one-shot alarm matches every instant with the right time of day -/
def OneshotMatch (sod r : Nat) : Prop := r % D = sod

/-- a workday alarm matches `r`: right time of day, and the calendar's verdict on r's day is `wd` -/
def WorkdayMatch (sod : Nat) (cal : Calendar) (wd : Bool) (r : Nat) : Prop :=
  r % D = sod ∧ cal.isWorkday (r / D) = wd

/-- `r` is the earliest instant strictly after `t` satisfying `P` -/
def Earliest (P : Nat → Prop) (t r : Nat) : Prop :=
  t < r ∧ P r ∧ ∀ r', t < r' → r' < r → ¬ P r'

/-- the configuration of an alarm as a predicate on local instants -/
def Matches (a : Alarm) (cal : Calendar) (r : Nat) : Prop :=
  match a.cls with
  | .weekly => WeeklyMatch a.sod a.mask r
  | .oneshot => OneshotMatch a.sod r
  | .workday => WorkdayMatch a.sod cal a.wd r
  | .cron => Cron.CronMatch a.expr r

/-- the state-machine invariant: the loop timer is armed exactly while the alarm is enabled -/
def Inv (a : Alarm) : Prop := (a.st = .running ↔ a.timer.isSome = true)

/-- number of `enable()` calls in a history -/
def countEnable : List (Env × AOp) → Nat
  | [] => 0
  | (_, .enable) :: rest => countEnable rest + 1
  | _ :: rest => countEnable rest

def isEnable : AOp → Bool
  | .enable => true
  | _ => false

end Tbox.C20
