/-
C20 — the world: several alarms on one loop, one WorkdayCalendar with its watch list, user
callbacks that call the alarm API themselves (scripts), and destruction of alarms.

  * `watch` is WorkdayCalendar::watch_alarms_ (slot numbers stand for the Alarm pointers; order and
    duplicates kept: a failed enable() leaves its subscription behind, a second enable() adds one more).
  * a callback script runs where cb_() runs: AFTER the re-arm of Alarm::onTimeExpired.
  * `destroy` follows the tree with patches/C20-03 + C20-11 (the WorkdayAlarm destructor runs cleanup() while its
    own onDisable() is still reachable; an alarm that is not enabled holds no subscription and its destructor does
    not touch the calendar); `wDestroyUnpatched` is the behaviour before C20-03, `wDestroyAsFound` the one between
    C20-03 and C20-11 (unconditional unsubscribe through the raw calendar pointer) — kept for the counterexample theorems.
  * the calendar is an object with a lifetime of its own (`calAlive`): alarms hold a raw pointer to it.  `uaf` is a ghost
    flag: some step dereferenced the calendar after it was destroyed.  The contract (workday_alarm.h): the calendar
    outlives every alarm that is ENABLED with it; `wValid` allows `caldel` only when no workday alarm is enabled.
  * `gtod` is the oracle for gettimeofday(): while false every GetCurrentUtcTime() fails.
  * which of several due timers the loop serves first is left open exactly as in C02: `fire j` is
    enabled for every due timer of minimal deadline.
-/
import TboxModel.C20.Model
namespace Tbox.C20

/-- what a callback may do (calls on any alarm including the one whose callback runs; destroying
the alarm whose callback is running is excluded: the code asserts against it) -/
inductive Act where
  | refresh (j : Nat) | disable (j : Nat) | enable (j : Nat) | destroy (j : Nat)
  | calMask (m : Nat) | calSp (sp : List (Nat × Bool))
  | cleanup (j : Nat)                                            -- cleanup() (the harness re-installs the callback right after)
  | init (j : Nat) (sod : Int) (mask : List Bool) (wd : Bool)    -- initialize() with another specification
  | tz (j : Nat) (minutes : Int)                                 -- setTimezone()
  | initc (j : Nat) (e : Option Cron.Expr)                       -- CronAlarm::initialize() with another expression (none = the parser rejects it)
  | gtod (ok : Bool)                                             -- from now on gettimeofday() succeeds / fails
deriving Repr

/-- one served expiry (ghost log) -/
structure Served where
  slot : Nat
  instant : Nat            -- target_utc_sec_ when onTimeExpired was entered
  prev : Nat               -- the instant this alarm served before (0 = none)
  wasRunning : Bool
  inRange : Bool           -- no arm of this alarm ever left the no-wrap range (`wrapped` unset)
deriving Repr, DecidableEq

structure World where
  wallMs : Nat := 1700000000000
  monoMs : Nat := 0
  cal : Calendar := {}
  slots : List (Option Alarm) := [none, none, none, none]
  scripts : List (List Act) := [[], [], [], []]
  watch : List Nat := []
  log : List Served := []        -- newest first
  gtod : Bool := true            -- oracle: gettimeofday() succeeds
  calAlive : Bool := true        -- the WorkdayCalendar object exists
  uaf : Bool := false            -- ghost: the calendar was dereferenced after its destruction

def World.env (w : World) : Env := { wallMs := w.wallMs, monoMs := w.monoMs, cal := w.cal, gtod := w.gtod }
/-- the step goes through `wp_calendar_` (subscribe / unsubscribe / isWorkay) -/
def World.touchCal (w : World) (c : Bool) : World := if c then { w with uaf := w.uaf || !w.calAlive } else w
def World.get (w : World) (j : Nat) : Option Alarm := w.slots.getD j none
def World.put (w : World) (j : Nat) (a : Option Alarm) : World := { w with slots := w.slots.set j a }
def World.script (w : World) (j : Nat) : List Act := w.scripts.getD j []

def wEnable (w : World) (j : Nat) : World × Bool :=
  match w.get j with
  | none => (w, false)
  | some a =>
    let r := enable a w.env
    let sub := decide (a.st = .inited ∧ a.cls = .workday)      -- onEnable ran: subscribe; when the arm fails onDisable takes it back
    let watch := if sub then (if r.2 then w.watch ++ [j] else w.watch.filter (· != j)) else w.watch
    (({ w.put j (some r.1) with watch := watch } : World).touchCal sub, r.2)

def wDisable (w : World) (j : Nat) : World × Bool :=
  match w.get j with
  | none => (w, false)
  | some a =>
    let r := disable a
    let sub := decide (a.st = .running ∧ a.cls = .workday)
    let watch := if sub then w.watch.filter (· != j) else w.watch   -- onDisable: unsubscribe
    (({ w.put j (some r.1) with watch := watch } : World).touchCal sub, r.2)

/-- refresh(): a running workday alarm asks the calendar (isWorkay); when no next instant is found it goes idle and
onDisable() unsubscribes it (patches/C20-11) -/
def wRefresh (w : World) (j : Nat) : World :=
  match w.get j with
  | none => w
  | some a =>
    let x := refresh a w.env
    let sub := decide (a.st = .running ∧ a.cls = .workday)
    let watch := if sub ∧ x.st ≠ .running then w.watch.filter (· != j) else w.watch
    ({ w.put j (some x) with watch := watch } : World).touchCal sub

def wCleanup (w : World) (j : Nat) : World :=
  match w.get j with
  | none => w
  | some a =>
    let sub := decide (a.st = .running ∧ a.cls = .workday)
    let watch := if sub then w.watch.filter (· != j) else w.watch
    ({ w.put j (some (cleanup a)) with watch := watch } : World).touchCal sub

/-- `delete alarm` with patches/C20-03 + C20-11: ~WorkdayAlarm() { cleanup(); } — cleanup() disables an enabled alarm
(onDisable: unsubscribe, the only access to the calendar); an alarm that is not enabled holds no subscription -/
def wDestroy (w : World) (j : Nat) : World :=
  match w.get j with
  | none => w
  | some a =>
    let sub := decide (a.st = .running ∧ a.cls = .workday)
    let watch := if sub then w.watch.filter (· != j) else w.watch
    ({ w.put j none with watch := watch } : World).touchCal sub

/-- `delete alarm` as found before patches/C20-11: ~WorkdayAlarm() { cleanup(); if (wp_calendar_ != nullptr)
wp_calendar_->unsubscribe(this); } — EVERY workday alarm that was ever initialised goes through the raw calendar pointer -/
def wDestroyAsFound (w : World) (j : Nat) : World :=
  match w.get j with
  | none => w
  | some a =>
    ({ w.put j none with watch := w.watch.filter (· != j) } : World).touchCal (decide (a.cls = .workday) && a.calSet)

/-- `delete alarm` on the unpatched tree: ~Alarm() → cleanup() → disable() → Alarm::onDisable()
(the base version: the derived part is already gone) — nobody unsubscribes. -/
def wDestroyUnpatched (w : World) (j : Nat) : World :=
  match w.get j with
  | none => w
  | some _ => w.put j none

/-- updateSpecialDays / updateWeekMask: `for (auto alarm : watch_alarms_) alarm->refresh();`
returns also whether an entry of a destroyed alarm was dereferenced (use after free) -/
def wCalUpdate (w : World) (cal : Calendar) : World × Bool :=
  let w1 := { w with cal := cal }
  w1.watch.foldl (fun (acc : World × Bool) j =>
    match acc.1.get j with
    | none => (acc.1, true)
    | some _ => (wRefresh acc.1 j, acc.2)) (w1, false)

/-- initialize(sod, …) of slot j; the harness passes the calendar it has: none after `caldel` (nullptr: rejected) -/
def wInitOp (w : World) (j : Nat) (sod : Int) (m : List Bool) (wd : Bool) : World × Bool :=
  match w.get j with
  | none => (w, false)
  | some a =>
    if a.cls = .workday ∧ w.calAlive = false then (w, false) else
    let r := initAlarm a sod m wd; (w.put j (some r.1), r.2)

def wTz (w : World) (j : Nat) (m : Int) : World × Bool :=
  match w.get j with
  | none => (w, false)
  | some a => (w.put j (some (setTimezone a m)), true)

def wSetCb (w : World) (j : Nat) : World × Bool :=
  match w.get j with
  | none => (w, false)
  | some a => (w.put j (some { a with hasCb := true }), true)

/-- CronAlarm::initialize of slot j -/
def wInitc (w : World) (j : Nat) (x : Option Cron.Expr) : World × Bool :=
  match w.get j with
  | none => (w, false)
  | some a => let r := initCron a x; (w.put j (some r.1), r.2)

/-- enable() of slot j would go through a destroyed calendar (a contract violation of the USER: not executed) -/
def enableNeedsDeadCal (w : World) (j : Nat) : Bool :=
  match w.get j with
  | some a => decide (a.cls = .workday ∧ a.st = .inited) && !w.calAlive
  | none => false

def applyAct (w : World) : Act → World
  | .gtod ok => { w with gtod := ok }
  | .initc j x => (wInitc w j x).1
  | .cleanup j => (wSetCb (wCleanup w j) j).1
  | .init j sod m wd => (wInitOp w j sod m wd).1
  | .tz j m => (wTz w j m).1
  | .refresh j => wRefresh w j
  | .disable j => (wDisable w j).1
  | .enable j => if enableNeedsDeadCal w j then w else (wEnable w j).1
  | .destroy j => wDestroy w j
  | .calMask m => if w.calAlive then (wCalUpdate w { w.cal with weekMask := m }).1 else w
  | .calSp sp => if w.calAlive then (wCalUpdate w { w.cal with special := sp }).1 else w

def runScript (w : World) : List Act → World
  | [] => w
  | a :: as => runScript (applyAct w a) as

/-- may the loop serve alarm `j`'s timer now? armed, due, and no armed timer has an earlier deadline -/
def canFire (w : World) (j : Nat) : Bool :=
  match w.get j with
  | some a =>
    match a.timer with
    | some d => d ≤ w.monoMs && w.slots.all (fun o => match o with
        | some b => match b.timer with
          | some d' => d ≤ d'
          | none => true
        | none => true)
    | none => false
  | none => false

/-- the loop serves alarm `j`'s timer: onTimeExpired (re-arm first), then the user callback -/
def wFire (w : World) (j : Nat) : World :=
  match w.get j with
  | none => w
  | some a =>
    let r := expire a w.env
    let ev : Served := { slot := j, instant := r.2.1, prev := a.lastServed, wasRunning := r.2.2,
                         inRange := !a.wrapped }
    let sub := decide (a.cls = .workday)                        -- the re-arm asks the calendar; when it fails onDisable unsubscribes
    let watch := if sub ∧ r.1.st ≠ .running then w.watch.filter (· != j) else w.watch
    let w1 := ({ w.put j (some r.1) with log := ev :: w.log, watch := watch } : World).touchCal sub
    if a.hasCb then runScript w1 (w.script j) else w1

/-- is any armed timer due? (a pass may only end when none is) -/
def anyDue (w : World) : Bool :=
  w.slots.any (fun o => match o with
    | some a => match a.timer with
      | some d => d ≤ w.monoMs
      | none => false
    | none => false)

inductive WOp where
  | new (j : Nat) (c : Cls) (script : List Act)
  | init (j : Nat) (sod : Int) (mask : List Bool) (wd : Bool)
  | initc (j : Nat) (e : Option Cron.Expr)
  | tz (j : Nat) (minutes : Int)
  | enable (j : Nat) | disable (j : Nat) | refresh (j : Nat) | cleanup (j : Nat) | setCb (j : Nat) | destroy (j : Nat)
  | calMask (m : Nat) | calSp (sp : List (Nat × Bool))
  | adv (d : Nat) | mono (d : Nat) | wall (v : Nat)
  | gtod (ok : Bool)             -- oracle: gettimeofday() succeeds / fails from now on
  | caldel                       -- the WorkdayCalendar is destroyed
deriving Repr

/-- an API call made outside callbacks / a clock change; the Bool is the call's result -/
def wOp (w : World) : WOp → World × Bool
  | .new j c sc => match w.get j with
      | some _ => (w, false)
      | none => ({ w.put j (some (fresh c)) with scripts := w.scripts.set j sc }, true)
  | .init j sod m wd => wInitOp w j sod m wd
  | .initc j x => wInitc w j x
  | .tz j m => wTz w j m
  | .enable j => wEnable w j
  | .disable j => wDisable w j
  | .refresh j => (wRefresh w j, true)
  | .cleanup j => (wCleanup w j, true)
  | .setCb j => wSetCb w j
  | .destroy j => (wDestroy w j, true)
  | .calMask m => ((wCalUpdate w { w.cal with weekMask := m }).1, true)
  | .calSp sp => ((wCalUpdate w { w.cal with special := sp }).1, true)
  | .adv d => ({ w with wallMs := w.wallMs + d, monoMs := w.monoMs + d }, true)
  | .mono d => ({ w with monoMs := w.monoMs + d }, true)
  | .wall v => ({ w with wallMs := v }, true)
  | .gtod ok => ({ w with gtod := ok }, true)
  | .caldel => ({ w with calAlive := false, watch := [] }, true)

inductive WStep where
  | op (o : WOp)
  | fire (j : Nat)
deriving Repr

/-- some workday alarm is enabled (it is subscribed to the calendar and will ask it at its next re-arm) -/
def anyWorkdayRunning (w : World) : Bool :=
  w.slots.any (fun o => match o with
    | some a => decide (a.cls = .workday ∧ a.st = .running)
    | none => false)

/-- the user's side of the contract: the calendar is destroyed only when it exists and no workday alarm is enabled;
afterwards no workday alarm is enabled again and the calendar is not updated -/
def wValid (w : World) : WStep → Bool
  | .op .caldel => w.calAlive && !anyWorkdayRunning w
  | .op (.enable j) => !enableNeedsDeadCal w j
  | .op (.calMask _) => w.calAlive
  | .op (.calSp _) => w.calAlive
  | .op _ => true
  | .fire j => canFire w j

def wStep (w : World) : WStep → World
  | .op o => (wOp w o).1
  | .fire j => wFire w j

/-- run a step list; `none` as soon as a `fire` is not enabled -/
def wExec (w : World) : List WStep → Option World
  | [] => some w
  | st :: sts => if wValid w st then wExec (wStep w st) sts else none

def wInit : World := {}

end Tbox.C20
