/- C20 — invariants of the world model (several alarms, calendar watch list, callback scripts, destruction) -/
import TboxModel.C20.WModel
import TboxModel.C20.HistProofs
namespace Tbox.C20

/-- while enabled (and never armed outside the no-wrap range), the armed target lies strictly after the
last served instant -/
def KInv (a : Alarm) : Prop :=
  a.st = .running → a.wrapped = false → a.lastServed < a.target

/-- everything the world keeps true of each alarm -/
structure AInv (a : Alarm) : Prop where
  inv : Inv a
  sod : a.sod < D
  k : KInv a

theorem kinv_of_idle {a : Alarm} (h : a.st ≠ .running) : KInv a := fun hr => absurd hr h

theorem activeTimer_K (a : Alarm) (e : Env) (hs : a.sod < D) (hk : KInv a) : KInv (activeTimer a e).1 := by
  rcases activeTimer_cases a e with ⟨hok, _, _⟩ | ⟨_, heq⟩
  · have hg := activeTimer_ok_clock a e hok
    cases hc : calcNext a e.cal (addOff (a.base e) a.offset) with
    | none => rw [activeTimer_of_none a e hc] at hok; cases hok
    | some nl =>
      intro _ hw
      rw [activeTimer_of_some a e nl hg hc] at hw ⊢
      simp only [armed, Bool.or_eq_false_iff, Bool.not_eq_false', decide_eq_true_eq] at hw
      obtain ⟨_, T, d, _, heq, _, h2, _, _⟩ := activeTimer_spec a e hs hw.1.2 hw.2 (by rw [activeTimer_of_some a e nl hg hc])
      rw [activeTimer_of_some a e nl hg hc] at heq
      have hT := congrArg (fun p => p.1.target) heq
      simp only [armed_target] at hT ⊢
      simp only [armed_lastServed]
      have := (base_ge a e).2.2
      omega
  · rw [heq]; exact hk

theorem fresh_ainv (c : Cls) : AInv (fresh c) :=
  ⟨fresh_inv c, by unfold fresh; simp [D_eq], kinv_of_idle (by unfold fresh; simp)⟩

theorem initAlarm_ainv (a : Alarm) (sod : Int) (m : List Bool) (wd : Bool) (h : AInv a) : AInv (initAlarm a sod m wd).1 := by
  refine ⟨initAlarm_inv a sod m wd h.inv, ?_, ?_⟩
  · unfold initAlarm
    split
    · exact h.sod
    unfold initClassic
    split
    · exact h.sod
    · split
      · exact h.sod
      · rename_i hr
        split
        · exact h.sod
        · simp only [D_eq]; omega
  · by_cases hr : (initAlarm a sod m wd).1.st = .running
    · have : a.st = .running := by
        cases hst : a.st with
        | running => rfl
        | none => exact absurd hr (initAlarm_st a sod m wd (by rw [hst]; simp))
        | inited => exact absurd hr (initAlarm_st a sod m wd (by rw [hst]; simp))
      have heq : (initAlarm a sod m wd).1 = a := by
        unfold initAlarm initClassic; simp [this]
      rw [heq]; exact h.k
    · exact kinv_of_idle hr

theorem initCron_ainv (a : Alarm) (x : Option Cron.Expr) (h : AInv a) : AInv (initCron a x).1 := by
  refine ⟨initCron_inv a x h.inv, ?_, ?_⟩
  · unfold initCron
    repeat' split
    all_goals exact h.sod
  · by_cases hr : (initCron a x).1.st = .running
    · have : a.st = .running := by
        cases hst : a.st with
        | running => rfl
        | none => exact absurd hr (initCron_st a x (by rw [hst]; simp))
        | inited => exact absurd hr (initCron_st a x (by rw [hst]; simp))
      have heq : (initCron a x).1 = a := by
        unfold initCron; simp [this]
      rw [heq]; exact h.k
    · exact kinv_of_idle hr

theorem ainv_congr {a b : Alarm} (h : AInv a) (h1 : b.st = a.st) (h2 : b.timer = a.timer) (h3 : b.sod = a.sod)
    (h5 : b.wrapped = a.wrapped) (h6 : b.lastServed = a.lastServed) (h7 : b.target = a.target) : AInv b :=
  ⟨inv_congr h1 h2 h.inv, by rw [h3]; exact h.sod, by unfold KInv; rw [h1, h5, h6, h7]; exact h.k⟩

theorem activeTimer_ainv (a : Alarm) (e : Env) (h : AInv a) : AInv (activeTimer a e).1 :=
  ⟨activeTimer_inv a e h.inv, by rw [(activeTimer_fields a e).2.2.2.2.2]; exact h.sod, activeTimer_K a e h.sod h.k⟩

theorem subscribe_ainv (a : Alarm) (h : AInv a) : AInv (subscribe a) := by
  unfold subscribe; split
  · exact ainv_congr h rfl rfl rfl rfl rfl rfl
  · exact h

theorem unsubscribe_ainv (a : Alarm) (h : AInv a) : AInv (unsubscribe a) := by
  obtain ⟨f1, f2, f3, f4, _, _, _, f8, f9, _⟩ := unsubscribe_fields a
  exact ainv_congr h f1 f2 f4 f8 f9 f3

theorem rearm_ainv (a : Alarm) (e : Env) (h : AInv a) : AInv (rearm a e) := by
  rcases rearm_cases a e with ⟨_, heq⟩ | ⟨_, heq⟩
  · rw [heq]; exact activeTimer_ainv a e h
  · rw [heq]; exact unsubscribe_ainv a h

theorem enable_ainv (a : Alarm) (e : Env) (h : AInv a) : AInv (enable a e).1 := by
  unfold enable
  split
  · have := activeTimer_ainv _ e (subscribe_ainv a h)
    simp only
    split
    · exact ainv_congr this rfl rfl rfl rfl rfl rfl
    · exact unsubscribe_ainv _ this
  · exact h

theorem disable_ainv (a : Alarm) (h : AInv a) : AInv (disable a).1 := by
  refine ⟨(disable_inv a h.inv).1, ?_, kinv_of_idle (disable_inv a h.inv).2⟩
  unfold disable; split
  · exact h.sod
  · exact h.sod

theorem cleanup_ainv (a : Alarm) (h : AInv a) : AInv (cleanup a) := by
  refine ⟨(cleanup_inv a h.inv).1, ?_, kinv_of_idle (cleanup_inv a h.inv).2⟩
  have := (disable_ainv a h).sod
  unfold cleanup; split
  · exact h.sod
  · exact this

theorem refresh_ainv (a : Alarm) (e : Env) (h : AInv a) : AInv (refresh a e) := by
  unfold refresh
  split
  · exact rearm_ainv _ e ⟨inv_of_idle (by simp) (by simp), h.sod, kinv_of_idle (by simp)⟩
  · exact h

theorem expire_ainv (a : Alarm) (e : Env) (h : AInv a) : AInv (expire a e).1 := by
  have h0 : AInv { a with timer := none, st := .inited, nFired := a.nFired + 1, lastServed := a.target } :=
    ⟨inv_of_idle (by simp) (by simp), h.sod, kinv_of_idle (by simp)⟩
  unfold expire
  split
  · exact h0
  · exact rearm_ainv _ e h0


/-! ### slots -/

theorem getD_set_cases {α} (l : List α) (j i : Nat) (x d : α) :
    (l.set j x).getD i d = if i = j ∧ j < l.length then x else l.getD i d := by
  simp only [List.getD_eq_getElem?_getD, List.getElem?_set]
  by_cases h : j = i
  · subst h
    by_cases hl : j < l.length
    · simp [hl]
    · simp [hl]
  · have : ¬ (i = j) := fun e => h e.symm
    simp [h, this]

theorem get_put (w : World) (j i : Nat) (x : Option Alarm) :
    (w.put j x).get i = if i = j ∧ j < w.slots.length then x else w.get i := by
  unfold World.get World.put; exact getD_set_cases _ _ _ _ _

theorem get_lt {w : World} {j : Nat} {a : Alarm} (h : w.get j = some a) : j < w.slots.length := by
  unfold World.get at h
  rw [List.getD_eq_getElem?_getD] at h
  by_cases hl : j < w.slots.length
  · exact hl
  · rw [List.getElem?_eq_none (by omega)] at h; simp at h

theorem get_put_self {w : World} {j : Nat} {a : Alarm} (h : w.get j = some a) (x : Option Alarm) :
    (w.put j x).get j = x := by
  rw [get_put]; simp [get_lt h]

theorem get_put_ne (w : World) {j i : Nat} (x : Option Alarm) (h : i ≠ j) : (w.put j x).get i = w.get i := by
  rw [get_put]; simp [h]

theorem alive_put (w : World) (j i : Nat) (x : Alarm) (h : (w.get i).isSome = true) :
    ((w.put j (some x)).get i).isSome = true := by
  rw [get_put]; split
  · rfl
  · exact h

theorem mem_filter_ne {l : List Nat} {i j : Nat} (h : i ∈ l.filter (· != j)) : i ∈ l ∧ i ≠ j := by
  simp only [List.mem_filter, bne_iff_ne, ne_eq] at h; exact h

/-- slot `i` holds an ENABLED WORKDAY alarm -/
def RunWd (w : World) (i : Nat) : Prop := ∃ a, w.get i = some a ∧ a.st = .running ∧ a.cls = .workday

structure WInv (w : World) : Prop where
  alarms : ∀ j a, w.get j = some a → AInv a
  /-- the calendar's watch list holds enabled workday alarms only (patches/C20-11: subscribed exactly while enabled) -/
  watch : ∀ j, j ∈ w.watch → RunWd w j
  log : ∀ ev, ev ∈ w.log → ev.wasRunning = true ∧ (ev.inRange = true → ev.prev < ev.instant)
  /-- once the calendar is gone no workday alarm is enabled -/
  dead : w.calAlive = false → ∀ j a, w.get j = some a → a.cls = .workday → a.st ≠ .running
  /-- the calendar was never dereferenced after its destruction -/
  uaf : w.uaf = false

theorem wInit_get (j : Nat) : wInit.get j = none := by
  unfold wInit World.get
  match j with
  | 0 => rfl
  | 1 => rfl
  | 2 => rfl
  | 3 => rfl
  | j + 4 => simp [wInit]

theorem wInit_inv : WInv wInit := by
  refine ⟨?_, by simp [wInit], by simp [wInit], ?_, rfl⟩
  · intro j a h; rw [wInit_get] at h; cases h
  · intro _ j a h; rw [wInit_get] at h; cases h

theorem touch_get (w : World) (c : Bool) (i : Nat) : (w.touchCal c).get i = w.get i := by
  unfold World.touchCal; split <;> rfl
theorem touch_watch (w : World) (c : Bool) : (w.touchCal c).watch = w.watch := by
  unfold World.touchCal; split <;> rfl
theorem touch_log (w : World) (c : Bool) : (w.touchCal c).log = w.log := by
  unfold World.touchCal; split <;> rfl
theorem touch_alive (w : World) (c : Bool) : (w.touchCal c).calAlive = w.calAlive := by
  unfold World.touchCal; split <;> rfl
theorem touch_uaf (w : World) (c : Bool) (h : w.uaf = false) (hc : c = true → w.calAlive = true) : (w.touchCal c).uaf = false := by
  unfold World.touchCal; split
  · rename_i hcc; simp [h, hc hcc]
  · exact h

/-- the general step on slot `j`: the alarm `a` there is replaced by `x` (or removed), the watch list becomes `l`, and the
calendar is touched iff `c` -/
theorem winv_slot (w : World) (j : Nat) (a : Alarm) (x : Option Alarm) (l : List Nat) (c : Bool) (h : WInv w) (hg : w.get j = some a)
    (hx : ∀ b, x = some b → AInv b)
    (hl : ∀ i, i ∈ l → (i = j ∧ ∃ b, x = some b ∧ b.st = .running ∧ b.cls = .workday) ∨ (i ≠ j ∧ i ∈ w.watch))
    (hd : w.calAlive = false → ∀ b, x = some b → b.cls = .workday → b.st ≠ .running)
    (hc : c = true → w.calAlive = true) :
    WInv (({ w.put j x with watch := l } : World).touchCal c) := by
  have hput : ∀ i, ({ w.put j x with watch := l } : World).get i = (w.put j x).get i := fun _ => rfl
  refine ⟨?_, ?_, ?_, ?_, ?_⟩
  · intro i b hi
    rw [touch_get, hput, get_put] at hi
    split at hi
    · exact hx b hi
    · exact h.alarms i b hi
  · intro i hi
    rw [touch_watch] at hi
    unfold RunWd
    rcases hl i hi with ⟨rfl, b, hb, h1, h2⟩ | ⟨hne, hm⟩
    · exact ⟨b, by rw [touch_get, hput, get_put_self hg]; exact hb, h1, h2⟩
    · obtain ⟨b, hb, h1, h2⟩ := h.watch i hm
      exact ⟨b, by rw [touch_get, hput, get_put_ne w x hne]; exact hb, h1, h2⟩
  · intro ev hev; rw [touch_log] at hev; exact h.log ev hev
  · intro hdead i b hi
    rw [touch_alive] at hdead
    rw [touch_get, hput, get_put] at hi
    split at hi
    · exact hd hdead b hi
    · exact h.dead hdead i b hi
  · exact touch_uaf _ c h.uaf hc

/-- watch list unchanged: fine when `j` stays an enabled workday alarm if it was listed -/
theorem keep_watch (w : World) (j : Nat) (x : Option Alarm) (h : WInv w)
    (hk : j ∈ w.watch → ∃ b, x = some b ∧ b.st = .running ∧ b.cls = .workday) :
    ∀ i, i ∈ w.watch → (i = j ∧ ∃ b, x = some b ∧ b.st = .running ∧ b.cls = .workday) ∨ (i ≠ j ∧ i ∈ w.watch) := by
  intro i hi
  by_cases hij : i = j
  · subst hij; exact Or.inl ⟨rfl, hk hi⟩
  · exact Or.inr ⟨hij, hi⟩

theorem drop_watch (w : World) (j : Nat) (x : Option Alarm) :
    ∀ i, i ∈ w.watch.filter (· != j) → (i = j ∧ ∃ b, x = some b ∧ b.st = .running ∧ b.cls = .workday) ∨ (i ≠ j ∧ i ∈ w.watch) := by
  intro i hi
  simp only [List.mem_filter, bne_iff_ne, ne_eq] at hi
  exact Or.inr ⟨hi.2, hi.1⟩

theorem add_watch (w : World) (j : Nat) (b : Alarm) (h1 : b.st = .running) (h2 : b.cls = .workday) :
    ∀ i, i ∈ w.watch ++ [j] → (i = j ∧ ∃ b', some b = some b' ∧ b'.st = .running ∧ b'.cls = .workday) ∨ (i ≠ j ∧ i ∈ w.watch) := by
  intro i hi
  by_cases hij : i = j
  · exact Or.inl ⟨hij, b, rfl, h1, h2⟩
  · rcases List.mem_append.mp hi with hi | hi
    · exact Or.inr ⟨hij, hi⟩
    · simp only [List.mem_singleton] at hi; exact absurd hi hij

/-- a listed slot holds an enabled workday alarm: an alarm that is not one is not listed -/
theorem not_listed {w : World} {j : Nat} {a : Alarm} (h : WInv w) (hg : w.get j = some a)
    (hn : ¬ (a.st = .running ∧ a.cls = .workday)) : j ∉ w.watch := by
  intro hm
  obtain ⟨b, hb, h1, h2⟩ := h.watch j hm
  rw [hg] at hb; cases hb
  exact hn ⟨h1, h2⟩

/-! ### what each operation does to class and state -/
theorem activeTimer_cls (a : Alarm) (e : Env) : (activeTimer a e).1.cls = a.cls := (activeTimer_fields a e).1

theorem rearm_cls (a : Alarm) (e : Env) : (rearm a e).cls = a.cls := (rearm_fields a e).1

theorem enable_cls (a : Alarm) (e : Env) : (enable a e).1.cls = a.cls := by
  unfold enable
  split
  · simp only
    have hs : (subscribe a).cls = a.cls := by unfold subscribe; split <;> rfl
    split
    · simp only [bump]; rw [activeTimer_cls, hs]
    · rw [(unsubscribe_fields _).2.2.2.2.1, activeTimer_cls, hs]
  · rfl

theorem enable_st (a : Alarm) (e : Env) (hi : a.st = .inited) :
    ((enable a e).2 = true → (enable a e).1.st = .running) ∧ ((enable a e).2 = false → (enable a e).1.st ≠ .running) := by
  have hs : (subscribe a).st = .inited := by unfold subscribe; split <;> simp [hi]
  unfold enable
  simp only [hi, if_true]
  rcases activeTimer_cases (subscribe a) e with ⟨h1, h2, _⟩ | ⟨h1, h2⟩
  · rw [if_pos h1]
    exact ⟨fun _ => by simp only [bump]; exact h2, fun hf => by simp at hf⟩
  · rw [if_neg (by rw [h1]; simp)]
    refine ⟨fun hf => by simp at hf, fun _ => ?_⟩
    show (unsubscribe (activeTimer (subscribe a) e).1).st ≠ .running
    rw [(unsubscribe_fields _).1, h2, hs]; simp

theorem enable_other (a : Alarm) (e : Env) (hi : a.st ≠ .inited) : enable a e = (a, false) := by
  unfold enable; simp [hi]

theorem refresh_cls (a : Alarm) (e : Env) : (refresh a e).cls = a.cls := by
  unfold refresh; split
  · rw [rearm_cls]
  · rfl

theorem expire_cls (a : Alarm) (e : Env) : (expire a e).1.cls = a.cls := by
  unfold expire; split
  · rfl
  · rw [rearm_cls]

theorem disable_cls (a : Alarm) : (disable a).1.cls = a.cls := (disable_fields a).1
theorem cleanup_cls (a : Alarm) : (cleanup a).cls = a.cls := (cleanup_fields a).1

theorem initAlarm_run (a : Alarm) (sod : Int) (m : List Bool) (wd : Bool) (hr : a.st = .running) : (initAlarm a sod m wd).1 = a := by
  unfold initAlarm initClassic; simp [hr]
theorem initCron_run (a : Alarm) (x : Option Cron.Expr) (hr : a.st = .running) : (initCron a x).1 = a := by
  unfold initCron; simp [hr]

/-- an operation that keeps class, and keeps "enabled" for an enabled alarm, keeps the invariant with the watch list as it is -/
theorem winv_same (w : World) (j : Nat) (a x : Alarm) (h : WInv w) (hg : w.get j = some a) (hx : AInv x)
    (hcls : x.cls = a.cls) (hrun : a.st = .running → x.st = .running) (hidle : a.st ≠ .running → x.st ≠ .running) :
    WInv (w.put j (some x)) := by
  have := winv_slot w j a (some x) w.watch false h hg (fun b hb => by cases hb; exact hx)
    (keep_watch w j (some x) h (fun hm => by
      obtain ⟨b, hb, h1, h2⟩ := h.watch j hm
      rw [hg] at hb; cases hb
      exact ⟨x, rfl, hrun h1, by rw [hcls]; exact h2⟩))
    (fun hdead b hb hc => by
      cases hb
      by_cases hr : a.st = .running
      · exact absurd hr (h.dead hdead j a hg (by rw [← hcls]; exact hc))
      · exact hidle hr)
    (fun hc => by cases hc)
  exact this

theorem wEnable_inv (w : World) (j : Nat) (h : WInv w) (hv : enableNeedsDeadCal w j = false) : WInv (wEnable w j).1 := by
  unfold wEnable
  cases hg : w.get j with
  | none => exact h
  | some a =>
    simp only
    have hx := enable_ainv a w.env (h.alarms j a hg)
    have hcls := enable_cls a w.env
    by_cases hsub : a.st = .inited ∧ a.cls = .workday
    · have halive : w.calAlive = true := by
        unfold enableNeedsDeadCal at hv
        simp only [hg, hsub.1, hsub.2, and_self, decide_true, Bool.true_and, Bool.not_eq_false'] at hv
        exact hv
      obtain ⟨s1, s2⟩ := enable_st a w.env hsub.1
      simp only [hsub, and_self, decide_true, if_true]
      by_cases hok : (enable a w.env).2 = true
      · simp only [hok, if_true]
        exact winv_slot w j a _ _ true h hg (fun b hb => by cases hb; exact hx)
          (add_watch w j _ (s1 hok) (by rw [hcls]; exact hsub.2))
          (fun hd => by rw [halive] at hd; cases hd) (fun _ => halive)
      · simp only [hok]
        exact winv_slot w j a _ _ true h hg (fun b hb => by cases hb; exact hx)
          (drop_watch w j _)
          (fun hd => by rw [halive] at hd; cases hd) (fun _ => halive)
    · simp only [hsub, decide_false]
      by_cases hi : a.st = .inited
      · have hnw : a.cls ≠ .workday := fun hc => hsub ⟨hi, hc⟩
        have := winv_slot w j a (some (enable a w.env).1) w.watch false h hg (fun b hb => by cases hb; exact hx)
          (keep_watch w j _ h (fun hm => absurd hm (not_listed h hg (fun hh => hnw hh.2))))
          (fun _ b hb hc => by cases hb; rw [hcls] at hc; exact absurd hc hnw) (fun hc => by cases hc)
        exact this
      · rw [enable_other a w.env hi]
        exact winv_same w j a a h hg (h.alarms j a hg) rfl id id

theorem wDisable_inv (w : World) (j : Nat) (h : WInv w) : WInv (wDisable w j).1 := by
  unfold wDisable
  cases hg : w.get j with
  | none => exact h
  | some a =>
    simp only
    have hx := disable_ainv a (h.alarms j a hg)
    have hidle := (disable_inv a (h.alarms j a hg).inv).2
    by_cases hsub : a.st = .running ∧ a.cls = .workday
    · simp only [hsub, and_self, decide_true, if_true]
      have halive : w.calAlive = true := by
        cases hc : w.calAlive with
        | true => rfl
        | false => exact absurd hsub.1 (h.dead hc j a hg hsub.2)
      exact winv_slot w j a _ _ true h hg (fun b hb => by cases hb; exact hx) (drop_watch w j _)
        (fun hd => by rw [halive] at hd; cases hd) (fun _ => halive)
    · simp only [hsub, decide_false]
      have := winv_slot w j a (some (disable a).1) w.watch false h hg (fun b hb => by cases hb; exact hx)
        (keep_watch w j _ h (fun hm => absurd hm (not_listed h hg hsub)))
        (fun _ b hb _ => by cases hb; exact hidle) (fun hc => by cases hc)
      exact this

theorem refresh_run (a : Alarm) (e : Env) (h : a.st ≠ .running) : (refresh a e).st ≠ .running := by
  rw [refresh_idle a e h]; exact h

theorem wRefresh_inv (w : World) (j : Nat) (h : WInv w) : WInv (wRefresh w j) := by
  unfold wRefresh
  cases hg : w.get j with
  | none => exact h
  | some a =>
    simp only
    have hx := refresh_ainv a w.env (h.alarms j a hg)
    have hcls := refresh_cls a w.env
    by_cases hsub : a.st = .running ∧ a.cls = .workday
    · have halive : w.calAlive = true := by
        cases hc : w.calAlive with
        | true => rfl
        | false => exact absurd hsub.1 (h.dead hc j a hg hsub.2)
      simp only [hsub, and_self, decide_true, true_and]
      by_cases hr : (refresh a w.env).st = .running
      · simp only [hr, ne_eq, not_true_eq_false, if_false]
        exact winv_slot w j a _ _ true h hg (fun b hb => by cases hb; exact hx)
          (keep_watch w j _ h (fun _ => ⟨_, rfl, hr, by rw [hcls]; exact hsub.2⟩))
          (fun hd => by rw [halive] at hd; cases hd) (fun _ => halive)
      · simp only [hr, ne_eq, not_false_eq_true, if_true]
        exact winv_slot w j a _ _ true h hg (fun b hb => by cases hb; exact hx) (drop_watch w j _)
          (fun hd => by rw [halive] at hd; cases hd) (fun _ => halive)
    · simp only [hsub, decide_false, false_and, if_false]
      by_cases hrun : a.st = .running
      · have hnw : a.cls ≠ .workday := fun hc => hsub ⟨hrun, hc⟩
        have := winv_slot w j a (some (refresh a w.env)) w.watch false h hg (fun b hb => by cases hb; exact hx)
          (keep_watch w j _ h (fun hm => absurd hm (not_listed h hg hsub)))
          (fun _ b hb hc => by cases hb; rw [hcls] at hc; exact absurd hc hnw) (fun hc => by cases hc)
        exact this
      · rw [refresh_idle a w.env hrun]
        exact winv_same w j a a h hg (h.alarms j a hg) rfl id id

theorem wCleanup_inv (w : World) (j : Nat) (h : WInv w) : WInv (wCleanup w j) := by
  unfold wCleanup
  cases hg : w.get j with
  | none => exact h
  | some a =>
    simp only
    have hx := cleanup_ainv a (h.alarms j a hg)
    have hidle := (cleanup_inv a (h.alarms j a hg).inv).2
    by_cases hsub : a.st = .running ∧ a.cls = .workday
    · simp only [hsub, and_self, decide_true, if_true]
      have halive : w.calAlive = true := by
        cases hc : w.calAlive with
        | true => rfl
        | false => exact absurd hsub.1 (h.dead hc j a hg hsub.2)
      exact winv_slot w j a _ _ true h hg (fun b hb => by cases hb; exact hx) (drop_watch w j _)
        (fun hd => by rw [halive] at hd; cases hd) (fun _ => halive)
    · simp only [hsub, decide_false]
      have := winv_slot w j a (some (cleanup a)) w.watch false h hg (fun b hb => by cases hb; exact hx)
        (keep_watch w j _ h (fun hm => absurd hm (not_listed h hg hsub)))
        (fun _ b hb _ => by cases hb; exact hidle) (fun hc => by cases hc)
      exact this

/-- destruction (patches/C20-03 + C20-11): an enabled workday alarm unsubscribes (the calendar is alive then); any other
alarm is not on the watch list and its destructor does not touch the calendar -/
theorem wDestroy_inv (w : World) (j : Nat) (h : WInv w) : WInv (wDestroy w j) := by
  unfold wDestroy
  cases hg : w.get j with
  | none => exact h
  | some a =>
    simp only
    by_cases hsub : a.st = .running ∧ a.cls = .workday
    · simp only [hsub, and_self, decide_true, if_true]
      have halive : w.calAlive = true := by
        cases hc : w.calAlive with
        | true => rfl
        | false => exact absurd hsub.1 (h.dead hc j a hg hsub.2)
      exact winv_slot w j a none _ true h hg (fun b hb => by cases hb) (drop_watch w j _)
        (fun _ b hb => by cases hb) (fun _ => halive)
    · simp only [hsub, decide_false]
      have := winv_slot w j a none w.watch false h hg (fun b hb => by cases hb)
        (keep_watch w j _ h (fun hm => absurd hm (not_listed h hg hsub)))
        (fun _ b hb => by cases hb) (fun hc => by cases hc)
      exact this

theorem wRefresh_watch_sub (w : World) (j i : Nat) (hi : i ∈ (wRefresh w j).watch) : i ∈ w.watch := by
  unfold wRefresh at hi
  cases hg : w.get j with
  | none => rw [hg] at hi; exact hi
  | some a =>
    rw [hg] at hi
    simp only [touch_watch] at hi
    split at hi
    · exact (mem_filter_ne hi).1
    · exact hi

/-- the refresh loop of a calendar update (over a snapshot of the watch list): never meets a destroyed alarm -/
theorem calLoop_inv : ∀ (l : List Nat) (w : World) (b : Bool), WInv w → (∀ j, j ∈ l → (w.get j).isSome = true) →
    WInv (l.foldl (fun (acc : World × Bool) j => match acc.1.get j with
        | none => (acc.1, true)
        | some _ => (wRefresh acc.1 j, acc.2)) (w, b)).1 ∧
    (l.foldl (fun (acc : World × Bool) j => match acc.1.get j with
        | none => (acc.1, true)
        | some _ => (wRefresh acc.1 j, acc.2)) (w, b)).2 = b := by
  intro l
  induction l with
  | nil => intro w b h _; exact ⟨h, rfl⟩
  | cons j l ih =>
    intro w b h hl
    simp only [List.foldl_cons]
    have hj := hl j (by simp)
    cases hg : w.get j with
    | none => rw [hg] at hj; cases hj
    | some a =>
      simp only
      refine ih (wRefresh w j) b (wRefresh_inv w j h) (fun i hi => ?_)
      have := hl i (by simp [hi])
      unfold wRefresh
      rw [hg]
      simp only [touch_get]
      show ((w.put j (some (refresh a w.env))).get i).isSome = true
      exact alive_put w j i _ this

theorem wCalUpdate_inv (w : World) (cal : Calendar) (h : WInv w) :
    WInv (wCalUpdate w cal).1 ∧ (wCalUpdate w cal).2 = false := by
  unfold wCalUpdate
  have h' : WInv { w with cal := cal } := ⟨h.alarms, h.watch, h.log, h.dead, h.uaf⟩
  exact calLoop_inv w.watch { w with cal := cal } false h' (fun j hj => by
    obtain ⟨a, ha, _⟩ := h.watch j hj
    show (w.get j).isSome = true
    rw [ha]; rfl)

theorem wInitOp_inv (w : World) (j : Nat) (sod : Int) (m : List Bool) (wd : Bool) (h : WInv w) : WInv (wInitOp w j sod m wd).1 := by
  unfold wInitOp
  cases hg : w.get j with
  | none => exact h
  | some a =>
    simp only
    split
    · exact h
    · by_cases hr : a.st = .running
      · rw [initAlarm_run a sod m wd hr]
        exact winv_same w j a a h hg (h.alarms j a hg) rfl id id
      · exact winv_same w j a _ h hg (initAlarm_ainv a sod m wd (h.alarms j a hg)) (initAlarm_fields a sod m wd).1
          (fun hh => absurd hh hr) (fun _ => initAlarm_st a sod m wd hr)

theorem wTz_inv (w : World) (j : Nat) (m : Int) (h : WInv w) : WInv (wTz w j m).1 := by
  unfold wTz
  cases hg : w.get j with
  | none => exact h
  | some a => exact winv_same w j a _ h hg (ainv_congr (b := setTimezone a m) (h.alarms j a hg) rfl rfl rfl rfl rfl rfl) rfl id id

theorem wSetCb_inv (w : World) (j : Nat) (h : WInv w) : WInv (wSetCb w j).1 := by
  unfold wSetCb
  cases hg : w.get j with
  | none => exact h
  | some a => exact winv_same w j a _ h hg (ainv_congr (b := { a with hasCb := true }) (h.alarms j a hg) rfl rfl rfl rfl rfl rfl) rfl id id

theorem wInitc_inv (w : World) (j : Nat) (x : Option Cron.Expr) (h : WInv w) : WInv (wInitc w j x).1 := by
  unfold wInitc
  cases hg : w.get j with
  | none => exact h
  | some a =>
    simp only
    by_cases hr : a.st = .running
    · rw [initCron_run a x hr]
      exact winv_same w j a a h hg (h.alarms j a hg) rfl id id
    · exact winv_same w j a _ h hg (initCron_ainv a x (h.alarms j a hg)) (initCron_fields a x).1
        (fun hh => absurd hh hr) (fun _ => initCron_st a x hr)

theorem applyAct_inv (w : World) (a : Act) (h : WInv w) : WInv (applyAct w a) := by
  cases a with
  | gtod ok => exact ⟨h.alarms, h.watch, h.log, h.dead, h.uaf⟩
  | initc j x => exact wInitc_inv w j x h
  | cleanup j => exact wSetCb_inv _ j (wCleanup_inv w j h)
  | init j sod m wd => exact wInitOp_inv w j sod m wd h
  | tz j m => exact wTz_inv w j m h
  | refresh j => exact wRefresh_inv w j h
  | disable j => exact wDisable_inv w j h
  | enable j =>
    simp only [applyAct]
    cases hv : enableNeedsDeadCal w j with
    | true => exact h
    | false => exact wEnable_inv w j h hv
  | destroy j => exact wDestroy_inv w j h
  | calMask m => simp only [applyAct]; split; exact (wCalUpdate_inv w _ h).1; exact h
  | calSp sp => simp only [applyAct]; split; exact (wCalUpdate_inv w _ h).1; exact h

theorem runScript_inv : ∀ (l : List Act) (w : World), WInv w → WInv (runScript w l) := by
  intro l
  induction l with
  | nil => intro w h; exact h
  | cons a l ih => intro w h; exact ih _ (applyAct_inv w a h)

theorem canFire_armed {w : World} {j : Nat} (h : canFire w j = true) :
    ∃ a d, w.get j = some a ∧ a.timer = some d ∧ d ≤ w.monoMs := by
  unfold canFire at h
  cases hg : w.get j with
  | none => simp [hg] at h
  | some a =>
    cases ht : a.timer with
    | none => simp [hg, ht] at h
    | some d =>
      simp only [hg, ht, Bool.and_eq_true, decide_eq_true_eq] at h
      exact ⟨a, d, rfl, ht, h.1⟩

theorem wFire_inv (w : World) (j : Nat) (h : WInv w) (hc : canFire w j = true) : WInv (wFire w j) := by
  obtain ⟨a, d, hg, ht, _⟩ := canFire_armed hc
  have ha := h.alarms j a hg
  have hrun : a.st = .running := ha.inv.mpr (by simp [ht])
  unfold wFire
  simp only [hg]
  have hx := expire_ainv a w.env ha
  have hcls := expire_cls a w.env
  have hlog : ∀ ev, ev ∈ (Served.mk j (expire a w.env).2.1 a.lastServed (expire a w.env).2.2 (!a.wrapped)) :: w.log →
      ev.wasRunning = true ∧ (ev.inRange = true → ev.prev < ev.instant) := by
    intro ev hev
    simp only [List.mem_cons] at hev
    rcases hev with hev | hev
    · subst hev
      simp only [expire_served, hrun, decide_true, Bool.not_eq_eq_eq_not, Bool.not_true, true_and]
      intro hf
      exact ha.k hrun hf
    · exact h.log ev hev
  -- the slot/watch/calendar part, then the log
  have key : ∀ (l : List Nat) (c : Bool),
      (∀ i, i ∈ l → (i = j ∧ ∃ b, some (expire a w.env).1 = some b ∧ b.st = .running ∧ b.cls = .workday) ∨ (i ≠ j ∧ i ∈ w.watch)) →
      (c = true → w.calAlive = true) → (w.calAlive = false → a.cls = .workday → False) →
      WInv (({ w.put j (some (expire a w.env).1) with
        log := { slot := j, instant := (expire a w.env).2.1, prev := a.lastServed, wasRunning := (expire a w.env).2.2,
                 inRange := !a.wrapped } :: w.log, watch := l } : World).touchCal c) := by
    intro l c hl hcc hdd
    have h1 := winv_slot w j a (some (expire a w.env).1) l c h hg (fun b hb => by cases hb; exact hx) hl
      (fun hd b hb hcl => by cases hb; rw [hcls] at hcl; exact absurd (hdd hd hcl) id) hcc
    refine ⟨?_, ?_, ?_, ?_, ?_⟩
    · intro i b hi; rw [touch_get] at hi; exact h1.alarms i b (by rw [touch_get]; exact hi)
    · intro i hi
      rw [touch_watch] at hi
      obtain ⟨b, hb, r1, r2⟩ := h1.watch i (by rw [touch_watch]; exact hi)
      exact ⟨b, by rw [touch_get] at hb ⊢; exact hb, r1, r2⟩
    · intro ev hev; rw [touch_log] at hev; exact hlog ev hev
    · intro hd i b hi
      rw [touch_alive] at hd; rw [touch_get] at hi
      exact h1.dead (by rw [touch_alive]; exact hd) i b (by rw [touch_get]; exact hi)
    · exact touch_uaf _ c h.uaf hcc
  have hdd : w.calAlive = false → a.cls = .workday → False := fun hd hcl => h.dead hd j a hg hcl hrun
  have halive : a.cls = .workday → w.calAlive = true := fun hcl => by
    cases hc' : w.calAlive with
    | true => rfl
    | false => exact absurd hcl (fun hh => hdd hc' hh)
  have h2 : WInv (({ w.put j (some (expire a w.env).1) with
        log := { slot := j, instant := (expire a w.env).2.1, prev := a.lastServed, wasRunning := (expire a w.env).2.2,
                 inRange := !a.wrapped } :: w.log,
        watch := if decide (a.cls = .workday) = true ∧ (expire a w.env).1.st ≠ .running then w.watch.filter (· != j) else w.watch } : World).touchCal
          (decide (a.cls = .workday))) := by
    by_cases hw : a.cls = .workday
    · by_cases hr : (expire a w.env).1.st = .running
      · simp only [hw, decide_true, hr, ne_eq, not_true_eq_false, and_false, if_false]
        exact key _ true (keep_watch w j _ h (fun _ => ⟨_, rfl, hr, by rw [hcls]; exact hw⟩)) (fun _ => halive hw) hdd
      · simp only [hw, decide_true, hr, ne_eq, not_false_eq_true, and_self, if_true]
        exact key _ true (drop_watch w j _) (fun _ => halive hw) hdd
    · simp only [hw, decide_false, Bool.false_eq_true, false_and, if_false]
      exact key _ false (keep_watch w j _ h (fun hm => absurd hm (not_listed h hg (fun hh => hw hh.2)))) (fun hc' => by cases hc') hdd
  split
  · exact runScript_inv _ _ h2
  · exact h2

theorem anyRun_false {w : World} (h : anyWorkdayRunning w = false) : ∀ j a, w.get j = some a → a.cls = .workday → a.st ≠ .running := by
  intro j a hg hc hr
  unfold anyWorkdayRunning at h
  rw [List.any_eq_false] at h
  unfold World.get at hg
  rw [List.getD_eq_getElem?_getD] at hg
  cases hq : w.slots[j]? with
  | none => rw [hq] at hg; simp at hg
  | some o =>
    rw [hq] at hg
    simp only [Option.getD_some] at hg
    have hm : o ∈ w.slots := List.mem_of_getElem? hq
    have := h o hm
    rw [hg] at this
    simp [hc, hr] at this

theorem wOp_inv (w : World) (o : WOp) (h : WInv w) (hv : wValid w (.op o) = true) : WInv (wOp w o).1 := by
  cases o with
  | new j c sc =>
    cases hg : w.get j with
    | some a => simp only [wOp, hg]; exact h
    | none =>
      simp only [wOp, hg]
      refine ⟨?_, ?_, h.log, ?_, h.uaf⟩
      · intro i a hi
        have hi' : (w.put j (some (fresh c))).get i = some a := hi
        rw [get_put] at hi'
        split at hi'
        · cases hi'; exact fresh_ainv c
        · exact h.alarms i a hi'
      · intro i hi
        obtain ⟨b, hb, h1, h2⟩ := h.watch i hi
        have hne : i ≠ j := fun he => by subst he; rw [hg] at hb; cases hb
        exact ⟨b, by show (w.put j (some (fresh c))).get i = some b; rw [get_put_ne w _ hne]; exact hb, h1, h2⟩
      · intro hd i a hi
        have hi' : (w.put j (some (fresh c))).get i = some a := hi
        rw [get_put] at hi'
        split at hi'
        · cases hi'; intro _; unfold fresh; simp
        · exact h.dead hd i a hi'
  | init j sod m wd => exact wInitOp_inv w j sod m wd h
  | initc j x => exact wInitc_inv w j x h
  | tz j m => exact wTz_inv w j m h
  | enable j =>
    have : enableNeedsDeadCal w j = false := by simpa [wValid] using hv
    exact wEnable_inv w j h this
  | disable j => exact wDisable_inv w j h
  | refresh j => exact wRefresh_inv w j h
  | cleanup j => exact wCleanup_inv w j h
  | setCb j => exact wSetCb_inv w j h
  | destroy j => exact wDestroy_inv w j h
  | calMask m => exact (wCalUpdate_inv w _ h).1
  | calSp sp => exact (wCalUpdate_inv w _ h).1
  | adv d => exact ⟨h.alarms, h.watch, h.log, h.dead, h.uaf⟩
  | mono d => exact ⟨h.alarms, h.watch, h.log, h.dead, h.uaf⟩
  | wall v => exact ⟨h.alarms, h.watch, h.log, h.dead, h.uaf⟩
  | gtod ok => exact ⟨h.alarms, h.watch, h.log, h.dead, h.uaf⟩
  | caldel =>
    have hv' : w.calAlive = true ∧ anyWorkdayRunning w = false := by simpa [wValid] using hv
    exact ⟨h.alarms, by simp [wOp], h.log, fun _ => anyRun_false hv'.2, h.uaf⟩

theorem wExec_inv : ∀ (sts : List WStep) (w w' : World), WInv w → wExec w sts = some w' → WInv w' := by
  intro sts
  induction sts with
  | nil => intro w w' h he; simp only [wExec, Option.some.injEq] at he; subst he; exact h
  | cons st sts ih =>
    intro w w' h he
    unfold wExec at he
    split at he
    · rename_i hv
      apply ih _ w' _ he
      cases st with
      | op o => exact wOp_inv w o h hv
      | fire j => exact wFire_inv w j h hv
    · cases he

/-- refresh() twice under the same clocks and calendar arms what the first refresh() armed -/
theorem refresh_again (a : Alarm) (e : Env) :
    (refresh (refresh a e) e).target = (refresh a e).target ∧ (refresh (refresh a e) e).timer = (refresh a e).timer ∧
    (refresh (refresh a e) e).st = (refresh a e).st := by
  by_cases hr : a.st = .running
  · have h0 : refresh a e = rearm { a with st := .inited, timer := none, target := 0 } e := by unfold refresh; simp [hr]
    rcases rearm_cases { a with st := .inited, timer := none, target := 0 } e with ⟨hok, heq⟩ | ⟨_, heq⟩
    · have hg := activeTimer_ok_clock _ e hok
      cases hc : calcNext { a with st := .inited, timer := none, target := 0 } e.cal
          (addOff (Alarm.base { a with st := .inited, timer := none, target := 0 } e) (Alarm.offset { a with st := .inited, timer := none, target := 0 })) with
      | none => rw [activeTimer_of_none _ e hc] at hok; cases hok
      | some nl =>
        have hb := activeTimer_of_some _ e nl hg hc
        rw [h0, heq, hb]
        simp only
        generalize hB : armed { a with st := .inited, timer := none, target := 0 } e _ _ = b
        have hbr : b.st = .running := by rw [← hB]; rfl
        have h1 : refresh b e = rearm { b with st := .inited, timer := none, target := 0 } e := by unfold refresh; simp [hbr]
        have hc2 : calcNext { b with st := .inited, timer := none, target := 0 } e.cal
            (addOff (Alarm.base { b with st := .inited, timer := none, target := 0 } e) (Alarm.offset { b with st := .inited, timer := none, target := 0 })) = some nl := by
          rw [← hc, ← hB]; rfl
        have hb2 := activeTimer_of_some _ e nl hg hc2
        have : rearm { b with st := .inited, timer := none, target := 0 } e = (activeTimer { b with st := .inited, timer := none, target := 0 } e).1 := by
          unfold rearm; rw [hb2]; rfl
        rw [h1, this, hb2, ← hB]
        exact ⟨rfl, rfl, rfl⟩
    · have hi : (refresh a e).st ≠ .running := by rw [h0, heq, (unsubscribe_fields _).1]; simp
      rw [refresh_idle _ e hi]; exact ⟨rfl, rfl, rfl⟩
  · rw [refresh_idle a e hr, refresh_idle a e hr]; exact ⟨rfl, rfl, rfl⟩

end Tbox.C20
