/- C20 — invariants of the world model (several alarms, calendar watch list, callback scripts, destruction) -/
import TboxModel.C20.WModel
import TboxModel.C20.HistProofs
namespace Tbox.C20

/-- while enabled (and never armed outside the no-wrap range), the armed target lies strictly after the
last served instant -/
def KInv (a : Alarm) : Prop :=
  a.st = .running → a.wrapped = false → a.lastServed < a.target

/-- everything the world keeps true of each alarm -/
structure AInv (a : Alarm) : Prop where
  inv : Inv a
  sod : a.sod < D
  k : KInv a

theorem kinv_of_idle {a : Alarm} (h : a.st ≠ .running) : KInv a := fun hr => absurd hr h

theorem activeTimer_K (a : Alarm) (e : Env) (hs : a.sod < D) (hk : KInv a) : KInv (activeTimer a e).1 := by
  rcases activeTimer_cases a e with ⟨hok, _, _⟩ | ⟨_, heq⟩
  · cases hc : calcNext a e.cal (addOff (a.base e) a.offset) with
    | none => rw [activeTimer_of_none a e hc] at hok; cases hok
    | some nl =>
      intro _ hw
      rw [activeTimer_of_some a e nl hc] at hw ⊢
      simp only [armed, Bool.or_eq_false_iff, Bool.not_eq_false', decide_eq_true_eq] at hw
      obtain ⟨_, T, d, _, heq, _, h2, _, _⟩ := activeTimer_spec a e hs hw.1.2 hw.2 (by rw [activeTimer_of_some a e nl hc])
      rw [activeTimer_of_some a e nl hc] at heq
      have hT := congrArg (fun p => p.1.target) heq
      simp only [armed_target] at hT ⊢
      simp only [armed_lastServed]
      have := (base_ge a e).2.2
      omega
  · rw [heq]; exact hk

theorem fresh_ainv (c : Cls) : AInv (fresh c) :=
  ⟨fresh_inv c, by unfold fresh; simp [D_eq], kinv_of_idle (by unfold fresh; simp)⟩

theorem initAlarm_ainv (a : Alarm) (sod : Int) (m : List Bool) (wd : Bool) (h : AInv a) : AInv (initAlarm a sod m wd).1 := by
  refine ⟨initAlarm_inv a sod m wd h.inv, ?_, ?_⟩
  · unfold initAlarm
    split
    · exact h.sod
    unfold initClassic
    split
    · exact h.sod
    · split
      · exact h.sod
      · rename_i hr
        split
        · exact h.sod
        · simp only [D_eq]; omega
  · by_cases hr : (initAlarm a sod m wd).1.st = .running
    · have : a.st = .running := by
        cases hst : a.st with
        | running => rfl
        | none => exact absurd hr (initAlarm_st a sod m wd (by rw [hst]; simp))
        | inited => exact absurd hr (initAlarm_st a sod m wd (by rw [hst]; simp))
      have heq : (initAlarm a sod m wd).1 = a := by
        unfold initAlarm initClassic; simp [this]
      rw [heq]; exact h.k
    · exact kinv_of_idle hr

theorem initCron_ainv (a : Alarm) (x : Option Cron.Expr) (h : AInv a) : AInv (initCron a x).1 := by
  refine ⟨initCron_inv a x h.inv, ?_, ?_⟩
  · unfold initCron
    repeat' split
    all_goals exact h.sod
  · by_cases hr : (initCron a x).1.st = .running
    · have : a.st = .running := by
        cases hst : a.st with
        | running => rfl
        | none => exact absurd hr (initCron_st a x (by rw [hst]; simp))
        | inited => exact absurd hr (initCron_st a x (by rw [hst]; simp))
      have heq : (initCron a x).1 = a := by
        unfold initCron; simp [this]
      rw [heq]; exact h.k
    · exact kinv_of_idle hr

theorem ainv_congr {a b : Alarm} (h : AInv a) (h1 : b.st = a.st) (h2 : b.timer = a.timer) (h3 : b.sod = a.sod)
    (h5 : b.wrapped = a.wrapped) (h6 : b.lastServed = a.lastServed) (h7 : b.target = a.target) : AInv b :=
  ⟨inv_congr h1 h2 h.inv, by rw [h3]; exact h.sod, by unfold KInv; rw [h1, h5, h6, h7]; exact h.k⟩

theorem activeTimer_ainv (a : Alarm) (e : Env) (h : AInv a) : AInv (activeTimer a e).1 :=
  ⟨activeTimer_inv a e h.inv, by rw [(activeTimer_fields a e).2.2.2.2.2]; exact h.sod, activeTimer_K a e h.sod h.k⟩

theorem subscribe_ainv (a : Alarm) (h : AInv a) : AInv (subscribe a) := by
  unfold subscribe; split
  · exact ainv_congr h rfl rfl rfl rfl rfl rfl
  · exact h

theorem enable_ainv (a : Alarm) (e : Env) (h : AInv a) : AInv (enable a e).1 := by
  unfold enable
  split
  · have := activeTimer_ainv _ e (subscribe_ainv a h)
    simp only
    split
    · exact ainv_congr this rfl rfl rfl rfl rfl rfl
    · exact this
  · exact h

theorem disable_ainv (a : Alarm) (h : AInv a) : AInv (disable a).1 := by
  refine ⟨(disable_inv a h.inv).1, ?_, kinv_of_idle (disable_inv a h.inv).2⟩
  unfold disable; split
  · exact h.sod
  · exact h.sod

theorem cleanup_ainv (a : Alarm) (h : AInv a) : AInv (cleanup a) := by
  refine ⟨(cleanup_inv a h.inv).1, ?_, kinv_of_idle (cleanup_inv a h.inv).2⟩
  have := (disable_ainv a h).sod
  unfold cleanup; split
  · exact h.sod
  · exact this

theorem refresh_ainv (a : Alarm) (e : Env) (h : AInv a) : AInv (refresh a e) := by
  unfold refresh
  split
  · exact activeTimer_ainv _ e ⟨inv_of_idle (by simp) (by simp), h.sod, kinv_of_idle (by simp)⟩
  · exact h

theorem expire_ainv (a : Alarm) (e : Env) (h : AInv a) : AInv (expire a e).1 := by
  have h0 : AInv { a with timer := none, st := .inited, nFired := a.nFired + 1, lastServed := a.target } :=
    ⟨inv_of_idle (by simp) (by simp), h.sod, kinv_of_idle (by simp)⟩
  unfold expire
  split
  · exact h0
  · exact activeTimer_ainv _ e h0


/-! ### slots -/

theorem getD_set_cases {α} (l : List α) (j i : Nat) (x d : α) :
    (l.set j x).getD i d = if i = j ∧ j < l.length then x else l.getD i d := by
  simp only [List.getD_eq_getElem?_getD, List.getElem?_set]
  by_cases h : j = i
  · subst h
    by_cases hl : j < l.length
    · simp [hl]
    · simp [hl]
  · have : ¬ (i = j) := fun e => h e.symm
    simp [h, this]

theorem get_put (w : World) (j i : Nat) (x : Option Alarm) :
    (w.put j x).get i = if i = j ∧ j < w.slots.length then x else w.get i := by
  unfold World.get World.put; exact getD_set_cases _ _ _ _ _

theorem get_lt {w : World} {j : Nat} {a : Alarm} (h : w.get j = some a) : j < w.slots.length := by
  unfold World.get at h
  rw [List.getD_eq_getElem?_getD] at h
  by_cases hl : j < w.slots.length
  · exact hl
  · rw [List.getElem?_eq_none (by omega)] at h; simp at h

theorem get_put_self {w : World} {j : Nat} {a : Alarm} (h : w.get j = some a) (x : Option Alarm) :
    (w.put j x).get j = x := by
  rw [get_put]; simp [get_lt h]

theorem get_put_ne (w : World) {j i : Nat} (x : Option Alarm) (h : i ≠ j) : (w.put j x).get i = w.get i := by
  rw [get_put]; simp [h]

structure WInv (w : World) : Prop where
  alarms : ∀ j a, w.get j = some a → AInv a
  watch : ∀ j, j ∈ w.watch → (w.get j).isSome = true
  log : ∀ ev, ev ∈ w.log → ev.wasRunning = true ∧ (ev.inRange = true → ev.prev < ev.instant)

theorem wInit_inv : WInv wInit := by
  refine ⟨?_, by simp [wInit], by simp [wInit]⟩
  intro j a h
  unfold wInit World.get at h
  simp only at h
  match j, h with
  | 0, h => simp at h
  | 1, h => simp at h
  | 2, h => simp at h
  | 3, h => simp at h
  | j + 4, h => simp at h

/-- replacing (or creating) one slot by an alarm that satisfies the per-alarm invariant -/
theorem winv_put (w : World) (j : Nat) (x : Alarm) (h : WInv w) (hx : AInv x) : WInv (w.put j (some x)) := by
  refine ⟨?_, ?_, h.log⟩
  · intro i a hi
    rw [get_put] at hi
    split at hi
    · cases hi; exact hx
    · exact h.alarms i a hi
  · intro i hi
    have := h.watch i hi
    rw [get_put]; split
    · rfl
    · exact this

theorem alive_put (w : World) (j i : Nat) (x : Alarm) (h : (w.get i).isSome = true) :
    ((w.put j (some x)).get i).isSome = true := by
  rw [get_put]; split
  · rfl
  · exact h

theorem winv_watch (w : World) (l : List Nat) (h : WInv w) (hl : ∀ j, j ∈ l → (w.get j).isSome = true) :
    WInv { w with watch := l } := ⟨h.alarms, hl, h.log⟩

theorem wEnable_inv (w : World) (j : Nat) (h : WInv w) : WInv (wEnable w j).1 := by
  unfold wEnable
  cases hg : w.get j with
  | none => exact h
  | some a =>
    simp only
    have h1 := winv_put w j (enable a w.env).1 h (enable_ainv a w.env (h.alarms j a hg))
    apply winv_watch _ _ h1
    intro i hi
    split at hi
    · rcases List.mem_append.mp hi with hi | hi
      · exact h1.watch i hi
      · simp only [List.mem_singleton] at hi; subst hi
        rw [get_put_self hg]; rfl
    · exact h1.watch i hi

theorem mem_filter_ne {l : List Nat} {i j : Nat} (h : i ∈ l.filter (· != j)) : i ∈ l ∧ i ≠ j := by
  simp only [List.mem_filter, bne_iff_ne, ne_eq] at h; exact h

theorem wDisable_inv (w : World) (j : Nat) (h : WInv w) : WInv (wDisable w j).1 := by
  unfold wDisable
  cases hg : w.get j with
  | none => exact h
  | some a =>
    simp only
    have h1 := winv_put w j (disable a).1 h (disable_ainv a (h.alarms j a hg))
    apply winv_watch _ _ h1
    intro i hi
    split at hi
    · exact h1.watch i (mem_filter_ne hi).1
    · exact h1.watch i hi

theorem wRefresh_inv (w : World) (j : Nat) (h : WInv w) : WInv (wRefresh w j) := by
  unfold wRefresh
  cases hg : w.get j with
  | none => exact h
  | some a => exact winv_put w j _ h (refresh_ainv a w.env (h.alarms j a hg))

theorem wRefresh_alive (w : World) (j i : Nat) (h : (w.get i).isSome = true) : ((wRefresh w j).get i).isSome = true := by
  unfold wRefresh
  cases hg : w.get j with
  | none => exact h
  | some a => exact alive_put w j i _ h

theorem wRefresh_watch (w : World) (j : Nat) : (wRefresh w j).watch = w.watch := by
  unfold wRefresh; cases w.get j <;> rfl

theorem wCleanup_inv (w : World) (j : Nat) (h : WInv w) : WInv (wCleanup w j) := by
  unfold wCleanup
  cases hg : w.get j with
  | none => exact h
  | some a =>
    simp only
    have h1 := winv_put w j (cleanup a) h (cleanup_ainv a (h.alarms j a hg))
    apply winv_watch _ _ h1
    intro i hi
    split at hi
    · exact h1.watch i (mem_filter_ne hi).1
    · exact h1.watch i hi

/-- destruction (patched): the slot is gone and so is every watch-list entry that pointed to it -/
theorem wDestroy_inv (w : World) (j : Nat) (h : WInv w) : WInv (wDestroy w j) := by
  unfold wDestroy
  cases hg : w.get j with
  | none => exact h
  | some a =>
    refine ⟨?_, ?_, h.log⟩
    · intro i b hi
      have hi' : (w.put j none).get i = some b := hi
      rw [get_put] at hi'
      split at hi'
      · cases hi'
      · exact h.alarms i b hi'
    · intro i hi
      have hm := mem_filter_ne hi
      show ((w.put j none).get i).isSome = true
      rw [get_put_ne w none hm.2]; exact h.watch i hm.1

/-- the refresh loop of a calendar update: never meets a destroyed alarm, keeps the invariant -/
theorem calLoop_inv : ∀ (l : List Nat) (w : World) (b : Bool), WInv w → (∀ j, j ∈ l → (w.get j).isSome = true) →
    WInv (l.foldl (fun (acc : World × Bool) j => match acc.1.get j with
        | none => (acc.1, true)
        | some _ => (wRefresh acc.1 j, acc.2)) (w, b)).1 ∧
    (l.foldl (fun (acc : World × Bool) j => match acc.1.get j with
        | none => (acc.1, true)
        | some _ => (wRefresh acc.1 j, acc.2)) (w, b)).2 = b := by
  intro l
  induction l with
  | nil => intro w b h _; exact ⟨h, rfl⟩
  | cons j l ih =>
    intro w b h hl
    simp only [List.foldl_cons]
    have hj := hl j (by simp)
    cases hg : w.get j with
    | none => rw [hg] at hj; cases hj
    | some a =>
      simp only
      exact ih (wRefresh w j) b (wRefresh_inv w j h) (fun i hi => wRefresh_alive w j i (hl i (by simp [hi])))

theorem wCalUpdate_inv (w : World) (cal : Calendar) (h : WInv w) :
    WInv (wCalUpdate w cal).1 ∧ (wCalUpdate w cal).2 = false := by
  unfold wCalUpdate
  exact calLoop_inv w.watch { w with cal := cal } false ⟨h.alarms, h.watch, h.log⟩ h.watch

theorem wInitOp_inv (w : World) (j : Nat) (sod : Int) (m : List Bool) (wd : Bool) (h : WInv w) : WInv (wInitOp w j sod m wd).1 := by
  unfold wInitOp
  cases hg : w.get j with
  | none => exact h
  | some a => exact winv_put w j _ h (initAlarm_ainv a sod m wd (h.alarms j a hg))

theorem wTz_inv (w : World) (j : Nat) (m : Int) (h : WInv w) : WInv (wTz w j m).1 := by
  unfold wTz
  cases hg : w.get j with
  | none => exact h
  | some a => exact winv_put w j _ h (ainv_congr (b := setTimezone a m) (h.alarms j a hg) rfl rfl rfl rfl rfl rfl)

theorem wSetCb_inv (w : World) (j : Nat) (h : WInv w) : WInv (wSetCb w j).1 := by
  unfold wSetCb
  cases hg : w.get j with
  | none => exact h
  | some a => exact winv_put w j _ h (ainv_congr (b := { a with hasCb := true }) (h.alarms j a hg) rfl rfl rfl rfl rfl rfl)

theorem wInitc_inv (w : World) (j : Nat) (x : Option Cron.Expr) (h : WInv w) : WInv (wInitc w j x).1 := by
  unfold wInitc
  cases hg : w.get j with
  | none => exact h
  | some a => exact winv_put w j _ h (initCron_ainv a x (h.alarms j a hg))

theorem applyAct_inv (w : World) (a : Act) (h : WInv w) : WInv (applyAct w a) := by
  cases a with
  | initc j x => exact wInitc_inv w j x h
  | cleanup j => exact wSetCb_inv _ j (wCleanup_inv w j h)
  | init j sod m wd => exact wInitOp_inv w j sod m wd h
  | tz j m => exact wTz_inv w j m h
  | refresh j => exact wRefresh_inv w j h
  | disable j => exact wDisable_inv w j h
  | enable j => exact wEnable_inv w j h
  | destroy j => exact wDestroy_inv w j h
  | calMask m => exact (wCalUpdate_inv w _ h).1
  | calSp sp => exact (wCalUpdate_inv w _ h).1

theorem runScript_inv : ∀ (l : List Act) (w : World), WInv w → WInv (runScript w l) := by
  intro l
  induction l with
  | nil => intro w h; exact h
  | cons a l ih => intro w h; exact ih _ (applyAct_inv w a h)

theorem canFire_armed {w : World} {j : Nat} (h : canFire w j = true) :
    ∃ a d, w.get j = some a ∧ a.timer = some d ∧ d ≤ w.monoMs := by
  unfold canFire at h
  cases hg : w.get j with
  | none => simp [hg] at h
  | some a =>
    cases ht : a.timer with
    | none => simp [hg, ht] at h
    | some d =>
      simp only [hg, ht, Bool.and_eq_true, decide_eq_true_eq] at h
      exact ⟨a, d, rfl, ht, h.1⟩

theorem wFire_inv (w : World) (j : Nat) (h : WInv w) (hc : canFire w j = true) : WInv (wFire w j) := by
  obtain ⟨a, d, hg, ht, _⟩ := canFire_armed hc
  have ha := h.alarms j a hg
  have hrun : a.st = .running := ha.inv.mpr (by simp [ht])
  unfold wFire
  simp only [hg]
  have h1 := winv_put w j (expire a w.env).1 h (expire_ainv a w.env ha)
  have h2 : WInv { w.put j (some (expire a w.env).1) with
      log := { slot := j, instant := (expire a w.env).2.1, prev := a.lastServed, wasRunning := (expire a w.env).2.2,
               inRange := !a.wrapped } :: w.log } := by
    refine ⟨h1.alarms, h1.watch, ?_⟩
    intro ev hev
    simp only [List.mem_cons] at hev
    rcases hev with hev | hev
    · subst hev
      simp only [expire_served, hrun, decide_true, Bool.not_eq_eq_eq_not, Bool.not_true, true_and]
      intro hf
      exact ha.k hrun hf
    · exact h.log ev hev
  split
  · exact runScript_inv _ _ h2
  · exact h2

theorem wOp_inv (w : World) (o : WOp) (h : WInv w) : WInv (wOp w o).1 := by
  cases o with
  | new j c sc =>
    cases hg : w.get j with
    | some a => simp only [wOp, hg]; exact h
    | none =>
      simp only [wOp, hg]
      have h1 := winv_put w j (fresh c) h (fresh_ainv c)
      exact ⟨h1.alarms, h1.watch, h1.log⟩
  | init j sod m wd => exact wInitOp_inv w j sod m wd h
  | initc j x => exact wInitc_inv w j x h
  | tz j m => exact wTz_inv w j m h
  | enable j => exact wEnable_inv w j h
  | disable j => exact wDisable_inv w j h
  | refresh j => exact wRefresh_inv w j h
  | cleanup j => exact wCleanup_inv w j h
  | setCb j => exact wSetCb_inv w j h
  | destroy j => exact wDestroy_inv w j h
  | calMask m => exact (wCalUpdate_inv w _ h).1
  | calSp sp => exact (wCalUpdate_inv w _ h).1
  | adv d => exact ⟨h.alarms, h.watch, h.log⟩
  | mono d => exact ⟨h.alarms, h.watch, h.log⟩
  | wall v => exact ⟨h.alarms, h.watch, h.log⟩

theorem wExec_inv : ∀ (sts : List WStep) (w w' : World), WInv w → wExec w sts = some w' → WInv w' := by
  intro sts
  induction sts with
  | nil => intro w w' h he; simp only [wExec, Option.some.injEq] at he; subst he; exact h
  | cons st sts ih =>
    intro w w' h he
    unfold wExec at he
    split at he
    · rename_i hv
      apply ih _ w' _ he
      cases st with
      | op o => exact wOp_inv w o h
      | fire j => exact wFire_inv w j h hv
    · cases he

end Tbox.C20
