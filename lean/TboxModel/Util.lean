/- Shared helpers for the line-protocol drivers (core Lean only, no Mathlib). -/
namespace Tbox.Util

def hexDigit (n : Nat) : Char :=
  if n < 10 then Char.ofNat (48 + n) else Char.ofNat (87 + n)

def hexOfByte (b : UInt8) : String :=
  String.ofList [hexDigit (b.toNat / 16), hexDigit (b.toNat % 16)]

/-- bytes → lowercase hex, "-" for the empty string (so a field is never empty) -/
def hexOfBytes (bs : List UInt8) : String :=
  if bs.isEmpty then "-" else String.join (bs.map hexOfByte)

def hexVal (c : Char) : Option Nat :=
  if '0' ≤ c ∧ c ≤ '9' then some (c.toNat - 48)
  else if 'a' ≤ c ∧ c ≤ 'f' then some (c.toNat - 87)
  else if 'A' ≤ c ∧ c ≤ 'F' then some (c.toNat - 55)
  else none

def bytesOfHexChars : List Char → Option (List UInt8)
  | [] => some []
  | [_] => none
  | a :: b :: rest => do
      let x ← hexVal a
      let y ← hexVal b
      let r ← bytesOfHexChars rest
      pure (UInt8.ofNat (x * 16 + y) :: r)

/-- inverse of `hexOfBytes` -/
def bytesOfHex (s : String) : Option (List UInt8) :=
  if s == "-" then some [] else bytesOfHexChars s.toList

def words (line : String) : List String :=
  (line.trimAscii.toString.splitOn " ").filter (· ≠ "")

def intOfString? (s : String) : Option Int :=
  if s.startsWith "-" then (s.drop 1).toString.toNat?.map (fun n => - (Int.ofNat n))
  else s.toNat?.map Int.ofNat

/-- run `step` over every stdin line, threading a state; `step` returns the new state and
the lines to print -/
partial def lineLoop {σ : Type} (h : IO.FS.Stream) (out : IO.FS.Stream) (st : σ)
    (step : σ → String → σ × List String) : IO Unit := do
  let line ← h.getLine
  if line.isEmpty then
    out.flush
    return ()
  let (st', outs) := step st line
  for o in outs do
    out.putStrLn o
  lineLoop h out st' step

def runDriver {σ : Type} (init : σ) (step : σ → String → σ × List String) : IO Unit := do
  let stdin ← IO.getStdin
  let stdout ← IO.getStdout
  lineLoop stdin stdout init step

end Tbox.Util
