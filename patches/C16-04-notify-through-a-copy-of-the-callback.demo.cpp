#include <tbox/flow/state_machine.h>
#include <vector>
#include <cstdio>
using namespace tbox::flow;
int main() {
    StateMachine sm;
    sm.newState(1, nullptr, nullptr); sm.newState(2, nullptr, nullptr);
    sm.addRoute(1, 1, 2, nullptr, nullptr);
    std::vector<int> big(100, 7);
    sm.setStateChangedCallback([&sm, big](int, int, Event) {
        sm.setStateChangedCallback([](int, int, Event) {});   // replaces the executing closure
        std::printf("%d\n", big[50]);                         // touches a capture afterwards
    });
    sm.start(); sm.run(1);
    return 0;
}
